(* Driver for the extracted model: reads case lines on stdin, writes one
   canonical result line per case.  All logic is in the extracted Gallina
   (Model.run_line); this file only converts OCaml strings <-> list byte. *)

(* [byte] is extracted as an inductive with 256 constant constructors in
   order X00..Xff, hence represented as the immediate ints 0..255.  The
   self-test below checks that against the extracted b2n/n2b. *)
let byte_of_int (i : int) : Model.byte = Obj.magic i
let int_of_byte (b : Model.byte) : int = Obj.magic b

let rec int_of_pos = function
  | Model.XH -> 1
  | Model.XO p -> 2 * int_of_pos p
  | Model.XI p -> 2 * int_of_pos p + 1
let int_of_n = function Model.N0 -> 0 | Model.Npos p -> int_of_pos p

let selftest () =
  for i = 0 to 255 do
    if int_of_n (Model.b2n (byte_of_int i)) <> i then (prerr_endline "byte repr self-test failed"; exit 2)
  done

let bytes_of_string (s : String.t) : Model.byte list =
  let r = ref [] in
  for i = String.length s - 1 downto 0 do r := byte_of_int (Char.code s.[i]) :: !r done;
  !r

let string_of_bytes (l : Model.byte list) : String.t =
  let b = Buffer.create 256 in
  List.iter (fun c -> Buffer.add_char b (Char.chr (int_of_byte c))) l;
  Buffer.contents b

let () =
  selftest ();
  match Array.to_list Sys.argv with
  | _ :: "gen" :: fam :: seed :: n :: _ ->
      let rec pos_of_int i = if i = 1 then Model.XH else if i land 1 = 0 then Model.XO (pos_of_int (i lsr 1)) else Model.XI (pos_of_int (i lsr 1)) in
      let n_of_int i = if i = 0 then Model.N0 else Model.Npos (pos_of_int i) in
      List.iter (fun l -> print_endline (string_of_bytes l))
        (Model.gen_lines (bytes_of_string fam) (n_of_int (int_of_string seed)) (n_of_int (int_of_string n)))
  | _ :: "families" :: _ ->
      List.iter (fun n -> print_endline (string_of_bytes n)) Model.family_names
  | _ :: "entries" :: _ ->
      List.iter (fun n -> print_endline (string_of_bytes n)) Model.entry_names
  | _ ->
      (try
         while true do
           let line = input_line stdin in
           let out = try string_of_bytes (Model.run_line (bytes_of_string line))
             with Stack_overflow -> "(model-stack-overflow)" in
           print_string out; print_char '\n'
         done
       with End_of_file -> ())
