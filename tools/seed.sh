#!/bin/bash
# seed.sh <property> <name> <worktree>: confirm a sub-agent's change in its scratch worktree, store it under
# /verif/seeded/<name>/, run ./check <property> with it applied to /repo, undo, remove the worktree.
set -u
PID=$1; NAME=$2; WT=$3; FEAT="${SEED_FEATURES:+--features $SEED_FEATURES} ${SEED_FLAGS:-}"
D=/verif/seeded/$NAME
mkdir -p $D
git -C $WT diff > $D/patch.diff
cp $WT/tests/demo_mutant.rs $D/demo_mutant.rs 2>/dev/null
cd $WT
echo "== existing suite with the change"; (cargo test --offline --no-fail-fast $FEAT 2>&1 | grep -E "^test result|Running|error\[" | grep -v demo_mutant | grep -c "test result: ok") > $D/existing_ok_count.txt; cat $D/existing_ok_count.txt
cargo test --offline --no-fail-fast $FEAT 2>&1 | grep -E "^test result" | grep -v " 0 failed" | head -3 > $D/with_change_failing_targets.txt
echo "== demo with the change (must fail)"; cargo test --offline $FEAT --test demo_mutant > $D/demo_with.log 2>&1; WITH=$?; echo rc=$WITH
git apply -R $D/patch.diff      # (git stash is shared between worktrees: not used)
echo "== demo without the change (must pass)"; cargo test --offline $FEAT --test demo_mutant > $D/demo_without.log 2>&1; WITHOUT=$?; echo rc=$WITHOUT
git apply $D/patch.diff
cd /verif
cp evidence/$PID.json /tmp/evidence-$PID.keep 2>/dev/null   # the evidence file must describe the unchanged tree
git -C /repo apply $D/patch.diff && { ./check $PID > $D/check_output.txt 2>&1; CHK=$?; } ; git -C /repo checkout -- .
cp /tmp/evidence-$PID.keep evidence/$PID.json 2>/dev/null; rm -f /tmp/evidence-$PID.keep ; git -C /repo status --short | head -3
echo "check rc=$CHK"; grep -E "^VIOLATION|^KNOWN" $D/check_output.txt | head -5
python3 - <<PY
import json
json.dump({"property":"$PID","name":"$NAME","demo_fails_with_change":$WITH!=0,"demo_passes_without_change":$WITHOUT==0,
 "existing_suite_targets_ok_with_change":int(open("$D/existing_ok_count.txt").read().strip() or 0),
 "check_cmd":"./check $PID","check_exit":$CHK,
 "ran":["cargo test --offline --no-fail-fast (with change)","cargo test --offline $FEAT --test demo_mutant (with / without via git apply -R)","git -C /repo apply patch.diff; ./check $PID; git -C /repo checkout -- ."]},
 open("$D/meta.json","w"),indent=1)
PY
rm -f $D/existing_ok_count.txt
