"""Per-property configuration of ./check."""
REC3 = ["parse_tls_plaintext", "parse_tls_raw_record", "parse_tls_encrypted"]

PROPS = {
 "C02": dict(
    families=[("record", 250), ("opaque", 150), ("toolarge", 60)],
    corpus_entries=REC3 + ["parse_tls_record_header"],
    mutate_entries=REC3, mutate_budget=40, mutate_sources=120,
    small_scope=[(e, [], 1, 4) for e in REC3] + [("parse_tls_record_header", [], 1, 4)],
    expect_entries=["parse_tls_raw_record", "parse_tls_encrypted"],
    spec={"parse_tls_raw_record": "spec.parse_tls_raw_record", "parse_tls_encrypted": "spec.parse_tls_encrypted",
          "parse_tls_plaintext": "spec.parse_tls_plaintext", "tls_parser": "spec.parse_tls_plaintext"},
    thorough_mult=20,
 ),
}
