"""Per-property configuration of ./check."""
import re
REC3 = ["parse_tls_plaintext", "parse_tls_raw_record", "parse_tls_encrypted"]

PROPS = {
 "C02": dict(
    families=[("record", 250), ("opaque", 150), ("toolarge", 60)],
    corpus_entries=REC3 + ["parse_tls_record_header"],
    mutate_entries=REC3, mutate_budget=40, mutate_sources=120,
    small_scope=[(e, [], 1, 4) for e in REC3] + [("parse_tls_record_header", [], 1, 4)],
    expect_entries=["parse_tls_raw_record", "parse_tls_encrypted"],
    spec={"parse_tls_raw_record": "spec.parse_tls_raw_record", "parse_tls_encrypted": "spec.parse_tls_encrypted",
          "parse_tls_plaintext": "spec.parse_tls_plaintext", "tls_parser": "spec.parse_tls_plaintext"},
    thorough_mult=20,
 ),
}

PROPS["C08"] = dict(
    families=[], corpus_entries=[], small_scope=[],
    spec={"states": "spec.states"},
    thorough_mult=1,
)

def _state_cells(tier, rng):
    from vlib import Case
    out = []
    for st in range(25):
        for d in (0, 1):
            for k in range(17):
                for sid in (0, 1):
                    for var in (0, 1, 2):
                        out.append("states %d 0,%d,%d,%d,%d" % (st, k, sid, var, d))
            out.append("states %d 1,%d" % (st, d))
            codes = range(256) if tier == "thorough" else (0, 10, 40, 255)
            for sev in range(256):
                for code in codes:
                    out.append("states %d 2,%d,%d,%d" % (st, sev, code, d))
            for var in range(3):
                out.append("states %d 3,%d,%d" % (st, var, d))
                out.append("states %d 4,%d,%d" % (st, var, d))
    # random message sequences from state None (and from random states)
    def rmsg():
        r = rng.random()
        d = rng.randrange(2)
        if r < 0.7: return "0,%d,%d,%d,%d" % (rng.randrange(17), rng.randrange(2), rng.randrange(3), d)
        if r < 0.85: return "1,%d" % d
        if r < 0.95: return "2,%d,%d,%d" % (rng.choice([0, 1, 1, 1, 2, 255, rng.randrange(256)]), rng.randrange(256), d)
        return "%d,%d,%d" % (rng.choice([3, 4]), rng.randrange(3), d)
    # guided walks along the documented flows (so that deep states are reached) with random deviations
    FLOW = ["0,1,0,0,1", "0,2,0,0,0", "0,7,0,1,0", "0,14,0,0,0", "0,8,0,0,0", "0,9,0,0,0", "0,10,0,0,0", "0,7,0,1,1",
            "0,12,0,0,1", "0,11,0,0,1", "1,1", "0,4,0,0,0", "1,0"]
    n = 4000 if tier == "quick" else 60000
    for _ in range(n):
        st = 0 if rng.random() < 0.7 else rng.randrange(25)
        L = rng.randrange(1, 14)
        if rng.random() < 0.5:
            seq = [m if rng.random() < 0.8 else rmsg() for m in FLOW if rng.random() < 0.8][:L]
        else:
            seq = [rmsg() for _ in range(L)]
        out.append("states %d %s" % (st, " ".join(seq)))
    return [Case(l, "", "cells" if l.count(" ") == 2 else "sequence") for l in out]

NT8 = ["TlsRecordType", "TlsHandshakeType", "TlsHeartbeatMessageType", "TlsCompressionID", "KeyUpdateRequest",
       "TlsAlertSeverity", "TlsAlertDescription", "PskKeyExchangeMode", "SNIType", "CertificateStatusType",
       "ECCurveType", "HashAlgorithm", "SignAlgorithm", "CtVersion"]
NT16 = ["TlsVersion", "TlsExtensionType", "NamedGroup", "SignatureScheme"]
CONV = {"TlsRecordType": 8, "TlsHandshakeType": 8, "TlsHeartbeatMessageType": 8, "TlsVersion": 16,
        "TlsCompressionID": 8, "TlsCipherSuiteID": 16, "TlsExtensionType": 16}
PROPS["C17"] = dict(
    families=[], corpus_entries=[], small_scope=[],
    spec={"@nt": "spec.@nt", "@conv": "spec.@conv", "@sig": "spec.@sig", "@keybits": "spec.@keybits"},
    thorough_mult=1,
)
def _nt_cases(tier, rng):
    from vlib import Case
    def dom16():
        if tier == "thorough": return range(65536)
        s = set(range(0, 1100)) | set(range(0x7f00, 0x7f40)) | set(range(0xfd00, 0x10000)) | set(range(13100, 13200))
        s |= set(range(0x0a00, 0xfb00, 0x101)) | {rng.randrange(65536) for _ in range(3000)}
        s |= {0x0a0a + 0x1010 * k for k in range(16)} | {0x0a0a + 0x1010 * k + d for k in range(16) for d in (-1, 1, 0x100, -0x100)}   # GREASE and neighbours
        return sorted(x for x in s if 0 <= x < 65536)
    out = []
    for t in NT8:
        out += ["@nt %s %d" % (t, n) for n in range(256)]
    for t in NT16:
        out += ["@nt %s %d" % (t, n) for n in dom16()]
    for t, w in CONV.items():
        out += ["@conv %s %d" % (t, n) for n in (range(256) if w == 8 else range(65536))]
    out += ["@sig %d" % n for n in dom16()]
    out += ["@keybits %d" % n for n in dom16()]
    return [Case(l, "", "registry") for l in out]

PROPS["C12"] = dict(
    families=[], corpus_entries=[], small_scope=[],
    spec={"@from_name": "spec.@from_name", "@conv": "spec.@conv", "@cipher": "spec.@cipher"},
    thorough_mult=1,
)
def _cipher_cases(tier, rng):
    from vlib import Case, REPO
    import os
    names = [l.split(":")[1] for l in open(os.path.join(REPO, "scripts", "tls-ciphersuites.txt")) if l.count(":") >= 9]
    out = set()
    for n in names:
        out.add(n)
        for k in (range(len(n)) if tier == "thorough" else [0, 1, len(n) // 2, len(n) - 2, len(n) - 1]):
            out.add(n[:k])
        out.add(n.lower()); out.add(n.upper()); out.add(n.swapcase()); out.add(n.title()); out.add(n + "_"); out.add(n + " "); out.add(" " + n); out.add(n + "8")
        k = rng.randrange(len(n)); c = n[k]
        out.add(n[:k] + ("X" if c != "X" else "Y") + n[k+1:])
        out.add(n[:k] + n[k+1:])
        out.add(n.replace("_", "-"))
    out.update(["", "TLS", "Unknown cipher", "TLS_", "tls_null_with_null_null"])
    cases = ["@from_name %s" % (x.encode().hex() or "-") for x in sorted(out)]
    # cipher ids: Display / LowerHex / Debug / conversions on every id
    ids = range(65536) if tier == "thorough" else sorted(set(range(0, 0x200)) | set(range(0x1300, 0x1310)) | set(range(0xc000, 0xc200)) | set(range(0xcc00, 0xcd00)) | {rng.randrange(65536) for _ in range(2000)})
    cases += ["@conv TlsCipherSuiteID %d" % i for i in ids]
    listed = [int(l.split(":")[0], 16) for l in open(os.path.join(REPO, "scripts", "tls-ciphersuites.txt")) if l.count(":") >= 9]
    cases += ["@cipher %d" % i for i in (range(65536) if tier == "thorough" else sorted(set(ids) | set(listed) | set(range(0, 65536, 251))))]
    return [Case(l, "", "registry") for l in cases]

MSG_ENTRIES = ["parse_tls_message_changecipherspec", "parse_tls_message_alert", "parse_tls_message_applicationdata",
               "parse_tls_message_heartbeat", "parse_tls_message_handshake"]
PROPS["C03"] = dict(
    families=[("record", 400), ("message", 200), ("handshake", 100)],
    corpus_entries=["parse_tls_plaintext", "parse_tls_record_with_header"] + MSG_ENTRIES,
    mutate_entries=["parse_tls_plaintext", "parse_tls_record_with_header"] + MSG_ENTRIES, mutate_budget=30, mutate_sources=200,
    small_scope=[("parse_tls_record_with_header", [ct, 771, 4], 1, 4) for ct in (20, 21, 22, 23, 24, 25, 0, 255)] +
                [(e, [], 1, 3) for e in MSG_ENTRIES if e != "parse_tls_message_heartbeat"] + [("parse_tls_message_heartbeat", [l], 1, 3) for l in (0, 2, 3, 9)],
    expect_entries=["parse_tls_plaintext", "parse_tls_record_with_header"] + MSG_ENTRIES,
    spec={"parse_tls_plaintext": "spec.parse_tls_plaintext"},
    thorough_mult=20,
)
HS_ENTRIES = ["parse_tls_message_handshake", "parse_tls_handshake_client_hello", "parse_tls_handshake_server_hello",
              "parse_tls_handshake_certificaterequest", "parse_tls_handshake_certificatestatus", "parse_tls_handshake_next_protocol",
              "parse_tls_handshake_msg_hello_request", "parse_tls_handshake_msg_client_hello", "parse_tls_handshake_msg_server_hello",
              "parse_tls_handshake_msg_hello_retry_request", "parse_tls_handshake_msg_certificate",
              "parse_tls_handshake_msg_certificaterequest", "parse_tls_handshake_msg_certificatestatus",
              "parse_tls_handshake_msg_next_protocol", "parse_tls_handshake_msg_key_update"]
HS_LEN_ENTRIES = ["parse_tls_handshake_msg_newsessionticket", "parse_tls_handshake_msg_serverkeyexchange", "parse_tls_handshake_msg_serverdone",
                  "parse_tls_handshake_msg_certificateverify", "parse_tls_handshake_msg_clientkeyexchange", "parse_tls_handshake_msg_finished"]
PROPS["C04"] = dict(
    families=[("handshake", 600), ("hsbody", 300)],
    corpus_entries=HS_ENTRIES + HS_LEN_ENTRIES,
    mutate_entries=HS_ENTRIES + HS_LEN_ENTRIES, mutate_budget=60, mutate_sources=500,
    small_scope=[(e, [], 1, 4) for e in HS_ENTRIES] + [(e, [l], 1, 3) for e in HS_LEN_ENTRIES for l in (0, 1, 3, 4, 5)],
    expect_entries=HS_ENTRIES + HS_LEN_ENTRIES,
    thorough_mult=20,
)
EXT_SINGLE = ["parse_tls_extension", "parse_tls_client_hello_extension", "parse_tls_server_hello_extension"]
EXT_LISTS = ["parse_tls_extensions", "parse_tls_client_hello_extensions", "parse_tls_server_hello_extensions"]
EXT_TAGGED = ["parse_tls_extension_" + n for n in ["sni", "max_fragment_length", "status_request", "elliptic_curves", "ec_point_formats",
              "signature_algorithms", "heartbeat", "encrypt_then_mac", "extended_master_secret", "session_ticket", "key_share",
              "pre_shared_key", "early_data", "supported_versions", "cookie", "psk_key_exchange_modes"]]
EXT_CONTENT = ["parse_tls_extension_unknown", "parse_tls_extension_sni_hostname", "parse_tls_extension_sni_content",
               "parse_tls_extension_max_fragment_length_content", "parse_tls_extension_elliptic_curves_content",
               "parse_tls_extension_ec_point_formats_content", "parse_tls_extension_signature_algorithms_content",
               "parse_tls_extension_heartbeat_content", "parse_tls_extension_alpn_content",
               "parse_tls_extension_signed_certificate_timestamp_content", "parse_tls_extension_psk_key_exchange_modes_content",
               "parse_tls_extension_renegotiation_info_content", "parse_tls_extension_encrypted_server_name", "parse_named_groups"]
TAGGED_TYPES = {"parse_tls_extension_sni": 0, "parse_tls_extension_max_fragment_length": 1, "parse_tls_extension_status_request": 5,
                "parse_tls_extension_elliptic_curves": 10, "parse_tls_extension_ec_point_formats": 11, "parse_tls_extension_signature_algorithms": 13,
                "parse_tls_extension_heartbeat": 15, "parse_tls_extension_encrypt_then_mac": 22, "parse_tls_extension_extended_master_secret": 23,
                "parse_tls_extension_session_ticket": 35, "parse_tls_extension_key_share": 51, "parse_tls_extension_pre_shared_key": 41,
                "parse_tls_extension_early_data": 42, "parse_tls_extension_supported_versions": 43, "parse_tls_extension_cookie": 44,
                "parse_tls_extension_psk_key_exchange_modes": 45}
PROPS["C05"] = dict(
    families=[("ext", 700), ("extwrong", 200), ("extlist", 200)],
    corpus_entries=EXT_SINGLE + EXT_LISTS + EXT_TAGGED + EXT_CONTENT,
    mutate_entries=EXT_SINGLE + EXT_LISTS + EXT_TAGGED, mutate_budget=40, mutate_sources=500,
    small_scope=[(e, [], 1, 3) for e in EXT_SINGLE + EXT_LISTS + EXT_TAGGED + EXT_CONTENT],
    expect_entries=EXT_SINGLE + EXT_LISTS + EXT_TAGGED, spec={"@exttype": "spec.@exttype"},
    thorough_mult=15,
)
DTLS_ENTRIES = ["parse_dtls_record_header", "parse_dtls_message_handshake", "parse_dtls_message_changecipherspec",
                "parse_dtls_message_alert", "parse_dtls_plaintext_record", "parse_dtls_plaintext_records"]
PROPS["C10"] = dict(
    families=[("dtls", 500), ("dtlsmulti", 150)],
    corpus_entries=DTLS_ENTRIES + ["parse_dtls_record_with_header"],
    mutate_entries=DTLS_ENTRIES + ["parse_dtls_record_with_header"], mutate_budget=50, mutate_sources=500,
    small_scope=[(e, [], 1, 4) for e in DTLS_ENTRIES] + [("parse_dtls_record_with_header", [ct, 65277, 0, 1, 4], 1, 3) for ct in (20, 21, 22, 23, 24, 0)],
    expect_entries=DTLS_ENTRIES + ["parse_dtls_record_with_header"],
    thorough_mult=15,
)
PROPS["C16"] = dict(
    families=[("multi", 500), ("dtlsmulti", 300)],
    corpus_entries=["tls_parser_many", "tls_parser", "parse_tls_plaintext", "parse_dtls_plaintext_records"],
    mutate_entries=["tls_parser_many", "parse_dtls_plaintext_records"], mutate_budget=25, mutate_sources=150,
    small_scope=[("tls_parser_many", [], 1, 4), ("parse_dtls_plaintext_records", [], 1, 4), ("tls_parser", [], 1, 3)],
    expect_entries=["tls_parser_many", "parse_dtls_plaintext_records"],
    thorough_mult=20,
)

KX_ENTRIES = ["parse_dh_params", "parse_ec_parameters", "parse_ecdh_params", "parse_digitally_signed", "parse_digitally_signed_old",
              "ECPoint::parse", "ECCurve::parse", "ExplicitPrimeContent::parse", "parse_content_and_signature_dh", "parse_content_and_signature_ecdh"]
PROPS["C13"] = dict(
    families=[("kx", 250)], corpus_entries=KX_ENTRIES, mutate_entries=KX_ENTRIES, mutate_budget=30, mutate_sources=300,
    small_scope=[(e, [], 1, 4) for e in KX_ENTRIES[:8]] + [(e, [f], 1, 3) for e in KX_ENTRIES[8:] for f in (0, 1)] +
                [("ECParametersContent::parse", [t], 1, 3) for t in range(0, 6)],
    expect_entries=KX_ENTRIES, thorough_mult=20,
)
C11_ENTRIES = ["parse_tls_raw_record", "parse_tls_encrypted", "parse_tls_plaintext", "parse_tls_message_alert", "parse_tls_message_heartbeat",
               "parse_tls_message_handshake", "parse_tls_extension", "parse_digitally_signed", "parse_ec_parameters",
               "parse_ct_signed_certificate_timestamp", "parse_ct_signed_certificate_timestamp_list"]
PROPS["C11"] = dict(
    families=[("record", 100), ("handshake", 200), ("ext", 200), ("kx", 60), ("ct", 60)],
    corpus_entries=C11_ENTRIES, mutate_entries=[], mutate_budget=0, mutate_sources=0, small_scope=[],
    expect_entries=C11_ENTRIES + EXT_SINGLE + KX_ENTRIES + HS_ENTRIES + ["parse_tls_record_with_header"] + MSG_ENTRIES,
    thorough_mult=10,
)
SELF_DELIM = ["parse_tls_plaintext", "parse_tls_encrypted", "parse_tls_raw_record", "tls_parser", "parse_tls_message_handshake"] + \
             EXT_SINGLE + EXT_TAGGED + \
             ["parse_dh_params", "parse_ec_parameters", "parse_ecdh_params", "parse_digitally_signed", "parse_digitally_signed_old",
              "ECPoint::parse", "ExplicitPrimeContent::parse", "parse_content_and_signature_dh", "parse_content_and_signature_ecdh",
              "parse_ct_signed_certificate_timestamp", "parse_ct_signed_certificate_timestamp_list",
              "parse_dtls_plaintext_record", "parse_dtls_message_handshake", "parse_dtls_record_header", "parse_tls_record_header"]
PROPS["C06"] = dict(
    families=[("record", 150), ("handshake", 150), ("multi", 60), ("ext", 250), ("kx", 120), ("ct", 100), ("dtls", 150)],
    corpus_entries=SELF_DELIM, mutate_entries=SELF_DELIM, mutate_budget=12, mutate_sources=120,
    small_scope=[], expect_entries=[], thorough_mult=15,
)
CT_ENTRIES = ["parse_ct_signed_certificate_timestamp", "parse_ct_signed_certificate_timestamp_list"]
PROPS["C14"] = dict(
    families=[("ct", 300)], corpus_entries=CT_ENTRIES, mutate_entries=CT_ENTRIES, mutate_budget=60, mutate_sources=300,
    small_scope=[(e, [], 1, 4) for e in CT_ENTRIES], expect_entries=CT_ENTRIES, thorough_mult=20,
)

def _chain_oracle(cases, outs, binp, many, single):
    """C16: the multi-record parser returns exactly what repeated application of the single-record parser
    (of the implementation itself) returns; remainder starts at the first record that fails"""
    import vlib
    fails = []
    todo = [(k, vlib.split_line(c.line)[2]) for k, c in enumerate(cases) if c.line.split(" ")[0] == many]
    state = {k: dict(buf=(bytes.fromhex(h) if h != "-" else b""), pos=0, recs=[], done=False, first_err=None) for k, h in todo}
    for _round in range(12):
        active = [k for k in state if not state[k]["done"]]
        if not active: break
        lines = ["%s %s" % (single, (state[k]["buf"][state[k]["pos"]:].hex() or "-")) for k in active]
        res, _ = vlib.run_lines(binp, lines, label="chain")
        for k, o in zip(active, res):
            st = state[k]
            m = re.match(r"\(ok @(\S+)\+(\d+) (.*)\)$", o or "")
            if not m:
                st["done"] = True
                if not st["recs"]: st["first_err"] = o
                continue
            remaining = int(m.group(2))
            consumed = (len(st["buf"]) - st["pos"]) - remaining
            if consumed <= 0: st["done"] = True; continue
            st["recs"].append(vlib.strip_offsets(m.group(3))); st["pos"] += consumed
    for k, h in todo:
        st = state[k]; o = outs[k]
        if o is None: continue
        if st["recs"]:
            want = "(ok @+%d [%s])" % (len(st["buf"]) - st["pos"], " ".join(st["recs"]))
            if vlib.strip_offsets(o) != want and not (st["done"] is False):
                fails.append((cases[k], o, "repeated single-record parsing gives %s" % want[:300]))
        else:
            if (o or "").startswith("(ok"):
                fails.append((cases[k], o, "the first record does not parse (%s) but the multi-record parser returned a value" % st["first_err"]))
    return fails

def _length_sweep(tier, rng):
    """declared lengths x versions x content types, header only / header + a few bytes (C02: the cap must not
    depend on version or type; Needed must be exact)"""
    from vlib import Case
    if tier == "thorough": lens = range(65536)
    else: lens = sorted(set(range(0, 65536, 37)) | set(range(16600, 16700)) | set(range(0, 40)) | set(range(65500, 65536))
                        | {16384, 16385, 18432, 18433, 32767, 32768})
    vers = [0x0300, 0x0301, 0x0302, 0x0303, 0x0304, 0xfeff, 0xfefd, 0x7f12, 0x0000, 0xffff]
    out = []
    for L in lens:
        for v in (vers if tier == "thorough" or 16600 <= L < 16700 else [rng.choice(vers), rng.choice(vers[:5])]):
            ct = rng.choice([20, 21, 22, 23, 24, rng.randrange(256)])
            hdr = bytes([ct, v >> 8, v & 255, L >> 8, L & 255])
            tail = bytes(rng.randrange(256) for _ in range(rng.choice([0, 0, 1, 3])))
            for e in ("parse_tls_raw_record", "parse_tls_encrypted", "parse_tls_plaintext"):
                out.append(Case("%s %s" % (e, (hdr + tail).hex()), "", "lengths"))
    # above the cap with the whole declared payload (and more) present: still TooLarge, "whatever follows"
    CAP = 16384 + 256
    for L in (CAP + 1, CAP + 2, 18432, 18433, 32768, 65535):
        for avail in (L - 1, L, L + 1, L + 9):
            ct = rng.choice([20, 21, 22, 23, 24])
            v = rng.choice(vers)
            payload = (bytes([1]) * avail) if ct == 20 else bytes(rng.randrange(256) for _ in range(avail))
            for e in ("parse_tls_raw_record", "parse_tls_encrypted", "parse_tls_plaintext"):
                out.append(Case("%s %s" % (e, (bytes([ct, v >> 8, v & 255, L >> 8, L & 255]) + payload).hex()), "(err TooLarge @5+%d)" % avail, "lengths"))
    # buffers beyond 64 KiB behind a short record: the bytes available are not a 16-bit quantity
    for L in (1, 1000, CAP):
        for avail in (65535, 65536, 65537, 65546, 131072 + 7):
            pl = bytes((k * 7 + 3) & 255 for k in range(avail))
            for e, nm in (("parse_tls_raw_record", "Raw"), ("parse_tls_encrypted", "Encrypted")):
                out.append(Case("%s %s" % (e, (bytes([23, 3, 3, L >> 8, L & 255]) + pl).hex()),
                                "(ok @%d+%d (%s (Hdr 23 771 %d) #5:%s))" % (5 + L, avail - L, nm, L, pl[:L].hex()), "lengths"))
            out.append(Case("parse_tls_plaintext %s" % (bytes([23, 3, 3, L >> 8, L & 255]) + pl).hex(),
                            "(ok @%d+%d (Plaintext (Hdr 23 771 %d) [(ApplicationData #5:%s)]))" % (5 + L, avail - L, L, pl[:L].hex()), "lengths"))
    # at the cap, whole payload present: framed
    for e, nm in (("parse_tls_raw_record", "Raw"), ("parse_tls_encrypted", "Encrypted")):
        for L in (CAP - 1, CAP):
            pl = bytes(rng.randrange(256) for _ in range(L))
            out.append(Case("%s %s" % (e, (bytes([23, 3, 3, L >> 8, L & 255]) + pl + b"\x99").hex()), "(ok @%d+1 (%s (Hdr 23 771 %d) #5:%s))" % (5 + L, nm, L, pl.hex()), "lengths"))
            out.append(Case("%s %s" % (e, (bytes([23, 3, 3, L >> 8, L & 255]) + pl[:-2]).hex()), "(inc 2)", "lengths"))
    return out

ALL_PARSE = sorted(set(["parse_tls_record_header", "parse_tls_plaintext", "parse_tls_encrypted", "parse_tls_raw_record", "tls_parser", "tls_parser_many",
             "parse_tls_record_with_header"] + MSG_ENTRIES + HS_ENTRIES + HS_LEN_ENTRIES + EXT_SINGLE + EXT_LISTS + EXT_TAGGED + EXT_CONTENT +
             KX_ENTRIES + ["ECParametersContent::parse"] + CT_ENTRIES + DTLS_ENTRIES + ["parse_dtls_record_with_header"]))
PROPS["C01"] = dict(
    families=[("record", 120), ("opaque", 60), ("toolarge", 40), ("handshake", 150), ("hsbody", 100), ("message", 60), ("multi", 60),
              ("kx", 100), ("ct", 80), ("ext", 200), ("extwrong", 80), ("extlist", 80), ("dtls", 150), ("dtlsmulti", 50)],
    corpus_entries=None, mutate_entries=None, mutate_budget=25, mutate_sources=400,
    small_scope=sum((PROPS[q].get("small_scope", []) for q in ("C02", "C03", "C04", "C05", "C10", "C13", "C14", "C16") if q in PROPS), []),
    expect_entries=[], thorough_mult=6, small_scope_thorough_full=1, alloc_bound=(1024, 8192),
    configs=["default", "nostd"], configs_quick=["default"],
)
PROPS["C18"] = dict(
    families=[("record", 80), ("handshake", 120), ("hsbody", 60), ("message", 40), ("multi", 40), ("kx", 60), ("ct", 50),
              ("ext", 150), ("extlist", 50), ("dtls", 100), ("dtlsmulti", 30)],
    corpus_entries=None, mutate_entries=None, mutate_budget=15, mutate_sources=200,
    small_scope=[(e, a, 1, 2) for (e, a, _f, _s) in sum((PROPS[q].get("small_scope", []) for q in ("C02", "C03", "C04", "C05", "C10", "C13", "C14", "C16") if q in PROPS), [])],
    expect_entries=[], thorough_mult=6, small_scope_thorough_full=1,
    configs=["default", "nostd", "serialize"], configs_quick=["default", "nostd", "serialize"],
)
PROPS["C07"] = dict(
    families=[], corpus_entries=[], small_scope=[], thorough_mult=1,
)
def _defrag_histories(tier, seed, rng):
    """operation sequences over raw records: k-way splits at every cut point (incl. empty fragments and cuts
    inside the 4-byte handshake header), foreign-type interleaving, nocopy, reset, reuse, oversize streams"""
    import vlib
    from vlib import Case
    n = 150 if tier == "quick" else 1500
    pool = []   # (ct, ver, payload, expected-one-shot (stripped) or None, single_message)
    for c in vlib.model_gen("record", seed, n):
        e, a, hx = vlib.split_line(c.line)
        if e != "parse_tls_record_with_header": continue
        payload = bytes.fromhex(hx) if hx != "-" else b""
        pool.append((int(a[0]), int(a[1]), payload, c.expect))
    single = []
    for c in vlib.model_gen("handshake", seed, n):
        e, a, hx = vlib.split_line(c.line)
        payload = bytes.fromhex(hx) if hx != "-" else b""
        # expectation of the one-shot parse of this single message as a record payload: "(ok @_+0 [VALUE])"
        m = re.match(r"\(ok @\S+ (.*)\)$", c.expect)
        suffix_len = int(re.match(r"\(ok @\S*\+(\d+) ", c.expect).group(1)) if m else 0
        if m and suffix_len == 0:
            single.append((22, 0x0303, payload, "(ok @_+0 [%s])" % m.group(1)))
        pool.append((22, 0x0303, payload, None))
    out = []
    def rec(kind, ct, ver, frag, ln=None):
        return "%s,%d,%d,%d,%s" % (kind, ct, ver, (len(frag) if ln is None else ln) & 0xffff, frag.hex() or "-")
    def add(ops, expect="", origin="history"):
        out.append(Case("defrag " + " ".join(ops), expect, origin))
    for (ct, ver, p, exp) in pool:
        n_p = len(p)
        # k = 1
        add([rec("P", ct, ver, p)]); add([rec("N", ct, ver, p)])
        if ct in (20, 21) or n_p == 0: continue
        cuts = range(0, n_p + 1) if n_p <= 40 else sorted(set(list(range(0, 8)) + [rng.randrange(n_p) for _ in range(12)] + [n_p - 1, n_p]))
        for c in cuts:      # all 2-way splits (c = 0 and c = n give an empty fragment)
            add([rec("P", ct, ver, p[:c]), rec("P", ct, ver, p[c:])], origin="split2")
        for _ in range(6 if tier == "quick" else 30):    # random k-way splits
            k = rng.randrange(2, 9)
            pts = sorted(rng.randrange(n_p + 1) for _ in range(k - 1))
            frags = [p[a:b] for a, b in zip([0] + pts, pts + [n_p])]
            ops = [rec("P", ct, ver, f) for f in frags]
            r = rng.random()
            if r < 0.25:    # foreign-type record in the middle
                ops.insert(rng.randrange(1, len(ops) + 1), rec("P", rng.choice([20, 21, 22, 23, 24, 99]), ver, bytes([1, 2])))
            elif r < 0.4:
                # parse_record_nocopy while defragmenting: same type, and the types that are never defragmented
                nct, npay = rng.choice([(ct, p), (20, b"\x01"), (21, b"\x01\x00"), (22, bytes([14, 0, 0, 0])), (23, b"\xaa"), (24, bytes([1, 0, 0]))])
                ops.insert(rng.randrange(1, len(ops) + 1), rec("N", nct, ver, npay))
            elif r < 0.55:
                ops.insert(rng.randrange(0, len(ops) + 1), "R")
            elif r < 0.7:   # reuse after completion: a second payload follows
                ct2, ver2, p2, _ = rng.choice(pool)
                c2 = rng.randrange(len(p2) + 1)
                tail = [rec("P", ct2, ver2, p2[:c2]), rec("P", ct2, ver2, p2[c2:])]
                add(tail, origin="tail")
                add(ops + tail, expect="defrag-tail:" + " ".join(tail), origin="reuse")
                add(ops + ["R"] + tail, expect="defrag-tail:" + " ".join(tail), origin="reuse")
                continue
            elif r < 0.8:   # inconsistent header length on one fragment
                j = rng.randrange(len(ops)); f = ops[j].split(",")
                if len(f) == 5: f[3] = str(rng.choice([0, 1, 2, 3, 4, 65535])); ops[j] = ",".join(f)
            add(ops, origin="splitk")
    # multi-message payloads (and heartbeat padding): a cut inside the FIRST message; the second record completes it
    # and carries what follows, so the last call must return the one-shot result of the whole payload
    for (ct, ver, p, exp) in pool:
        if not exp or not exp.startswith("(ok") or ct not in (22, 24) or len(p) < 4: continue
        first = 4 + int.from_bytes(p[1:4], "big") if ct == 22 else 3 + int.from_bytes(p[1:3], "big")
        if first >= len(p): continue
        for c in sorted(set([0, 1, 2, 3, first - 1] + [rng.randrange(first) for _ in range(4)])):
            if 0 <= c < first:
                add([rec("P", ct, ver, p[:c]), rec("P", ct, ver, p[c:])], expect="defrag-split:" + exp, origin="split2-multi-oracle")
    # single-message payloads: the property's own statement is the oracle (every cut, random k-way splits)
    for (ct, ver, p, exp) in single:
        n_p = len(p)
        for c in (range(0, n_p) if n_p <= 60 else sorted(set(list(range(0, 8)) + [rng.randrange(n_p) for _ in range(16)] + [n_p - 1]))):
            add([rec("P", ct, ver, p[:c]), rec("P", ct, ver, p[c:])], expect="defrag-split:" + exp, origin="split2-oracle")
        for _ in range(4):
            k = rng.randrange(2, 9)
            pts = sorted(rng.randrange(n_p) for _ in range(k - 1))
            frags = [p[a:b] for a, b in zip([0] + pts, pts + [n_p])]
            if len(frags[-1]) == 0: continue
            add([rec("P", ct, ver, f) for f in frags], expect="defrag-split:" + exp, origin="splitk-oracle")
    # oversize stream: a handshake header declaring 2^24-1 bytes, fed until the 10 MiB refusal
    big = (1 << 20) if tier == "thorough" else (1 << 18)
    hdr = bytes([11, 0xff, 0xff, 0xff])
    total = 10 * 1024 * 1024
    ops, size = [rec("P", 22, 0x0303, hdr + bytes(60))], 64
    if tier == "thorough":
        while size + big < total - 16640:
            ops.append(rec("P", 22, 0x0303, bytes(big))); size += big
        # approach the limit (one filler, then cap-sized records), then cross it; every call re-parses the whole
        # buffer in the model, so the number of calls near 10 MiB is kept small
        fill = total - size - 3 * 16640 - 1
        ops.append(rec("P", 22, 0x0303, bytes(fill))); size += fill
        while size + 16640 < total:
            ops.append(rec("P", 22, 0x0303, bytes(16640))); size += 16640
        ops.append(rec("P", 22, 0x0303, bytes(total - size - 1))); size = total - 1   # exactly 10 MiB - 1
        ops.append(rec("P", 22, 0x0303, bytes(1)))     # would reach 10 MiB: refused
        ops.append(rec("P", 22, 0x0303, bytes(16640))) # refused
        ops.append(rec("P", 22, 0x0303, b""))          # still below: accepted, still incomplete
        add(ops, origin="oversize")
    for nct, npay in ((20, b"\x01"), (21, b"\x01\x00"), (22, bytes([14, 0, 0, 0])), (23, b"\xaa"), (24, bytes([1, 0, 0])), (99, b"\x00")):
        add([rec("P", 22, 0x0303, bytes([14, 0])), rec("N", nct, 0x0303, npay), rec("P", nct, 0x0303, npay), rec("P", 22, 0x0303, bytes([0, 0]))], origin="nocopy-busy")
        add([rec("P", 24, 0x0303, bytes([1, 0, 8, 65])), rec("N", nct, 0x0303, npay), rec("P", 24, 0x0303, bytes(23))], origin="nocopy-busy")
    # a first fragment that is itself beyond the limit (hand-built record: the fields are public), then continuations:
    # outside the property's size clause (records beyond the cap), but still no panic and still refused (implementation only)
    huge = hdr + bytes(total + 5)
    add([rec("P", 22, 0x0303, huge), rec("P", 22, 0x0303, bytes(10)), rec("P", 22, 0x0303, b""), rec("N", 22, 0x0303, bytes(3)), "R",
         rec("P", 22, 0x0303, bytes([14, 0, 0, 0]))], origin="stress")
    # the same stream with records inside the record-length cap (implementation only: origin "stress" is not run
    # through the extracted model, which would re-parse megabytes on every call); decided by the accumulate-then-parse
    # oracle: refusals at the limit leave the buffer unchanged, a fragment that still fits is accepted afterwards
    ops, size = [rec("P", 22, 0x0303, hdr + bytes(60))], 64
    while size + 16384 < total - 16384:
        ops.append(rec("P", 22, 0x0303, bytes(16384))); size += 16384
    ops.append(rec("P", 22, 0x0303, bytes(total - size - 100))); size = total - 100
    ops.append(rec("P", 22, 0x0303, bytes(100)))       # would reach exactly 10 MiB: refused, state unchanged
    ops.append(rec("P", 23, 0x0303, bytes(5)))         # foreign type: refused
    ops.append(rec("P", 22, 0x0303, bytes(16384)))     # refused
    ops.append(rec("P", 22, 0x0303, bytes(50))); size += 50   # fits: accepted, still incomplete
    ops.append(rec("N", 22, 0x0303, bytes(5)))         # nocopy while in progress: refused
    ops.append(rec("P", 22, 0x0303, bytes(50)))        # would reach 10 MiB again: refused
    ops.append(rec("P", 22, 0x0303, bytes(49))); size += 49   # 10 MiB - 1: accepted
    ops.append(rec("P", 22, 0x0303, bytes(1)))         # refused
    ops.append("R")
    ops.append(rec("P", 22, 0x0303, bytes([14, 0, 0, 0])))    # fresh again: ServerHelloDone parses at once
    add(ops, origin="stress")
    return out

def _defrag_items(out):
    """split "(defrag [..] [..])" into its per-operation items (bracket-depth aware)"""
    items, depth, cur = [], 0, []
    for ch in out[len("(defrag"):-1]:
        if ch == "[":
            depth += 1
            if depth == 1: cur = []; continue
        if ch == "]":
            depth -= 1
            if depth == 0: items.append("".join(cur)); continue
        if depth >= 1: cur.append(ch)
    res = []
    for it in items:
        body, p, b = it.rsplit(" ", 2)
        res.append((body, p, int(b)))
    return res

def _top_items(listtext):
    """elements of "[a b (c d) ...]" at nesting depth 0"""
    items, depth, cur = [], 0, []
    for ch in listtext[1:-1]:
        if ch in "([": depth += 1
        if ch in ")]": depth -= 1
        if ch == " " and depth == 0:
            if cur: items.append("".join(cur)); cur = []
        else: cur.append(ch)
    if cur: items.append("".join(cur))
    return items

def _handshake_framing(payload, impl_out, listed=True, exact=True):
    """framing oracle for handshake payloads: each returned message accounts for exactly 4 + its 24-bit
    length, so the consumed byte count must be the sum over the returned messages, and a message whose
    declared length exceeds the payload can never be returned"""
    m = re.match(r"\(ok @\S*\+(\d+) (.*)\)$", impl_out or "")
    if not m: return None
    rem = int(m.group(1))
    k = len(_top_items(m.group(2))) if listed else 1
    pos = 0
    for _ in range(k):
        if pos + 4 > len(payload): return "returned %d handshake messages but the payload frames fewer" % k
        hl = int.from_bytes(payload[pos+1:pos+4], "big")
        if pos + 4 + hl > len(payload): return "a handshake message whose 24-bit length (%d) exceeds the payload was returned" % hl
        pos += 4 + hl
    if exact and len(payload) - rem != pos:
        return "consumed %d bytes but the %d returned messages frame %d" % (len(payload) - rem, k, pos)
    return None

def derive_cases(pid, cases, tier, rng):
    """C06: for every case of a self-delimiting parser, the same input followed by (a) random bytes, (b) a copy of
    itself (bytes that look like a valid structure), (c) a single zero byte.  The expectation names the base case."""
    from vlib import Case, split_line
    if pid == "C05":
        # every input of a single-purpose parser also through the generic dispatcher and vice versa (post oracle:
        # they agree after the parser's own type, and the single-purpose parser refuses every other type)
        out, seen = [], set(c.line for c in cases)
        bytype = {v: k for k, v in TAGGED_TYPES.items()}
        for c in cases:
            e, a, hx = split_line(c.line)
            if hx == "-" or len(hx) < 8 or re.search(r"[^0-9a-f]", hx): continue
            t = int(hx[:4], 16)
            new = []
            if e in TAGGED_TYPES: new.append("parse_tls_extension " + hx)
            if e == "parse_tls_extension" and t in bytype: new.append("%s %s" % (bytype[t], hx))
            for l in new:
                if l not in seen: seen.add(l); out.append(Case(l, "", "paired"))
        # maximal list-valued extensions through every dispatcher and their single-purpose parsers
        def ext(t, d): return (bytes([t >> 8, t & 255, (len(d) >> 8) & 255, len(d) & 255]) + d).hex()
        big = [(11, bytes([255]) + bytes(range(255))), (11, bytes([254]) + bytes(254)), (45, bytes([255]) + bytes(255)), (0xff01, bytes([255]) + bytes(255)),
               (10, (65534).to_bytes(2, "big") + b"\x00\x17" * 32767), (13, (65534).to_bytes(2, "big") + b"\x04\x03" * 32767),
               (0, (65531).to_bytes(2, "big") + b"\x00" + (65528).to_bytes(2, "big") + bytes(65528)), (16, (256).to_bytes(2, "big") + bytes([255]) + bytes(255)), (16, (65535).to_bytes(2, "big") + (bytes([254]) + bytes(254)) * 257),
               (43, bytes([254]) + b"\x03\x04" * 127), (1, b"\x04"), (15, b"\x01"), (5, b"\x01" + bytes(300)), (35, bytes(65535)), (51, bytes(65535)), (41, bytes(65535)), (44, bytes(65535)), (42, b"\x00\x00\x00\x07")]
        for t, d in big:
            for e in EXT_SINGLE + ([bytype[t]] if t in bytype else []):
                l = "%s %s" % (e, ext(t, d))
                if l not in seen: seen.add(l); out.append(Case(l, "", "paired"))
        return out
    if pid not in ("C06", "C04", "C10", "C13", "C14"): return []
    out = []
    for c in cases:
        e, a, hx = split_line(c.line)
        if e not in SELF_DELIM or hx == "-" or len(hx) > 6000: continue
        b = bytes.fromhex(hx)
        # random bytes; a copy of the structure itself; one zero byte; bytes that read as an empty length-prefixed
        # block / an empty handshake message / a plausible following record header
        sufs = [bytes(rng.randrange(256) for _ in range(rng.randrange(1, 9))), b[:64], b"\x00", b"\x00\x00\x00\x00", b"\x00\x01\xaa", b"\x16\x03\x03\x00\x00"]
        if tier == "quick": sufs = [sufs[rng.randrange(6)], sufs[(len(hx) + sum(b[:4])) % 6], sufs[3]]
        for x in sufs:
            if not x: continue
            out.append(Case(" ".join([e] + a + [(b + x).hex()]), "append:%d:%s" % (len(x), c.line), "append"))
    return out

_RES = re.compile(r"^\((ok) @(\S+)\+(\d+) (.*)\)$|^\((err|fail) (\w+) ")
def _parse_res(o, n):
    """('ok', rem_off, rem_len, value) | ('err', kind) | ('inc',) | None"""
    if o is None: return None
    if o.startswith("(inc"): return ("inc",)
    m = _RES.match(o)
    if not m: return None
    if m.group(1):
        ln = int(m.group(3)); off = (n - ln) if m.group(2) == "_" else int(m.group(2))
        return ("ok", off, ln, m.group(4))
    return ("err", m.group(6))

def _provenance(b, o):
    """every slice printed in an Ok value is a region of the input, inside the consumed part, with the input's bytes"""
    r = _parse_res(o, len(b))
    if not r or r[0] != "ok": return None
    _, roff, rlen, val = r
    if roff + rlen != len(b): return "remainder @%d+%d is not a suffix of the %d-byte input" % (roff, rlen, len(b))
    if "#!:" in val: return "a returned slice does not point into the caller's buffer (copied or foreign)"
    for m in re.finditer(r"#(\d+):([0-9a-f]*)", val):
        off, hx = int(m.group(1)), m.group(2)
        if off + len(hx) // 2 > roff:
            return "a returned slice (@%d+%d) reaches beyond the consumed %d bytes" % (off, len(hx) // 2, roff)
        if b[off:off + len(hx) // 2].hex() != hx:
            return "a returned slice (@%d) does not hold the input's bytes at that position" % off
    return None

def _declared_len(e, a, b):
    """total length the structure declares for itself (None when it has no outer length field)"""
    def be(x): return int.from_bytes(x, "big")
    if e in ("parse_tls_plaintext", "parse_tls_encrypted", "parse_tls_raw_record", "tls_parser"):
        return 5 + be(b[3:5]) if len(b) >= 5 else None
    if e == "parse_tls_message_handshake": return 4 + be(b[1:4]) if len(b) >= 4 else None
    if e in EXT_SINGLE or e in EXT_TAGGED: return 4 + be(b[2:4]) if len(b) >= 4 else None
    if e in ("parse_ct_signed_certificate_timestamp", "parse_ct_signed_certificate_timestamp_list"):
        return 2 + be(b[0:2]) if len(b) >= 2 else None
    if e == "parse_dtls_plaintext_record": return 13 + be(b[11:13]) if len(b) >= 13 else None
    if e == "parse_dtls_message_handshake": return 12 + be(b[9:12]) if len(b) >= 12 else None
    if e == "parse_tls_record_header": return 5
    if e == "parse_dtls_record_header": return 13
    return None

def _append_oracle(cases, outs):
    import vlib
    fails = []
    by_line = {c.line: o for c, o in zip(cases, outs)}
    for c, o in zip(cases, outs):
        if not c.expect.startswith("append:"): continue
        _, k, base = c.expect.split(":", 2); k = int(k)
        bo = by_line.get(base)
        hx = vlib.split_line(c.line)[2]; n = len(hx) // 2
        rb, ra = _parse_res(bo, n - k), _parse_res(o, n)
        if not rb or rb[0] == "inc": continue
        if ra is None: fails.append((c, o, "appended input: unreadable result (base: %s)" % bo)); continue
        if rb[0] == "ok":
            if ra[0] != "ok": fails.append((c, o, "appending %d bytes to an accepted input changes the outcome class (base: %s)" % (k, bo)))
            elif ra[3] != rb[3]: fails.append((c, o, "appending %d bytes changes the parsed value (base: %s)" % (k, bo)))
            elif ra[1] != rb[1] or ra[2] != rb[2] + k: fails.append((c, o, "appending %d bytes must extend the remainder by exactly those bytes (base: %s)" % (k, bo)))
        elif rb[0] == "err":
            if ra[0] != "err": fails.append((c, o, "appending %d bytes to a rejected input changes the outcome class (base: %s)" % (k, bo)))
    return fails

def direct_oracle(pid, case, impl_out):
    """property-level predicates on the implementation's output (independent of the model)"""
    if pid in ("C03", "C04", "C06", "C01") and not case.line.startswith(("defrag ", "@", "states ")):
        import vlib
        e, a, hx = vlib.split_line(case.line)
        b = bytes.fromhex(hx) if hx != "-" else b""
        if e == "parse_tls_record_with_header" and a and a[0] == "22":
            r = _handshake_framing(b, impl_out)
            if r: return r
        if e == "parse_tls_message_handshake":
            r = _handshake_framing(b, impl_out, listed=False)
            if r: return r
        if e in ("parse_tls_plaintext", "tls_parser") and len(b) >= 5 and b[0] == 22:
            L = int.from_bytes(b[3:5], "big")
            m = re.match(r"\(ok @\S*\+(\d+) \(Plaintext \(Hdr [^)]*\) (\[.*\])\)\)$", impl_out or "")
            if m and len(b) >= 5 + L:
                # one-step parsing drops the undecoded tail (map_parser): the returned messages must frame a
                # prefix of the payload, each within its own 24-bit length
                r = _handshake_framing(b[5:5+L], "(ok @_+0 %s)" % m.group(2), exact=False)
                if r: return r
    if pid == "C05" and impl_out and impl_out.startswith("(ok") and not case.line.startswith("@"):
        # a length field exceeding the enclosing block never yields a value: the first inner length prefix of the
        # list- / vector-valued extensions against the extension's own declared length
        import vlib
        e, a, hx = vlib.split_line(case.line)
        if (e in EXT_SINGLE or e in TAGGED_TYPES) and hx != "-" and len(hx) >= 8 and not re.search(r"[^0-9a-f]", hx):
            b = bytes.fromhex(hx)
            t, L = int.from_bytes(b[:2], "big"), int.from_bytes(b[2:4], "big")
            content = b[4:4 + L]
            pre = {0: 2, 10: 2, 13: 2, 16: 2, 48: 2, 11: 1, 45: 1, 0xff01: 1}.get(t)
            known = {0: "SNI", 10: "EllipticCurves", 13: "SignatureAlgorithms", 16: "ALPN", 48: "OidFilters", 11: "EcPointFormats", 45: "PskExchangeModes", 0xff01: "RenegotiationInfo"}
            if pre and len(b) >= 4 + L and len(content) >= pre and not (e == "parse_tls_server_hello_extension" and t in (10, 45, 48)):
                inner = int.from_bytes(content[:pre], "big")
                if inner > len(content) - pre:
                    return "the inner length (%d) exceeds the extension's declared block (%d bytes after the prefix): no value may be returned" % (inner, len(content) - pre)
    if pid in ("C14", "C06") and case.line.startswith("parse_ct_signed_certificate_timestamp_list "):
        import vlib
        e, a, hx = vlib.split_line(case.line)
        if not re.search(r"[^0-9a-fA-F]", hx):
            r = _sct_oracle(e, bytes.fromhex(hx) if hx != "-" else b"", impl_out)
            if r: return r
    if pid == "C13" and case.line.startswith("parse_content_and_signature") and impl_out and impl_out.startswith("(ok"):
        # the signature form is selected by the caller's flag alone: with ext the hash/signature pair is read,
        # without it the legacy length-only form
        flag = case.line.split(" ")[1]
        if flag == "0" and "(Signed None " not in impl_out: return "ext = false: the signature must be read in the legacy (length-only) form"
        if flag == "1" and "(Signed (Some " not in impl_out: return "ext = true: the signature must be read with the hash/signature algorithm pair"
    if pid in ("C06", "C01") and not case.line.startswith(("defrag ", "@", "states ")) and impl_out and impl_out.startswith("(ok"):
        import vlib
        e, a, hx = vlib.split_line(case.line)
        if hx != "-" and re.search(r"[^0-9a-fA-F]", hx): return None
        b = bytes.fromhex(hx) if hx != "-" else b""
        r = _provenance(b, impl_out)
        if r: return r
        d = _declared_len(e, a, b)
        pr = _parse_res(impl_out, len(b))
        if d is not None and pr and pr[0] == "ok" and pr[1] != d:
            return "accepted, but consumed %d bytes where the structure declares %d" % (pr[1], d)
    if pid in ("C07", "C01") and case.line.startswith("defrag "):
        if "(panic)" in impl_out: return "defragmenter panicked"
        import vlib
        if impl_out.startswith("(defrag"):
            for body, p, b in _defrag_items(impl_out):
                if body.startswith("(ok") and p != "0":
                    return "a call that returns Ok ends defragmentation (defrag_in_progress() must be false after it)"
        if impl_out.startswith("(defrag"):
            # refusals while defragmenting (state reconstructed from the implementation's own answers):
            # a record of another content type -> Error(Tag); parse_record_nocopy -> Failure(NonEmpty);
            # both leave defrag_in_progress() and the buffer unchanged
            ops = case.line.split(" ")[1:]
            items = _defrag_items(impl_out)
            busy, cur, blen = False, None, 0
            for op, (body, pflag, bl) in zip(ops, items):
                f = op.split(",")
                if f[0] == "R": busy, cur, blen = False, None, 0; continue
                if busy and f[0] == "N":
                    if not body.startswith("(fail NonEmpty") or pflag != "1" or bl != blen:
                        return "parse_record_nocopy while defragmenting must refuse with Failure(NonEmpty) and leave the state unchanged (got %s %s %d)" % (body[:60], pflag, bl)
                elif busy and f[0] == "P" and f[1] != cur:
                    if not body.startswith("(err Tag") or pflag != "1" or bl != blen:
                        return "a record of another content type while defragmenting must be refused with Error(Tag), state unchanged (got %s %s %d)" % (body[:60], pflag, bl)
                else:
                    if f[0] == "P" and not busy and pflag == "1": cur = f[1]
                    busy, blen = (pflag == "1"), bl
                    if not busy: cur = None
        if case.expect.startswith("defrag-split:") and impl_out.startswith("(defrag"):
            want = case.expect[len("defrag-split:"):]
            items = _defrag_items(impl_out)
            for body, p, b in items[:-1]:
                if not body.startswith("(inc") or p != "1":
                    return "split payload: every call but the last must answer Incomplete with defrag_in_progress() (got %s %s)" % (body, p)
            body, p, b = items[-1]
            if vlib.strip_offsets(body) != vlib.strip_offsets(want) or p != "0":
                return "split payload: the last call must return the unsplit result %s and end defragmentation" % want
        within_cap = all(len(op.split(",")) < 5 or len(op.split(",")[4]) // 2 <= 16384 + 256 or op.split(",")[4] == "-" for op in case.line.split(" ")[1:])
        for m in re.finditer(r" (\d) (\d+)\]", impl_out):
            if within_cap and m.group(1) == "1" and int(m.group(2)) >= 10 * 1024 * 1024:
                return "defragmentation buffer reached 10 MiB while in progress (all records within the record-length cap)"
    return None

def post_oracle(pid, cases, outs):
    """oracles that relate several cases: after reset() or a completed message the parser behaves like a
    fresh one (results and defrag_in_progress() of the continuation equal those of the continuation alone)"""
    fails = []
    if pid == "C16":
        import vlib
        binp = vlib.harness_paths("default")[2]
        return _chain_oracle(cases, outs, binp, "tls_parser_many", "parse_tls_plaintext") + \
               _chain_oracle(cases, outs, binp, "parse_dtls_plaintext_records", "parse_dtls_plaintext_record")
    if pid in ("C06", "C04", "C10", "C13", "C14"): return _append_oracle(cases, outs)
    if pid == "C05":
        import vlib
        by_line = {c.line: o for c, o in zip(cases, outs)}
        for c, o in zip(cases, outs):
            e, a, hx = vlib.split_line(c.line)
            if e not in TAGGED_TYPES or hx == "-" or len(hx) < 4 or o is None or re.search(r"[^0-9a-f]", hx): continue
            t = int(hx[:4], 16)
            if t != TAGGED_TYPES[e]:
                if not (o.startswith("(err Tag") or o.startswith("(inc")):
                    fails.append((c, o, "a single-purpose extension parser accepts exactly its own IANA type (%d): Error(Tag) expected for type %d" % (TAGGED_TYPES[e], t)))
                continue
            g = by_line.get("parse_tls_extension " + hx)
            if g is None or t == 15: continue       # heartbeat: the single-purpose parser additionally insists on length 1
            if vlib.strip_offsets(o) != vlib.strip_offsets(g):
                fails.append((c, o, "after its own type the single-purpose parser must agree with the generic parser, which returns %s" % g[:300]))
        return fails
    if pid not in ("C07",): return fails
    import vlib
    fails += _defrag_refinement(cases, outs, vlib.harness_paths("default")[2])
    by_line = {c.line: o for c, o in zip(cases, outs)}
    for c, o in zip(cases, outs):
        if not c.expect.startswith("defrag-tail:") or not o or not o.startswith("(defrag"): continue
        tail = c.expect[len("defrag-tail:"):]
        ref = by_line.get("defrag " + tail)
        if not ref or not ref.startswith("(defrag"): continue
        k = len(tail.split(" "))
        items = _defrag_items(o)
        # the continuation only counts if the parser was idle just before it
        if len(items) < k + 1 or items[-k-1][1] != "0": continue
        got = [(b, p) for b, p, _ in items[-k:]]
        want = [(b, p) for b, p, _ in _defrag_items(ref)]
        if got != want:
            fails.append((c, o, "after a completed message / reset the parser must behave like a fresh one: continuation alone gives %s" % ref))
    return fails

MAX_RECORD_DATA = 10 * 1024 * 1024
def _defrag_refinement(cases, outs, binp):
    """C07, the property's own statement as an oracle on the implementation alone: every history must equal the
    abstract 'accumulate same-type fragments until the one-shot payload parser succeeds on their concatenation'
    machine, where the one-shot parser is the implementation's own parse_tls_record_with_header (asked in a second
    harness run on the concatenations).  Compared per call: result (modulo slice addresses; Incomplete by class),
    defrag_in_progress(), buffer length."""
    import vlib
    hist = [(k, c.line.split(" ")[1:]) for k, c in enumerate(cases)
            if c.line.startswith("defrag ") and outs[k] and outs[k].startswith("(defrag") and "(panic)" not in outs[k]]
    def known(ct, acc):
        # a handshake payload whose first message is cut short by the end of the payload: many1(complete(..)) answers
        # Error(Complete) (C03); used for the oversize streams so that megabytes need not be re-parsed for the oracle
        return ct == 22 and len(acc) >= 4 and int.from_bytes(acc[1:4], "big") > len(acc) - 4 and len(acc) > 100000
    def walk(ops, ask):
        """generator over expected (kind, want) per op; ask(ct, ver, ln, data) -> one-shot output or None (first pass)"""
        cur, acc, blen, exp = None, b"", 0, []
        for op in ops:
            f = op.split(",")
            if len(f) < 5:
                cur, acc, blen = None, b"", 0; exp.append(("reset", None, 0, 0)); continue
            kind, ct, ver, ln = f[0], int(f[1]), int(f[2]), int(f[3])
            data = bytes.fromhex(f[4]) if f[4] != "-" else b""
            if cur is not None and kind == "N":
                exp.append(("is", "(fail NonEmpty", 1, blen)); continue
            if cur is None:
                r = ask(ct, ver, ln, data)
                if r is None: exp.append(("?", None, 0, blen)); continue
                cls = r[1:r.index(" ")] if " " in r else r
                complete_err = cls in ("err", "fail") and r.split(" ")[1] == "Complete"
                if kind == "N" or ct in (20, 21):
                    exp.append(("inc", None, 0, blen) if complete_err else ("eq", r, 0, blen)); continue
                if cls == "inc" or complete_err:
                    cur, acc, blen = ct, data, len(data); exp.append(("inc", None, 1, blen))
                else:
                    exp.append(("eq", r, 0, blen))
                continue
            if ct != cur:
                exp.append(("is", "(err Tag", 1, blen)); continue
            if len(acc) + len(data) >= MAX_RECORD_DATA:
                exp.append(("is", "(err TooLarge", 1, blen)); continue
            acc = acc + data; blen = len(acc)
            r = "(err Complete @+)" if known(ct, acc) else ask(ct, ver, len(acc) & 0xffff, acc)
            if r is None: exp.append(("?", None, 1, blen)); continue
            cls = r[1:r.index(" ")] if " " in r else r
            if cls == "ok":
                cur = None; exp.append(("eq", r, 0, blen))
            elif cls in ("err", "fail") and r.split(" ")[1] == "Complete": exp.append(("inc", None, 1, blen))
            elif cls == "inc": exp.append(("inc", None, 1, blen))
            else: exp.append(("eq", r, 1, blen))
        return exp
    # the questions depend on earlier answers (state), so iterate to a fixpoint: at most one new question per op and round
    answers = {}
    for _round in range(40):
        need = []
        def ask(ct, ver, ln, data):
            q = "parse_tls_record_with_header %d %d %d %s" % (ct, ver, ln, data.hex() or "-")
            if q in answers: return answers[q]
            need.append(q); return None
        for k, ops in hist: walk(ops, ask)
        need = sorted(set(need))
        if not need: break
        res, _ = vlib.run_lines(binp, need, label="oneshot")
        for q, o in zip(need, res): answers[q] = vlib.strip_offsets(o or "(none)")
    fails = []
    for k, ops in hist:
        exp = walk(ops, lambda ct, ver, ln, data: answers.get("parse_tls_record_with_header %d %d %d %s" % (ct, ver, ln, data.hex() or "-")))
        items = _defrag_items(outs[k])
        for j, ((kind, want, busy, blen), (body, p, b)) in enumerate(zip(exp, items)):
            if kind == "?": break
            sb = vlib.strip_offsets(body)
            bad = None
            if kind == "reset": bad = None if (body == "(reset)" and p == "0" and b == 0) else "reset() must give the initial state"
            elif kind == "is" and not body.startswith(want): bad = "must be refused with %s)" % want
            elif kind == "inc" and not body.startswith("(inc"): bad = "must answer Incomplete (the accumulated payload is not complete yet)"
            elif kind == "eq" and sb != want: bad = "must return what the one-shot parser returns on the accumulated payload: %s" % want[:200]
            if not bad and kind != "reset" and (int(p) != busy or b != blen):
                bad = "state after the call must be in_progress=%d buffer=%d bytes (got %s, %d)" % (busy, blen, p, b)
            if bad:
                fails.append((cases[k], outs[k][:2000], "accumulate-then-parse: call %d (%s) %s; got %s" % (j + 1, ops[j][:60], bad, body[:200])))
                break
    return fails

def _record_extremes(rng, entries=("parse_tls_plaintext", "parse_tls_record_with_header")):
    """records at the extremes the framing allows, with the expectation written out: as many messages as fit under
    the record-length cap (one-byte CCS, two-byte alerts, four-byte handshake messages), and payload lengths at and
    around the cap for every content type; one-step and two-step parsing"""
    from vlib import Case
    out = []
    CAP = 16384 + 256
    def both(ct, payload, msgs_one, msgs_two, origin="extreme", rem2="@_+0"):
        n = len(payload)
        hdr = bytes([ct, 3, 3, n >> 8, n & 255])
        if "parse_tls_plaintext" in entries:
            out.append(Case("parse_tls_plaintext %s" % (hdr + payload).hex(), "(ok @_+0 (Plaintext (Hdr %d 771 %d) [%s]))" % (ct, n, msgs_one), origin))
        if "parse_tls_record_with_header" in entries:
            out.append(Case("parse_tls_record_with_header %d 771 %d %s" % (ct, n, payload.hex() or "-"), "(ok %s [%s])" % (rem2, msgs_two), origin))
        if "tls_parser_many" in entries:
            out.append(Case("tls_parser_many %s" % (hdr + payload).hex(), "(ok @_+0 [(Plaintext (Hdr %d 771 %d) [%s])])" % (ct, n, msgs_one), origin))
    counts = [1, 2, 3, 255, 256, 257, 1023, 1024, 1025, 2047, 2048, 2049, 4095, 4096, 4097, 8191, 8192, 8193]
    for n in counts + [CAP]:
        m = " ".join(["(ChangeCipherSpec)"] * n); both(20, b"\x01" * n, m, m, "extreme" if n <= 4097 else "stress")
    for n in counts + [CAP // 2]:
        if 2 * n > CAP: continue
        lv = [(rng.randrange(256), rng.randrange(256)) for _ in range(n)]
        m = " ".join("(Alert %d %d)" % x for x in lv); both(21, b"".join(bytes(x) for x in lv), m, m, "extreme" if n <= 4097 else "stress")
    for n in counts + [CAP // 4]:
        if 4 * n > CAP: continue
        ks = [rng.choice([0, 14]) for _ in range(n)]
        m = " ".join("(Handshake (HelloRequest))" if k == 0 else "(Handshake (ServerDone #_:))" for k in ks)
        both(22, b"".join(bytes([k, 0, 0, 0]) for k in ks), m, m, "extreme" if n <= 4097 else "stress")
    for L in (16383, 16384, 16385, CAP - 1, CAP):
        blob = bytes(rng.randrange(256) for _ in range(L))
        both(23, blob, "(ApplicationData #5:%s)" % blob.hex(), "(ApplicationData #0:%s)" % blob.hex())
        body = blob[:L - 4]
        both(22, bytes([20, 0, (L - 4) >> 8, (L - 4) & 255]) + body, "(Handshake (Finished #9:%s))" % body.hex(), "(Handshake (Finished #4:%s))" % body.hex())
        pl = rng.choice([0, 1, L - 3 - 16, L - 3])
        hb = bytes([1, pl >> 8, pl & 255]) + blob[:L - 3]
        both(24, hb, "(Heartbeat 1 %d #%s:%s)" % (pl, "8" if pl else "_", blob[:pl].hex()), "(Heartbeat 1 %d #%s:%s)" % (pl, "3" if pl else "_", blob[:pl].hex()),
             rem2=("@_+0" if pl == L - 3 else "@%d+%d" % (3 + pl, L - 3 - pl)))   # two-step parsing returns the padding as remainder
    if "tls_parser_many" in entries:
        # as many records as fit: empty application-data records (5 bytes), one-byte CCS records, then a short tail
        for n in (2, 255, 256, 1024, 1025, 2620, 2621, 4096, 6000, 13107):
            unit, one = rng.choice([(bytes([23, 3, 3, 0, 0]), "(Plaintext (Hdr 23 771 0) [(ApplicationData #_:)])"),
                                    (bytes([20, 3, 3, 0, 1, 1]), "(Plaintext (Hdr 20 771 1) [(ChangeCipherSpec)])")])
            for tail in (b"", bytes([22, 3, 3, 0])):
                out.append(Case("tls_parser_many %s" % (unit * n + tail).hex(),
                                "(ok %s [%s])" % ("@_+0" if not tail else "@%d+%d" % (len(unit) * n, len(tail)), " ".join([one] * n)), "stress" if n > 4096 else "extreme"))
        # a trailing empty record is a record like any other
        out.append(Case("tls_parser_many %s" % (bytes([22, 3, 3, 0, 4, 14, 0, 0, 0]) + bytes([23, 3, 3, 0, 0])).hex(),
                        "(ok @_+0 [(Plaintext (Hdr 22 771 4) [(Handshake (ServerDone #_:))]) (Plaintext (Hdr 23 771 0) [(ApplicationData #_:)])])", "extreme"))
    if "parse_tls_plaintext" in entries:
        for ct in (20, 21, 22, 23, 24, 99):
            out.append(Case("parse_tls_plaintext %s" % (bytes([ct, 3, 3, (CAP + 1) >> 8, (CAP + 1) & 255]) + bytes(CAP + 1)).hex(), "(err TooLarge @5+%d)" % (CAP + 1), "extreme"))
    return out

def _sct_reference(b):
    """RFC 6962 section 3.3 SignedCertificateTimestampList, decoded independently of model and implementation:
    returns (items, all_well_formed) as canonical strings (modulo offsets), or None when the declared list length
    exceeds the input"""
    if len(b) < 2: return None
    L = int.from_bytes(b[:2], "big")
    if len(b) - 2 < L: return None
    lst, pos, items = b[2:2 + L], 0, []
    def sl(x): return "#:" + x.hex() if x else "#:"
    while pos < L:
        if L - pos < 2: return items, False
        n = int.from_bytes(lst[pos:pos + 2], "big")
        if pos + 2 + n > L: return items, False          # the entry's declared length exceeds the enclosing list
        c = lst[pos + 2:pos + 2 + n]
        if len(c) < 43: return items, False
        ver, logid, ts, xl = c[0], c[1:33], int.from_bytes(c[33:41], "big"), int.from_bytes(c[41:43], "big")
        if len(c) < 43 + xl + 4: return items, False
        ext = c[43:43 + xl]; q = 43 + xl
        h, sg, sl_ = c[q], c[q + 1], int.from_bytes(c[q + 2:q + 4], "big")
        if len(c) < q + 4 + sl_: return items, False
        sig = c[q + 4:q + 4 + sl_]
        items.append("(SCT %d %s %d %s (Signed (Some ( %d %d)) %s))" % (ver, sl(logid), ts, sl(ext), h, sg, sl(sig)))
        pos += 2 + n
    return items, True

def _sct_oracle(e, b, impl_out):
    import vlib
    if e != "parse_ct_signed_certificate_timestamp_list": return None
    ref = _sct_reference(b)
    if ref is None:
        return "a list whose declared length exceeds the input must not yield a value" if (impl_out or "").startswith("(ok") else None
    items, ok = ref
    L = int.from_bytes(b[:2], "big")
    rest = len(b) - 2 - L
    want = "(ok @+%d [%s])" % (rest, " ".join(items))
    got = vlib.strip_offsets(impl_out or "")
    got = re.sub(r"#:(?=[ )])", "#:", got)
    if got != want:
        return ("RFC 6962 decoding of the list gives %s%s" % (want[:400], "" if ok else " (decoding stops at the first entry that is malformed or exceeds the list)"))
    return None

def _dtls_extremes(rng, many=False):
    """DTLS records at the extremes: message counts up to the cap, lengths at and around 2^14 and the cap (2^14+256),
    above the cap with the whole payload present, datagrams of thousands of minimal records"""
    from vlib import Case
    out = []
    CAP = 16384 + 256
    def hdr(ct, n, ver=0xfefd, ep=1, seq=2): return bytes([ct, ver >> 8, ver & 255, ep >> 8, ep & 255]) + seq.to_bytes(6, "big") + bytes([n >> 8, n & 255])
    def H(ct, n, ver=0xfefd, ep=1, seq=2): return "(DHdr %d %d %d %d %d)" % (ct, ver, ep, seq, n)
    if not many:
        for n in (1, 255, 256, 1024, 1025, 4096, 8192, 16384, 16385, CAP):
            m = " ".join(["(ChangeCipherSpec)"] * n)
            out.append(Case("parse_dtls_plaintext_record %s" % (hdr(20, n) + b"\x01" * n).hex(), "(ok @_+0 (DPlaintext %s [%s]))" % (H(20, n), m), "extreme" if n <= 4096 else "stress"))
        for L in (16383, 16384, 16385, 16500, CAP - 1, CAP):
            # one ClientKeyExchange filling the record exactly (12-byte handshake header)
            bl = L - 12
            body = bytes(rng.randrange(256) for _ in range(bl))
            msg = bytes([16]) + bl.to_bytes(3, "big") + b"\x00\x05" + b"\x00\x00\x00" + bl.to_bytes(3, "big") + body
            out.append(Case("parse_dtls_plaintext_record %s" % (hdr(22, L) + msg).hex(),
                            "(ok @_+0 (DPlaintext %s [(Handshake 16 %d 5 0 %d (ClientKeyExchange (Unknown #25:%s)) not_fragment)]))" % (H(22, L), bl, bl, body.hex()), "extreme"))
            # truncated by one byte: Incomplete with the exact count
            out.append(Case("parse_dtls_plaintext_record %s" % (hdr(22, L) + msg[:-1]).hex(), "(inc 1)", "extreme"))
            out.append(Case("parse_dtls_plaintext_record %s" % hdr(22, L).hex(), "(inc %d)" % L, "extreme"))
        for bl in (16628, 16629, 16640, 16641, 20015, 65535, 70000):
            body = bytes(rng.randrange(256) for _ in range(bl))
            msg = bytes([16]) + bl.to_bytes(3, "big") + b"\x00\x05" + b"\x00\x00\x00" + bl.to_bytes(3, "big") + body
            out.append(Case("parse_dtls_message_handshake %s" % (msg + b"\x99").hex(),
                            "(ok @%d+1 (Handshake 16 %d 5 0 %d (ClientKeyExchange (Unknown #12:%s)) not_fragment))" % (12 + bl, bl, bl, body.hex()), "extreme"))
            out.append(Case("parse_dtls_message_handshake %s" % msg[:-3].hex(), "(inc 3)", "extreme"))
            half = bl // 2
            frag = bytes([11]) + bl.to_bytes(3, "big") + b"\x00\x06" + (7).to_bytes(3, "big") + half.to_bytes(3, "big") + body[:half]
            out.append(Case("parse_dtls_message_handshake %s" % frag.hex(),
                            "(ok @_+0 (Handshake 11 %d 6 7 %d (Fragment #12:%s) is_fragment))" % (bl, half, body[:half].hex()), "extreme"))
        for L in (CAP + 1, CAP + 2, 32768, 65535):
            for extra in (0, 1, L, L + 3):
                out.append(Case("parse_dtls_plaintext_record %s" % (hdr(rng.choice([20, 21, 22, 23]), L) + bytes(extra)).hex(), "(err TooLarge @13+%d)" % extra, "extreme"))
    else:
        for n in (2, 255, 1024, 2620, 2621, 4000, 4500):
            k = rng.choice([0, 1])
            unit = (hdr(20, 1) + b"\x01") if k == 0 else (hdr(21, 2) + b"\x01\x00")
            one = "(DPlaintext %s [%s])" % ((H(20, 1), "(ChangeCipherSpec)") if k == 0 else (H(21, 2), "(Alert 1 0)"))
            for tail in (b"", hdr(22, 9)):
                out.append(Case("parse_dtls_plaintext_records %s" % (unit * n + tail).hex(),
                                "(ok %s [%s])" % ("@_+0" if not tail else "@%d+%d" % (len(unit) * n, len(tail)), " ".join([one] * n)), "extreme"))
    return out

def _sct_cases(rng):
    """SCT lists built in the check with the expectation written out: repeated entries (identical, or equal log id and
    timestamp with another signature), minimal and maximal entries, many entries"""
    from vlib import Case
    out = []
    def sct(ver, logid, ts, ext, h, s_, sig):
        c = bytes([ver]) + logid + ts.to_bytes(8, "big") + len(ext).to_bytes(2, "big") + ext + bytes([h, s_]) + len(sig).to_bytes(2, "big") + sig
        return len(c).to_bytes(2, "big") + c
    def show(off, ver, logid, ts, ext, h, s_, sig):
        p = off + 2
        e_off = p + 1 + 32 + 8 + 2; s_off = e_off + len(ext) + 4
        return "(SCT %d #%d:%s %d %s (Signed (Some ( %d %d)) %s))" % (ver, p + 1, logid.hex(), ts, ("#%d:%s" % (e_off, ext.hex())) if ext else "#_:", h, s_,
                                                                   ("#%d:%s" % (s_off, sig.hex())) if sig else "#_:")
    def lst(entries, tail=b""):
        body = b"".join(sct(*e) for e in entries)
        off, items = 2, []
        for e in entries:
            items.append(show(off, *e)); off += len(sct(*e))
        inp = len(body).to_bytes(2, "big") + body + tail
        out.append(Case("parse_ct_signed_certificate_timestamp_list %s" % inp.hex(),
                        "(ok %s [%s])" % ("@_+0" if not tail else "@%d+%d" % (2 + len(body), len(tail)), " ".join(items)), "sctlists"))
    A = (0, bytes(range(32)), 1234567890123, b"", 4, 3, b"\x30\x45")
    A2 = (0, bytes(range(32)), 1234567890123, b"\x01", 8, 4, b"\xaa\xbb\xcc")      # same log id and timestamp, another signature
    B = (0, bytes(range(1, 33)), 1234567890123, b"", 4, 3, b"")
    M = (255, b"\xff" * 32, (1 << 64) - 1, b"", 255, 255, b"")
    for entries in ([A, A], [A, A, A], [A, A2], [A2, A, B], [B, A, A, B], [A, B, A], [M], [M, M], [A] * 40, [B, A2] * 20):
        lst(entries); lst(entries, b"\x00\x00")
    big = (1, bytes(32), 7, bytes(1000), 4, 3, bytes(2000))
    lst([big] * 20); lst([A, big, A])
    return out

def _server_hello_versions(tier, rng):
    """every 16-bit legacy version through both ServerHello dispatchers: 0x0300 (no extensions), 0x0301-0x0303, 0x7f12
    (draft-18 form, message parser only) decode; every other version is rejected with Error(Tag) at the start"""
    from vlib import Case
    out = []
    R = bytes(range(32)).hex()
    for v in range(65536):
        if tier != "thorough" and not (0x02f0 <= v <= 0x0410 or 0x7f00 <= v <= 0x7f30 or v % 64 == 5 or v >= 0xfe00 or v < 0x40): continue
        body = "%04x%s00130100" % (v, R)                  # empty session id, cipher 0x1301, compression 0
        n = len(body) // 2
        if v in (0x0300, 0x0301, 0x0302, 0x0303):
            exp = "(ok @_+0 (ServerHello %d #2:%s None 4865 0 None))" % (v, R)
            out.append(Case("parse_tls_handshake_server_hello " + body, exp, "shversions"))
            out.append(Case("parse_tls_handshake_msg_server_hello " + body, exp, "shversions"))
        elif v == 0x7f12:
            out.append(Case("parse_tls_handshake_server_hello " + body, "(err Tag @0+%d)" % n, "shversions"))
        else:
            out.append(Case("parse_tls_handshake_server_hello " + body, "(err Tag @0+%d)" % n, "shversions"))
            out.append(Case("parse_tls_handshake_msg_server_hello " + body, "(err Tag @0+%d)" % n, "shversions"))
            out.append(Case("parse_tls_message_handshake 02%06x%s" % (n, body), "(err Tag @4+%d)" % n, "shversions"))
    return out

def _kx_sweeps(tier, rng):
    """all 65536 named groups and all 256 curve types (the property's own quantifier), with spec expectations"""
    from vlib import Case
    out = []
    for g in range(65536):
        tail = bytes(rng.randrange(256) for _ in range(rng.choice([0, 0, 2])))
        at = "@_+0" if not tail else "@3+%d" % len(tail)
        out.append(Case("parse_ec_parameters %s" % (bytes([3, g >> 8, g & 255]) + tail).hex(),
                        "(ok %s (ECParameters 3 (NamedGroup %d)))" % (at, g), "sweep"))
        if g % 16 == 0 or tier == "thorough":
            pt = bytes([2, 4, 5])
            out.append(Case("parse_ecdh_params %s" % (bytes([3, g >> 8, g & 255]) + pt).hex(),
                            "(ok @_+0 (ECDH (ECParameters 3 (NamedGroup %d)) #4:0405))" % g, "sweep"))
    for t in range(256):
        if t in (1, 3): continue
        out.append(Case("parse_ec_parameters %s" % bytes([t, 0, 23, 1, 2]).hex(), "(err Switch @1+4)", "sweep"))
        out.append(Case("ECParametersContent::parse %d 0017" % t, "(err Switch @0+2)", "sweep"))
    return out

def _ext_type_sweep(tier, rng):
    """all 65536 extension types x {empty, one byte, two bytes} x three dispatchers (complete over the type dimension)
    with the spec's expectation for types that are neither assigned nor GREASE"""
    from vlib import Case
    known = {0, 1, 5, 10, 11, 13, 15, 16, 18, 21, 22, 23, 28, 35, 40, 41, 42, 43, 44, 45, 48, 49, 51, 13172, 65281, 65486}
    grease = {0x0a0a + 0x1010 * k for k in range(16)}
    out = []
    step = 1 if tier == "thorough" else 1
    for t in range(0, 65536, step):
        datas = [b"", b"\x01", b"\x00\x00"] if (tier == "thorough" or t in known or t % 7 == 0 or (t & 0x0f0f) == 0x0a0a) else [rng.choice([b"", b"\x01", b"\x02\x03"])]
        for d in datas:
            enc = bytes([t >> 8, t & 255, 0, len(d)]) + d
            exp = ""
            sl = "#_:" if not d else "#4:" + d.hex()
            if t in grease: exp = "(ok @_+0 (Grease %d %s))" % (t, sl)
            elif t not in known: exp = "(ok @_+0 (Unknown %d %s))" % (t, sl)
            for e in EXT_SINGLE:
                out.append(Case("%s %s" % (e, enc.hex()), exp, "typesweep"))
            if d is datas[0]: out.append(Case("@exttype %s" % enc.hex(), "", "typesweep"))
    return out

def _enum_sweeps(tier, rng):
    """C11: for each enumerated field, every value of its integer domain inside a fixed well-formed structure,
    with the expectation written out (value unchanged).  u8 fields: all 256 values; u16 fields: all 65536 values
    (both tiers: the sweep is complete over each field's domain)."""
    from vlib import Case
    out = []
    R = "00" * 32
    k = rng.randrange(4)
    def u16s():
        return range(65536)
    def add(line, exp): out.append(Case(line, exp, "enumsweep"))
    for t in range(256):
        add("parse_tls_raw_record %02x03030001aa" % t, "(ok @_+0 (Raw (Hdr %d 771 1) #5:aa))" % t)
        add("parse_tls_encrypted %02x03030001aa" % t, "(ok @_+0 (Encrypted (Hdr %d 771 1) #5:aa))" % t)
        add("parse_tls_message_heartbeat 3 %02x0000" % t, "(ok @_+0 [(Heartbeat %d 0 #_:)])" % t)
        add("parse_tls_plaintext 1803030004%02x0001bb" % t, "(ok @_+0 (Plaintext (Hdr 24 771 4) [(Heartbeat %d 1 #8:bb)]))" % t)
        add("parse_tls_message_handshake 01000029" + "0303" + R + "00" + "0002" + "1301" + "01" + "%02x" % t,
            "(ok @_+0 (Handshake (ClientHello 771 #6:%s None [4865] [%d] None)))" % (R, t))
        add("parse_tls_message_handshake 02000026" + "0303" + R + "00" + "1301" + "%02x" % t,
            "(ok @_+0 (Handshake (ServerHello 771 #6:%s None 4865 %d None)))" % (R, t))
        add("parse_tls_message_handshake 0d00000801%02x000204030000" % t,
            "(ok @_+0 (Handshake (CertificateRequest [%d] (Some [1027]) [])))" % t)
        add("parse_tls_message_handshake 16000005%02x000001aa" % t, "(ok @_+0 (Handshake (CertificateStatus %d #8:aa)))" % t)
        add("parse_tls_message_handshake 18000001%02x" % t, "(ok @_+0 (Handshake (KeyUpdate %d)))" % t)
        add("parse_tls_extension 000000060004%02x000161" % t, "(ok @_+0 (SNI [( %d #9:61)]))" % t)
        add("parse_tls_extension 00050001%02x" % t, "(ok @_+0 (StatusRequest (Some ( %d #_:))))" % t)
        add("parse_tls_extension 002d000201%02x" % t, "(ok @_+0 (PskExchangeModes x%02x))" % t)
        add("parse_tls_extension 000b000201%02x" % t, "(ok @_+0 (EcPointFormats #5:%02x))" % t)
        add("parse_digitally_signed %02x010001aa" % t, "(ok @_+0 (Signed (Some ( %d 1)) #4:aa))" % t)
        add("parse_digitally_signed 04%02x0001aa" % t, "(ok @_+0 (Signed (Some ( 4 %d)) #4:aa))" % t)
        sct = "%02x" % t + R + "0000000000000001" + "0000" + "0403" + "0000"
        add("parse_ct_signed_certificate_timestamp 002f" + sct,
            "(ok @_+0 (SCT %d #3:%s 1 #_: (Signed (Some ( 4 3)) #_:)))" % (t, R))
        one = "002f" + "00" + sct[2:]
        add("parse_ct_signed_certificate_timestamp_list 0093" + one + "002f" + sct + one,
            "(ok @_+0 [(SCT 0 #5:%s 1 #_: (Signed (Some ( 4 3)) #_:)) (SCT %d #54:%s 1 #_: (Signed (Some ( 4 3)) #_:)) (SCT 0 #103:%s 1 #_: (Signed (Some ( 4 3)) #_:))])" % (R, t, R, R))
    # alert: all 65536 (level, description) pairs in both tiers
    for v in range(65536):
        add("parse_tls_message_alert %04x" % v, "(ok @_+0 (Alert %d %d))" % (v >> 8, v & 255))
    for v in u16s():
        add("parse_tls_raw_record 17%04x0001aa" % v, "(ok @_+0 (Raw (Hdr 23 %d 1) #5:aa))" % v)
        add("parse_tls_encrypted 17%04x0001aa" % v, "(ok @_+0 (Encrypted (Hdr 23 %d 1) #5:aa))" % v)
        add("parse_tls_message_handshake 01000029" + "%04x" % v + R + "00" + "0002" + "1301" + "0100",
            "(ok @_+0 (Handshake (ClientHello %d #6:%s None [4865] [0] None)))" % (v, R))
        add("parse_tls_message_handshake 0100002b" + "0303" + R + "00" + "0004" + "%04x" % v + "1301" + "0100",
            "(ok @_+0 (Handshake (ClientHello 771 #6:%s None [%d 4865] [0] None)))" % (R, v))
        add("parse_tls_message_handshake 02000026" + "0303" + R + "00" + "%04x" % v + "00",
            "(ok @_+0 (Handshake (ServerHello 771 #6:%s None %d 0 None)))" % (R, v))
        add("parse_tls_message_handshake 0d00000801400002%04x0000" % v,
            "(ok @_+0 (Handshake (CertificateRequest [64] (Some [%d]) [])))" % v)
        add("parse_tls_extension 000a00060004%04x0017" % v, "(ok @_+0 (EllipticCurves [%d 23]))" % v)
        add("parse_tls_extension 000d00040002%04x" % v, "(ok @_+0 (SignatureAlgorithms [%d]))" % v)
        # both algorithm bytes of a DigitallySigned together (all 65536 pairs), alone and as the signature of an SCT
        add("parse_digitally_signed %04x0001aa" % v, "(ok @_+0 (Signed (Some ( %d %d)) #4:aa))" % (v >> 8, v & 255))
        if v % 8 == k or tier == "thorough":
            add("parse_ct_signed_certificate_timestamp 002f00" + R + "0000000000000001" + "0000" + "%04x" % v + "0000",
                "(ok @_+0 (SCT 0 #3:%s 1 #_: (Signed (Some ( %d %d)) #_:)))" % (R, v >> 8, v & 255))
            add("parse_content_and_signature_dh 1 000117000102000105%04x000100" % v, "(ok @_+0 ( (DH #2:17 #5:02 #8:05) (Signed (Some ( %d %d)) #13:00)))" % (v >> 8, v & 255))
    # adjacent enumerated fields together: the record header's content type and version (code that looks at one may look
    # at the other): every content type x a set of versions, and every version x content types from each region
    vset = [0x0000, 0x0001, 0x0002, 0x0100, 0x0101, 0x0200, 0x0300, 0x0301, 0x0302, 0x0303, 0x0304, 0x7f12, 0x7f1c, 0x8001, 0xfefd, 0xfeff, 0xff01, 0xffff]
    for t in range(256):
        for v in vset:
            add("parse_tls_record_header %02x%04x0001" % (t, v), "(ok @_+0 (Hdr %d %d 1))" % (t, v))
            add("parse_tls_raw_record %02x%04x0001aa" % (t, v), "(ok @_+0 (Raw (Hdr %d %d 1) #5:aa))" % (t, v))
    for v in u16s():
        for t in (0x00, 0x80, 0xff) if (v % 4 == k or tier == "thorough") else (rng.choice([0x00, 0x80, 0xff, 0x81, 0x7f]),):
            add("parse_tls_encrypted %02x%04x0001aa" % (t, v), "(ok @_+0 (Encrypted (Hdr %d %d 1) #5:aa))" % (t, v))
    return out

PROPS["C09"] = dict(
    families=[], corpus_entries=[], small_scope=[], thorough_mult=1,
    configs=["serialize"], spec={"@ser": "spec.@ser"},
)
def _ser_cases(tier, rng):
    """serializable values within wire limits (and unsupported ones): descriptions read by both sides"""
    from vlib import Case
    def hx(n): return bytes(rng.randrange(256) for _ in range(n)).hex() or "-"
    def sid(): return rng.choice(["N", hx(1), hx(32), hx(rng.randrange(1, 33))])
    def ext(): return rng.choice(["N", "-", hx(rng.randrange(1, 40))])
    def nums(maxn, bits):
        n = rng.choice([0, 1, 2, rng.randrange(maxn + 1)])
        return ".".join(str(rng.choice([0, 1, (1 << bits) - 1, rng.randrange(1 << bits)])) for _ in range(n)) or "-"
    def ver(): return rng.choice([0x0300, 0x0301, 0x0302, 0x0303])
    def msg(kind=None):
        k = kind or rng.choice(["ch", "sh", "sh13", "cke", "fin", "hr", "ccs", "alert", "app", "cert"])
        if k == "ch": return "ch,%d,%s,%s,%s,%s,%s" % (rng.choice([ver(), 0x0304, rng.randrange(65536)]), hx(32), sid(), nums(30, 16), nums(4, 8), ext())
        if k == "sh":
            v = ver(); return "sh,%d,%s,%s,%d,%d,%s" % (v, hx(32), sid(), rng.randrange(65536), rng.randrange(256), "N" if v == 0x0300 else ext())
        if k == "sh13": return "sh13,%d,%s,%d,%s" % (0x7f12, hx(32), rng.randrange(65536), ext())
        if k == "cke": return "cke,%s,%s" % (rng.choice("ude"), hx(rng.choice([0, 1, 32, 65, 255])))
        if k == "fin": return "fin,%s" % hx(rng.choice([0, 12, 36]))
        return k
    def ex():
        k = rng.choice(["sni", "sni", "mfl", "groups", "other"])
        if k == "sni":
            n = rng.choice([0, 1, 1, 2, 3])
            return "sni," + (".".join("%d:%s" % (rng.choice([0, 0, 1, 255]), hx(rng.choice([0, 1, 14, 40]))) for _ in range(n)) or "-")
        if k == "mfl": return "mfl,%d" % rng.randrange(256)
        if k == "groups": return "groups," + nums(8, 16)
        return "other"
    out = []
    n = 2500 if tier == "quick" else 40000
    for _ in range(n):
        out.append("@ser msg " + msg())
    # bodies around the 16-bit boundary: the handshake length is 24 bits wide
    for size in (65534, 65535, 65536, 65537, 70000):
        out.append("@ser msg fin,%s" % hx(size))
        out.append("@ser msg cke,u,%s" % hx(size))
    big = ".".join(str(rng.randrange(65536)) for _ in range(32767))
    out.append("@ser msg ch,771,%s,%s,%s,0,N" % (hx(32), hx(32), big))
    out.append("@ser msg ch,771,%s,N,%s,0,%s" % (hx(32), big, hx(40)))
    for _ in range(n // 3):
        k = rng.randrange(1, 4)
        hs = rng.random() < 0.6
        ms = [msg(rng.choice(["ch", "sh", "sh13", "cke", "fin", "hr"])) if hs else "ccs" for _ in range(k)]
        if rng.random() < 0.15: ms[rng.randrange(k)] = rng.choice(["alert", "app", "cert"])
        ty = (22 if hs else 20) if rng.random() < 0.85 else rng.choice([20, 21, 22, 23])
        out.append("@ser rec %d %d %s" % (ty, rng.choice([ver(), 0xfeff]), ";".join(ms)))
    # records whose fragment is at and around the record-length cap (the parser accepts up to 2^14+256), and at 2^14
    for frag in (16383, 16384, 16385, 16639, 16640):
        out.append("@ser rec 22 771 fin,%s" % hx(frag - 4))
        out.append("@ser rec 22 771 hr;cke,u,%s" % hx(frag - 8))
        out.append("@ser rec 20 771 %s" % ";".join(["ccs"] * frag))
    # boundary values of the inner lengths: empty and maximal DH / ECDH / opaque values, empty and 32-byte session ids
    for k in "ude":
        for size in (0, 1, 2, 254, 255, 256):
            if k == "e" and size > 255: continue
            out.append("@ser msg cke,%s,%s" % (k, hx(size)))
            out.append("@ser rec 22 771 cke,%s,%s" % (k, hx(size)))
    for _ in range(n // 2):
        out.append("@ser ext " + ex())
    for _ in range(n // 3):
        out.append("@ser exts " + (";".join(ex() for _ in range(rng.randrange(0, 5))) or "-"))
    # many cipher suites (length field of the list and of the message)
    for k in (255, 256, 1000, 32767):
        out.append("@ser msg ch,771,%s,N,%s,0,N" % (hx(32), ".".join(str(i & 0xffff) for i in range(k))))
    return [Case(l, "", "serialize") for l in out]

PROPS["C15"] = dict(
    families=[], corpus_entries=[], small_scope=[], thorough_mult=1,
    spec={"@hello": "spec.@hello"}, compare_stripped_prefixes=["@hello new", "@hello shnew"],
)
def _hello_cases(tier, seed, rng):
    """accessors on parsed TLS/DTLS ClientHello and ServerHello values and on constructed ones"""
    import vlib
    from vlib import Case
    out = []
    n = 600 if tier == "quick" else 6000
    for c in vlib.model_gen("hsbody", seed, n):
        e, a, hx = vlib.split_line(c.line)
        if e == "parse_tls_handshake_client_hello":
            out.append("@hello tls " + hx)
            b = bytearray.fromhex(hx)
            for w in (0, 1, 0x7fffffff, 0x80000000, 0xffffffff, 0x4e5a99ea):   # leading random words
                b[2:6] = w.to_bytes(4, "big"); out.append("@hello tls " + bytes(b).hex())
        if e == "parse_tls_handshake_server_hello": out.append("@hello sh " + hx)
    for c in vlib.model_gen("dtls", seed, n):
        e, a, hx = vlib.split_line(c.line)
        if e == "parse_dtls_message_handshake": out.append("@hello dtls " + hx)
    def hxs(k): return bytes(rng.randrange(256) for _ in range(k)).hex() or "-"
    listed = [0x002f, 0x0035, 0xc02f, 0x1301, 0x00ff, 0x0000]
    for _ in range(600 if tier == "quick" else 8000):
        rl = rng.choice([0, 1, 2, 3, 4, 5, 8, 28, 31, 32, 33, 40])
        ciphers = ".".join(str(rng.choice(listed + [rng.randrange(65536)])) for _ in range(rng.randrange(0, 6))) or "-"
        comps = ".".join(str(rng.randrange(256)) for _ in range(rng.randrange(0, 3))) or "-"
        out.append("@hello new %d %s %s %s %s %s" % (rng.randrange(65536), hxs(rl), rng.choice(["N", hxs(rng.randrange(0, 33))]), ciphers, comps, rng.choice(["N", hxs(rng.randrange(0, 8))])))
        out.append("@hello shnew %d %s %s %d %d %s" % (rng.randrange(65536), hxs(rl), rng.choice(["N", hxs(4)]), rng.choice(listed + [rng.randrange(65536)]), rng.randrange(256), rng.choice(["N", hxs(3)])))
    # every id of the registry file and both neighbours, in order, through the constructed hellos (cipher_suites /
    # get_ciphers map each to its registry entry or None; get_cipher likewise): complete over the registered ids
    import os
    reg = sorted({int(l.split(":")[0], 16) for l in open(os.path.join(vlib.REPO, "scripts", "tls-ciphersuites.txt")) if l.count(":") >= 9})
    ids = sorted({x for i in reg for x in (i - 1, i, i + 1) if 0 <= x < 65536})
    for k in range(0, len(ids), 40):
        chunk = ids[k:k + 40]
        out.append("@hello new 771 %s N %s 0 N" % (hxs(32), ".".join(str(i) for i in chunk)))
        out.append("@hello new 771 %s N %s 0 N" % (hxs(32), ".".join(str(i) for i in reversed(chunk))))
    for i in ids:
        out.append("@hello shnew 771 %s N %d 0 N" % (hxs(32), i))
    # the accessors return the structure's own fields for every version value that code might single out
    for v in (0x0000, 0x0001, 0x0002, 0x0100, 0x0200, 0x0300, 0x0301, 0x0302, 0x0303, 0x0304, 0x7f12, 0xfefd, 0xfefe, 0xfeff, 0xffff):
        out.append("@hello new %d %s N 4865 0 N" % (v, hxs(32)))
        out.append("@hello shnew %d %s N 4865 0 N" % (v, hxs(32)))
        R = hxs(32)
        out.append("@hello tls %04x%s00000213010100" % (v, R))
        body = "%04x%s0000000213010100" % (v, R)      # DTLS ClientHello: empty session id, empty cookie
        n = len(body) // 2
        out.append("@hello dtls 01%06x0000000000%06x%s" % (n, n, body))
    return [Case(l, "", "hello") for l in out]

def _stress_cases(tier, rng):
    """C01: inputs that maximise the number of allocated elements per input byte (smallest list elements, as many as
    a length field allows), records at and beyond the cap, and lying lengths next to them"""
    from vlib import Case
    out = []
    def add(e, b, args=()): out.append(Case(" ".join([e] + [str(a) for a in args] + [b.hex() if b else "-"]), "", "stress"))
    def u16(n): return n.to_bytes(2, "big")
    def u24(n): return n.to_bytes(3, "big")
    for n in (16384, 16385, 16384 + 256, 16384 + 257, 18432, 18433, 40000, 65535):
        for ct, unit in ((20, b"\x01"), (21, b"\x01\x00"), (22, b"\x00\x00\x00\x00"), (23, b"\xaa"), (24, b"\x01\x00\x00")):
            body = (unit * (n // len(unit) + 1))[:n]
            rec = bytes([ct, 3, 3]) + u16(n) + body
            for e in ("parse_tls_plaintext", "parse_tls_raw_record", "parse_tls_encrypted", "tls_parser_many"):
                add(e, rec)
            add("parse_tls_record_with_header", body, (ct, 771, n))
            add("parse_dtls_plaintext_record", bytes([ct, 254, 253]) + b"\x00" * 8 + u16(n) + body)
            add("parse_dtls_record_with_header", body, (ct, 65277, 0, 1, n))
    # many tiny records
    add("tls_parser_many", (bytes([23, 3, 3, 0, 0]) * 8000))
    add("tls_parser_many", (bytes([20, 3, 3, 0, 1, 1]) * 6000))
    add("parse_dtls_plaintext_records", (bytes([20, 254, 253]) + b"\x00" * 8 + b"\x00\x01\x01") * 3000)
    # extension lists and list-valued extensions with minimal elements
    for n in (1000, 65532):
        add("parse_tls_extensions", (b"\x12\x34\x00\x00" * (n // 4)))
        add("parse_tls_client_hello_extensions", (b"\x00\x15\x00\x00" * (n // 4)))
        add("parse_tls_server_hello_extensions", (b"\x0a\x0a\x00\x00" * (n // 4)))
    L = 65530
    for e in EXT_SINGLE:
        add(e, b"\x00\x10" + u16(L + 2) + u16(L) + b"\x00" * L)                       # ALPN: 65530 empty names
        add(e, b"\x00\x00" + u16(L + 2) + u16(L - 1) + (b"\x00\x00\x00" * (L // 3))[:L - 1])  # SNI: 3-byte entries
        add(e, b"\x00\x0d" + u16(L + 2) + u16(L) + b"\x04\x03" * (L // 2))
        add(e, b"\x00\x0a" + u16(L + 2) + u16(L) + b"\x00\x17" * (L // 2))
        add(e, b"\x00\x2b" + u16(255) + b"\xfe" + b"\x03\x04" * 127)
        add(e, b"\x00\x2f" + u16(L) + (b"\x00\x00\x00\x00" * (L // 4))[:L])           # OID filters
        add(e, b"\x00\x12" + u16(L) + u16(L - 2) + b"\x00" * (L - 2))
    add("parse_tls_extension_alpn_content", u16(L) + b"\x00" * L)
    # text fields that Debug decodes as UTF-8 (SNI host names, ALPN protocol names): multi-byte characters at every
    # alignment, so that any byte-offset arithmetic on the decoded string meets a character boundary problem; plus
    # malformed UTF-8 (truncated sequence, lone continuation, overlong, surrogate, > U+10FFFF)
    for ch in ("\u00e9", "\u20ac", "\U0001f600", "\u0301"):
        for k in range(len(ch.encode()) ):
            for total in (40, 300, 600, 1100, 4200, 65000):
                name = (b"a" * k + ch.encode() * (total // len(ch.encode())))
                sni = b"\x00" + u16(len(name)) + name
                for e in ("parse_tls_extension", "parse_tls_client_hello_extension"):
                    add(e, b"\x00\x00" + u16(len(sni) + 2) + u16(len(sni)) + sni)
                if total <= 300:
                    nm = name[:255]
                    al = bytes([len(nm)]) + nm
                    add("parse_tls_extension", b"\x00\x10" + u16(len(al) + 2) + u16(len(al)) + al)
    for bad in (b"\xc3", b"\x80", b"\xc0\xaf", b"\xed\xa0\x80", b"\xf4\x90\x80\x80", b"\xe2\x82", b"ab\xff", b"\xf0\x9f\x98"):
        for pre in (b"", b"a" * 254, b"a" * 255, b"\xc3\xa9" * 127):
            name = pre + bad
            sni = b"\x00" + u16(len(name)) + name
            add("parse_tls_extension", b"\x00\x00" + u16(len(sni) + 2) + u16(len(sni)) + sni)
            if len(name) <= 255:
                al = bytes([len(name)]) + name
                add("parse_tls_extension", b"\x00\x10" + u16(len(al) + 2) + u16(len(al)) + al)
    add("parse_ct_signed_certificate_timestamp_list", u16(L) + b"\x00\x00" * (L // 2))
    sct = b"\x00\x2f" + b"\x00" + b"\x11" * 32 + b"\x00" * 8 + b"\x00\x00" + b"\x04\x03" + b"\x00\x00"
    add("parse_ct_signed_certificate_timestamp_list", u16(len(sct) * 1300) + sct * 1300)
    # handshake bodies: 32k cipher suites, 255 compression methods, certificate chain of empty certificates, CA list
    R = b"\x00" * 32
    ch = b"\x03\x03" + R + b"\x00" + u16(65534) + b"\x13\x01" * 32767 + b"\xff" + b"\x00" * 255
    add("parse_tls_handshake_client_hello", ch)
    add("parse_tls_message_handshake", b"\x01" + u24(len(ch)) + ch)
    add("parse_dtls_message_handshake", b"\x01" + u24(len(ch) + 1) + b"\x00\x00" + u24(0) + u24(len(ch) + 1) + ch[:35] + b"\x00" + ch[35:])
    chain = b"\x00\x00\x00" * 100000
    add("parse_tls_handshake_msg_certificate", u24(len(chain)) + chain)
    add("parse_tls_message_handshake", b"\x0b" + u24(len(chain) + 3) + u24(len(chain)) + chain)
    cas = b"\x00\x00" * 32767
    cr = b"\xff" + b"\x01" * 255 + u16(65534) + b"\x04\x03" * 32767 + u16(len(cas)) + cas
    add("parse_tls_handshake_certificaterequest", cr)
    add("parse_tls_message_handshake", b"\x0d" + u24(len(cr)) + cr)
    # lying length fields with nothing behind them (a parser that pre-allocates from the field would show here)
    for e, b in (("parse_tls_handshake_client_hello", b"\x03\x03" + R + b"\x00\xff\xfe"),
                 ("parse_tls_message_handshake", b"\x0b\xff\xff\xff\xff\xff\xff"),
                 ("parse_tls_message_handshake", b"\x01\x00\x00\x27\x03\x03" + R + b"\x00\xff\xfe"),
                 ("parse_tls_extension", b"\x00\x10\xff\xff\xff\xfd"), ("parse_tls_extension", b"\x00\x0d\x00\x02\xff\xfe"),
                 ("parse_tls_extension", b"\x00\x0a\xff\xff\xff\xfd"), ("parse_tls_extension", b"\x00\x2b\x00\x01\xff"),
                 ("parse_ct_signed_certificate_timestamp_list", b"\xff\xff"), ("parse_tls_plaintext", b"\x16\x03\x03\x40\x00"),
                 ("parse_tls_plaintext", b"\x16\x03\x03\x00\x04\x0b\xff\xff\xff"), ("parse_dh_params", b"\xff\xff"),
                 ("parse_tls_handshake_msg_certificate", b"\xff\xff\xff"), ("parse_tls_handshake_certificaterequest", b"\xff"),
                 ("parse_dtls_message_handshake", b"\x01\xff\xff\xff\x00\x00\x00\x00\x00\xff\xff\xff"),
                 ("parse_dtls_plaintext_record", b"\x16\xfe\xfd" + b"\x00" * 8 + b"\xff\xff")):
        add(e, b)
    return out

def extra_cases(pid, tier, seed, rng):
    if pid == "C15": return _hello_cases(tier, seed, rng)
    if pid == "C03": return _record_extremes(rng)
    if pid == "C04": return _server_hello_versions(tier, rng)
    if pid == "C16": return _record_extremes(rng, entries=("tls_parser_many",)) + _dtls_extremes(rng, many=True)
    if pid == "C10": return _dtls_extremes(rng) + _dtls_extremes(rng, many=True)
    if pid == "C18": return _nt_cases(tier, rng) + _cipher_cases(tier, rng) + _state_cells(tier, rng) + (lambda hs: hs[:1500] + [c for c in hs[1500:] if c.origin in ("stress", "oversize")])(_defrag_histories(tier, seed, rng))
    if pid == "C01": return _stress_cases(tier, rng) + _defrag_histories(tier, seed, rng) + _length_sweep("quick", rng) + _record_extremes(rng) + _dtls_extremes(rng)
    if pid == "C09": return _ser_cases(tier, rng)
    if pid == "C05": return _ext_type_sweep(tier, rng)
    if pid == "C13": return _kx_sweeps(tier, rng)
    if pid == "C06": return [c for c in _kx_sweeps(tier, rng) if "(err Switch" in c.expect] + _sct_cases(rng)
    if pid == "C14": return _sct_cases(rng)
    if pid == "C11": return _enum_sweeps(tier, rng)
    if pid == "C07": return _defrag_histories(tier, seed, rng)
    if pid == "C02": return _length_sweep(tier, rng) + [c for c in _record_extremes(rng, entries=("parse_tls_plaintext",)) if c.origin == "extreme"]
    if pid == "C12": return _cipher_cases(tier, rng)
    if pid == "C17": return _nt_cases(tier, rng)
    if pid == "C08": return _state_cells(tier, rng)
    return []
