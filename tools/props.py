"""Per-property configuration of ./check."""
REC3 = ["parse_tls_plaintext", "parse_tls_raw_record", "parse_tls_encrypted"]

PROPS = {
 "C02": dict(
    families=[("record", 250), ("opaque", 150), ("toolarge", 60)],
    corpus_entries=REC3 + ["parse_tls_record_header"],
    mutate_entries=REC3, mutate_budget=40, mutate_sources=120,
    small_scope=[(e, [], 1, 4) for e in REC3] + [("parse_tls_record_header", [], 1, 4)],
    expect_entries=["parse_tls_raw_record", "parse_tls_encrypted"],
    spec={"parse_tls_raw_record": "spec.parse_tls_raw_record", "parse_tls_encrypted": "spec.parse_tls_encrypted",
          "parse_tls_plaintext": "spec.parse_tls_plaintext", "tls_parser": "spec.parse_tls_plaintext"},
    thorough_mult=20,
 ),
}

PROPS["C08"] = dict(
    families=[], corpus_entries=[], small_scope=[],
    spec={"states": "spec.states"},
    thorough_mult=1,
)

def _state_cells(tier, rng):
    from vlib import Case
    out = []
    for st in range(25):
        for d in (0, 1):
            for k in range(17):
                for sid in (0, 1):
                    for var in (0, 1, 2):
                        out.append("states %d 0,%d,%d,%d,%d" % (st, k, sid, var, d))
            out.append("states %d 1,%d" % (st, d))
            codes = range(256) if tier == "thorough" else (0, 10, 40, 255)
            for sev in range(256):
                for code in codes:
                    out.append("states %d 2,%d,%d,%d" % (st, sev, code, d))
            for var in range(3):
                out.append("states %d 3,%d,%d" % (st, var, d))
                out.append("states %d 4,%d,%d" % (st, var, d))
    # random message sequences from state None (and from random states)
    def rmsg():
        r = rng.random()
        d = rng.randrange(2)
        if r < 0.7: return "0,%d,%d,%d,%d" % (rng.randrange(17), rng.randrange(2), rng.randrange(3), d)
        if r < 0.85: return "1,%d" % d
        if r < 0.95: return "2,%d,%d,%d" % (rng.choice([0, 1, 1, 1, 2, 255, rng.randrange(256)]), rng.randrange(256), d)
        return "%d,%d,%d" % (rng.choice([3, 4]), rng.randrange(3), d)
    # guided walks along the documented flows (so that deep states are reached) with random deviations
    FLOW = ["0,1,0,0,1", "0,2,0,0,0", "0,7,0,1,0", "0,14,0,0,0", "0,8,0,0,0", "0,9,0,0,0", "0,10,0,0,0", "0,7,0,1,1",
            "0,12,0,0,1", "0,11,0,0,1", "1,1", "0,4,0,0,0", "1,0"]
    n = 4000 if tier == "quick" else 60000
    for _ in range(n):
        st = 0 if rng.random() < 0.7 else rng.randrange(25)
        L = rng.randrange(1, 14)
        if rng.random() < 0.5:
            seq = [m if rng.random() < 0.8 else rmsg() for m in FLOW if rng.random() < 0.8][:L]
        else:
            seq = [rmsg() for _ in range(L)]
        out.append("states %d %s" % (st, " ".join(seq)))
    return [Case(l, "", "cells" if l.count(" ") == 2 else "sequence") for l in out]

NT8 = ["TlsRecordType", "TlsHandshakeType", "TlsHeartbeatMessageType", "TlsCompressionID", "KeyUpdateRequest",
       "TlsAlertSeverity", "TlsAlertDescription", "PskKeyExchangeMode", "SNIType", "CertificateStatusType",
       "ECCurveType", "HashAlgorithm", "SignAlgorithm", "CtVersion"]
NT16 = ["TlsVersion", "TlsExtensionType", "NamedGroup", "SignatureScheme"]
CONV = {"TlsRecordType": 8, "TlsHandshakeType": 8, "TlsHeartbeatMessageType": 8, "TlsVersion": 16,
        "TlsCompressionID": 8, "TlsCipherSuiteID": 16, "TlsExtensionType": 16}
PROPS["C17"] = dict(
    families=[], corpus_entries=[], small_scope=[],
    spec={"@nt": "spec.@nt", "@conv": "spec.@conv", "@sig": "spec.@sig", "@keybits": "spec.@keybits"},
    thorough_mult=1,
)
def _nt_cases(tier, rng):
    from vlib import Case
    def dom16():
        if tier == "thorough": return range(65536)
        s = set(range(0, 1100)) | set(range(0x7f00, 0x7f40)) | set(range(0xfd00, 0x10000)) | set(range(13100, 13200))
        s |= set(range(0x0a00, 0xfb00, 0x101)) | {rng.randrange(65536) for _ in range(3000)}
        return sorted(s)
    out = []
    for t in NT8:
        out += ["@nt %s %d" % (t, n) for n in range(256)]
    for t in NT16:
        out += ["@nt %s %d" % (t, n) for n in dom16()]
    for t, w in CONV.items():
        out += ["@conv %s %d" % (t, n) for n in (range(256) if w == 8 else dom16())]
    out += ["@sig %d" % n for n in dom16()]
    out += ["@keybits %d" % n for n in dom16()]
    return [Case(l, "", "registry") for l in out]

PROPS["C12"] = dict(
    families=[], corpus_entries=[], small_scope=[],
    spec={"@from_name": "spec.@from_name", "@conv": "spec.@conv", "@cipher": "spec.@cipher"},
    thorough_mult=1,
)
def _cipher_cases(tier, rng):
    from vlib import Case, REPO
    import os
    names = [l.split(":")[1] for l in open(os.path.join(REPO, "scripts", "tls-ciphersuites.txt")) if l.count(":") >= 9]
    out = set()
    for n in names:
        out.add(n)
        for k in (range(len(n)) if tier == "thorough" else [0, 1, len(n) // 2, len(n) - 2, len(n) - 1]):
            out.add(n[:k])
        out.add(n.lower()); out.add(n.upper()); out.add(n.swapcase()); out.add(n.title()); out.add(n + "_"); out.add(n + " "); out.add(" " + n); out.add(n + "8")
        k = rng.randrange(len(n)); c = n[k]
        out.add(n[:k] + ("X" if c != "X" else "Y") + n[k+1:])
        out.add(n[:k] + n[k+1:])
        out.add(n.replace("_", "-"))
    out.update(["", "TLS", "Unknown cipher", "TLS_", "tls_null_with_null_null"])
    cases = ["@from_name %s" % (x.encode().hex() or "-") for x in sorted(out)]
    # cipher ids: Display / LowerHex / Debug / conversions on every id
    ids = range(65536) if tier == "thorough" else sorted(set(range(0, 0x200)) | set(range(0x1300, 0x1310)) | set(range(0xc000, 0xc200)) | set(range(0xcc00, 0xcd00)) | {rng.randrange(65536) for _ in range(2000)})
    cases += ["@conv TlsCipherSuiteID %d" % i for i in ids]
    listed = [int(l.split(":")[0], 16) for l in open(os.path.join(REPO, "scripts", "tls-ciphersuites.txt")) if l.count(":") >= 9]
    cases += ["@cipher %d" % i for i in (range(65536) if tier == "thorough" else sorted(set(ids) | set(listed) | set(range(0, 65536, 251))))]
    return [Case(l, "", "registry") for l in cases]

def _length_sweep(tier, rng):
    """declared lengths x versions x content types, header only / header + a few bytes (C02: the cap must not
    depend on version or type; Needed must be exact)"""
    from vlib import Case
    if tier == "thorough": lens = range(65536)
    else: lens = sorted(set(range(0, 65536, 37)) | set(range(16600, 16700)) | set(range(0, 40)) | set(range(65500, 65536))
                        | {16384, 16385, 18432, 18433, 32767, 32768})
    vers = [0x0300, 0x0301, 0x0302, 0x0303, 0x0304, 0xfeff, 0xfefd, 0x7f12, 0x0000, 0xffff]
    out = []
    for L in lens:
        for v in (vers if tier == "thorough" or 16600 <= L < 16700 else [rng.choice(vers), rng.choice(vers[:5])]):
            ct = rng.choice([20, 21, 22, 23, 24, rng.randrange(256)])
            hdr = bytes([ct, v >> 8, v & 255, L >> 8, L & 255])
            tail = bytes(rng.randrange(256) for _ in range(rng.choice([0, 0, 1, 3])))
            for e in ("parse_tls_raw_record", "parse_tls_encrypted", "parse_tls_plaintext"):
                out.append(Case("%s %s" % (e, (hdr + tail).hex()), "", "lengths"))
    return out

def extra_cases(pid, tier, seed, rng):
    if pid == "C02": return _length_sweep(tier, rng)
    if pid == "C12": return _cipher_cases(tier, rng)
    if pid == "C17": return _nt_cases(tier, rng)
    if pid == "C08": return _state_cells(tier, rng)
    return []
