#!/bin/bash
# for `vp run --with-repo -- tools/reseed_bg.sh`: builds the framework in the snapshot, then runs every seeded change and
# every harmless rewrite against the snapshot of /repo ($VP_RUN_REPO); prints one line each.  Results are informational.
set -u
export VERIF_REPO=${VP_RUN_REPO:-/repo}
cd "$(dirname "$0")/.."
./setup.sh > setup.log 2>&1
declare -A REL=( [hr-1]="C05 C11 C01" [hr-2]="C08" [hr-3]="C02 C05 C07 C10 C01" [hr-4]="C10 C06" [hr-5]="C17 C11" [hr-6]="C05 C11" [hr-7]="C13 C06" [hr-8]="C03 C04 C05 C01"
  [hr2-1]="C07 C01" [hr2-2]="C08" [hr2-3]="C15" [hr2-4]="C09" [hr2-5]="C12" [hr2-6]="C18" [hr2-7]="C17" [hr2-8]="C02 C07 C01" [hr2-9]="C14 C06" [hr2-10]="C05 C11"
  [hr3-1]="C04 C06" [hr3-2]="C05" [hr3-3]="C09" [hr3-4]="C04" [hr3-5]="C02 C03" [hr3-6]="C03 C02" [hr3-7]="C10" [hr3-8]="C05 C13" [hr3-9]="C13" [hr3-10]="C13 C14" [hr3-11]="C14" [hr3-12]="C07 C01" )
for d in seeded/${1:-}*/; do
  n=$(basename $d); pid=$(python3 -c "import json;print(json.load(open('$d/meta.json'))['property'])")
  git -C $VERIF_REPO apply $PWD/$d/patch.diff || { echo "$n: patch does not apply"; continue; }
  ./check $pid > out-$n.txt 2>&1; rc=$?
  git -C $VERIF_REPO checkout -- .
  nf=$(grep -c "^VIOLATION.*no-failing-input-found" out-$n.txt); nv=$(grep -c "^VIOLATION" out-$n.txt)
  echo "SEED $n $pid rc=$rc violations=$nv nofailing=$nf"
done
for k in "${!REL[@]}"; do
  git -C $VERIF_REPO apply $PWD/harmless/$k.diff || { echo "$k: patch does not apply"; continue; }
  for p in ${REL[$k]}; do
    ./check $p > out-$k-$p.txt 2>&1; rc=$?
    echo "HARMLESS $k $p rc=$rc $(grep -m1 '^VIOLATION' out-$k-$p.txt) $(grep -m1 'broken' out-$k-$p.txt | cut -c1-200)"
  done
  git -C $VERIF_REPO checkout -- .
done
for pid in C01 C02 C03 C04 C05 C06 C07 C08 C09 C10 C11 C12 C13 C14 C15 C16 C17 C18; do ./check $pid > out-clean-$pid.txt 2>&1; echo "CLEAN $pid rc=$?"; done
