#!/bin/bash
# re-run every seeded change of /verif/seeded against the current machinery: apply, ./check <pid>, undo.
# usage: tools/reseed_all.sh [name-prefix]
cd /verif
for d in seeded/${1:-}*/; do
  n=$(basename $d); pid=$(python3 -c "import json;print(json.load(open('$d/meta.json'))['property'])")
  if [ -n "$(git -C /repo status --porcelain)" ]; then echo "repo not clean, abort"; exit 2; fi
  git -C /repo apply /verif/$d/patch.diff || { echo "$n: patch does not apply"; continue; }
  ./check $pid > $d/check_output.txt 2>&1; rc=$?
  git -C /repo checkout -- .
  nf=$(grep -c "^VIOLATION.*no-failing-input-found" $d/check_output.txt); nv=$(grep -c "^VIOLATION" $d/check_output.txt)
  python3 - <<PY
import json
p="$d/meta.json"; m=json.load(open(p)); m["check_exit"]=$rc; m["violations"]=$nv; m["only_no_failing_input_found"]=bool($nf and $nv==$nf)
json.dump(m,open(p,"w"),indent=1)
PY
  echo "$n $pid rc=$rc violations=$nv nofailing=$nf"
done
# evidence files were rewritten by runs on changed trees: refresh them from the clean tree
for pid in $(ls seeded/ | sed 's/-.*//' | sort -u); do ./check $pid > /dev/null 2>&1 || echo "clean-tree check $pid FAILED"; done
git -C /repo status --short
