"""Shared machinery of ./check: build steps, case generation/mutation, running
model and implementation, comparison, evidence and replay files."""
import os, re, sys, json, time, subprocess, hashlib, random, shutil, glob

VERIF = os.path.dirname(os.path.dirname(os.path.abspath(__file__)))
REPO = os.environ.get("VERIF_REPO", "/repo")
CACHE = os.path.join(VERIF, ".cache")
COQ = os.path.join(VERIF, "coq")
NPROC = int(os.environ.get("VERIF_JOBS", "16"))
GUARD = "tls_parser_verif"

ENV = dict(os.environ, CARGO_NET_OFFLINE="true")

def log(*a):
    print(*a, file=sys.stderr, flush=True)

def sh(cmd, cwd=None, timeout=3600, env=None, check=False, capture=True, stdin=None):
    p = subprocess.run(cmd, cwd=cwd, shell=isinstance(cmd, str), timeout=timeout, env=env or ENV,
                       stdout=subprocess.PIPE if capture else None, stderr=subprocess.STDOUT if capture else None,
                       input=stdin, text=True, errors="replace")
    if check and p.returncode != 0:
        raise RuntimeError("command failed (%d): %s\n%s" % (p.returncode, cmd, (p.stdout or "")[-4000:]))
    return p.returncode, p.stdout or ""

# ------------------------------------------------------------------ build steps
def repo_tag():
    return hashlib.sha1(REPO.encode()).hexdigest()[:8] if REPO != "/repo" else "repo"

def translate():
    """regenerate coq/gen from the current source; returns (rc, output)"""
    rc, out = sh([sys.executable, os.path.join(VERIF, "tools", "translate.py")], env=dict(ENV, VERIF_REPO=REPO))
    return rc, out

def coq_makefile():
    if not os.path.exists(os.path.join(COQ, "Makefile")) or \
       os.path.getmtime(os.path.join(COQ, "Makefile")) < os.path.getmtime(os.path.join(COQ, "_CoqProject")):
        sh("coq_makefile -f _CoqProject -o Makefile", cwd=COQ, check=True)

def coq_make(targets, timeout=3000):
    """make the given .vo targets (and their dependencies). returns (ok, output)"""
    coq_makefile()
    rc, out = sh(["make", "-j%d" % NPROC] + list(targets), cwd=COQ, timeout=timeout)
    return rc == 0, out

# ------------------------------------------------------------------ T12: source translation and its tie to the model
TIE_ROOTS = {
    "C02": ["parse_tls_plaintext", "parse_tls_encrypted", "parse_tls_raw_record", "parse_tls_record_header"],
    "C03": ["parse_tls_plaintext", "parse_tls_record_with_header"],
    "C04": ["parse_tls_message_handshake", r"re:parse_tls_handshake_.*"],
    "C05": [r"re:parse_tls_.*extension.*", "parse_tls_oid_filter", "parse_protocol_name"],
    "C06": [r"re:.*"], "C11": [r"re:.*"], "C01": [r"re:.*"], "C18": [r"re:.*"],
    "C07": ["parse_tls_record_with_header"],
    "C09": ["parse_tls_plaintext", r"re:parse_tls_extension.*"],
    "C10": [r"re:parse_dtls_.*"],
    "C13": ["parse_dh_params", "parse_ec_parameters", "parse_ecdh_params", "parse_digitally_signed", "parse_digitally_signed_old", "parse_content_and_signature"],
    "C14": [r"re:parse_ct_.*", "parse_log_id"],
    "C15": ["parse_tls_handshake_client_hello", "parse_dtls_client_hello"],
    "C16": ["tls_parser_many", "tls_parser", "parse_dtls_plaintext_records"],
}
_tie_cache = {}
def source_tie(pid):
    """T12: translate the parser functions of the current source, re-check `src_f = run f` for each; returns a list of
    (what, detail) for the functions in the property's call-graph closure whose tie no longer checks"""
    roots = TIE_ROOTS.get(pid)
    if not roots: return [], dict(functions=0)
    if "rep" not in _tie_cache:
        if not os.environ.get("VERIF_T12_DONE"):      # (setup.sh runs T12 once, then warms the per-property results in parallel)
            rc, out = sh([sys.executable, os.path.join(VERIF, "tools", "t12.py")], env=dict(ENV, VERIF_REPO=REPO))
        rep = json.load(open(os.path.join(COQ, "gen", "t12_report.json")))
        ok, mout = coq_make(["gen/SrcTie.vo", "Proofs/SrcTieManual.vo"])
        failing = {}
        if not ok:
            # which statements fail: every statement tried on its own
            ok2, mout2 = coq_make(["gen/SrcParsers.vo", "Proofs/TieTactics.vo"])
            if not ok2:
                m = re.search(r'File "([^"]+)", line (\d+)[^\n]*\n((?:.*\n){0,8})', mout2)
                failing["*"] = "the source translation gen/SrcParsers.v does not type-check: " + (m.group(0) if m else mout2[-600:]).strip()
            else:
                rc3, dout = sh(["coqc", "-q", "-Q", ".", "TlsModel", "gen/SrcTieDiag.v"], cwd=COQ, timeout=3000)
                for nm in re.findall(r"TIEFAIL tie_(\w+)", dout): failing[nm] = "`src_%s = run %s` is no longer provable: the source text of %s differs in meaning (or shape) from the model's term" % (nm, nm, nm)
                ok4, mout4 = coq_make(["Proofs/SrcTieManual.vo"])
                if not ok4:
                    m = re.search(r'File "([^"]+)", line (\d+)[^\n]*\n((?:.*\n){0,8})', mout4)
                    for nm in ("parse_tls_message_applicationdata", "parse_dtls_fragment"): failing.setdefault(nm, "Proofs/SrcTieManual.v no longer compiles: " + (m.group(0) if m else mout4[-400:]).strip())
                if not failing: failing["*"] = "gen/SrcTie.v does not compile: " + mout[-600:]
        _tie_cache.update(rep=rep, failing=failing)
    rep, failing = _tie_cache["rep"], _tie_cache["failing"]
    expected = json.load(open(os.path.join(VERIF, "tools", "t12_expected.json")))
    allf = set(rep["translated"]) | set(rep["untranslatable"]) | set(expected)
    def match(r, n): return re.fullmatch(r[3:], n) is not None if r.startswith("re:") else r == n
    todo = [n for n in allf if any(match(r, n) for r in roots)]
    seen = set()
    while todo:
        n = todo.pop()
        if n in seen: continue
        seen.add(n)
        for c in rep["translated"].get(n, {}).get("calls", []):
            c = c.replace("::parse", "_parse")
            if c in allf and c not in seen: todo.append(c)
    broken = []
    for d in rep.get("deviations", []):
        m = re.match(r"UNTRANSLATABLE T12: (\w+):", d)
        if m and (m.group(1) in seen or any(match(r, m.group(1)) for r in roots)): broken.append(("source-tie", d))
    for f, e in rep.get("file_errors", []): broken.append(("source-tie", "T12 cannot read %s: %s" % (f, e)))
    for n, why in failing.items():
        if n == "*" or n in seen: broken.append(("source-tie", why))
    devs = set(re.match(r"UNTRANSLATABLE T12: (\w+):", d).group(1) for d in rep.get("deviations", []) if re.match(r"UNTRANSLATABLE T12: (\w+):", d))
    # the property's theorems restated about the source translation (gen/<pid>_src.v)
    src_names, src_closed = rep.get("src_theorems", {}).get(pid, []), 0
    srcf = os.path.join("gen", pid + "_src.v")
    if src_names and os.path.exists(os.path.join(COQ, srcf)) and not failing:
        ok5, _ = coq_make([os.path.join("Properties", pid + ".vo")])
        # (cached: the key covers the generated file and the compiled files it is checked against)
        h = hashlib.sha1()
        for vf in sorted(glob.glob(os.path.join(COQ, "**", "*.v"), recursive=True)):
            if os.path.basename(vf).endswith("_src.v") and os.path.basename(vf) != pid + "_src.v": continue
            h.update(vf.encode()); h.update(open(vf, "rb").read())
        key = h.hexdigest()
        cfile = os.path.join(CACHE, "srcthm-%s.json" % pid)
        cached = json.load(open(cfile)) if os.path.exists(cfile) else {}
        if cached.get("key") == key and cached.get("rc") == 0: rc5, out5 = 0, cached["out"]
        else:
            rc5, out5 = sh(["coqc", "-q", "-Q", ".", "TlsModel", srcf], cwd=COQ, timeout=1800)
            os.makedirs(CACHE, exist_ok=True)
            json.dump(dict(key=key, rc=rc5, out=out5[-20000:]), open(cfile, "w"))
        if rc5 != 0:
            m = re.search(r'File "([^"]+)", line (\d+)[^\n]*\n((?:.*\n){0,8})', out5)
            broken.append(("source-tie", "the source-level theorems %s no longer check: %s" % (srcf, (m.group(0) if m else out5[-500:]).strip())))
        else:
            src_closed = len(re.findall(r"(?m)^Closed under the global context", out5))
            if src_closed != len(src_names) or "Axioms:" in out5:
                broken.append(("source-tie", "source-level theorems of %s depend on axioms: %s" % (srcf, out5[-400:])))
    info = dict(src_theorems=len(src_names), src_theorems_closed=src_closed, functions=len(seen), tied=len([n for n in seen if expected.get(n) in ("tied", "manual") and n not in failing and n not in devs and "*" not in failing]),
                outside_subset=sorted(n for n in seen if expected.get(n) == "outside"))
    return broken, info

def serializer_tie():
    """T13: translate the serializer functions of the current source and re-check `src_gen_x = gen_x` for each;
    returns (broken, info)"""
    rc, out = sh([sys.executable, os.path.join(VERIF, "tools", "t13.py")], env=dict(ENV, VERIF_REPO=REPO))
    rep = json.load(open(os.path.join(COQ, "gen", "t13_report.json")))
    broken = [("source-tie", d) for d in rep.get("deviations", [])]
    ok, mout = coq_make(["gen/SrcSerializeTie.vo"])
    failing = []
    if not ok:
        ok2, mout2 = coq_make(["gen/SrcSerialize.vo", "Proofs/TieTactics.vo"])
        if not ok2:
            m = re.search(r'File "([^"]+)", line (\d+)[^\n]*\n((?:.*\n){0,8})', mout2)
            broken.append(("source-tie", "the serializer translation gen/SrcSerialize.v does not type-check: " + (m.group(0) if m else mout2[-600:]).strip()))
        else:
            rc3, dout = sh(["coqc", "-q", "-Q", ".", "TlsModel", "gen/SrcSerializeDiag.v"], cwd=COQ, timeout=3000)
            failing = re.findall(r"TIEFAIL stie_(\w+)", dout)
            for nm in failing:
                broken.append(("source-tie", "`src_%s = %s` is no longer provable: the source text of %s differs in meaning (or shape) from the model's term" % (nm, nm, nm)))
            if not failing: broken.append(("source-tie", "gen/SrcSerializeTie.v does not compile: " + mout[-600:]))
    n = len(rep["translated"])
    return broken, dict(serializer_functions=n, serializer_tied=(n - len(failing)) if ok or failing else 0)

FORBIDDEN = re.compile(r"\b(Admitted|admit|Axiom|Axioms|Parameter|Parameters|Conjecture|Conjectures|Hypothesis|Hypotheses|Variable|Variables|Context|Unset\s+Guard|bypass_check|type-in-type|impredicative-set|Admit\s+Obligations|native_compute)\b")
def strip_coq_comments(s):
    out, depth, i, n = [], 0, 0, len(s)
    while i < n:
        if s.startswith("(*", i): depth += 1; i += 2
        elif s.startswith("*)", i) and depth: depth -= 1; i += 2
        else:
            if depth == 0: out.append(s[i])
            i += 1
    return "".join(out)

def forbidden_scan():
    """no Admitted/admit/Axiom/Parameter/... anywhere in the development
    (Variable/Hypothesis are allowed inside a Section only)."""
    bad = []
    files = glob.glob(os.path.join(COQ, "**", "*.v"), recursive=True)
    for f in files:
        s = strip_coq_comments(open(f).read())
        # string literals may contain the words; remove them
        s = re.sub(r'"[^"]*"', '""', s)
        depth = 0
        for ln, line in enumerate(s.split("\n"), 1):
            if re.match(r"\s*Section\b", line): depth += 1
            if re.match(r"\s*End\b", line) and depth: depth -= 1
            for m in FORBIDDEN.finditer(line):
                w = m.group(1)
                if w.split()[0] in ("Hypothesis", "Hypotheses", "Variable", "Variables", "Context") and depth > 0:
                    continue
                bad.append("%s:%d: %s" % (os.path.relpath(f, VERIF), ln, w))
    return bad

ALLOWED_AXIOMS = set()   # the development is axiom-free; nothing is allow-listed

def property_theorems(pid):
    """compile Properties/<pid>.v (dependencies first), capture Print Assumptions.
    returns dict(ok, theorems=[names], closed=[names], open={name: axioms}, log)"""
    vfile = os.path.join("Properties", pid + ".v")
    src = open(os.path.join(COQ, vfile)).read()
    names = re.findall(r"^\s*Theorem\s+([A-Za-z0-9_']+)", strip_coq_comments(src), re.M)
    ok, out = coq_make([vfile + "o"])
    res = dict(ok=ok, theorems=names, closed=[], open={}, log=out[-6000:])
    if not ok:
        return res
    # re-run coqc on the property file alone to capture its output
    rc, out2 = sh(["coqc", "-q", "-Q", ".", "TlsModel", vfile], cwd=COQ, timeout=1200)
    if rc != 0:
        res["ok"] = False; res["log"] = out2[-6000:]; return res
    # Print Assumptions outputs appear in order
    chunks = re.split(r"(?m)^(?=Closed under the global context|Axioms:)", out2)
    results = [c for c in chunks if c.startswith("Closed under") or c.startswith("Axioms:")]
    printed = re.findall(r"Print\s+Assumptions\s+([A-Za-z0-9_']+)", strip_coq_comments(src))
    for nm, c in zip(printed, results):
        if c.startswith("Closed under"):
            res["closed"].append(nm)
        else:
            ax = re.findall(r"(?m)^([A-Za-z0-9_.']+)\s*:", c[len("Axioms:"):])
            if all(a in ALLOWED_AXIOMS for a in ax): res["closed"].append(nm)
            else: res["open"][nm] = ax
    res["printed"] = printed
    res["missing_print"] = [t for t in names if t not in printed]
    res["raw"] = out2[-3000:]
    return res

def build_model():
    """extract the model and build the OCaml driver (only when stale)"""
    ok, out = coq_make(["Extract.vo"])
    if not ok:
        return False, out
    ml = os.path.join(COQ, "model.ml")
    binp = os.path.join(CACHE, "model_bin")
    os.makedirs(CACHE, exist_ok=True)
    drv = os.path.join(VERIF, "driver", "main.ml")
    if (not os.path.exists(binp)) or os.path.getmtime(binp) < max(os.path.getmtime(ml), os.path.getmtime(drv)):
        bdir = os.path.join(CACHE, "ocaml-build")
        os.makedirs(bdir, exist_ok=True)
        for f in ("model.ml", "model.mli"):
            shutil.copy(os.path.join(COQ, f), bdir)
        shutil.copy(drv, bdir)
        rc, o = sh("ocamlfind ocamlopt -O3 -w -a -o %s model.mli model.ml main.ml" % binp, cwd=bdir, timeout=600)
        if rc != 0:
            return False, o
    return True, ""

def harness_paths(config="default"):
    bdir = os.path.join(CACHE, "harness-%s-%s" % (repo_tag(), config))
    tdir = os.path.join(CACHE, "target-%s-%s" % (repo_tag(), config))
    return bdir, tdir, os.path.join(tdir, "release", "harness")

def build_harness(config="default"):
    """(re)build the harness against REPO's working tree; returns (ok, output, binary)"""
    bdir, tdir, binp = harness_paths(config)
    os.makedirs(bdir, exist_ok=True)
    tmpl = open(os.path.join(VERIF, "harness", "Cargo.toml.in")).read()
    toml = tmpl.replace("@REPO@", REPO).replace("@SRC@", os.path.join(VERIF, "harness", "src"))
    p = os.path.join(bdir, "Cargo.toml")
    if not os.path.exists(p) or open(p).read() != toml:
        open(p, "w").write(toml)
    shutil.copy(os.path.join(REPO, "Cargo.lock"), os.path.join(bdir, "Cargo.lock"))
    feats = {"default": [], "nostd": ["--no-default-features"],
             "serialize": ["--features", "serialize"]}[config]
    env = dict(ENV, RUSTFLAGS="--cfg " + GUARD, VERIF_GEN_DIR=os.path.join(COQ, "gen"))
    rc, out = sh(["cargo", "build", "--release", "--offline", "--target-dir", tdir] + feats, cwd=bdir, env=env, timeout=1800)
    return rc == 0, out, binp

def crate_check(tag, feats, expect_fail=None):
    """cargo check of the crate itself (not the harness) with a feature set; returns (ok_as_expected, detail)"""
    tdir = os.path.join(CACHE, "target-crate-" + tag)
    cmd = ["cargo", "check", "--offline", "--locked", "--lib", "--manifest-path", os.path.join(REPO, "Cargo.toml"), "--target-dir", tdir] + feats
    rc, out = sh(cmd, env=dict(ENV, RUSTFLAGS="--cfg " + GUARD), timeout=1800)
    errs = "\n".join(l for l in out.split("\n") if l.startswith("error"))[:800]
    if expect_fail is None:
        return rc == 0, dict(cmd=" ".join(cmd), rc=rc, errors=errs)
    return (rc != 0 and expect_fail in out), dict(cmd=" ".join(cmd), rc=rc, errors=errs, expected_error=expect_fail)

def dump_registry(binp):
    """T3b: regenerate gen/CipherDump.v from the implementation built from the current tree"""
    rc, out = sh([binp, "dump-ciphers"], timeout=300)
    if rc != 0 or "impl_rows" not in out:
        return False, out[-1500:]
    p = os.path.join(COQ, "gen", "CipherDump.v")
    old = open(p).read() if os.path.exists(p) else None
    if old != out:
        open(p, "w").write(out)
    return True, ""

# ------------------------------------------------------------------ cases
class Case:
    __slots__ = ("line", "expect", "origin")
    def __init__(self, line, expect="", origin=""):
        self.line, self.expect, self.origin = line, expect, origin

def model_gen(family, seed, n):
    """n generator invocations split over NPROC processes"""
    binp = os.path.join(CACHE, "model_bin")
    per = max(1, (n + NPROC - 1) // NPROC)
    procs = []
    for k in range(min(NPROC, n)):
        procs.append(subprocess.Popen([binp, "gen", family, str(seed * 1000 + k), str(per)],
                                      stdout=subprocess.PIPE, text=True))
    cases = []
    for p in procs:
        out, _ = p.communicate()
        for l in out.split("\n"):
            if not l: continue
            a, _, b = l.partition("\t")
            cases.append(Case(a, b, "gen:" + family))
    return cases

def run_lines(binp, lines, extra_env=None, label="", timeout=1800):
    """run a line-protocol binary over the lines in parallel chunks; returns list of outputs
    (None for lines the binary did not answer: crash or hang)"""
    n = len(lines)
    if n == 0: return []
    k = min(NPROC, max(1, n // 200))
    tmp = os.path.join(CACHE, "work", "run-%d-%s" % (os.getpid(), label))
    os.makedirs(tmp, exist_ok=True)
    procs = []
    for c in range(k):
        chunk = lines[c::k]          # round-robin: long and short lines are spread over the workers
        fin = os.path.join(tmp, "in%d" % c); fout = os.path.join(tmp, "out%d" % c)
        with open(fin, "w") as f: f.write("\n".join(chunk) + "\n")
        env = dict(ENV)
        if extra_env: env.update(extra_env)
        env["VERIF_HANG_FILE"] = os.path.join(tmp, "hang%d" % c)
        env["VERIF_STATS_FILE"] = os.path.join(tmp, "stats%d" % c)
        procs.append((subprocess.Popen("ulimit -s unlimited 2>/dev/null; exec %s < %s > %s" % (binp, fin, fout), shell=True, env=env), len(chunk), fout, c))
    outs, stats = [None] * n, []
    for p, cnt, fout, c in procs:
        try:
            p.wait(timeout=timeout)
        except subprocess.TimeoutExpired:
            p.kill()
        o = open(fout).read().split("\n")
        if o and o[-1] == "": o.pop()
        o = o[:cnt] + [None] * (cnt - len(o))
        hang = os.path.join(tmp, "hang%d" % c)
        if os.path.exists(hang) and len([x for x in o if x is not None]) < cnt:
            idx = len([x for x in o if x is not None])
            o[idx] = "(timeout)"
        outs[c::k] = o
        sf = os.path.join(tmp, "stats%d" % c)
        if os.path.exists(sf):
            for l in open(sf):
                a = l.split()
                if len(a) == 3: stats.append((c + (int(a[0]) - 1) * k, int(a[1]), int(a[2])))
    shutil.rmtree(tmp, ignore_errors=True)
    return outs, stats

def run_model(lines, label="m"):
    o, _ = run_lines(os.path.join(CACHE, "model_bin"), lines, label=label)
    return o

def strip_offsets(s):
    if s is None: return None
    s = re.sub(r"#[b!]?[0-9_]*:", "#:", s)
    s = re.sub(r"@[b!]?[0-9_]*\+", "@+", s)
    return s

def split_line(line):
    t = line.split(" ")
    return t[0], t[1:-1], (t[-1] if len(t) > 1 else "-")

def mutate(case, rng, budget):
    """truncations (every cut point for short inputs) and single-byte edits
    (every position gets boundary values: 0, ff, +1, -1, high-bit flip)"""
    entry, args, hx = split_line(case.line)
    if hx == "-": return []
    b = bytes.fromhex(hx)
    n = len(b)
    out = []
    def mk(nb, why):
        out.append(Case(" ".join([entry] + args + [nb.hex() if nb else "-"]), "", why))
    cuts = list(range(n)) if n <= 64 else sorted(set(list(range(0, 24)) + [rng.randrange(n) for _ in range(24)] + [n - 1, n - 2, n - 3]))
    for c in cuts:
        if 0 <= c < n: mk(b[:c], "trunc")
    poss = list(range(n)) if n <= 48 else sorted(set(list(range(0, 24)) + [rng.randrange(n) for _ in range(24)]))
    for p in poss:
        vals = {0, 0xff, (b[p] + 1) & 0xff, (b[p] - 1) & 0xff, b[p] ^ 0x80, rng.randrange(256)}
        vals.discard(b[p])
        for v in rng.sample(sorted(vals), min(len(vals), 3)):
            nb = bytearray(b); nb[p] = v; mk(bytes(nb), "edit")
    # append bytes
    mk(b + bytes(rng.randrange(256) for _ in range(rng.randrange(1, 6))), "append")
    if len(out) > budget:
        out = rng.sample(out, budget)
    return out

SMALL_ALPHABET = [0x00, 0x01, 0x02, 0x03, 0x0a, 0x16, 0x20, 0xff]
def small_scope(entry, args, maxlen_full, maxlen_small):
    """all inputs up to maxlen_full over all bytes, up to maxlen_small over the 8-symbol alphabet"""
    res = set()
    def rec(prefix, depth, alpha, maxd):
        res.add(bytes(prefix))
        if depth == maxd: return
        for a in alpha:
            rec(prefix + [a], depth + 1, alpha, maxd)
    rec([], 0, list(range(256)), maxlen_full)
    rec([], 0, SMALL_ALPHABET, maxlen_small)
    return [Case(" ".join([entry] + [str(a) for a in args] + [x.hex() if x else "-"]), "", "small") for x in sorted(res)]

def load_corpus(entries=None):
    cases = []
    for f in sorted(glob.glob(os.path.join(VERIF, "corpus", "*.case"))):
        for l in open(f):
            l = l.rstrip("\n")
            if not l or l.startswith("#"): continue
            a, _, b = l.partition("\t")
            if entries is None or a.split(" ")[0] in entries:
                cases.append(Case(a, b, "corpus:" + os.path.basename(f)))
    return cases

# ------------------------------------------------------------------ known findings
def load_findings():
    fnd, fixed = [], []
    p = os.path.join(VERIF, "known_findings.txt")
    if os.path.exists(p):
        for l in open(p):
            l = l.strip()
            if l.startswith("finding:"):
                m = re.match(r"finding:\s*property=(\S+)\s+(.*)", l)
                if m: fnd.append((m.group(1), m.group(2)))
            elif l.startswith("fixed:"):
                fixed.append(l)
    return fnd, fixed

# ------------------------------------------------------------------ evidence
def write_evidence(pid, tier, seed, coverage, wall, violations, assumptions):
    os.makedirs(os.path.join(VERIF, "evidence"), exist_ok=True)
    ev = dict(property_id=pid, tier=tier, seed=seed, level="proof", coverage=coverage,
              assumptions=assumptions, wall_s=round(wall, 2), violations=violations)
    with open(os.path.join(VERIF, "evidence", pid + ".json"), "w") as f:
        json.dump(ev, f, indent=1)

def write_replay(pid, idx, obj):
    d = os.path.join(VERIF, "replays")
    os.makedirs(d, exist_ok=True)
    p = os.path.join(d, "%s-%d.json" % (pid, idx))
    with open(p, "w") as f:
        json.dump(obj, f, indent=1)
    return p
