#!/usr/bin/env python3
"""Regenerates MANIFEST.json from the table below (kept valid at all times)."""
import json, os
V = os.path.dirname(os.path.dirname(os.path.abspath(__file__)))
props = [json.loads(l)["id"] for l in open(os.path.join(V, "properties.jsonl"))]
NOTE = ("Trusted: Coq 8.16.1 kernel (vm_compute; no native_compute), tools/translate*.py, extraction (ExtrOcamlBasic only) + driver/main.ml, "
        "harness/src/*.rs printers, Spec/*.v. Theorems are about the Gallina model; hand-written model parts are tied to the code only on the generated cases "
        "(every cut point, every byte position with boundary values, exhaustive small scope), table parts are regenerated from the source on every run.")
TECH = "machine-checked proof in Rocq (Coq 8.16) + tables regenerated from source + model/implementation correspondence check"
CLAIMS = {
 "C02": "Complete characterisation theorems of the three record parsers against a framing spec written from the property (all inputs, all offsets), axiom-free; the cap and the record dispatch table are regenerated from the source each run (the 'complete record never answers Incomplete' obligation is re-proved over that table); differential runs with a spec oracle tie model and implementation.",
 "C08": "tls_state_transition's two match tables are regenerated from the source and proved equal, cell by cell (25 states x 2 directions x all message kinds, all alert severities/codes via an abstraction lemma), to a specification built from the documented flows as paths plus the precedence rules; lifted to all finite message sequences by induction; every cell is also run on the real function (exhaustive over the abstract domain).",
 "C17": "The 18 newtype_enum! tables are regenerated from the source and proved equal (as finite maps) to a frozen IANA table; Display/Debug text is characterised for every integer by a general lemma on first-match lookup; SignatureScheme bit-splitting proved for all 16-bit values; key_bits proved for every named curve and every unregistered group; all of it also run exhaustively against the implementation.",
 "C12": "The compiled registry is dumped completely (all 65536 ids, four lookup routes, iteration order, derived sizes) from the implementation built from the current tree and becomes the Coq model; it is proved equal to scripts/tls-ciphersuites.txt (regenerated) for every id, to contain a frozen copy of today's IANA table, to have agreeing routes, unique names with an exact from_name for every string, consistent sizes and name-token rules; each obligation is re-checked by the kernel on every run.",
 "C07": "TlsRecordsParser is modelled as init/step over the record-content model; proved: the k-way split theorem by induction over fragments (any cut points, any k, buffer = concatenation so far), the three refusals leave the state unchanged, the 10 MiB buffer bound as an invariant over all operation sequences, idle = fresh as a bisimulation up to the unobservable stale buffer; the debug assertion's absence and both limits are re-read from the source each run; histories (all 2-way cuts, random k-way splits, foreign types, nocopy, reset, reuse, oversize) are run on the real parser with slice regions classified through the verification hook.",
 "C03": "Generic many1(complete(p)) round-trip lemma (list-as-fuel induction) instantiated for ChangeCipherSpec, alert and (parameterised by C04's round-trip) handshake records, with any tail on which the message parser stops; application data and heartbeat(+padding) decoded exactly; one-step = two-step as a corollary of the C02 characterisation; rejection of unknown types, empty and first-bad payloads; the dispatch table is re-read from the source and compared with the expected one on every run.",
 "C16": "tls_parser_many and parse_dtls_plaintext_records are proved equal to an explicit 'iterate the single-record parser while it succeeds' specification for every input (using progress >= 1 byte, the generic no-Failure theorem and the Safe theorems), fail-iff-first-fails as a corollary, tls_parser = parse_tls_plaintext by definition; the check additionally chains the implementation's own single-record parser over each input and compares with its multi-record parser.",
 "C13": "Round-trip theorems (value modulo slice offsets, exact consumption, untouched remainder) for ServerDHParams, ECParameters in both forms, ServerECDHParams, ECPoint and both DigitallySigned forms against RFC encoders, over the full ranges of all length fields; rejection of every other curve type; parse_content_and_signature characterised for EVERY content parser and both flag values.",
 "C14": "Round-trip theorems for a single SCT and for SCT lists of any length (generic many0(complete(..)) lemma), every field exact; over-long list gives Incomplete with the exact count; an over-long entry is not decoded (the list stops before it).",
 "C04": "Round-trip theorem for all 17 handshake variants against RFC encoders (value modulo slice offsets, exact consumption, remainder untouched; absent vs empty extension block and session id, list order, opaque bodies), including the alt(TLS1.2, legacy) CertificateRequest disambiguation; confinement to the 24-bit length as an equation for every input; rejection theorems (session id > 32, odd/over-long cipher list, over-long compression list, short ticket, over-long certificate list / status blob, unsupported ServerHello version, unknown type, cut-off message), each universally quantified; dispatch and version tables re-read from the source each run.",
 "C05": "The three dispatchers are interpreters of tables regenerated from the source's match blocks; proved: the generic table is the IANA assignment, the client/server tables agree with it, the GREASE test selects exactly the 16 RFC 8701 values (all 65536 types by kernel computation), the 16 tag constants are the IANA types; round-trip of all 26 typed variants for every well-formed content through any dispatcher that lists the type, GREASE and unknown types preserved byte-for-byte, whole extension blocks (generic many0 lemma), dispatcher agreement as a general lemma, empty-only extensions rejected with data, over-long length never a value. Differential: all 65536 types x three dispatchers, all variants, tag parsers on right and wrong types.",
 "C10": "13-byte header round-trip with the epoch/sequence bit split proved (shiftr/land lemmas) for all 16-bit epochs and 48-bit sequence numbers; record framing characterised for every body (cap, TooLarge, exact Needed, exact consumption); the 12-byte handshake header characterised for every field value: fragment iff offset>0 or fragment shorter than the message, otherwise the body parser selected by the regenerated table runs on exactly the fragment bytes; round-trip of the six supported bodies (ClientHello with any cookie length); datagrams via the C16 theorem.",
}
def chk(pid):
    return {"property_id": pid, "quick_cmd": "./check %s --tier quick" % pid, "thorough_cmd": "./check %s --tier thorough" % pid,
            "evidence_file": "evidence/%s.json" % pid, "replay_cmd_template": "./check %s --replay {path}" % pid,
            "engine": "rocq-model",
            "level_claimed": {"category": "proof", "text": CLAIMS[pid], "design_ref": "DESIGN.md section 7 (%s)" % pid},
            "level_note": NOTE, "technique": TECH}
NA = {}
m = {"version": 1, "setup_cmd": "./setup.sh",
     "hooks": {"guard": "tls_parser_verif", "enable": "RUSTFLAGS='--cfg tls_parser_verif' (set by ./check when it builds harness/ against /repo)",
               "baseline_off_cmd": "cd /repo && cargo test --workspace --no-fail-fast --offline", "source_commits": [], "add_only": True},
     "engines": [{"name": "rocq-model", "path": "coq/", "serves_properties": sorted(CLAIMS),
                  "kind_free_text": "Gallina model of the crate (deep-embedded nom combinators + parsers + state tables), theorems in coq/Properties, tables regenerated from /repo by tools/translate.py, extracted model run against the Rust harness on generated cases"}],
     "checks": [chk(p) for p in props if p in CLAIMS],
     "notes": "see DESIGN.md; ./check Cxx prints VIOLATION/KNOWN-FINDING lines and rewrites evidence/Cxx.json",
     "not_applicable": [{"property_id": p, "reason": NA.get(p, "check under construction in this session (will be claimed; not a statement that the technique does not apply)")}
                        for p in props if p not in CLAIMS]}
hooks_file = os.path.join(V, "hooks_commits.txt")
if os.path.exists(hooks_file):
    m["hooks"]["source_commits"] = [l.strip() for l in open(hooks_file) if l.strip()]
json.dump(m, open(os.path.join(V, "MANIFEST.json"), "w"), indent=1)
print("claimed:", sorted(CLAIMS))
