#!/usr/bin/env python3
"""T12: the parser functions of /repo/src/*.rs, translated statement by statement into Gallina.

Every `fn f(i: &[u8], extra..) -> IResult<&[u8], T>` of the non-test source becomes
    Definition src_f (extra..) (i : slice) : res _ := <the function body>
in coq/gen/SrcParsers.v: the body is read by tools/rustsub.py and translated literally -- `let (i, x) = e?;` is the
bind of the result type, `Ok((s, v))` / `Err(Err::Error(make_error(s, K)))` are the constructors of `res`, `match` /
`if` / early `return` are Gallina conditionals, nom combinator expressions `c(a, b)(input)` are `run (C A B) input` with
the model's interpreter, and a call of another function of the crate is `run (g extra..) input` with the *model's*
term for g (each function is tied separately, so the tie is modular along the call graph).  coq/gen/SrcTie.v then
states, for every translated function, `forall extra i, src_f extra i = run (f extra) i` -- the model's hand-written
term means exactly what the source text says now -- proved by the tactics of Proofs/TieTactics.v.  A function the
translator cannot read is reported (never skipped silently); tools/t12_expected.json lists which functions are
expected to be tied and which are known to be outside the subset (iterator code, the stateful defragmenter).

usage: t12.py [--repo DIR] [--out DIR] [--report FILE]"""
import os, sys, re, json, glob
sys.path.insert(0, os.path.dirname(os.path.abspath(__file__)))
import rustsub
from rustsub import Unsupported

VERIF = os.path.dirname(os.path.dirname(os.path.abspath(__file__)))
REPO = os.environ.get("VERIF_REPO", "/repo")

SRC_FILES = ["tls_record.rs", "tls_message.rs", "tls_alert.rs", "tls_handshake.rs", "tls_extensions.rs", "dtls.rs", "tls_ec.rs",
             "tls_dh.rs", "tls_sign_hash.rs", "certificate_transparency.rs", "tls_records_parser.rs"]

# ---------------------------------------------------------------------------------------------------------------
# glue between Rust value constructors and the model's value types (Model/Values.v, Model/SrcGlue.v)
# ---------------------------------------------------------------------------------------------------------------
NOM_PRIMS = {"be_u8": "be_u8", "be_u16": "be_u16", "be_u24": "be_u24", "be_u32": "be_u32", "be_u64": "be_u64"}
ERRKINDS = {"Tag": "KTag", "Verify": "KVerify", "Switch": "KSwitch", "TooLarge": "KTooLarge", "LengthValue": "KLengthValue",
            "Complete": "KComplete", "Many0": "KMany0", "Many1": "KMany1", "Count": "KCount", "Alt": "KAlt", "NonEmpty": "KNonEmpty"}
# tuple-like enum variants / tuple structs -> Gallina function
CTORS = {
    "TlsMessage::Handshake": "MHandshake", "TlsMessage::ChangeCipherSpec": "MChangeCipherSpec", "TlsMessage::Alert": "g_MAlert",
    "TlsMessage::ApplicationData": "g_MApplicationData", "TlsMessage::Heartbeat": "g_MHeartbeat",
    "TlsMessageHandshake::HelloRequest": "HHelloRequest", "TlsMessageHandshake::ClientHello": "HClientHello",
    "TlsMessageHandshake::ServerHello": "HServerHello", "TlsMessageHandshake::ServerHelloV13Draft18": "HServerHelloV13Draft18",
    "TlsMessageHandshake::NewSessionTicket": "g_HNewSessionTicket", "TlsMessageHandshake::EndOfEarlyData": "HEndOfEarlyData",
    "TlsMessageHandshake::HelloRetryRequest": "HHelloRetryRequest", "TlsMessageHandshake::Certificate": "HCertificate",
    "TlsMessageHandshake::ServerKeyExchange": "HServerKeyExchange", "TlsMessageHandshake::CertificateRequest": "HCertificateRequest",
    "TlsMessageHandshake::ServerDone": "HServerDone", "TlsMessageHandshake::CertificateVerify": "HCertificateVerify",
    "TlsMessageHandshake::ClientKeyExchange": "HClientKeyExchange", "TlsMessageHandshake::Finished": "HFinished",
    "TlsMessageHandshake::CertificateStatus": "g_HCertificateStatus", "TlsMessageHandshake::NextProtocol": "g_HNextProtocol",
    "TlsMessageHandshake::KeyUpdate": "HKeyUpdate",
    "TlsClientKeyExchangeContents::Unknown": "CkeUnknown", "TlsClientKeyExchangeContents::Dh": "CkeDh", "TlsClientKeyExchangeContents::Ecdh": "CkeEcdh",
    "TlsClientHelloContents::new": "mkCH", "TlsServerHelloContents::new": "mkSH",
    "DTLSMessage::Handshake": "DMHandshake", "DTLSMessage::ChangeCipherSpec": "DMChangeCipherSpec", "DTLSMessage::Alert": "g_DMAlert",
    "DTLSMessageHandshakeBody::Fragment": "DFragment", "DTLSMessageHandshakeBody::ClientHello": "DClientHello",
    "DTLSMessageHandshakeBody::HelloVerifyRequest": "g_DHelloVerifyRequest", "DTLSMessageHandshakeBody::ServerHello": "DServerHello",
    "DTLSMessageHandshakeBody::ServerDone": "DServerDone", "DTLSMessageHandshakeBody::ClientKeyExchange": "DClientKeyExchange",
    "DTLSMessageHandshakeBody::Certificate": "DCertificate", "DTLSMessageHandshakeBody::HelloRequest": "DHelloRequest",
    "CtExtensions": "g_id", "ECParametersContent::ExplicitPrime": "EcExplicitPrime", "ECParametersContent::NamedGroup": "EcNamedGroup",
}
# struct literals: Rust struct name -> (Gallina function, field order)
STRUCTS = {
    "TlsRecordHeader": ("mkHdr", ["record_type", "version", "len"]),
    "TlsPlaintext": ("mkPlain", ["hdr", "msg"]), "TlsEncrypted": ("mkEnc", ["hdr", "msg"]), "TlsEncryptedContent": ("g_id", ["blob"]),
    "TlsRawRecord": ("mkRaw", ["hdr", "data"]),
    "TlsMessageAlert": ("g_pair", ["severity", "code"]), "TlsMessageApplicationData": ("g_id", ["blob"]),
    "TlsMessageHeartbeat": ("g_triple", ["heartbeat_type", "payload_len", "payload"]),
    "TlsServerHelloV13Draft18Contents": ("mkSH13", ["version", "random", "cipher", "ext"]),
    "TlsHelloRetryRequestContents": ("mkHRR", ["version", "cipher", "ext"]),
    "TlsNewSessionTicketContent": ("g_pair", ["ticket_lifetime_hint", "ticket"]),
    "TlsCertificateContents": ("g_id", ["cert_chain"]), "RawCertificate": ("g_id", ["data"]),
    "TlsServerKeyExchangeContents": ("g_id", ["parameters"]),
    "TlsCertificateRequestContents": ("mkCR", ["cert_types", "sig_hash_algs", "unparsed_ca"]),
    "TlsCertificateStatusContents": ("g_pair", ["status_type", "blob"]),
    "TlsNextProtocolContent": ("g_pair", ["selected_protocol", "padding"]),
    "DTLSRecordHeader": ("mkDHdr", ["content_type", "version", "epoch", "sequence_number", "length"]),
    "DTLSClientHello": ("mkDCH", ["version", "random", "session_id", "cookie", "ciphers", "comp", "ext"]),
    "DTLSHelloVerifyRequest": ("g_pair", ["server_version", "cookie"]),
    "DTLSMessageHandshake": ("mkDHS", ["msg_type", "length", "message_seq", "fragment_offset", "fragment_length", "body"]),
    "DTLSPlaintext": ("mkDPlain", ["header", "messages"]),
    "ServerDHParams": ("mkDH", ["dh_p", "dh_g", "dh_ys"]),
    "ECPoint": ("g_id", ["point"]), "ECCurve": ("g_pair", ["a", "b"]),
    "ExplicitPrimeContent": ("g_mkEP", ["prime_p", "curve", "base", "order", "cofactor"]),
    "ECParameters": ("mkECP", ["curve_type", "params_content"]),
    "ServerECDHParams": ("mkECDH", ["curve_params", "public"]),
    "DigitallySigned": ("mkDS", ["alg", "data"]),
    "SignatureAndHashAlgorithm": ("g_pair", ["hash", "sign"]),
    "CtLogID": ("g_id", ["key_id"]), "OidFilter": ("g_pair", ["cert_ext_oid", "cert_ext_val"]),
    "SignedCertificateTimestamp": ("mkSCT", ["version", "id", "timestamp", "extensions", "signature"]),
    "TlsExtension::EncryptedServerName": ("EEncryptedServerName", ["ciphersuite", "group", "key_share", "record_digest", "encrypted_sni"]),
}
# field projections: (Rust type, field) -> Gallina projection
FIELDS = {
    ("TlsRecordHeader", "record_type"): "h_type", ("TlsRecordHeader", "version"): "h_version", ("TlsRecordHeader", "len"): "h_len",
    ("DTLSRecordHeader", "content_type"): "d_type", ("DTLSRecordHeader", "version"): "d_version", ("DTLSRecordHeader", "epoch"): "d_epoch",
    ("DTLSRecordHeader", "sequence_number"): "d_seq", ("DTLSRecordHeader", "length"): "d_len",
    ("TlsRawRecord", "hdr"): "r_hdr", ("TlsRawRecord", "data"): "r_data",
}
# derived `Type::parse`: the model's term for it
DERIVED_PARSE = {
    "TlsRecordHeader": "parse_tls_record_header", "TlsMessageAlert": "parse_alert_pair", "ServerDHParams": "parse_dh_params",
    "ECPoint": "parse_ec_point", "ECCurve": "parse_ec_curve", "ExplicitPrimeContent": "parse_explicit_prime",
    "ECParametersContent": "parse_ec_parameters_content", "ECParameters": "parse_ec_parameters", "ServerECDHParams": "parse_ecdh_params",
    "SignatureAndHashAlgorithm": "parse_sig_hash_pair",
}
# functions whose model term has another name / shape
MODEL_NAME = {"parse_named_groups": "parse_named_groups"}
MODEL_CONSTS = {"MAX_RECORD_LEN", "MAX_RECORD_DATA"}
COQ_KEYWORDS = {"type", "in", "as", "at", "end", "fun", "let", "match", "with", "return", "if", "then", "else", "fix", "forall", "exists", "using", "where", "Type", "Set", "Prop", "struct"}

def ident(n):
    return n + "_" if n in COQ_KEYWORDS else n

class Ctx:
    def __init__(self, tr, fn):
        self.tr, self.fn = tr, fn
        self.types = {}          # variable -> Rust type name
        self.guards = []         # panic guards collected while translating value expressions
        self.input_vars = set()

class Translator:
    def __init__(self, repo):
        self.repo = repo
        self.fns = {}            # name -> item
        self.newtypes = {}       # name -> width in bytes
        self.consts = {}         # "Type::Name" -> value
        self.plain_consts = {}   # NAME -> expression tokens (crate constants)
        self.derived = {}        # derive(Nom) items
        self.array_fields = {}   # (struct, field) -> n for fields of type &[u8; n]
        self.load()

    def load(self):
        for f in SRC_FILES:
            p = os.path.join(self.repo, "src", f)
            if not os.path.exists(p): continue
            src = open(p).read()
            for m in re.finditer(r"pub struct (\w+)\s*\(\s*pub (u8|u16|u32|u64)\s*\)", src):
                self.newtypes[m.group(1)] = {"u8": 1, "u16": 2, "u32": 4, "u64": 8}[m.group(2)]
            for m in re.finditer(r"newtype_enum!\s*\{\s*impl\s*(?:display|debug)?\s*(\w+)\s*\{(.*?)\}\s*\}", src, re.S):
                ty = m.group(1)
                for k, v in re.findall(r"(\w+)\s*=\s*(0x[0-9a-fA-F_]+|\d[\d_]*)", m.group(2)):
                    self.consts["%s::%s" % (ty, k)] = rustsub.num_value(v)
            for m in re.finditer(r"pub struct (\w+)(?:<[^>]*>)?\s*\{(.*?)\n\}", src, re.S):
                for fm in re.finditer(r"pub (\w+)\s*:\s*&'\w+\s*\[u8;\s*(\d+)\]", m.group(2)):
                    self.array_fields[(m.group(1), fm.group(1))] = int(fm.group(2))
            for m in re.finditer(r"^\s*(?:pub(?:\([a-z]+\))?\s+)?const (\w+)\s*:\s*(\w+)\s*=\s*([^;]+);", src, re.M):
                self.plain_consts[m.group(1)] = m.group(3).strip()
            try:
                items = rustsub.parse_file(src)
            except Unsupported as e:
                items = []
                self.file_errors = getattr(self, "file_errors", []) + [(f, str(e))]
            for it in items:
                it["file"] = f
                key = it["name"] if not it["owner"] else "%s::%s" % (it["owner"][0], it["name"])
                self.fns[key] = it
            for d in rustsub.derive_structs(src):
                d["file"] = f; self.derived[d["name"]] = d
        # also the newtypes of lib-level modules that SRC_FILES may not cover
        for f in glob.glob(os.path.join(self.repo, "src", "*.rs")):
            src = open(f).read()
            for m in re.finditer(r"pub struct (\w+)\s*\(\s*pub (u8|u16|u32|u64)\s*\)", src):
                self.newtypes.setdefault(m.group(1), {"u8": 1, "u16": 2, "u32": 4, "u64": 8}[m.group(2)])

    # ---- classification of functions ----
    def parser_kind(self, it):
        """'direct': fn(i: &[u8], extra..) -> IResult ; 'factory': fn(extra..) -> impl FnMut(&[u8]) -> IResult ; None"""
        ret = it["ret"].replace(" ", "")
        ps = it["params"]
        if ret.startswith("IResult<") and ps and re.match(r"&('\w+)?\[u8\]$", ps[0][1].replace(" ", "")): return "direct"
        if ret.startswith("implFnMut(&[u8])->IResult<") or ret.startswith("implFn(&[u8])->IResult<"): return "factory"
        return None
    def value_type(self, it):
        ret = it["ret"].replace(" ", "")
        m = re.search(r"IResult<&('\w+)?\[u8\],(.*)>$", ret)
        if not m: return None
        t = m.group(2)
        t = re.sub(r"<'\w+>", "", t)
        return t
    def const_generics(self, it):
        return re.findall(r"const (\w+) : bool", it["generics"])

    def extras(self, it):
        kind = self.parser_kind(it)
        ps = it["params"][1:] if kind == "direct" else it["params"]
        return [(n, t) for n, t in ps]

    def model_term(self, name, extra_terms, generic_terms=()):
        base = MODEL_NAME.get(name, name)
        args = list(generic_terms) + list(extra_terms)
        return base if not args else "(%s %s)" % (base, " ".join(args))

    # ---- value expressions ----
    def const_value(self, path):
        key = "::".join(path)
        if key in self.consts: return str(self.consts[key])
        return None

    def val(self, e, cx):
        k = e[0]
        if k == "lit": return str(e[1])
        if k == "bool": return "true" if e[1] else "false"
        if k == "paren": return self.val(e[1], cx)
        if k in ("ref",): return self.val(e[1], cx)
        if k == "un":
            if e[1] == "*": return self.val(e[2], cx)
            if e[1] == "!": return "(negb %s)" % self.val(e[2], cx)
            raise Unsupported("unary %s" % e[1])
        if k == "path":
            p = [s for s in e[1] if not s.startswith("<")]
            if len(p) == 1:
                n = p[0]
                if n == "None": return "None"
                if n in cx.fn_generics: return ident(n.lower())
                if n in self.plain_consts and n not in cx.types and n not in cx.locals:
                    if n not in MODEL_CONSTS: cx.used_consts.add(n)    # defined locally in gen/SrcParsers.v from its initialiser
                    return n      # crate constant: the model defines it under the same name (gen/Consts.v)
                return ident(n)
            c = self.const_value(p)
            if c is not None: return c
            key = "::".join(p)
            if key in CTORS: return CTORS[key]
            if key == "Vec::new": return "(@nil _)"
            if len(p) == 2 and p[0] == "TlsExtension": return "E" + p[1]
            raise Unsupported("path %s" % key)
        if k == "call":
            f = e[1]
            if f[0] == "path":
                p = [s for s in f[1] if not s.startswith("<")]
                key = "::".join(p)
                if key == "Some": return "(Some %s)" % self.val(e[2][0], cx)
                if key == "Vec::new": return "(@nil _)"
                if len(p) == 1 and p[0] in self.newtypes and len(e[2]) == 1: return self.val(e[2][0], cx)   # newtype wrapper
                if key in ("usize::from", "u32::from", "u64::from", "u16::from", "u8::from") and len(e[2]) == 1: return self.val(e[2][0], cx)
                if key not in CTORS and len(p) == 2 and p[0] == "TlsExtension": CTORS[key] = "E" + p[1]
                if key in CTORS:
                    return "(%s %s)" % (CTORS[key], " ".join(self.val(a, cx) for a in e[2])) if e[2] else CTORS[key]
                if len(p) == 1 and p[0] in STRUCTS:       # tuple struct listed with one field
                    return "(%s %s)" % (STRUCTS[p[0]][0], " ".join(self.val(a, cx) for a in e[2]))
                if len(p) == 1 and p[0] in self.fns and self.parser_kind(self.fns[p[0]]) is None:
                    return self.inline_pure(p[0], e[2], cx)
                raise Unsupported("call of %s in a value position" % key)
            raise Unsupported("call in a value position")
        if k == "struct":
            p = [s for s in e[1] if not s.startswith("<")]
            key = "::".join(p)
            if key not in STRUCTS and p[-1] in STRUCTS: key = p[-1]
            if key not in STRUCTS: raise Unsupported("struct literal %s" % key)
            if e[3] is not None: raise Unsupported("struct update syntax")
            g, order = STRUCTS[key]
            given = dict(e[2])
            if set(given) != set(order): raise Unsupported("struct literal %s: fields %s, expected %s" % (key, sorted(given), sorted(order)))
            vals = []
            for f in order:
                cx.array_len = self.array_fields.get((p[-1], f))
                vals.append(self.val(given[f], cx))
                cx.array_len = None
            return "(%s %s)" % (g, " ".join(vals))
        if k == "tuple":
            if not e[1]: return "tt"
            return "(%s)" % ", ".join(self.val(a, cx) for a in e[1])
        if k == "macro":
            if e[1] == "vec":
                inner = rustsub.Parser(list(e[2]) + [("op", "]")]).args("]")
                return "[%s]" % "; ".join(self.val(a, cx) for a in inner)
            raise Unsupported("macro %s!" % e[1])
        if k == "cast":
            v = self.val(e[1], cx)
            ty = e[2]
            if ty in ("usize", "u64", "u32", "u128"): return v
            if ty == "u16": return "(%s mod 65536)" % v
            if ty == "u8": return "(%s mod 256)" % v
            raise Unsupported("cast to %s" % ty)
        if k == "field":
            base = e[1]
            if base[0] == "path" and len(base[1]) == 1:
                ty = cx.types.get(base[1][0])
                if ty and (ty, e[2]) in FIELDS: return "(%s %s)" % (FIELDS[(ty, e[2])], ident(base[1][0]))
                raise Unsupported("field .%s of %s (type %s)" % (e[2], base[1][0], ty))
            raise Unsupported("field access")
        if k == "tfield":
            if e[2] == 0: return self.val(e[1], cx)       # newtype .0
            raise Unsupported("tuple field .%d" % e[2])
        if k == "index":
            base, idx = e[1], e[2]
            while base[0] == "paren": base = base[1]
            if idx[0] == "range" and not idx[3]:
                b = self.val(base, cx)
                if idx[1] is None and idx[2] is not None:       # x[..n]: panics when n > len
                    n = self.val(idx[2], cx); cx.guards.append("(slen %s <? %s)" % (b, n)); return "(stake %s %s)" % (b, n)
                if idx[1] is not None and idx[2] is None:       # x[n..]
                    n = self.val(idx[1], cx); cx.guards.append("(slen %s <? %s)" % (b, n)); return "(sdrop %s %s)" % (b, n)
            raise Unsupported("index expression")
        if k == "mcall" and e[2] == "collect" and not e[3]:
            # the two list-decoding idioms of the crate, matched token for token
            m = e[1]
            if m[0] == "mcall" and m[2] == "map" and len(m[3]) == 1 and m[3][0][0] == "closure":
                src_, clo = m[1], m[3][0]
                if src_[0] == "mcall" and src_[2] == "chunks" and src_[3] == [("lit", 2)] and clo[1] == [("pid", "chunk")]:
                    body = clo[2]
                    ok = (body[0] == "call" and body[1][0] == "path" and len(body[1][1]) == 1 and body[1][1][0] in self.newtypes and len(body[2]) == 1 and
                          body[2][0] == ("bin", "|", ("bin", "<<", ("paren", ("cast", ("index", ("path", ["chunk"]), ("lit", 0)), "u16")), ("lit", 8)),
                                         ("cast", ("index", ("path", ["chunk"]), ("lit", 1)), "u16")))
                    if ok:
                        sl = self.val(src_[1], cx)
                        cx.guards.append("(pairs16_panics (bytes %s))" % sl)     # chunk[1] on a trailing 1-byte chunk
                        return "(pairs16_val (bytes %s))" % sl
                if src_[0] == "mcall" and src_[2] == "iter" and not src_[3] and clo[1] == [("pref", ("pid", "it"))]:
                    body = clo[2]
                    if body[0] == "call" and body[1][0] == "path" and len(body[1][1]) == 1 and body[1][1][0] in self.newtypes and body[2] == [("path", ["it"])]:
                        return "(map b2n (bytes %s))" % self.val(src_[1], cx)
            raise Unsupported("iterator chain outside the two known idioms")
        if k == "mcall" and e[2] == "expect" and e[1][0] == "mcall" and e[1][2] == "try_into" and not e[1][3]:
            n = getattr(cx, "array_len", None)
            if n is None: raise Unsupported("try_into().expect() outside a struct field of array type")
            v = self.val(e[1][1], cx)
            cx.guards.append("(negb (slen %s =? %d))" % (v, n))          # the conversion to &[u8; n] fails otherwise
            return v
        if k == "mcall":
            r = self.val(e[1], cx)
            if e[2] == "len" and not e[3]: return "(slen %s)" % r
            if e[2] == "is_empty" and not e[3]: return "(slen %s =? 0)" % r
            if e[2] == "to_vec" and not e[3]: return "(bytes %s)" % r
            if e[2] == "checked_sub" and len(e[3]) == 1:
                b = self.val(e[3][0], cx)
                return "(if %s <? %s then None else Some (%s - %s))" % (r, b, r, b)
            if e[2] == "saturating_sub" and len(e[3]) == 1: return "(%s - %s)" % (r, self.val(e[3][0], cx))
            raise Unsupported("method .%s()" % e[2])
        if k == "bin":
            op, a, b = e[1], self.val(e[2], cx), self.val(e[3], cx)
            if op == "==": return "(%s =? %s)" % (a, b)
            if op == "!=": return "(negb (%s =? %s))" % (a, b)
            if op == "<": return "(%s <? %s)" % (a, b)
            if op == ">": return "(%s <? %s)" % (b, a)
            if op == "<=": return "(%s <=? %s)" % (a, b)
            if op == ">=": return "(%s <=? %s)" % (b, a)
            if op == "&&": return "(%s && %s)" % (a, b)
            if op == "||": return "(%s || %s)" % (a, b)
            if op == "+": return "(%s + %s)" % (a, b)
            if op == "*": return "(%s * %s)" % (a, b)
            if op == "%": return "(%s mod %s)" % (a, b)
            if op == "/": return "(%s / %s)" % (a, b)
            if op == ">>": return "(N.shiftr %s %s)" % (a, b)
            if op == "<<": return "(N.shiftl %s %s)" % (a, b)
            if op == "&": return "(N.land %s %s)" % (a, b)
            if op == "|": return "(N.lor %s %s)" % (a, b)
            if op == "-":
                cx.guards.append("(%s <? %s)" % (a, b))     # unsigned subtraction: overflow panics
                return "(%s - %s)" % (a, b)
            raise Unsupported("operator %s" % op)
        if k == "closure":
            pats, body = e[1], e[2]
            return "(fun %s => %s)" % (" ".join(self.pat(p, cx) for p in pats) or "_", self.val(body, cx))
        if k == "block" and not e[1] and e[2] is not None: return self.val(e[2], cx)
        if k == "if" and e[3] is not None:
            return "(if %s then %s else %s)" % (self.val(e[1], cx), self.val(e[2], cx), self.val(e[3], cx))
        if k == "array":
            return "[%s]" % "; ".join(self.val(a, cx) for a in e[1])
        raise Unsupported("value expression %s" % k)

    def inline_pure(self, name, args, cx, depth=0):
        """a call of a non-parser helper of the crate (fn(args) -> value with a straight-line body): its body, with the
        parameters let-bound to the arguments"""
        it = self.fns[name]
        if depth > 4 or it["body"] is None or it["body"][0] != "block": raise Unsupported("helper %s" % name)
        ps = [q for q in it["params"] if q[0] != "self"]
        if len(ps) != len(args): raise Unsupported("helper %s: arity" % name)
        vals = [self.val(a, cx) for a in args]
        saved_types, saved_locals = dict(cx.types), set(cx.locals)
        for (pn, pt) in ps:
            cx.locals.add(pn)
            tt = re.sub(r"&|'\w+|\s", "", pt)
            if tt in ("TlsRecordHeader", "DTLSRecordHeader"): cx.types[pn] = tt
        body = it["body"]
        inner = None
        lets = []
        for st in body[1]:
            if st[0] != "let" or self.has_try(st[2]): raise Unsupported("helper %s: statement" % name)
            lets.append((self.pat(st[1], cx), self.val(st[2], cx)))
        if body[2] is None: raise Unsupported("helper %s: no value" % name)
        t = self.val(body[2], cx)
        for pa, v in reversed(lets): t = "(let %s := %s in %s)" % (pa, v, t)
        for (pn, _), v in reversed(list(zip(ps, vals))): t = "(let %s := %s in %s)" % (ident(pn), v, t)
        cx.types, cx.locals = saved_types, saved_locals
        cx.calls.add(name)
        return t

    def pat(self, p, cx):
        k = p[0]
        if k == "pwild": return "_"
        if k == "pid":
            cx.locals.add(p[1]); return ident(p[1])
        if k == "pref": return self.pat(p[1], cx)
        if k == "ptuple": return "'(%s)" % ", ".join(self.pat(q, cx).lstrip("'") for q in p[1])
        raise Unsupported("pattern %s in a binder" % k)

    # ---- combinator expressions -> terms of P ----
    def has_model(self, name):
        """functions listed in tools/t12_expected.json have a term of the same name in the model; any other parser function
        of the source is a helper the model does not know: it is used through its own translation (src_f) or, as a
        combinator argument, through the P term of its one-expression body"""
        exp = getattr(self, "expected", None)
        return (not exp) or name in exp

    def helper_pterm(self, name, cx, depth=0):
        it = self.fns[name]
        if depth > 4 or self.parser_kind(it) != "direct" or self.extras(it) or it["body"][0] != "block": raise Unsupported("helper parser %s has no model term" % name)
        b = it["body"]
        while b[0] == "block" and not b[1] and b[2] is not None: b = b[2]
        inp = it["params"][0][0]
        if b[0] == "call" and len(b[2]) == 1 and b[2][0] == ("path", [inp]) and not self.mentions(b[1], inp):
            return self.parser(b[1], cx)
        # let (i, x) = p(i)?; let (i, y) = q(i)?; Ok((i, v))   with the input threaded through: a Bind chain
        tail_ok = b[0] == "block" and b[2] is not None and b[2][0] == "call" and b[2][1] == ("path", ["Ok"]) and b[2][2] and b[2][2][0][0] == "tuple" \
                and len(b[2][2][0][1]) == 2 and b[2][2][0][1][0] == ("path", [inp])
        tail_comb = b[0] == "block" and b[2] is not None and b[2][0] == "call" and len(b[2][2]) == 1 and b[2][2][0] == ("path", [inp]) and b[2][1] != ("path", ["Ok"])
        if tail_ok or tail_comb:
            binds = []
            saved = set(cx.locals)
            for st in b[1]:
                ok = (st[0] == "let" and st[2][0] == "try" and st[1][0] == "ptuple" and len(st[1][1]) == 2 and st[1][1][0] == ("pid", inp)
                      and st[2][1][0] == "call" and len(st[2][1][2]) == 1 and st[2][1][2][0] == ("path", [inp]) and not self.mentions(st[2][1][1], inp))
                if not ok: raise Unsupported("helper parser %s (no model term): statement outside the straight-line form" % name)
                binds.append((self.parser(st[2][1][1], cx), self.pat(st[1][1][1], cx)))
            t = ("Ret %s" % self.val(b[2][2][0][1][1], cx)) if tail_ok else self.parser(b[2][1], cx)
            for pt, pa in reversed(binds): t = "Bind %s (fun %s => %s)" % (pt, pa, t)
            cx.locals = saved
            return "(%s)" % t
        raise Unsupported("helper parser %s (no model term) is neither a single combinator expression nor a straight-line sequence" % name)

    def is_crate_parser(self, name):
        it = self.fns.get(name)
        return it is not None and self.parser_kind(it) is not None

    def generic_args(self, path, cx=None):
        out = []
        for s in path:
            if s.startswith("<"):
                for a in s[1:-1].split(","):
                    a = a.strip()
                    if a in ("true", "false"): out.append(a)
                    elif cx is not None and a in cx.fn_generics: out.append(ident(a.lower()))
                    else: raise Unsupported("generic argument %s" % a)
        return out

    def parser(self, e, cx):
        k = e[0]
        if k == "paren": return self.parser(e[1], cx)
        if k == "path":
            p = [s for s in e[1] if not s.startswith("<")]
            key = "::".join(p)
            if key in NOM_PRIMS: return NOM_PRIMS[key]
            if len(p) == 1 and p[0] in cx.parser_params: return ident(p[0])
            if len(p) == 1 and self.is_crate_parser(p[0]):
                it = self.fns[p[0]]
                if self.parser_kind(it) != "direct" or self.extras(it): raise Unsupported("parser %s needs arguments" % p[0])
                cx.calls.add(p[0])
                if not self.has_model(p[0]): return self.helper_pterm(p[0], cx)
                return self.model_term(p[0], [], self.generic_args(e[1], cx))
            if len(p) == 2 and p[1] == "parse":
                return self.type_parse(p[0], [], cx)
            raise Unsupported("parser expression %s" % key)
        if k == "call":
            f = e[1]
            if f[0] == "path":
                p = [s for s in f[1] if not s.startswith("<")]
                key = "::".join(p); a = e[2]
                if key == "take" and len(a) == 1: return "(Take %s)" % self.val(a[0], cx)
                if key == "tag" and len(a) == 1:
                    arr = a[0][1] if a[0][0] == "ref" else a[0]
                    if arr[0] != "array": raise Unsupported("tag() argument")
                    return "(TagB (map n2b [%s]))" % "; ".join(self.val(x, cx) for x in arr[1])
                if key == "length_data" and len(a) == 1: return "(length_data %s)" % self.parser(a[0], cx)
                if key == "map_parser" and len(a) == 2: return "(map_parser %s %s)" % (self.parser(a[0], cx), self.parser(a[1], cx))
                if key == "map" and len(a) == 2: return "(pmap %s %s)" % (self.parser(a[0], cx), self.func(a[1], cx))
                if key == "many0" and len(a) == 1: return "(Many0 %s)" % self.parser(a[0], cx)
                if key == "many1" and len(a) == 1: return "(Many1 %s)" % self.parser(a[0], cx)
                if key == "complete" and len(a) == 1: return "(Cmpl %s)" % self.parser(a[0], cx)
                if key == "opt" and len(a) == 1: return "(Opt %s)" % self.parser(a[0], cx)
                if key == "cond" and len(a) == 2: return "(cond %s %s)" % (self.val(a[0], cx), self.parser(a[1], cx))
                if key == "verify" and len(a) == 2: return "(Vrfy %s %s)" % (self.parser(a[0], cx), self.func(a[1], cx))
                if key == "alt" and len(a) == 1 and a[0][0] == "tuple" and len(a[0][1]) >= 2:
                    ps = [self.parser(x, cx) for x in a[0][1]]
                    t = ps[-1]
                    for q in reversed(ps[:-1]): t = "(Alt %s %s)" % (q, t)
                    return t
                if key == "length_count" and len(a) == 2 and self.parser(a[0], cx) == "be_u8" and self.parser(a[1], cx) == "be_u8":
                    return "length_count_u8_u8"
                if key == "pair" and len(a) == 2:
                    return "(Bind %s (fun x__ => Bind %s (fun y__ => Ret (x__, y__))))" % (self.parser(a[0], cx), self.parser(a[1], cx))
                if key == "tuple" and len(a) == 1 and a[0][0] == "tuple":
                    ps = [self.parser(x, cx) for x in a[0][1]]
                    names = ["t%d__" % j for j in range(len(ps))]
                    t = "Ret (%s)" % ", ".join(names)
                    for nm, q in reversed(list(zip(names, ps))): t = "Bind %s (fun %s => %s)" % (q, nm, t)
                    return "(%s)" % t
                if key == "preceded" and len(a) == 2:
                    return "(Bind %s (fun _ => %s))" % (self.parser(a[0], cx), self.parser(a[1], cx))
                if key == "terminated" and len(a) == 2:
                    return "(Bind %s (fun x__ => Bind %s (fun _ => Ret x__)))" % (self.parser(a[0], cx), self.parser(a[1], cx))
                if len(p) == 1 and self.is_crate_parser(p[0]) and self.parser_kind(self.fns[p[0]]) == "factory":
                    cx.calls.add(p[0])
                    return self.model_term(p[0], [self.val(x, cx) for x in a], self.generic_args(f[1], cx))
                raise Unsupported("combinator %s/%d" % (key, len(a)))
            raise Unsupported("parser expression (call)")
        if k == "closure":
            # |x| g(x, extra..)   |x| { g(x, extra..) }   |x| T::parse(x, extra..)
            pats, body = e[1], e[2]
            if len(pats) != 1 or pats[0][0] != "pid": raise Unsupported("closure parser with a non-trivial binder")
            x = pats[0][1]
            while body[0] == "block" and not body[1] and body[2] is not None: body = body[2]
            while body[0] == "paren": body = body[1]
            if body[0] == "call" and body[1][0] == "path" and body[2] and body[2][0] == ("path", [x]):
                p = [s for s in body[1][1] if not s.startswith("<")]
                extra = body[2][1:]
                for a in extra:
                    if self.mentions(a, x): raise Unsupported("closure parser uses its input twice")
                if len(p) == 1 and self.is_crate_parser(p[0]) and self.parser_kind(self.fns[p[0]]) == "direct":
                    cx.calls.add(p[0])
                    return self.model_term(p[0], [self.val(a, cx) for a in extra], self.generic_args(body[1][1], cx))
                if len(p) == 2 and p[1] == "parse":
                    return self.type_parse(p[0], [self.val(a, cx) for a in extra], cx)
                if "::".join(p) in NOM_PRIMS and not extra: return NOM_PRIMS["::".join(p)]
            # |x| P(x) with P a combinator expression not mentioning x
            if body[0] == "call" and len(body[2]) == 1 and body[2][0] == ("path", [x]) and not self.mentions(body[1], x):
                return self.parser(body[1], cx)
            raise Unsupported("closure parser outside the translated forms")
        raise Unsupported("parser expression %s" % k)

    def mentions(self, e, x):
        if isinstance(e, tuple):
            if e[:1] == ("path",) and e[1] == [x]: return True
            return any(self.mentions(s, x) for s in e[1:])
        if isinstance(e, list): return any(self.mentions(s, x) for s in e)
        return False

    def type_parse(self, ty, extra, cx):
        if ty in self.newtypes: return {1: "be_u8", 2: "be_u16", 4: "be_u32", 8: "be_u64"}[self.newtypes[ty]]
        if ty in DERIVED_PARSE:
            cx.calls.add(ty + "::parse")
            return DERIVED_PARSE[ty] if not extra else "(%s %s)" % (DERIVED_PARSE[ty], " ".join(extra))
        raise Unsupported("%s::parse" % ty)

    def func(self, e, cx):
        """a function argument of map / verify"""
        if e[0] == "closure": return self.val(e, cx)
        if e[0] == "path":
            p = [s for s in e[1] if not s.startswith("<")]
            key = "::".join(p)
            if len(p) == 1 and p[0] in self.newtypes: return "(fun x__ => x__)"
            if key in CTORS: return CTORS[key]
            if len(p) == 2 and p[0] == "TlsExtension": return "E" + p[1]
            if len(p) == 1 and p[0] in STRUCTS: return STRUCTS[p[0]][0]
            raise Unsupported("function %s" % key)
        raise Unsupported("function argument %s" % e[0])

    # ---- IResult-valued expressions -> res ----
    def errexpr(self, e, cx):
        """Err(Err::Error(make_error(s, ErrorKind::K))) and friends"""
        if e[0] == "call" and e[1] == ("path", ["Err"]) and len(e[2]) == 1:
            inner = e[2][0]
            if inner[0] == "call" and inner[1][0] == "path":
                kind = "::".join(inner[1][1])
                if kind in ("Err::Error", "Err::Failure", "nom::Err::Error", "nom::Err::Failure") and len(inner[2]) == 1:
                    ctor = "Err" if kind.endswith("Error") else "Fail"
                    m = inner[2][0]
                    if m[0] == "call" and m[1][0] == "path" and "::".join(m[1][1]) in ("make_error", "Error::new", "nom::error::make_error") and len(m[2]) == 2:
                        s, kk = m[2]
                        if kk[0] == "path" and kk[1][0] == "ErrorKind" and kk[1][1] in ERRKINDS:
                            return "(%s %s %s)" % (ctor, self.slice_val(s, cx), ERRKINDS[kk[1][1]])
                if kind in ("Err::Incomplete",) and len(inner[2]) == 1:
                    n = inner[2][0]
                    if n == ("path", ["Needed", "Unknown"]): return "(Incomplete Unknown)"
                    if n[0] == "call" and n[1] == ("path", ["Needed", "new"]): return "(Incomplete (mk_needed %s))" % self.val(n[2][0], cx)
            raise Unsupported("error expression")
        return None

    def slice_val(self, e, cx):
        if e[0] == "ref" and e[1] == ("array", []): return "sempty"
        return self.val(e, cx)

    def res(self, e, cx):
        k = e[0]
        if k == "paren": return self.res(e[1], cx)
        if k == "block": return self.block(e, cx)
        if k == "return": return self.res(e[1], cx)
        if k == "call":
            f, a = e[1], e[2]
            if f == ("path", ["Ok"]) and len(a) == 1 and a[0][0] in ("tuple", "paren"):
                t = a[0]
                if t[0] == "tuple" and len(t[1]) == 2:
                    g0 = len(cx.guards)
                    s, v = self.slice_val(t[1][0], cx), self.val(t[1][1], cx)
                    return self.guarded(cx, g0, "(Ok %s %s)" % (s, v))
            er = self.errexpr(e, cx)
            if er: return er
            # P(args)(input)  |  f(input, extra..)  |  T::parse(input, extra..)
            g0 = len(cx.guards)
            if f[0] == "path":
                p = [s for s in f[1] if not s.startswith("<")]
                key = "::".join(p)
                if key in NOM_PRIMS and len(a) == 1: return "(run %s %s)" % (NOM_PRIMS[key], self.val(a[0], cx))
                if len(p) == 1 and p[0] in cx.parser_params and len(a) == 1: return "(run %s %s)" % (ident(p[0]), self.val(a[0], cx))
                if len(p) == 1 and self.is_crate_parser(p[0]) and self.parser_kind(self.fns[p[0]]) == "direct" and a:
                    cx.calls.add(p[0])
                    if not self.has_model(p[0]):      # a helper without a model term: its own translation
                        if p[0] in getattr(self, "failed_helpers", {}): raise Unsupported("calls the helper %s, which is outside the subset: %s" % (p[0], self.failed_helpers[p[0]]))
                        args_ = self.generic_args(f[1], cx) + [self.val(x, cx) for x in a[1:]] + [self.val(a[0], cx)]
                        return self.guarded(cx, g0, "(src_%s %s)" % (p[0], " ".join(args_)))
                    t = self.model_term(p[0], [self.val(x, cx) for x in a[1:]], self.generic_args(f[1], cx))
                    return self.guarded(cx, g0, "(run %s %s)" % (t, self.val(a[0], cx)))
                if len(p) == 2 and p[1] == "parse" and a:
                    t = self.type_parse(p[0], [self.val(x, cx) for x in a[1:]], cx)
                    return self.guarded(cx, g0, "(run %s %s)" % (t, self.val(a[0], cx)))
            if len(a) == 1 and f[0] in ("call", "closure", "paren"):
                t = self.parser(f, cx)
                return self.guarded(cx, g0, "(run %s %s)" % (t, self.val(a[0], cx)))
            raise Unsupported("call in a result position")
        if k == "if":
            if e[3] is None: raise Unsupported("if without else in a result position")
            g0 = len(cx.guards); c = self.val(e[1], cx)
            return self.guarded(cx, g0, "(if %s then %s else %s)" % (c, self.res(e[2], cx), self.res(e[3], cx)))
        if k == "match": return self.match(e, cx, self.res)
        raise Unsupported("result expression %s" % k)

    def guarded(self, cx, g0, term):
        gs = cx.guards[g0:]; del cx.guards[g0:]
        for g in reversed(gs): term = "(if %s then Panic else %s)" % (g, term)
        return term

    def match(self, e, cx, arm_tr):
        sc, arms = e[1], e[2]
        # scrutinee: a newtype wrapper around an integer, a field, a variable
        while sc[0] == "paren": sc = sc[1]
        if sc[0] == "call" and sc[1][0] == "path" and len(sc[1][1]) == 1 and sc[1][1][0] in self.newtypes and len(sc[2]) == 1: sc = sc[2][0]
        g0 = len(cx.guards)
        s = self.val(sc, cx)
        out = None
        chain = []
        for pat, guard, body in arms:
            cond = self.pat_cond(pat, s, cx)
            if guard is not None:
                gterm = self.val(guard, cx)
                cond = gterm if cond == "true" else "(%s && %s)" % (cond, gterm)
            binder = None
            if pat[0] == "pid": binder = pat[1]
            b = arm_tr(body, cx)
            if binder: b = "(let %s := %s in %s)" % (ident(binder), s, b)
            chain.append((cond, b))
            if cond == "true": break
        else:
            if len(arms) == 2 and {arms[0][0][0], arms[1][0][0]} == {"pbool"} and arms[0][0][1] != arms[1][0][1] and arms[0][1] is None and arms[1][1] is None:
                chain[-1] = ("true", chain[-1][1])      # `true` / `false` arms are exhaustive: the second is the default
            else:
                raise Unsupported("match without a default arm")
        t = chain[-1][1]
        for cond, b in reversed(chain[:-1]): t = "(if %s then %s else %s)" % (cond, b, t)
        return self.guarded(cx, g0, t)

    def pat_cond(self, pat, s, cx):
        k = pat[0]
        if k in ("pwild", "pid"): return "true"
        if k == "plit": return "(%s =? %d)" % (s, pat[1])
        if k == "pbool": return s if pat[1] else "(negb %s)" % s
        if k == "prange": return "((%d <=? %s) && (%s <=? %d))" % (pat[1], s, s, pat[2])
        if k == "ppath":
            c = self.const_value(pat[1])
            if c is None and len(pat[1]) == 1 and pat[1][0] in self.plain_consts:
                if pat[1][0] not in MODEL_CONSTS: cx.used_consts.add(pat[1][0])
                c = pat[1][0]
            if c is None: raise Unsupported("pattern %s" % "::".join(pat[1]))
            return "(%s =? %s)" % (s, c)
        if k == "pts" and len(pat[1]) == 1 and pat[1][0] in self.newtypes and len(pat[2]) == 1:
            return self.pat_cond(pat[2][0], s, cx)
        if k == "por":
            return "(%s)" % " || ".join(self.pat_cond(q, s, cx) for q in pat[1])
        raise Unsupported("match pattern %s" % k)

    def infer_type(self, e, cx):
        """Rust type name of the value an IResult expression returns (for later field accesses)"""
        while e[0] == "paren": e = e[1]
        if e[0] == "call" and e[1][0] == "path":
            p = [s for s in e[1][1] if not s.startswith("<")]
            if len(p) == 1 and p[0] in self.fns: return self.value_type(self.fns[p[0]])
            if len(p) == 2 and p[1] == "parse": return p[0]
        return None

    def block(self, b, cx):
        stmts, tail = list(b[1]), b[2]
        return self.stmts(stmts, tail, cx)

    def stmts(self, stmts, tail, cx):
        if not stmts:
            if tail is None: raise Unsupported("block without a value")
            return self.res(tail, cx)
        st, rest = stmts[0], stmts[1:]
        if st[0] == "let":
            pat, e = st[1], st[2]
            if e[0] == "try":
                inner = e[1]
                r = self.res(inner, cx)
                if pat[0] == "ptuple" and len(pat[1]) == 2:
                    ty = self.infer_type(inner, cx)
                    a, bnd = pat[1]
                    if bnd[0] == "pid" and ty: cx.types[bnd[1]] = ty
                    pa, pb = self.pat(a, cx), self.pat(bnd, cx)
                    return "(bindr %s (fun %s %s => %s))" % (r, pa, pb, self.stmts(rest, tail, cx))
                raise Unsupported("let with `?` binding a non-pair pattern")
            if e[0] == "if" and e[3] is not None and self.has_try(e) and pat[0] == "ptuple" and len(pat[1]) == 2:
                # let (a, b) = if c { P(i)? } else { (x, y) };   -- a join point
                pa, pb = self.pat(pat[1][0], cx), self.pat(pat[1][1], cx)
                k = "(fun %s %s => %s)" % (pa, pb, self.stmts(rest, tail, cx))
                def branch(bl):
                    while bl[0] == "block" and not bl[1] and bl[2] is not None: bl = bl[2]
                    if bl[0] == "try": return "(bindr %s k__)" % self.res(bl[1], cx)
                    if bl[0] == "tuple" and len(bl[1]) == 2: return "(k__ %s %s)" % (self.val(bl[1][0], cx), self.val(bl[1][1], cx))
                    raise Unsupported("branch of a let-if")
                c = self.val(e[1], cx)
                return "(let k__ := %s in if %s then %s else %s)" % (k, c, branch(e[2]), branch(e[3]))
            if e[0] == "match" and self.has_try(e) and pat[0] == "ptuple" and len(pat[1]) == 2 and not any(self.is_return(b) for _, _, b in e[2]):
                pa, pb = self.pat(pat[1][0], cx), self.pat(pat[1][1], cx)
                k = "(fun %s %s => %s)" % (pa, pb, self.stmts(rest, tail, cx))
                def branch(bl, cx_):
                    while bl[0] == "block" and not bl[1] and bl[2] is not None: bl = bl[2]
                    if bl[0] == "try": return "(bindr %s k__)" % self.res(bl[1], cx_)
                    if bl[0] == "tuple" and len(bl[1]) == 2: return "(k__ %s %s)" % (self.val(bl[1][0], cx_), self.val(bl[1][1], cx_))
                    raise Unsupported("arm of a let-match")
                return "(let k__ := %s in %s)" % (k, self.match(e, cx, branch))
            if e[0] == "match" and any(self.is_return(b) for _, _, b in e[2]):
                g0 = len(cx.guards)
                sc = self.val(e[1], cx)
                some_arm = none_arm = None
                for pt, guard, body in e[2]:
                    if guard is not None: raise Unsupported("guarded arm in a let-match")
                    if pt[0] == "pts" and pt[1] == ["Some"] and len(pt[2]) == 1: some_arm = (pt[2][0], body)
                    elif (pt[0] == "ppath" and pt[1] == ["None"]) or pt[0] == "pwild": none_arm = body
                    else: raise Unsupported("let-match pattern")
                if some_arm is None or none_arm is None: raise Unsupported("let-match over something else than an Option")
                def arm(body, binder=None):
                    if self.is_return(body): return self.res(self.ret_expr(body), cx)
                    v = self.val(body, cx)
                    return "(let %s := %s in %s)" % (self.pat(pat, cx), v, self.stmts(rest, tail, cx))
                sp = self.pat(some_arm[0], cx)
                t = "(match %s with Some %s => %s | None => %s end)" % (sc, sp, arm(some_arm[1]), arm(none_arm))
                return self.guarded(cx, g0, t)
            g0 = len(cx.guards)
            v = self.val(e, cx)
            if pat[0] == "pid":
                if e[0] == "struct": cx.types[pat[1]] = e[1][-1]
            p = self.pat(pat, cx)
            return self.guarded(cx, g0, "(let %s := %s in %s)" % (p, v, self.stmts(rest, tail, cx)))
        if st[0] == "expr":
            e = st[1]
            if e[0] == "if" and e[3] is None:
                # if c { ...; return E; }  rest
                g0 = len(cx.guards); c = self.val(e[1], cx)
                th = e[2]
                if not self.ends_with_return(th): raise Unsupported("if-statement whose block does not return")
                return self.guarded(cx, g0, "(if %s then %s else %s)" % (c, self.block(th, cx), self.stmts(rest, tail, cx)))
            if e[0] == "return" and not rest and tail is None: return self.res(e[1], cx)
            if e[0] == "match" and not rest and tail is None: return self.res(e, cx)
            if e[0] == "if" and e[3] is not None and not rest and tail is None: return self.res(e, cx)
            raise Unsupported("statement %s" % e[0])
        raise Unsupported("statement")

    def is_return(self, b):
        while b[0] == "block" and not b[1] and b[2] is not None: b = b[2]
        if b[0] == "block" and len(b[1]) == 1 and b[2] is None and b[1][0][0] == "expr": b = b[1][0][1]
        return b[0] == "return"
    def ret_expr(self, b):
        while b[0] == "block" and not b[1] and b[2] is not None: b = b[2]
        if b[0] == "block" and len(b[1]) == 1 and b[2] is None and b[1][0][0] == "expr": b = b[1][0][1]
        return b[1]

    def ends_with_return(self, bl):
        if bl[2] is not None: return bl[2][0] == "return"
        return bool(bl[1]) and bl[1][-1][0] == "expr" and bl[1][-1][1][0] == "return"

    def has_try(self, e):
        if isinstance(e, tuple):
            if e[:1] == ("try",): return True
            return any(self.has_try(s) for s in e[1:])
        if isinstance(e, list): return any(self.has_try(s) for s in e)
        return False

    # ---- one function ----
    def translate_fn(self, name):
        it = self.fns[name]
        kind = self.parser_kind(it)
        cx = Ctx(self, it); cx.calls = set(); cx.locals = set(); cx.fn_generics = set(self.const_generics(it)); cx.parser_params = set(); cx.used_consts = set()
        params = []
        for g in self.const_generics(it): params.append("(%s : bool)" % ident(g.lower()))
        for n, t in self.extras(it):
            tt = re.sub(r"&|'\w+|\s", "", t)
            if tt in ("usize", "u8", "u16", "u32", "u64") or tt in self.newtypes: params.append("(%s : N)" % ident(n))
            elif tt == "bool": params.append("(%s : bool)" % ident(n))
            elif re.search(r"\b%s\s*:\s*Fn(Mut)?\s*\(\s*&" % re.escape(tt), it.get("where", "") + " " + it["generics"]):
                params.append("{T__ : Type} (%s : P T__)" % ident(n)); cx.parser_params.add(n)
            elif tt in STRUCTS or tt in ("TlsRecordHeader", "DTLSRecordHeader"):
                params.append("(%s : %s)" % (ident(n), tt)); cx.types[n] = tt
            elif self.expected and name not in self.expected:
                params.append("{T_%s : Type} (%s : T_%s)" % (ident(n), ident(n), ident(n)))      # helper without a model term: any value type
            else: raise Unsupported("parameter %s : %s" % (n, t))
            cx.locals.add(n)
        body = it["body"]
        if body[0] == "unparsed": raise Unsupported("body outside the Rust subset read by tools/rustsub.py: " + body[1])
        if kind == "direct":
            inp = it["params"][0][0]
            cx.locals.add(inp)
            term = self.block(body, cx)
        else:
            # fn f(extra) -> impl FnMut(&[u8]) -> IResult { move |i| BODY }
            b = body
            while b[0] == "block" and not b[1] and b[2] is not None: b = b[2]
            if b[0] != "closure" or len(b[1]) != 1 or b[1][0][0] != "pid": raise Unsupported("parser factory body")
            inp = b[1][0][1]; cx.locals.add(inp)
            term = self.res(b[2], cx)
        if cx.guards: raise Unsupported("internal: unplaced guards")
        return dict(name=name, params=params, input=ident(inp), term=term, calls=sorted(cx.calls), consts=sorted(cx.used_consts),
                    generics=[ident(g.lower()) for g in self.const_generics(it)], extras=[ident(n) for n, _ in self.extras(it)])

    # ---- #[derive(Nom)] items: nom-derive 0.10 generates `parse` reading the fields in declaration order ----
    def translate_derive(self, name):
        d = self.derived[name]
        it = dict(name=name + "::parse", generics="", params=[], ret="", body=None)
        cx = Ctx(self, it); cx.calls = set(); cx.locals = {"i"}; cx.fn_generics = set(); cx.parser_params = set(); cx.used_consts = set()
        def attr_val(attrs, key):
            for a in attrs:
                m = re.search(r'nom \( %s = ("(?:[^"\\]|\\.)*") \)' % key, a)
                if m: return m.group(1)[1:-1]
            for a in attrs:
                if re.search(r"nom \(", a) and not re.search(r"nom \( (Parse|Selector) =", a): raise Unsupported("nom attribute %s" % a)
            return None
        def field_parser(ty, attrs):
            pv = attr_val(attrs, "Parse")
            if pv is not None:
                pv = pv.strip()
                if pv.startswith("{") and pv.endswith("}"): pv = pv[1:-1]
                e = rustsub.Parser(rustsub.tokenise(pv)).expr()
                return self.parser(e, cx)
            t = re.sub(r"<.*>|\s", "", ty)
            if t in ("u8", "u16", "u32", "u64"): return {"u8": "be_u8", "u16": "be_u16", "u32": "be_u32", "u64": "be_u64"}[t]
            return self.type_parse(t, [], cx)
        if d["kind"] == "struct":
            if d["tuple"]: raise Unsupported("tuple struct")
            if name not in STRUCTS: raise Unsupported("struct %s has no model constructor" % name)
            g, order = STRUCTS[name]
            names = [f[0] for f in d["fields"]]
            if sorted(names) != sorted(order): raise Unsupported("fields %s, the model has %s" % (names, order))
            term = "(Ok i (%s %s))" % (g, " ".join(ident(f) for f in order))
            for fname, ty, attrs in reversed(d["fields"]):
                pt = field_parser(ty, attrs)          # may mention earlier fields (they are in scope as locals)
                term = "(bindr (run %s i) (fun i %s => %s))" % (pt, ident(fname), term)
            for fname, _, _ in d["fields"]: cx.locals.add(fname)
            return dict(name=name + "_parse", params=[], input="i", term=term, calls=sorted(cx.calls), consts=[], generics=[], extras=[], model=DERIVED_PARSE.get(name),
                        file=d["file"])
        # enum with a selector
        sel = attr_val(d["attrs"], "Selector")
        if sel is None: raise Unsupported("enum without Selector")
        term = "(Err i KSwitch)"
        for vname, payload, attrs in reversed(d["fields"]):
            sv = attr_val(attrs, "Selector")
            if sv is None: raise Unsupported("variant %s without Selector" % vname)
            c = self.const_value(sv.split("::"))
            if c is None: raise Unsupported("selector %s" % sv)
            key = "%s::%s" % (name, vname)
            if key not in CTORS: raise Unsupported("variant %s has no model constructor" % key)
            pt = field_parser(payload, [a for a in attrs if "Selector" not in a])
            term = "(if selector =? %s then (bindr (run %s i) (fun i v__ => Ok i (%s v__))) else %s)" % (c, pt, CTORS[key], term)
        return dict(name=name + "_parse", params=["(selector : N)"], input="i", term=term, calls=sorted(cx.calls), consts=[], generics=[], extras=["selector"],
                    model=DERIVED_PARSE.get(name), file=d["file"])

    def parser_functions(self):
        return sorted(n for n, it in self.fns.items() if it["body"] is not None and self.parser_kind(it) and "::" not in n)

def pretty(term, width=110):
    """break the one-line term at bindr / if / let boundaries for readability"""
    return term

def main():
    args = sys.argv[1:]
    repo, out, report = REPO, os.path.join(VERIF, "coq", "gen"), None
    i = 0
    while i < len(args):
        if args[i] == "--repo": repo = args[i + 1]; i += 2
        elif args[i] == "--out": out = args[i + 1]; i += 2
        elif args[i] == "--report": report = args[i + 1]; i += 2
        else: i += 1
    T = Translator(repo)
    _ep = os.path.join(VERIF, "tools", "t12_expected.json")
    T.expected = json.load(open(_ep)) if os.path.exists(_ep) else {}
    done, failed = [], {}
    T.failed_helpers = {}
    allp = T.parser_functions()
    # helpers without a model term first (several passes: a helper may call a helper), then the functions with one
    order = [n for n in allp if T.expected and n not in T.expected] * 3 + [n for n in allp if not (T.expected and n not in T.expected)]
    seen_done = set()
    for n in order:
        if n in seen_done: continue
        try:
            r = T.translate_fn(n)
            done.append(r); seen_done.add(n); failed.pop(n, None); T.failed_helpers.pop(n, None)
        except Unsupported as e:
            failed[n] = str(e)
            if T.expected and n not in T.expected: T.failed_helpers[n] = str(e)
        except (IndexError, KeyError, TypeError) as e:
            failed[n] = "internal: %r" % (e,)
            if T.expected and n not in T.expected: T.failed_helpers[n] = failed[n]
    for n, dv in sorted(T.derived.items()):
        if dv["tuple"] and dv["kind"] == "struct": continue          # integer newtypes: their width is read directly (type_parse)
        try:
            r = T.translate_derive(n)
            if r["model"] is None: raise Unsupported("no model term for %s::parse" % n)
            T.fns[r["name"]] = dict(file=r["file"])
            done.append(r)
        except Unsupported as e:
            failed[n + "_parse"] = str(e)
    exp_path = os.path.join(VERIF, "tools", "t12_expected.json")
    expected = json.load(open(exp_path)) if os.path.exists(exp_path) else {}
    # helpers without a model term first, callees before callers
    helpers = [d for d in done if expected and d["name"] not in expected]
    rest = [d for d in done if not (expected and d["name"] not in expected)]
    ordered, names_done = [], set()
    for _ in range(len(helpers) + 1):
        for d in helpers:
            if d["name"] in names_done: continue
            if all((c not in [h["name"] for h in helpers]) or c in names_done or c == d["name"] for c in d["calls"]):
                ordered.append(d); names_done.add(d["name"])
    done = ordered + [d for d in helpers if d["name"] not in names_done] + rest
    lines = ["(* GENERATED by tools/t12.py (T12) from the parser functions of /repo/src/*.rs -- do not edit *)",
             "From TlsModel Require Import Nom Values Handshake Record Extensions Kx Dtls ModelExtra SrcGlue.", "From TlsModel Require Import Consts.", "Open Scope N_scope.", ""]
    tie = ["(* GENERATED by tools/t12.py (T12): for every translated function, the source text means what the model's term means *)",
           "From TlsModel Require Import Nom Values Handshake Record Extensions Kx Dtls ModelExtra SrcGlue Consts SrcParsers TieTactics.", "Open Scope N_scope.", ""]
    tactics_src = open(os.path.join(VERIF, "coq", "Proofs", "TieTactics.v")).read() if os.path.exists(os.path.join(VERIF, "coq", "Proofs", "TieTactics.v")) else ""
    emitted_consts = set()
    for d in done:
        for c in d.get("consts", []):
            if c in emitted_consts: continue
            emitted_consts.add(c)
            try:
                cx0 = Ctx(T, None); cx0.calls = set(); cx0.locals = set(); cx0.fn_generics = set(); cx0.parser_params = set(); cx0.used_consts = set()
                v = T.val(rustsub.Parser(rustsub.tokenise(T.plain_consts[c])).expr(), cx0)
                lines.append("Notation %s := (%s) (only parsing).\n" % (c, v))
            except Unsupported as e:
                failed[d["name"]] = "constant %s: %s" % (c, e)
        lines.append("(* %s: %s *)" % (T.fns[d["name"]]["file"], d["name"]))
        lines.append("Definition src_%s %s (%s : slice) :=\n  %s.\n" % (d["name"], " ".join(d["params"]), d["input"], d["term"]))
        if expected.get(d["name"], "tied") != "tied" or (expected and d["name"] not in expected): continue
        binders = " ".join([q.replace("{", "(").replace("}", ")") for q in d["params"]] + ["i"])
        args_ = " ".join(d["generics"] + d["extras"])
        tac = "tie_%s" % d["name"] if re.search(r"Ltac tie_%s\b" % d["name"], tactics_src) else "tie"
        model = d.get("model") or MODEL_NAME.get(d["name"], d["name"])
        tie.append("Lemma tie_%s : forall %s, src_%s %s i = run %s i.\nProof. intros; unfold src_%s, %s; %stimeout 60 %s. Qed.\n" % (
            d["name"], binders, d["name"], args_, ("(%s %s)" % (model, args_)) if args_ else model, d["name"], model,
            "".join("try unfold src_%s; " % h["name"] for h in reversed(ordered)), tac))
    os.makedirs(out, exist_ok=True)
    # diagnostic variant: every statement tried on its own, failures printed instead of stopping the file
    diag = []
    for l in tie:
        m = re.match(r"Lemma (tie_\w+) : (.*)\nProof\. (.*)\. Qed\.\n$", l, re.S)
        if m: diag.append('Goal %s\nProof. first [ solve [ timeout 60 (%s) ] | idtac "TIEFAIL %s" ]. Abort.\n' % (m.group(2), m.group(3), m.group(1)))
        else: diag.append(l)
    def write_if_changed(name, content):
        pth = os.path.join(out, name)
        if not os.path.exists(pth) or open(pth).read() != content: open(pth, "w").write(content)
    write_if_changed("SrcTieDiag.v", "\n".join(diag) + "\n")
    write_if_changed("SrcParsers.v", "\n".join(lines) + "\n")
    write_if_changed("SrcTie.v", "\n".join(tie) + "\n")
    # source-level restatement of the property theorems: every `run f x` with a tied f becomes `src_f x`
    tied = {d["name"]: (d.get("model") or MODEL_NAME.get(d["name"], d["name"])) for d in done
            if expected.get(d["name"], "tied") == "tied" and d["name"] not in failed}
    by_model = {}
    for n, mname in tied.items(): by_model.setdefault(mname, n)
    src_theorems = {}
    skp = os.path.join(VERIF, "tools", "t12_src_skip.json")
    src_skip = json.load(open(skp)) if os.path.exists(skp) else {}
    for pf in sorted(glob.glob(os.path.join(VERIF, "coq", "Properties", "C[0-9][0-9].v"))):
        pid = os.path.basename(pf)[:-2]
        txt = open(pf).read()
        imports = re.findall(r"^From TlsModel Require Import [^.]*\.", txt, re.M)
        outl = ["(* GENERATED by tools/t12.py: the theorems of Properties/%s.v restated about the translation of the current source" % pid,
                "   (gen/SrcParsers.v): `run f x` becomes `src_f x` for every function f tied by gen/SrcTie.v; each is obtained from",
                "   the model-level theorem by rewriting with the tie lemmas. *)"] + imports + [
                "From TlsModel Require Import SrcGlue ModelExtra SrcParsers SrcTie %s." % pid, "From Coq Require Import Setoid.", "Open Scope N_scope.", ""]
        names = []
        for m in re.finditer(r"^Theorem (\w+) :(.*?)\nProof\.", txt, re.M | re.S):
            tname, stmt = m.group(1), m.group(2)
            used = []
            def sub1(mm):
                f = mm.group(1)
                if f in by_model: used.append(by_model[f]); return "src_%s " % by_model[f]
                return mm.group(0)
            def sub2(mm):
                f = mm.group(1)
                if f in by_model: used.append(by_model[f]); return "src_%s%s " % (by_model[f], mm.group(2))
                return mm.group(0)
            st2 = re.sub(r"\brun (\w+) ", sub1, stmt)
            st2 = re.sub(r"\brun \((\w+)((?: +[\w']+)+)\) ", sub2, st2)
            if not used or tname in src_skip.get(pid, []): continue
            rw = "; ".join("try setoid_rewrite tie_%s" % u for u in sorted(set(used)))
            outl.append("Theorem %s_src :%s\nProof. %s; exact %s. Qed.\n" % (tname, st2, rw, tname))
            names.append(tname + "_src")
        if pid == "C01":
            # every public parser of the source, by name: the translated source text never reaches a panic guard
            # (unsigned subtraction, slice index, chunk[1], expect) and its loops terminate -- from the tie and the model's Safe lemma
            ps = open(os.path.join(VERIF, "coq", "Proofs", "PublicSafe.v")).read()
            outl.insert(len(imports) + 4, "From TlsModel Require Import PublicSafe NomGeneric TieTactics.\nFrom Coq Require Import List String.")
            plain = re.findall(r'\("([A-Za-z_0-9:]+)", PE _ (\w+)\)', ps)
            witharg = re.findall(r'\("([A-Za-z_0-9:]+)", fun n => PE _ \((\w+) n\)\)', ps)
            for pos, (rust, mname) in enumerate(plain):
                if rust not in tied or tied[rust] != mname or rust in ("parse_tls_message_applicationdata",): continue
                outl.append("Theorem C01_src_safe_%s : forall i, safe (src_%s i).\nProof. intro i; rewrite tie_%s; "
                            "exact (forall_nth_error _ _ C01_public_parsers_safe %d (\"%s\"%%string, PE _ %s) eq_refl i). Qed.\n" % (rust, rust, rust, pos, rust, mname))
                names.append("C01_src_safe_%s" % rust)
            for pos, (rust, mname) in enumerate(witharg):
                if rust not in tied or tied[rust] != mname: continue
                outl.append("Theorem C01_src_safe_%s : forall n i, safe (src_%s n i).\nProof. intros n i; rewrite tie_%s; "
                            "exact (forall_nth_error _ _ C01_public_parsers_with_argument_safe %d (\"%s\"%%string, fun n => PE _ (%s n)) eq_refl n i). Qed.\n" % (rust, rust, rust, pos, rust, mname))
                names.append("C01_src_safe_%s" % rust)
        for n in names: outl.append("Print Assumptions %s." % n)
        if names:
            write_if_changed("%s_src.v" % pid, "\n".join(outl) + "\n")
            src_theorems[pid] = names
    rep = dict(src_theorems=src_theorems, translated={d["name"]: dict(calls=d["calls"], file=T.fns[d["name"]]["file"]) for d in done}, untranslatable=failed,
               file_errors=getattr(T, "file_errors", []))
    # deviations from the committed expectation
    dev = []
    for n, st in expected.items():
        if st == "tied" and n in failed: dev.append("UNTRANSLATABLE T12: %s: %s" % (n, failed[n]))
        if n not in failed and n not in rep["translated"]: dev.append("UNTRANSLATABLE T12: %s: function no longer present in the source" % n)
    rep["helpers_without_model"] = sorted(n for n in list(rep["translated"]) + list(failed) if expected and n not in expected)
    rep["deviations"] = dev
    rpath = report or os.path.join(out, "t12_report.json")
    with open(rpath + ".tmp%d" % os.getpid(), "w") as f: json.dump(rep, f, indent=1)
    os.replace(rpath + ".tmp%d" % os.getpid(), rpath)
    print("T12: %d parser functions translated, %d outside the subset" % (len(done), len(failed)))
    for d in dev: print(d)
    if "--verbose" in args:
        for n, w in sorted(failed.items()): print("  untranslatable %s: %s" % (n, w))
    sys.exit(3 if dev or getattr(T, "file_errors", None) else 0)

if __name__ == "__main__":
    main()
