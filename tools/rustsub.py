"""A reader for the subset of Rust in which tls-parser's parser functions are written (T12).
tokenise -> items (fn name, generics, params, return type, body AST).  Anything outside the subset raises
Unsupported with the offending token: the translator then reports the function as untranslatable (never skips)."""
import re

class Unsupported(Exception):
    pass

TOK = re.compile(r"""
    (?P<ws>\s+|//[^\n]*|/\*.*?\*/)
  | (?P<str>b?"(?:\\.|[^"\\])*")
  | (?P<char>b?'(?:\\.|[^'\\])')
  | (?P<life>'[A-Za-z_][A-Za-z0-9_]*)
  | (?P<num>0x[0-9a-fA-F_]+(?:[ui](?:8|16|32|64|128|size))?|[0-9][0-9_]*(?:[ui](?:8|16|32|64|128|size))?)
  | (?P<id>[A-Za-z_][A-Za-z0-9_]*!?)
  | (?P<op>::|->|=>|==|!=|<=|>=|&&|\|\||<<|>>|\.\.=|\.\.|[-+*/%&|^!<>=.,;:(){}\[\]#?@])
""", re.X | re.S)

def tokenise(src):
    out, pos = [], 0
    while pos < len(src):
        m = TOK.match(src, pos)
        if not m: raise Unsupported("cannot tokenise at %r" % src[pos:pos + 20])
        pos = m.end()
        k = m.lastgroup
        if k == "ws": continue
        out.append((k, m.group(k)))
    return out

def num_value(t):
    t = re.sub(r"[ui](8|16|32|64|128|size)$", "", t).replace("_", "")
    return int(t, 16) if t.startswith("0x") else int(t)

class Parser:
    def __init__(self, toks):
        self.t, self.p = toks, 0
    def peek(self, k=0):
        return self.t[self.p + k] if self.p + k < len(self.t) else ("eof", "")
    def at(self, v, k=0): return self.peek(k)[1] == v
    def next(self):
        x = self.peek(); self.p += 1; return x
    def expect(self, v):
        x = self.next()
        if x[1] != v: raise Unsupported("expected %r, found %r" % (v, x[1]))
        return x
    def accept(self, v):
        if self.at(v): self.p += 1; return True
        return False

    # ---- types (kept as strings, balanced) ----
    def type_str(self, stop):
        depth, out = 0, []
        while True:
            k, v = self.peek()
            if k == "eof": break
            if depth == 0 and v in stop: break
            if v in "<([": depth += 1
            if v in ">)]": depth -= 1
            if v == ">>": depth -= 2
            if v == "->" : pass
            out.append(v); self.p += 1
        return " ".join(out)

    # ---- items ----
    def skip_balanced(self, open_, close):
        self.expect(open_); depth = 1
        while depth:
            k, v = self.next()
            if k == "eof": raise Unsupported("unbalanced")
            if v == open_: depth += 1
            elif v == close: depth -= 1

    def items(self):
        """top-level walk: returns fn items (including those in impl blocks, with the impl's type as owner);
        test modules are skipped"""
        fns = []
        def walk(owner, end):
            pending_attrs = []
            while not self.at(end) and self.peek()[0] != "eof":
                k, v = self.peek()
                if v == "#":
                    a0 = self.p; self.next(); self.accept("!"); self.skip_balanced("[", "]")
                    pending_attrs.append(" ".join(x[1] for x in self.t[a0:self.p])); continue
                if v in ("pub",):
                    self.next()
                    if self.at("("): self.skip_balanced("(", ")")
                    continue
                if v == "mod":
                    self.next(); name = self.next()[1]
                    if self.accept(";"): pending_attrs = []; continue
                    is_test = any("cfg ( test )" in a for a in pending_attrs) or name in ("tests",)
                    if is_test: self.skip_balanced("{", "}")
                    else:
                        self.expect("{"); walk(owner, "}"); self.expect("}")
                    pending_attrs = []; continue
                if v == "impl":
                    self.next()
                    if self.at("<"): self.type_str_generic()
                    ty = self.type_str(("{", "where"))
                    if self.at("where"): self.type_str(("{",))
                    m = re.match(r"(?:.* for )?\s*([A-Za-z_][A-Za-z0-9_]*)", ty)
                    is_trait_impl = " for " in (" " + ty + " ")
                    self.expect("{"); walk((m.group(1) if m else ty, is_trait_impl, ty), "}"); self.expect("}")
                    pending_attrs = []; continue
                if v in ("const", "unsafe", "async", "extern") and self.peek(1)[1] == "fn":
                    self.next(); continue
                if v == "fn":
                    fns.append(self.fn_item(owner, pending_attrs)); pending_attrs = []; continue
                # any other item: skip to its end (`;` at depth 0 or a balanced `{}` block)
                depth = 0
                while True:
                    k2, v2 = self.next()
                    if k2 == "eof": break
                    if v2 in "([": depth += 1
                    elif v2 in ")]": depth -= 1
                    elif v2 == "{":
                        self.p -= 1; self.skip_balanced("{", "}")
                        if depth == 0:
                            self.accept(";"); break
                    elif v2 == ";" and depth == 0: break
                pending_attrs = []
        walk(None, "\0")
        return fns

    def type_str_generic(self):
        self.expect("<"); depth = 1; out = []
        while depth:
            k, v = self.next()
            if v == "<": depth += 1
            elif v == ">": depth -= 1
            elif v == ">>": depth -= 2
            if depth > 0: out.append(v)
        return " ".join(out)

    def fn_item(self, owner, attrs):
        self.expect("fn")
        name = self.next()[1]
        generics = self.type_str_generic() if self.at("<") else ""
        self.expect("(")
        params = []
        while not self.at(")"):
            if self.at("&") or self.at("self") or self.at("mut"):
                # self receiver
                s = self.type_str((",", ")"))
                params.append(("self", s)); self.accept(","); continue
            self.accept("mut")
            pn = self.next()[1]
            self.expect(":")
            ty = self.type_str((",", ")"))
            params.append((pn, ty)); self.accept(",")
        self.expect(")")
        ret = ""
        if self.accept("->"): ret = self.type_str(("{", "where", ";"))
        where = ""
        if self.at("where"): where = self.type_str(("{", ";"))
        if self.accept(";"): body = None
        else:
            b0 = self.p
            try:
                body = self.block()
            except Unsupported as e:
                self.p = b0; self.skip_balanced("{", "}")
                body = ("unparsed", str(e))
        return dict(name=name, owner=owner, generics=generics, params=params, ret=ret, body=body, attrs=attrs, where=where,
                    tokens=" ".join(x[1] for x in self.t[b0:self.p]) if body is not None else "")

    # ---- blocks, statements ----
    def block(self):
        self.expect("{")
        stmts, tail = [], None
        while not self.at("}"):
            if self.at(";"): self.next(); continue
            if self.at("let"):
                self.next(); pat = self.pattern()
                ty = None
                if self.accept(":"): ty = self.type_str(("=", ";"))
                self.expect("="); e = self.expr(); self.expect(";")
                stmts.append(("let", pat, e)); continue
            if self.at("#"):
                self.next(); self.skip_balanced("[", "]"); continue
            e = self.expr()
            if self.accept(";"): stmts.append(("expr", e))
            elif self.at("}"): tail = e
            elif e[0] in ("if", "match", "block", "for", "while"): stmts.append(("expr", e))
            else: raise Unsupported("expected ; or } after expression, found %r" % (self.peek()[1],))
        self.expect("}")
        return ("block", stmts, tail)

    # ---- patterns ----
    def pattern(self):
        p = self.pattern1()
        if self.at("|"):
            alts = [p]
            while self.accept("|"): alts.append(self.pattern1())
            return ("por", alts)
        return p
    def pattern1(self):
        k, v = self.peek()
        if v == "&": self.next(); self.accept("mut"); return ("pref", self.pattern1())
        if v in ("ref", "mut"): self.next(); return self.pattern1()
        if v == "_": self.next(); return ("pwild",)
        if v == "(":
            self.next(); ps = []
            while not self.at(")"):
                ps.append(self.pattern()); self.accept(",")
            self.expect(")"); return ("ptuple", ps) if len(ps) != 1 else ps[0]
        if k == "num":
            self.next(); a = num_value(v)
            if self.at("..="):
                self.next(); b = num_value(self.next()[1]); return ("prange", a, b)
            return ("plit", a)
        if v in ("true", "false"): self.next(); return ("pbool", v == "true")
        if k == "id":
            path = self.path()
            if self.at("("):
                self.next(); ps = []
                while not self.at(")"):
                    ps.append(self.pattern()); self.accept(",")
                self.expect(")"); return ("pts", path, ps)
            if self.at("{"):
                self.next(); fs = []; rest = False
                while not self.at("}"):
                    if self.accept(".."): rest = True; continue
                    fn = self.next()[1]
                    if self.accept(":"): fs.append((fn, self.pattern()))
                    else: fs.append((fn, ("pid", fn)))
                    self.accept(",")
                self.expect("}"); return ("pstruct", path, fs, rest)
            if len(path) == 1 and path[0][0].islower() and not path[0].isupper(): return ("pid", path[0])
            return ("ppath", path)
        raise Unsupported("pattern at %r" % (v,))

    def path(self):
        segs = [self.next()[1]]
        while self.at("::"):
            self.next()
            if self.at("<"):
                g = self.type_str_generic(); segs.append("<" + g + ">"); continue
            segs.append(self.next()[1])
        return segs

    # ---- expressions (Pratt) ----
    BIN = {"||": 1, "&&": 2, "==": 3, "!=": 3, "<": 3, ">": 3, "<=": 3, ">=": 3, "|": 4, "^": 5, "&": 6,
           "<<": 7, ">>": 7, "+": 8, "-": 8, "*": 9, "/": 9, "%": 9}
    def expr(self, no_struct=False, minp=0):
        lhs = self.unary(no_struct)
        while True:
            k, v = self.peek()
            if v == "as":
                self.next(); ty = self.cast_type(); lhs = ("cast", lhs, ty); continue
            if v in ("..", "..="):
                if minp > 0: break
                self.next()
                rhs = None
                if not (self.at(")") or self.at("]") or self.at(";") or self.at(",")): rhs = self.expr(no_struct, 1)
                lhs = ("range", lhs, rhs, v == "..="); continue
            if v == "=" and minp == 0:
                self.next(); rhs = self.expr(no_struct); lhs = ("assign", lhs, rhs); continue
            pr = self.BIN.get(v)
            if pr is None or pr < minp or pr == 0: break
            if pr < max(minp, 1): break
            self.next()
            rhs = self.expr(no_struct, pr + 1)
            lhs = ("bin", v, lhs, rhs)
        return lhs
    def cast_type(self):
        out = []
        while True:
            k, v = self.peek()
            if k == "id" or v == "::": out.append(v); self.next()
            else: break
        return "".join(out)
    def unary(self, no_struct):
        k, v = self.peek()
        if v in ("!", "-", "*"):
            self.next(); return ("un", v, self.unary(no_struct))
        if v == "&":
            self.next(); self.accept("mut"); return ("ref", self.unary(no_struct))
        if v == "&&":
            self.next(); return ("ref", ("ref", self.unary(no_struct)))
        if v in ("..", "..="):
            self.next()
            rhs = None
            if not (self.at(")") or self.at("]") or self.at(";") or self.at(",")): rhs = self.expr(no_struct, 1)
            return ("range", None, rhs, v == "..=")
        return self.postfix(self.primary(no_struct), no_struct)
    def args(self, close=")"):
        a = []
        while not self.at(close):
            a.append(self.expr()); self.accept(",")
        self.expect(close); return a
    def postfix(self, e, no_struct):
        while True:
            k, v = self.peek()
            if v == "(":
                self.next(); e = ("call", e, self.args()); continue
            if v == "?":
                self.next(); e = ("try", e); continue
            if v == "[":
                self.next(); idx = self.expr(); self.expect("]"); e = ("index", e, idx); continue
            if v == ".":
                self.next(); k2, name = self.next()
                if k2 == "num": e = ("tfield", e, int(name)); continue
                if self.at("::"):
                    self.next(); self.type_str_generic()
                if self.at("("):
                    self.next(); e = ("mcall", e, name, self.args()); continue
                e = ("field", e, name); continue
            break
        return e
    def primary(self, no_struct):
        k, v = self.peek()
        if k == "num": self.next(); return ("lit", num_value(v))
        if k in ("str", "char"): self.next(); return ("strlit", v)
        if v in ("true", "false"): self.next(); return ("bool", v == "true")
        if v == "(":
            self.next(); es = []
            trailing = False
            while not self.at(")"):
                es.append(self.expr()); trailing = self.accept(",")
            self.expect(")")
            if len(es) == 1 and not trailing: return ("paren", es[0])
            return ("tuple", es)
        if v == "[":
            self.next(); es = self.args("]"); return ("array", es)
        if v == "{": return self.block()
        if v == "move": self.next(); return self.primary(no_struct)
        if v == "|" or v == "||":
            self.next(); pats = []
            if v == "|":
                while not self.at("|"):
                    p = self.pattern1()
                    if self.accept(":"): self.type_str((",", "|"))
                    pats.append(p); self.accept(",")
                self.expect("|")
            body = self.expr()
            return ("closure", pats, body)
        if v == "if":
            self.next()
            if self.at("let"):
                self.next(); pat = self.pattern(); self.expect("="); sc = self.expr(no_struct=True)
                th = self.block(); el = None
                if self.accept("else"): el = self.primary(no_struct) if self.at("if") else self.block()
                return ("iflet", pat, sc, th, el)
            c = self.expr(no_struct=True); th = self.block(); el = None
            if self.accept("else"): el = self.primary(no_struct) if self.at("if") else self.block()
            return ("if", c, th, el)
        if v == "match":
            self.next(); sc = self.expr(no_struct=True); self.expect("{"); arms = []
            while not self.at("}"):
                pat = self.pattern(); guard = None
                if self.accept("if"): guard = self.expr(no_struct=True)
                self.expect("=>")
                body = self.expr()
                self.accept(",")
                arms.append((pat, guard, body))
            self.expect("}"); return ("match", sc, arms)
        if v == "return":
            self.next()
            e = None if (self.at(";") or self.at("}")) else self.expr()
            return ("return", e)
        if v in ("for", "while", "loop", "unsafe", "break", "continue"):
            raise Unsupported("`%s` is outside the translated subset" % v)
        if k == "id":
            if v.endswith("!"):
                self.next()
                opener = self.peek()[1]; close = {"(": ")", "[": "]", "{": "}"}[opener]
                a0 = self.p; self.skip_balanced(opener, close)
                inner = self.t[a0 + 1:self.p - 1]
                return ("macro", v[:-1], inner)
            path = self.path()
            if self.at("{") and not no_struct and (path[-1][0].isupper() or path[-1] == "Self"):
                self.next(); fs = []; base = None
                while not self.at("}"):
                    if self.accept(".."): base = self.expr(); continue
                    fn = self.next()[1]
                    if self.accept(":"): fs.append((fn, self.expr()))
                    else: fs.append((fn, ("path", [fn])))
                    self.accept(",")
                self.expect("}"); return ("struct", path, fs, base)
            return ("path", path)
        raise Unsupported("expression at %r" % (v,))

def parse_file(src):
    return Parser(tokenise(src)).items()

def derive_structs(src):
    """structs / enums carrying #[derive(.. Nom ..)]: name, kind, attrs, fields [(name, type, attrs)] or variants"""
    toks = tokenise(src)
    P = Parser(toks)
    out = []
    attrs = []
    while P.peek()[0] != "eof":
        k, v = P.peek()
        if v == "#":
            a0 = P.p; P.next(); P.accept("!"); P.skip_balanced("[", "]")
            attrs.append(" ".join(x[1] for x in toks[a0:P.p])); continue
        if v == "pub":
            P.next()
            if P.at("("): P.skip_balanced("(", ")")
            continue
        if v in ("struct", "enum") and any(re.search(r"derive \(.*\bNom(BE|LE)?\b", a) for a in attrs):
            kind = v; P.next(); name = P.next()[1]
            if P.at("<"): P.type_str_generic()
            item = dict(name=name, kind=kind, attrs=attrs, fields=[], tuple=False)
            if P.at("("):
                item["tuple"] = True; P.next()
                while not P.at(")"):
                    fa = []
                    while P.at("#"):
                        a0 = P.p; P.next(); P.skip_balanced("[", "]"); fa.append(" ".join(x[1] for x in toks[a0:P.p]))
                    if P.at("pub"):
                        P.next()
                        if P.at("("): P.skip_balanced("(", ")")
                    ty = P.type_str((",", ")")); item["fields"].append((str(len(item["fields"])), ty, fa)); P.accept(",")
                P.expect(")"); P.accept(";")
            else:
                P.expect("{")
                while not P.at("}"):
                    fa = []
                    while P.at("#"):
                        a0 = P.p; P.next(); P.skip_balanced("[", "]"); fa.append(" ".join(x[1] for x in toks[a0:P.p]))
                    if P.at("pub"):
                        P.next()
                        if P.at("("): P.skip_balanced("(", ")")
                    fname = P.next()[1]
                    if kind == "struct":
                        P.expect(":"); ty = P.type_str((",", "}"))
                        item["fields"].append((fname, ty, fa))
                    else:
                        payload = None
                        if P.at("("):
                            P.next(); payload = P.type_str((")",)); P.expect(")")
                        item["fields"].append((fname, payload, fa))
                    P.accept(",")
                P.expect("}")
            out.append(item); attrs = []; continue
        attrs = [] if v not in ("#",) else attrs
        P.next()
    return out
