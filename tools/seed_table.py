#!/usr/bin/env python3
"""Prints the markdown table of DESIGN.md section 14 from seeded/*/ (meta.json, notes.txt, check_output.txt)."""
import os, json, re, glob
V = os.path.dirname(os.path.dirname(os.path.abspath(__file__)))
STRENGTHENED = {
 "C07-size-guard-after-append": "oversize history (records within the cap) added to the quick tier, implementation only; accumulate-then-parse oracle compares the buffer length after every call",
 "C07-pseudo-header-len": "accumulate-then-parse refinement oracle (the implementation's own one-shot parser on the concatenation) added: first run reported the tie only",
 "C03-many-m-n-1024": "records with as many messages as fit under the cap added (first run: translator T5 only)",
 "C03-plaintext-cap-ge": "payloads at and around the cap for every content type, one-step and two-step (first run: missed)",
 "C01-debug-sni-char-boundary": "multi-byte UTF-8 names at every alignment and malformed UTF-8 added to the stress inputs (first run: T11 inventory only)",
 "C04-sh-magic-random-hrr": "singled-out 32-byte randoms (HelloRetryRequest magic, downgrade sentinels, near misses) in the generators (first run: missed; T12 now also breaks its tie)",
 "C16-dtls-many-cap-2620": "datagrams / buffers of thousands of minimal records with written-out expectations (first run: missed)",
 "C14-list-entries-unconfined-loop": "RFC 6962 reference decoder in the check as an oracle on the implementation (first run: tie only)",
 "C13-content-sig-retry-ext": "signature-form oracle: the flag alone selects the form (first run: tie only)",
 "C02-raw-cap-inside-short-branch": "declared lengths above the cap with the whole payload present (first run: missed)",
 "C10-hvr-cookie-cap-dtls10": "DTLS generators draw registered versions and cookie lengths over the whole u8 range (first run: missed)",
 "C10-record-cap-2-14": "DTLS records at 2^14, at the cap and beyond, with exact Needed expectations (first run: tie only)",
 "C11-pss-hash-implied": "all 65536 (hash, signature) pairs, alone and inside an SCT / ServerKeyExchange signature (first run: tie only)",
 "C11-sslv2-header-rejected": "adjacent enumerated fields swept together: every content type x singled-out versions, every version x content types of each region (first run: tie only)",
 "C18-nostd-defrag-limit": "the oversize defragmentation history is part of the cross-configuration run (first run: cfg obligation only)",
 "C07-nocopy-lets-ccs-alert-through": "parse_record_nocopy with every content type while a defragmentation is pending (first run: missed)",
 "C15-assigned-block-table-c0b3": "every registered id and both neighbours through the hello accessors (first run: missed)",
 "C17-from-u16-grease-collapsed": "conversions swept over the whole 16-bit domain in the quick tier too (first run: missed)",
 "C01-defrag-available-underflow": "a first fragment beyond 10 MiB followed by continuations (first run: missed); the buffer-size oracle now applies to histories within the record cap only",
 "C05-incomplete-content-to-unknown": "inner-length overrun oracle for the vector-valued extensions (first run: tie only)",
 "C05-ecpf-tagged-len-le-255": "every single-purpose parser input also through the generic dispatcher and vice versa, agreement oracle; maximal list-valued extensions (first run: tie only)",
 "C09-plaintext-cap-ge-buffer-too-big": "records whose fragment is at and around the cap in the serializer cases (first run: T13 tie only)",
}
OLD = {}
for l in open(os.path.join(V, "tools", "seed_table_old.md")):
    c = [x.strip() for x in l.strip().strip("|").split("|")]
    if len(c) >= 5 and c[0].startswith("`"): OLD[c[0].strip("`")] = (c[2], c[4])
STRENGTHENED.update({
 "C04-sh-version-03xx-accepted": "every 16-bit legacy version through both ServerHello dispatchers and the handshake dispatcher (first run: tie only)",
 "C11-certreq-reserved-sigalg-rejected": "the two CertificateRequest sweeps of C11 were malformed lines (entry name glued to the input) that both sides answered `(noentry)`: corrected, and `(noentry)` from the harness is now a reported check error (first run: T12 only)",
})
rows = []
for d in sorted(glob.glob(os.path.join(V, "seeded", "*/"))):
    n = os.path.basename(d.rstrip("/"))
    m = json.load(open(os.path.join(d, "meta.json")))
    notes = open(os.path.join(d, "notes.txt")).read() if os.path.exists(os.path.join(d, "notes.txt")) else ""
    if n in OLD and not notes: m["what"] = OLD[n][0]; STRENGTHENED.setdefault(n, OLD[n][1])
    what = m.get("what") or re.sub(r"\s+", " ", notes.strip().split("\n\n")[0])[:260]
    co = open(os.path.join(d, "check_output.txt"), errors="replace").read() if os.path.exists(os.path.join(d, "check_output.txt")) else ""
    viol = len(re.findall(r"^VIOLATION", co, re.M)); nfi = len(re.findall(r"^VIOLATION.*no-failing-input-found", co, re.M))
    why = re.search(r"^\s+why\s+: (.*)$", co, re.M)
    case = re.search(r"^VIOLATION[^\n]*\n\s+(\S+(?: \S+)?)", co)
    if viol == 0: how = "**not reported**"
    elif nfi == viol:
        b = re.search(r"^\s+broken ([^\n]*)", co, re.M)
        how = "`no-failing-input-found`: " + (b.group(1)[:160] if b else "tie / proof broken")
    else: how = "failing input `%s`: %s" % ((case.group(1)[:60] if case else "?"), (why.group(1)[:150] if why else ""))
    rows.append("| `%s` | %s | %s | %s | %s |" % (n, m["property"], what.replace("|", "/"), how.replace("|", "/"), STRENGTHENED.get(n, "")))
print("| seeded change | property | what it does / what it needs | reported by | check strengthened because of it |")
print("|---|---|---|---|---|")
print("\n".join(rows))
