#!/bin/bash
# apply each behaviour-preserving rewrite of /verif/harmless to /repo, run the checks it can affect, undo.
# every check must stay silent (exit 0): a VIOLATION here is a false alarm of the machinery.
# usage: tools/harmless.sh [patch names without .diff ...]
cd /verif
declare -A REL=( [hr-1]="C05 C11 C01" [hr-2]="C08" [hr-3]="C02 C05 C07 C10 C01" [hr-4]="C10 C06" [hr-5]="C17 C11" [hr-6]="C05 C11" [hr-7]="C13 C06" [hr-8]="C03 C04 C05 C01"
  [hr2-1]="C07 C01" [hr2-2]="C08" [hr2-3]="C15" [hr2-4]="C09" [hr2-5]="C12" [hr2-6]="C18" [hr2-7]="C17" [hr2-8]="C02 C07 C01" [hr2-9]="C14 C06" [hr2-10]="C05 C11" )
names=${@:-hr-1 hr-2 hr-3 hr-4 hr-5 hr-6 hr-7 hr-8 hr2-1 hr2-2 hr2-3 hr2-4 hr2-5 hr2-6 hr2-7 hr2-8 hr2-9 hr2-10}
for k in $names; do
  [ -n "$(git -C /repo status --porcelain)" ] && { echo "repo not clean"; exit 2; }
  git -C /repo apply /verif/harmless/$k.diff || { echo "$k: patch does not apply"; continue; }
  for p in ${REL[$k]}; do
    timeout 1200 ./check $p > /tmp/harmless-$k-$p.log 2>&1; rc=$?
    echo "$k $p rc=$rc $(grep -m1 '^VIOLATION' /tmp/harmless-$k-$p.log)"
  done
  git -C /repo checkout -- .
done
