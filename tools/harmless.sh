#!/bin/bash
# apply each behaviour-preserving rewrite of /verif/harmless to /repo, run the checks it can affect, undo.
# every check must stay silent (exit 0): a VIOLATION here is a false alarm of the machinery.
cd /verif
declare -A REL=( [1]="C05 C11 C01" [2]="C08" [3]="C02 C05 C07 C10 C01" [4]="C10 C06" [5]="C17 C11" [6]="C05 C11" [7]="C13 C06" [8]="C03 C04 C05 C01" )
for k in ${1:-1 2 3 4 5 6 7 8}; do
  [ -n "$(git -C /repo status --porcelain)" ] && { echo "repo not clean"; exit 2; }
  git -C /repo apply /verif/harmless/hr-$k.diff || { echo "hr-$k: patch does not apply"; continue; }
  for p in ${REL[$k]}; do
    timeout 1200 ./check $p > /tmp/harmless-$k-$p.log 2>&1; rc=$?
    echo "hr-$k $p rc=$rc $(grep -m1 '^VIOLATION' /tmp/harmless-$k-$p.log)"
  done
  git -C /repo checkout -- .
done
