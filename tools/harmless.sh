#!/bin/bash
# apply each behaviour-preserving rewrite of /verif/harmless to /repo, run the checks it can affect, undo.
# every check must stay silent (exit 0): a VIOLATION here is a false alarm of the machinery.
# usage: tools/harmless.sh [patch names without .diff ...]
cd /verif
declare -A REL=( [hr-1]="C05 C11 C01" [hr-2]="C08" [hr-3]="C02 C05 C07 C10 C01" [hr-4]="C10 C06" [hr-5]="C17 C11" [hr-6]="C05 C11" [hr-7]="C13 C06" [hr-8]="C03 C04 C05 C01"
  [hr2-1]="C07 C01" [hr2-2]="C08" [hr2-3]="C15" [hr2-4]="C09" [hr2-5]="C12" [hr2-6]="C18" [hr2-7]="C17" [hr2-8]="C02 C07 C01" [hr2-9]="C14 C06" [hr2-10]="C05 C11"
  [hr3-1]="C04 C06" [hr3-2]="C05" [hr3-3]="C09" [hr3-4]="C04" [hr3-5]="C02 C03" [hr3-6]="C03 C02" [hr3-7]="C10" [hr3-8]="C05 C13" [hr3-9]="C13" [hr3-10]="C13 C14" [hr3-11]="C14" [hr3-12]="C07 C01" )
names=${@:-hr-1 hr-2 hr-3 hr-4 hr-5 hr-6 hr-7 hr-8 hr2-1 hr2-2 hr2-3 hr2-4 hr2-5 hr2-6 hr2-7 hr2-8 hr2-9 hr2-10 hr3-1 hr3-2 hr3-3 hr3-4 hr3-5 hr3-6 hr3-7 hr3-8 hr3-9 hr3-10 hr3-11 hr3-12}
for k in $names; do
  [ -n "$(git -C /repo status --porcelain)" ] && { echo "repo not clean"; exit 2; }
  git -C /repo apply /verif/harmless/$k.diff || { echo "$k: patch does not apply"; continue; }
  for p in ${REL[$k]}; do
    cp evidence/$p.json /tmp/evh.keep 2>/dev/null
    timeout 1800 ./check $p > /tmp/harmless-$k-$p.log 2>&1; rc=$?
    cp /tmp/evh.keep evidence/$p.json 2>/dev/null
    echo "$k $p rc=$rc $(grep -m1 '^VIOLATION' /tmp/harmless-$k-$p.log)"
  done
  git -C /repo checkout -- .
done
