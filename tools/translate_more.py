"""Translators T2 (state tables), T6 (key_bits), T7 (extension type tags), T3a (cipher text table)."""
import re

STATES = ["None", "ClientHello", "AskResumeSession", "ResumeSession", "ServerHello", "Certificate", "CertificateSt",
          "ServerKeyExchange", "ServerHelloDone", "ClientKeyExchange", "ClientChangeCipherSpec", "CRCertRequest",
          "CRHelloDone", "CRCert", "CRClientKeyExchange", "CRCertVerify", "NoCertSKE", "NoCertHelloDone", "NoCertCKE",
          "PskHelloDone", "PskCKE", "SessionEncrypted", "Alert", "Finished", "Invalid"]
HS_KINDS = ["HelloRequest", "ClientHello", "ServerHello", "ServerHelloV13Draft18", "NewSessionTicket", "EndOfEarlyData",
            "HelloRetryRequest", "Certificate", "ServerKeyExchange", "CertificateRequest", "ServerDone",
            "CertificateVerify", "ClientKeyExchange", "Finished", "CertificateStatus", "NextProtocol", "KeyUpdate"]
UNIT_KINDS = {"HelloRequest", "EndOfEarlyData"}

def t2_states(T, consts):
    U = T.Untranslatable
    src = T.strip_comments(T.read("src/tls_states.rs"))
    # the enum declaration must list exactly the 25 known states
    m = re.search(r"pub\s+enum\s+TlsState\s*\{", src)
    if not m: raise U("enum TlsState not found")
    c = T.match_close(src, m.end() - 1, "{", "}")
    names = [x.strip() for x in src[m.end():c].split(",") if x.strip()]
    if names != STATES: raise U("enum TlsState constructors changed: %r" % names)
    # the enum of handshake messages must have exactly the 17 known variants
    hsrc = T.strip_comments(T.read("src/tls_handshake.rs"))
    m = re.search(r"pub\s+enum\s+TlsMessageHandshake<'a>\s*\{", hsrc)
    if not m: raise U("enum TlsMessageHandshake not found")
    c = T.match_close(hsrc, m.end() - 1, "{", "}")
    kinds = [re.match(r"\w+", x.strip()).group(0) for x in T.split_top(hsrc[m.end():c]) if x.strip()]
    if kinds != HS_KINDS: raise U("enum TlsMessageHandshake variants changed: %r" % kinds)

    def spat(p):
        p = T.nows(p)
        m = re.fullmatch(r"TlsState::(\w+)", p)
        if m:
            if m.group(1) not in STATES: raise U("unknown state %s" % p)
            return "SP_is S%s" % m.group(1), None
        if p == "_": return "SP_any", None
        if re.fullmatch(r"[a-z_]\w*", p): return "SP_bind", p
        raise U("state pattern %r" % p)
    def dpat(p):
        p = T.nows(p)
        if p == "_": return "DP_any"
        if p in ("true", "false"): return "DP_is %s" % p
        raise U("direction pattern %r" % p)
    def unbrace(r):
        """`{ expr }` (a block holding one expression, as rustfmt writes long arms) -> `expr`"""
        r = T.nows(r)
        while r.startswith("{") and r.endswith("}") and T.match_close(r, 0, "{", "}") == len(r) - 1 and ";" not in r:
            r = r[1:-1]
        return r
    def state_rhs(r, binder):
        r = unbrace(r)
        m = re.fullmatch(r"Ok\(TlsState::(\w+)\)", r)
        if m:
            if m.group(1) not in STATES: raise U("unknown state in %r" % r)
            return "R_ok S%s" % m.group(1)
        m = re.fullmatch(r"Ok\((\w+)\)", r)
        if m and binder and m.group(1) == binder: return "R_same"
        if r == "Err(StateChangeError::InvalidTransition)": return "R_invalid"
        return None

    # ---- handshake table
    body = T.fn_body(src, "tls_state_transition_handshake", "src/tls_states.rs")
    if T.nows(body.split("match")[0]) != "": raise U("tls_state_transition_handshake prologue changed")
    blk, post = T.find_match(body, r"\(\s*state\s*,\s*msg\s*,\s*to_server\s*\)", "tls_state_transition_handshake")
    if T.nows(post) != "": raise U("tls_state_transition_handshake epilogue changed")
    hs_arms = []
    for pat, rhs in T.match_arms(blk, "tls_state_transition_handshake"):
        pn = T.nows(pat)
        if pn == "_":
            sp, hp, dp, binder = "SP_any", "HP_any", "DP_any", None
        else:
            if not (pn.startswith("(") and pn.endswith(")")): raise U("handshake arm pattern %r" % pat)
            parts = T.split_top(pat.strip()[1:-1])
            if len(parts) != 3: raise U("handshake arm pattern %r" % pat)
            sp, binder = spat(parts[0])
            dp = dpat(parts[2])
            mp = T.nows(parts[1]).lstrip("&")
            m = re.fullmatch(r"TlsMessageHandshake::(\w+)(?:\((\w+)\))?", mp)
            if mp == "_": hp, payload = "HP_any", None
            elif m and m.group(1) in HS_KINDS:
                payload = m.group(2)
                if (m.group(1) in UNIT_KINDS) != (payload is None): raise U("handshake message pattern %r" % parts[1])
                hp = "HP_is K%s" % m.group(1)
            else: raise U("handshake message pattern %r" % parts[1])
        r = state_rhs(rhs, binder)
        if r is None:
            # the session-id split
            rn = T.nows(rhs)
            m = re.fullmatch(r"match(\w+)\.session_id\{Some\(_\)=>Ok\(TlsState::(\w+)\),_=>Ok\(TlsState::(\w+)\),?\}", rn)
            if not (m and payload == m.group(1) and hp == "HP_is KClientHello" and m.group(2) in STATES and m.group(3) in STATES):
                raise U("handshake arm right-hand side %r" % rhs)
            r = "R_sid_split S%s S%s" % (m.group(2), m.group(3))
        else:
            if payload not in (None, "_"): raise U("arm %r binds the message payload" % pat)
        hs_arms.append("(%s, %s, %s, %s)" % (sp, hp, dp, r))

    # ---- outer table
    body = T.fn_body(src, "tls_state_transition", "src/tls_states.rs")
    if T.nows(body.split("match")[0]) != "": raise U("tls_state_transition prologue changed")
    blk, post = T.find_match(body, r"\(\s*state\s*,\s*msg\s*,\s*to_server\s*\)", "tls_state_transition")
    if T.nows(post) != "": raise U("tls_state_transition epilogue changed")
    outer = []
    warning = set()
    for pat, rhs in T.match_arms(blk, "tls_state_transition"):
        pn = T.nows(pat)
        if not (pn.startswith("(") and pn.endswith(")")): raise U("arm pattern %r" % pat)
        parts = T.split_top(pat.strip()[1:-1])
        if len(parts) != 3: raise U("arm pattern %r" % pat)
        sp, binder = spat(parts[0]); dp = dpat(parts[2])
        mp = T.nows(parts[1]).lstrip("&")
        payload = None
        if mp == "_": m_ = "MP_any"
        elif mp == "TlsMessage::ChangeCipherSpec": m_ = "MP_ccs"
        else:
            m = re.fullmatch(r"TlsMessage::(Handshake|Alert|ApplicationData|Heartbeat)\((\w+)\)", mp)
            if not m: raise U("message pattern %r" % parts[1])
            m_ = {"Handshake": "MP_handshake", "Alert": "MP_alert", "ApplicationData": "MP_appdata", "Heartbeat": "MP_heartbeat"}[m.group(1)]
            payload = m.group(2)
        rn = unbrace(rhs)
        r = state_rhs(rhs, binder)
        if r is not None:
            if payload not in (None, "_"): raise U("arm %r binds the message payload" % pat)
            o = {"R_same": "O_same", "R_invalid": "O_invalid"}.get(r, r.replace("R_ok", "O_ok"))
        elif m_ == "MP_handshake" and rn == "tls_state_transition_handshake(state,%s,to_server)" % payload:
            if sp != "SP_any" or dp != "DP_any": raise U("delegating arm has a restricted pattern %r" % pat)
            o = "O_delegate"
        else:
            m = re.fullmatch(r"if(\w+)\.severity==TlsAlertSeverity::(\w+)\{Ok\((\w+)\)\}else\{Ok\(TlsState::(\w+)\)\}", rn)
            if not (m and m_ == "MP_alert" and payload == m.group(1) and binder == m.group(3) and m.group(4) in STATES
                    and ("TlsAlertSeverity", m.group(2)) in consts):
                raise U("arm right-hand side %r" % rhs)
            warning.add(consts[("TlsAlertSeverity", m.group(2))])
            o = "O_alert_split S%s" % m.group(4)
        outer.append("(%s, %s, %s, %s)" % (sp, m_, dp, o))
    if len(warning) != 1: raise U("alert arms: expected exactly one severity constant, got %r" % warning)
    L = ["(* GENERATED by tools/translate.py (T2) from the two match tables of /repo/src/tls_states.rs -- do not edit *)",
         "From TlsModel Require Import StatesTypes.", "Open Scope N_scope.",
         "Definition hs_arms : list (spat * hpat * dpat * hrhs) := [\n  " + ";\n  ".join(hs_arms) + "\n].",
         "Definition outer_arms : list (spat * mpat * dpat * orhs) := [\n  " + ";\n  ".join(outer) + "\n].",
         "Definition alert_keep_severity : N := %d." % warning.pop()]
    return "\n".join(L) + "\n"

def t6_key_bits(T, consts):
    U = T.Untranslatable
    src = T.strip_comments(T.read("src/tls_ec.rs"))
    body = T.fn_body(src, "key_bits", "src/tls_ec.rs")
    if T.nows(body.split("match")[0]) != "": raise U("key_bits prologue changed")
    blk, post = T.find_match(body, r"self", "key_bits")
    if T.nows(post) != "": raise U("key_bits epilogue changed")
    arms, dflt = [], False
    for pat, rhs in T.match_arms(blk, "key_bits"):
        r = T.nows(rhs)
        if T.nows(pat) == "_":
            if r != "None": raise U("key_bits default arm %r" % rhs)
            dflt = True; continue
        if dflt: raise U("key_bits: arm after default")
        mm = re.fullmatch(r"Some\(([0-9_]+)\)", r)
        if not mm: raise U("key_bits arm body %r" % rhs)
        for alt in T.nows(pat).strip("|").split("|"):          # or-patterns: A | B | C => Some(n)
            m = re.fullmatch(r"NamedGroup::(\w+)", alt)
            if not m or ("NamedGroup", m.group(1)) not in consts: raise U("key_bits pattern %r" % pat)
            arms.append((m.group(1), consts[("NamedGroup", m.group(1))], int(mm.group(1).replace("_", ""))))
    if not dflt: raise U("key_bits: no default arm")
    return ("(* GENERATED by tools/translate.py (T6) from NamedGroup::key_bits -- do not edit *)\n"
            "From Coq Require Import String NArith List.\nImport ListNotations.\nOpen Scope N_scope. Open Scope string_scope.\n"
            "(* (constant name, its value, Some(bits)) in source order; default arm is None *)\n"
            "Definition key_bits_arms : list (string * N * N) := [\n  "
            + ";\n  ".join('("%s", %d, %d)' % a for a in arms) + "\n].\n")

def t3a_cipher_txt(T):
    U = T.Untranslatable
    rows = []
    for ln, line in enumerate(T.read("scripts/tls-ciphersuites.txt").split("\n"), 1):
        if not line.strip(): continue
        cols = line.split(":")
        if len(cols) < 10: raise U("scripts/tls-ciphersuites.txt:%d: expected at least 10 columns" % ln)
        if any('"' in c for c in cols): raise U("scripts/tls-ciphersuites.txt:%d: quote in a column" % ln)
        rows.append("  [" + "; ".join('"%s"' % c for c in cols[:10]) + "]")
    return ("(* GENERATED by tools/translate.py (T3a) from scripts/tls-ciphersuites.txt (first 10 columns) -- do not edit *)\n"
            "From Coq Require Import String List.\nImport ListNotations.\nOpen Scope string_scope.\n"
            "Definition txt_rows : list (list string) := [\n" + ";\n".join(rows) + "\n].\n")

def inline_lets(b):
    """`letNAME=EXPR;` (plain identifier, single assignment) substituted into the rest of a whitespace-free body"""
    for _ in range(20):
        m = re.match(r"let([a-z_]\w*)=([^;{}]+);", b)
        if not m: break
        name, expr = m.group(1), m.group(2)
        rest = b[m.end():]
        if re.search(r"\blet(mut)?%s=" % re.escape(name), rest): break
        b = re.sub(r"(?<![\w.:])%s(?![\w(])" % re.escape(name), expr, rest)
    return b

def t8_serialize(T, consts):
    """the byte emitted by gen_tls_changecipherspec, and the constants used as type bytes / extension tags"""
    U = T.Untranslatable
    src = T.strip_comments(T.read("src/tls_serialize.rs"))
    def byte_of(fname, pattern):
        b = T.nows(T.fn_body(src, fname, "src/tls_serialize.rs"))
        m = re.search(pattern, b)
        if not m: raise U("%s: expected %s, found %r" % (fname, pattern, b[:120]))
        return m
    def const_or_lit(txt, where):
        m = re.fullmatch(r"u(?:8|16)::from\((\w+)::(\w+)\)", txt)
        if m:
            if (m.group(1), m.group(2)) not in consts: raise U("%s: unknown constant %s" % (where, txt))
            return consts[(m.group(1), m.group(2))]
        return T.eval_int(txt, where)
    b = T.nows(T.fn_body(src, "gen_tls_changecipherspec", "src/tls_serialize.rs"))
    m = re.fullmatch(r"be_u8\((.+)\)", b)
    if not m: raise U("gen_tls_changecipherspec body %r" % b)
    ccs = const_or_lit(m.group(1), "gen_tls_changecipherspec")
    out = ["(* GENERATED by tools/translate.py (T8) from src/tls_serialize.rs -- do not edit *)", "From Coq Require Import NArith.", "Open Scope N_scope.",
           "Definition ser_ccs_byte : N := %d." % ccs]
    for fname, nm in (("gen_tls_clienthello", "ser_ty_clienthello"), ("gen_tls_serverhello", "ser_ty_serverhello"),
                      ("gen_tls_serverhellodraft18", "ser_ty_serverhello13"), ("gen_tls_clientkeyexchange_unknown", "ser_ty_cke_unknown"),
                      ("gen_tls_clientkeyexchange_dh", "ser_ty_cke_dh"), ("gen_tls_clientkeyexchange_ecdh", "ser_ty_cke_ecdh"),
                      ("gen_tls_hellorequest", "ser_ty_hellorequest"), ("gen_tls_finished", "ser_ty_finished")):
        b = inline_lets(T.nows(T.fn_body(src, fname, "src/tls_serialize.rs")))
        m = re.match(r"tuple\(\(be_u8\((u8::from\(TlsHandshakeType::\w+\)|[0-9a-fx_]+)\),", b)
        if not m: raise U("%s: type byte not found: %r" % (fname, b[:80]))
        out.append("Definition %s : N := %d." % (nm, const_or_lit(m.group(1), fname)))
    for fname, nm in (("gen_tls_ext_sni", "ser_tag_sni"), ("gen_tls_ext_max_fragment_length", "ser_tag_mfl"),
                      ("gen_tls_ext_elliptic_curves", "ser_tag_groups")):
        b = T.nows(T.fn_body(src, fname, "src/tls_serialize.rs"))
        m = re.match(r"tagged_extension\((u16::from\(TlsExtensionType::\w+\)|[0-9a-fx_]+),", b)
        if not m: raise U("%s: tag not found: %r" % (fname, b[:80]))
        out.append("Definition %s : N := %d." % (nm, const_or_lit(m.group(1), fname)))
    return "\n".join(out) + "\n"

def t9_accessors(T):
    """the forms of the ClientHello trait's provided methods rand_time / rand_bytes"""
    U = T.Untranslatable
    src = T.strip_comments(T.read("src/tls_handshake.rs"))
    m = re.search(r"pub\s+trait\s+ClientHello<'a>\s*\{", src)
    if not m: raise U("trait ClientHello not found")
    c = T.match_close(src, m.end() - 1, "{", "}")
    body = src[m.end():c]
    rt = T.nows(T.fn_body(body, "rand_time", "trait ClientHello"))
    forms = {
        "self.random().try_into().map(u32::from_be_bytes).unwrap_or(0)": "RtWholeSlice",
        "self.random().get(..4).and_then(|s|s.try_into().ok()).map(u32::from_be_bytes).unwrap_or(0)": "RtFirstFour",
    }
    if rt not in forms: raise U("ClientHello::rand_time body not recognised: %r" % rt)
    # rand_bytes / cipher_suites have a single modelled form; their bodies are not read (a rewrite of them is
    # checked by running every accessor against the model and the spec oracle)
    for nm in ("rand_bytes", "cipher_suites"): T.fn_body(body, nm, "trait ClientHello")   # must still exist
    return ("(* GENERATED by tools/translate.py (T9) from the provided methods of trait ClientHello -- do not edit *)\n"
            "Inductive rand_time_form := RtWholeSlice | RtFirstFour.\nDefinition rand_time_src : rand_time_form := %s.\n" % forms[rt])

def scan_public_types(T):
    """[(name, n_lifetimes)] for every `pub struct` / `pub enum` of src/*.rs (tls_serialize.rs excluded: functions only)"""
    import glob, os
    U = T.Untranslatable
    out = []
    for f in sorted(glob.glob(os.path.join(T.REPO, "src", "*.rs"))):
        src = T.strip_comments(open(f).read())
        for m in re.finditer(r"^\s*pub (?:struct|enum) (\w+)\s*(<[^>{(;]*>)?", src, re.M):
            name, gen = m.group(1), m.group(2) or ""
            params = [x.strip() for x in gen.strip("<>").split(",") if x.strip()]
            if any(not x.startswith("'") for x in params):
                raise U("public type %s has a type parameter (%s): Send/Sync assertion not generated" % (name, gen))
            out.append((name, len(params)))
    return sorted(set(out))

def t10_asserts(T):
    """compile-time Send + Sync assertions for every public value type (included by the harness)"""
    lines = ["// GENERATED by tools/translate.py (T10) from the `pub struct` / `pub enum` items of src/*.rs -- do not edit",
             "fn _assert_send_sync<T: Send + Sync>() {}", "#[allow(dead_code)]", "pub fn assert_all() {"]
    for name, nl in scan_public_types(T):
        gen = ("<" + ", ".join(["'static"] * nl) + ">") if nl else ""
        lines.append("    _assert_send_sync::<tls_parser::%s%s>();" % (name, gen))
    lines += ["    _assert_send_sync::<&'static tls_parser::TlsCipherSuite>();", "}"]
    return "\n".join(lines) + "\n"

def canon_cfg(T, c):
    """all(b,a) -> all(a,b), recursively: the order of the operands of all/any does not matter"""
    m = re.fullmatch(r"(all|any|not)\((.*)\)", c)
    if not m: return c
    args = sorted(canon_cfg(T, a.strip()) for a in T.split_top(m.group(2)) if a.strip())
    return "%s(%s)" % (m.group(1), ",".join(args))

def t10_config(T):
    """conditional-compilation sites, crate attributes, unsafe tokens, feature table"""
    import glob, os
    U = T.Untranslatable
    def q(x): return x.replace('"', "")
    sites, unsafe_n = [], 0
    for f in sorted(glob.glob(os.path.join(T.REPO, "src", "*.rs"))):
        src = T.strip_comments(open(f).read())
        base = os.path.basename(f)
        unsafe_n += len(re.findall(r"\bunsafe\b", re.sub(r"forbid\(unsafe_code\)", "", src)))
        lines = src.split("\n")
        for k, l in enumerate(lines):
            for m in re.finditer(r"#!?\[\s*cfg(_attr)?\s*\(|\bcfg!\s*\(", l):
                start = l.index("(", m.start())
                # condition text up to the matching parenthesis (attribute on one line in this crate)
                depth, j = 0, start
                while j < len(l):
                    if l[j] == "(": depth += 1
                    elif l[j] == ")":
                        depth -= 1
                        if depth == 0: break
                    j += 1
                if depth != 0: raise U("%s:%d: multi-line cfg attribute" % (base, k + 1))
                cond = canon_cfg(T, T.nows(l[start + 1:j]))
                kind = "cfg!" if "cfg!" in m.group(0) else ("cfg_attr" if m.group(1) else "cfg")
                # the guarded item: next line that is not an attribute
                item, n = "", k + 1
                if kind == "cfg!": item = T.nows(l)[:60]
                else:
                    while n < len(lines) and (not lines[n].strip() or lines[n].strip().startswith("#[")): n += 1
                    item = T.nows(lines[n] if n < len(lines) else "")[:60]
                sites.append((base, kind, q(cond), q(item)))
    lib = T.strip_comments(T.read("src/lib.rs"))
    attrs = [q(T.nows(a)) for a in re.findall(r"#!\[(.*?)\]", lib, re.S)]
    toml = T.read("Cargo.toml")
    m = re.search(r"^\[features\]\s*\n(.*?)(?=^\[)", toml, re.M | re.S)
    if not m: raise U("Cargo.toml: [features] not found")
    feats = []
    for l in m.group(1).split("\n"):
        l = l.strip()
        if not l or l.startswith("#"): continue
        mm = re.match(r"([\w-]+)\s*=\s*\[(.*)\]$", l)
        if not mm: raise U("Cargo.toml feature line not recognised: %r" % l)
        feats.append((mm.group(1), [x.strip().strip('"') for x in mm.group(2).split(",") if x.strip()]))
    def cs(x): return '"%s"' % x
    def cl(xs): return "[" + "; ".join(xs) + "]"
    types = scan_public_types(T)
    out = ["(* GENERATED by tools/translate.py (T10) from src/*.rs and Cargo.toml -- do not edit *)",
           "From Coq Require Import String List NArith.", "Import ListNotations.", "Open Scope string_scope.",
           "(* (file, kind, condition, first 60 characters of the guarded item); double quotes removed, whitespace removed *)",
           "Definition cfg_sites : list (string * string * string * string) := " +
           cl(["(%s, %s, %s, %s)" % (cs(a), cs(b), cs(c), cs(d)) for a, b, c, d in sites]) + ".",
           "Definition crate_attrs : list string := " + cl([cs(a) for a in attrs]) + ".",
           "Definition unsafe_tokens : N := %d%%N." % unsafe_n,
           "Definition features : list (string * list string) := " + cl(["(%s, %s)" % (cs(a), cl([cs(x) for x in b])) for a, b in feats]) + ".",
           "Definition public_types : list string := " + cl([cs(n) for n, _ in types]) + "."]
    return "\n".join(out) + "\n"

def t7_ext_type_of(T):
    """arms of `impl From<&TlsExtension> for TlsExtensionType`: variant -> constant name, or the bound type of Unknown"""
    U = T.Untranslatable
    src = T.strip_comments(T.read("src/tls_extensions.rs"))
    m = re.search(r"impl<'a>\s*From<&'a\s+TlsExtension<'a>>\s*for\s+TlsExtensionType\s*\{", src)
    if not m: raise U("impl From<&TlsExtension> for TlsExtensionType not found")
    c = T.match_close(src, m.end() - 1, "{", "}")
    body = src[m.end():c]
    mm = re.search(r"match\s*\*ext\s*\{", body)
    if not mm: raise U("From<&TlsExtension>: `match *ext {` not found")
    c2 = T.match_close(body, mm.end() - 1, "{", "}")
    arms = [a.strip() for a in body[mm.end():c2].split(",\n") if a.strip()]
    arms = [x for a in arms for x in re.split(r",\s*(?=TlsExtension::)", a)]
    out = []
    for a in arms:
        a = T.nows(a).rstrip(",")
        if not a: continue
        m1 = re.match(r"TlsExtension::(\w+)(?:\((?:_|_,_)\)|\{\.\.\})?=>TlsExtensionType::(\w+)$", a)
        m2 = re.match(r"TlsExtension::(\w+)\((\w+),_\)=>(\w+)$", a)
        if m1: out.append('("%s", Some "%s")' % (m1.group(1), m1.group(2)))
        elif m2 and m2.group(2) == m2.group(3): out.append('("%s", None)' % m2.group(1))
        else: raise U("From<&TlsExtension>: arm not recognised: %r" % a)
    return ("(* GENERATED by tools/translate.py (T7) from impl From<&TlsExtension> for TlsExtensionType -- do not edit *)\n"
            "From Coq Require Import String List.\nImport ListNotations.\nOpen Scope string_scope.\n"
            "(* variant name -> Some constant of TlsExtensionType | None = the type bound in the variant itself *)\n"
            "Definition ext_type_arms : list (string * option string) := [" + "; ".join(out) + "].\n")

def t11_partial_ops(T):
    """inventory of the partial operations of the non-test source: unwrap/expect, panicking macros, index/slice
    expressions, subtractions on lengths (each is a place where Rust can panic)"""
    import glob, os
    U = T.Untranslatable
    rows = []
    for f in sorted(glob.glob(os.path.join(T.REPO, "src", "*.rs"))):
        src = T.strip_comments(open(f).read())
        while True:   # drop #[cfg(test)] mod tests { ... }
            m = re.search(r"#\[cfg\(test\)\]\s*mod\s+\w+\s*\{", src)
            if not m: break
            c = T.match_close(src, m.end() - 1, "{", "}")
            src = src[:m.start()] + src[c + 1:]
        base = os.path.basename(f)
        fn_at = [(m.start(), m.group(1)) for m in re.finditer(r"\bfn\s+(\w+)", src)]
        def enclosing(pos):
            name = "-"
            for st, nm in fn_at:
                if st <= pos: name = nm
                else: break
            return name
        pats = ((r"\.unwrap\(\)", "unwrap"), (r"\.expect\(", "expect"),
                (r"\b(unreachable|panic|assert|debug_assert|assert_eq|assert_ne|todo|unimplemented)!", "macro"),
                (r"(?<=[\w\)\]])\[(?!\s*\])", "index"), (r"\b\w*len\w*\s*-\s*\w+", "len-sub"),
                (r"\bas\s+usize\s*[-+*]", "arith"))
        for pat, kind in pats:
            for m in re.finditer(pat, src):
                if kind == "index":
                    c = T.match_close(src, m.start(), "[", "]")
                    st = m.start()
                    while st > 0 and (src[st - 1].isalnum() or src[st - 1] in "_.)("): st -= 1
                    expr = T.nows(src[st:c + 1])
                elif kind in ("len-sub", "macro", "arith"): expr = T.nows(m.group(0))
                else: expr = kind
                rows.append((base, enclosing(m.start()), kind, expr.replace('"', "'")))
    rows.sort()
    def cs(x): return '"%s"' % x
    return ("(* GENERATED by tools/translate.py (T11): every partial operation of the non-test source -- do not edit *)\n"
            "From Coq Require Import String List.\nImport ListNotations.\nOpen Scope string_scope.\n"
            "(* (file, enclosing fn, kind, normalised expression) *)\n"
            "Definition partial_ops : list (string * string * string * string) := [\n  " +
            ";\n  ".join("(%s, %s, %s, %s)" % tuple(cs(x) for x in r) for r in rows) + "].\n")

def run(T, step, enums):
    step("T11", ["PartialOps.v"], lambda: {"PartialOps.v": t11_partial_ops(T)})
    step("T7", ["ExtTypeOf.v"], lambda: {"ExtTypeOf.v": t7_ext_type_of(T)})
    step("T10", ["Config.v", "assert_traits.rs"], lambda: {"Config.v": t10_config(T), "assert_traits.rs": t10_asserts(T)})
    step("T9", ["AccessorForms.v"], lambda: {"AccessorForms.v": t9_accessors(T)})
    step("T3a", ["CipherTxt.v"], lambda: {"CipherTxt.v": t3a_cipher_txt(T)})
    if enums is not None:
        consts = T.const_lookup(enums)
        step("T2", ["StateTable.v"], lambda: {"StateTable.v": t2_states(T, consts)})
        step("T6", ["KeyBits.v"], lambda: {"KeyBits.v": t6_key_bits(T, consts)})
        step("T8", ["SerConsts.v"], lambda: {"SerConsts.v": t8_serialize(T, consts)})
