#!/usr/bin/env python3
"""T13: the serializer functions of /repo/src/tls_serialize.rs (feature `serialize`), translated into Gallina.

Every `fn gen_*(args) -> impl SerializeFn<W>` (and the three length/tag helpers) becomes
    Definition src_gen_x (args) : ser := <its cookie-factory expression>
in coq/gen/SrcSerialize.v, over the model's `ser` monad (Model/Serialize.v): `tuple((a, b, ..))` is `sall [A; B; ..]`,
`be_uN(v)` is `SerOk (uN V)`, `slice(x)` is `SerOk (bytes X)`, `many_ref(m, g)` / `all(it.map(f))` are `sall (map ..)`,
`a(out).and_then(b)` is `scat A B`, `move |out| match m { pat => e(out), .. }` is a Gallina `match` on the model's
constructors, `gen(&f, Vec::new())?` binds the bytes of `f` and their length, and a call of another serializer of the
crate is the *model's* term for it (modular tie, as in T12).  coq/gen/SrcSerializeTie.v states
`forall args, src_gen_x args = gen_x args` for each and proves it with Proofs/TieTactics.v (`ser_tie`).
A function outside the subset is reported as UNTRANSLATABLE T13 (exit 3); nothing is skipped silently."""
import os, sys, re, json
sys.path.insert(0, os.path.dirname(os.path.abspath(__file__)))
import rustsub, t12
from rustsub import Unsupported

VERIF = os.path.dirname(os.path.dirname(os.path.abspath(__file__)))
REPO = os.environ.get("VERIF_REPO", "/repo")

# (Rust struct, field) -> (projection, kind); kinds: N slice list optslice rec:<Type>
F = {
    ("TlsClientHelloContents", "version"): ("ch_version", "N"), ("TlsClientHelloContents", "random"): ("ch_random", "slice"),
    ("TlsClientHelloContents", "session_id"): ("ch_sid", "optslice"), ("TlsClientHelloContents", "ciphers"): ("ch_ciphers", "list"),
    ("TlsClientHelloContents", "comp"): ("ch_comp", "list"), ("TlsClientHelloContents", "ext"): ("ch_ext", "optslice"),
    ("TlsServerHelloContents", "version"): ("sh_version", "N"), ("TlsServerHelloContents", "random"): ("sh_random", "slice"),
    ("TlsServerHelloContents", "session_id"): ("sh_sid", "optslice"), ("TlsServerHelloContents", "cipher"): ("sh_cipher", "N"),
    ("TlsServerHelloContents", "compression"): ("sh_comp", "N"), ("TlsServerHelloContents", "ext"): ("sh_ext", "optslice"),
    ("TlsServerHelloV13Draft18Contents", "version"): ("sh13_version", "N"), ("TlsServerHelloV13Draft18Contents", "random"): ("sh13_random", "slice"),
    ("TlsServerHelloV13Draft18Contents", "cipher"): ("sh13_cipher", "N"), ("TlsServerHelloV13Draft18Contents", "ext"): ("sh13_ext", "optslice"),
    ("TlsPlaintext", "hdr"): ("p_hdr", "rec:TlsRecordHeader"), ("TlsPlaintext", "msg"): ("p_msg", "list"),
    ("TlsRecordHeader", "record_type"): ("h_type", "N"), ("TlsRecordHeader", "version"): ("h_version", "N"), ("TlsRecordHeader", "len"): ("h_len", "N"),
    ("ECPoint", "point"): ("g_id", "slice"),
}
GALLINA_TYPE = {"TlsClientHelloContents": "ClientHelloC", "TlsServerHelloContents": "ServerHelloC", "TlsServerHelloV13Draft18Contents": "ServerHello13C",
                "TlsPlaintext": "TlsPlaintext", "TlsClientKeyExchangeContents": "ClientKeyExchangeC", "TlsMessageHandshake": "TlsMessageHandshake",
                "TlsMessage": "TlsMessage", "TlsExtension": "TlsExtension", "ECPoint": "slice", "NamedGroup": "N"}
VARIANTS = {"TlsClientKeyExchangeContents::Unknown": "CkeUnknown", "TlsClientKeyExchangeContents::Dh": "CkeDh", "TlsClientKeyExchangeContents::Ecdh": "CkeEcdh",
            "TlsMessage::Handshake": "MHandshake", "TlsMessage::ChangeCipherSpec": "MChangeCipherSpec"}
def variant(path):
    key = "::".join(path)
    if key in VARIANTS: return VARIANTS[key]
    if len(path) == 2 and path[0] == "TlsExtension": return "E" + path[1]
    if len(path) == 2 and path[0] == "TlsMessageHandshake": return "H" + path[1]
    raise Unsupported("variant %s" % key)
VARIANT_PAYLOAD = {"HClientHello": "rec:TlsClientHelloContents", "HServerHello": "rec:TlsServerHelloContents", "HServerHelloV13Draft18": "rec:TlsServerHelloV13Draft18Contents",
                   "HClientKeyExchange": "rec:TlsClientKeyExchangeContents", "HFinished": "slice", "CkeUnknown": "slice", "CkeDh": "slice", "CkeEcdh": "rec:ECPoint",
                   "MHandshake": "rec:TlsMessageHandshake", "ESNI": "list", "EMaxFragmentLength": "N", "EEllipticCurves": "list"}

MODEL_SER_NAME = {"gen_tls_sessionid": "gen_tls_sessionid_ser", "maybe_extensions": "maybe_extensions_ser"}
class S:
    def __init__(self, T):
        self.T = T
        src = open(os.path.join(T.repo, "src", "tls_serialize.rs")).read()
        self.fns = {}
        for it in rustsub.parse_file(src):
            if it["owner"] is None and it["body"] is not None: self.fns[it["name"]] = it

    def is_ser_fn(self, it):
        return "SerializeFn" in it["ret"]

    # ---- values ----
    def val(self, e, env):
        k = e[0]
        if k == "lit": return str(e[1]), "N"
        if k in ("paren", "ref"): return self.val(e[1], env)
        if k == "un" and e[1] == "*": return self.val(e[2], env)
        if k == "path":
            p = e[1]
            if len(p) == 1:
                if p[0] not in env: raise Unsupported("unknown variable %s" % p[0])
                return t12.ident(p[0]), env[p[0]]
            c = self.T.const_value(p)
            if c is not None: return c, "N"
            raise Unsupported("path %s" % "::".join(p))
        if k == "call" and e[1][0] == "path":
            key = "::".join(e[1][1])
            if key in ("u8::from", "u16::from", "u32::from", "usize::from") and len(e[2]) == 1: return self.val(e[2][0], env)
            raise Unsupported("call %s" % key)
        if k == "tfield":
            v, ty = self.val(e[1], env)
            if ty == "N" and e[2] == 0: return v, "N"                       # newtype .0
            if ty.startswith("pair:"):
                a, b = ty[5:].split(",")
                return ("(fst %s)" % v, a) if e[2] == 0 else ("(snd %s)" % v, b)
            raise Unsupported("tuple field .%d of %s" % (e[2], ty))
        if k == "field":
            v, ty = self.val(e[1], env)
            if ty.startswith("rec:") and (ty[4:], e[2]) in F:
                pr, kind = F[(ty[4:], e[2])]
                return "(%s %s)" % (pr, v), kind
            raise Unsupported("field .%s of %s" % (e[2], ty))
        if k == "mcall" and e[2] == "len" and not e[3]:
            v, ty = self.val(e[1], env)
            if ty == "slice": return "(slen %s)" % v, "N"
            if ty in ("list", "bytes"): return "(lenN %s)" % v, "N"
            raise Unsupported("len of %s" % ty)
        if k == "cast":
            v, ty = self.val(e[1], env)
            if e[2] in ("usize", "u32", "u64"): return v, "N"
            if e[2] == "u16": return "(%s mod 65536)" % v, "N"
            if e[2] == "u8": return "(%s mod 256)" % v, "N"
        if k == "bin" and e[1] == "*":
            a, _ = self.val(e[2], env); b, _ = self.val(e[3], env)
            if e[2][0] == "cast" and e[2][2] == "u16": env["__guards"].append("(65536 <=? %s * %s)" % (a, b))   # u16 multiplication overflows
            else: raise Unsupported("multiplication of unknown width")
            return "(%s * %s)" % (a, b), "N"
        raise Unsupported("value %s" % k)

    # ---- serializer expressions ----
    def ser(self, e, env):
        k = e[0]
        if k == "paren": return self.ser(e[1], env)
        if k == "ref": return self.ser(e[1], env)
        if k == "path" and len(e[1]) == 1 and env.get(e[1][0]) == "ser": return t12.ident(e[1][0])
        if k == "call" and e[1][0] == "path":
            key = "::".join(e[1][1]); a = e[2]
            if key == "tuple" and len(a) == 1 and a[0][0] == "tuple": return "(sall [%s])" % "; ".join(self.ser(x, env) for x in a[0][1])
            if key in ("be_u8", "be_u16", "be_u24") and len(a) == 1:
                v, _ = self.val(a[0], env); return "(SerOk (%s %s))" % (key[3:], v)
            if key == "slice" and len(a) == 1:
                v, ty = self.val(a[0], env)
                if ty == "slice": return "(SerOk (bytes %s))" % v
                if ty == "bytes": return "(SerOk %s)" % v
                raise Unsupported("slice() of %s" % ty)
            if key == "many_ref" and len(a) == 2:
                v, ty = self.val(a[0], env)
                return "(sall (map %s %s))" % (self.fn_value(a[1], env), v)
            if key == "all" and len(a) == 1:
                m = a[0]
                if m[0] == "mcall" and m[2] == "map" and len(m[3]) == 1 and m[1][0] == "mcall" and m[1][2] == "iter":
                    v, ty = self.val(m[1][1], env)
                    return "(sall (map %s %s))" % (self.fn_value(m[3][0], env), v)
                raise Unsupported("all() argument")
            if key in self.fns and self.is_ser_fn(self.fns[key]):
                it = self.fns[key]
                ps = it["params"]
                if len(ps) != len(a): raise Unsupported("arity of %s" % key)
                args = []
                for (pn, pt), x in zip(ps, a):
                    if re.fullmatch(r"[A-Z]\w*", pt.strip()) and pt.strip() in it["generics"]: args.append(self.ser(x, env))
                    else: args.append(self.val(x, env)[0])
                env["__calls"].add(key)
                mk = MODEL_SER_NAME.get(key, key)
                if self.expected and key not in self.expected: mk = "src_" + key       # helper without a model term
                return "(%s %s)" % (mk, " ".join(args)) if args else mk
            raise Unsupported("serializer expression %s" % key)
        if k == "call" and len(e[2]) == 1 and e[2][0] == ("path", ["out"]):      # E(out)
            return self.ser(e[1], env)
        if k == "mcall" and e[2] == "and_then" and len(e[3]) == 1:
            return "(scat %s %s)" % (self.ser(e[1], env), self.ser(e[3][0], env))
        if k == "closure" and e[1] == [("pid", "out")]: return self.ser(e[2], env)
        if k == "block":
            stmts, tail = e[1], e[2]
            if len(stmts) == 1 and stmts[0][0] == "let" and stmts[0][2][0] == "try":
                # let (buf, len) = gen(&f, Vec::new())?;  tail(out)
                pat, g = stmts[0][1], stmts[0][2][1]
                if (g[0] == "call" and g[1] == ("path", ["gen"]) and len(g[2]) == 2 and pat[0] == "ptuple" and len(pat[1]) == 2
                        and pat[1][0][0] == "pid" and pat[1][1][0] == "pid"):
                    f = self.ser(g[2][0], env)
                    b, l = pat[1][0][1], pat[1][1][1]
                    env2 = dict(env); env2[b] = "bytes"; env2[l] = "N"
                    return "(sbind %s (fun %s => let %s := lenN %s in %s))" % (f, t12.ident(b), t12.ident(l), t12.ident(b), self.ser(tail, env2))
            if not stmts and tail is not None: return self.ser(tail, env)
            if stmts and tail is not None and all(st[0] == "let" and st[1] == ("pid", "out") and st[2][0] == "try" for st in stmts):
                # let out = a(out)?; let out = b(out)?; c(out)       -- sequencing through the writer
                parts = [self.ser(st[2][1], env) for st in stmts] + [self.ser(tail, env)]
                return "(sall [%s])" % "; ".join(parts)
            if stmts and all(st[0] == "let" and st[1][0] == "pid" and not self.T.has_try(st[2]) for st in stmts) and tail is not None:
                # let x = <serializer or value>; ... tail      (named intermediates)
                env2 = dict(env); lets = []
                for st in stmts:
                    try:
                        v = self.ser(st[2], env2); kind = "ser"
                    except Unsupported:
                        v, kind = self.val(st[2], env2)
                    lets.append((t12.ident(st[1][1]), v)); env2[st[1][1]] = kind
                t = self.ser(tail, env2)
                for nm, v in reversed(lets): t = "(let %s := %s in %s)" % (nm, v, t)
                return t
            raise Unsupported("block in a serializer")
        if k == "iflet" and e[4] is not None:
            return self.ser(("match", e[2], [(e[1], None, e[3]), (("pwild",), None, e[4])]), env)
        if k == "match":
            sv, sty = self.val(e[1], env)
            arms = []
            for pat, guard, body in e[2]:
                if guard is not None: raise Unsupported("guarded arm")
                env2 = dict(env)
                if pat[0] == "pwild": p = "_"
                elif pat[0] == "ppath" and pat[1] == ["None"]: p = "None"
                elif pat[0] == "pts" and pat[1] == ["Some"] and pat[2][0][0] == "pid":
                    p = "Some %s" % t12.ident(pat[2][0][1]); env2[pat[2][0][1]] = "slice" if sty == "optslice" else "N"
                elif pat[0] == "ppath": p = variant(pat[1])
                elif pat[0] == "pts" and len(pat[2]) == 1 and pat[2][0][0] in ("pid", "pref"):
                    c = variant(pat[1]); q = pat[2][0]
                    while q[0] == "pref": q = q[1]
                    p = "%s %s" % (c, t12.ident(q[1])); env2[q[1]] = VARIANT_PAYLOAD.get(c, "N")
                else: raise Unsupported("pattern %s" % (pat[0],))
                if body[0] == "call" and body[1] == ("path", ["Err"]) and body[2] == [("path", ["GenError", "NotYetImplemented"])]: b = "SerNYI"
                else: b = self.ser(body, env2)
                arms.append("| %s => %s" % (p, b))
            return "(match %s with %s end)" % (sv, " ".join(arms))
        raise Unsupported("serializer expression %s" % k)

    def fn_value(self, e, env):
        if e[0] == "path" and len(e[1]) == 1 and e[1][0] in self.fns:
            env["__calls"].add(e[1][0]); return MODEL_SER_NAME.get(e[1][0], e[1][0])
        if e[0] == "closure" and len(e[1]) == 1:
            p = e[1][0]
            while p[0] == "pref": p = p[1]
            if p[0] != "pid": raise Unsupported("closure binder")
            env2 = dict(env); env2[p[1]] = "N"
            return "(fun %s => %s)" % (t12.ident(p[1]), self.ser(e[2], env2))
        raise Unsupported("function argument")

    def translate(self, name):
        it = self.fns[name]
        env = {"__guards": [], "__calls": set()}
        binders = []
        for pn, pt in it["params"]:
            t = re.sub(r"'\w+", "", pt); t = re.sub(r"\s", "", t).replace("<>", "").replace("&", "")
            if t in it["generics"].replace(" ", "").split(",") or re.fullmatch(r"[FG]", t): env[pn] = "ser"; binders.append("(%s : ser)" % t12.ident(pn))
            elif t in ("u8", "u16", "u32", "usize") or t in self.T.newtypes: env[pn] = "N"; binders.append("(%s : N)" % t12.ident(pn))
            elif t == "[u8]": env[pn] = "slice"; binders.append("(%s : slice)" % t12.ident(pn))
            elif t == "Option<[u8]>": env[pn] = "optslice"; binders.append("(%s : option slice)" % t12.ident(pn))
            elif t == "(SNIType,[u8])": env[pn] = "pair:N,slice"; binders.append("(%s : N * slice)" % t12.ident(pn))
            elif t == "[(SNIType,[u8])]": env[pn] = "list"; binders.append("(%s : list (N * slice))" % t12.ident(pn))
            elif t == "[NamedGroup]": env[pn] = "list"; binders.append("(%s : list N)" % t12.ident(pn))
            elif t == "[TlsExtension]": env[pn] = "list"; binders.append("(%s : list TlsExtension)" % t12.ident(pn))
            elif t in GALLINA_TYPE: env[pn] = "rec:" + t; binders.append("(%s : %s)" % (t12.ident(pn), GALLINA_TYPE[t]))
            else: raise Unsupported("parameter %s : %s" % (pn, pt))
        body = it["body"]
        if body[0] == "unparsed": raise Unsupported(body[1])
        term = self.ser(body, env)
        for g in reversed(env["__guards"]): term = "(if %s then SerPanic else %s)" % (g, term)
        return dict(name=name, binders=binders, args=[t12.ident(pn) for pn, _ in it["params"]], term=term, calls=sorted(env["__calls"]))

def main():
    out = os.path.join(VERIF, "coq", "gen")
    T = t12.Translator(REPO)
    s = S(T)
    s.expected = json.load(open(os.path.join(VERIF, "tools", "t13_expected.json"))) if os.path.exists(os.path.join(VERIF, "tools", "t13_expected.json")) else {}
    done, failed = [], {}
    names = [n for n, it in sorted(s.fns.items()) if s.is_ser_fn(it)]
    for n in [x for x in names if s.expected and x not in s.expected] + [x for x in names if not (s.expected and x not in s.expected)]:
        it = s.fns[n]
        try: done.append(s.translate(n))
        except Unsupported as e: failed[n] = str(e)
        except (IndexError, KeyError, TypeError, AttributeError) as e: failed[n] = "internal: %r" % (e,)
    expected = json.load(open(os.path.join(VERIF, "tools", "t13_expected.json"))) if os.path.exists(os.path.join(VERIF, "tools", "t13_expected.json")) else {}
    L = ["(* GENERATED by tools/t13.py (T13) from /repo/src/tls_serialize.rs -- do not edit *)",
         "From TlsModel Require Import Bytes Values Serialize SerExtra SrcGlue.", "Open Scope N_scope.", ""]
    Tie = ["(* GENERATED by tools/t13.py (T13): the serializer source means what the model's term means *)",
           "From TlsModel Require Import Bytes Values Serialize SerExtra SrcGlue SrcSerialize TieTactics.", "Open Scope N_scope.", ""]
    for d in done:
        L.append("Definition src_%s %s : ser :=\n  %s.\n" % (d["name"], " ".join(d["binders"]), d["term"]))
        if expected.get(d["name"], "tied") != "tied" or (expected and d["name"] not in expected): continue
        Tie.append("Lemma stie_%s : forall %s, src_%s %s = %s %s.\nProof. intros; unfold src_%s, %s; HELPERS__timeout 60 ser_tie. Qed.\n" % (
            d["name"], " ".join(d["binders"]) or "(_ : unit)", d["name"], " ".join(d["args"]), MODEL_SER_NAME.get(d["name"], d["name"]), " ".join(d["args"]), d["name"], MODEL_SER_NAME.get(d["name"], d["name"])))
    helpers = [d["name"] for d in done if expected and d["name"] not in expected]
    Tie = [t.replace("HELPERS__", "".join("try unfold src_%s; " % h for h in reversed(helpers))) for t in Tie]
    def write_if_changed(name, content):
        p = os.path.join(out, name)
        if not os.path.exists(p) or open(p).read() != content: open(p, "w").write(content)
    write_if_changed("SrcSerialize.v", "\n".join(L) + "\n")
    write_if_changed("SrcSerializeTie.v", "\n".join(Tie) + "\n")
    diag = []
    for l in Tie:
        m = re.match(r"Lemma (stie_\w+) : (.*)\nProof\. (.*)\. Qed\.\n$", l, re.S)
        if m: diag.append('Goal %s\nProof. first [ solve [ timeout 60 (%s) ] | idtac "TIEFAIL %s" ]. Abort.\n' % (m.group(2), m.group(3), m.group(1)))
        else: diag.append(l)
    write_if_changed("SrcSerializeDiag.v", "\n".join(diag) + "\n")
    dev = []
    for n, st in expected.items():
        if st == "tied" and n in failed: dev.append("UNTRANSLATABLE T13: %s: %s" % (n, failed[n]))
        if n not in failed and n not in [d["name"] for d in done]: dev.append("UNTRANSLATABLE T13: %s: function no longer present in the source" % n)
    for n in failed:
        if expected and n not in expected: dev.append("UNTRANSLATABLE T13: %s: helper outside the subset: %s" % (n, failed[n]))
    rep = dict(translated={d["name"]: d["calls"] for d in done}, untranslatable=failed, deviations=dev)
    rp = os.path.join(out, "t13_report.json")
    with open(rp + ".tmp%d" % os.getpid(), "w") as f: json.dump(rep, f, indent=1)
    os.replace(rp + ".tmp%d" % os.getpid(), rp)
    print("T13: %d serializer functions translated, %d outside the subset" % (len(done), len(failed)))
    for d in dev: print(d)
    if "--verbose" in sys.argv:
        for n, w in sorted(failed.items()): print("  untranslatable %s: %s" % (n, w))
    sys.exit(3 if dev else 0)

if __name__ == "__main__":
    main()
