#!/bin/bash
# seed2.sh <property> <name> <dir with patch.diff demo_mutant.rs notes.txt> <scratch worktree>
# applies a sub-agent's patch in its scratch worktree, then confirms and records it with seed.sh
set -u
PID=$1; NAME=$2; SRC=$3; WT=$4
git -C $WT checkout -q -- . ; rm -f $WT/tests/demo_mutant.rs
git -C $WT apply $SRC/patch.diff || { echo "patch does not apply"; exit 2; }
cp $SRC/demo_mutant.rs $WT/tests/demo_mutant.rs
export CARGO_TARGET_DIR=$WT/target
/verif/tools/seed.sh $PID $NAME $WT
cp $SRC/notes.txt /verif/seeded/$NAME/notes.txt 2>/dev/null
git -C $WT checkout -q -- . ; rm -f $WT/tests/demo_mutant.rs
