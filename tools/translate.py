#!/usr/bin/env python3
"""Translators T1..T7: regenerate the table parts of the Coq model from /repo's
current source.  Every arm/row of a block that is read must be classified;
anything else is reported as UNTRANSLATABLE (exit 3) and the previous
generated file is left in place, so that the caller can fall back to a
differential search.  Output files are rewritten only when their content
changes (so `make` rebuilds only what depends on a changed table)."""
import os, re, sys, json

REPO = os.environ.get("VERIF_REPO", "/repo")
OUT = os.path.join(os.path.dirname(os.path.abspath(__file__)), "..", "coq", "gen")

class Untranslatable(Exception):
    pass

def read(rel):
    with open(os.path.join(REPO, rel)) as f:
        return f.read()

def strip_comments(s):
    """remove // and /* */ comments, keep string/char literals intact"""
    out = []
    i, n = 0, len(s)
    while i < n:
        c = s[i]
        if c == '"':
            j = i + 1
            while j < n and s[j] != '"':
                j += 2 if s[j] == '\\' else 1
            out.append(s[i:j + 1]); i = j + 1
        elif s.startswith("//", i):
            j = s.find("\n", i)
            if j < 0: j = n
            i = j
        elif s.startswith("/*", i):
            depth, j = 1, i + 2
            while j < n and depth:
                if s.startswith("/*", j): depth += 1; j += 2
                elif s.startswith("*/", j): depth -= 1; j += 2
                else: j += 1
            out.append(" "); i = j
        else:
            out.append(c); i += 1
    return "".join(out)

def match_close(s, i, open_c, close_c):
    """s[i] == open_c; return index of matching close"""
    assert s[i] == open_c, (s[i:i+20], open_c)
    depth = 0
    j = i
    n = len(s)
    while j < n:
        c = s[j]
        if c == '"':
            j += 1
            while j < n and s[j] != '"':
                j += 2 if s[j] == '\\' else 1
        elif c == "'" and j + 2 < n and (s[j+2] == "'" or (s[j+1] == '\\' and s[j+3] == "'")):
            j += 3 if s[j+2] == "'" else 4
            continue
        elif c == open_c: depth += 1
        elif c == close_c:
            depth -= 1
            if depth == 0: return j
        j += 1
    raise Untranslatable("unbalanced %s" % open_c)

def eval_int(expr, where):
    e = expr.strip().replace("_", "")
    if not re.fullmatch(r"[0-9a-fA-FxX\s()+*<]+", e):
        raise Untranslatable("%s: not an integer expression: %r" % (where, expr))
    try:
        return int(eval(e, {"__builtins__": {}}, {}))
    except Exception:
        raise Untranslatable("%s: cannot evaluate %r" % (where, expr))

def split_top(s, sep=","):
    """split on sep at nesting depth 0 (() [] {} and strings)"""
    parts, depth, cur, i, n = [], 0, [], 0, len(s)
    while i < n:
        c = s[i]
        if c == '"':
            j = i + 1
            while j < n and s[j] != '"':
                j += 2 if s[j] == '\\' else 1
            cur.append(s[i:j+1]); i = j + 1; continue
        if c in "([{": depth += 1
        elif c in ")]}": depth -= 1
        if c == sep and depth == 0:
            parts.append("".join(cur)); cur = []
        else:
            cur.append(c)
        i += 1
    parts.append("".join(cur))
    return parts

def nows(s):
    return re.sub(r"\s+", "", s)

# ---------------------------------------------------------------- T1
SRC_FILES = ["src/tls_record.rs", "src/tls_handshake.rs", "src/tls_alert.rs", "src/tls_extensions.rs",
             "src/tls_ec.rs", "src/tls_sign_hash.rs", "src/certificate_transparency.rs",
             "src/tls_message.rs", "src/dtls.rs", "src/tls_dh.rs", "src/tls_states.rs",
             "src/tls_records_parser.rs", "src/tls_ciphers.rs", "src/lib.rs"]

def t1_newtype_enums():
    """-> list of dict(name, mode, width, derives_debug, consts=[(key,val)], file)"""
    res = []
    for rel in SRC_FILES:
        try:
            src = strip_comments(read(rel))
        except FileNotFoundError:
            continue
        for m in re.finditer(r"newtype_enum!\s*([({])", src):
            o = m.end() - 1
            c = match_close(src, o, src[o], ")" if src[o] == "(" else "}")
            body = src[o+1:c].strip()
            mm = re.match(r"impl\s+(display\s+|debug\s+)?([A-Za-z_][A-Za-z0-9_]*)\s*\{", body)
            if not mm:
                raise Untranslatable("%s: newtype_enum! form not recognised: %r" % (rel, body[:60]))
            mode = (mm.group(1) or "").strip() or "none"
            name = mm.group(2)
            bo = mm.end() - 1
            bc = match_close(body, bo, "{", "}")
            if body[bc+1:].strip():
                raise Untranslatable("%s: trailing tokens after newtype_enum! body of %s" % (rel, name))
            consts = []
            for item in split_top(body[bo+1:bc]):
                item = item.strip()
                if not item: continue
                km = re.fullmatch(r"([A-Za-z_][A-Za-z0-9_]*)\s*=\s*(.+)", item, re.S)
                if not km:
                    raise Untranslatable("%s: %s: item %r" % (rel, name, item))
                consts.append((km.group(1), eval_int(km.group(2), "%s:%s::%s" % (rel, name, km.group(1)))))
            # struct declaration: width and derives
            sm = re.search(r"((?:#\[[^\]]*\]\s*)*)pub\s+struct\s+" + name + r"\s*\(\s*pub\s+(u8|u16|u32|u64)\s*\)\s*;", src)
            if not sm:
                raise Untranslatable("%s: tuple struct for %s not found" % (rel, name))
            width = int(sm.group(2)[1:])
            derives = " ".join(re.findall(r"derive\(([^)]*)\)", sm.group(1)))
            dd = bool(re.search(r"\bDebug\b", derives))
            res.append(dict(name=name, mode=mode, width=width, derives_debug=dd, consts=consts, file=rel))
    return res

def coq_str(s):
    return '"' + s.replace('"', '""') + '"'

def gen_const_tables(enums):
    L = ["(* GENERATED by tools/translate.py (T1) from the newtype_enum! blocks of /repo/src -- do not edit *)",
         "From Coq Require Import String NArith List.", "From TlsModel Require Import NtTypes.", "Import ListNotations.",
         "Open Scope N_scope. Open Scope string_scope.", ""]
    names = []
    for e in enums:
        mode = {"none": "NtNone", "display": "NtDisplay", "debug": "NtDebug"}[e["mode"]]
        L.append("Definition nt_%s : nt_type := mkNt %s %s %d %s [" % (
            e["name"], coq_str(e["name"]), mode, e["width"], "true" if e["derives_debug"] else "false"))
        L.append(";\n".join("  (%s, %d)" % (coq_str(k), v) for k, v in e["consts"]))
        L.append("].")
        names.append("nt_" + e["name"])
    L.append("Definition nt_all : list nt_type := [%s]." % "; ".join(names))
    return "\n".join(L) + "\n"

def const_lookup(enums):
    d = {}
    for e in enums:
        for k, v in e["consts"]:
            d[(e["name"], k)] = v
    return d

# ---------------------------------------------------------------- T4
def t4_consts():
    rec = strip_comments(read("src/tls_record.rs"))
    m = re.search(r"pub\s+const\s+MAX_RECORD_LEN\s*:\s*u16\s*=\s*([^;]+);", rec)
    if not m: raise Untranslatable("src/tls_record.rs: MAX_RECORD_LEN not found")
    a = eval_int(m.group(1), "MAX_RECORD_LEN")
    rp = strip_comments(read("src/tls_records_parser.rs"))
    m = re.search(r"pub\s+const\s+MAX_RECORD_DATA\s*:\s*usize\s*=\s*([^;]+);", rp)
    if not m: raise Untranslatable("src/tls_records_parser.rs: MAX_RECORD_DATA not found")
    b = eval_int(m.group(1), "MAX_RECORD_DATA")
    # is the debug assertion on the defragmentation buffer present in parse_record?
    body = nows(fn_body(rp, "parse_record", "src/tls_records_parser.rs"))
    n_assert = len(re.findall(r"debug_assert", body)) + len(re.findall(r"(?<!debug_)assert!|assert_eq!|assert_ne!|panic!|unreachable!|\.unwrap\(\)|\.expect\(", body))
    has = "debug_assert!(!self.record_defrag_buffer.is_empty());" in body
    if n_assert != (1 if has else 0):
        raise Untranslatable("src/tls_records_parser.rs: parse_record contains assertion/panic sites the model does not know")
    return ("(* GENERATED by tools/translate.py (T4) -- do not edit *)\nFrom Coq Require Import NArith.\nOpen Scope N_scope.\n"
            "Definition MAX_RECORD_LEN : N := %d.\nDefinition MAX_RECORD_DATA : N := %d.\n"
            "(* debug_assert!(!self.record_defrag_buffer.is_empty()) present in parse_record *)\n"
            "Definition DEFRAG_DEBUG_ASSERT : bool := %s.\n" % (a, b, "true" if has else "false"))

# ---------------------------------------------------------------- helpers for functions / matches
def fn_body(src, name, where):
    m = re.search(r"\bfn\s+" + re.escape(name) + r"\b", src)
    if not m: raise Untranslatable("%s: fn %s not found" % (where, name))
    o = src.find("{", m.end())
    # skip generic/where clauses containing braces? none in this crate
    c = match_close(src, o, "{", "}")
    return src[o+1:c]

def find_match(body, scrutinee_re, where):
    m = re.search(r"\bmatch\s+" + scrutinee_re + r"\s*\{", body)
    if not m: raise Untranslatable("%s: match on %s not found" % (where, scrutinee_re))
    o = m.end() - 1
    c = match_close(body, o, "{", "}")
    return body[o+1:c], body[c+1:]

def match_arms(block, where):
    """-> [(pattern, rhs)] in order"""
    arms = []
    i, n = 0, len(block)
    while True:
        while i < n and block[i] in " \t\r\n,": i += 1
        if i >= n: break
        # pattern up to top-level =>
        depth, j = 0, i
        while j < n:
            c = block[j]
            if c in "([{": depth += 1
            elif c in ")]}": depth -= 1
            elif block.startswith("=>", j) and depth == 0: break
            j += 1
        if j >= n: raise Untranslatable("%s: arm without =>: %r" % (where, block[i:i+40]))
        pat = block[i:j].strip()
        k = j + 2
        while k < n and block[k] in " \t\r\n": k += 1
        if k < n and block[k] == "{":
            c = match_close(block, k, "{", "}")
            rhs = block[k+1:c].strip()
            i = c + 1
        else:
            depth, e = 0, k
            while e < n:
                ch = block[e]
                if ch == '"':
                    e += 1
                    while e < n and block[e] != '"':
                        e += 2 if block[e] == '\\' else 1
                elif ch in "([{": depth += 1
                elif ch in ")]}": depth -= 1
                elif ch == "," and depth == 0: break
                e += 1
            rhs = block[k:e].strip()
            i = e + 1
        arms.append((pat, rhs))
    return arms

# ---------------------------------------------------------------- T5 handshake / record dispatch
HS_BODIES = {
    "parse_tls_handshake_msg_hello_request(raw_msg)": "HB_hello_request",
    "parse_tls_handshake_msg_client_hello(raw_msg)": "HB_client_hello",
    "parse_tls_handshake_msg_server_hello(raw_msg)": "HB_server_hello",
    "parse_tls_handshake_msg_newsessionticket(raw_msg,hlasusize)": "HB_newsessionticket",
    "Ok((raw_msg,TlsMessageHandshake::EndOfEarlyData))": "HB_end_of_early_data",
    "parse_tls_handshake_msg_hello_retry_request(raw_msg)": "HB_hello_retry_request",
    "parse_tls_handshake_msg_certificate(raw_msg)": "HB_certificate",
    "parse_tls_handshake_msg_serverkeyexchange(raw_msg,hlasusize)": "HB_serverkeyexchange",
    "parse_tls_handshake_msg_certificaterequest(raw_msg)": "HB_certificaterequest",
    "parse_tls_handshake_msg_serverdone(raw_msg,hlasusize)": "HB_serverdone",
    "parse_tls_handshake_msg_certificateverify(raw_msg,hlasusize)": "HB_certificateverify",
    "parse_tls_handshake_msg_clientkeyexchange(raw_msg,hlasusize)": "HB_clientkeyexchange",
    "parse_tls_handshake_msg_finished(raw_msg,hlasusize)": "HB_finished",
    "parse_tls_handshake_msg_certificatestatus(raw_msg)": "HB_certificatestatus",
    "parse_tls_handshake_msg_key_update(raw_msg)": "HB_key_update",
    "parse_tls_handshake_msg_next_protocol(raw_msg)": "HB_next_protocol",
}
SWITCH_ERR = "Err(Err::Error(make_error(i,ErrorKind::Switch)))"
TAG_ERR = "Err(Err::Error(make_error(i,ErrorKind::Tag)))"

def const_pat(pat, ty, consts, where):
    m = re.fullmatch(ty + r"::([A-Za-z_][A-Za-z0-9_]*)", nows(pat))
    if not m or (ty, m.group(1)) not in consts:
        raise Untranslatable("%s: pattern %r is not a %s constant" % (where, pat, ty))
    return consts[(ty, m.group(1))]

def t5_handshake(consts):
    src = strip_comments(read("src/tls_handshake.rs"))
    body = fn_body(src, "parse_tls_message_handshake", "src/tls_handshake.rs")
    pre = nows(body.split("match")[0])
    expect_pre = "let(i,ht)=be_u8(i)?;let(i,hl)=be_u24(i)?;let(i,raw_msg)=take(hl)(i)?;let(_,msg)="
    if pre != expect_pre:
        raise Untranslatable("src/tls_handshake.rs: parse_tls_message_handshake prologue changed: %r" % pre)
    block, post = find_match(body, r"TlsHandshakeType\(ht\)", "parse_tls_message_handshake")
    if nows(post) != "?;Ok((i,TlsMessage::Handshake(msg)))":
        raise Untranslatable("src/tls_handshake.rs: parse_tls_message_handshake epilogue changed: %r" % nows(post))
    rows, seen_default = [], False
    for pat, rhs in match_arms(block, "parse_tls_message_handshake"):
        r = nows(rhs)
        if nows(pat) == "_":
            if r != SWITCH_ERR: raise Untranslatable("handshake dispatch: default arm %r" % rhs)
            seen_default = True
            continue
        if seen_default: raise Untranslatable("handshake dispatch: arm after default")
        v = const_pat(pat, "TlsHandshakeType", consts, "handshake dispatch")
        if r not in HS_BODIES: raise Untranslatable("handshake dispatch: body %r not recognised" % rhs)
        rows.append((v, HS_BODIES[r]))
    if not seen_default: raise Untranslatable("handshake dispatch: no default arm")
    # ServerHello version tables
    def sh_table(fname, forms):
        b = fn_body(src, fname, "src/tls_handshake.rs")
        if nows(b.split("match")[0]) != "let(_,version)=be_u16(i)?;":
            raise Untranslatable("%s prologue changed" % fname)
        blk, post = find_match(b, r"version", fname)
        if nows(post) != "": raise Untranslatable("%s epilogue changed" % fname)
        out, dflt = [], False
        for pat, rhs in match_arms(blk, fname):
            r = nows(rhs)
            if nows(pat) == "_":
                if r != TAG_ERR: raise Untranslatable("%s: default arm %r" % (fname, rhs))
                dflt = True; continue
            if dflt: raise Untranslatable("%s: arm after default" % fname)
            if r not in forms: raise Untranslatable("%s: arm body %r" % (fname, rhs))
            out.append((eval_int(pat, fname), forms[r]))
        if not dflt: raise Untranslatable("%s: no default arm" % fname)
        return out
    sh = sh_table("parse_tls_handshake_server_hello", {
        "parse_tls_server_hello_tlsv12::<true>(i)": "ShV12 true",
        "parse_tls_server_hello_tlsv12::<false>(i)": "ShV12 false"})
    shm = sh_table("parse_tls_handshake_msg_server_hello", {
        "parse_tls_handshake_msg_server_hello_tlsv13draft18(i)": "ShV13Draft18",
        "parse_tls_handshake_msg_server_hello_tlsv12::<true>(i)": "ShV12 true",
        "parse_tls_handshake_msg_server_hello_tlsv12::<false>(i)": "ShV12 false"})
    return rows, sh, shm

REC_BODIES = {
    "many1(complete(parse_tls_message_changecipherspec))(i)": "RB_many1_ccs",
    "many1(complete(parse_tls_message_alert))(i)": "RB_many1_alert",
    "many1(complete(parse_tls_message_handshake))(i)": "RB_many1_handshake",
    "many1(complete(parse_tls_message_applicationdata))(i)": "RB_many1_appdata",
    "parse_tls_message_heartbeat(i,hdr.len)": "RB_heartbeat",
    "map(parse_tls_message_applicationdata,|m|vec![m])(i)": "RB_once_appdata",
    "complete(|i|parse_tls_message_heartbeat(i,hdr.len))(i)": "RB_complete_heartbeat",
}
def t5_record(consts):
    src = strip_comments(read("src/tls_record.rs"))
    body = fn_body(src, "parse_tls_record_with_header", "src/tls_record.rs")
    if nows(body.split("match")[0]) != "":
        raise Untranslatable("parse_tls_record_with_header prologue changed")
    blk, post = find_match(body, r"hdr\.record_type", "parse_tls_record_with_header")
    if nows(post) != "": raise Untranslatable("parse_tls_record_with_header epilogue changed")
    rows, dflt = [], False
    for pat, rhs in match_arms(blk, "parse_tls_record_with_header"):
        r = nows(rhs)
        if nows(pat) == "_":
            if r != SWITCH_ERR: raise Untranslatable("record dispatch: default arm %r" % rhs)
            dflt = True; continue
        if dflt: raise Untranslatable("record dispatch: arm after default")
        v = const_pat(pat, "TlsRecordType", consts, "record dispatch")
        if r not in REC_BODIES: raise Untranslatable("record dispatch: body %r not recognised" % rhs)
        rows.append((v, REC_BODIES[r]))
    if not dflt: raise Untranslatable("record dispatch: no default arm")
    return rows

DTLS_REC_BODIES = {
    "many1(complete(parse_dtls_message_changecipherspec))(i)": "DRB_many1_ccs",
    "many1(complete(parse_dtls_message_alert))(i)": "DRB_many1_alert",
    "many1(complete(parse_dtls_message_handshake))(i)": "DRB_many1_handshake",
}
DTLS_HS_BODIES = {
    "parse_dtls_client_hello(raw_msg)": "DHB_client_hello",
    "parse_dtls_hello_verify_request(raw_msg)": "DHB_hello_verify_request",
    "parse_dtls_handshake_msg_server_hello_tlsv12(raw_msg)": "DHB_server_hello",
    "parse_dtls_handshake_msg_serverdone(raw_msg,lengthasusize)": "DHB_serverdone",
    "parse_dtls_handshake_msg_clientkeyexchange(raw_msg,lengthasusize)": "DHB_clientkeyexchange",
    "parse_dtls_handshake_msg_certificate(raw_msg)": "DHB_certificate",
}
def t5_dtls(consts):
    src = strip_comments(read("src/dtls.rs"))
    body = fn_body(src, "parse_dtls_record_with_header", "src/dtls.rs")
    if nows(body.split("match")[0]) != "":
        raise Untranslatable("parse_dtls_record_with_header prologue changed")
    blk, post = find_match(body, r"hdr\.content_type", "parse_dtls_record_with_header")
    if nows(post) != "": raise Untranslatable("parse_dtls_record_with_header epilogue changed")
    rec, dflt = [], False
    for pat, rhs in match_arms(blk, "parse_dtls_record_with_header"):
        r = nows(rhs)
        if nows(pat) == "_":
            if r != SWITCH_ERR: raise Untranslatable("dtls record dispatch: default arm %r" % rhs)
            dflt = True; continue
        if dflt: raise Untranslatable("dtls record dispatch: arm after default")
        v = const_pat(pat, "TlsRecordType", consts, "dtls record dispatch")
        if r not in DTLS_REC_BODIES: raise Untranslatable("dtls record dispatch: body %r" % rhs)
        rec.append((v, DTLS_REC_BODIES[r]))
    if not dflt: raise Untranslatable("dtls record dispatch: no default arm")
    body = fn_body(src, "parse_dtls_message_handshake", "src/dtls.rs")
    pre = nows(body.split("let (_, body) = match")[0]) if "let (_, body) = match" in body else None
    exp = ("let(i,msg_type)=map(be_u8,TlsHandshakeType)(i)?;let(i,length)=be_u24(i)?;let(i,message_seq)=be_u16(i)?;"
           "let(i,fragment_offset)=be_u24(i)?;let(i,fragment_length)=be_u24(i)?;let(i,raw_msg)=take(fragment_length)(i)?;"
           "letis_fragment=fragment_offset>0||fragment_length<length;")
    if pre != exp: raise Untranslatable("parse_dtls_message_handshake prologue changed: %r" % pre)
    blk, post = find_match(body, r"msg_type", "parse_dtls_message_handshake")
    exp_post = ("?;letmsg=DTLSMessageHandshake{msg_type,length,message_seq,fragment_offset,fragment_length,body,};"
                "Ok((i,DTLSMessage::Handshake(msg)))")
    if nows(post) != exp_post: raise Untranslatable("parse_dtls_message_handshake epilogue changed: %r" % nows(post))
    arms = match_arms(blk, "parse_dtls_message_handshake")
    if not arms or nows(arms[0][0]) != "_ifis_fragment" or nows(arms[0][1]) != "parse_dtls_fragment(raw_msg)":
        raise Untranslatable("parse_dtls_message_handshake: first arm is not the fragment arm")
    hs, dflt = [], False
    for pat, rhs in arms[1:]:
        r = nows(rhs)
        if nows(pat) == "_":
            if r != SWITCH_ERR: raise Untranslatable("dtls handshake dispatch: default arm %r" % rhs)
            dflt = True; continue
        if dflt: raise Untranslatable("dtls handshake dispatch: arm after default")
        v = const_pat(pat, "TlsHandshakeType", consts, "dtls handshake dispatch")
        if r not in DTLS_HS_BODIES: raise Untranslatable("dtls handshake dispatch: body %r" % rhs)
        hs.append((v, DTLS_HS_BODIES[r]))
    if not dflt: raise Untranslatable("dtls handshake dispatch: no default arm")
    return rec, hs

# ---------------------------------------------------------------- T5 extensions
EXT_CONTENT = {  # normalised call -> id
    "parse_tls_extension_sni_content(ext_data)": "XC_sni",
    "parse_tls_extension_max_fragment_length_content(ext_data)": "XC_max_fragment_length",
    "parse_tls_extension_status_request_content(ext_data,ext_len)": "XC_status_request",
    "parse_tls_extension_elliptic_curves_content(ext_data)": "XC_elliptic_curves",
    "parse_tls_extension_ec_point_formats_content(ext_data)": "XC_ec_point_formats",
    "parse_tls_extension_signature_algorithms_content(ext_data)": "XC_signature_algorithms",
    "parse_tls_extension_heartbeat_content(ext_data)": "XC_heartbeat",
    "parse_tls_extension_alpn_content(ext_data)": "XC_alpn",
    "parse_tls_extension_signed_certificate_timestamp_content(ext_data)": "XC_signed_certificate_timestamp",
    "parse_tls_extension_padding_content(ext_data,ext_len)": "XC_padding",
    "parse_tls_extension_encrypt_then_mac_content(ext_data,ext_len)": "XC_encrypt_then_mac",
    "parse_tls_extension_extended_master_secret_content(ext_data,ext_len)": "XC_extended_master_secret",
    "parse_tls_extension_record_size_limit(ext_data)": "XC_record_size_limit",
    "parse_tls_extension_session_ticket_content(ext_data,ext_len)": "XC_session_ticket",
    "parse_tls_extension_key_share_old_content(ext_data,ext_len)": "XC_key_share_old",
    "parse_tls_extension_pre_shared_key_content(ext_data,ext_len)": "XC_pre_shared_key",
    "parse_tls_extension_early_data_content(ext_data,ext_len)": "XC_early_data",
    "parse_tls_extension_supported_versions_content(ext_data,ext_len)": "XC_supported_versions",
    "parse_tls_extension_cookie_content(ext_data,ext_len)": "XC_cookie",
    "parse_tls_extension_psk_key_exchange_modes_content(ext_data)": "XC_psk_key_exchange_modes",
    "parse_tls_extension_oid_filters(ext_data)": "XC_oid_filters",
    "parse_tls_extension_post_handshake_auth_content(ext_data,ext_len)": "XC_post_handshake_auth",
    "parse_tls_extension_key_share_content(ext_data,ext_len)": "XC_key_share",
    "parse_tls_extension_npn_content(ext_data,ext_len)": "XC_npn",
    "parse_tls_extension_renegotiation_info_content(ext_data)": "XC_renegotiation_info",
    "parse_tls_extension_encrypted_server_name(ext_data)": "XC_encrypted_server_name",
}
EXT_UNKNOWN = "Ok((i,TlsExtension::Unknown(TlsExtensionType(ext_type),ext_data),))"
EXT_PRE = ("let(i,ext_type)=be_u16(i)?;let(i,ext_data)=length_data(be_u16)(i)?;"
           "ifext_type&MASK==VALSAME{returnOk((i,TlsExtension::Grease(ext_type,ext_data)));}"
           "letext_len=ext_data.len()asu16;let(_,ext)=")
# optional second conjunct of the GREASE test: both bytes of the type are equal (RFC 8701)
EXT_SAME = "&&ext_type>>8==ext_type&0xff"
def t5_ext_dispatch(fname):
    src = strip_comments(read("src/tls_extensions.rs"))
    body = fn_body(src, fname, "src/tls_extensions.rs")
    pre = nows(body.split("match ext_type")[0])
    # the GREASE condition may have been moved into a helper `fn <name>(x: u16) -> bool { <expr> }`: inline it
    mh = re.search(r"if(\w+)\(ext_type\)\{returnOk\(\(i,TlsExtension::Grease", pre)
    if mh:
        mp = re.search(r"fn\s+%s\s*\(\s*(\w+)\s*:\s*u16\s*\)\s*->\s*bool" % re.escape(mh.group(1)), src)
        if not mp: raise Untranslatable("%s: GREASE helper %s has an unexpected signature" % (fname, mh.group(1)))
        expr = re.sub(r"\b%s\b" % re.escape(mp.group(1)), "ext_type", fn_body(src, mh.group(1), "src/tls_extensions.rs"))
        pre = pre.replace("if%s(ext_type){" % mh.group(1), "if%s{" % nows(expr), 1)
    # the two locals may be renamed: bring them back to the canonical names ext_data / ext_len
    mr = re.search(r"let\(i,(\w+)\)=length_data\(be_u16\)\(i\)\?;", pre)
    ml = re.search(r"let(\w+)=(\w+)\.len\(\)asu16;", pre)
    if mr and ml and ml.group(2) == mr.group(1) and (mr.group(1), ml.group(1)) != ("ext_data", "ext_len"):
        ren = {mr.group(1): "ext_data", ml.group(1): "ext_len"}
        def rn(txt): return re.sub(r"\b(%s)\b" % "|".join(map(re.escape, ren)), lambda m_: ren[m_.group(1)], txt)
        # identifiers are glued after nows(): rename on the spaced body, then recompute
        body = rn(body); pre = nows(body.split("match ext_type")[0])
        if mh:
            pre = pre.replace("if%s(ext_type){" % mh.group(1), "if%s{" % nows(expr), 1)
    m = re.fullmatch(re.escape(EXT_PRE).replace("MASK", "(0x[0-9a-fA-F_]+|[0-9_]+)").replace("VALSAME", "(0x[0-9a-fA-F_]+|[0-9_]+)(" + re.escape(EXT_SAME) + ")?"), pre)
    if not m: raise Untranslatable("%s prologue changed: %r" % (fname, pre))
    mask, val, same = eval_int(m.group(1), fname), eval_int(m.group(2), fname), bool(m.group(3))
    blk, post = find_match(body, r"ext_type", fname)
    if nows(post) != "?;Ok((i,ext))": raise Untranslatable("%s epilogue changed: %r" % (fname, nows(post)))
    rows, dflt = [], False
    for pat, rhs in match_arms(blk, fname):
        r = nows(rhs)
        if nows(pat) == "_":
            if r.replace(",)", ")") != EXT_UNKNOWN.replace(",)", ")"):
                raise Untranslatable("%s: default arm %r" % (fname, rhs))
            dflt = True; continue
        if dflt: raise Untranslatable("%s: arm after default" % fname)
        if r not in EXT_CONTENT: raise Untranslatable("%s: arm body %r" % (fname, rhs))
        rows.append((eval_int(pat, fname), EXT_CONTENT[r]))
    if not dflt: raise Untranslatable("%s: no default arm" % fname)
    return mask, val, same, rows

TAG_PARSERS = ["sni", "max_fragment_length", "status_request", "elliptic_curves", "ec_point_formats",
               "signature_algorithms", "heartbeat", "encrypt_then_mac", "extended_master_secret",
               "session_ticket", "key_share", "pre_shared_key", "early_data", "supported_versions",
               "cookie", "psk_key_exchange_modes"]
def t5_tags():
    src = strip_comments(read("src/tls_extensions.rs"))
    out = []
    for nm in TAG_PARSERS:
        fname = "parse_tls_extension_" + nm
        b = nows(fn_body(src, fname, "src/tls_extensions.rs"))
        m = re.match(r"let\(i,_\)=tag\(\[([^\]]*)\]\)\(i\)\?;", b)
        if not m: raise Untranslatable("%s: tag line not found: %r" % (fname, b[:60]))
        parts = m.group(1).split(",")
        if len(parts) != 2: raise Untranslatable("%s: tag is not 2 bytes" % fname)
        hi, lo = eval_int(parts[0], fname), eval_int(parts[1], fname)
        out.append((nm, hi * 256 + lo, b[m.end():]))
    return out

def fmt_rows(rows):
    return "[" + "; ".join("(%d, %s)" % (k, v) for k, v in rows) + "]"

def gen_dispatch(consts):
    hs, sh, shm = t5_handshake(consts)
    rec = t5_record(consts)
    drec, dhs = t5_dtls(consts)
    L = ["(* GENERATED by tools/translate.py (T5) from the dispatch `match` blocks of /repo/src -- do not edit *)",
         "From TlsModel Require Import DispatchTypes.", "Open Scope N_scope.",
         "Definition hs_table : list (N * hs_body_id) := %s." % fmt_rows(hs),
         "Definition sh_versions : list (N * sh_form) := %s." % fmt_rows([(k, "(%s)" % v if " " in v else v) for k, v in sh]),
         "Definition sh_msg_versions : list (N * sh_form) := %s." % fmt_rows([(k, "(%s)" % v if " " in v else v) for k, v in shm]),
         "Definition rec_table : list (N * rec_body_id) := %s." % fmt_rows(rec),
         "Definition dtls_rec_table : list (N * dtls_rec_body_id) := %s." % fmt_rows(drec),
         "Definition dtls_hs_table : list (N * dtls_hs_body_id) := %s." % fmt_rows(dhs)]
    masks = set()
    for short, fname in (("generic", "parse_tls_extension"), ("client", "parse_tls_client_hello_extension"),
                         ("server", "parse_tls_server_hello_extension")):
        mask, val, same, rows = t5_ext_dispatch(fname)
        masks.add((mask, val, same))
        L.append("Definition %s_table : list (N * ext_content_id) := %s." % (short, fmt_rows(rows)))
    if len(masks) != 1: raise Untranslatable("the three dispatchers use different GREASE tests: %r" % masks)
    mask, val, same = masks.pop()
    L.append("Definition grease_mask : N := %d.\nDefinition grease_val : N := %d." % (mask, val))
    L.append("(* the GREASE test also requires both bytes of the type to be equal *)\nDefinition grease_same_bytes : bool := %s." % ("true" if same else "false"))
    tags = t5_tags()
    L.append("Definition tag_of_%s : N := %d." % ("x", 0) if False else "")
    for nm, v, _ in tags:
        L.append("Definition tag_%s : N := %d." % (nm, v))
    return "\n".join(x for x in L if x != "") + "\n"

# ---------------------------------------------------------------- driver
def write_if_changed(name, content):
    os.makedirs(OUT, exist_ok=True)
    p = os.path.join(OUT, name)
    old = None
    if os.path.exists(p):
        with open(p) as f: old = f.read()
    if old != content:
        with open(p, "w") as f: f.write(content)
        return True
    return False

def main():
    status = {}
    rc = 0
    enums = None
    def step(key, files, fn):
        nonlocal rc
        try:
            outs = fn()
            for fname, content in outs.items():
                changed = write_if_changed(fname, content)
                status[fname] = "changed" if changed else "same"
        except Untranslatable as e:
            print("UNTRANSLATABLE %s: %s" % (key, e))
            status[key] = "untranslatable: %s" % e
            for f in files:
                if not os.path.exists(os.path.join(OUT, f)):
                    print("FATAL: no previous %s to fall back on" % f)
            rc = 3
    def do_t1():
        nonlocal enums
        enums = t1_newtype_enums()
        return {"ConstTables.v": gen_const_tables(enums)}
    step("T1", ["ConstTables.v"], do_t1)
    step("T4", ["Consts.v"], lambda: {"Consts.v": t4_consts()})
    if enums is not None:
        step("T5", ["Dispatch.v"], lambda: {"Dispatch.v": gen_dispatch(const_lookup(enums))})
    extra = os.path.join(os.path.dirname(os.path.abspath(__file__)), "translate_more.py")
    if os.path.exists(extra):
        import importlib.util
        spec = importlib.util.spec_from_file_location("translate_more", extra)
        mod = importlib.util.module_from_spec(spec); spec.loader.exec_module(mod)
        mod.run(sys.modules[__name__], step, enums)
    with open(os.path.join(OUT, "translate_status.json"), "w") as f:
        json.dump(status, f, indent=1)
    sys.exit(rc)

if __name__ == "__main__":
    main()
