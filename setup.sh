#!/bin/sh
# Build the framework from files on disk only (offline): regenerate the tables from
# /repo, full .vo build of the Coq development (no -vos), extraction + OCaml driver,
# and the Rust harness against /repo's working tree.
set -e
cd "$(dirname "$0")"
export CARGO_NET_OFFLINE=true
python3 tools/translate.py || echo "translate: some tables untranslatable (checks will report)"
python3 tools/t12.py || echo "t12: some parser functions untranslatable (checks will report)"
python3 tools/t13.py || echo "t13: some serializer functions untranslatable (checks will report)"
python3 - <<'PY'
import sys
sys.path.insert(0, "tools")
import vlib
ok, out, b = vlib.build_harness("default")
print("harness default:", "ok" if ok else out[-2000:])
if ok: print("registry dump:", vlib.dump_registry(b))
PY
cd coq
coq_makefile -f _CoqProject -o Makefile
timeout 7200 make -j16 || echo "coq: some files do not compile on this tree (checks will report)"
cd ..
python3 - <<'PY'
import sys, os
sys.path.insert(0, "tools")
import vlib
ok, out = vlib.build_model()
print("model:", "ok" if ok else out[-2000:])
for c in ("default", "nostd", "serialize"):
    ok, out, b = vlib.build_harness(c)
    print("harness", c, ":", "ok" if ok else out[-2000:])
PY
# source-level theorems (gen/Cxx_src.v): checked once here, in parallel; each check re-uses the result only while every
# .v file of the development (generated ones included) is byte-identical
python3 tools/t12.py > /dev/null || true
(cd coq && make -j16 gen/SrcTie.vo Proofs/SrcTieManual.vo > /dev/null 2>&1 || true)
export VERIF_T12_DONE=1
for p in C01 C02 C03 C04 C05 C06 C07 C09 C10 C11 C13 C14 C16; do echo $p; done | xargs -P 8 -I{} python3 -c "
import sys; sys.path.insert(0, 'tools'); import vlib
b, info = vlib.source_tie('{}'); print('source tie {}:', info.get('tied'), 'functions,', info.get('src_theorems_closed'), 'source-level theorems', b[:1])" || true
