//! Printers for the crate's value types (same shapes as coq/Model/Show.v).
use crate::sx::*;
use tls_parser::nom::{Err, IResult, Needed};
use tls_parser::*;

pub fn res<T>(ctx: &Ctx, r: IResult<&[u8], T>, f: impl Fn(&Ctx, &T) -> String) -> String {
    match r {
        Ok((rem, v)) => format!("(ok {} {})", at(ctx, rem), f(ctx, &v)),
        Err(Err::Error(e)) => format!("(err {:?} {})", e.code, at(ctx, e.input)),
        Err(Err::Failure(e)) => format!("(fail {:?} {})", e.code, at(ctx, e.input)),
        Err(Err::Incomplete(Needed::Unknown)) => "(inc ?)".to_string(),
        Err(Err::Incomplete(Needed::Size(k))) => format!("(inc {})", k),
    }
}

pub fn hdr(_c: &Ctx, h: &TlsRecordHeader) -> String {
    c("Hdr", &[n(h.record_type.0), n(h.version.0), n(h.len)])
}

fn osl(ctx: &Ctx, o: &Option<&[u8]>) -> String {
    opt(o, |s| slice(ctx, s))
}

pub fn ch(ctx: &Ctx, x: &TlsClientHelloContents) -> String {
    c("ClientHello", &[
        n(x.version.0), slice(ctx, x.random), osl(ctx, &x.session_id),
        list(&x.ciphers, |v| n(v.0)), list(&x.comp, |v| n(v.0)), osl(ctx, &x.ext),
    ])
}
pub fn sh(ctx: &Ctx, x: &TlsServerHelloContents) -> String {
    c("ServerHello", &[
        n(x.version.0), slice(ctx, x.random), osl(ctx, &x.session_id),
        n(x.cipher.0), n(x.compression.0), osl(ctx, &x.ext),
    ])
}
pub fn hrr(ctx: &Ctx, x: &TlsHelloRetryRequestContents) -> String {
    c("HelloRetryRequest", &[n(x.version.0), n(x.cipher.0), osl(ctx, &x.ext)])
}
pub fn cr(ctx: &Ctx, x: &TlsCertificateRequestContents) -> String {
    c("CertificateRequest", &[
        list(&x.cert_types, |v| n(*v)),
        opt(&x.sig_hash_algs, |l| list(l, |v| n(*v))),
        list(&x.unparsed_ca, |s| slice(ctx, s)),
    ])
}
pub fn cke(ctx: &Ctx, x: &TlsClientKeyExchangeContents) -> String {
    match x {
        TlsClientKeyExchangeContents::Dh(s) => c("Dh", &[slice(ctx, s)]),
        TlsClientKeyExchangeContents::Ecdh(p) => c("Ecdh", &[slice(ctx, p.point)]),
        TlsClientKeyExchangeContents::Unknown(s) => c("Unknown", &[slice(ctx, s)]),
        #[allow(unreachable_patterns)]
        _ => "(variant-unknown-to-the-harness)".to_string(),
    }
}
pub fn cstatus(ctx: &Ctx, x: &TlsCertificateStatusContents) -> String {
    c("CertificateStatus", &[n(x.status_type), slice(ctx, x.blob)])
}
pub fn nextproto(ctx: &Ctx, x: &TlsNextProtocolContent) -> String {
    c("NextProtocol", &[slice(ctx, x.selected_protocol), slice(ctx, x.padding)])
}
pub fn certs(ctx: &Ctx, x: &TlsCertificateContents) -> String {
    c("Certificate", &[list(&x.cert_chain, |r| slice(ctx, r.data))])
}
pub fn nst(ctx: &Ctx, x: &TlsNewSessionTicketContent) -> String {
    c("NewSessionTicket", &[n(x.ticket_lifetime_hint), slice(ctx, x.ticket)])
}

pub fn hs(ctx: &Ctx, h: &TlsMessageHandshake) -> String {
    use TlsMessageHandshake::*;
    match h {
        HelloRequest => c("HelloRequest", &[]),
        ClientHello(x) => ch(ctx, x),
        ServerHello(x) => sh(ctx, x),
        ServerHelloV13Draft18(x) => c("ServerHelloV13Draft18", &[
            n(x.version.0), slice(ctx, x.random), n(x.cipher.0), osl(ctx, &x.ext),
        ]),
        NewSessionTicket(x) => nst(ctx, x),
        EndOfEarlyData => c("EndOfEarlyData", &[]),
        HelloRetryRequest(x) => hrr(ctx, x),
        Certificate(x) => certs(ctx, x),
        ServerKeyExchange(x) => c("ServerKeyExchange", &[slice(ctx, x.parameters)]),
        CertificateRequest(x) => cr(ctx, x),
        ServerDone(s) => c("ServerDone", &[slice(ctx, s)]),
        CertificateVerify(s) => c("CertificateVerify", &[slice(ctx, s)]),
        ClientKeyExchange(x) => c("ClientKeyExchange", &[cke(ctx, x)]),
        Finished(s) => c("Finished", &[slice(ctx, s)]),
        CertificateStatus(x) => cstatus(ctx, x),
        NextProtocol(x) => nextproto(ctx, x),
        KeyUpdate(v) => c("KeyUpdate", &[n(*v)]),
        #[allow(unreachable_patterns)]
        _ => "(variant-unknown-to-the-harness)".to_string(),
    }
}

pub fn appdata(ctx: &Ctx, x: &TlsMessageApplicationData) -> String {
    c("ApplicationData", &[slice(ctx, x.blob)])
}
pub fn heartbeat(ctx: &Ctx, x: &TlsMessageHeartbeat) -> String {
    c("Heartbeat", &[n(x.heartbeat_type.0), n(x.payload_len), slice(ctx, x.payload)])
}
pub fn alert(x: &TlsMessageAlert) -> String {
    c("Alert", &[n(x.severity.0), n(x.code.0)])
}

pub fn msg(ctx: &Ctx, m: &TlsMessage) -> String {
    match m {
        TlsMessage::Handshake(h) => c("Handshake", &[hs(ctx, h)]),
        TlsMessage::ChangeCipherSpec => c("ChangeCipherSpec", &[]),
        TlsMessage::Alert(a) => alert(a),
        TlsMessage::ApplicationData(a) => appdata(ctx, a),
        TlsMessage::Heartbeat(h) => heartbeat(ctx, h),
        #[allow(unreachable_patterns)]
        _ => "(variant-unknown-to-the-harness)".to_string(),
    }
}
pub fn msgs(ctx: &Ctx, l: &Vec<TlsMessage>) -> String {
    list(l, |m| msg(ctx, m))
}
pub fn plain(ctx: &Ctx, p: &TlsPlaintext) -> String {
    c("Plaintext", &[hdr(ctx, &p.hdr), msgs(ctx, &p.msg)])
}
pub fn enc(ctx: &Ctx, p: &TlsEncrypted) -> String {
    c("Encrypted", &[hdr(ctx, &p.hdr), slice(ctx, p.msg.blob)])
}
pub fn raw(ctx: &Ctx, p: &TlsRawRecord) -> String {
    c("Raw", &[hdr(ctx, &p.hdr), slice(ctx, p.data)])
}

pub fn ext(ctx: &Ctx, e: &TlsExtension) -> String {
    use TlsExtension::*;
    match e {
        SNI(l) => c("SNI", &[list(l, |p| c("", &[n(p.0 .0), slice(ctx, p.1)]))]),
        MaxFragmentLength(v) => c("MaxFragmentLength", &[n(*v)]),
        StatusRequest(v) => c("StatusRequest", &[opt(v, |p| c("", &[n(p.0 .0), slice(ctx, p.1)]))]),
        EllipticCurves(l) => c("EllipticCurves", &[list(l, |g| n(g.0))]),
        EcPointFormats(s) => c("EcPointFormats", &[slice(ctx, s)]),
        SignatureAlgorithms(l) => c("SignatureAlgorithms", &[list(l, |v| n(*v))]),
        RecordSizeLimit(v) => c("RecordSizeLimit", &[n(*v)]),
        SessionTicket(s) => c("SessionTicket", &[slice(ctx, s)]),
        KeyShareOld(s) => c("KeyShareOld", &[slice(ctx, s)]),
        KeyShare(s) => c("KeyShare", &[slice(ctx, s)]),
        PreSharedKey(s) => c("PreSharedKey", &[slice(ctx, s)]),
        EarlyData(v) => c("EarlyData", &[opt(v, |x| n(*x))]),
        SupportedVersions(l) => c("SupportedVersions", &[list(l, |v| n(v.0))]),
        Cookie(s) => c("Cookie", &[slice(ctx, s)]),
        PskExchangeModes(l) => c("PskExchangeModes", &[owned(l)]),
        Heartbeat(v) => c("Heartbeat", &[n(*v)]),
        ALPN(l) => c("ALPN", &[list(l, |s| slice(ctx, s))]),
        SignedCertificateTimestamp(v) => c("SignedCertificateTimestamp", &[opt(v, |s| slice(ctx, s))]),
        Padding(s) => c("Padding", &[slice(ctx, s)]),
        EncryptThenMac => c("EncryptThenMac", &[]),
        ExtendedMasterSecret => c("ExtendedMasterSecret", &[]),
        OidFilters(l) => c("OidFilters", &[list(l, |f| c("", &[slice(ctx, f.cert_ext_oid), slice(ctx, f.cert_ext_val)]))]),
        PostHandshakeAuth => c("PostHandshakeAuth", &[]),
        NextProtocolNegotiation => c("NextProtocolNegotiation", &[]),
        RenegotiationInfo(s) => c("RenegotiationInfo", &[slice(ctx, s)]),
        EncryptedServerName { ciphersuite, group, key_share, record_digest, encrypted_sni } => c(
            "EncryptedServerName",
            &[n(ciphersuite.0), n(group.0), slice(ctx, key_share), slice(ctx, record_digest), slice(ctx, encrypted_sni)],
        ),
        Grease(t, s) => c("Grease", &[n(*t), slice(ctx, s)]),
        Unknown(t, s) => c("Unknown", &[n(t.0), slice(ctx, s)]),
        #[allow(unreachable_patterns)]
        _ => "(variant-unknown-to-the-harness)".to_string(),
    }
}
pub fn exts(ctx: &Ctx, l: &Vec<TlsExtension>) -> String {
    list(l, |e| ext(ctx, e))
}

pub fn dh(ctx: &Ctx, d: &ServerDHParams) -> String {
    c("DH", &[slice(ctx, d.dh_p), slice(ctx, d.dh_g), slice(ctx, d.dh_ys)])
}
pub fn ecc(ctx: &Ctx, x: &ECParametersContent) -> String {
    match x {
        ECParametersContent::ExplicitPrime(p) => c("ExplicitPrime", &[
            slice(ctx, p.prime_p), slice(ctx, p.curve.a), slice(ctx, p.curve.b), slice(ctx, p.base.point),
            slice(ctx, p.order), slice(ctx, p.cofactor),
        ]),
        ECParametersContent::NamedGroup(g) => c("NamedGroup", &[n(g.0)]),
        #[allow(unreachable_patterns)]
        _ => "(variant-unknown-to-the-harness)".to_string(),
    }
}
pub fn ecp(ctx: &Ctx, p: &ECParameters) -> String {
    c("ECParameters", &[n(p.curve_type.0), ecc(ctx, &p.params_content)])
}
pub fn ecdh(ctx: &Ctx, p: &ServerECDHParams) -> String {
    c("ECDH", &[ecp(ctx, &p.curve_params), slice(ctx, p.public.point)])
}
pub fn ds(ctx: &Ctx, d: &DigitallySigned) -> String {
    c("Signed", &[opt(&d.alg, |a| c("", &[n(a.hash.0), n(a.sign.0)])), slice(ctx, d.data)])
}
pub fn sct(ctx: &Ctx, s: &SignedCertificateTimestamp) -> String {
    c("SCT", &[n(s.version.0), slice(ctx, &s.id.key_id[..]), n(s.timestamp), slice(ctx, s.extensions.0), ds(ctx, &s.signature)])
}

pub fn dhdr(_c: &Ctx, h: &DTLSRecordHeader) -> String {
    c("DHdr", &[n(h.content_type.0), n(h.version.0), n(h.epoch), n(h.sequence_number), n(h.length)])
}
pub fn dbody(ctx: &Ctx, b: &DTLSMessageHandshakeBody) -> String {
    use DTLSMessageHandshakeBody::*;
    match b {
        HelloRequest => c("HelloRequest", &[]),
        ClientHello(x) => c("ClientHello", &[
            n(x.version.0), slice(ctx, x.random), osl(ctx, &x.session_id), slice(ctx, x.cookie),
            list(&x.ciphers, |v| n(v.0)), list(&x.comp, |v| n(v.0)), osl(ctx, &x.ext),
        ]),
        HelloVerifyRequest(x) => c("HelloVerifyRequest", &[n(x.server_version.0), slice(ctx, x.cookie)]),
        ServerHello(x) => sh(ctx, x),
        NewSessionTicket(x) => nst(ctx, x),
        HelloRetryRequest(x) => hrr(ctx, x),
        Certificate(x) => certs(ctx, x),
        ServerKeyExchange(x) => c("ServerKeyExchange", &[slice(ctx, x.parameters)]),
        CertificateRequest(x) => cr(ctx, x),
        ServerDone(s) => c("ServerDone", &[slice(ctx, s)]),
        CertificateVerify(s) => c("CertificateVerify", &[slice(ctx, s)]),
        ClientKeyExchange(x) => c("ClientKeyExchange", &[cke(ctx, x)]),
        Finished(s) => c("Finished", &[slice(ctx, s)]),
        CertificateStatus(x) => cstatus(ctx, x),
        NextProtocol(x) => nextproto(ctx, x),
        Fragment(s) => c("Fragment", &[slice(ctx, s)]),
        #[allow(unreachable_patterns)]
        _ => "(variant-unknown-to-the-harness)".to_string(),
    }
}
pub fn dmsg(ctx: &Ctx, m: &DTLSMessage) -> String {
    match m {
        DTLSMessage::Handshake(h) => c("Handshake", &[
            n(h.msg_type.0), n(h.length), n(h.message_seq), n(h.fragment_offset), n(h.fragment_length),
            dbody(ctx, &h.body),
            (if m.is_fragment() { "is_fragment" } else { "not_fragment" }).to_string(),
        ]),
        DTLSMessage::ChangeCipherSpec => c("ChangeCipherSpec", &[]),
        DTLSMessage::Alert(a) => alert(a),
        DTLSMessage::ApplicationData(a) => appdata(ctx, a),
        DTLSMessage::Heartbeat(h) => heartbeat(ctx, h),
        #[allow(unreachable_patterns)]
        _ => "(variant-unknown-to-the-harness)".to_string(),
    }
}
pub fn dmsgs(ctx: &Ctx, l: &Vec<DTLSMessage>) -> String {
    list(l, |m| dmsg(ctx, m))
}
pub fn dplain(ctx: &Ctx, p: &DTLSPlaintext) -> String {
    c("DPlaintext", &[dhdr(ctx, &p.header), dmsgs(ctx, &p.messages)])
}
