//! `@ser` lines: build a value from its description, serialize it with the real serializer, parse the
//! bytes back with the real parser and serialize the parsed value again.
#![cfg(feature = "serialize")]
use crate::show;
use crate::sx::{self, Ctx};
use tls_parser::*;

fn leak(v: Vec<u8>) -> &'static [u8] {
    Box::leak(v.into_boxed_slice())
}
fn hexv(t: &str) -> Vec<u8> {
    if t == "-" { return Vec::new(); }
    (0..t.len() / 2).map(|k| u8::from_str_radix(&t[2 * k..2 * k + 2], 16).unwrap_or(0)).collect()
}
fn opt(t: &str) -> Option<&'static [u8]> {
    if t == "N" { None } else { Some(leak(hexv(t))) }
}
fn nums(t: &str) -> Vec<u64> {
    if t == "-" { Vec::new() } else { t.split('.').map(|x| x.parse().unwrap_or(0)).collect() }
}
fn num(t: &str) -> u64 { t.parse().unwrap_or(0) }

fn read_msg(d: &str) -> TlsMessage<'static> {
    let a: Vec<&str> = d.split(',').collect();
    let f = |k: usize| -> &str { a.get(k).copied().unwrap_or("") };
    match f(0) {
        "ch" => TlsMessage::Handshake(TlsMessageHandshake::ClientHello(TlsClientHelloContents::new(
            num(f(1)) as u16, leak(hexv(f(2))), opt(f(3)),
            nums(f(4)).into_iter().map(|x| TlsCipherSuiteID(x as u16)).collect(),
            nums(f(5)).into_iter().map(|x| TlsCompressionID(x as u8)).collect(), opt(f(6))))),
        "sh" => TlsMessage::Handshake(TlsMessageHandshake::ServerHello(TlsServerHelloContents::new(
            num(f(1)) as u16, leak(hexv(f(2))), opt(f(3)), num(f(4)) as u16, num(f(5)) as u8, opt(f(6))))),
        "sh13" => TlsMessage::Handshake(TlsMessageHandshake::ServerHelloV13Draft18(TlsServerHelloV13Draft18Contents {
            version: TlsVersion(num(f(1)) as u16), random: leak(hexv(f(2))), cipher: TlsCipherSuiteID(num(f(3)) as u16), ext: opt(f(4)) })),
        "cke" => {
            let b = leak(hexv(f(2)));
            TlsMessage::Handshake(TlsMessageHandshake::ClientKeyExchange(match f(1) {
                "d" => TlsClientKeyExchangeContents::Dh(b),
                "e" => TlsClientKeyExchangeContents::Ecdh(ECPoint { point: b }),
                _ => TlsClientKeyExchangeContents::Unknown(b),
            }))
        }
        "fin" => TlsMessage::Handshake(TlsMessageHandshake::Finished(leak(hexv(f(1))))),
        "hr" => TlsMessage::Handshake(TlsMessageHandshake::HelloRequest),
        "ccs" => TlsMessage::ChangeCipherSpec,
        "alert" => TlsMessage::Alert(TlsMessageAlert { severity: TlsAlertSeverity(1), code: TlsAlertDescription(0) }),
        "app" => TlsMessage::ApplicationData(TlsMessageApplicationData { blob: leak(vec![1]) }),
        _ => TlsMessage::Handshake(TlsMessageHandshake::Certificate(TlsCertificateContents { cert_chain: vec![] })),
    }
}

fn read_ext(d: &str) -> TlsExtension<'static> {
    let a: Vec<&str> = d.split(',').collect();
    let f = |k: usize| -> &str { a.get(k).copied().unwrap_or("") };
    match f(0) {
        "sni" => TlsExtension::SNI(if f(1) == "-" { vec![] } else {
            f(1).split('.').map(|e| { let p: Vec<&str> = e.split(':').collect();
                (SNIType(num(p.get(0).copied().unwrap_or("0")) as u8), leak(hexv(p.get(1).copied().unwrap_or("-")))) }).collect() }),
        "mfl" => TlsExtension::MaxFragmentLength(num(f(1)) as u8),
        "groups" => TlsExtension::EllipticCurves(nums(f(1)).into_iter().map(|g| NamedGroup(g as u16)).collect()),
        _ => TlsExtension::Heartbeat(1),
    }
}

fn out(r: Result<Vec<u8>, GenError>, reparse: impl Fn(&[u8]) -> (String, Option<Result<Vec<u8>, GenError>>)) -> String {
    match r {
        Ok(b) => {
            let (p, rs) = reparse(&b);
            let rs = match rs { Some(Ok(b2)) => if b2 == b { "same" } else { "diff" }, Some(Err(_)) => "nyi", None => "nyi" };
            let mut h = String::new();
            if b.is_empty() { h.push('-') } else { sx::hex(&mut h, &b) }
            format!("(ser {} | {} | reser {})", h, p, rs)
        }
        Err(GenError::NotYetImplemented) => "(nyi)".to_string(),
        Err(e) => format!("(generr {:?})", e),
    }
}

pub fn run_ser(toks: &[String]) -> String {
    let f = |k: usize| -> &str { toks.get(k).map(|s| s.as_str()).unwrap_or("") };
    match f(0) {
        "msg" => {
            let m = read_msg(f(1));
            let is_ccs = matches!(m, TlsMessage::ChangeCipherSpec);
            out(m.serialize(), |b| {
                let ctx = Ctx::of(b);
                let r = if is_ccs { parse_tls_message_changecipherspec(b) } else { parse_tls_message_handshake(b) };
                let rs = r.as_ref().ok().map(|(_, v)| v.serialize());
                (show::res(&ctx, r, show::msg), rs)
            })
        }
        "rec" => {
            let msgs: Vec<TlsMessage> = f(3).split(';').map(read_msg).collect();
            let p = TlsPlaintext { hdr: TlsRecordHeader { record_type: TlsRecordType(num(f(1)) as u8), version: TlsVersion(num(f(2)) as u16), len: 0 }, msg: msgs };
            out(p.serialize(), |b| {
                let ctx = Ctx::of(b);
                let r = parse_tls_plaintext(b);
                let rs = r.as_ref().ok().map(|(_, v)| v.serialize());
                (show::res(&ctx, r, show::plain), rs)
            })
        }
        "ext" => {
            let e = read_ext(f(1));
            out(cookie_factory::gen_simple(gen_tls_extension(&e), Vec::new()), |b| {
                let ctx = Ctx::of(b);
                let r = parse_tls_extension(b);
                let rs = r.as_ref().ok().map(|(_, v)| cookie_factory::gen_simple(gen_tls_extension(v), Vec::new()));
                (show::res(&ctx, r, show::ext), rs)
            })
        }
        _ => {
            let es: Vec<TlsExtension> = if f(1) == "-" { vec![] } else { f(1).split(';').map(read_ext).collect() };
            out(cookie_factory::gen_simple(gen_tls_extensions(&es), Vec::new()), |b| {
                let ctx = Ctx::of(b);
                // u16 block length, then the list parser on exactly that block
                let r = tls_parser::nom::combinator::map_parser(
                    tls_parser::nom::multi::length_data(tls_parser::nom::number::streaming::be_u16), parse_tls_extensions)(b);
                let rs = r.as_ref().ok().map(|(_, v)| cookie_factory::gen_simple(gen_tls_extensions(v), Vec::new()));
                (show::res(&ctx, r, show::exts), rs)
            })
        }
    }
}
