//! Correspondence harness: runs the real tls-parser on the case lines the
//! Coq model runs on and prints results in the same canonical grammar.
//!   <entry> <decimal arg>* <hex input | ->
mod show;
/// compile-time Send + Sync assertions generated from the crate's public types (C18)
mod traits_gen {
    include!(concat!(env!("VERIF_GEN_DIR"), "/assert_traits.rs"));
}
mod sx;
#[path = "more.rs"]
mod more;
mod ser;

use std::alloc::{GlobalAlloc, Layout, System};
use std::io::{BufRead, Write};
use std::sync::atomic::{AtomicU64, AtomicUsize, Ordering};
use sx::Ctx;
use tls_parser::*;

// ---- counting allocator (C01: heap use is linear in the input) ----
struct Counting;
static CUR: AtomicUsize = AtomicUsize::new(0);
static PEAK: AtomicUsize = AtomicUsize::new(0);
unsafe impl GlobalAlloc for Counting {
    unsafe fn alloc(&self, l: Layout) -> *mut u8 {
        let p = System.alloc(l);
        if !p.is_null() {
            let c = CUR.fetch_add(l.size(), Ordering::Relaxed) + l.size();
            PEAK.fetch_max(c, Ordering::Relaxed);
        }
        p
    }
    unsafe fn dealloc(&self, p: *mut u8, l: Layout) {
        CUR.fetch_sub(l.size(), Ordering::Relaxed);
        System.dealloc(p, l)
    }
    unsafe fn realloc(&self, p: *mut u8, l: Layout, new: usize) -> *mut u8 {
        let q = System.realloc(p, l, new);
        if !q.is_null() {
            if new >= l.size() {
                let c = CUR.fetch_add(new - l.size(), Ordering::Relaxed) + (new - l.size());
                PEAK.fetch_max(c, Ordering::Relaxed);
            } else {
                CUR.fetch_sub(l.size() - new, Ordering::Relaxed);
            }
        }
        q
    }
}
#[global_allocator]
static A: Counting = Counting;

static BASE: AtomicUsize = AtomicUsize::new(0);
static PARSE_PEAK: AtomicUsize = AtomicUsize::new(usize::MAX);
/// called right after the parser returned, before any formatting: the heap peak of the call itself
pub fn parse_done() {
    if PARSE_PEAK.load(Ordering::Relaxed) == usize::MAX {
        PARSE_PEAK.store(PEAK.load(Ordering::Relaxed).saturating_sub(BASE.load(Ordering::Relaxed)), Ordering::Relaxed);
    }
}

static CASE_NO: AtomicU64 = AtomicU64::new(0);
static CASE_START_MS: AtomicU64 = AtomicU64::new(0);

fn unhex(s: &str) -> Vec<u8> {
    if s == "-" {
        return Vec::new();
    }
    let b = s.as_bytes();
    let d = |c: u8| -> u8 {
        match c {
            b'0'..=b'9' => c - b'0',
            b'a'..=b'f' => c - b'a' + 10,
            b'A'..=b'F' => c - b'A' + 10,
            _ => 0,
        }
    };
    (0..b.len() / 2).map(|k| d(b[2 * k]) * 16 + d(b[2 * k + 1])).collect()
}

/// show a parse result and exercise Debug formatting of the value (C01)
macro_rules! p {
    ($ctx:expr, $r:expr, $f:expr) => {{
        let r = $r;
        crate::parse_done();
        // Debug formatting of whatever was returned, value or error (C01)
        let _ = format!("{:?}", r);
        show::res($ctx, r, $f)
    }};
}

fn run_entry(name: &str, a: &[u64], i: &[u8]) -> Option<String> {
    let ctx = &Ctx::of(i);
    let u = |k: usize| -> usize { a.get(k).copied().unwrap_or(0) as usize };
    Some(match name {
        "parse_tls_record_header" => p!(ctx, parse_tls_record_header(i), show::hdr),
        "parse_tls_record_with_header" => {
            let h = TlsRecordHeader {
                record_type: TlsRecordType(u(0) as u8),
                version: TlsVersion(u(1) as u16),
                len: u(2) as u16,
            };
            p!(ctx, parse_tls_record_with_header(i, &h), show::msgs)
        }
        "parse_tls_plaintext" => p!(ctx, parse_tls_plaintext(i), show::plain),
        "parse_tls_encrypted" => p!(ctx, parse_tls_encrypted(i), show::enc),
        "parse_tls_raw_record" => p!(ctx, parse_tls_raw_record(i), show::raw),
        #[allow(deprecated)]
        "tls_parser" => p!(ctx, tls_parser(i), show::plain),
        "tls_parser_many" => p!(ctx, tls_parser_many(i), |c, l| sx::list(l, |x| show::plain(c, x))),
        "parse_tls_message_changecipherspec" => p!(ctx, parse_tls_message_changecipherspec(i), show::msg),
        "parse_tls_message_alert" => p!(ctx, parse_tls_message_alert(i), show::msg),
        "parse_tls_message_applicationdata" => p!(ctx, parse_tls_message_applicationdata(i), show::msg),
        "parse_tls_message_heartbeat" => p!(ctx, parse_tls_message_heartbeat(i, u(0) as u16), show::msgs),
        "parse_tls_message_handshake" => p!(ctx, parse_tls_message_handshake(i), show::msg),
        "parse_tls_handshake_client_hello" => p!(ctx, parse_tls_handshake_client_hello(i), show::ch),
        "parse_tls_handshake_server_hello" => p!(ctx, parse_tls_handshake_server_hello(i), show::sh),
        "parse_tls_handshake_certificaterequest" => p!(ctx, parse_tls_handshake_certificaterequest(i), show::cr),
        "parse_tls_handshake_certificatestatus" => p!(ctx, parse_tls_handshake_certificatestatus(i), show::cstatus),
        "parse_tls_handshake_next_protocol" => p!(ctx, parse_tls_handshake_next_protocol(i), show::nextproto),
        "parse_tls_handshake_msg_hello_request" => p!(ctx, parse_tls_handshake_msg_hello_request(i), show::hs),
        "parse_tls_handshake_msg_client_hello" => p!(ctx, parse_tls_handshake_msg_client_hello(i), show::hs),
        "parse_tls_handshake_msg_server_hello" => p!(ctx, parse_tls_handshake_msg_server_hello(i), show::hs),
        "parse_tls_handshake_msg_newsessionticket" => p!(ctx, parse_tls_handshake_msg_newsessionticket(i, u(0)), show::hs),
        "parse_tls_handshake_msg_hello_retry_request" => p!(ctx, parse_tls_handshake_msg_hello_retry_request(i), show::hs),
        "parse_tls_handshake_msg_certificate" => p!(ctx, parse_tls_handshake_msg_certificate(i), show::hs),
        "parse_tls_handshake_msg_serverkeyexchange" => p!(ctx, parse_tls_handshake_msg_serverkeyexchange(i, u(0)), show::hs),
        "parse_tls_handshake_msg_serverdone" => p!(ctx, parse_tls_handshake_msg_serverdone(i, u(0)), show::hs),
        "parse_tls_handshake_msg_certificateverify" => p!(ctx, parse_tls_handshake_msg_certificateverify(i, u(0)), show::hs),
        "parse_tls_handshake_msg_clientkeyexchange" => p!(ctx, parse_tls_handshake_msg_clientkeyexchange(i, u(0)), show::hs),
        "parse_tls_handshake_msg_certificaterequest" => p!(ctx, parse_tls_handshake_msg_certificaterequest(i), show::hs),
        "parse_tls_handshake_msg_finished" => p!(ctx, parse_tls_handshake_msg_finished(i, u(0)), show::hs),
        "parse_tls_handshake_msg_certificatestatus" => p!(ctx, parse_tls_handshake_msg_certificatestatus(i), show::hs),
        "parse_tls_handshake_msg_next_protocol" => p!(ctx, parse_tls_handshake_msg_next_protocol(i), show::hs),
        "parse_tls_handshake_msg_key_update" => p!(ctx, parse_tls_handshake_msg_key_update(i), show::hs),
        _ => return more::run_entry(name, a, i),
    })
}

fn now_ms() -> u64 {
    std::time::SystemTime::now().duration_since(std::time::UNIX_EPOCH).map(|d| d.as_millis() as u64).unwrap_or(0)
}

fn main() {
    std::panic::set_hook(Box::new(|_| {}));
    let args: Vec<String> = std::env::args().collect();
    if args.len() > 1 && args[1] != "run" {
        std::process::exit(more::command(&args[1..]));
    }
    let limit_ms: u64 = std::env::var("VERIF_CASE_TIMEOUT_MS").ok().and_then(|s| s.parse().ok()).unwrap_or(10_000);
    let hang_file = std::env::var("VERIF_HANG_FILE").ok();
    std::thread::spawn(move || loop {
        std::thread::sleep(std::time::Duration::from_millis(200));
        let st = CASE_START_MS.load(Ordering::Relaxed);
        if st != 0 && now_ms().saturating_sub(st) > limit_ms {
            if let Some(f) = &hang_file {
                let _ = std::fs::write(f, format!("{}\n", CASE_NO.load(Ordering::Relaxed)));
            }
            std::process::exit(3);
        }
    });
    let mut stats = std::env::var("VERIF_STATS_FILE").ok().map(|f| std::io::BufWriter::new(std::fs::File::create(f).unwrap()));
    let stdin = std::io::stdin();
    let stdout = std::io::stdout();
    let mut out = std::io::BufWriter::new(stdout.lock());
    let mut no: u64 = 0;
    for line in stdin.lock().lines() {
        let line = match line {
            Ok(l) => l,
            Err(_) => break,
        };
        no += 1;
        CASE_NO.store(no, Ordering::Relaxed);
        let toks: Vec<&str> = line.split(' ').collect();
        let name = toks[0].to_string();
        let res = if name == "defrag" || name == "states" || name.starts_with('@') {
            let rest: Vec<String> = toks[1..].iter().map(|s| s.to_string()).collect();
            CASE_START_MS.store(now_ms(), Ordering::Relaxed);
            let r = std::panic::catch_unwind(move || more::run_history(&name, &rest));
            CASE_START_MS.store(0, Ordering::Relaxed);
            r.unwrap_or_else(|_| "(panic)".to_string())
        } else {
            let nargs = if toks.len() >= 2 { toks.len() - 2 } else { 0 };
            let a: Vec<u64> = toks[1..1 + nargs].iter().map(|s| s.parse().unwrap_or(0)).collect();
            let input = if toks.len() >= 2 { unhex(toks[toks.len() - 1]) } else { Vec::new() };
            // exact-size heap copy so that out-of-bounds reads are not masked by spare capacity
            let input: Box<[u8]> = input.into_boxed_slice();
            let base = CUR.load(Ordering::Relaxed);
            PEAK.store(base, Ordering::Relaxed);
            BASE.store(base, Ordering::Relaxed);
            PARSE_PEAK.store(usize::MAX, Ordering::Relaxed);
            CASE_START_MS.store(now_ms(), Ordering::Relaxed);
            let r = std::panic::catch_unwind(|| run_entry(&name, &a, &input));
            CASE_START_MS.store(0, Ordering::Relaxed);
            let total = PEAK.load(Ordering::Relaxed).saturating_sub(base);
            let pp = PARSE_PEAK.load(Ordering::Relaxed);
            let peak = if pp == usize::MAX { total } else { pp };
            if let Some(s) = stats.as_mut() {
                let _ = writeln!(s, "{} {} {}", no, input.len(), peak);
            }
            match r {
                Ok(Some(s)) => s,
                Ok(None) => "(noentry)".to_string(),
                Err(_) => "(panic)".to_string(),
            }
        };
        let _ = writeln!(out, "{}", res);
        if no % 512 == 0 {
            let _ = out.flush();
        }
    }
    let _ = out.flush();
}
