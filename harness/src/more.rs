//! Further entry points (extensions, DTLS, key exchange, CT), histories and commands.
#![allow(unused_imports, unused_variables)]
use crate::show;
use crate::sx::{self, Ctx};
use tls_parser::nom::IResult;
use nom_derive::Parse;
use tls_parser::*;

macro_rules! p {
    ($ctx:expr, $r:expr, $f:expr) => {{
        let r = $r;
        crate::parse_done();
        // Debug formatting of whatever was returned, value or error (C01)
        let _ = format!("{:?}", r);
        show::res($ctx, r, $f)
    }};
}
/// for value types without Debug
macro_rules! q {
    ($ctx:expr, $r:expr, $f:expr) => {{
        let r = $r;
        crate::parse_done();
        show::res($ctx, r, $f)
    }};
}

fn ext1(i: &[u8], f: fn(&[u8]) -> IResult<&[u8], TlsExtension>) -> String {
    let ctx = &Ctx::of(i);
    let r = f(i);
    crate::parse_done();
    let _ = format!("{:?}", r);
    if let Ok((_, v)) = &r {
        let _ = format!("{:?}", TlsExtensionType::from(v));
    }
    show::res(ctx, r, show::ext)
}
fn extn(i: &[u8], f: fn(&[u8]) -> IResult<&[u8], Vec<TlsExtension>>) -> String {
    let ctx = &Ctx::of(i);
    p!(ctx, f(i), show::exts)
}

pub fn run_entry(name: &str, a: &[u64], i: &[u8]) -> Option<String> {
    let ctx = &Ctx::of(i);
    let u = |k: usize| -> usize { a.get(k).copied().unwrap_or(0) as usize };
    Some(match name {
        "parse_tls_extension" => ext1(i, parse_tls_extension),
        "parse_tls_client_hello_extension" => ext1(i, parse_tls_client_hello_extension),
        "parse_tls_server_hello_extension" => ext1(i, parse_tls_server_hello_extension),
        "parse_tls_extensions" => extn(i, parse_tls_extensions),
        "parse_tls_client_hello_extensions" => extn(i, parse_tls_client_hello_extensions),
        "parse_tls_server_hello_extensions" => extn(i, parse_tls_server_hello_extensions),
        "parse_tls_extension_unknown" => ext1(i, parse_tls_extension_unknown),
        "parse_tls_extension_sni_hostname" => p!(ctx, parse_tls_extension_sni_hostname(i), |c, v| sx::c("", &[sx::n(v.0 .0), sx::slice(c, v.1)])),
        "parse_tls_extension_sni_content" => ext1(i, parse_tls_extension_sni_content),
        "parse_tls_extension_max_fragment_length_content" => ext1(i, parse_tls_extension_max_fragment_length_content),
        "parse_tls_extension_elliptic_curves_content" => ext1(i, parse_tls_extension_elliptic_curves_content),
        "parse_tls_extension_ec_point_formats_content" => ext1(i, parse_tls_extension_ec_point_formats_content),
        "parse_tls_extension_signature_algorithms_content" => ext1(i, parse_tls_extension_signature_algorithms_content),
        "parse_tls_extension_heartbeat_content" => ext1(i, parse_tls_extension_heartbeat_content),
        "parse_tls_extension_alpn_content" => ext1(i, parse_tls_extension_alpn_content),
        "parse_tls_extension_signed_certificate_timestamp_content" => ext1(i, parse_tls_extension_signed_certificate_timestamp_content),
        "parse_tls_extension_psk_key_exchange_modes_content" => ext1(i, parse_tls_extension_psk_key_exchange_modes_content),
        "parse_tls_extension_renegotiation_info_content" => ext1(i, parse_tls_extension_renegotiation_info_content),
        "parse_tls_extension_encrypted_server_name" => ext1(i, parse_tls_extension_encrypted_server_name),
        "parse_tls_extension_sni" => ext1(i, parse_tls_extension_sni),
        "parse_tls_extension_max_fragment_length" => ext1(i, parse_tls_extension_max_fragment_length),
        "parse_tls_extension_status_request" => ext1(i, parse_tls_extension_status_request),
        "parse_tls_extension_elliptic_curves" => ext1(i, parse_tls_extension_elliptic_curves),
        "parse_tls_extension_ec_point_formats" => ext1(i, parse_tls_extension_ec_point_formats),
        "parse_tls_extension_signature_algorithms" => ext1(i, parse_tls_extension_signature_algorithms),
        "parse_tls_extension_heartbeat" => ext1(i, parse_tls_extension_heartbeat),
        "parse_tls_extension_encrypt_then_mac" => ext1(i, parse_tls_extension_encrypt_then_mac),
        "parse_tls_extension_extended_master_secret" => ext1(i, parse_tls_extension_extended_master_secret),
        "parse_tls_extension_session_ticket" => ext1(i, parse_tls_extension_session_ticket),
        "parse_tls_extension_key_share" => ext1(i, parse_tls_extension_key_share),
        "parse_tls_extension_pre_shared_key" => ext1(i, parse_tls_extension_pre_shared_key),
        "parse_tls_extension_early_data" => ext1(i, parse_tls_extension_early_data),
        "parse_tls_extension_supported_versions" => ext1(i, parse_tls_extension_supported_versions),
        "parse_tls_extension_cookie" => ext1(i, parse_tls_extension_cookie),
        "parse_tls_extension_psk_key_exchange_modes" => ext1(i, parse_tls_extension_psk_key_exchange_modes),
        "parse_named_groups" => p!(ctx, parse_named_groups(i), |_c, l| sx::list(l, |g| sx::n(g.0))),

        "parse_dh_params" => p!(ctx, parse_dh_params(i), show::dh),
        "parse_ec_parameters" => p!(ctx, parse_ec_parameters(i), show::ecp),
        "parse_ecdh_params" => p!(ctx, parse_ecdh_params(i), show::ecdh),
        "parse_digitally_signed_old" => p!(ctx, parse_digitally_signed_old(i), show::ds),
        "parse_digitally_signed" => p!(ctx, parse_digitally_signed(i), show::ds),
        "parse_content_and_signature_dh" => p!(ctx, parse_content_and_signature(i, parse_dh_params, u(0) != 0),
            |c, v| sx::c("", &[show::dh(c, &v.0), show::ds(c, &v.1)])),
        "parse_content_and_signature_ecdh" => p!(ctx, parse_content_and_signature(i, parse_ecdh_params, u(0) != 0),
            |c, v| sx::c("", &[show::ecdh(c, &v.0), show::ds(c, &v.1)])),
        "parse_ct_signed_certificate_timestamp" => p!(ctx, parse_ct_signed_certificate_timestamp(i), show::sct),
        "parse_ct_signed_certificate_timestamp_list" => p!(ctx, parse_ct_signed_certificate_timestamp_list(i), |c, l| sx::list(l, |s| show::sct(c, s))),
        "ECPoint::parse" => p!(ctx, ECPoint::parse(i), |c, v| sx::slice(c, v.point)),
        "ECCurve::parse" => p!(ctx, ECCurve::parse(i), |c, v| sx::c("", &[sx::slice(c, v.a), sx::slice(c, v.b)])),
        "ExplicitPrimeContent::parse" => p!(ctx, ExplicitPrimeContent::parse(i), |c, v| sx::c("ExplicitPrime", &[
            sx::slice(c, v.prime_p), sx::slice(c, v.curve.a), sx::slice(c, v.curve.b), sx::slice(c, v.base.point),
            sx::slice(c, v.order), sx::slice(c, v.cofactor)])),
        "ECParametersContent::parse" => p!(ctx, ECParametersContent::parse(i, ECCurveType(u(0) as u8)), show::ecc),

        "parse_dtls_record_header" => p!(ctx, parse_dtls_record_header(i), show::dhdr),
        "parse_dtls_message_handshake" => p!(ctx, parse_dtls_message_handshake(i), |c, m| { let _ = m.is_fragment(); show::dmsg(c, m) }),
        "parse_dtls_message_changecipherspec" => p!(ctx, parse_dtls_message_changecipherspec(i), show::dmsg),
        "parse_dtls_message_alert" => p!(ctx, parse_dtls_message_alert(i), show::dmsg),
        "parse_dtls_record_with_header" => {
            let h = DTLSRecordHeader {
                content_type: TlsRecordType(u(0) as u8),
                version: TlsVersion(u(1) as u16),
                epoch: u(2) as u16,
                sequence_number: a.get(3).copied().unwrap_or(0),
                length: u(4) as u16,
            };
            p!(ctx, parse_dtls_record_with_header(i, &h), show::dmsgs)
        }
        "parse_dtls_plaintext_record" => p!(ctx, parse_dtls_plaintext_record(i), show::dplain),
        "parse_dtls_plaintext_records" => p!(ctx, parse_dtls_plaintext_records(i), |c, l| sx::list(l, |x| show::dplain(c, x))),
        _ => return None,
    })
}

static BLOB: [u8; 64] = [0x5a; 64];

/// a message of handshake kind k (index in the enum's declaration order) with contents chosen by `var`
fn hs_msg(k: u64, sid: bool, var: u64) -> TlsMessageHandshake<'static> {
    let v = (var % 3) as usize;
    let b: &'static [u8] = &BLOB[..v * 7];
    let r: &'static [u8] = &BLOB[..32];
    let ext: Option<&'static [u8]> = if v == 0 { None } else { Some(b) };
    let sidv: Option<&'static [u8]> = if sid { Some(&BLOB[..1 + 15 * v]) } else { None };
    use TlsMessageHandshake::*;
    match k {
        0 => HelloRequest,
        1 => ClientHello(TlsClientHelloContents::new(0x0301 + v as u16, r, sidv, vec![TlsCipherSuiteID(v as u16)], vec![], ext)),
        2 => ServerHello(TlsServerHelloContents::new(0x0303, r, sidv, 0x2f + v as u16, 0, ext)),
        3 => ServerHelloV13Draft18(TlsServerHelloV13Draft18Contents { version: TlsVersion(0x7f12), random: r, cipher: TlsCipherSuiteID(0x1301), ext }),
        4 => NewSessionTicket(TlsNewSessionTicketContent { ticket_lifetime_hint: var as u32, ticket: b }),
        5 => EndOfEarlyData,
        6 => HelloRetryRequest(TlsHelloRetryRequestContents { version: TlsVersion(0x0304), cipher: TlsCipherSuiteID(v as u16), ext }),
        7 => Certificate(TlsCertificateContents { cert_chain: (0..v).map(|_| RawCertificate { data: b }).collect() }),
        8 => ServerKeyExchange(TlsServerKeyExchangeContents { parameters: b }),
        9 => CertificateRequest(TlsCertificateRequestContents { cert_types: vec![v as u8], sig_hash_algs: if v == 1 { None } else { Some(vec![0x0401]) }, unparsed_ca: vec![] }),
        10 => ServerDone(b),
        11 => CertificateVerify(b),
        12 => ClientKeyExchange(match v { 0 => TlsClientKeyExchangeContents::Unknown(b), 1 => TlsClientKeyExchangeContents::Dh(b), _ => TlsClientKeyExchangeContents::Ecdh(ECPoint { point: b }) }),
        13 => Finished(b),
        14 => CertificateStatus(TlsCertificateStatusContents { status_type: v as u8, blob: b }),
        15 => NextProtocol(TlsNextProtocolContent { selected_protocol: b, padding: b }),
        _ => KeyUpdate(v as u8),
    }
}

const STATES: [TlsState; 25] = [
    TlsState::None, TlsState::ClientHello, TlsState::AskResumeSession, TlsState::ResumeSession, TlsState::ServerHello,
    TlsState::Certificate, TlsState::CertificateSt, TlsState::ServerKeyExchange, TlsState::ServerHelloDone,
    TlsState::ClientKeyExchange, TlsState::ClientChangeCipherSpec, TlsState::CRCertRequest, TlsState::CRHelloDone,
    TlsState::CRCert, TlsState::CRClientKeyExchange, TlsState::CRCertVerify, TlsState::NoCertSKE,
    TlsState::NoCertHelloDone, TlsState::NoCertCKE, TlsState::PskHelloDone, TlsState::PskCKE,
    TlsState::SessionEncrypted, TlsState::Alert, TlsState::Finished, TlsState::Invalid,
];

fn run_states(toks: &[String]) -> String {
    let mut st = STATES[toks.get(0).and_then(|s| s.parse::<usize>().ok()).unwrap_or(0) % 25];
    let mut out = String::from("(states");
    for t in &toks[1..] {
        let a: Vec<u64> = t.split(',').map(|x| x.parse().unwrap_or(0)).collect();
        let g = |k: usize| a.get(k).copied().unwrap_or(0);
        let (msg, dir) = match g(0) {
            0 => (TlsMessage::Handshake(hs_msg(g(1), g(2) != 0, g(3))), g(4) != 0),
            1 => (TlsMessage::ChangeCipherSpec, g(1) != 0),
            2 => (TlsMessage::Alert(TlsMessageAlert { severity: TlsAlertSeverity(g(1) as u8), code: TlsAlertDescription(g(2) as u8) }), g(3) != 0),
            3 => (TlsMessage::ApplicationData(TlsMessageApplicationData { blob: &BLOB[..(g(1) % 5) as usize] }), g(2) != 0),
            _ => (TlsMessage::Heartbeat(TlsMessageHeartbeat { heartbeat_type: TlsHeartbeatMessageType(g(1) as u8), payload_len: g(1) as u16, payload: &BLOB[..(g(1) % 5) as usize] }), g(2) != 0),
        };
        match tls_state_transition(st, &msg, dir) {
            Ok(s) => { st = s; out.push(' '); out.push_str(&format!("{:?}", s)); }
            Err(_) => { st = TlsState::Invalid; out.push_str(" Err"); }
        }
    }
    out.push(')');
    out
}

fn q(s: String) -> String {
    format!("\"{}\"", s)
}
macro_rules! nt_dg { ($t:ident, $w:ty, $n:expr) => {{ let v = $t($n as $w); format!("(nt D{} G{})", q(format!("{}", v)), q(format!("{:?}", v))) }}; }
macro_rules! nt_g { ($t:ident, $w:ty, $n:expr) => {{ let v = $t($n as $w); format!("(nt D- G{})", q(format!("{:?}", v))) }}; }

/// `@nt <Type> <n>`: Display / Debug text of the registry newtypes; `@conv <Type> <n>`: integer conversions;
/// `@sig <s>`: SignatureScheme helpers; `@keybits <g>`
fn run_nt(ty: &str, n: u64) -> String {
    match ty {
        "TlsRecordType" => nt_dg!(TlsRecordType, u8, n),
        "TlsHandshakeType" => nt_dg!(TlsHandshakeType, u8, n),
        "TlsVersion" => nt_dg!(TlsVersion, u16, n),
        "TlsHeartbeatMessageType" => nt_dg!(TlsHeartbeatMessageType, u8, n),
        "TlsCompressionID" => nt_dg!(TlsCompressionID, u8, n),
        "KeyUpdateRequest" => { let _ = KeyUpdateRequest(n as u8); "(nt D- G-)".to_string() }
        "TlsAlertSeverity" => nt_dg!(TlsAlertSeverity, u8, n),
        "TlsAlertDescription" => nt_dg!(TlsAlertDescription, u8, n),
        "TlsExtensionType" => nt_dg!(TlsExtensionType, u16, n),
        "PskKeyExchangeMode" => nt_g!(PskKeyExchangeMode, u8, n),
        "SNIType" => nt_dg!(SNIType, u8, n),
        "CertificateStatusType" => nt_dg!(CertificateStatusType, u8, n),
        "NamedGroup" => nt_dg!(NamedGroup, u16, n),
        "ECCurveType" => { let v = ECCurveType(n as u8); format!("(nt D{} G-)", q(format!("{}", v))) }
        "HashAlgorithm" => nt_dg!(HashAlgorithm, u8, n),
        "SignAlgorithm" => nt_dg!(SignAlgorithm, u8, n),
        "SignatureScheme" => nt_dg!(SignatureScheme, u16, n),
        "CtVersion" => nt_dg!(CtVersion, u8, n),
        _ => "(noentry)".to_string(),
    }
}

/// constants of each registry type as (name value) pairs are checked by the translator (T1);
/// here: every integer conversion must be the identity on the raw value
fn run_conv(ty: &str, n: u64) -> String {
    let mut bad: Vec<&str> = Vec::new();
    match ty {
        "TlsRecordType" => { if u8::from(TlsRecordType(n as u8)) as u64 != n { bad.push("From") } }
        "TlsHandshakeType" => { if u8::from(TlsHandshakeType(n as u8)) as u64 != n { bad.push("From") } }
        "TlsHeartbeatMessageType" => { if u8::from(TlsHeartbeatMessageType(n as u8)) as u64 != n { bad.push("From") } }
        "TlsVersion" => {
            let v = TlsVersion(n as u16);
            if u16::from(v) as u64 != n { bad.push("From") }
            if v.to_be_bytes() != [(n >> 8) as u8, n as u8] { bad.push("to_be_bytes") }
            if format!("{:x}", v) != format!("{:x}", n) { bad.push("LowerHex") }
        }
        "TlsCompressionID" => {
            let v = TlsCompressionID(n as u8);
            if u8::from(v) as u64 != n { bad.push("From") }
            if *v as u64 != n { bad.push("Deref") }
            let r: &u8 = v.as_ref();
            if *r as u64 != n { bad.push("AsRef") }
        }
        "TlsCipherSuiteID" => {
            let v = TlsCipherSuiteID(n as u16);
            if u16::from(v) as u64 != n { bad.push("From") }
            if *v as u64 != n { bad.push("Deref") }
            let r: &u16 = v.as_ref();
            if *r as u64 != n { bad.push("AsRef") }
            if format!("{}", v) != format!("{}", n) { bad.push("Display") }
            if format!("{:x}", v) != format!("{:x}", n) { bad.push("LowerHex") }
            let name = TlsCipherSuite::from_id(n as u16).map(|c| c.name).unwrap_or("Unknown cipher");
            if format!("{:?}", v) != format!("0x{:04x}({})", n, name) { bad.push("Debug") }
        }
        "TlsExtensionType" => {
            if u16::from(TlsExtensionType(n as u16)) as u64 != n { bad.push("From") }
            if TlsExtensionType::from_u16(n as u16).0 as u64 != n { bad.push("from_u16") }
        }
        _ => return "(noentry)".to_string(),
    }
    if bad.is_empty() { "(conv ok)".to_string() } else { format!("(conv BAD {})", bad.join(",")) }
}

fn unhex(h: &str) -> Vec<u8> {
    if h == "-" { return Vec::new(); }
    (0..h.len() / 2).map(|k| u8::from_str_radix(&h[2 * k..2 * k + 2], 16).unwrap_or(0)).collect()
}

/// defrag <op>...  op = P,ty,ver,len,hex | N,ty,ver,len,hex | R
fn run_defrag(toks: &[String]) -> String {
    // every record's data lives in its own exact-size heap allocation for the whole history
    let datas: Vec<Box<[u8]>> = toks.iter().map(|t| {
        let f: Vec<&str> = t.split(',').collect();
        if f.len() >= 5 { unhex(f[4]).into_boxed_slice() } else { Vec::new().into_boxed_slice() }
    }).collect();
    let mut parser = TlsRecordsParser::default();
    let mut out = String::from("(defrag");
    for (k, t) in toks.iter().enumerate() {
        let f: Vec<&str> = t.split(',').collect();
        let res: String;
        if f.len() < 5 {
            parser.reset();
            res = "(reset)".to_string();
        } else {
            let hdr = TlsRecordHeader {
                record_type: TlsRecordType(f[1].parse::<u64>().unwrap_or(0) as u8),
                version: TlsVersion(f[2].parse::<u64>().unwrap_or(0) as u16),
                len: f[3].parse::<u64>().unwrap_or(0) as u16,
            };
            let data: &[u8] = &datas[k];
            let record = TlsRawRecord { hdr, data };
            let abs = Ctx { base: 0, len: 0, buf_base: 0, buf_len: 0, abs: true };
            let nocopy = f[0] == "N";
            let raw = match std::panic::catch_unwind(std::panic::AssertUnwindSafe(|| {
                let r = if nocopy { parser.parse_record_nocopy(record) } else { parser.parse_record(record) };
                if let Ok((_, v)) = &r { let _ = format!("{:?}", v); }
                show::res(&abs, r, show::msgs)
            })) {
                Ok(s) => s,
                Err(_) => {
                    out.push_str(&format!(" [(panic) {} {}])", if parser.defrag_in_progress() { 1 } else { 0 }, parser.verif_defrag_buffer().len()));
                    return out;
                }
            };
            let buf = parser.verif_defrag_buffer();
            let ctx = Ctx { base: data.as_ptr() as usize, len: data.len(), buf_base: buf.as_ptr() as usize, buf_len: buf.len(), abs: false };
            res = sx::fixup(&raw, &ctx);
        }
        out.push_str(&format!(" [{} {} {}]", res, if parser.defrag_in_progress() { 1 } else { 0 }, parser.verif_defrag_buffer().len()));
    }
    out.push(')');
    out
}

fn show_ch<'a, T: ClientHello<'a>>(ctx: &Ctx, c: &T) -> String {
    sx::c("hello", &[
        sx::n(c.version().0), sx::slice(ctx, c.random()), sx::n(c.rand_time()), sx::slice(ctx, c.rand_bytes()),
        sx::opt(&c.session_id(), |s| sx::slice(ctx, s)),
        sx::list(c.ciphers(), |v| sx::n(v.0)), sx::list(c.comp(), |v| sx::n(v.0)),
        sx::opt(&c.ext(), |s| sx::slice(ctx, s)),
        sx::list(&c.cipher_suites(), |o| sx::opt(o, |cs| sx::n(cs.id.0))),
    ])
}
fn show_shello(ctx: &Ctx, c: &TlsServerHelloContents) -> String {
    sx::c("shello", &[
        sx::n(c.get_version().0), sx::slice(ctx, c.random), sx::opt(&c.session_id, |s| sx::slice(ctx, s)),
        sx::n(c.cipher.0), sx::n(c.compression.0), sx::opt(&c.ext, |s| sx::slice(ctx, s)),
        sx::opt(&c.get_cipher(), |cs| sx::n(cs.id.0)),
    ])
}
fn opt_tok(t: &str) -> Option<Vec<u8>> { if t == "N" { None } else { Some(unhex(t)) } }
fn nums_tok(t: &str) -> Vec<u64> { if t == "-" { Vec::new() } else { t.split('.').map(|x| x.parse().unwrap_or(0)).collect() } }

fn run_hello(toks: &[String]) -> String {
    let f = |k: usize| -> &str { toks.get(k).map(|s| s.as_str()).unwrap_or("") };
    match f(0) {
        "tls" => {
            let b = unhex(f(1)).into_boxed_slice();
            let ctx = Ctx::of(&b);
            match parse_tls_handshake_client_hello(&b) {
                Ok((_, c)) => {
                    // the inherent getters must agree with the trait
                    if c.get_version() != c.version() || c.get_ciphers().len() != c.cipher_suites().len() { return "(getters-disagree)".to_string(); }
                    for (a, b2) in c.get_ciphers().iter().zip(c.cipher_suites().iter()) {
                        if a.map(|x| x.id.0) != b2.map(|x| x.id.0) { return "(getters-disagree)".to_string(); }
                    }
                    show_ch(&ctx, &c)
                }
                Err(_) => "(noparse)".to_string(),
            }
        }
        "dtls" => {
            let b = unhex(f(1)).into_boxed_slice();
            let ctx = Ctx::of(&b);
            match parse_dtls_message_handshake(&b) {
                Ok((_, DTLSMessage::Handshake(h))) => match &h.body {
                    DTLSMessageHandshakeBody::ClientHello(c) => show_ch(&ctx, c),
                    _ => "(noparse)".to_string(),
                },
                _ => "(noparse)".to_string(),
            }
        }
        "sh" => {
            let b = unhex(f(1)).into_boxed_slice();
            let ctx = Ctx::of(&b);
            match parse_tls_handshake_server_hello(&b) { Ok((_, c)) => show_shello(&ctx, &c), Err(_) => "(noparse)".to_string() }
        }
        "new" => {
            let random = unhex(f(2)); let sid = opt_tok(f(3)); let ext = opt_tok(f(6));
            let c = TlsClientHelloContents::new(f(1).parse::<u64>().unwrap_or(0) as u16, &random, sid.as_deref(),
                nums_tok(f(4)).into_iter().map(|x| TlsCipherSuiteID(x as u16)).collect(),
                nums_tok(f(5)).into_iter().map(|x| TlsCompressionID(x as u8)).collect(), ext.as_deref());
            // all slices are separate allocations: print them position-free
            let ctx = Ctx { base: 0, len: 0, buf_base: 0, buf_len: 0, abs: false };
            show_ch(&ctx, &c)
        }
        _ => {
            let random = unhex(f(2)); let sid = opt_tok(f(3)); let ext = opt_tok(f(6));
            let c = TlsServerHelloContents::new(f(1).parse::<u64>().unwrap_or(0) as u16, &random, sid.as_deref(),
                f(4).parse::<u64>().unwrap_or(0) as u16, f(5).parse::<u64>().unwrap_or(0) as u8, ext.as_deref());
            let ctx = Ctx { base: 0, len: 0, buf_base: 0, buf_len: 0, abs: false };
            show_shello(&ctx, &c)
        }
    }
}

pub fn run_history(name: &str, toks: &[String]) -> String {
    let num = |k: usize| -> u64 { toks.get(k).and_then(|s| s.parse().ok()).unwrap_or(0) };
    match name {
        "states" => run_states(toks),
        "defrag" => run_defrag(toks),
        "@hello" => run_hello(toks),
        #[cfg(feature = "serialize")]
        "@ser" => crate::ser::run_ser(toks),
        "@exttype" => {
            let h = toks.get(0).map(|s| s.as_str()).unwrap_or("");
            let raw: Vec<u8> = if h == "-" { Vec::new() } else { (0..h.len() / 2).map(|k| u8::from_str_radix(&h[2 * k..2 * k + 2], 16).unwrap_or(0)).collect() };
            match parse_tls_extension(&raw) {
                Ok((_, e)) => format!("(tag {})", TlsExtensionType::from(&e).0),
                Err(_) => "(none)".to_string(),
            }
        }
        "@nt" => run_nt(toks.get(0).map(|s| s.as_str()).unwrap_or(""), num(1)),
        "@conv" => run_conv(toks.get(0).map(|s| s.as_str()).unwrap_or(""), num(1)),
        "@sig" => { let s = SignatureScheme(num(0) as u16); format!("(sig {} {} {})", s.hash_alg(), s.sign_alg(), s.is_reserved()) }
        "@from_name" => {
            let raw: Vec<u8> = { let h = toks.get(0).map(|s| s.as_str()).unwrap_or(""); (0..h.len() / 2).map(|k| u8::from_str_radix(&h[2 * k..2 * k + 2], 16).unwrap_or(0)).collect() };
            let s = String::from_utf8_lossy(&raw).to_string();
            let a = TlsCipherSuite::from_name(&s).map(|c| c.id.0);
            let b = { use core::convert::TryFrom; <&TlsCipherSuite>::try_from(s.as_str()).ok().map(|c| c.id.0) };
            if a != b { "(routes-disagree)".to_string() } else { match a { Some(i) => format!("(Some {})", i), None => "None".to_string() } }
        }
        "@cipher" => match TlsCipherSuite::from_id(num(0) as u16) {
            Some(c) => format!("(Some {} \"{}\" {:?} {:?} {:?} {:?} {} {:?} {} {:?} {} {} {})", c.id.0, c.name, c.kx, c.au, c.enc, c.enc_mode,
                               c.enc_size, c.mac, c.mac_size, c.prf, c.enc_key_size(), c.enc_block_size(), c.mac_length()),
            None => "None".to_string(),
        },
        "@keybits" => match NamedGroup(num(0) as u16).key_bits() { Some(b) => format!("(Some {})", b), None => "None".to_string() },
        _ => "(noentry)".to_string(),
    }
}

/// T3b: the complete extension of the compiled cipher registry, as a Coq file
fn dump_ciphers() -> i32 {
    use core::convert::TryFrom;
    let mut rows = String::new();
    let mut routes = String::new();
    let mut all_none = 0u32;
    for id in 0u32..65536 {
        let id16 = id as u16;
        let r1 = TlsCipherSuite::from_id(id16);
        let r2 = <&TlsCipherSuite>::try_from(id16).ok();
        let r3 = <&TlsCipherSuite>::try_from(TlsCipherSuiteID(id16)).ok();
        let r4 = TlsCipherSuiteID(id16).get_ciphersuite();
        let rs = [r1, r2, r3, r4];
        if rs.iter().all(|r| r.is_none()) {
            all_none += 1;
        } else {
            let f = |r: &Option<&TlsCipherSuite>| match r { Some(c) => format!("Some {}", c.id.0), None => "None".to_string() };
            routes.push_str(&format!("  ({}, [{}; {}; {}; {}]);\n", id, f(&rs[0]), f(&rs[1]), f(&rs[2]), f(&rs[3])));
        }
        if let Some(c) = r1 {
            rows.push_str(&format!(
                "  mkRow {} \"{}\" Kx{:?} Au{:?} Enc{:?} Mode{:?} {} Mac{:?} {} Prf{:?} {} {} {};\n",
                c.id.0, c.name, c.kx, c.au, c.enc, c.enc_mode, c.enc_size, c.mac, c.mac_size, c.prf,
                c.enc_key_size(), c.enc_block_size(), c.mac_length()
            ));
        }
    }
    let order: Vec<String> = CIPHERS.values().map(|c| format!("{}", c.id.0)).collect();
    println!("(* GENERATED by the harness (T3b): complete dump of the compiled cipher registry -- do not edit *)");
    println!("From Coq Require Import String NArith List.\nFrom TlsModel Require Import CipherTypes.\nImport ListNotations.\nOpen Scope N_scope. Open Scope string_scope.");
    println!("(* from_id(id) for every id in 0..65535 that is listed, ascending; the last three columns are\n   enc_key_size(), enc_block_size(), mac_length() as computed by the implementation *)");
    println!("Definition impl_rows : list cipher_row := [\n{}].", rows.trim_end_matches(";\n").to_string() + "\n");
    println!("(* ids for which at least one lookup route returns a suite: [from_id; TryFrom<u16>; TryFrom<TlsCipherSuiteID>; get_ciphersuite], each as the id carried by the returned suite *)");
    println!("Definition impl_routes : list (N * list (option N)) := [\n{}].", routes.trim_end_matches(";\n").to_string() + "\n");
    println!("Definition impl_all_none_count : N := {}.", all_none);
    println!("Definition impl_len : N := {}.", CIPHERS.len());
    println!("Definition impl_values_order : list N := [{}].", order.join("; "));
    0
}

pub fn command(args: &[String]) -> i32 {
    match args.get(0).map(|s| s.as_str()) {
        Some("dump-ciphers") => dump_ciphers(),
        _ => { eprintln!("unknown command {:?}", args); 2 }
    }
}
