//! Further entry points (extensions, DTLS, key exchange, CT), histories and commands.
#![allow(unused_imports, unused_variables)]
use crate::show;
use crate::sx::{self, Ctx};
use tls_parser::nom::IResult;
use nom_derive::Parse;
use tls_parser::*;

macro_rules! p {
    ($ctx:expr, $r:expr, $f:expr) => {{
        let r = $r;
        if let Ok((_, v)) = &r {
            let _ = format!("{:?}", v);
        }
        show::res($ctx, r, $f)
    }};
}
/// for value types without Debug
macro_rules! q {
    ($ctx:expr, $r:expr, $f:expr) => {{
        show::res($ctx, $r, $f)
    }};
}

fn ext1(i: &[u8], f: fn(&[u8]) -> IResult<&[u8], TlsExtension>) -> String {
    let ctx = &Ctx::of(i);
    let r = f(i);
    if let Ok((_, v)) = &r {
        let _ = format!("{:?}", v);
        let _ = format!("{:?}", TlsExtensionType::from(v));
    }
    show::res(ctx, r, show::ext)
}
fn extn(i: &[u8], f: fn(&[u8]) -> IResult<&[u8], Vec<TlsExtension>>) -> String {
    let ctx = &Ctx::of(i);
    p!(ctx, f(i), show::exts)
}

pub fn run_entry(name: &str, a: &[u64], i: &[u8]) -> Option<String> {
    let ctx = &Ctx::of(i);
    let u = |k: usize| -> usize { a.get(k).copied().unwrap_or(0) as usize };
    Some(match name {
        "parse_tls_extension" => ext1(i, parse_tls_extension),
        "parse_tls_client_hello_extension" => ext1(i, parse_tls_client_hello_extension),
        "parse_tls_server_hello_extension" => ext1(i, parse_tls_server_hello_extension),
        "parse_tls_extensions" => extn(i, parse_tls_extensions),
        "parse_tls_client_hello_extensions" => extn(i, parse_tls_client_hello_extensions),
        "parse_tls_server_hello_extensions" => extn(i, parse_tls_server_hello_extensions),
        "parse_tls_extension_unknown" => ext1(i, parse_tls_extension_unknown),
        "parse_tls_extension_sni_hostname" => p!(ctx, parse_tls_extension_sni_hostname(i), |c, v| sx::c("", &[sx::n(v.0 .0), sx::slice(c, v.1)])),
        "parse_tls_extension_sni_content" => ext1(i, parse_tls_extension_sni_content),
        "parse_tls_extension_max_fragment_length_content" => ext1(i, parse_tls_extension_max_fragment_length_content),
        "parse_tls_extension_elliptic_curves_content" => ext1(i, parse_tls_extension_elliptic_curves_content),
        "parse_tls_extension_ec_point_formats_content" => ext1(i, parse_tls_extension_ec_point_formats_content),
        "parse_tls_extension_signature_algorithms_content" => ext1(i, parse_tls_extension_signature_algorithms_content),
        "parse_tls_extension_heartbeat_content" => ext1(i, parse_tls_extension_heartbeat_content),
        "parse_tls_extension_alpn_content" => ext1(i, parse_tls_extension_alpn_content),
        "parse_tls_extension_signed_certificate_timestamp_content" => ext1(i, parse_tls_extension_signed_certificate_timestamp_content),
        "parse_tls_extension_psk_key_exchange_modes_content" => ext1(i, parse_tls_extension_psk_key_exchange_modes_content),
        "parse_tls_extension_renegotiation_info_content" => ext1(i, parse_tls_extension_renegotiation_info_content),
        "parse_tls_extension_encrypted_server_name" => ext1(i, parse_tls_extension_encrypted_server_name),
        "parse_tls_extension_sni" => ext1(i, parse_tls_extension_sni),
        "parse_tls_extension_max_fragment_length" => ext1(i, parse_tls_extension_max_fragment_length),
        "parse_tls_extension_status_request" => ext1(i, parse_tls_extension_status_request),
        "parse_tls_extension_elliptic_curves" => ext1(i, parse_tls_extension_elliptic_curves),
        "parse_tls_extension_ec_point_formats" => ext1(i, parse_tls_extension_ec_point_formats),
        "parse_tls_extension_signature_algorithms" => ext1(i, parse_tls_extension_signature_algorithms),
        "parse_tls_extension_heartbeat" => ext1(i, parse_tls_extension_heartbeat),
        "parse_tls_extension_encrypt_then_mac" => ext1(i, parse_tls_extension_encrypt_then_mac),
        "parse_tls_extension_extended_master_secret" => ext1(i, parse_tls_extension_extended_master_secret),
        "parse_tls_extension_session_ticket" => ext1(i, parse_tls_extension_session_ticket),
        "parse_tls_extension_key_share" => ext1(i, parse_tls_extension_key_share),
        "parse_tls_extension_pre_shared_key" => ext1(i, parse_tls_extension_pre_shared_key),
        "parse_tls_extension_early_data" => ext1(i, parse_tls_extension_early_data),
        "parse_tls_extension_supported_versions" => ext1(i, parse_tls_extension_supported_versions),
        "parse_tls_extension_cookie" => ext1(i, parse_tls_extension_cookie),
        "parse_tls_extension_psk_key_exchange_modes" => ext1(i, parse_tls_extension_psk_key_exchange_modes),
        "parse_named_groups" => p!(ctx, parse_named_groups(i), |_c, l| sx::list(l, |g| sx::n(g.0))),

        "parse_dh_params" => p!(ctx, parse_dh_params(i), show::dh),
        "parse_ec_parameters" => p!(ctx, parse_ec_parameters(i), show::ecp),
        "parse_ecdh_params" => p!(ctx, parse_ecdh_params(i), show::ecdh),
        "parse_digitally_signed_old" => p!(ctx, parse_digitally_signed_old(i), show::ds),
        "parse_digitally_signed" => p!(ctx, parse_digitally_signed(i), show::ds),
        "parse_content_and_signature_dh" => p!(ctx, parse_content_and_signature(i, parse_dh_params, u(0) != 0),
            |c, v| sx::c("", &[show::dh(c, &v.0), show::ds(c, &v.1)])),
        "parse_content_and_signature_ecdh" => p!(ctx, parse_content_and_signature(i, parse_ecdh_params, u(0) != 0),
            |c, v| sx::c("", &[show::ecdh(c, &v.0), show::ds(c, &v.1)])),
        "parse_ct_signed_certificate_timestamp" => p!(ctx, parse_ct_signed_certificate_timestamp(i), show::sct),
        "parse_ct_signed_certificate_timestamp_list" => p!(ctx, parse_ct_signed_certificate_timestamp_list(i), |c, l| sx::list(l, |s| show::sct(c, s))),
        "ECPoint::parse" => p!(ctx, ECPoint::parse(i), |c, v| sx::slice(c, v.point)),
        "ECCurve::parse" => p!(ctx, ECCurve::parse(i), |c, v| sx::c("", &[sx::slice(c, v.a), sx::slice(c, v.b)])),
        "ExplicitPrimeContent::parse" => p!(ctx, ExplicitPrimeContent::parse(i), |c, v| sx::c("ExplicitPrime", &[
            sx::slice(c, v.prime_p), sx::slice(c, v.curve.a), sx::slice(c, v.curve.b), sx::slice(c, v.base.point),
            sx::slice(c, v.order), sx::slice(c, v.cofactor)])),
        "ECParametersContent::parse" => p!(ctx, ECParametersContent::parse(i, ECCurveType(u(0) as u8)), show::ecc),

        "parse_dtls_record_header" => p!(ctx, parse_dtls_record_header(i), show::dhdr),
        "parse_dtls_message_handshake" => p!(ctx, parse_dtls_message_handshake(i), |c, m| { let _ = m.is_fragment(); show::dmsg(c, m) }),
        "parse_dtls_message_changecipherspec" => p!(ctx, parse_dtls_message_changecipherspec(i), show::dmsg),
        "parse_dtls_message_alert" => p!(ctx, parse_dtls_message_alert(i), show::dmsg),
        "parse_dtls_record_with_header" => {
            let h = DTLSRecordHeader {
                content_type: TlsRecordType(u(0) as u8),
                version: TlsVersion(u(1) as u16),
                epoch: u(2) as u16,
                sequence_number: a.get(3).copied().unwrap_or(0),
                length: u(4) as u16,
            };
            p!(ctx, parse_dtls_record_with_header(i, &h), show::dmsgs)
        }
        "parse_dtls_plaintext_record" => p!(ctx, parse_dtls_plaintext_record(i), show::dplain),
        "parse_dtls_plaintext_records" => p!(ctx, parse_dtls_plaintext_records(i), |c, l| sx::list(l, |x| show::dplain(c, x))),
        _ => return None,
    })
}

pub fn run_history(name: &str, toks: &[String]) -> String {
    "(noentry)".to_string()
}

pub fn command(args: &[String]) -> i32 {
    eprintln!("unknown command {:?}", args);
    2
}
