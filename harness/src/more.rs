//! Further entry points (extensions, DTLS, key exchange, CT), histories and commands.
#![allow(unused_imports, unused_variables)]
use crate::show;
use crate::sx::{self, Ctx};
use tls_parser::*;

pub fn run_entry(name: &str, a: &[u64], i: &[u8]) -> Option<String> {
    None
}

pub fn run_history(name: &str, toks: &[String]) -> String {
    "(noentry)".to_string()
}

pub fn command(args: &[String]) -> i32 {
    eprintln!("unknown command {:?}", args);
    2
}
