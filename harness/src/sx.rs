//! Canonical text form (same grammar as coq/Model/Show.v).
use std::fmt::Write;

/// Where slices may legitimately point: the caller's input, and (for the
/// defragmenter) the parser's internal buffer.
#[derive(Clone, Copy)]
pub struct Ctx {
    pub base: usize,
    pub len: usize,
    pub buf_base: usize,
    pub buf_len: usize,
}

impl Ctx {
    pub fn of(input: &[u8]) -> Ctx {
        Ctx { base: input.as_ptr() as usize, len: input.len(), buf_base: 0, buf_len: 0 }
    }
}

pub fn hex(out: &mut String, s: &[u8]) {
    for b in s {
        let _ = write!(out, "{:02x}", b);
    }
}

/// position of a slice: `_` when empty, decimal offset into the caller's
/// input, `b<off>` for the defragmenter's buffer, `!<addr>` when it points
/// elsewhere (i.e. the bytes were copied or are static)
pub fn pos(ctx: &Ctx, s: &[u8]) -> String {
    if s.is_empty() {
        return "_".to_string();
    }
    let p = s.as_ptr() as usize;
    if p >= ctx.base && p + s.len() <= ctx.base + ctx.len {
        format!("{}", p - ctx.base)
    } else if ctx.buf_len > 0 && p >= ctx.buf_base && p + s.len() <= ctx.buf_base + ctx.buf_len {
        format!("b{}", p - ctx.buf_base)
    } else {
        "!".to_string()
    }
}

pub fn slice(ctx: &Ctx, s: &[u8]) -> String {
    let mut o = String::with_capacity(8 + 2 * s.len());
    o.push('#');
    o.push_str(&pos(ctx, s));
    o.push(':');
    hex(&mut o, s);
    o
}

pub fn owned(s: &[u8]) -> String {
    let mut o = String::with_capacity(1 + 2 * s.len());
    o.push('x');
    hex(&mut o, s);
    o
}

pub fn at(ctx: &Ctx, s: &[u8]) -> String {
    format!("@{}+{}", pos(ctx, s), s.len())
}

pub fn c(name: &str, args: &[String]) -> String {
    let mut o = String::new();
    o.push('(');
    o.push_str(name);
    for a in args {
        o.push(' ');
        o.push_str(a);
    }
    o.push(')');
    o
}

pub fn list<T>(l: &[T], f: impl Fn(&T) -> String) -> String {
    let mut o = String::from("[");
    for (k, x) in l.iter().enumerate() {
        if k > 0 {
            o.push(' ');
        }
        o.push_str(&f(x));
    }
    o.push(']');
    o
}

pub fn opt<T>(v: &Option<T>, f: impl Fn(&T) -> String) -> String {
    match v {
        None => "None".to_string(),
        Some(x) => c("Some", &[f(x)]),
    }
}

pub fn n<T: Into<u64>>(v: T) -> String {
    format!("{}", v.into())
}
