//! Canonical text form (same grammar as coq/Model/Show.v).
use std::fmt::Write;

/// Where slices may legitimately point: the caller's input, and (for the
/// defragmenter) the parser's internal buffer.
#[derive(Clone, Copy)]
pub struct Ctx {
    pub base: usize,
    pub len: usize,
    pub buf_base: usize,
    pub buf_len: usize,
    /// print absolute addresses (`A<addr>`), to be classified later by `fixup`
    pub abs: bool,
}

impl Ctx {
    pub fn of(input: &[u8]) -> Ctx {
        Ctx { base: input.as_ptr() as usize, len: input.len(), buf_base: 0, buf_len: 0, abs: false }
    }
}

pub fn hex(out: &mut String, s: &[u8]) {
    for b in s {
        let _ = write!(out, "{:02x}", b);
    }
}

/// position of a slice: `_` when empty, decimal offset into the caller's
/// input, `b<off>` for the defragmenter's buffer, `!<addr>` when it points
/// elsewhere (i.e. the bytes were copied or are static)
pub fn pos(ctx: &Ctx, s: &[u8]) -> String {
    if s.is_empty() {
        return "_".to_string();
    }
    let p = s.as_ptr() as usize;
    if ctx.abs {
        return format!("A{}", p);
    }
    if p >= ctx.base && p + s.len() <= ctx.base + ctx.len {
        format!("{}", p - ctx.base)
    } else if ctx.buf_len > 0 && p >= ctx.buf_base && p + s.len() <= ctx.buf_base + ctx.buf_len {
        format!("b{}", p - ctx.buf_base)
    } else {
        "!".to_string()
    }
}

pub fn slice(ctx: &Ctx, s: &[u8]) -> String {
    let mut o = String::with_capacity(8 + 2 * s.len());
    o.push('#');
    o.push_str(&pos(ctx, s));
    o.push(':');
    hex(&mut o, s);
    o
}

pub fn owned(s: &[u8]) -> String {
    let mut o = String::with_capacity(1 + 2 * s.len());
    o.push('x');
    hex(&mut o, s);
    o
}

pub fn at(ctx: &Ctx, s: &[u8]) -> String {
    format!("@{}+{}", pos(ctx, s), s.len())
}

pub fn c(name: &str, args: &[String]) -> String {
    let mut o = String::new();
    o.push('(');
    o.push_str(name);
    for a in args {
        o.push(' ');
        o.push_str(a);
    }
    o.push(')');
    o
}

pub fn list<T>(l: &[T], f: impl Fn(&T) -> String) -> String {
    let mut o = String::from("[");
    for (k, x) in l.iter().enumerate() {
        if k > 0 {
            o.push(' ');
        }
        o.push_str(&f(x));
    }
    o.push(']');
    o
}

pub fn opt<T>(v: &Option<T>, f: impl Fn(&T) -> String) -> String {
    match v {
        None => "None".to_string(),
        Some(x) => c("Some", &[f(x)]),
    }
}

pub fn n<T: Into<u64>>(v: T) -> String {
    format!("{}", v.into())
}

/// replace the `A<addr>` positions printed in `abs` mode by caller-relative offsets, `b<off>` for the
/// defragmenter's buffer, or `!` when the slice lies in neither
pub fn fixup(s: &str, ctx: &Ctx) -> String {
    let b = s.as_bytes();
    let mut out = String::with_capacity(s.len());
    let mut i = 0;
    while i < b.len() {
        if (b[i] == b'#' || b[i] == b'@') && i + 1 < b.len() && b[i + 1] == b'A' {
            let kind = b[i];
            let mut j = i + 2;
            let mut addr: usize = 0;
            while j < b.len() && b[j].is_ascii_digit() {
                addr = addr * 10 + (b[j] - b'0') as usize;
                j += 1;
            }
            // length: for '#': hex digits after ':' / 2 ; for '@': decimal after '+'
            let mut len = 0usize;
            if kind == b'#' {
                let mut k = j + 1;
                while k < b.len() && b[k].is_ascii_hexdigit() {
                    k += 1;
                }
                len = (k - (j + 1)) / 2;
            } else {
                let mut k = j + 1;
                while k < b.len() && b[k].is_ascii_digit() {
                    len = len * 10 + (b[k] - b'0') as usize;
                    k += 1;
                }
            }
            out.push(kind as char);
            if addr >= ctx.base && addr + len <= ctx.base + ctx.len {
                out.push_str(&format!("{}", addr - ctx.base));
            } else if ctx.buf_len > 0 && addr >= ctx.buf_base && addr + len <= ctx.buf_base + ctx.buf_len {
                out.push_str(&format!("b{}", addr - ctx.buf_base));
            } else {
                out.push('!');
            }
            i = j;
        } else {
            out.push(b[i] as char);
            i += 1;
        }
    }
    out
}
