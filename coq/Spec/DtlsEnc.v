(* RFC 6347 wire encoders (specification side): 13-byte record header with 16-bit epoch and 48-bit
   sequence number; 12-byte handshake header; ClientHello with cookie; HelloVerifyRequest. *)
From TlsModel Require Export Bytes Values Wire Strip.

Definition enc_dtls_hdr (h : DTLSRecordHeader) : list byte :=
  u8 (d_type h) ++ u16 (d_version h) ++ u16 (d_epoch h) ++ u48 (d_seq h) ++ u16 (d_len h).
Definition enc_dtls_record (ct ver epoch seq : N) (payload : list byte) : list byte :=
  u8 ct ++ u16 ver ++ u16 epoch ++ u48 seq ++ vec16 payload.

Definition enc_dtls_client_hello (c : DTLSClientHelloC) : list byte :=
  u16 (dch_version c) ++ bytes (dch_random c) ++ enc_sid (dch_sid c) ++ vec8 (bytes (dch_cookie c)) ++
  vec16 (cat u16 (dch_ciphers c)) ++ vec8 (cat u8 (dch_comp c)) ++ enc_optext (dch_ext c).

(* the six bodies the DTLS dispatcher decodes *)
Definition enc_dtls_body (b : DTLSBody) : list byte :=
  match b with
  | DClientHello c => enc_dtls_client_hello c
  | DHelloVerifyRequest v c => u16 v ++ vec8 (bytes c)
  | DServerHello c => enc_server_hello c
  | DCertificate l => vec24 (cat (fun s => vec24 (bytes s)) l)
  | DServerDone s => bytes s
  | DClientKeyExchange (CkeUnknown s) => bytes s
  | DFragment s => bytes s
  | _ => []
  end.
(* type, length u24, message_seq u16, fragment_offset u24, fragment_length u24, fragment *)
Definition enc_dtls_hs (ty len mseq foff : N) (frag : list byte) : list byte :=
  u8 ty ++ u24 len ++ u16 mseq ++ u24 foff ++ u24 (lenN frag) ++ frag.

Definition strip_dbody (b : DTLSBody) : DTLSBody :=
  match b with
  | DClientHello c => DClientHello (mkDCH (dch_version c) (ss (dch_random c)) (so (dch_sid c)) (ss (dch_cookie c))
                                          (dch_ciphers c) (dch_comp c) (so (dch_ext c)))
  | DHelloVerifyRequest v c => DHelloVerifyRequest v (ss c)
  | DServerHello c => DServerHello (strip_sh c)
  | DCertificate l => DCertificate (map ss l)
  | DServerDone s => DServerDone (ss s)
  | DClientKeyExchange c => DClientKeyExchange (strip_cke c)
  | DFragment s => DFragment (ss s)
  | other => other
  end.
