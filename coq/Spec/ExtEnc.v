(* C05 specification: wire encoding of extensions (type u16, length u16, content) per RFC 6066,
   4492/8422, 7301, 6962, 7685, 7366, 7627, 8449, 5077, 8446, 6520, 5746, the ESNI and NPN drafts
   and RFC 8701 (GREASE); the IANA code points; well-formedness.  Written from the RFCs. *)
From TlsModel Require Export Bytes Values Wire Strip.

(* IANA TLS ExtensionType values of the 26 typed variants; GREASE and unknown carry their own *)
Definition iana_type (e : TlsExtension) : N :=
  match e with
  | ESNI _ => 0 | EMaxFragmentLength _ => 1 | EStatusRequest _ => 5 | EEllipticCurves _ => 10
  | EEcPointFormats _ => 11 | ESignatureAlgorithms _ => 13 | EHeartbeat _ => 15 | EALPN _ => 16
  | ESignedCertificateTimestamp _ => 18 | EPadding _ => 21 | EEncryptThenMac => 22
  | EExtendedMasterSecret => 23 | ERecordSizeLimit _ => 28 | ESessionTicket _ => 35
  | EKeyShareOld _ => 40 | EPreSharedKey _ => 41 | EEarlyData _ => 42 | ESupportedVersions _ => 43
  | ECookie _ => 44 | EPskExchangeModes _ => 45 | EOidFilters _ => 48 | EPostHandshakeAuth => 49
  | EKeyShare _ => 51 | ENextProtocolNegotiation => 13172 | ERenegotiationInfo _ => 65281
  | EEncryptedServerName _ _ _ _ _ => 65486
  | EGrease t _ => t | EUnknown t _ => t
  end.
(* RFC 8701: 0x0A0A, 0x1A1A, ..., 0xFAFA *)
Definition is_grease (t : N) : bool := (t / 256 =? t mod 256) && (t mod 16 =? 10) && ((t / 16) mod 16 =? (t / 4096) mod 16).
Definition is_grease_simple (t : N) : bool := existsb (N.eqb t)
  [2570; 6682; 10794; 14906; 19018; 23130; 27242; 31354; 35466; 39578; 43690; 47802; 51914; 56026; 60138; 64250].

Definition enc_ext_content (e : TlsExtension) : list byte :=
  match e with
  | ESNI [] => []                                    (* server form: empty *)
  | ESNI l => vec16 (cat (fun p => u8 (fst p) ++ vec16 (bytes (snd p))) l)
  | EMaxFragmentLength v => u8 v
  | EStatusRequest None => []
  | EStatusRequest (Some (t, s)) => u8 t ++ bytes s
  | EEllipticCurves l => vec16 (cat u16 l)
  | EEcPointFormats s => vec8 (bytes s)
  | ESignatureAlgorithms l => vec16 (cat u16 l)
  | ERecordSizeLimit v => u16 v
  | ESessionTicket s | EKeyShareOld s | EKeyShare s | EPreSharedKey s | ECookie s | EPadding s => bytes s
  | EEarlyData None => []
  | EEarlyData (Some v) => u32 v
  | ESupportedVersions [v] => u16 v                  (* server form: the selected version *)
  | ESupportedVersions l => vec8 (cat u16 l)         (* client form: a list *)
  | EPskExchangeModes l => vec8 l
  | EHeartbeat v => u8 v
  | EALPN l => vec16 (cat (fun s => vec8 (bytes s)) l)
  | ESignedCertificateTimestamp None => []
  | ESignedCertificateTimestamp (Some s) => vec16 (bytes s)
  | EEncryptThenMac | EExtendedMasterSecret | EPostHandshakeAuth | ENextProtocolNegotiation => []
  | EOidFilters l => vec16 (cat (fun p => vec8 (bytes (fst p)) ++ vec16 (bytes (snd p))) l)
  | ERenegotiationInfo s => vec8 (bytes s)
  | EEncryptedServerName c g k r e => u16 c ++ u16 g ++ vec16 (bytes k) ++ vec16 (bytes r) ++ vec16 (bytes e)
  | EGrease _ s | EUnknown _ s => bytes s
  end.
Definition enc_ext (e : TlsExtension) : list byte := u16 (iana_type e) ++ vec16 (enc_ext_content e).

Definition strip_ext (e : TlsExtension) : TlsExtension :=
  match e with
  | ESNI l => ESNI (map (fun p => (fst p, ss (snd p))) l)
  | EStatusRequest (Some (t, s)) => EStatusRequest (Some (t, ss s))
  | EEcPointFormats s => EEcPointFormats (ss s)
  | ESessionTicket s => ESessionTicket (ss s) | EKeyShareOld s => EKeyShareOld (ss s) | EKeyShare s => EKeyShare (ss s)
  | EPreSharedKey s => EPreSharedKey (ss s) | ECookie s => ECookie (ss s) | EPadding s => EPadding (ss s)
  | EALPN l => EALPN (map ss l)
  | ESignedCertificateTimestamp (Some s) => ESignedCertificateTimestamp (Some (ss s))
  | EOidFilters l => EOidFilters (map (fun p => (ss (fst p), ss (snd p))) l)
  | ERenegotiationInfo s => ERenegotiationInfo (ss s)
  | EEncryptedServerName c g k r e => EEncryptedServerName c g (ss k) (ss r) (ss e)
  | EGrease t s => EGrease t (ss s) | EUnknown t s => EUnknown t (ss s)
  | other => other
  end.
Definition ext_eqv (a b : TlsExtension) : Prop := strip_ext a = strip_ext b.

Definition all16 (l : list N) : Prop := Forall (fun v => v < 65536) l.
Definition wf_ext (e : TlsExtension) : Prop :=
  lenN (enc_ext_content e) < 65536 /\
  match e with
  | ESNI l => Forall (fun p => fst p < 256 /\ slen (snd p) < 65536) l
  | EMaxFragmentLength v | EHeartbeat v => v < 256
  | EStatusRequest (Some (t, _)) => t < 256
  | EEllipticCurves l | ESignatureAlgorithms l => all16 l
  | EEcPointFormats s | ERenegotiationInfo s => slen s < 256
  | ERecordSizeLimit v => v < 65536
  | EEarlyData (Some v) => v < 4294967296
  | ESupportedVersions l => all16 l /\ 2 * lenN l < 256
  | EPskExchangeModes l => lenN l < 256
  | EALPN l => Forall (fun s => slen s < 256) l
  | EOidFilters l => Forall (fun p => slen (fst p) < 256 /\ slen (snd p) < 65536) l
  | EEncryptedServerName c g k r e => c < 65536 /\ g < 65536 /\ slen k < 65536 /\ slen r < 65536 /\ slen e < 65536
  | EGrease t _ => t < 65536 /\ is_grease_simple t = true
  | EUnknown t _ => t < 65536 /\ is_grease_simple t = false
  | _ => True
  end.
