(* Direct oracles: spec-side expectations, printed as patterns understood by ./check:
     "= <canonical>"   exact output required
     "~ <canonical>"   equal modulo slice offsets
     "ok-rem @o+l"     Ok with exactly this remainder, or an error; never Incomplete
     "reject" / "error" / "notinc" / "any"  *)
From Coq Require Import String.
From TlsModel Require Import Show Entries RecordSpec.

Definition spec_exact {A} (f : A -> sx) (r : res A) : list byte := (str "= " ++ show_res f r)%list.

Definition spec_entries_tls : list (string * entry_fn) := [
  ("spec.parse_tls_raw_record", fun _ b => spec_exact sx_raw (framing_spec_raw (mkS 0 b)));
  ("spec.parse_tls_encrypted", fun _ b => spec_exact sx_enc (framing_spec_enc (mkS 0 b)));
  ("spec.parse_tls_plaintext", fun _ b =>
     match framing_spec (mkS 0 b) with
     | FrIncomplete m => (str "= (inc " ++ dec m ++ str ")")%list
     | FrTooLarge s => (str "= (err TooLarge " ++ show_at s ++ str ")")%list
     | FrOk h p r => (str "ok-rem " ++ show_at r)%list
     end)
]%string.
