(* C02: the record framing contract, written directly from the property text. *)
From TlsModel Require Export Bytes Nom Values.

Definition RECORD_CAP : N := 2 ^ 14 + 256.

(* a truncated 5-byte header reports the bytes missing for the field being read
   (u8 type, u16 version, u16 length) *)
Definition hdr_need (n : N) : N :=
  if n =? 0 then 1 else if n =? 1 then 2 else if n =? 2 then 1 else if n =? 3 then 2 else 1.

Inductive framing :=
| FrIncomplete (missing : N)
| FrTooLarge (at_ : slice)
| FrOk (hdr : TlsRecordHeader) (payload : slice) (rest : slice).

Definition framing_spec (i : slice) : framing :=
  let b := bytes i in
  let n := lenN b in
  if n <? 5 then FrIncomplete (hdr_need n) else
  let ty := be_val (takeN b 1) in
  let ver := be_val (takeN (dropN b 1) 2) in
  let len := be_val (takeN (dropN b 3) 2) in
  if RECORD_CAP <? len then FrTooLarge (sdrop i 5) else
  if n <? 5 + len then FrIncomplete (5 + len - n) else
  FrOk (mkHdr ty ver len) (mkS (off i + 5) (takeN (dropN b 5) len)) (sdrop i (5 + len)).

Definition framing_spec_raw (i : slice) : res TlsRawRecord :=
  match framing_spec i with
  | FrIncomplete m => Incomplete (Size m)
  | FrTooLarge s => Err s KTooLarge
  | FrOk h p r => Ok r (mkRaw h p)
  end.
Definition framing_spec_enc (i : slice) : res TlsEncrypted :=
  match framing_spec i with
  | FrIncomplete m => Incomplete (Size m)
  | FrTooLarge s => Err s KTooLarge
  | FrOk h p r => Ok r (mkEnc h p)
  end.
