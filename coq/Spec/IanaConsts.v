(* Frozen copy of the IANA / RFC assignments for the registries the crate exposes
   (TLS ContentType, HandshakeType, versions, alerts, ExtensionType, Supported Groups, SignatureScheme,
   HashAlgorithm, SignatureAlgorithm, compression, heartbeat, EC curve type, SNI name type,
   certificate status type, CT version, PSK key exchange mode, KeyUpdate request),
   each value reviewed against the registries (2026).  This file is the specification: it is
   NOT regenerated from the code. *)
From Coq Require Import String NArith List.
Import ListNotations.
Open Scope N_scope. Open Scope string_scope.

Definition iana_TlsRecordType : list (string * N) := [
  ("ChangeCipherSpec", 20);
  ("Alert", 21);
  ("Handshake", 22);
  ("ApplicationData", 23);
  ("Heartbeat", 24)
].
Definition iana_TlsHandshakeType : list (string * N) := [
  ("HelloRequest", 0);
  ("ClientHello", 1);
  ("ServerHello", 2);
  ("HelloVerifyRequest", 3);
  ("NewSessionTicket", 4);
  ("EndOfEarlyData", 5);
  ("HelloRetryRequest", 6);
  ("EncryptedExtensions", 8);
  ("Certificate", 11);
  ("ServerKeyExchange", 12);
  ("CertificateRequest", 13);
  ("ServerDone", 14);
  ("CertificateVerify", 15);
  ("ClientKeyExchange", 16);
  ("Finished", 20);
  ("CertificateURL", 21);
  ("CertificateStatus", 22);
  ("KeyUpdate", 24);
  ("NextProtocol", 67)
].
Definition iana_TlsVersion : list (string * N) := [
  ("Ssl30", 768);
  ("Tls10", 769);
  ("Tls11", 770);
  ("Tls12", 771);
  ("Tls13", 772);
  ("Tls13Draft18", 32530);
  ("Tls13Draft19", 32531);
  ("Tls13Draft20", 32532);
  ("Tls13Draft21", 32533);
  ("Tls13Draft22", 32534);
  ("Tls13Draft23", 32535);
  ("DTls10", 65279);
  ("DTls11", 65278);
  ("DTls12", 65277)
].
Definition iana_TlsHeartbeatMessageType : list (string * N) := [
  ("HeartBeatRequest", 1);
  ("HeartBeatResponse", 2)
].
Definition iana_TlsCompressionID : list (string * N) := [
  ("Null", 0);
  ("Deflate", 1)
].
Definition iana_KeyUpdateRequest : list (string * N) := [
  ("NotRequested", 0);
  ("Requested", 1)
].
Definition iana_TlsAlertSeverity : list (string * N) := [
  ("Warning", 1);
  ("Fatal", 2)
].
Definition iana_TlsAlertDescription : list (string * N) := [
  ("CloseNotify", 0);
  ("UnexpectedMessage", 10);
  ("BadRecordMac", 20);
  ("DecryptionFailed", 21);
  ("RecordOverflow", 22);
  ("DecompressionFailure", 30);
  ("HandshakeFailure", 40);
  ("NoCertificate", 41);
  ("BadCertificate", 42);
  ("UnsupportedCertificate", 43);
  ("CertificateRevoked", 44);
  ("CertificateExpired", 45);
  ("CertificateUnknown", 46);
  ("IllegalParameter", 47);
  ("UnknownCa", 48);
  ("AccessDenied", 49);
  ("DecodeError", 50);
  ("DecryptError", 51);
  ("ExportRestriction", 60);
  ("ProtocolVersion", 70);
  ("InsufficientSecurity", 71);
  ("InternalError", 80);
  ("InappropriateFallback", 86);
  ("UserCancelled", 90);
  ("NoRenegotiation", 100);
  ("MissingExtension", 109);
  ("UnsupportedExtension", 110);
  ("CertUnobtainable", 111);
  ("UnrecognizedName", 112);
  ("BadCertStatusResponse", 113);
  ("BadCertHashValue", 114);
  ("UnknownPskIdentity", 115);
  ("CertificateRequired", 116);
  ("NoApplicationProtocol", 120)
].
Definition iana_TlsExtensionType : list (string * N) := [
  ("ServerName", 0);
  ("MaxFragmentLength", 1);
  ("ClientCertificate", 2);
  ("TrustedCaKeys", 3);
  ("TruncatedHMac", 4);
  ("StatusRequest", 5);
  ("UserMapping", 6);
  ("ClientAuthz", 7);
  ("ServerAuthz", 8);
  ("CertType", 9);
  ("SupportedGroups", 10);
  ("EcPointFormats", 11);
  ("Srp", 12);
  ("SignatureAlgorithms", 13);
  ("UseSrtp", 14);
  ("Heartbeat", 15);
  ("ApplicationLayerProtocolNegotiation", 16);
  ("StatusRequestv2", 17);
  ("SignedCertificateTimestamp", 18);
  ("ClientCertificateType", 19);
  ("ServerCertificateType", 20);
  ("Padding", 21);
  ("EncryptThenMac", 22);
  ("ExtendedMasterSecret", 23);
  ("TokenBinding", 24);
  ("CachedInfo", 25);
  ("RecordSizeLimit", 28);
  ("SessionTicketTLS", 35);
  ("KeyShareOld", 40);
  ("PreSharedKey", 41);
  ("EarlyData", 42);
  ("SupportedVersions", 43);
  ("Cookie", 44);
  ("PskExchangeModes", 45);
  ("TicketEarlyDataInfo", 46);
  ("CertificateAuthorities", 47);
  ("OidFilters", 48);
  ("PostHandshakeAuth", 49);
  ("SigAlgorithmsCert", 50);
  ("KeyShare", 51);
  ("NextProtocolNegotiation", 13172);
  ("Grease", 64250);
  ("RenegotiationInfo", 65281);
  ("EncryptedServerName", 65486)
].
Definition iana_PskKeyExchangeMode : list (string * N) := [
  ("Psk", 0);
  ("PskDhe", 1)
].
Definition iana_SNIType : list (string * N) := [
  ("HostName", 0)
].
Definition iana_CertificateStatusType : list (string * N) := [
  ("OCSP", 1)
].
Definition iana_NamedGroup : list (string * N) := [
  ("Sect163k1", 1);
  ("Sect163r1", 2);
  ("Sect163r2", 3);
  ("Sect193r1", 4);
  ("Sect193r2", 5);
  ("Sect233k1", 6);
  ("Sect233r1", 7);
  ("Sect239k1", 8);
  ("Sect283k1", 9);
  ("Sect283r1", 10);
  ("Sect409k1", 11);
  ("Sect409r1", 12);
  ("Sect571k1", 13);
  ("Sect571r1", 14);
  ("Secp160k1", 15);
  ("Secp160r1", 16);
  ("Secp160r2", 17);
  ("Secp192k1", 18);
  ("Secp192r1", 19);
  ("Secp224k1", 20);
  ("Secp224r1", 21);
  ("Secp256k1", 22);
  ("Secp256r1", 23);
  ("Secp384r1", 24);
  ("Secp521r1", 25);
  ("BrainpoolP256r1", 26);
  ("BrainpoolP384r1", 27);
  ("BrainpoolP512r1", 28);
  ("EcdhX25519", 29);
  ("EcdhX448", 30);
  ("BrainpoolP256r1tls13", 31);
  ("BrainpoolP384r1tls13", 32);
  ("BrainpoolP512r1tls13", 33);
  ("Sm2", 41);
  ("Ffdhe2048", 256);
  ("Ffdhe3072", 257);
  ("Ffdhe4096", 258);
  ("Ffdhe6144", 259);
  ("Ffdhe8192", 260);
  ("ArbitraryExplicitPrimeCurves", 65281);
  ("ArbitraryExplicitChar2Curves", 65282)
].
Definition iana_ECCurveType : list (string * N) := [
  ("ExplicitPrime", 1);
  ("ExplicitChar2", 2);
  ("NamedGroup", 3)
].
Definition iana_HashAlgorithm : list (string * N) := [
  ("None", 0);
  ("Md5", 1);
  ("Sha1", 2);
  ("Sha224", 3);
  ("Sha256", 4);
  ("Sha384", 5);
  ("Sha512", 6);
  ("Intrinsic", 8)
].
Definition iana_SignAlgorithm : list (string * N) := [
  ("Anonymous", 0);
  ("Rsa", 1);
  ("Dsa", 2);
  ("Ecdsa", 3);
  ("Ed25519", 7);
  ("Ed448", 8)
].
Definition iana_SignatureScheme : list (string * N) := [
  ("rsa_pkcs1_sha256", 1025);
  ("rsa_pkcs1_sha384", 1281);
  ("rsa_pkcs1_sha512", 1537);
  ("ecdsa_secp256r1_sha256", 1027);
  ("ecdsa_secp384r1_sha384", 1283);
  ("ecdsa_secp521r1_sha512", 1539);
  ("sm2sig_sm3", 1800);
  ("rsa_pss_rsae_sha256", 2052);
  ("rsa_pss_rsae_sha384", 2053);
  ("rsa_pss_rsae_sha512", 2054);
  ("ed25519", 2055);
  ("ed448", 2056);
  ("rsa_pss_pss_sha256", 2057);
  ("rsa_pss_pss_sha384", 2058);
  ("rsa_pss_pss_sha512", 2059);
  ("ecdsa_brainpoolP256r1tls13_sha256", 2074);
  ("ecdsa_brainpoolP384r1tls13_sha384", 2075);
  ("ecdsa_brainpoolP512r1tls13_sha512", 2076);
  ("rsa_pkcs1_sha1", 513);
  ("ecdsa_sha1", 515)
].
Definition iana_CtVersion : list (string * N) := [
  ("V1", 0)
].
Definition iana_all : list (string * list (string * N)) := [
  ("TlsRecordType", iana_TlsRecordType);
  ("TlsHandshakeType", iana_TlsHandshakeType);
  ("TlsVersion", iana_TlsVersion);
  ("TlsHeartbeatMessageType", iana_TlsHeartbeatMessageType);
  ("TlsCompressionID", iana_TlsCompressionID);
  ("KeyUpdateRequest", iana_KeyUpdateRequest);
  ("TlsAlertSeverity", iana_TlsAlertSeverity);
  ("TlsAlertDescription", iana_TlsAlertDescription);
  ("TlsExtensionType", iana_TlsExtensionType);
  ("PskKeyExchangeMode", iana_PskKeyExchangeMode);
  ("SNIType", iana_SNIType);
  ("CertificateStatusType", iana_CertificateStatusType);
  ("NamedGroup", iana_NamedGroup);
  ("ECCurveType", iana_ECCurveType);
  ("HashAlgorithm", iana_HashAlgorithm);
  ("SignAlgorithm", iana_SignAlgorithm);
  ("SignatureScheme", iana_SignatureScheme);
  ("CtVersion", iana_CtVersion)
].
