(* Equality of values modulo slice offsets: [strip_*] erases every offset. Round-trip
   theorems are stated modulo strip; where the slices point is C06's subject. *)
From TlsModel Require Export Bytes Values.

Definition ss (s : slice) : slice := mkS 0 (bytes s).
Definition so (o : option slice) : option slice := option_map ss o.
Definition strip_ch (c : ClientHelloC) := mkCH (ch_version c) (ss (ch_random c)) (so (ch_sid c)) (ch_ciphers c) (ch_comp c) (so (ch_ext c)).
Definition strip_sh (c : ServerHelloC) := mkSH (sh_version c) (ss (sh_random c)) (so (sh_sid c)) (sh_cipher c) (sh_comp c) (so (sh_ext c)).
Definition strip_cke (c : ClientKeyExchangeC) :=
  match c with CkeDh s => CkeDh (ss s) | CkeEcdh s => CkeEcdh (ss s) | CkeUnknown s => CkeUnknown (ss s) end.
Definition strip_hs (h : TlsMessageHandshake) : TlsMessageHandshake :=
  match h with
  | HHelloRequest => HHelloRequest
  | HClientHello c => HClientHello (strip_ch c)
  | HServerHello c => HServerHello (strip_sh c)
  | HServerHelloV13Draft18 c => HServerHelloV13Draft18 (mkSH13 (sh13_version c) (ss (sh13_random c)) (sh13_cipher c) (so (sh13_ext c)))
  | HNewSessionTicket h t => HNewSessionTicket h (ss t)
  | HEndOfEarlyData => HEndOfEarlyData
  | HHelloRetryRequest c => HHelloRetryRequest (mkHRR (hrr_version c) (hrr_cipher c) (so (hrr_ext c)))
  | HCertificate l => HCertificate (map ss l)
  | HServerKeyExchange s => HServerKeyExchange (ss s)
  | HCertificateRequest c => HCertificateRequest (mkCR (cr_types c) (cr_sigalgs c) (map ss (cr_ca c)))
  | HServerDone s => HServerDone (ss s)
  | HCertificateVerify s => HCertificateVerify (ss s)
  | HClientKeyExchange c => HClientKeyExchange (strip_cke c)
  | HFinished s => HFinished (ss s)
  | HCertificateStatus t b => HCertificateStatus t (ss b)
  | HNextProtocol a b => HNextProtocol (ss a) (ss b)
  | HKeyUpdate v => HKeyUpdate v
  end.
Definition strip_msg (m : TlsMessage) : TlsMessage :=
  match m with
  | MHandshake h => MHandshake (strip_hs h)
  | MChangeCipherSpec => MChangeCipherSpec
  | MAlert s c => MAlert s c
  | MApplicationData b => MApplicationData (ss b)
  | MHeartbeat t l p => MHeartbeat t l (ss p)
  end.
Definition msg_eqv (a b : TlsMessage) : Prop := strip_msg a = strip_msg b.
Definition msgs_eqv (a b : list TlsMessage) : Prop := Forall2 msg_eqv a b.
