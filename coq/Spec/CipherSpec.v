(* C12 specification: meaning of the columns of scripts/tls-ciphersuites.txt (token -> parameter,
   written from the property text and the IANA registry vocabulary), size rules, and the
   implications from IANA name tokens to parameters. *)
From Coq Require Import String Ascii NArith List Bool.
From TlsModel Require Import CipherTypes.
Import ListNotations.
Open Scope string_scope.
Open Scope N_scope.

Definition hexval (c : ascii) : option N :=
  let n := N_of_ascii c in
  if (48 <=? n) && (n <=? 57) then Some (n - 48)
  else if (97 <=? n) && (n <=? 102) then Some (n - 87)
  else if (65 <=? n) && (n <=? 70) then Some (n - 55) else None.
Fixpoint parse_hex (s : string) (acc : N) : option N :=
  match s with
  | EmptyString => Some acc
  | String c r => match hexval c with Some v => parse_hex r (acc * 16 + v) | None => None end
  end.
Fixpoint parse_decs (s : string) (acc : N) : option N :=
  match s with
  | EmptyString => Some acc
  | String c r => let n := N_of_ascii c in
                  if (48 <=? n) && (n <=? 57) then parse_decs r (acc * 10 + (n - 48)) else None
  end.
Definition nonempty (s : string) : bool := match s with EmptyString => false | _ => true end.

Fixpoint assoc_s {A} (k : string) (l : list (string * A)) : option A :=
  match l with [] => None | (k', v) :: t => if String.eqb k k' then Some v else assoc_s k t end.

Definition kx_tokens := [("NULL", KxNull); ("PSK", KxPsk); ("KRB5", KxKrb5); ("SRP", KxSrp); ("RSA", KxRsa); ("DH", KxDh);
  ("DHE", KxDhe); ("ECDH", KxEcdh); ("ECDHE", KxEcdhe); ("AECDH", KxAecdh); ("ECCPWD", KxEccpwd); ("TLS13", KxTls13)].
Definition au_tokens := [("NULL", AuNull); ("PSK", AuPsk); ("KRB5", AuKrb5); ("SRP", AuSrp); ("SRP+DSS", AuSrp_Dss);
  ("SRP+RSA", AuSrp_Rsa); ("DSS", AuDss); ("RSA", AuRsa); ("DHE", AuDhe); ("ECDSA", AuEcdsa); ("ECCPWD", AuEccpwd); ("TLS13", AuTls13)].
Definition enc_tokens := [("NULL", EncNull); ("DES", EncDes); ("3DES", EncTripleDes); ("RC2", EncRc2); ("RC4", EncRc4);
  ("ARIA", EncAria); ("IDEA", EncIdea); ("SEED", EncSeed); ("AES", EncAes); ("CAMELLIA", EncCamellia);
  ("CHACHA20_POLY1305", EncChacha20_Poly1305); ("SM4", EncSm4); ("AEGIS", EncAegis)].
Definition mode_tokens := [("", ModeNull); ("NULL", ModeNull); ("CBC", ModeCbc); ("CCM", ModeCcm); ("GCM", ModeGcm)].
Definition mac_tokens := [("NULL", MacNull); ("HMAC-MD5", MacHmacMd5); ("HMAC-SHA1", MacHmacSha1); ("HMAC-SHA256", MacHmacSha256);
  ("HMAC-SHA384", MacHmacSha384); ("HMAC-SHA512", MacHmacSha512); ("AEAD", MacAead)].
Definition prf_tokens := [("DEFAULT", PrfDefault); ("NULL", PrfNull); ("MD5ANDSHA1", PrfMd5AndSha1); ("SHA1", PrfSha1);
  ("SHA256", PrfSha256); ("SHA384", PrfSha384); ("SHA512", PrfSha512); ("SM3", PrfSm3)].

(* id(hex):name:kx:au:enc:mode:key bits:mac:mac bits:prf *)
Definition interp_row (cols : list string) : option cipher_row :=
  match cols with
  | [id; name; kx; au; enc; mode; bits; mac; macbits; prf] =>
      match parse_hex id 0, assoc_s kx kx_tokens, assoc_s au au_tokens, assoc_s enc enc_tokens,
            assoc_s mode mode_tokens, parse_decs bits 0, assoc_s mac mac_tokens, parse_decs macbits 0,
            assoc_s prf prf_tokens with
      | Some i, Some k, Some a, Some e, Some m, Some b, Some mc, Some mb, Some p =>
          if nonempty id && nonempty bits && nonempty macbits then Some (mkRow i name k a e m b mc mb p 0 0 0) else None
      | _, _, _, _, _, _, _, _, _ => None
      end
  | _ => None
  end.
Fixpoint interp_all (rows : list (list string)) : option (list cipher_row) :=
  match rows with
  | [] => Some []
  | r :: t => match interp_row r, interp_all t with Some x, Some l => Some (x :: l) | _, _ => None end
  end.

(* size rules of the property *)
Definition block_spec (e : TlsCipherEnc) : N :=
  match e with
  | EncDes | EncTripleDes | EncIdea | EncRc2 => 8
  | EncAes | EncAria | EncCamellia | EncSeed | EncSm4 => 16
  | _ => 0
  end.
Definition mac_len_ok (r : cipher_row) (len : N) : bool :=
  match c_mac r with
  | MacNull | MacAead => len =? 0
  | _ => (len =? c_mac_size r / 8) && existsb (N.eqb len) [16; 20; 32; 48; 64]
  end.

(* ---- implications from tokens of the IANA name ---- *)
Fixpoint prefixb (p s : string) : bool :=
  match p, s with
  | EmptyString, _ => true
  | String a p', String b s' => Ascii.eqb a b && prefixb p' s'
  | _, EmptyString => false
  end.
Fixpoint contains (p s : string) : bool :=
  prefixb p s || match s with EmptyString => false | String _ s' => contains p s' end.
Fixpoint suffixb (p s : string) : bool :=
  String.eqb p s || match s with EmptyString => false | String _ s' => suffixb p s' end.

Definition implies (a b : bool) : bool := negb a || b.
Definition kx_is r k := TlsCipherKx_beq (c_kx r) k.
Definition au_is r k := TlsCipherAu_beq (c_au r) k.
Definition enc_is r k := TlsCipherEnc_beq (c_enc r) k.
Definition mode_is r k := TlsCipherEncMode_beq (c_mode r) k.
Definition mac_is r k := TlsCipherMac_beq (c_mac r) k.
Definition prf_is r k := TlsPRF_beq (c_prf r) k.
Definition bits_is r n := c_enc_size r =? n.

Definition name_rules (r : cipher_row) : bool :=
  let n := c_name r in
  let has t := contains t n in
  let aead := mode_is r ModeGcm || mode_is r ModeCcm || enc_is r EncChacha20_Poly1305 || enc_is r EncAegis in
  forallb (fun b => b) [
    (* cipher and key size *)
    implies (has "_AES_128_") (enc_is r EncAes && bits_is r 128);
    implies (has "_AES_256_") (enc_is r EncAes && bits_is r 256);
    implies (has "_3DES_EDE_CBC_") (enc_is r EncTripleDes && bits_is r 168 && mode_is r ModeCbc);
    implies (has "_RC4_128_") (enc_is r EncRc4 && bits_is r 128);
    implies (has "_RC4_40_") (enc_is r EncRc4 && bits_is r 40);
    implies (has "_RC2_CBC_40_") (enc_is r EncRc2 && bits_is r 40 && mode_is r ModeCbc);
    implies (has "_DES_CBC_" && negb (has "_3DES_")) (enc_is r EncDes && mode_is r ModeCbc);
    implies (has "_DES40_CBC_" || has "_DES_CBC_40_") (enc_is r EncDes && bits_is r 40);
    implies (has "_IDEA_CBC_") (enc_is r EncIdea && bits_is r 128 && mode_is r ModeCbc);
    implies (has "_SEED_CBC_") (enc_is r EncSeed && bits_is r 128 && mode_is r ModeCbc);
    implies (has "_CAMELLIA_128_") (enc_is r EncCamellia && bits_is r 128);
    implies (has "_CAMELLIA_256_") (enc_is r EncCamellia && bits_is r 256);
    implies (has "_ARIA_128_") (enc_is r EncAria && bits_is r 128);
    implies (has "_ARIA_256_") (enc_is r EncAria && bits_is r 256);
    implies (has "_SM4_") (enc_is r EncSm4 && bits_is r 128);
    implies (has "_CHACHA20_POLY1305") (enc_is r EncChacha20_Poly1305 && mac_is r MacAead);
    implies (has "_WITH_NULL_") (enc_is r EncNull && bits_is r 0);
    (* mode *)
    implies (has "_GCM") (mode_is r ModeGcm && mac_is r MacAead);
    implies (has "_CCM") (mode_is r ModeCcm && mac_is r MacAead);
    implies (has "_CBC_") (mode_is r ModeCbc);
    (* MAC of non-AEAD suites from the trailing hash token *)
    implies (negb aead && suffixb "_SHA" n) (mac_is r MacHmacSha1 && (c_mac_size r =? 160));
    implies (negb aead && suffixb "_MD5" n) (mac_is r MacHmacMd5 && (c_mac_size r =? 128));
    implies (negb aead && suffixb "_SHA256" n) (mac_is r MacHmacSha256 && (c_mac_size r =? 256));
    implies (negb aead && suffixb "_SHA384" n) (mac_is r MacHmacSha384 && (c_mac_size r =? 384));
    (* PRF of AEAD suites from the trailing hash token *)
    implies (aead && suffixb "_SHA256" n) (prf_is r PrfSha256);
    implies (aead && suffixb "_SHA384" n) (prf_is r PrfSha384);
    (* key exchange / authentication prefixes *)
    implies (prefixb "TLS_RSA_WITH_" n || prefixb "TLS_RSA_EXPORT_WITH_" n) (kx_is r KxRsa && au_is r AuRsa);
    implies (prefixb "TLS_DHE_RSA_" n) (kx_is r KxDhe && au_is r AuRsa);
    implies (prefixb "TLS_DHE_DSS_" n) (kx_is r KxDhe && au_is r AuDss);
    implies (prefixb "TLS_DH_RSA_" n) (kx_is r KxDh && au_is r AuRsa);
    implies (prefixb "TLS_DH_DSS_" n) (kx_is r KxDh && au_is r AuDss);
    implies (prefixb "TLS_DH_anon_" n) (kx_is r KxDh && au_is r AuNull);
    implies (prefixb "TLS_ECDHE_ECDSA_" n) (kx_is r KxEcdhe && au_is r AuEcdsa);
    implies (prefixb "TLS_ECDHE_RSA_" n) (kx_is r KxEcdhe && au_is r AuRsa);
    implies (prefixb "TLS_ECDH_ECDSA_" n) (kx_is r KxEcdh && au_is r AuEcdsa);
    implies (prefixb "TLS_ECDH_RSA_" n) (kx_is r KxEcdh && au_is r AuRsa);
    implies (prefixb "TLS_ECDH_anon_" n) (kx_is r KxEcdh && au_is r AuNull);
    implies (prefixb "TLS_PSK_WITH_" n) (kx_is r KxPsk && au_is r AuPsk);
    implies (prefixb "TLS_PSK_DHE_WITH_" n) (kx_is r KxDhe && au_is r AuPsk);
    implies (prefixb "TLS_DHE_PSK_" n) (kx_is r KxDhe && au_is r AuPsk);
    implies (prefixb "TLS_RSA_PSK_" n) (kx_is r KxRsa && au_is r AuPsk);
    implies (prefixb "TLS_ECDHE_PSK_" n) (kx_is r KxEcdhe && au_is r AuPsk);
    implies (prefixb "TLS_KRB5_" n) (kx_is r KxKrb5 && au_is r AuKrb5);
    implies (prefixb "TLS_SRP_SHA_WITH_" n) (kx_is r KxSrp && au_is r AuSrp);
    implies (prefixb "TLS_SRP_SHA_RSA_" n) (kx_is r KxSrp && au_is r AuSrp_Rsa);
    implies (prefixb "TLS_SRP_SHA_DSS_" n) (kx_is r KxSrp && au_is r AuSrp_Dss);
    implies (prefixb "TLS_ECCPWD_" n) (kx_is r KxEccpwd && au_is r AuEccpwd);
    (* TLS 1.3 names carry no key exchange: TLS_<cipher>_<hash>; signalling values (_SCSV) are not suites *)
    implies (negb (has "_WITH_") && negb (suffixb "_SCSV" n)) (kx_is r KxTls13 && au_is r AuTls13);
    implies (suffixb "_SCSV" n) (kx_is r KxNull && au_is r AuNull && enc_is r EncNull && mac_is r MacNull)
  ].
