(* Specification side: RFC wire encoders for records, messages and handshake
   messages (RFC 5246 7.4, RFC 8446 4, RFC 5077 3.3, RFC 6066 8, NPN draft,
   RFC 6520), written from the RFCs, not from the code.  Slices' offsets are
   irrelevant to encoders: only [bytes] is used. *)
From TlsModel Require Export Bytes Values.

Definition vec8 (b : list byte) : list byte := u8 (lenN b) ++ b.
Definition vec16 (b : list byte) : list byte := u16 (lenN b) ++ b.
Definition vec24 (b : list byte) : list byte := u24 (lenN b) ++ b.
Definition cat {A} (f : A -> list byte) (l : list A) : list byte := concat (map f l).

Definition enc_sid (s : option slice) : list byte :=
  match s with None => u8 0 | Some s => vec8 (bytes s) end.
Definition enc_optext (e : option slice) : list byte :=
  match e with None => [] | Some e => vec16 (bytes e) end.

Definition enc_client_hello (c : ClientHelloC) : list byte :=
  u16 (ch_version c) ++ bytes (ch_random c) ++ enc_sid (ch_sid c) ++
  vec16 (cat u16 (ch_ciphers c)) ++ vec8 (cat u8 (ch_comp c)) ++ enc_optext (ch_ext c).
Definition enc_server_hello (c : ServerHelloC) : list byte :=
  u16 (sh_version c) ++ bytes (sh_random c) ++ enc_sid (sh_sid c) ++
  u16 (sh_cipher c) ++ u8 (sh_comp c) ++ enc_optext (sh_ext c).
Definition enc_cert_request (c : CertRequestC) : list byte :=
  vec8 (cat u8 (cr_types c)) ++
  match cr_sigalgs c with None => [] | Some l => vec16 (cat u16 l) end ++
  vec16 (cat (fun s => vec16 (bytes s)) (cr_ca c)).

Definition hs_type (h : TlsMessageHandshake) : N :=
  match h with
  | HHelloRequest => 0 | HClientHello _ => 1 | HServerHello _ => 2
  | HServerHelloV13Draft18 _ => 2 | HNewSessionTicket _ _ => 4 | HEndOfEarlyData => 5
  | HHelloRetryRequest _ => 6 | HCertificate _ => 11 | HServerKeyExchange _ => 12
  | HCertificateRequest _ => 13 | HServerDone _ => 14 | HCertificateVerify _ => 15
  | HClientKeyExchange _ => 16 | HFinished _ => 20 | HCertificateStatus _ _ => 22
  | HNextProtocol _ _ => 67 | HKeyUpdate _ => 24
  end.

Definition enc_hs_body (h : TlsMessageHandshake) : list byte :=
  match h with
  | HHelloRequest => []
  | HClientHello c => enc_client_hello c
  | HServerHello c => enc_server_hello c
  | HServerHelloV13Draft18 c =>
      u16 (sh13_version c) ++ bytes (sh13_random c) ++ u16 (sh13_cipher c) ++ enc_optext (sh13_ext c)
  | HNewSessionTicket hint t => u32 hint ++ bytes t
  | HEndOfEarlyData => []
  | HHelloRetryRequest c => u16 (hrr_version c) ++ u16 (hrr_cipher c) ++ enc_optext (hrr_ext c)
  | HCertificate l => vec24 (cat (fun s => vec24 (bytes s)) l)
  | HServerKeyExchange s => bytes s
  | HCertificateRequest c => enc_cert_request c
  | HServerDone s => bytes s
  | HCertificateVerify s => bytes s
  | HClientKeyExchange (CkeUnknown s) => bytes s
  | HClientKeyExchange (CkeDh s) => vec16 (bytes s)
  | HClientKeyExchange (CkeEcdh s) => vec8 (bytes s)
  | HFinished s => bytes s
  | HCertificateStatus t b => u8 t ++ vec24 (bytes b)
  | HNextProtocol a b => vec8 (bytes a) ++ vec8 (bytes b)
  | HKeyUpdate v => u8 v
  end.

Definition enc_handshake (h : TlsMessageHandshake) : list byte :=
  u8 (hs_type h) ++ vec24 (enc_hs_body h).

Definition enc_msg (m : TlsMessage) : list byte :=
  match m with
  | MHandshake h => enc_handshake h
  | MChangeCipherSpec => u8 1
  | MAlert s c => u8 s ++ u8 c
  | MApplicationData b => bytes b
  | MHeartbeat t l p => u8 t ++ u16 l ++ bytes p
  end.

Definition enc_hdr (h : TlsRecordHeader) : list byte :=
  u8 (h_type h) ++ u16 (h_version h) ++ u16 (h_len h).
Definition enc_record (ty ver : N) (payload : list byte) : list byte :=
  u8 ty ++ u16 ver ++ vec16 payload.
