(* C08 specification: the documented handshake flows as paths, and the general
   rules with their precedence, written from the property text and RFC 5246 7.3,
   RFC 5077, RFC 6066, TLS 1.3 draft-18.  Frozen; does not depend on the code. *)
From TlsModel Require Export StatesTypes States.

Inductive who := C | S | AnySide.     (* C: to_server = true *)
(* message patterns of a step: handshake kind (ClientHello with/without session id), or CCS *)
Inductive stepmsg := HsM (k : hs_kind) | ChNoSid | ChSid | Ccs.
Definition step := (stepmsg * who * TlsState)%type.     (* message, sender, resulting state *)
Definition flow := (TlsState * list step)%type.          (* start state, path *)

Definition flows : list flow := [
  (* full handshake, server certificate *)
  (SNone, [(ChNoSid, C, SClientHello); (HsM KServerHello, S, SServerHello); (HsM KCertificate, S, SCertificate);
           (HsM KServerKeyExchange, S, SServerKeyExchange); (HsM KServerDone, S, SServerHelloDone);
           (HsM KClientKeyExchange, C, SClientKeyExchange); (Ccs, AnySide, SClientChangeCipherSpec);
           (Ccs, S, SSessionEncrypted)]);
  (* optional CertificateStatus *)
  (SCertificate, [(HsM KCertificateStatus, S, SCertificateSt); (HsM KServerKeyExchange, S, SServerKeyExchange)]);
  (* client certificate requested (after Certificate or after ServerKeyExchange), with CertificateVerify *)
  (SCertificate, [(HsM KCertificateRequest, S, SCRCertRequest); (HsM KServerDone, S, SCRHelloDone);
                  (HsM KCertificate, C, SCRCert); (HsM KClientKeyExchange, C, SCRClientKeyExchange);
                  (HsM KCertificateVerify, C, SCRCertVerify); (Ccs, AnySide, SClientChangeCipherSpec)]);
  (SServerKeyExchange, [(HsM KCertificateRequest, S, SCRCertRequest)]);
  (* ... without CertificateVerify *)
  (SCRClientKeyExchange, [(Ccs, AnySide, SClientChangeCipherSpec)]);
  (* anonymous server *)
  (SServerHello, [(HsM KServerKeyExchange, S, SNoCertSKE); (HsM KServerDone, S, SNoCertHelloDone);
                  (HsM KClientKeyExchange, C, SNoCertCKE); (Ccs, AnySide, SClientChangeCipherSpec)]);
  (* key exchange without ServerKeyExchange *)
  (SCertificate, [(HsM KServerDone, S, SPskHelloDone); (HsM KClientKeyExchange, C, SPskCKE);
                  (Ccs, AnySide, SClientChangeCipherSpec)]);
  (* session resumption, and its fallback to a full handshake *)
  (SNone, [(ChSid, C, SAskResumeSession); (HsM KServerHello, S, SResumeSession); (Ccs, AnySide, SClientChangeCipherSpec)]);
  (SResumeSession, [(HsM KCertificate, S, SCertificate)]);
  (* TLS 1.3 draft-18 1-RTT *)
  (SClientHello, [(HsM KServerHelloV13Draft18, S, SClientChangeCipherSpec)]);
  (* 0-RTT ChangeCipherSpec *)
  (SAskResumeSession, [(Ccs, C, SAskResumeSession)]);
  (* NewSessionTicket after CCS *)
  (SClientChangeCipherSpec, [(HsM KNewSessionTicket, S, SClientChangeCipherSpec)])
].

(* edges = consecutive steps of the paths *)
Fixpoint path_edges (from : TlsState) (p : list step) : list (TlsState * stepmsg * who * TlsState) :=
  match p with
  | [] => []
  | (m, w, to) :: t => (from, m, w, to) :: path_edges to t
  end.
Definition edges : list (TlsState * stepmsg * who * TlsState) :=
  flat_map (fun f => path_edges (fst f) (snd f)) flows.

Definition who_m (w : who) (to_server : bool) : bool :=
  match w with C => to_server | S => negb to_server | AnySide => true end.
Definition stepmsg_m (m : stepmsg) (a : akind) : bool :=
  match m, a with
  | HsM k, AHs k' _ => hs_kind_beq k k' && negb (hs_kind_beq k KClientHello)
  | ChNoSid, AHs KClientHello false => true
  | ChSid, AHs KClientHello true => true
  | Ccs, ACcs => true
  | _, _ => false
  end.
Definition find_edge (st : TlsState) (a : akind) (d : bool) : option TlsState :=
  match find (fun e => let '(from, m, w, _) := e in TlsState_beq from st && stepmsg_m m a && who_m w d) edges with
  | Some (_, _, _, to) => Some to
  | None => None
  end.

(* the rules, in precedence order *)
Definition spec_a (st : TlsState) (a : akind) (d : bool) : option TlsState :=
  match st with
  | SInvalid => Some SInvalid                     (* absorbing, never errors *)
  | SSessionEncrypted => Some SSessionEncrypted   (* absorbing, never errors *)
  | SFinished => Some SInvalid                    (* Finished always moves to Invalid *)
  | _ =>
      match a with
      | AHs k _ =>
          match find_edge st a d with
          | Some to => Some to
          | None =>
              match k with
              | KHelloRequest => match st with SNone => None | _ => Some st end   (* ignored except at start *)
              | _ => None
              end
          end
      | ACcs => find_edge st a d
      | AAlert warning => Some (if warning then st else SFinished)
      | AAppData | AHeartbeat => None
      end
  end.
Definition WARNING : N := 1.                      (* AlertLevel warning(1), RFC 5246 7.2 *)
Definition spec_transition (st : TlsState) (m : mkind) (to_server : bool) : option TlsState :=
  spec_a st (abs_kind WARNING m) to_server.

(* message instances for running a documented path *)
Definition inst (m : stepmsg) : akind :=
  match m with HsM k => AHs k false | ChNoSid => AHs KClientHello false | ChSid => AHs KClientHello true | Ccs => ACcs end.
Definition dirs (w : who) : list bool := match w with C => [true] | S => [false] | AnySide => [true; false] end.
