(* RFC 4492 5.4, RFC 5246 4.7 / 7.4.3, RFC 6962 3.2-3.3 wire encoders (specification side). *)
From TlsModel Require Export Bytes Values Wire.

Definition enc_dh (d : ServerDHParams) : list byte :=
  vec16 (bytes (dh_p d)) ++ vec16 (bytes (dh_g d)) ++ vec16 (bytes (dh_ys d)).
Definition enc_explicit_prime (c : ExplicitPrimeC) : list byte :=
  vec8 (bytes (ep_prime_p c)) ++ vec8 (bytes (ep_a c)) ++ vec8 (bytes (ep_b c)) ++ vec8 (bytes (ep_base c)) ++
  vec8 (bytes (ep_order c)) ++ vec8 (bytes (ep_cofactor c)).
(* ECCurveType: explicit_prime(1), named_curve(3) *)
Definition enc_ecparams (p : ECParameters) : list byte :=
  match ec_content p with
  | EcExplicitPrime c => u8 1 ++ enc_explicit_prime c
  | EcNamedGroup g => u8 3 ++ u16 g
  end.
Definition enc_ecdh (p : ServerECDHParams) : list byte := enc_ecparams (ecdh_params p) ++ vec8 (bytes (ecdh_public p)).
Definition enc_signed (d : DigitallySigned) : list byte :=
  match ds_alg d with
  | Some (h, s) => u8 h ++ u8 s ++ vec16 (bytes (ds_data d))
  | None => vec16 (bytes (ds_data d))
  end.
Definition enc_sct_body (s : SCT) : list byte :=
  u8 (sct_version s) ++ bytes (sct_id s) ++ u64 (sct_timestamp s) ++ vec16 (bytes (sct_ext s)) ++ enc_signed (sct_sig s).
Definition enc_sct (s : SCT) : list byte := vec16 (enc_sct_body s).
Definition enc_sct_list (l : list SCT) : list byte := vec16 (cat enc_sct l).

(* well-formedness = the lengths fit their length fields and integers their widths *)
Definition fits8 (s : slice) : Prop := slen s < 256.
Definition fits16 (s : slice) : Prop := slen s < 65536.
Definition wf_dh (d : ServerDHParams) : Prop := fits16 (dh_p d) /\ fits16 (dh_g d) /\ fits16 (dh_ys d).
Definition wf_ep (c : ExplicitPrimeC) : Prop :=
  fits8 (ep_prime_p c) /\ fits8 (ep_a c) /\ fits8 (ep_b c) /\ fits8 (ep_base c) /\ fits8 (ep_order c) /\ fits8 (ep_cofactor c).
Definition wf_ecparams (p : ECParameters) : Prop :=
  match ec_content p with
  | EcExplicitPrime c => ec_curve_type p = 1 /\ wf_ep c
  | EcNamedGroup g => ec_curve_type p = 3 /\ g < 65536
  end.
Definition wf_ecdh (p : ServerECDHParams) : Prop := wf_ecparams (ecdh_params p) /\ fits8 (ecdh_public p).
Definition wf_signed (d : DigitallySigned) : Prop :=
  fits16 (ds_data d) /\ match ds_alg d with Some (h, s) => h < 256 /\ s < 256 | None => True end.
Definition wf_sct (s : SCT) : Prop :=
  sct_version s < 256 /\ slen (sct_id s) = 32 /\ sct_timestamp s < 2 ^ 64 /\ fits16 (sct_ext s) /\
  wf_signed (sct_sig s) /\ ds_alg (sct_sig s) <> None /\ lenN (enc_sct_body s) < 65536.

(* equality modulo slice offsets *)
From TlsModel Require Import Strip.
Definition strip_dh (d : ServerDHParams) := mkDH (ss (dh_p d)) (ss (dh_g d)) (ss (dh_ys d)).
Definition strip_ep (c : ExplicitPrimeC) :=
  mkEP (ss (ep_prime_p c)) (ss (ep_a c)) (ss (ep_b c)) (ss (ep_base c)) (ss (ep_order c)) (ss (ep_cofactor c)).
Definition strip_ecp (p : ECParameters) :=
  mkECP (ec_curve_type p) match ec_content p with EcExplicitPrime c => EcExplicitPrime (strip_ep c) | EcNamedGroup g => EcNamedGroup g end.
Definition strip_ecdh (p : ServerECDHParams) := mkECDH (strip_ecp (ecdh_params p)) (ss (ecdh_public p)).
Definition strip_ds (d : DigitallySigned) := mkDS (ds_alg d) (ss (ds_data d)).
Definition strip_sct (s : SCT) :=
  mkSCT (sct_version s) (ss (sct_id s)) (sct_timestamp s) (ss (sct_ext s)) (strip_ds (sct_sig s)).
