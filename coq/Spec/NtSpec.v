(* C17 specification side: what the registry tables must be, and the field size stated
   by a curve name of the SEC / Brainpool naming convention. *)
From Coq Require Import String Ascii NArith List Bool.
From TlsModel Require Import IanaConsts.
Import ListNotations.
Open Scope N_scope.

Fixpoint lookup_name (n : N) (l : list (string * N)) : option string :=
  match l with
  | [] => None
  | (k, v) :: t => if v =? n then Some k else lookup_name n t
  end.
Fixpoint iana_of (ty : string) (l : list (string * list (string * N))) : list (string * N) :=
  match l with
  | [] => []
  | (t, c) :: r => if String.eqb t ty then c else iana_of ty r
  end.

Definition is_digit (c : ascii) : bool := let n := N_of_ascii c in (48 <=? n) && (n <=? 57).
Fixpoint leading_number (s : string) (acc : option N) : option N :=
  match s with
  | String c r =>
      if is_digit c then leading_number r (Some (match acc with Some a => a * 10 | None => 0 end + (N_of_ascii c - 48)))
      else acc
  | EmptyString => acc
  end.
Fixpoint strip_prefix (p s : string) : option string :=
  match p, s with
  | EmptyString, _ => Some s
  | String a p', String b s' => if Ascii.eqb a b then strip_prefix p' s' else None
  | _, EmptyString => None
  end.
(* Sect<bits>.., Secp<bits>.., BrainpoolP<bits>..: the number is the field size in bits *)
Definition curve_bits (name : string) : option N :=
  match strip_prefix "Sect" name with
  | Some r => leading_number r None
  | None =>
      match strip_prefix "Secp" name with
      | Some r => leading_number r None
      | None =>
          match strip_prefix "BrainpoolP" name with
          | Some r => leading_number r None
          | None => None
          end
      end
  end.
