(* Generators of well-formed TLS values (within wire limits) and of case
   lines with their spec-derived expectations. *)
From Coq Require Import String.
From TlsModel Require Import GenBase Wire Show.
Open Scope gen_scope.

(* 32-byte randoms: mostly arbitrary, but also the values that protocol code singles out (RFC 8446 4.1.3): the
   HelloRetryRequest magic random, the two downgrade sentinels in the last eight bytes, all-zero, all-ones *)
Definition hrr_magic : list byte := map n2b [207; 33; 173; 116; 229; 154; 97; 17; 190; 29; 140; 2; 30; 101; 184; 145; 194; 162; 17; 22; 122; 187; 140; 94; 7; 158; 9; 226; 200; 168; 51; 156].
Definition downgrade_sentinel (last : N) : list byte := map n2b [68; 79; 87; 78; 71; 82; 68; last].
Definition grandom32 : G slice :=
  freq (gslice 32)
    [ (10, gslice 32);
      (2, gret (mkS 0 hrr_magic));
      (1, do b <- gbytes 24; do l <- rnd 2; gret (mkS 0 (b ++ downgrade_sentinel l)));
      (1, do k <- rnd 32; do b <- gbytes 1; gret (mkS 0 (firstn (N.to_nat k) hrr_magic ++ b ++ skipn (S (N.to_nat k)) hrr_magic)));
      (1, gret (mkS 0 (repeat (n2b 0) 32)));
      (1, gret (mkS 0 (repeat (n2b 255) 32))) ].
Definition gsid : G (option slice) :=
  freq (gret None) [ (3, gret None); (1, do s <- gslice 1; gret (Some s)); (2, do s <- gslice 32; gret (Some s));
                     (2, do n <- rnd 32; do s <- gslice (n + 1); gret (Some s)) ].
Definition gu16list (maxn : N) : G (list N) := do n <- gsmall maxn; glist (N.to_nat n) (gint 16).
Definition gu8list (maxn : N) : G (list N) := do n <- gsmall maxn; glist (N.to_nat n) (gint 8).
Definition gblob (max : N) : G slice := do n <- gsize max; gslice n.
Definition gsmallblob : G slice := do n <- gsmall 60; gslice n.
Definition gext : G (option slice) :=
  freq (gret None) [ (2, gret None); (1, gret (Some (mkS 0 []))); (3, do s <- gsmallblob; gret (Some s)) ].
Definition gversion : G N := freq (gret 771) [ (4, elem 771 [768; 769; 770; 771; 772; 32530; 65279; 65277]); (2, gint 16) ].

Definition gclient_hello : G ClientHelloC :=
  do v <- gversion; do r <- grandom32; do sid <- gsid; do c <- gu16list 40; do co <- gu8list 5; do e <- gext;
  gret (mkCH v r sid c co e).
Definition gserver_hello : G ServerHelloC :=
  do v <- elem 771 [768; 769; 770; 771]; do r <- grandom32; do sid <- gsid; do c <- gint 16; do co <- gint 8;
  do e <- gext;
  gret (mkSH v r sid c co (if v =? 768 then None else e)).
Definition gcert_request : G CertRequestC :=
  do t <- gu8list 6; do sa <- gopt (gu16list 8);
  do n <- gsmall 4; do ca <- glist (N.to_nat n) gsmallblob;
  gret (mkCR t sa ca).

Definition ghandshake : G TlsMessageHandshake :=
  oneof (gret HHelloRequest) [
    gret HHelloRequest;
    (do c <- gclient_hello; gret (HClientHello c));
    (do c <- gserver_hello; gret (HServerHello c));
    (do r <- grandom32; do c <- gint 16; do e <- gext; gret (HServerHelloV13Draft18 (mkSH13 32530 r c e)));
    (do h <- gint 32; do t <- gsmallblob; gret (HNewSessionTicket h t));
    gret HEndOfEarlyData;
    (do v <- gversion; do c <- gint 16; do e <- gext; gret (HHelloRetryRequest (mkHRR v c e)));
    (do n <- gsmall 4; do l <- glist (N.to_nat n) gsmallblob; gret (HCertificate l));
    (do s <- gsmallblob; gret (HServerKeyExchange s));
    (do c <- gcert_request; gret (HCertificateRequest c));
    (do s <- gsmallblob; gret (HServerDone s));
    (do s <- gsmallblob; gret (HCertificateVerify s));
    (do s <- gsmallblob; gret (HClientKeyExchange (CkeUnknown s)));
    (do s <- gsmallblob; gret (HFinished s));
    (do t <- gint 8; do b <- gsmallblob; gret (HCertificateStatus t b));
    (do a <- gsmallblob; do b <- gsmallblob; gret (HNextProtocol a b));
    (do v <- gint 8; gret (HKeyUpdate v)) ].

(* a record payload: (content type, messages, extra padding bytes) *)
Definition gpayload : G (N * list TlsMessage * list byte) :=
  oneof (gret (20, [MChangeCipherSpec], [])) [
    (do n <- rnd 3; gret (20, repeat MChangeCipherSpec (N.to_nat (n + 1)), []));
    (do n <- rnd 3; do l <- glist (N.to_nat (n + 1)) (do s <- gint 8; do c <- gint 8; gret (MAlert s c)); gret (21, l, []));
    (do n <- rnd 3; do l <- glist (N.to_nat (n + 1)) (do h <- ghandshake; gret (MHandshake h)); gret (22, l, []));
    (do b <- gblob 400; gret (23, [MApplicationData b], []));
    (do t <- gint 8; do p <- gsmallblob; do pad <- gsmall 20; do padb <- gbytes pad;
     gret (24, [MHeartbeat t (slen p) p], padb)) ].

Definition line (entry : string) (args : list N) (input : list byte) : list byte :=
  str entry ++ concat (map (fun a => x20 :: dec a) args) ++ x20 :: (match input with [] => [x2d] | _ => hex input end).
(* a case: the line, and the expected canonical output (offsets are dummies) or [] when not known *)
Definition case := (list byte * list byte)%type.
Definition mk_case {A} (entry : string) (args : list N) (input : list byte) (f : A -> sx) (expect : option (list byte * A)) : case :=
  (line entry args input,
   match expect with
   | Some (rest, v) => show_res f (Ok (mkS 0 rest) v)
   | None => []
   end).
Definition gsuffix : G (list byte) :=
  freq (gret []) [ (3, gret []); (2, do n <- gsmall 20; gbytes n) ].

(* valid plaintext records through the three record parsers *)
Definition gcase_record : G (list case) :=
  do pl <- gpayload; let '(ct, msgs, pad) := pl in do ver <- gversion; do suf <- gsuffix;
  let payload := cat enc_msg msgs ++ pad in
  let hdr := mkHdr ct ver (lenN payload) in
  let rec := enc_record ct ver payload in
  gret [ mk_case "parse_tls_plaintext" [] (rec ++ suf) sx_plain (Some (suf, mkPlain hdr msgs));
         mk_case "parse_tls_raw_record" [] (rec ++ suf) sx_raw (Some (suf, mkRaw hdr (mkS 0 payload)));
         mk_case "parse_tls_encrypted" [] (rec ++ suf) sx_enc (Some (suf, mkEnc hdr (mkS 0 payload)));
         mk_case "parse_tls_record_with_header" [ct; ver; lenN payload] payload (slist sx_msg) (Some (pad, msgs)) ].

(* opaque records of every content type and boundary lengths *)
Definition gcase_opaque : G (list case) :=
  do ct <- gint 8; do ver <- gint 16; do n <- freq (gret 0) [ (6, gsize 16640); (1, gret 16384); (1, gret 16385) ];
  do p <- gbytes n; do suf <- gsuffix;
  let hdr := mkHdr ct ver n in
  let rec := enc_record ct ver p in
  gret [ mk_case "parse_tls_raw_record" [] (rec ++ suf) sx_raw (Some (suf, mkRaw hdr (mkS 0 p)));
         mk_case "parse_tls_encrypted" [] (rec ++ suf) sx_enc (Some (suf, mkEnc hdr (mkS 0 p)));
         mk_case "parse_tls_plaintext" [] (rec ++ suf) sx_plain None ].

(* declared length above the cap: must be TooLarge whatever follows *)
Definition gcase_toolarge : G (list case) :=
  do ct <- gint 8; do ver <- gint 16; do n <- freq (gret 16641) [ (2, gret 16641); (1, gret 65535); (3, do k <- rnd (65535 - 16640); gret (16641 + k)) ];
  do k <- gsmall 40; do p <- gbytes k;
  let input := u8 ct ++ u16 ver ++ u16 n ++ p in
  gret [ mk_case "parse_tls_raw_record" [] input sx_raw None;
         mk_case "parse_tls_encrypted" [] input sx_enc None;
         mk_case "parse_tls_plaintext" [] input sx_plain None ].

Definition gcase_handshake : G (list case) :=
  do h <- ghandshake; do suf <- gsuffix;
  gret [ mk_case "parse_tls_message_handshake" [] (enc_handshake h ++ suf) sx_msg (Some (suf, MHandshake h)) ].

Fixpoint gmany (n : nat) (g : G (list case)) : G (list case) :=
  match n with
  | O => gret []
  | S n' => do l <- g; do r <- gmany n' g; gret (l ++ r)
  end.

(* single messages through the message-level entry points *)
Definition gcase_message : G (list case) :=
  do pl <- gpayload; let '(ct, msgs, pad) := pl in do suf <- gsuffix;
  match msgs with
  | m :: _ =>
      let one := enc_msg m in
      gret (match m with
            | MChangeCipherSpec => [mk_case "parse_tls_message_changecipherspec" [] (one ++ suf) sx_msg (Some (suf, m))]
            | MAlert _ _ => [mk_case "parse_tls_message_alert" [] (one ++ suf) sx_msg (Some (suf, m))]
            | MHandshake _ => [mk_case "parse_tls_message_handshake" [] (one ++ suf) sx_msg (Some (suf, m))]
            | MApplicationData _ => [mk_case "parse_tls_message_applicationdata" [] one sx_msg (Some ([], m))]
            | MHeartbeat _ _ _ => [mk_case "parse_tls_message_heartbeat" [lenN one + lenN pad] (one ++ pad) (slist sx_msg) (Some (pad, [m]))]
            end)
  | [] => gret []
  end.

(* several records in one buffer, followed by nothing / a truncated record / an oversized header / garbage *)
Definition grecord : G (list byte * TlsPlaintext) :=
  do pl <- gpayload; let '(ct, msgs, pad) := pl in do ver <- gversion;
  let payload := cat enc_msg msgs ++ pad in
  gret (enc_record ct ver payload, mkPlain (mkHdr ct ver (lenN payload)) msgs).
Definition gcase_multi : G (list case) :=
  do n <- rnd 5; do recs <- glist (N.to_nat n) grecord;
  do kind <- rnd 4;
  do extra <- grecord;
  do cut <- rnd (lenN (fst extra));
  do g <- gsmall 12; do garbage <- gbytes g;
  let tail := if kind =? 0 then [] else if kind =? 1 then takeN (fst extra) cut
              else if kind =? 2 then u8 22 ++ u16 771 ++ u16 16641 ++ garbage else garbage in
  let input := concat (map fst recs) ++ tail in
  let expect := match recs with
                | [] => None
                | _ => if kind =? 3 then None else Some (tail, map snd recs)
                end in
  gret [ mk_case "tls_parser_many" [] input (slist sx_plain) expect;
         mk_case "tls_parser" [] input sx_plain None;
         mk_case "parse_tls_plaintext" [] input sx_plain None ].

(* handshake bodies through the public body-level entry points (exact body, no trailing bytes) *)
Definition gcase_hsbody : G (list case) :=
  do h <- ghandshake;
  let b := enc_hs_body h in
  let n := lenN b in
  gret (match h with
        | HHelloRequest => [mk_case "parse_tls_handshake_msg_hello_request" [] b sx_hs (Some ([], h))]
        | HClientHello c => [mk_case "parse_tls_handshake_msg_client_hello" [] b sx_hs (Some ([], h));
                             mk_case "parse_tls_handshake_client_hello" [] b sx_ch (Some ([], c))]
        | HServerHello c => [mk_case "parse_tls_handshake_msg_server_hello" [] b sx_hs (Some ([], h));
                             mk_case "parse_tls_handshake_server_hello" [] b sx_sh (Some ([], c))]
        | HServerHelloV13Draft18 _ => [mk_case "parse_tls_handshake_msg_server_hello" [] b sx_hs (Some ([], h))]
        | HNewSessionTicket _ _ => [mk_case "parse_tls_handshake_msg_newsessionticket" [n] b sx_hs (Some ([], h))]
        | HEndOfEarlyData => []
        | HHelloRetryRequest _ => [mk_case "parse_tls_handshake_msg_hello_retry_request" [] b sx_hs (Some ([], h))]
        | HCertificate _ => [mk_case "parse_tls_handshake_msg_certificate" [] b sx_hs (Some ([], h))]
        | HServerKeyExchange _ => [mk_case "parse_tls_handshake_msg_serverkeyexchange" [n] b sx_hs (Some ([], h))]
        | HCertificateRequest c => [mk_case "parse_tls_handshake_msg_certificaterequest" [] b sx_hs (Some ([], h));
                                    mk_case "parse_tls_handshake_certificaterequest" [] b sx_cr (Some ([], c))]
        | HServerDone _ => [mk_case "parse_tls_handshake_msg_serverdone" [n] b sx_hs (Some ([], h))]
        | HCertificateVerify _ => [mk_case "parse_tls_handshake_msg_certificateverify" [n] b sx_hs (Some ([], h))]
        | HClientKeyExchange _ => [mk_case "parse_tls_handshake_msg_clientkeyexchange" [n] b sx_hs (Some ([], h))]
        | HFinished _ => [mk_case "parse_tls_handshake_msg_finished" [n] b sx_hs (Some ([], h))]
        | HCertificateStatus t bl => [mk_case "parse_tls_handshake_msg_certificatestatus" [] b sx_hs (Some ([], h));
                                      mk_case "parse_tls_handshake_certificatestatus" [] b
                                        (fun p => C "CertificateStatus" [SN (fst p); SS (snd p)]) (Some ([], (t, bl)))]
        | HNextProtocol a pd => [mk_case "parse_tls_handshake_msg_next_protocol" [] b sx_hs (Some ([], h));
                                 mk_case "parse_tls_handshake_next_protocol" [] b
                                   (fun p => C "NextProtocol" [SS (fst p); SS (snd p)]) (Some ([], (a, pd)))]
        | HKeyUpdate _ => [mk_case "parse_tls_handshake_msg_key_update" [] b sx_hs (Some ([], h))]
        end).

Definition families_tls : list (string * G (list case)) := [
  ("hsbody", gcase_hsbody);
  ("record", gcase_record); ("opaque", gcase_opaque); ("toolarge", gcase_toolarge);
  ("handshake", gcase_handshake); ("message", gcase_message); ("multi", gcase_multi) ]%string.
