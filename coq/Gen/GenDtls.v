(* generators of DTLS records, handshake messages and fragments *)
From Coq Require Import String.
From TlsModel Require Import GenBase Wire DtlsEnc Show GenTls.
Open Scope gen_scope.

(* bit-boundary values of a k-bit field *)
Definition gbits (k : N) : G N :=
  freq (gint k) [ (3, gint k); (1, gret (2 ^ (k - 1))); (1, gret (2 ^ (k - 1) - 1)); (1, gret (2 ^ k - 1)); (1, gret 1); (1, gret 0) ].
(* versions: the registered DTLS / TLS values most of the time (code may single them out), any 16-bit value otherwise *)
Definition gdversion : G N := freq (gret 65277) [ (5, elem 65277 [65279; 65277; 65278; 771; 768; 65276]); (2, gint 16) ].
Definition gdch : G DTLSClientHelloC :=
  do v <- gdversion; do r <- grandom32; do sid <- gsid;
  do ck <- (do n <- freq (gret 0) [(3, gret 0); (3, gsmall 40); (1, gret 255); (1, gret 32); (1, gret 33); (1, gsize 255)]; gslice n);
  do c <- gu16list 20; do co <- gu8list 4; do e <- gext;
  gret (mkDCH v r sid ck c co e).
Definition gdbody : G DTLSBody :=
  oneof (gret (DServerDone (mkS 0 []))) [
    (do c <- gdch; gret (DClientHello c));
    (do v <- gdversion; do n <- freq (gsmall 40) [(3, gsmall 40); (3, gsize 255); (1, gret 32); (1, gret 33)]; do c <- gslice n; gret (DHelloVerifyRequest v c));
    (do v <- gdversion; do r <- grandom32; do sid <- gsid; do c <- gint 16; do co <- gint 8; do e <- gext;
     gret (DServerHello (mkSH v r sid c co e)));
    (do n <- gsmall 3; do l <- glist (N.to_nat n) gsmallblob; gret (DCertificate l));
    (do s <- gsmallblob; gret (DServerDone s));
    (do s <- gsmallblob; gret (DClientKeyExchange (CkeUnknown s))) ].
Definition dbody_ty (b : DTLSBody) : N :=
  match b with
  | DClientHello _ => 1 | DHelloVerifyRequest _ _ => 3 | DServerHello _ => 2 | DCertificate _ => 11
  | DServerDone _ => 14 | DClientKeyExchange _ => 16 | _ => 255
  end.

(* one handshake message: complete (decoded) or a fragment (opaque) *)
Definition gdmsg : G (list byte * DTLSMessage) :=
  do b <- gdbody; do mseq <- gbits 16;
  let body := enc_dtls_body b in
  let n := lenN body in
  do k <- rnd 6;
  if k <? 3 then gret (enc_dtls_hs (dbody_ty b) n mseq 0 body, DMHandshake (mkDHS (dbody_ty b) n mseq 0 n b))
  else
    (* fragment: offset > 0 and/or fragment shorter than the total length; any type *)
    do ty <- freq (gret (dbody_ty b)) [(3, gret (dbody_ty b)); (1, gint 8)];
    do total <- freq (gret (n + 1)) [(2, gret (n + 1)); (1, gret (n + 100)); (1, gret 16777215); (1, gret n)];
    do off <- (if total =? n then freq (gret 1) [(2, gret 1); (1, do x <- gbits 24; gret (N.max 1 x))] else freq (gret 0) [(2, gret 0); (1, gret 1); (1, gbits 24)]);
    gret (enc_dtls_hs ty total mseq off body, DMHandshake (mkDHS ty total mseq off n (DFragment (mkS 0 body)))).

Definition gdpayload : G (N * list (list byte * DTLSMessage)) :=
  oneof (gret (20, [(u8 1, DMChangeCipherSpec)])) [
    (do n <- rnd 3; gret (20, repeat (u8 1, DMChangeCipherSpec) (N.to_nat (n + 1))));
    (do n <- rnd 3; do l <- glist (N.to_nat (n + 1)) (do s <- gint 8; do c <- gint 8; gret (u8 s ++ u8 c, DMAlert s c)); gret (21, l));
    (do n <- rnd 3; do l <- glist (N.to_nat (n + 1)) gdmsg; gret (22, l)) ].

Definition gdrecord : G (list byte * DTLSPlaintext) :=
  do pl <- gdpayload; let '(ct, ms) := pl in
  do ver <- elem 65277 [65279; 65277; 771]; do ep <- gbits 16; do sq <- gbits 48;
  let payload := concat (map fst ms) in
  gret (enc_dtls_record ct ver ep sq payload, mkDPlain (mkDHdr ct ver ep sq (lenN payload)) (map snd ms)).

Definition gcase_dtls : G (list case) :=
  do r <- gdrecord; do m <- gdmsg; do suf <- gsuffix;
  do ct <- gint 8; do ver <- gint 16; do ep <- gbits 16; do sq <- gbits 48; do len <- gint 16;
  let h := mkDHdr ct ver ep sq len in
  gret [ mk_case "parse_dtls_plaintext_record" [] (fst r ++ suf) sx_dplain (Some (suf, snd r));
         mk_case "parse_dtls_message_handshake" [] (fst m ++ suf) sx_dmsg (Some (suf, snd m));
         mk_case "parse_dtls_record_header" [] (enc_dtls_hdr h ++ suf) sx_dhdr (Some (suf, h));
         mk_case "parse_dtls_record_with_header" [d_type (dp_hdr (snd r)); 65277; 0; 0; d_len (dp_hdr (snd r))]
                 (dropN (fst r) 13) (slist sx_dmsg) (Some ([], dp_msgs (snd r))) ].

Definition gcase_dtls_multi : G (list case) :=
  do n <- rnd 4; do recs <- glist (N.to_nat n) gdrecord; do kind <- rnd 4; do extra <- gdrecord;
  do cut <- rnd (lenN (fst extra)); do g <- gsmall 12; do garbage <- gbytes g;
  let tail := if kind =? 0 then [] else if kind =? 1 then takeN (fst extra) cut
              else if kind =? 2 then u8 22 ++ u16 65277 ++ u16 0 ++ u48 1 ++ u16 16641 ++ garbage else garbage in
  let input := concat (map fst recs) ++ tail in
  let expect := match recs with [] => None | _ => if kind =? 3 then None else Some (tail, map snd recs) end in
  gret [ mk_case "parse_dtls_plaintext_records" [] input (slist sx_dplain) expect;
         mk_case "parse_dtls_plaintext_record" [] input sx_dplain None ].

Definition families_dtls : list (string * G (list case)) := [ ("dtls", gcase_dtls); ("dtlsmulti", gcase_dtls_multi) ]%string.
