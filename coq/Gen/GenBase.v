(* Deterministic generators for the correspondence check (not part of the
   model or of any theorem).  All randomness comes from one 64-bit LCG state. *)
From Coq Require Import String.
From TlsModel Require Export Bytes Values.

Definition G (A : Type) := N -> A * N.
Definition gret {A} (a : A) : G A := fun s => (a, s).
Definition gbind {A B} (g : G A) (k : A -> G B) : G B :=
  fun s => let (a, s') := g s in k a s'.
Declare Scope gen_scope. Delimit Scope gen_scope with gen.
Notation "'do' x '<-' g ';' k" := (gbind g (fun x => k))
  (at level 200, x pattern, g at level 100, k at level 200, right associativity) : gen_scope.
Open Scope gen_scope.

Definition lcg (s : N) : N := (s * 6364136223846793005 + 1442695040888963407) mod 18446744073709551616.
(* uniform-ish in [0, bound) *)
Definition rnd (bound : N) : G N :=
  fun s =>
    let s1 := lcg s in
    if bound <=? 1073741824 then ((s1 / 4294967296) mod (N.max bound 1), s1)
    else let s2 := lcg s1 in
         (((s1 / 4294967296) * 4294967296 + s2 / 4294967296) mod bound, s2).
Definition gbool : G bool := do x <- rnd 2; gret (x =? 1).
(* blob contents come from a cheap 16-bit stream seeded by one draw *)
Definition gbytes (n : N) : G (list byte) :=
  fun s =>
    let (k, s') := rnd 65536 s in
    (fst (N.iter n (fun '(acc, st) => let st' := (st * 1103 + 12345) mod 65536 in (n2b (st' / 256) :: acc, st')) ([], k)), s').
Fixpoint glist {A} (n : nat) (g : G A) : G (list A) :=
  match n with
  | O => gret []
  | S n' => do x <- g; do l <- glist n' g; gret (x :: l)
  end.
Definition oneof {A} (d : G A) (l : list (G A)) : G A :=
  do k <- rnd (lenN l); nth (N.to_nat k) l d.
Fixpoint pick_w {A} (d : G A) (l : list (N * G A)) (k : N) : G A :=
  match l with
  | [] => d
  | (w, g) :: t => if k <? w then g else pick_w d t (k - w)
  end.
Definition freq {A} (d : G A) (l : list (N * G A)) : G A :=
  do k <- rnd (fold_right (fun p acc => fst p + acc) 0 l); pick_w d l k.
Definition elem (d : N) (l : list N) : G N :=
  do k <- rnd (lenN l); gret (nth (N.to_nat k) l d).

(* sizes biased to boundaries: 0,1,2, small, medium, max-1, max *)
Definition gsize (max : N) : G N :=
  freq (gret 0) [ (2, gret 0); (2, gret 1); (1, gret 2);
                  (6, rnd (N.min 17 (max + 1))); (3, rnd (N.min 300 (max + 1)));
                  (1, gret (max - 1)); (1, gret max) ].
(* small sizes only *)
Definition gsmall (max : N) : G N :=
  freq (gret 0) [ (2, gret 0); (2, gret 1); (6, rnd (N.min 9 (max + 1))); (1, rnd (N.min 40 (max + 1))) ].
(* integer of the given bit width, biased to boundaries *)
Definition gint (bits : N) : G N :=
  let top := 2 ^ bits in
  freq (gret 0) [ (2, gret 0); (2, gret 1); (2, gret (top - 1)); (1, gret (top / 2)); (1, gret (top / 2 - 1));
                  (1, gret (255 mod top)); (1, gret (256 mod top)); (8, rnd top) ].
Definition gslice (n : N) : G slice := do b <- gbytes n; gret (mkS 0 b).
Definition gopt {A} (g : G A) : G (option A) := do b <- gbool; if b then (do x <- g; gret (Some x)) else gret None.
