(* generators for key-exchange, signature and CT structures *)
From Coq Require Import String.
From TlsModel Require Import GenBase Wire KxEnc Show GenTls.
Open Scope gen_scope.

Definition gb8 : G slice := do n <- freq (gret 0) [(8, gsmall 40); (1, gret 255); (1, gret 254)]; gslice n.
Definition gb16 : G slice := do n <- freq (gret 0) [(10, gsmall 60); (1, gsize 700)]; gslice n.
Definition gdh : G ServerDHParams := do p <- gb16; do g <- gb16; do y <- gb16; gret (mkDH p g y).
Definition gep : G ExplicitPrimeC :=
  do p <- gb8; do a <- gb8; do b <- gb8; do ba <- gb8; do o <- gb8; do c <- gb8; gret (mkEP p a b ba o c).
Definition gecparams : G ECParameters :=
  freq (gret (mkECP 3 (EcNamedGroup 23)))
    [ (3, do g <- gint 16; gret (mkECP 3 (EcNamedGroup g))); (2, do c <- gep; gret (mkECP 1 (EcExplicitPrime c))) ].
Definition gecdh : G ServerECDHParams := do p <- gecparams; do q <- gb8; gret (mkECDH p q).
Definition gsigned (new : bool) : G DigitallySigned :=
  do d <- gb16;
  if new then (do h <- gint 8; do s <- gint 8; gret (mkDS (Some (h, s)) d)) else gret (mkDS None d).
(* a quarter of the entries are minimal (empty extensions and/or empty signature) *)
Definition gsct : G SCT :=
  do v <- gint 8; do id <- gslice 32; do ts <- gint 64;
  do k <- rnd 8;
  do e <- (if k <? 2 then gslice 0 else gb16);
  do sg <- (if (k =? 0) || (k =? 2) then (do h <- gint 8; do s <- gint 8; gret (mkDS (Some (h, s)) (mkS 0 []))) else gsigned true);
  gret (mkSCT v id ts e sg).

Definition gcase_kx : G (list case) :=
  do d <- gdh; do p <- gecparams; do e <- gecdh; do sn <- gsigned true; do so <- gsigned false;
  do pt <- gb8; do suf <- gsuffix; do t <- gint 8;
  gret [ mk_case "parse_dh_params" [] (enc_dh d ++ suf) sx_dh (Some (suf, d));
         mk_case "parse_ec_parameters" [] (enc_ecparams p ++ suf) sx_ecp (Some (suf, p));
         mk_case "parse_ecdh_params" [] (enc_ecdh e ++ suf) sx_ecdh (Some (suf, e));
         mk_case "parse_digitally_signed" [] (enc_signed sn ++ suf) sx_ds (Some (suf, sn));
         mk_case "parse_digitally_signed_old" [] (enc_signed so ++ suf) sx_ds (Some (suf, so));
         mk_case "ECPoint::parse" [] (vec8 (bytes pt) ++ suf) SS (Some (suf, pt));
         mk_case "parse_content_and_signature_dh" [1] (enc_dh d ++ enc_signed sn ++ suf)
           (fun p => C "" [sx_dh (fst p); sx_ds (snd p)]) (Some (suf, (d, sn)));
         mk_case "parse_content_and_signature_dh" [0] (enc_dh d ++ enc_signed so ++ suf)
           (fun p => C "" [sx_dh (fst p); sx_ds (snd p)]) (Some (suf, (d, so)));
         mk_case "parse_content_and_signature_ecdh" [1] (enc_ecdh e ++ enc_signed sn ++ suf)
           (fun p => C "" [sx_ecdh (fst p); sx_ds (snd p)]) (Some (suf, (e, sn)));
         mk_case "parse_content_and_signature_ecdh" [0] (enc_ecdh e ++ enc_signed so ++ suf)
           (fun p => C "" [sx_ecdh (fst p); sx_ds (snd p)]) (Some (suf, (e, so)));
         (* the flag decides the form: the other form on the same bytes is only checked against the model *)
         mk_case "parse_content_and_signature_dh" [0] (enc_dh d ++ enc_signed sn ++ suf)
           (fun p => C "" [sx_dh (fst p); sx_ds (snd p)]) None;
         mk_case "parse_content_and_signature_ecdh" [1] (enc_ecdh e ++ enc_signed so ++ suf)
           (fun p => C "" [sx_ecdh (fst p); sx_ds (snd p)]) None;
         mk_case "parse_ec_parameters" [] (u8 t ++ enc_dh d) sx_ecp None ].

Definition gcase_ct : G (list case) :=
  do n <- gsmall 4; do l <- glist (N.to_nat n) gsct; do s <- gsct; do suf <- gsuffix;
  gret [ mk_case "parse_ct_signed_certificate_timestamp" [] (enc_sct s ++ suf) sx_sct (Some (suf, s));
         mk_case "parse_ct_signed_certificate_timestamp_list" [] (enc_sct_list l ++ suf) (slist sx_sct) (Some (suf, l)) ].

Definition families_kx : list (string * G (list case)) := [ ("kx", gcase_kx); ("ct", gcase_ct) ]%string.
