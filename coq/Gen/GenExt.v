(* generators of extensions (all 28 variants) and extension blocks *)
From Coq Require Import String.
From TlsModel Require Import GenBase Wire ExtEnc Show GenTls.
Open Scope gen_scope.

Definition gs8 : G slice := do n <- gsmall 30; gslice n.
Definition gs16 : G slice := do n <- gsmall 50; gslice n.
Definition grease_vals : list N :=
  [2570; 6682; 10794; 14906; 19018; 23130; 27242; 31354; 35466; 39578; 43690; 47802; 51914; 56026; 60138; 64250].
Definition known_types : list N :=
  [0; 1; 5; 10; 11; 13; 15; 16; 18; 21; 22; 23; 28; 35; 40; 41; 42; 43; 44; 45; 48; 49; 51; 13172; 65281; 65486].
Definition is_known_or_grease (t : N) : bool := existsb (N.eqb t) known_types || existsb (N.eqb t) grease_vals.
(* an unassigned type: random, near a known one, or matching the 0x?a?a pattern without being GREASE *)
Definition gunknown_type : G N :=
  do t <- freq (gint 16) [ (4, gint 16); (3, do k <- elem 0 known_types; do d <- elem 1 [1; 2; 256; 255]; gret ((k + d) mod 65536));
                           (3, do a <- rnd 16; do b <- rnd 16; gret (a * 4096 + 10 * 256 + b * 16 + 10)) ];
  gret (if is_known_or_grease t then 2 else t).

Definition gext : G TlsExtension :=
  oneof (gret EEncryptThenMac) [
    (do n <- gsmall 4; do l <- glist (N.to_nat n) (do t <- gint 8; do s <- gs16; gret (t, s)); gret (ESNI l));
    (do v <- gint 8; gret (EMaxFragmentLength v));
    (do v <- gopt (do t <- gint 8; do s <- gs16; gret (t, s)); gret (EStatusRequest v));
    (do l <- gu16list 12; gret (EEllipticCurves l));
    (do s <- gs8; gret (EEcPointFormats s));
    (do l <- gu16list 12; gret (ESignatureAlgorithms l));
    (do v <- gint 16; gret (ERecordSizeLimit v));
    (do s <- gs16; gret (ESessionTicket s));
    (do s <- gs16; gret (EKeyShareOld s));
    (do s <- gs16; gret (EKeyShare s));
    (do s <- gs16; gret (EPreSharedKey s));
    (do v <- gopt (gint 32); gret (EEarlyData v));
    (do l <- gu16list 6; gret (ESupportedVersions l));
    (do s <- gs16; gret (ECookie s));
    (do n <- gsmall 5; do b <- gbytes n; gret (EPskExchangeModes b));
    (do v <- gint 8; gret (EHeartbeat v));
    (do n <- gsmall 4; do l <- glist (N.to_nat n) gs8; gret (EALPN l));
    (do v <- gopt gs16; gret (ESignedCertificateTimestamp v));
    (do s <- gs16; gret (EPadding s));
    gret EEncryptThenMac; gret EExtendedMasterSecret;
    (do n <- gsmall 3; do l <- glist (N.to_nat n) (do a <- gs8; do b <- gs16; gret (a, b)); gret (EOidFilters l));
    gret EPostHandshakeAuth; gret ENextProtocolNegotiation;
    (do s <- gs8; gret (ERenegotiationInfo s));
    (do c <- gint 16; do g <- gint 16; do k <- gs16; do r <- gs16; do e <- gs16; gret (EEncryptedServerName c g k r e));
    (do t <- elem 2570 grease_vals; do s <- gs16; gret (EGrease t s));
    (do t <- gunknown_type; do s <- gs16; gret (EUnknown t s)) ].

Definition in_table (t : N) (keys : list N) : bool := existsb (N.eqb t) keys.
Definition client_keys : list N := [0; 1; 5; 10; 11; 13; 15; 16; 18; 21; 22; 23; 28; 35; 41; 42; 43; 44; 45; 48; 49; 51; 13172; 65281; 65486].
Definition server_keys : list N := [0; 1; 5; 11; 13; 15; 16; 18; 22; 23; 28; 35; 41; 42; 43; 44; 51; 13172; 65281].
(* what a specialised dispatcher must return: the typed value if it lists the type, Unknown otherwise *)
Definition via (keys : list N) (e : TlsExtension) : TlsExtension :=
  match e with
  | EGrease _ _ | EUnknown _ _ => e
  | _ => if in_table (iana_type e) keys then e else EUnknown (iana_type e) (mkS 0 (enc_ext_content e))
  end.

Definition tag_entry (e : TlsExtension) : option string :=
  match e with
  | ESNI _ => Some "parse_tls_extension_sni" | EMaxFragmentLength _ => Some "parse_tls_extension_max_fragment_length"
  | EStatusRequest _ => Some "parse_tls_extension_status_request" | EEllipticCurves _ => Some "parse_tls_extension_elliptic_curves"
  | EEcPointFormats _ => Some "parse_tls_extension_ec_point_formats" | ESignatureAlgorithms _ => Some "parse_tls_extension_signature_algorithms"
  | EHeartbeat _ => Some "parse_tls_extension_heartbeat" | EEncryptThenMac => Some "parse_tls_extension_encrypt_then_mac"
  | EExtendedMasterSecret => Some "parse_tls_extension_extended_master_secret" | ESessionTicket _ => Some "parse_tls_extension_session_ticket"
  | EKeyShare _ => Some "parse_tls_extension_key_share" | EPreSharedKey _ => Some "parse_tls_extension_pre_shared_key"
  | EEarlyData _ => Some "parse_tls_extension_early_data" | ESupportedVersions _ => Some "parse_tls_extension_supported_versions"
  | ECookie _ => Some "parse_tls_extension_cookie" | EPskExchangeModes _ => Some "parse_tls_extension_psk_key_exchange_modes"
  | _ => None
  end%string.

Definition gcase_ext : G (list case) :=
  do e <- gext; do suf <- gsuffix;
  let b := enc_ext e ++ suf in
  gret ([ mk_case "parse_tls_extension" [] b sx_ext (Some (suf, e));
          mk_case "parse_tls_client_hello_extension" [] b sx_ext (Some (suf, via client_keys e));
          mk_case "parse_tls_server_hello_extension" [] b sx_ext (Some (suf, via server_keys e)) ] ++
        match tag_entry e with Some nm => [mk_case nm [] b sx_ext (Some (suf, e))] | None => [] end).

(* a tag-specific parser applied to an extension of another type must fail *)
Definition gcase_ext_wrongtag : G (list case) :=
  do e <- gext; do e2 <- gext;
  match tag_entry e2 with
  | Some nm => if iana_type e =? iana_type e2 then gret [] else gret [mk_case nm [] (enc_ext e) sx_ext None]
  | None => gret []
  end.

Definition gcase_extlist : G (list case) :=
  do n <- gsmall 6; do es <- glist (N.to_nat n) gext;
  let b := cat enc_ext es in
  gret [ mk_case "parse_tls_extensions" [] b (slist sx_ext) (Some ([], es));
         mk_case "parse_tls_client_hello_extensions" [] b (slist sx_ext) (Some ([], map (via client_keys) es));
         mk_case "parse_tls_server_hello_extensions" [] b (slist sx_ext) (Some ([], map (via server_keys) es)) ].

Definition families_ext : list (string * G (list case)) :=
  [ ("ext", gcase_ext); ("extwrong", gcase_ext_wrongtag); ("extlist", gcase_extlist) ]%string.
