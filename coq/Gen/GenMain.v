From Coq Require Import String.
From TlsModel Require Import GenBase Show Main GenTls GenKx GenExt GenDtls.

Definition all_families : list (string * G (list case)) := families_tls ++ families_kx ++ families_ext ++ families_dtls.

Fixpoint find_family (name : list byte) (l : list (string * G (list case))) : option (G (list case)) :=
  match l with
  | [] => None
  | (n, g) :: t => if beq_bytes name (str n) then Some g else find_family name t
  end.

(* n generator invocations from the given seed; each output line is
   "<case line>\t<expected canonical output or empty>" *)
Definition gen_lines (family : list byte) (seed n : N) : list (list byte) :=
  match find_family family all_families with
  | None => []
  | Some g =>
      let (cases, _) := gmany (N.to_nat n) g (lcg (seed + 1)) in
      map (fun c => fst c ++ x09 :: snd c) cases
  end.
Definition family_names : list (list byte) := map (fun e => str (fst e)) all_families.
