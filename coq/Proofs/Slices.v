(* the slices reachable from each value type of Model/Values.v *)
From TlsModel Require Import Bytes Nom Values BytesLemmas NomGeneric ProvGeneric.

#[export] Instance HS_hdr : HasSlices TlsRecordHeader := fun _ => [].
#[export] Instance NS_hdr : NoSlices TlsRecordHeader. Proof. intros v; reflexivity. Qed.
#[export] Instance HS_dhdr : HasSlices DTLSRecordHeader := fun _ => [].
#[export] Instance NS_dhdr : NoSlices DTLSRecordHeader. Proof. intros v; reflexivity. Qed.

#[export] Instance HS_CH : HasSlices ClientHelloC := fun c =>
  match c with mkCH _ random sid _ _ ext => slices random ++ slices sid ++ slices ext end.
#[export] Instance HS_SH : HasSlices ServerHelloC := fun c =>
  match c with mkSH _ random sid _ _ ext => slices random ++ slices sid ++ slices ext end.
#[export] Instance HS_SH13 : HasSlices ServerHello13C := fun c =>
  match c with mkSH13 _ random _ ext => slices random ++ slices ext end.
#[export] Instance HS_HRR : HasSlices HelloRetryC := fun c => match c with mkHRR _ _ ext => slices ext end.
#[export] Instance HS_CR : HasSlices CertRequestC := fun c => match c with mkCR _ _ ca => slices ca end.
#[export] Instance HS_CKE : HasSlices ClientKeyExchangeC := fun c =>
  match c with CkeDh s | CkeEcdh s | CkeUnknown s => slices s end.
#[export] Instance HS_HS : HasSlices TlsMessageHandshake := fun h =>
  match h with
  | HHelloRequest | HEndOfEarlyData | HKeyUpdate _ => []
  | HClientHello c => slices c
  | HServerHello c => slices c
  | HServerHelloV13Draft18 c => slices c
  | HNewSessionTicket _ t => slices t
  | HHelloRetryRequest c => slices c
  | HCertificate l => slices l
  | HServerKeyExchange s | HServerDone s | HCertificateVerify s | HFinished s => slices s
  | HCertificateRequest c => slices c
  | HClientKeyExchange c => slices c
  | HCertificateStatus _ b => slices b
  | HNextProtocol a b => slices a ++ slices b
  end.
#[export] Instance HS_Msg : HasSlices TlsMessage := fun m =>
  match m with
  | MHandshake h => slices h
  | MChangeCipherSpec | MAlert _ _ => []
  | MApplicationData b => slices b
  | MHeartbeat _ _ p => slices p
  end.
#[export] Instance HS_Plain : HasSlices TlsPlaintext := fun p => match p with mkPlain _ msg => slices msg end.
#[export] Instance HS_Enc : HasSlices TlsEncrypted := fun p => match p with mkEnc _ b => slices b end.
#[export] Instance HS_Raw : HasSlices TlsRawRecord := fun p => match p with mkRaw _ b => slices b end.

#[export] Instance HS_Ext : HasSlices TlsExtension := fun e =>
  match e with
  | ESNI l => slices l
  | EStatusRequest v => slices v
  | EEcPointFormats s | ESessionTicket s | EKeyShareOld s | EKeyShare s | EPreSharedKey s | ECookie s
  | EPadding s | ERenegotiationInfo s => slices s
  | EALPN l => slices l
  | ESignedCertificateTimestamp v => slices v
  | EOidFilters l => slices l
  | EEncryptedServerName _ _ a b c => slices a ++ slices b ++ slices c
  | EGrease _ s | EUnknown _ s => slices s
  | EMaxFragmentLength _ | EEllipticCurves _ | ESignatureAlgorithms _ | ERecordSizeLimit _ | EEarlyData _
  | ESupportedVersions _ | EPskExchangeModes _ | EHeartbeat _ | EEncryptThenMac | EExtendedMasterSecret
  | EPostHandshakeAuth | ENextProtocolNegotiation => []
  end.

#[export] Instance HS_DH : HasSlices ServerDHParams := fun d => match d with mkDH p g ys => slices p ++ slices g ++ slices ys end.
#[export] Instance HS_EP : HasSlices ExplicitPrimeC := fun c =>
  match c with mkEP p a b base order cof => slices p ++ slices a ++ slices b ++ slices base ++ slices order ++ slices cof end.
#[export] Instance HS_ECPC : HasSlices ECParametersContent := fun c =>
  match c with EcExplicitPrime c => slices c | EcNamedGroup _ => [] end.
#[export] Instance HS_ECP : HasSlices ECParameters := fun p => match p with mkECP _ c => slices c end.
#[export] Instance HS_ECDH : HasSlices ServerECDHParams := fun p => match p with mkECDH a b => slices a ++ slices b end.
#[export] Instance HS_DS : HasSlices DigitallySigned := fun d => match d with mkDS _ data => slices data end.
#[export] Instance HS_SCT : HasSlices SCT := fun s =>
  match s with mkSCT _ id _ ext sig => slices id ++ slices ext ++ slices sig end.

#[export] Instance HS_DCH : HasSlices DTLSClientHelloC := fun c =>
  match c with mkDCH _ random sid cookie _ _ ext => slices random ++ slices sid ++ slices cookie ++ slices ext end.
#[export] Instance HS_DBody : HasSlices DTLSBody := fun b =>
  match b with
  | DHelloRequest => []
  | DClientHello c => slices c
  | DHelloVerifyRequest _ c => slices c
  | DServerHello c => slices c
  | DNewSessionTicket _ t => slices t
  | DHelloRetryRequest c => slices c
  | DCertificate l => slices l
  | DServerKeyExchange s | DServerDone s | DCertificateVerify s | DFinished s | DFragment s => slices s
  | DCertificateRequest c => slices c
  | DClientKeyExchange c => slices c
  | DCertificateStatus _ b => slices b
  | DNextProtocol a b => slices a ++ slices b
  end.
#[export] Instance HS_DHS : HasSlices DTLSMessageHandshake := fun h => match h with mkDHS _ _ _ _ _ b => slices b end.
#[export] Instance HS_DMsg : HasSlices DTLSMessage := fun m =>
  match m with
  | DMHandshake h => slices h
  | DMChangeCipherSpec | DMAlert _ _ => []
  | DMApplicationData b => slices b
  | DMHeartbeat _ _ p => slices p
  end.
#[export] Instance HS_DPlain : HasSlices DTLSPlaintext := fun p => match p with mkDPlain _ m => slices m end.
