(* C05: extensions decode by IANA type; GREASE and unknown types are preserved. *)
From TlsModel Require Import Bytes Nom Values DispatchTypes Handshake Extensions Wire Strip ExtEnc BytesLemmas NomGeneric
  RunLemmas ManyLemmas RtTactics SafeProofs MultiRecordProofs TableLemmas HandshakeProofs.
From TlsModel Require Import Dispatch.
From Coq Require Import Lia ZArith ZifyBool ZifyN.
Ltac Zify.zify_post_hook ::= Z.div_mod_to_equations.

Scheme Equality for ext_content_id.

(* the IANA assignment of the content parsers *)
Definition generic_expected : list (N * ext_content_id) :=
  [(0, XC_sni); (1, XC_max_fragment_length); (5, XC_status_request); (10, XC_elliptic_curves);
   (11, XC_ec_point_formats); (13, XC_signature_algorithms); (15, XC_heartbeat); (16, XC_alpn);
   (18, XC_signed_certificate_timestamp); (21, XC_padding); (22, XC_encrypt_then_mac);
   (23, XC_extended_master_secret); (28, XC_record_size_limit); (35, XC_session_ticket);
   (40, XC_key_share_old); (41, XC_pre_shared_key); (42, XC_early_data); (43, XC_supported_versions);
   (44, XC_cookie); (45, XC_psk_key_exchange_modes); (48, XC_oid_filters); (49, XC_post_handshake_auth);
   (51, XC_key_share); (13172, XC_npn); (65281, XC_renegotiation_info); (65486, XC_encrypted_server_name)].

(* obligations over the regenerated tables *)
Definition generic_ok : bool := same_assoc ext_content_id_beq generic_table generic_expected.
(* the specialised dispatchers recognise a subset and agree with the generic one on it *)
Definition sub_table_ok (t : list (N * ext_content_id)) : bool :=
  forallb (fun kv => opt_eqb ext_content_id_beq (assoc_N (fst kv) t) (assoc_N (fst kv) generic_expected)) t.
(* the GREASE test of the source selects exactly the 16 RFC 8701 values (all 65536 types, by computation) *)
Fixpoint range_from (fuel : nat) (start : N) : list N :=
  match fuel with O => [] | S f => start :: range_from f (N.succ start) end.
Definition Nrange (n : N) : list N := range_from (N.to_nat n) 0.
Lemma range_from_In fuel : forall start k, start <= k < start + N.of_nat fuel -> In k (range_from fuel start).
Proof.
  induction fuel as [|f IH]; intros start k H; [lia|]. cbn [range_from In].
  destruct (N.eq_dec start k) as [->|Hne]; [left; reflexivity | right; apply IH; lia].
Qed.
Lemma Nrange_complete n k : k < n -> In k (Nrange n).
Proof. intros H. unfold Nrange. apply range_from_In. lia. Qed.
Definition grease_ok : bool := forallb (fun t => Bool.eqb (grease_test t) (is_grease_simple t)) (Nrange 65536).
Lemma grease_exact : grease_ok = true -> forall t, t < 65536 -> grease_test t = is_grease_simple t.
Proof.
  unfold grease_ok. rewrite forallb_forall. intros H t Ht. apply Bool.eqb_prop. apply H. apply Nrange_complete. exact Ht.
Qed.
Definition tags_ok : bool :=
  (tag_sni =? 0) && (tag_max_fragment_length =? 1) && (tag_status_request =? 5) && (tag_elliptic_curves =? 10) &&
  (tag_ec_point_formats =? 11) && (tag_signature_algorithms =? 13) && (tag_heartbeat =? 15) &&
  (tag_encrypt_then_mac =? 22) && (tag_extended_master_secret =? 23) && (tag_session_ticket =? 35) &&
  (tag_key_share =? 51) && (tag_pre_shared_key =? 41) && (tag_early_data =? 42) && (tag_supported_versions =? 43) &&
  (tag_cookie =? 44) && (tag_psk_key_exchange_modes =? 45).

Lemma generic_lookup : generic_ok = true -> forall t, assoc_N t generic_table = assoc_N t generic_expected.
Proof. apply same_assoc_eq. exact internal_ext_content_id_dec_bl. Qed.

Lemma sub_table_agrees t : sub_table_ok t = true ->
  forall k c, assoc_N k t = Some c -> assoc_N k generic_expected = Some c.
Proof.
  unfold sub_table_ok. rewrite forallb_forall. intros H k c E.
  assert (Hin : exists v, In (k, v) t).
  { clear H. induction t as [|[k' v] t IH]; cbn [assoc_N] in E; [discriminate|].
    destruct (N.eqb_spec k k') as [->|]; [exists v; left; reflexivity|]. destruct (IH E) as [v' Hv]. exists v'; right; exact Hv. }
  destruct Hin as [v Hv]. specialize (H _ Hv). cbn [fst] in H. rewrite E in H.
  apply (opt_eqb_eq ext_content_id_beq internal_ext_content_id_dec_bl) in H. now rewrite <- H.
Qed.

(* ---- the dispatcher on a framed extension ---- *)
Definition lift_ext (rest : slice) (r : res TlsExtension) : res TlsExtension :=
  match r with Ok _ v => Ok rest v | other => other end.

Theorem dispatch_char tbl t content rest o : t < 65536 -> lenN content < 65536 ->
  run (dispatch_ext tbl) (mkS o (u16 t ++ vec16 content ++ rest)) =
    if grease_test t then Ok (mkS (o + 4 + lenN content) rest) (EGrease t (mkS (o + 4) content))
    else match assoc_N t tbl with
         | Some c => lift_ext (mkS (o + 4 + lenN content) rest) (run (ext_content c (lenN content)) (mkS (o + 4) content))
         | None => Ok (mkS (o + 4 + lenN content) rest) (EUnknown t (mkS (o + 4) content))
         end.
Proof.
  intros Ht Hc. unfold dispatch_ext. rt_step. rt_step.
  replace (o + 2 + 2) with (o + 4) by lia.
  destruct (grease_test t); [rewrite run_ret; reflexivity|].
  unfold slen; cbn [bytes]. rewrite (N.mod_small (lenN content)) by lia.
  destruct (assoc_N t tbl) as [c|]; [|rewrite run_ret; reflexivity].
  rewrite run_on. destruct (run (ext_content c (lenN content)) _); reflexivity.
Qed.

(* a length field exceeding what follows never yields a value *)
Theorem dispatch_overlong tbl t len content o : t < 65536 -> len < 65536 -> lenN content < len ->
  run (dispatch_ext tbl) (mkS o (u16 t ++ u16 len ++ content)) = Incomplete (Size (len - lenN content)).
Proof.
  intros Ht Hl Hc. unfold dispatch_ext, length_data. rt_step. rewrite !run_bind, run_u16_enc by exact Hl.
  rewrite run_take. unfold slen; cbn [bytes]. destruct (N.leb_spec len (lenN content)); [lia|].
  rewrite mk_needed_pos by lia. reflexivity.
Qed.

(* ---- contents, on exactly the declared bytes ---- *)
Lemma run_u16_all l o : all16 l -> run parse_u16_all (mkS o (cat u16 l)) = Ok (mkS (o + lenN (cat u16 l)) []) l.
Proof.
  intros Hl. unfold parse_u16_all. rewrite run_bind, run_geti. cbv beta iota zeta.
  unfold slen; cbn [bytes]. rewrite lenN_cat_u16.
  destruct l as [|v l']; [cbn [lenN]; change (2 * 0 =? 0) with true; cbv iota; rewrite run_ret; f_equal; f_equal; cbn [cat map concat lenN]; lia|].
  set (l := v :: l') in *. assert (Hn : 2 * lenN l <> 0) by (unfold l; cbn [lenN]; lia).
  destruct (N.eqb_spec (2 * lenN l) 0); [contradiction|].
  destruct (N.eqb_spec ((2 * lenN l) mod 2) 1); [lia|]. cbn [orb].
  destruct (N.ltb_spec (2 * lenN l) (2 * lenN l)); [lia|].
  rewrite run_bind, run_idx. unfold slen; cbn [bytes off]. rewrite lenN_cat_u16.
  destruct (N.leb_spec (2 * lenN l) (2 * lenN l)); [|lia].
  rewrite takeN_all by (rewrite lenN_cat_u16; lia). cbn [bytes]. rewrite (pairs16_cat l Hl), run_ret.
  unfold sdrop; cbn [bytes off]. rewrite dropN_all by (rewrite lenN_cat_u16; lia). reflexivity.
Qed.

Definition sni_entry_wf (p : N * slice) : Prop := fst p < 256 /\ slen (snd p) < 65536.
Definition sni_entry_eqv (a b : N * slice) : Prop := fst a = fst b /\ ss (snd a) = ss (snd b).
Lemma sni_entry_rt : roundtrips parse_tls_extension_sni_hostname (fun p => u8 (fst p) ++ vec16 (bytes (snd p))) sni_entry_wf sni_entry_eqv.
Proof.
  intros [t s] rest o [Ht Hs]; cbn [fst snd] in *. unfold parse_tls_extension_sni_hostname. rewrite <- app_assoc.
  do 2 rt_step. rewrite run_ret. eexists. split; [apply f_equal2; [f_equal; solve_off | reflexivity] | split; reflexivity].
Qed.
Lemma sni_entry_ne : nonempty_enc (fun p : N * slice => u8 (fst p) ++ vec16 (bytes (snd p))) sni_entry_wf.
Proof. intros v _. cbv beta. rewrite lenN_app, lenN_u8. lia. Qed.
Lemma Forall2_sni l' l : Forall2 sni_entry_eqv l' l ->
  map (fun p : N * slice => (fst p, ss (snd p))) l' = map (fun p => (fst p, ss (snd p))) l.
Proof. induction 1 as [|a b l' l [H1 H2] HF IH]; [reflexivity|]. cbn [map]. now rewrite H1, H2, IH. Qed.

Definition alpn_wf (s : slice) : Prop := slen s < 256.
Lemma alpn_rt : roundtrips parse_protocol_name (fun s : slice => vec8 (bytes s)) alpn_wf slice_eqv.
Proof.
  intros s rest o Hs. unfold parse_protocol_name. rewrite run_vec8 by exact Hs.
  eexists. split; [apply f_equal2; [f_equal; solve_off | reflexivity] | reflexivity].
Qed.
Lemma alpn_ne : nonempty_enc (fun s : slice => vec8 (bytes s)) alpn_wf.
Proof. intros v _. cbv beta. rewrite lenN_vec8. lia. Qed.

Definition oid_wf (p : slice * slice) : Prop := slen (fst p) < 256 /\ slen (snd p) < 65536.
Definition oid_eqv (a b : slice * slice) : Prop := ss (fst a) = ss (fst b) /\ ss (snd a) = ss (snd b).
Lemma oid_rt : roundtrips parse_tls_oid_filter (fun p => vec8 (bytes (fst p)) ++ vec16 (bytes (snd p))) oid_wf oid_eqv.
Proof.
  intros [a b] rest o [Ha Hb]; cbn [fst snd] in *. unfold parse_tls_oid_filter. rewrite <- app_assoc.
  do 2 rt_step. rewrite run_ret. eexists. split; [apply f_equal2; [f_equal; solve_off | reflexivity] | split; reflexivity].
Qed.
Lemma oid_ne : nonempty_enc (fun p : slice * slice => vec8 (bytes (fst p)) ++ vec16 (bytes (snd p))) oid_wf.
Proof. intros v _. cbv beta. rewrite lenN_app, lenN_vec8. lia. Qed.
Lemma Forall2_oid l' l : Forall2 oid_eqv l' l ->
  map (fun p : slice * slice => (ss (fst p), ss (snd p))) l' = map (fun p => (ss (fst p), ss (snd p))) l.
Proof. induction 1 as [|a b l' l [H1 H2] HF IH]; [reflexivity|]. cbn [map]. now rewrite H1, H2, IH. Qed.

(* a u16-length-prefixed list of items filling the content exactly *)
Lemma vec16_many0 {A B} (p : P A) (enc : B -> list byte) wf eqv (l : list B) o :
  roundtrips p enc wf eqv -> nonempty_enc enc wf -> (forall j, stops p (mkS j [])) ->
  (forall v, In v l -> wf v) -> lenN (cat enc l) < 65536 ->
  exists l', run (map_parser (length_data be_u16) (Many0 (Cmpl p))) (mkS o (vec16 (cat enc l))) =
               Ok (mkS (o + 2 + lenN (cat enc l)) []) l' /\ Forall2 eqv l' l.
Proof.
  intros Hrt Hne Hst Hw Hl. unfold map_parser. rewrite run_bind.
  pose proof (run_vec16 (cat enc l) o [] Hl) as E. rewrite app_nil_r in E. rewrite E, run_on.
  destruct (many0_cmpl_rt p enc wf eqv Hrt Hne l (o + 2) [] Hw (Hst _)) as [l' [E' HF]].
  unfold encs in E'. rewrite app_nil_r in E'. unfold cat. rewrite E'. eauto.
Qed.

Definition cid (e : TlsExtension) : option ext_content_id := assoc_N (iana_type e) generic_expected.
Definition content_ok (e : TlsExtension) : Prop :=
  forall o, match cid e with
            | Some c => exists r e', run (ext_content c (lenN (enc_ext_content e))) (mkS o (enc_ext_content e)) = Ok r e' /\ ext_eqv e' e
            | None => True
            end.

Ltac cstart := intros o; unfold cid; cbn [iana_type];
  match goal with |- context [assoc_N ?k generic_expected] =>
    let r := eval vm_compute in (assoc_N k generic_expected) in change (assoc_N k generic_expected) with r end;
  cbv iota; cbn [ext_content enc_ext_content].
Ltac cfin := eexists; eexists; split; [reflexivity | reflexivity].
Ltac on_exact E := rewrite app_nil_r in E.

Lemma c_sni l : Forall sni_entry_wf l -> lenN (enc_ext_content (ESNI l)) < 65536 -> content_ok (ESNI l).
Proof.
  intros Hw Hl. cstart. unfold parse_tls_extension_sni_content. rewrite run_bind, run_geti. cbv beta iota.
  destruct l as [|p l'].
  - cbn [bytes]. unfold slen; cbn [bytes lenN]. change (0 =? 0) with true. cbv iota. rewrite run_ret. cfin.
  - cbn [enc_ext_content] in Hl. set (l := p :: l') in *.
    assert (Hne : (slen (mkS o (vec16 (cat (fun p0 : N * slice => u8 (fst p0) ++ vec16 (bytes (snd p0))) l))) =? 0) = false).
    { apply N.eqb_neq. unfold slen; cbn [bytes]. rewrite lenN_vec16. lia. }
    rewrite Hne. rewrite lenN_vec16 in Hl.
    unfold vec16 at 1. rt_step. unfold map_parser. rewrite !run_bind, take_all_plain, run_on.
    destruct (many0_cmpl_rt _ _ _ _ sni_entry_rt sni_entry_ne l (o + 2) []) as [l'' [E HF]].
    + intros v Hin. rewrite Forall_forall in Hw. exact (Hw v Hin).
    + unfold parse_tls_extension_sni_hostname. apply stops_beu_nil_gen. lia.
    + unfold encs in E. rewrite app_nil_r in E. unfold cat. rewrite E, run_ret.
      eexists. eexists. split; [reflexivity|]. unfold ext_eqv; cbn [strip_ext]. now rewrite (Forall2_sni _ _ HF).
Qed.

Lemma c_u8 v : v < 256 -> content_ok (EMaxFragmentLength v) /\ content_ok (EHeartbeat v).
Proof.
  intros Hv. split; cstart.
  - unfold parse_tls_extension_max_fragment_length_content, pmap. pose proof (run_u8_enc v o [] Hv) as E. on_exact E.
    rewrite run_bind, E, run_ret. cfin.
  - unfold parse_tls_extension_heartbeat_content, pmap. pose proof (run_u8_enc v o [] Hv) as E. on_exact E.
    rewrite run_bind, E, run_ret. cfin.
Qed.

Lemma c_status v : (forall t s, v = Some (t, s) -> t < 256) -> content_ok (EStatusRequest v).
Proof.
  intros Hv. cstart. unfold parse_tls_extension_status_request_content. destruct v as [[t s]|].
  - rewrite lenN_app, lenN_u8. destruct (N.eqb_spec (1 + lenN (bytes s)) 0); [lia|].
    rewrite run_bind, run_u8_enc by (eapply Hv; reflexivity).
    replace (1 + lenN (bytes s) - 1) with (lenN (bytes s)) by lia. rewrite run_bind, take_all_plain, run_ret. cfin.
  - cbn [lenN]. change (0 =? 0) with true. cbv iota. rewrite run_ret. cfin.
Qed.

Lemma c_u16list l : all16 l -> 2 * lenN l < 65536 -> content_ok (EEllipticCurves l) /\ content_ok (ESignatureAlgorithms l).
Proof.
  intros Hl Hn. split; cstart.
  - unfold parse_tls_extension_elliptic_curves_content, map_parser. rewrite run_bind.
    pose proof (run_vec16 (cat u16 l) o [] ltac:(rewrite lenN_cat_u16; lia)) as E. on_exact E. rewrite E, run_on.
    unfold pmap. rewrite run_bind. unfold parse_named_groups. rewrite (run_u16_all l _ Hl), run_ret. cfin.
  - unfold parse_tls_extension_signature_algorithms_content.
    destruct (vec16_many0 be_u16 u16 _ eq l o u16_rt u16_ne) as [l' [E HF]].
    + intros j. apply stops_beu_nil_plain. lia.
    + intros v Hin. unfold all16 in Hl. rewrite Forall_forall in Hl. exact (Hl v Hin).
    + rewrite lenN_cat_u16. lia.
    + rewrite run_bind, E, run_ret. apply Forall2_eq in HF. subst. cfin.
Qed.

Lemma c_vec8 s : slen s < 256 -> content_ok (EEcPointFormats s) /\ content_ok (ERenegotiationInfo s).
Proof.
  intros Hs. split; cstart.
  - unfold parse_tls_extension_ec_point_formats_content, pmap. pose proof (run_vec8 (bytes s) o [] Hs) as E. on_exact E.
    rewrite run_bind, E, run_ret. cfin.
  - unfold parse_tls_extension_renegotiation_info_content, pmap. pose proof (run_vec8 (bytes s) o [] Hs) as E. on_exact E.
    rewrite run_bind, E, run_ret. cfin.
Qed.

Lemma c_alpn l : Forall alpn_wf l -> lenN (cat (fun s : slice => vec8 (bytes s)) l) < 65536 -> content_ok (EALPN l).
Proof.
  intros Hw Hl. cstart. unfold parse_tls_extension_alpn_content.
  destruct (vec16_many0 parse_protocol_name (fun s : slice => vec8 (bytes s)) _ slice_eqv l o alpn_rt alpn_ne) as [l' [E HF]].
  - intros j. unfold parse_protocol_name. apply stops_length_data_nil. lia.
  - intros v Hin. rewrite Forall_forall in Hw. exact (Hw v Hin).
  - exact Hl.
  - rewrite run_bind, E, run_ret. eexists. eexists. split; [reflexivity|].
    unfold ext_eqv; cbn [strip_ext]. now rewrite (Forall2_slice_eqv_map _ _ HF).
Qed.

Lemma c_sct v : (forall s, v = Some s -> slen s < 65536) -> content_ok (ESignedCertificateTimestamp v).
Proof.
  intros Hv. cstart. unfold parse_tls_extension_signed_certificate_timestamp_content, pmap. rewrite run_bind.
  fold opt_ext. destruct (run_opt_ext v o Hv) as [e' [E He]].
  change (enc_optext v) with (match v with None => [] | Some e => vec16 (bytes e) end) in E.
  destruct v as [s|]; cbn [enc_optext] in E; rewrite E, run_ret; eexists; eexists; (split; [reflexivity|]);
    unfold ext_eqv; destruct e'; cbn [so option_map strip_ext] in *; congruence.
Qed.

Lemma c_opaque s : content_ok (EPadding s) /\ content_ok (ESessionTicket s) /\ content_ok (EKeyShareOld s) /\
  content_ok (EKeyShare s) /\ content_ok (EPreSharedKey s) /\ content_ok (ECookie s).
Proof.
  repeat split; cstart;
    unfold parse_tls_extension_padding_content, parse_tls_extension_session_ticket_content,
      parse_tls_extension_key_share_old_content, parse_tls_extension_key_share_content,
      parse_tls_extension_pre_shared_key_content, parse_tls_extension_cookie_content, pmap;
    rewrite run_bind, take_all_plain, run_ret; cfin.
Qed.

Lemma c_empty : content_ok EEncryptThenMac /\ content_ok EExtendedMasterSecret /\ content_ok EPostHandshakeAuth /\
  content_ok ENextProtocolNegotiation.
Proof.
  repeat split; cstart;
    unfold parse_tls_extension_encrypt_then_mac_content, parse_tls_extension_extended_master_secret_content,
      parse_tls_extension_post_handshake_auth_content, parse_tls_extension_npn_content, empty_only;
    cbn [lenN]; change (0 =? 0) with true; cbn [negb]; rewrite run_ret; cfin.
Qed.

Lemma c_rsl v : v < 65536 -> content_ok (ERecordSizeLimit v).
Proof.
  intros Hv. cstart. unfold parse_tls_extension_record_size_limit, pmap. pose proof (run_u16_enc v o [] Hv) as E. on_exact E.
  rewrite run_bind, E, run_ret. cfin.
Qed.

Lemma c_early v : (forall x, v = Some x -> x < 4294967296) -> content_ok (EEarlyData v).
Proof.
  intros Hv. cstart. unfold parse_tls_extension_early_data_content, pmap, cond. destruct v as [x|].
  - rewrite lenN_u32. change (0 <? 4) with true. cbv iota. unfold pmap.
    pose proof (run_u32_enc x o [] (Hv x eq_refl)) as E. on_exact E. rewrite !run_bind, E, !run_ret. cfin.
  - cbn [lenN]. change (0 <? 0) with false. cbv iota. rewrite run_bind, !run_ret. cfin.
Qed.

Lemma c_versions l : all16 l -> 2 * lenN l < 256 -> content_ok (ESupportedVersions l).
Proof.
  intros Hl Hn. cstart. unfold parse_tls_extension_supported_versions_content.
  destruct l as [|v [|w l']].
  - (* empty client list: 00 *)
    change (vec8 (cat u16 (@nil N))) with (u8 0). rewrite lenN_u8.
    change (1 =? 2) with false. cbv iota. rewrite run_bind.
    pose proof (run_u8_enc 0 o [] ltac:(lia)) as E. on_exact E. rewrite E.
    change (1 =? 0) with false. cbv iota. unfold map_parser. rewrite !run_bind.
    change (1 - 1) with 0. rewrite run_take. unfold slen; cbn [bytes lenN].
    change (0 <=? 0) with true. cbv iota. rewrite run_on. unfold parse_tls_versions.
    pose proof (run_u16_all [] (o + 1) ltac:(constructor)) as E2. cbn [cat map concat] in E2.
    unfold sdrop, takeN; cbn [bytes off]. rewrite E2, run_ret. cfin.
  - (* a single version: the 2-byte server form *)
    inversion Hl as [|? ? Hv _]; subst. cbn [enc_ext_content]. rewrite lenN_u16. change (2 =? 2) with true. cbv iota.
    unfold pmap. pose proof (run_u16_enc v o [] Hv) as E. on_exact E. rewrite run_bind, E, run_ret. cfin.
  - set (l := v :: w :: l') in *. cbn [enc_ext_content]. fold l.
    assert (Hlen : 4 <= 2 * lenN l) by (unfold l; cbn [lenN]; lia).
    rewrite lenN_vec8, lenN_cat_u16.
    destruct (N.eqb_spec (1 + 2 * lenN l) 2); [lia|].
    unfold vec8. rewrite run_bind, run_u8_enc by (rewrite lenN_cat_u16; lia).
    destruct (N.eqb_spec (1 + 2 * lenN l) 0); [lia|].
    unfold map_parser. rewrite !run_bind. replace (1 + 2 * lenN l - 1) with (lenN (cat u16 l)) by (rewrite lenN_cat_u16; lia).
    rewrite take_all_plain, run_on. unfold parse_tls_versions. rewrite (run_u16_all l _ Hl), run_ret. cfin.
Qed.

Lemma c_pskm l : lenN l < 256 -> content_ok (EPskExchangeModes l).
Proof.
  intros Hl. cstart. unfold parse_tls_extension_psk_key_exchange_modes_content.
  pose proof (run_vec8 l o [] Hl) as E. on_exact E. rewrite run_bind, E, run_ret. cfin.
Qed.

Lemma c_oid l : Forall oid_wf l -> lenN (cat (fun p : slice * slice => vec8 (bytes (fst p)) ++ vec16 (bytes (snd p))) l) < 65536 ->
  content_ok (EOidFilters l).
Proof.
  intros Hw Hl. cstart. unfold parse_tls_extension_oid_filters.
  destruct (vec16_many0 parse_tls_oid_filter _ _ oid_eqv l o oid_rt oid_ne) as [l' [E HF]].
  - intros j. unfold parse_tls_oid_filter. apply stops_bind_l, stops_length_data_nil. lia.
  - intros v Hin. rewrite Forall_forall in Hw. exact (Hw v Hin).
  - exact Hl.
  - rewrite run_bind, E, run_ret. eexists. eexists. split; [reflexivity|].
    unfold ext_eqv; cbn [strip_ext]. now rewrite (Forall2_oid _ _ HF).
Qed.

Lemma c_esni c g k r e : c < 65536 -> g < 65536 -> slen k < 65536 -> slen r < 65536 -> slen e < 65536 ->
  content_ok (EEncryptedServerName c g k r e).
Proof.
  intros Hc Hg Hk Hr He. cstart. unfold parse_tls_extension_encrypted_server_name. repeat rewrite <- app_assoc.
  do 4 rt_step. pose proof (run_vec16 (bytes e) (o + 2 + 2 + 2 + lenN (bytes k) + 2 + lenN (bytes r)) [] He) as E. on_exact E.
  rewrite run_bind, E, run_ret. cfin.
Qed.

(* ---- every typed variant ---- *)
Definition typed (e : TlsExtension) : Prop := match e with EGrease _ _ | EUnknown _ _ => False | _ => True end.

Lemma all_contents e : wf_ext e -> typed e -> content_ok e.
Proof.
  intros [Hl Hw] Ht. destruct e; cbn [wf_ext typed] in *; try contradiction.
  - apply c_sni; [exact Hw | exact Hl].
  - apply (c_u8 v Hw).
  - apply c_status. intros t s E. subst v. exact Hw.
  - apply (c_u16list l Hw). cbn [enc_ext_content] in Hl. rewrite lenN_vec16, lenN_cat_u16 in Hl. lia.
  - apply (c_vec8 s Hw).
  - apply (c_u16list l Hw). cbn [enc_ext_content] in Hl. rewrite lenN_vec16, lenN_cat_u16 in Hl. lia.
  - apply c_rsl; exact Hw.
  - apply (c_opaque s).
  - apply (c_opaque s).
  - apply (c_opaque s).
  - apply (c_opaque s).
  - apply c_early. intros x E. subst v. exact Hw.
  - destruct Hw. apply c_versions; assumption.
  - apply (c_opaque s).
  - apply c_pskm; exact Hw.
  - apply (c_u8 v Hw).
  - apply c_alpn; [exact Hw|]. cbn [enc_ext_content] in Hl. rewrite lenN_vec16 in Hl. lia.
  - apply c_sct. intros s E. subst v. cbn [enc_ext_content] in Hl. rewrite lenN_vec16 in Hl. unfold slen. lia.
  - apply (c_opaque s).
  - apply c_empty.
  - apply c_empty.
  - apply c_oid; [exact Hw|]. cbn [enc_ext_content] in Hl. rewrite lenN_vec16 in Hl. lia.
  - apply c_empty.
  - apply c_empty.
  - apply (c_vec8 s Hw).
  - destruct Hw as [? [? [? [? ?]]]]. apply c_esni; assumption.
Qed.

Lemma typed_not_grease e : typed e -> is_grease_simple (iana_type e) = false /\ iana_type e < 65536 /\ cid e <> None.
Proof. destruct e; cbn [typed]; try contradiction; intros _; repeat split; try reflexivity; try (vm_compute; reflexivity); vm_compute; discriminate. Qed.

Section Main.
  Hypothesis Hg : generic_ok = true.
  Hypothesis Hgr : grease_ok = true.

  Theorem ext_roundtrip_gen tbl e rest o :
    (forall t c, assoc_N t generic_expected = Some c -> In t (map fst tbl) -> assoc_N t tbl = Some c) ->
    In (iana_type e) (map fst tbl) ->
    wf_ext e -> typed e ->
    exists e', run (dispatch_ext tbl) (mkS o (enc_ext e ++ rest)) = Ok (mkS (o + lenN (enc_ext e)) rest) e' /\ ext_eqv e' e.
  Proof.
    intros Htbl Hin Hw Ht. destruct (typed_not_grease e Ht) as [Hng [H16 Hc]].
    unfold enc_ext. repeat rewrite <- app_assoc. rewrite dispatch_char by (try exact H16; exact (proj1 Hw)).
    rewrite (grease_exact Hgr _ H16), Hng.
    pose proof (all_contents e Hw Ht (o + 4)) as Hco. unfold cid in *.
    destruct (assoc_N (iana_type e) generic_expected) as [c|] eqn:Ec; [|congruence].
    rewrite (Htbl _ _ Ec Hin). destruct Hco as [r [e' [E He]]]. rewrite E. cbn [lift_ext].
    eexists. split; [apply f_equal2; [f_equal; solve_off | reflexivity] | exact He].
  Qed.

  Lemma generic_tbl_ok : forall t c, assoc_N t generic_expected = Some c -> In t (map fst generic_table) -> assoc_N t generic_table = Some c.
  Proof. intros t c E _. now rewrite (generic_lookup Hg). Qed.
  Lemma generic_keys t c : assoc_N t generic_expected = Some c -> In t (map fst generic_table).
  Proof.
    intros E. rewrite <- (generic_lookup Hg) in E. clear - E. induction generic_table as [|[k v] l IH]; cbn [assoc_N] in E; [discriminate|].
    cbn [map fst]. destruct (N.eqb_spec t k); [left; congruence | right; auto].
  Qed.

  Theorem ext_roundtrip e rest o : wf_ext e -> typed e ->
    exists e', run parse_tls_extension (mkS o (enc_ext e ++ rest)) = Ok (mkS (o + lenN (enc_ext e)) rest) e' /\ ext_eqv e' e.
  Proof.
    intros Hw Ht. apply ext_roundtrip_gen; auto using generic_tbl_ok.
    destruct (typed_not_grease e Ht) as [_ [_ Hc]]. unfold cid in Hc.
    destruct (assoc_N (iana_type e) generic_expected) eqn:E; [|congruence]. eapply generic_keys; eauto.
  Qed.

  (* GREASE: each of the 16 RFC 8701 code points, any data; everything else not assigned: Unknown *)
  Theorem grease_preserved tbl t data rest o : t < 65536 -> is_grease_simple t = true -> lenN data < 65536 ->
    run (dispatch_ext tbl) (mkS o (u16 t ++ vec16 data ++ rest)) =
      Ok (mkS (o + 4 + lenN data) rest) (EGrease t (mkS (o + 4) data)).
  Proof. intros Ht Hgs Hd. rewrite dispatch_char by assumption. now rewrite (grease_exact Hgr _ Ht), Hgs. Qed.
  Theorem unknown_preserved tbl t data rest o : t < 65536 -> is_grease_simple t = false -> lenN data < 65536 ->
    assoc_N t tbl = None ->
    run (dispatch_ext tbl) (mkS o (u16 t ++ vec16 data ++ rest)) =
      Ok (mkS (o + 4 + lenN data) rest) (EUnknown t (mkS (o + 4) data)).
  Proof. intros Ht Hgs Hd Hn. rewrite dispatch_char by assumption. now rewrite (grease_exact Hgr _ Ht), Hgs, Hn. Qed.

  (* all three kinds through the generic parser *)
  Definition wf_any (e : TlsExtension) : Prop :=
    wf_ext e /\ match e with EUnknown t _ => assoc_N t generic_expected = None | _ => True end.
  Lemma any_rt : roundtrips parse_tls_extension enc_ext wf_any ext_eqv.
  Proof.
    intros e rest o [Hw Hu]. destruct e; try (apply ext_roundtrip; [exact Hw | exact I]).
    - destruct Hw as [Hl [Ht Hgs]]. unfold enc_ext. cbn [iana_type enc_ext_content] in *. repeat rewrite <- app_assoc.
      unfold parse_tls_extension. rewrite grease_preserved by assumption.
      eexists. split; [apply f_equal2; [f_equal; solve_off | reflexivity] | reflexivity].
    - destruct Hw as [Hl [Ht Hgs]]. unfold enc_ext. cbn [iana_type enc_ext_content] in *. repeat rewrite <- app_assoc.
      unfold parse_tls_extension. rewrite unknown_preserved by (try assumption; rewrite (generic_lookup Hg); exact Hu).
      eexists. split; [apply f_equal2; [f_equal; solve_off | reflexivity] | reflexivity].
  Qed.
  Lemma any_ne : nonempty_enc enc_ext wf_any.
  Proof. intros e _. unfold enc_ext. rewrite lenN_app, lenN_u16. lia. Qed.

  (* a block of extensions: one element per extension, wire order, whole block consumed *)
  Theorem ext_list_roundtrip es o : (forall e, In e es -> wf_any e) ->
    exists es', run parse_tls_extensions (mkS o (cat enc_ext es)) = Ok (mkS (o + lenN (cat enc_ext es)) []) es' /\
                Forall2 ext_eqv es' es.
  Proof.
    intros Hw. unfold parse_tls_extensions.
    destruct (many0_cmpl_rt parse_tls_extension enc_ext wf_any ext_eqv any_rt any_ne es o [] Hw) as [es' [E HF]].
    - unfold parse_tls_extension, dispatch_ext. apply stops_beu_nil_gen. lia.
    - unfold encs in E. rewrite app_nil_r in E. unfold cat. eauto.
  Qed.
End Main.

(* extensions defined as empty are rejected when they carry data *)
Theorem empty_only_rejects c len i :
  In c [XC_encrypt_then_mac; XC_extended_master_secret; XC_post_handshake_auth; XC_npn] -> len <> 0 ->
  run (ext_content c len) i = Err i KVerify.
Proof.
  intros Hin Hl. cbn [In] in Hin.
  destruct Hin as [<-|[<-|[<-|[<-|[]]]]]; cbn [ext_content];
    unfold parse_tls_extension_encrypt_then_mac_content, parse_tls_extension_extended_master_secret_content,
      parse_tls_extension_post_handshake_auth_content, parse_tls_extension_npn_content, empty_only;
    destruct (N.eqb_spec len 0); try contradiction; reflexivity.
Qed.

(* the three dispatchers agree on every type they all recognise: equal table entries give equal results *)
Theorem dispatchers_agree t1 t2 : forall i,
  (forall t, assoc_N t t1 = assoc_N t t2) -> run (dispatch_ext t1) i = run (dispatch_ext t2) i.
Proof.
  intros i H. unfold dispatch_ext. rewrite !run_bind. destruct (run be_u16 i) as [r t| | | | |]; try reflexivity.
  rewrite !run_bind. destruct (run (length_data be_u16) r) as [r' d| | | | |]; try reflexivity.
  destruct (grease_test t); [reflexivity|]. now rewrite H.
Qed.
