(* C15: hello accessors and constructors reflect the parsed fields. *)
From TlsModel Require Import Bytes Values Accessors AccessorForms Ciphers CipherTypes BytesLemmas.
From Coq Require Import Lia.

(* the obligation over the source form of rand_time *)
Definition rand_time_ok : bool := match rand_time_src with RtFirstFour => true | RtWholeSlice => false end.

Theorem rand_time_spec : rand_time_ok = true -> forall random,
  rand_time random = if 4 <=? slen random then be_val (takeN (bytes random) 4) else 0.
Proof. unfold rand_time_ok, rand_time. destruct rand_time_src; [discriminate | reflexivity]. Qed.

(* for a parsed hello the random has 32 bytes: the first four as a big-endian u32, and the remaining 28 *)
Theorem rand_time_32 : rand_time_ok = true -> forall random, slen random = 32 ->
  rand_time random = be_val (takeN (bytes random) 4) /\ rand_time random < 2 ^ 32.
Proof.
  intros H random H32. rewrite (rand_time_spec H). rewrite H32. change (4 <=? 32) with true. cbv iota. split; [reflexivity|].
  pose proof (be_val_bound (takeN (bytes random) 4)) as Hb. rewrite lenN_takeN in Hb by (unfold slen in H32; lia). exact Hb.
Qed.
Theorem rand_bytes_32 : forall random, slen random = 32 ->
  rand_bytes random = sdrop random 4 /\ slen (rand_bytes random) = 28.
Proof.
  intros random H32. unfold rand_bytes. rewrite H32. change (4 <=? 32) with true. cbv iota. split; [reflexivity|].
  unfold slen, sdrop; cbn [bytes]. rewrite lenN_dropN. unfold slen in H32. lia.
Qed.
Theorem rand_short : rand_time_ok = true -> forall random, slen random < 4 ->
  rand_time random = 0 /\ bytes (rand_bytes random) = [].
Proof.
  intros H random Hs. rewrite (rand_time_spec H). unfold rand_bytes.
  destruct (N.leb_spec 4 (slen random)); [lia | split; reflexivity].
Qed.

(* cipher ids map, in order, to their registry entry or None *)
Theorem cipher_map ids : cipher_suites ids = map (fun id => option_map c_id (from_id id)) ids /\
  length (cipher_suites ids) = length ids.
Proof. split; [reflexivity | unfold cipher_suites; apply map_length]. Qed.
