(* C10: DTLS records and handshake fragments decode per RFC 6347. *)
From TlsModel Require Import Bytes Nom Values DispatchTypes Handshake Record Dtls Wire Strip DtlsEnc RecordSpec
  BytesLemmas NomGeneric RunLemmas ManyLemmas RtTactics SafeProofs MultiRecordProofs TableLemmas HandshakeProofs.
From TlsModel Require Import Dispatch Consts.
From Coq Require Import Lia ZArith ZifyBool ZifyN.
Ltac Zify.zify_post_hook ::= Z.div_mod_to_equations.

(* ---- the 64-bit word: epoch (high 16 bits) and sequence number (low 48 bits) ---- *)
Lemma lenN_u48 v : lenN (u48 v) = 6. Proof. unfold u48. now rewrite lenN_be_enc. Qed.

Lemma be_val_epoch_seq e s : e < 65536 -> s < 2 ^ 48 -> be_val (u16 e ++ u48 s) = e * 2 ^ 48 + s.
Proof.
  intros He Hs. unfold be_val, u16, u48. rewrite be_fold_app, !be_fold_enc.
  change (N.of_nat 2) with 2. change (N.of_nat 6) with 6. change (256 ^ 6) with (2 ^ 48). change (256 ^ 2) with 65536.
  rewrite !N.mod_small by lia. lia.
Qed.
Lemma split_word e s : e < 65536 -> s < 2 ^ 48 ->
  N.shiftr (e * 2 ^ 48 + s) 48 mod 65536 = e /\ N.land (e * 2 ^ 48 + s) 281474976710655 = s.
Proof.
  intros He Hs. rewrite N.shiftr_div_pow2. change 281474976710655 with (N.ones 48). rewrite N.land_ones.
  split.
  - rewrite N.div_add_l by lia. rewrite (N.div_small s) by lia. rewrite N.add_0_r. apply N.mod_small. lia.
  - rewrite N.add_comm, N.mod_add by lia. apply N.mod_small. lia.
Qed.

Definition wf_dhdr (h : DTLSRecordHeader) : Prop :=
  d_type h < 256 /\ d_version h < 65536 /\ d_epoch h < 65536 /\ d_seq h < 2 ^ 48 /\ d_len h < 65536.

Theorem dtls_header_roundtrip h rest o : wf_dhdr h ->
  run parse_dtls_record_header (mkS o (enc_dtls_hdr h ++ rest)) = Ok (mkS (o + 13) rest) h.
Proof.
  intros [Ht [Hv [He [Hs Hl]]]]. unfold parse_dtls_record_header, enc_dtls_hdr. repeat rewrite <- app_assoc.
  do 2 rt_step. rewrite run_bind. unfold be_u64. rewrite run_beu. unfold slen; cbn [bytes].
  rewrite !lenN_app, lenN_u16, lenN_u48, lenN_u16. change (N.of_nat 8) with 8.
  destruct (N.leb_spec 8 (2 + (6 + (2 + lenN rest)))); [|lia].
  rewrite (app_assoc (u16 (d_epoch h))). rewrite takeN_app_len by (rewrite lenN_app, lenN_u16, lenN_u48; reflexivity).
  rewrite be_val_epoch_seq by assumption. destruct (split_word _ _ He Hs) as [E1 E2]. rewrite E1, E2.
  unfold sdrop; cbn [bytes off]. rewrite dropN_app_len by (rewrite lenN_app, lenN_u16, lenN_u48; reflexivity).
  rewrite run_bind, run_u16_enc by exact Hl. rewrite run_ret. destruct h; cbn. f_equal. f_equal. lia.
Qed.

(* ---- record framing: same cap, exact consumption ---- *)
Definition lift_dplain (hdr : DTLSRecordHeader) (rest : slice) (r : res (list DTLSMessage)) : res DTLSPlaintext :=
  match r with
  | Ok _ msgs => Ok rest (mkDPlain hdr msgs)
  | Err s k => Err s k | Fail s k => Fail s k
  | Incomplete n => Incomplete n | Panic => Panic | OutOfFuel => OutOfFuel
  end.

Theorem dtls_record_char h body o : wf_dhdr h ->
  run parse_dtls_plaintext_record (mkS o (enc_dtls_hdr h ++ body)) =
    if RECORD_CAP <? d_len h then Err (mkS (o + 13) body) KTooLarge
    else if lenN body <? d_len h then Incomplete (Size (d_len h - lenN body))
    else lift_dplain h (mkS (o + 13 + d_len h) (dropN body (d_len h)))
           (run (parse_dtls_record_with_header h) (mkS (o + 13) (takeN body (d_len h)))).
Proof.
  intros Hw. unfold parse_dtls_plaintext_record. rewrite run_bind, dtls_header_roundtrip by exact Hw.
  change MAX_RECORD_LEN with RECORD_CAP. destruct (RECORD_CAP <? d_len h); [reflexivity|].
  unfold map_parser. rewrite !run_bind, run_take. unfold slen; cbn [bytes].
  destruct (N.leb_spec (d_len h) (lenN body)), (N.ltb_spec (lenN body) (d_len h)); try lia.
  - rewrite run_on. unfold sdrop; cbn [bytes off]. destruct (run (parse_dtls_record_with_header h) _); reflexivity.
  - rewrite mk_needed_pos by lia. reflexivity.
Qed.

(* a header cut short is Incomplete (13 bytes: u8, u16, u64, u16) *)
Theorem dtls_header_incomplete i : slen i < 13 -> exists n, run parse_dtls_plaintext_record i = Incomplete n.
Proof.
  intros H. unfold parse_dtls_plaintext_record, parse_dtls_record_header, be_u8, be_u16, be_u64.
  rewrite !run_bind, run_beu. change (N.of_nat 1) with 1.
  destruct (N.leb_spec 1 (slen i)); [|eauto].
  rewrite !run_bind, run_beu, slen_sdrop. change (N.of_nat 2) with 2.
  destruct (N.leb_spec 2 (slen i - 1)); [|eauto].
  rewrite !run_bind, run_beu, !slen_sdrop. change (N.of_nat 8) with 8.
  destruct (N.leb_spec 8 (slen i - 1 - 2)); [|eauto].
  rewrite !run_bind, run_beu, !slen_sdrop. change (N.of_nat 2) with 2.
  destruct (N.leb_spec 2 (slen i - 1 - 2 - 8)); [lia | eauto].
Qed.

(* ---- handshake messages with the 12-byte DTLS header ---- *)
Scheme Equality for dtls_hs_body_id.
Scheme Equality for dtls_rec_body_id.
Definition dtls_hs_expected : list (N * dtls_hs_body_id) :=
  [(1, DHB_client_hello); (3, DHB_hello_verify_request); (2, DHB_server_hello); (14, DHB_serverdone);
   (16, DHB_clientkeyexchange); (11, DHB_certificate)].
Definition dtls_rec_expected : list (N * dtls_rec_body_id) :=
  [(20, DRB_many1_ccs); (21, DRB_many1_alert); (22, DRB_many1_handshake)].
Definition dtls_tables_std : bool :=
  same_assoc dtls_hs_body_id_beq dtls_hs_table dtls_hs_expected &&
  same_assoc dtls_rec_body_id_beq dtls_rec_table dtls_rec_expected.
Lemma dtls_tables_are : dtls_tables_std = true ->
  (forall t, assoc_N t dtls_hs_table = assoc_N t dtls_hs_expected) /\
  (forall t, assoc_N t dtls_rec_table = assoc_N t dtls_rec_expected).
Proof.
  unfold dtls_tables_std. intros H. apply andb_prop in H as [H1 H2]. split.
  - apply same_assoc_eq with (eqb := dtls_hs_body_id_beq); [exact internal_dtls_hs_body_id_dec_bl | exact H1].
  - apply same_assoc_eq with (eqb := dtls_rec_body_id_beq); [exact internal_dtls_rec_body_id_dec_bl | exact H2].
Qed.

Definition lift_dbody (rest : slice) (ty len mseq foff flen : N) (r : res DTLSBody) : res DTLSMessage :=
  match r with
  | Ok _ b => Ok rest (DMHandshake (mkDHS ty len mseq foff flen b))
  | Err s k => Err s k | Fail s k => Fail s k
  | Incomplete n => Incomplete n | Panic => Panic | OutOfFuel => OutOfFuel
  end.

Theorem dtls_handshake_char ty len mseq foff frag rest o :
  ty < 256 -> len < 16777216 -> mseq < 65536 -> foff < 16777216 -> lenN frag < 16777216 ->
  run parse_dtls_message_handshake (mkS o (enc_dtls_hs ty len mseq foff frag ++ rest)) =
    if (0 <? foff) || (lenN frag <? len)
    then Ok (mkS (o + 12 + lenN frag) rest) (DMHandshake (mkDHS ty len mseq foff (lenN frag) (DFragment (mkS (o + 12) frag))))
    else match assoc_N ty dtls_hs_table with
         | Some b => lift_dbody (mkS (o + 12 + lenN frag) rest) ty len mseq foff (lenN frag)
                       (run (dtls_hs_body b len) (mkS (o + 12) frag))
         | None => Err (mkS (o + 12 + lenN frag) rest) KSwitch
         end.
Proof.
  intros H1 H2 H3 H4 H5. unfold parse_dtls_message_handshake, enc_dtls_hs. repeat rewrite <- app_assoc.
  do 5 rt_step. rewrite run_bind, run_take_n by reflexivity.
  replace (o + 1 + 3 + 2 + 3 + 3) with (o + 12) by lia.
  destruct ((0 <? foff) || (lenN frag <? len)).
  - rewrite run_bind, run_on. unfold parse_dtls_fragment. rewrite run_bind, run_geti. cbv beta iota.
    unfold slen; cbn [bytes]. rewrite run_bind, take_all_plain, !run_ret. reflexivity.
  - destruct (assoc_N ty dtls_hs_table) as [b|].
    + rewrite run_bind, run_on. destruct (run (dtls_hs_body b len) _); rewrite ?run_ret; reflexivity.
    + rewrite run_bind. reflexivity.
Qed.

(* ---- bodies ---- *)
Definition wf_dch (c : DTLSClientHelloC) : Prop :=
  dch_version c < 65536 /\ slen (dch_random c) = 32 /\ wf_sid (dch_sid c) /\ slen (dch_cookie c) < 256 /\
  Forall (fun v => v < 65536) (dch_ciphers c) /\ 2 * lenN (dch_ciphers c) < 65536 /\
  Forall (fun v => v < 256) (dch_comp c) /\ lenN (dch_comp c) < 256 /\ wf_optext (dch_ext c).

Lemma dtls_client_hello_rt c o : wf_dch c ->
  exists r b', run parse_dtls_client_hello (mkS o (enc_dtls_client_hello c)) = Ok r b' /\ strip_dbody b' = strip_dbody (DClientHello c).
Proof.
  intros [Hv [Hr [Hs [Hck [Hc [Hcl [Hco [Hcol He]]]]]]]].
  unfold parse_dtls_client_hello, enc_dtls_client_hello. unfold vec16 at 1. repeat rewrite <- app_assoc.
  rt_step. rewrite run_bind, run_take_n by (unfold slen in Hr; exact Hr).
  destruct (run_sid (dch_sid c) (vec8 (bytes (dch_cookie c)) ++ u16 (lenN (cat u16 (dch_ciphers c))) ++ cat u16 (dch_ciphers c) ++
                                  vec8 (cat u8 (dch_comp c)) ++ enc_optext (dch_ext c)) (o + 2 + 32) Hs) as [s' [Hss Es]].
  rewrite Es. clear Es.
  rt_step.
  rewrite run_bind, run_u16_enc by (rewrite lenN_cat_u16; lia).
  rewrite run_bind, run_cipher_suites by exact Hc.
  unfold vec8 at 1. repeat rewrite <- app_assoc.
  rewrite run_bind, run_u8_enc by (rewrite lenN_cat_u8; lia).
  rewrite run_bind, run_compressions by exact Hco.
  rewrite run_bind.
  match goal with |- context [run opt_ext (mkS ?o' _)] => destruct (run_opt_ext (dch_ext c) o' He) as [e' [Ee Hee]] end.
  rewrite Ee, run_ret. eexists. eexists. split; [reflexivity|].
  cbn [strip_dbody dch_version dch_random dch_sid dch_cookie dch_ciphers dch_comp dch_ext]. rewrite Hss, Hee. reflexivity.
Qed.

Lemma dtls_hvr_rt v c o : v < 65536 -> slen c < 256 ->
  exists r b', run parse_dtls_hello_verify_request (mkS o (u16 v ++ vec8 (bytes c))) = Ok r b' /\
               strip_dbody b' = strip_dbody (DHelloVerifyRequest v c).
Proof.
  intros Hv Hc. unfold parse_dtls_hello_verify_request. rt_step.
  pose proof (run_vec8 (bytes c) (o + 2) [] Hc) as E. rewrite app_nil_r in E. rewrite run_bind, E, run_ret.
  eexists. eexists. split; reflexivity.
Qed.

(* which bodies are "supported" and well-formed *)
Definition wf_dbody (b : DTLSBody) : Prop :=
  match b with
  | DClientHello c => wf_dch c
  | DHelloVerifyRequest v c => v < 65536 /\ slen c < 256
  | DServerHello c => sh_version c < 65536 /\ slen (sh_random c) = 32 /\ wf_sid (sh_sid c) /\ sh_cipher c < 65536 /\
                      sh_comp c < 256 /\ wf_optext (sh_ext c)
  | DCertificate l => wf_certs l
  | DServerDone _ => True
  | DClientKeyExchange c => match c with CkeUnknown _ => True | _ => False end
  | _ => False
  end.
Definition dbody_type (b : DTLSBody) : N :=
  match b with
  | DClientHello _ => 1 | DHelloVerifyRequest _ _ => 3 | DServerHello _ => 2 | DCertificate _ => 11
  | DServerDone _ => 14 | DClientKeyExchange _ => 16 | _ => 255
  end.

Section DBodies.
  Hypothesis Ht : dtls_tables_std = true.
  Let Hhs := proj1 (dtls_tables_are Ht).

  Lemma dtls_body_rt b o : wf_dbody b ->
    exists id r b', assoc_N (dbody_type b) dtls_hs_table = Some id /\
      run (dtls_hs_body id (lenN (enc_dtls_body b))) (mkS o (enc_dtls_body b)) = Ok r b' /\ strip_dbody b' = strip_dbody b.
  Proof.
    intros Hw. destruct b; cbn [wf_dbody] in Hw; try contradiction; cbn [dbody_type enc_dtls_body]; rewrite Hhs.
    - exists DHB_client_hello. destruct (dtls_client_hello_rt c o Hw) as [r [b' [E Hs]]]. eauto.
    - destruct Hw as [Hv Hc]. exists DHB_hello_verify_request. destruct (dtls_hvr_rt server_version cookie o Hv Hc) as [r [b' [E Hs]]]. eauto.
    - destruct Hw as [Hv [Hr [Hs [Hc [Hco He]]]]]. exists DHB_server_hello. cbn [dtls_hs_body]. unfold pmap.
      destruct (server_hello_v12_rt c o true Hv Hr Hs Hc Hco He ltac:(discriminate)) as [r [v' [E Hss]]].
      eexists. eexists. split; [reflexivity|]. rewrite run_bind, E, run_ret. split; [reflexivity|]. cbn [strip_dbody]. now rewrite Hss.
    - exists DHB_certificate. cbn [dtls_hs_body]. unfold pmap. destruct (certificate_rt chain o Hw) as [r [l' [E Hs]]].
      eexists. eexists. split; [reflexivity|]. rewrite run_bind, E, run_ret. split; [reflexivity|]. cbn [strip_dbody]. now rewrite Hs.
    - exists DHB_serverdone. cbn [dtls_hs_body]. unfold pmap. eexists. eexists. split; [reflexivity|].
      rewrite run_bind, take_all_plain, run_ret. split; reflexivity.
    - destruct c; try contradiction. exists DHB_clientkeyexchange. cbn [dtls_hs_body]. unfold pmap, parse_tls_clientkeyexchange, pmap.
      eexists. eexists. split; [reflexivity|]. rewrite !run_bind, take_all_plain, !run_ret. split; reflexivity.
  Qed.

  (* a complete, unfragmented message of a supported type: header fields verbatim, body decoded *)
  Theorem dtls_message_roundtrip b mseq rest o : wf_dbody b -> mseq < 65536 -> lenN (enc_dtls_body b) < 16777216 ->
    exists b', run parse_dtls_message_handshake
                 (mkS o (enc_dtls_hs (dbody_type b) (lenN (enc_dtls_body b)) mseq 0 (enc_dtls_body b) ++ rest)) =
               Ok (mkS (o + 12 + lenN (enc_dtls_body b)) rest)
                  (DMHandshake (mkDHS (dbody_type b) (lenN (enc_dtls_body b)) mseq 0 (lenN (enc_dtls_body b)) b')) /\
               strip_dbody b' = strip_dbody b.
  Proof.
    intros Hw Hm Hl. assert (Hty : dbody_type b < 256) by (destruct b; cbn; lia).
    rewrite dtls_handshake_char by (try assumption; lia).
    change (0 <? 0) with false. destruct (N.ltb_spec (lenN (enc_dtls_body b)) (lenN (enc_dtls_body b))); [lia|]. cbn [orb].
    destruct (dtls_body_rt b (o + 12) Hw) as [id [r [b' [Ea [E Hs]]]]]. rewrite Ea, E. cbn [lift_dbody]. eauto.
  Qed.
End DBodies.

(* a message with non-zero offset, or a fragment shorter than the message: opaque Fragment, whatever the type *)
Theorem dtls_fragment ty len mseq foff frag rest o :
  ty < 256 -> len < 16777216 -> mseq < 65536 -> foff < 16777216 -> lenN frag < 16777216 ->
  0 < foff \/ lenN frag < len ->
  run parse_dtls_message_handshake (mkS o (enc_dtls_hs ty len mseq foff frag ++ rest)) =
    Ok (mkS (o + 12 + lenN frag) rest) (DMHandshake (mkDHS ty len mseq foff (lenN frag) (DFragment (mkS (o + 12) frag)))).
Proof.
  intros H1 H2 H3 H4 H5 Hf. rewrite dtls_handshake_char by assumption.
  assert (E : (0 <? foff) || (lenN frag <? len) = true).
  { destruct Hf; [destruct (N.ltb_spec 0 foff); [reflexivity | lia] |
                  destruct (N.ltb_spec (lenN frag) len); [apply Bool.orb_true_r | lia]]. }
  now rewrite E.
Qed.

Definition is_fragment (m : DTLSMessage) : bool :=
  match m with DMHandshake h => match dhs_body h with DFragment _ => true | _ => false end | _ => false end.
