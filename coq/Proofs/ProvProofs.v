(* C06 provenance for every parser of the crate: all slices in a returned value are sub-slices of the
   input (same bytes, same address) lying in its consumed part. *)
From TlsModel Require Import Bytes Nom Values DispatchTypes Handshake Record Extensions Kx Dtls
  BytesLemmas NomGeneric RunLemmas ProvGeneric Slices.
From TlsModel Require Import Consts Dispatch.
From Coq Require Import Lia ZArith.

Create HintDb prov discriminated.
Ltac prov_norm :=
  cbv [slices HS_N HS_bool HS_unit HS_byte HS_slice HS_option HS_prod HS_list HS_hdr HS_dhdr HS_CH HS_SH HS_SH13 HS_HRR HS_CR
       HS_CKE HS_HS HS_Msg HS_Plain HS_Enc HS_Raw HS_Ext HS_DH HS_EP HS_ECPC HS_ECP HS_ECDH HS_DS HS_SCT HS_DCH HS_DBody
       HS_DHS HS_DMsg HS_DPlain fst snd] in *;
  cbn [flat_map app In] in *.
Ltac in_ctx := prov_norm; repeat first [rewrite in_app_iff in * | progress cbn [In] in *]; intuition.
Ltac prov_ret := apply ProvC_ret; let s := fresh "s" in let Hs := fresh "Hs" in intros s Hs; in_ctx.
Ltac prov_unfold :=
  unfold pmap, length_data, map_parser, cond, be_u8, be_u16, be_u24, be_u32, be_u64, opt_ext,
         length_count_u8_u8, tagged, with_len, empty_only.
Ltac prov_step :=
  match goal with
  | |- ProvC _ _ => solve [apply ProvC_noslices; typeclasses eauto]
  | |- ProvC _ (Bind GetI _) => apply ProvC_bind_any; intros ?
  | |- ProvC _ (Bind (Peek _) _) => apply ProvC_bind_any; intros ?
  | |- ProvC _ (Bind (Idx _) _) => apply ProvC_bind_any; intros ?
  | |- ProvC ?ctx (Bind ?p ?k) => apply (ProvC_bind _ ctx p k); [|intros ?]
  | |- ProvC _ (Ret _) => prov_ret
  | |- ProvC _ (ErrK _) => apply ProvC_errk
  | |- ProvC _ PanicP => apply ProvC_panic
  | |- ProvC _ (Take _) => apply ProvC_take
  | |- ProvC _ (Opt _) => apply ProvC_opt
  | |- ProvC _ (Cmpl _) => apply ProvC_cmpl
  | |- ProvC _ (On _ _) => apply ProvC_on; [solve [in_ctx]|]
  | |- ProvC _ (Many0 _) => apply ProvC_many0
  | |- ProvC _ (Many1 _) => apply ProvC_many1
  | |- ProvC _ (Alt _ _) => apply ProvC_alt
  | |- ProvC _ (Vrfy _ _) => apply ProvC_vrfy
  | |- ProvC _ (if ?b then _ else _) => destruct b
  | |- ProvC _ (match ?x with _ => _ end) => destruct x
  | |- ProvC _ (let '(_, _) := ?x in _) => destruct x
  | |- ProvC _ _ => solve [eauto with prov]
  | |- ProvC _ _ => progress prov_unfold
  end.
Ltac solve_prov := prov_unfold; repeat prov_step.

(* ---- src/tls_handshake.rs ---- *)
Lemma Prov_client_hello ctx : ProvC ctx parse_tls_handshake_client_hello.
Proof. unfold parse_tls_handshake_client_hello. solve_prov. Qed.
#[export] Hint Resolve Prov_client_hello : prov.
Lemma Prov_msg_client_hello ctx : ProvC ctx parse_tls_handshake_msg_client_hello.
Proof. unfold parse_tls_handshake_msg_client_hello. solve_prov. Qed.
Lemma Prov_certs ctx : ProvC ctx parse_certs.
Proof. unfold parse_certs. solve_prov. Qed.
#[export] Hint Resolve Prov_msg_client_hello Prov_certs : prov.
Lemma Prov_sh12 b ctx : ProvC ctx (parse_tls_server_hello_tlsv12 b).
Proof. unfold parse_tls_server_hello_tlsv12. solve_prov. Qed.
#[export] Hint Resolve Prov_sh12 : prov.
Lemma Prov_msg_sh12 b ctx : ProvC ctx (parse_tls_handshake_msg_server_hello_tlsv12 b).
Proof. unfold parse_tls_handshake_msg_server_hello_tlsv12. solve_prov. Qed.
Lemma Prov_msg_sh13 ctx : ProvC ctx parse_tls_handshake_msg_server_hello_tlsv13draft18.
Proof. unfold parse_tls_handshake_msg_server_hello_tlsv13draft18. solve_prov. Qed.
#[export] Hint Resolve Prov_msg_sh12 Prov_msg_sh13 : prov.
Lemma Prov_server_hello ctx : ProvC ctx parse_tls_handshake_server_hello.
Proof. unfold parse_tls_handshake_server_hello. solve_prov. Qed.
Lemma Prov_msg_server_hello ctx : ProvC ctx parse_tls_handshake_msg_server_hello.
Proof. unfold parse_tls_handshake_msg_server_hello. solve_prov. Qed.
#[export] Hint Resolve Prov_server_hello Prov_msg_server_hello : prov.
Lemma Prov_nst len ctx : ProvC ctx (parse_tls_handshake_msg_newsessionticket len).
Proof. unfold parse_tls_handshake_msg_newsessionticket. solve_prov. Qed.
Lemma Prov_hrr ctx : ProvC ctx parse_tls_handshake_msg_hello_retry_request.
Proof. unfold parse_tls_handshake_msg_hello_retry_request. solve_prov. Qed.
Lemma Prov_certificate ctx : ProvC ctx parse_tls_certificate.
Proof. unfold parse_tls_certificate. solve_prov. Qed.
#[export] Hint Resolve Prov_nst Prov_hrr Prov_certificate : prov.
Lemma Prov_msg_certificate ctx : ProvC ctx parse_tls_handshake_msg_certificate.
Proof. unfold parse_tls_handshake_msg_certificate. solve_prov. Qed.
Lemma Prov_ske len ctx : ProvC ctx (parse_tls_handshake_msg_serverkeyexchange len).
Proof. unfold parse_tls_handshake_msg_serverkeyexchange. solve_prov. Qed.
Lemma Prov_sdone len ctx : ProvC ctx (parse_tls_handshake_msg_serverdone len).
Proof. unfold parse_tls_handshake_msg_serverdone. solve_prov. Qed.
Lemma Prov_cverify len ctx : ProvC ctx (parse_tls_handshake_msg_certificateverify len).
Proof. unfold parse_tls_handshake_msg_certificateverify. solve_prov. Qed.
Lemma Prov_cke0 len ctx : ProvC ctx (parse_tls_clientkeyexchange len).
Proof. unfold parse_tls_clientkeyexchange. solve_prov. Qed.
#[export] Hint Resolve Prov_msg_certificate Prov_ske Prov_sdone Prov_cverify Prov_cke0 : prov.
Lemma Prov_cke len ctx : ProvC ctx (parse_tls_handshake_msg_clientkeyexchange len).
Proof. unfold parse_tls_handshake_msg_clientkeyexchange. solve_prov. Qed.
Lemma Prov_ca_list ctx : ProvC ctx ca_list.
Proof. unfold ca_list. solve_prov. Qed.
#[export] Hint Resolve Prov_cke Prov_ca_list : prov.
Lemma Prov_cr_nosig ctx : ProvC ctx parse_certrequest_nosigalg.
Proof. unfold parse_certrequest_nosigalg. solve_prov. Qed.
Lemma Prov_cr_full ctx : ProvC ctx parse_certrequest_full.
Proof. unfold parse_certrequest_full. solve_prov. Qed.
#[export] Hint Resolve Prov_cr_nosig Prov_cr_full : prov.
Lemma Prov_cr ctx : ProvC ctx parse_tls_handshake_certificaterequest.
Proof. unfold parse_tls_handshake_certificaterequest. solve_prov. Qed.
#[export] Hint Resolve Prov_cr : prov.
Lemma Prov_msg_cr ctx : ProvC ctx parse_tls_handshake_msg_certificaterequest.
Proof. unfold parse_tls_handshake_msg_certificaterequest. solve_prov. Qed.
Lemma Prov_finished len ctx : ProvC ctx (parse_tls_handshake_msg_finished len).
Proof. unfold parse_tls_handshake_msg_finished. solve_prov. Qed.
Lemma Prov_cstatus ctx : ProvC ctx parse_tls_handshake_certificatestatus.
Proof. unfold parse_tls_handshake_certificatestatus. solve_prov. Qed.
#[export] Hint Resolve Prov_msg_cr Prov_finished Prov_cstatus : prov.
Lemma Prov_msg_cstatus ctx : ProvC ctx parse_tls_handshake_msg_certificatestatus.
Proof. unfold parse_tls_handshake_msg_certificatestatus. solve_prov. Qed.
Lemma Prov_np ctx : ProvC ctx parse_tls_handshake_next_protocol.
Proof. unfold parse_tls_handshake_next_protocol. solve_prov. Qed.
#[export] Hint Resolve Prov_msg_cstatus Prov_np : prov.
Lemma Prov_msg_np ctx : ProvC ctx parse_tls_handshake_msg_next_protocol.
Proof. unfold parse_tls_handshake_msg_next_protocol. solve_prov. Qed.
Lemma Prov_ku ctx : ProvC ctx parse_tls_handshake_msg_key_update.
Proof. unfold parse_tls_handshake_msg_key_update. solve_prov. Qed.
Lemma Prov_hreq ctx : ProvC ctx parse_tls_handshake_msg_hello_request.
Proof. unfold parse_tls_handshake_msg_hello_request. solve_prov. Qed.
#[export] Hint Resolve Prov_msg_np Prov_ku Prov_hreq : prov.
Lemma Prov_hs_body b hl ctx : ProvC ctx (hs_body b hl).
Proof. destruct b; cbn [hs_body]; solve_prov. Qed.
#[export] Hint Resolve Prov_hs_body : prov.
Lemma Prov_message_handshake ctx : ProvC ctx parse_tls_message_handshake.
Proof. unfold parse_tls_message_handshake. solve_prov. Qed.
#[export] Hint Resolve Prov_message_handshake : prov.

(* ---- src/tls_message.rs, src/tls_record.rs ---- *)
Lemma Prov_ccs ctx : ProvC ctx parse_tls_message_changecipherspec.
Proof. unfold parse_tls_message_changecipherspec. solve_prov. Qed.
Lemma Prov_alert ctx : ProvC ctx parse_tls_message_alert.
Proof. unfold parse_tls_message_alert. solve_prov. Qed.
Lemma Prov_appdata ctx : ProvC ctx parse_tls_message_applicationdata.
Proof. unfold parse_tls_message_applicationdata. solve_prov. Qed.
Lemma Prov_heartbeat l ctx : ProvC ctx (parse_tls_message_heartbeat l).
Proof. unfold parse_tls_message_heartbeat. solve_prov. Qed.
Lemma Prov_header ctx : ProvC ctx parse_tls_record_header.
Proof. unfold parse_tls_record_header. solve_prov. Qed.
#[export] Hint Resolve Prov_ccs Prov_alert Prov_appdata Prov_heartbeat Prov_header : prov.
Lemma Prov_rec_body b hdr ctx : ProvC ctx (rec_body b hdr).
Proof. destruct b; cbn [rec_body]; solve_prov. Qed.
#[export] Hint Resolve Prov_rec_body : prov.
Lemma Prov_with_header hdr ctx : ProvC ctx (parse_tls_record_with_header hdr).
Proof. unfold parse_tls_record_with_header. solve_prov. Qed.
#[export] Hint Resolve Prov_with_header : prov.
Lemma Prov_plaintext ctx : ProvC ctx parse_tls_plaintext.
Proof. unfold parse_tls_plaintext. solve_prov. Qed.
Lemma Prov_encrypted ctx : ProvC ctx parse_tls_encrypted.
Proof. unfold parse_tls_encrypted. solve_prov. Qed.
Lemma Prov_raw ctx : ProvC ctx parse_tls_raw_record.
Proof. unfold parse_tls_raw_record. solve_prov. Qed.
#[export] Hint Resolve Prov_plaintext Prov_encrypted Prov_raw : prov.
Lemma Prov_many ctx : ProvC ctx tls_parser_many.
Proof. unfold tls_parser_many. solve_prov. Qed.
#[export] Hint Resolve Prov_many : prov.

(* ---- src/tls_extensions.rs ---- *)
Ltac prov_def d := unfold d; solve_prov.
Lemma Prov_sni_hostname ctx : ProvC ctx parse_tls_extension_sni_hostname. Proof. prov_def parse_tls_extension_sni_hostname. Qed.
#[export] Hint Resolve Prov_sni_hostname : prov.
Lemma Prov_sni_content ctx : ProvC ctx parse_tls_extension_sni_content. Proof. prov_def parse_tls_extension_sni_content. Qed.
Lemma Prov_mfl_content ctx : ProvC ctx parse_tls_extension_max_fragment_length_content. Proof. prov_def parse_tls_extension_max_fragment_length_content. Qed.
Lemma Prov_status_content l ctx : ProvC ctx (parse_tls_extension_status_request_content l). Proof. prov_def parse_tls_extension_status_request_content. Qed.
Lemma Prov_named_groups ctx : ProvC ctx parse_named_groups. Proof. apply ProvC_noslices; typeclasses eauto. Qed.
#[export] Hint Resolve Prov_named_groups : prov.
Lemma Prov_tls_versions ctx : ProvC ctx parse_tls_versions. Proof. apply ProvC_noslices; typeclasses eauto. Qed.
#[export] Hint Resolve Prov_tls_versions : prov.
Lemma Prov_ec_content ctx : ProvC ctx parse_tls_extension_elliptic_curves_content. Proof. prov_def parse_tls_extension_elliptic_curves_content. Qed.
Lemma Prov_ecpf_content ctx : ProvC ctx parse_tls_extension_ec_point_formats_content. Proof. prov_def parse_tls_extension_ec_point_formats_content. Qed.
Lemma Prov_sigalg_content ctx : ProvC ctx parse_tls_extension_signature_algorithms_content. Proof. prov_def parse_tls_extension_signature_algorithms_content. Qed.
Lemma Prov_hb_content ctx : ProvC ctx parse_tls_extension_heartbeat_content. Proof. prov_def parse_tls_extension_heartbeat_content. Qed.
Lemma Prov_protocol_name ctx : ProvC ctx parse_protocol_name. Proof. prov_def parse_protocol_name. Qed.
#[export] Hint Resolve Prov_protocol_name : prov.
Lemma Prov_alpn_content ctx : ProvC ctx parse_tls_extension_alpn_content. Proof. prov_def parse_tls_extension_alpn_content. Qed.
Lemma Prov_padding_content l ctx : ProvC ctx (parse_tls_extension_padding_content l). Proof. prov_def parse_tls_extension_padding_content. Qed.
Lemma Prov_sct_content ctx : ProvC ctx parse_tls_extension_signed_certificate_timestamp_content. Proof. prov_def parse_tls_extension_signed_certificate_timestamp_content. Qed.
Lemma Prov_rsl ctx : ProvC ctx parse_tls_extension_record_size_limit. Proof. prov_def parse_tls_extension_record_size_limit. Qed.
Lemma Prov_ticket_content l ctx : ProvC ctx (parse_tls_extension_session_ticket_content l). Proof. prov_def parse_tls_extension_session_ticket_content. Qed.
Lemma Prov_kso_content l ctx : ProvC ctx (parse_tls_extension_key_share_old_content l). Proof. prov_def parse_tls_extension_key_share_old_content. Qed.
Lemma Prov_ks_content l ctx : ProvC ctx (parse_tls_extension_key_share_content l). Proof. prov_def parse_tls_extension_key_share_content. Qed.
Lemma Prov_psk_content l ctx : ProvC ctx (parse_tls_extension_pre_shared_key_content l). Proof. prov_def parse_tls_extension_pre_shared_key_content. Qed.
Lemma Prov_ed_content l ctx : ProvC ctx (parse_tls_extension_early_data_content l). Proof. prov_def parse_tls_extension_early_data_content. Qed.
Lemma Prov_sv_content l ctx : ProvC ctx (parse_tls_extension_supported_versions_content l). Proof. prov_def parse_tls_extension_supported_versions_content. Qed.
Lemma Prov_cookie_content l ctx : ProvC ctx (parse_tls_extension_cookie_content l). Proof. prov_def parse_tls_extension_cookie_content. Qed.
Lemma Prov_pskm_content ctx : ProvC ctx parse_tls_extension_psk_key_exchange_modes_content. Proof. prov_def parse_tls_extension_psk_key_exchange_modes_content. Qed.
Lemma Prov_reneg_content ctx : ProvC ctx parse_tls_extension_renegotiation_info_content. Proof. prov_def parse_tls_extension_renegotiation_info_content. Qed.
Lemma Prov_esni ctx : ProvC ctx parse_tls_extension_encrypted_server_name. Proof. prov_def parse_tls_extension_encrypted_server_name. Qed.
Lemma Prov_oid_filter ctx : ProvC ctx parse_tls_oid_filter. Proof. prov_def parse_tls_oid_filter. Qed.
#[export] Hint Resolve Prov_oid_filter : prov.
Lemma Prov_oid_filters ctx : ProvC ctx parse_tls_extension_oid_filters. Proof. prov_def parse_tls_extension_oid_filters. Qed.
Lemma Prov_ext_unknown ctx : ProvC ctx parse_tls_extension_unknown. Proof. prov_def parse_tls_extension_unknown. Qed.
#[export] Hint Resolve Prov_sni_content Prov_mfl_content Prov_status_content Prov_ec_content Prov_ecpf_content
  Prov_sigalg_content Prov_hb_content Prov_alpn_content Prov_padding_content Prov_sct_content Prov_rsl
  Prov_ticket_content Prov_kso_content Prov_ks_content Prov_psk_content Prov_ed_content Prov_sv_content
  Prov_cookie_content Prov_pskm_content Prov_reneg_content Prov_esni Prov_oid_filters Prov_ext_unknown : prov.
Lemma Prov_ext_content c l ctx : ProvC ctx (ext_content c l).
Proof.
  destruct c; cbn [ext_content]; unfold parse_tls_extension_encrypt_then_mac_content,
    parse_tls_extension_extended_master_secret_content, parse_tls_extension_post_handshake_auth_content,
    parse_tls_extension_npn_content; solve_prov.
Qed.
#[export] Hint Resolve Prov_ext_content : prov.
Lemma Prov_dispatch_ext tbl ctx : ProvC ctx (dispatch_ext tbl). Proof. prov_def dispatch_ext. Qed.
#[export] Hint Resolve Prov_dispatch_ext : prov.
Lemma Prov_ext ctx : ProvC ctx parse_tls_extension. Proof. unfold parse_tls_extension. eauto with prov. Qed.
Lemma Prov_ch_ext ctx : ProvC ctx parse_tls_client_hello_extension. Proof. unfold parse_tls_client_hello_extension. eauto with prov. Qed.
Lemma Prov_sh_ext ctx : ProvC ctx parse_tls_server_hello_extension. Proof. unfold parse_tls_server_hello_extension. eauto with prov. Qed.
#[export] Hint Resolve Prov_ext Prov_ch_ext Prov_sh_ext : prov.
Lemma Prov_exts ctx : ProvC ctx parse_tls_extensions. Proof. unfold parse_tls_extensions. apply ProvC_many0, ProvC_cmpl, Prov_ext. Qed.
Lemma Prov_ch_exts ctx : ProvC ctx parse_tls_client_hello_extensions. Proof. unfold parse_tls_client_hello_extensions. apply ProvC_many0, ProvC_cmpl, Prov_ch_ext. Qed.
Lemma Prov_sh_exts ctx : ProvC ctx parse_tls_server_hello_extensions. Proof. unfold parse_tls_server_hello_extensions. apply ProvC_many0, ProvC_cmpl, Prov_sh_ext. Qed.
Lemma Prov_x_sni ctx : ProvC ctx parse_tls_extension_sni. Proof. prov_def parse_tls_extension_sni. Qed.
Lemma Prov_x_mfl ctx : ProvC ctx parse_tls_extension_max_fragment_length. Proof. prov_def parse_tls_extension_max_fragment_length. Qed.
Lemma Prov_x_status ctx : ProvC ctx parse_tls_extension_status_request. Proof. prov_def parse_tls_extension_status_request. Qed.
Lemma Prov_x_ec ctx : ProvC ctx parse_tls_extension_elliptic_curves. Proof. prov_def parse_tls_extension_elliptic_curves. Qed.
Lemma Prov_x_ecpf ctx : ProvC ctx parse_tls_extension_ec_point_formats. Proof. prov_def parse_tls_extension_ec_point_formats. Qed.
Lemma Prov_x_sigalg ctx : ProvC ctx parse_tls_extension_signature_algorithms. Proof. prov_def parse_tls_extension_signature_algorithms. Qed.
Lemma Prov_x_hb ctx : ProvC ctx parse_tls_extension_heartbeat. Proof. prov_def parse_tls_extension_heartbeat. Qed.
Lemma Prov_x_etm ctx : ProvC ctx parse_tls_extension_encrypt_then_mac.
Proof. unfold parse_tls_extension_encrypt_then_mac, parse_tls_extension_encrypt_then_mac_content. solve_prov. Qed.
Lemma Prov_x_ems ctx : ProvC ctx parse_tls_extension_extended_master_secret.
Proof. unfold parse_tls_extension_extended_master_secret, parse_tls_extension_extended_master_secret_content. solve_prov. Qed.
Lemma Prov_x_ticket ctx : ProvC ctx parse_tls_extension_session_ticket. Proof. prov_def parse_tls_extension_session_ticket. Qed.
Lemma Prov_x_ks ctx : ProvC ctx parse_tls_extension_key_share. Proof. prov_def parse_tls_extension_key_share. Qed.
Lemma Prov_x_psk ctx : ProvC ctx parse_tls_extension_pre_shared_key. Proof. prov_def parse_tls_extension_pre_shared_key. Qed.
Lemma Prov_x_ed ctx : ProvC ctx parse_tls_extension_early_data. Proof. prov_def parse_tls_extension_early_data. Qed.
Lemma Prov_x_sv ctx : ProvC ctx parse_tls_extension_supported_versions. Proof. prov_def parse_tls_extension_supported_versions. Qed.
Lemma Prov_x_cookie ctx : ProvC ctx parse_tls_extension_cookie. Proof. prov_def parse_tls_extension_cookie. Qed.
Lemma Prov_x_pskm ctx : ProvC ctx parse_tls_extension_psk_key_exchange_modes. Proof. prov_def parse_tls_extension_psk_key_exchange_modes. Qed.

(* ---- key exchange, signatures, CT ---- *)
Lemma Prov_dh ctx : ProvC ctx parse_dh_params. Proof. prov_def parse_dh_params. Qed.
Lemma Prov_ec_point ctx : ProvC ctx parse_ec_point. Proof. prov_def parse_ec_point. Qed.
Lemma Prov_ec_curve ctx : ProvC ctx parse_ec_curve. Proof. prov_def parse_ec_curve. Qed.
#[export] Hint Resolve Prov_dh Prov_ec_point Prov_ec_curve : prov.
Lemma Prov_explicit_prime ctx : ProvC ctx parse_explicit_prime. Proof. prov_def parse_explicit_prime. Qed.
#[export] Hint Resolve Prov_explicit_prime : prov.
Lemma Prov_ecpc t ctx : ProvC ctx (parse_ec_parameters_content t). Proof. prov_def parse_ec_parameters_content. Qed.
#[export] Hint Resolve Prov_ecpc : prov.
Lemma Prov_ec_parameters ctx : ProvC ctx parse_ec_parameters. Proof. prov_def parse_ec_parameters. Qed.
#[export] Hint Resolve Prov_ec_parameters : prov.
Lemma Prov_ecdh ctx : ProvC ctx parse_ecdh_params. Proof. prov_def parse_ecdh_params. Qed.
Lemma Prov_ds_old ctx : ProvC ctx parse_digitally_signed_old. Proof. prov_def parse_digitally_signed_old. Qed.
Lemma Prov_ds ctx : ProvC ctx parse_digitally_signed. Proof. prov_def parse_digitally_signed. Qed.
#[export] Hint Resolve Prov_ecdh Prov_ds_old Prov_ds : prov.
(* for every content parser that is itself safe *)
Lemma Prov_content_and_signature T `{HasSlices T} (f : P T) ext : (forall ctx, ProvC ctx f) -> forall ctx, ProvC ctx (parse_content_and_signature f ext).
Proof. intros Hf ctx. unfold parse_content_and_signature. solve_prov. Qed.
Lemma Prov_log_id ctx : ProvC ctx parse_log_id. Proof. prov_def parse_log_id. Qed.
#[export] Hint Resolve Prov_log_id : prov.
Lemma Prov_ct_ext ctx : ProvC ctx parse_ct_extensions. Proof. prov_def parse_ct_extensions. Qed.
#[export] Hint Resolve Prov_ct_ext : prov.
Lemma Prov_sct_c ctx : ProvC ctx parse_ct_signed_certificate_timestamp_content. Proof. prov_def parse_ct_signed_certificate_timestamp_content. Qed.
#[export] Hint Resolve Prov_sct_c : prov.
Lemma Prov_sct ctx : ProvC ctx parse_ct_signed_certificate_timestamp. Proof. prov_def parse_ct_signed_certificate_timestamp. Qed.
#[export] Hint Resolve Prov_sct : prov.
Lemma Prov_sct_list ctx : ProvC ctx parse_ct_signed_certificate_timestamp_list. Proof. prov_def parse_ct_signed_certificate_timestamp_list. Qed.

(* ---- src/dtls.rs ---- *)
Lemma Prov_dhdr ctx : ProvC ctx parse_dtls_record_header. Proof. prov_def parse_dtls_record_header. Qed.
Lemma Prov_dfrag ctx : ProvC ctx parse_dtls_fragment. Proof. prov_def parse_dtls_fragment. Qed.
Lemma Prov_dch ctx : ProvC ctx parse_dtls_client_hello. Proof. prov_def parse_dtls_client_hello. Qed.
Lemma Prov_dhvr ctx : ProvC ctx parse_dtls_hello_verify_request. Proof. prov_def parse_dtls_hello_verify_request. Qed.
#[export] Hint Resolve Prov_dhdr Prov_dfrag Prov_dch Prov_dhvr : prov.
Lemma Prov_dtls_hs_body b l ctx : ProvC ctx (dtls_hs_body b l). Proof. destruct b; cbn [dtls_hs_body]; solve_prov. Qed.
#[export] Hint Resolve Prov_dtls_hs_body : prov.
Lemma Prov_dmsg_hs ctx : ProvC ctx parse_dtls_message_handshake. Proof. prov_def parse_dtls_message_handshake. Qed.
Lemma Prov_dccs ctx : ProvC ctx parse_dtls_message_changecipherspec. Proof. prov_def parse_dtls_message_changecipherspec. Qed.
Lemma Prov_dalert ctx : ProvC ctx parse_dtls_message_alert. Proof. prov_def parse_dtls_message_alert. Qed.
#[export] Hint Resolve Prov_dmsg_hs Prov_dccs Prov_dalert : prov.
Lemma Prov_drec_body b ctx : ProvC ctx (dtls_rec_body b). Proof. destruct b; cbn [dtls_rec_body]; solve_prov. Qed.
#[export] Hint Resolve Prov_drec_body : prov.
Lemma Prov_dwith_header h ctx : ProvC ctx (parse_dtls_record_with_header h). Proof. prov_def parse_dtls_record_with_header. Qed.
#[export] Hint Resolve Prov_dwith_header : prov.
Lemma Prov_dplain ctx : ProvC ctx parse_dtls_plaintext_record. Proof. prov_def parse_dtls_plaintext_record. Qed.
#[export] Hint Resolve Prov_dplain : prov.
Lemma Prov_dplains ctx : ProvC ctx parse_dtls_plaintext_records. Proof. prov_def parse_dtls_plaintext_records. Qed.

(* ---- top level: with no context, every slice lies in the consumed part of the input ---- *)
Theorem prov_top A `{HasSlices A} (p : P A) : (forall ctx, ProvC ctx p) -> Prov p.
Proof. intros Hp. apply ProvC_nil, Hp. Qed.

(* ---- src/tls_records_parser.rs: where the slices of a defragmenter result live ---- *)
From TlsModel Require Import Defrag.
Lemma map_complete_ok {A} (r : res A) rem v : map_complete r = Ok rem v -> r = Ok rem v.
Proof. unfold map_complete. destruct (is_complete_err r); [discriminate | auto]. Qed.
Theorem defrag_provenance dbg s hdr data s' reg rem v :
  parse_record dbg s hdr data = (s', (reg, Ok rem v)) ->
  forall sl, In sl (slices v) ->
    match reg with
    | Caller => before (mkS 0 data) rem sl          (* a slice of the caller's record *)
    | Buffer => before (mkS 0 (d_buf s')) rem sl    (* a slice of the defragmentation buffer *)
    end.
Proof.
  unfold parse_record, nocopy. intros H sl Hs.
  pose proof (fun h => prov_top _ _ (Prov_with_header h)) as Hp.
  destruct (d_cur s) as [cur|] eqn:Ec.
  - destruct (dbg && (lenN (d_buf s) =? 0)); [discriminate H|].
    destruct (negb (h_type hdr =? cur)); [discriminate H|].
    destruct (MAX_RECORD_DATA <=? lenN (d_buf s) + lenN data); [discriminate H|].
    cbv zeta in H.
    destruct (run _ (mkS 0 (d_buf s ++ data))) as [r1 v1| | | | |] eqn:E.
    + injection H as <- <- <- <-. cbn [d_buf]. eapply Hp; eauto.
    + injection H as _ _ H. apply map_complete_ok in H. discriminate H.
    + injection H as _ _ H. apply map_complete_ok in H. discriminate H.
    + injection H as _ _ H. apply map_complete_ok in H. discriminate H.
    + injection H as _ _ H. apply map_complete_ok in H. discriminate H.
    + injection H as _ _ H. apply map_complete_ok in H. discriminate H.
  - destruct ((h_type hdr =? 21) || (h_type hdr =? 20)).
    + unfold defrag_in_progress in H. rewrite Ec in H. injection H as _ <- H. apply map_complete_ok in H. eapply Hp; eauto.
    + cbv zeta in H. destruct (run _ (mkS 0 data)) as [r1 v1| | | | |] eqn:E.
      * injection H as _ <- <- <-. eapply Hp; eauto.
      * destruct (is_complete_err _); discriminate H.
      * destruct (is_complete_err _); discriminate H.
      * discriminate H.
      * destruct (is_complete_err _); discriminate H.
      * destruct (is_complete_err _); discriminate H.
Qed.
