(* C06: the self-delimiting parsers are append-stable (the decided outcome, the value and every
   slice in it are unchanged; only the remainder grows) and their remainder is a suffix. *)
From TlsModel Require Import Bytes Nom Values DispatchTypes Dispatch Handshake Record Extensions Kx Dtls BytesLemmas NomGeneric.
From Coq Require Import Lia ZArith ZifyBool ZifyN.

Lemma Stable_panic A : Stable (@PanicP A).
Proof. intros i x; cbn. reflexivity. Qed.
Lemma Stable_pmap A B (p : P A) (f : A -> B) : Stable p -> Stable (pmap p f).
Proof. intros Hp. unfold pmap. apply Stable_bind; [exact Hp | intros; apply Stable_ret]. Qed.
Lemma Stable_length_data f : Stable f -> Stable (length_data f).
Proof. intros Hf. unfold length_data. apply Stable_bind; [exact Hf | intros; apply Stable_take]. Qed.
Lemma Stable_map_parser A f (g : P A) : Stable f -> Stable (map_parser f g).
Proof. intros Hf. unfold map_parser. apply Stable_bind; [exact Hf | intros; apply Stable_on]. Qed.
#[export] Hint Resolve Stable_panic Stable_pmap Stable_length_data Stable_map_parser : stable.

Ltac stable :=
  repeat first
    [ apply Stable_bind; [|intros ?]
    | apply Stable_ret | apply Stable_errk | apply Stable_take | apply Stable_beu | apply Stable_tag
    | apply Stable_on | apply Stable_panic | apply Stable_pmap | apply Stable_length_data | apply Stable_map_parser
    | apply Stable_opt | apply Stable_alt | apply Stable_vrfy | apply Stable_peek | apply Stable_count_u8
    | match goal with
      | |- Stable (if ?c then _ else _) => destruct c
      | |- Stable (match ?x with _ => _ end) => destruct x
      end ].

(* records *)
Lemma Stable_record_header : Stable parse_tls_record_header.
Proof. unfold parse_tls_record_header, be_u8, be_u16. stable. Qed.
Theorem Stable_plaintext : Stable parse_tls_plaintext.
Proof. unfold parse_tls_plaintext. apply Stable_bind; [apply Stable_record_header|]. intros hdr. stable. Qed.
Theorem Stable_encrypted : Stable parse_tls_encrypted.
Proof. unfold parse_tls_encrypted. apply Stable_bind; [apply Stable_record_header|]. intros hdr. stable. Qed.
Theorem Stable_raw_record : Stable parse_tls_raw_record.
Proof. unfold parse_tls_raw_record. apply Stable_bind; [apply Stable_record_header|]. intros hdr. stable. Qed.

(* handshake message *)
Theorem Stable_handshake : Stable parse_tls_message_handshake.
Proof. unfold parse_tls_message_handshake, be_u8, be_u24. stable. Qed.

(* single extension, through any dispatch table *)
Theorem Stable_dispatch_ext tbl : Stable (dispatch_ext tbl).
Proof. unfold dispatch_ext, be_u16. stable. Qed.

(* key exchange and signature structures *)
Theorem Stable_dh : Stable parse_dh_params.
Proof. unfold parse_dh_params, be_u16. stable. Qed.
Theorem Stable_ec_point : Stable parse_ec_point.
Proof. unfold parse_ec_point, be_u8. stable. Qed.
Theorem Stable_explicit_prime : Stable parse_explicit_prime.
Proof. unfold parse_explicit_prime, parse_ec_curve, parse_ec_point, be_u8. stable. Qed.
Theorem Stable_ec_parameters : Stable parse_ec_parameters.
Proof.
  unfold parse_ec_parameters, parse_ec_parameters_content, be_u8, be_u16.
  apply Stable_bind; [apply Stable_beu|]. intros ct. apply Stable_bind; [|intros; apply Stable_ret].
  destruct (ct =? 1); [apply Stable_pmap, Stable_explicit_prime|].
  destruct (ct =? 3); [apply Stable_pmap, Stable_beu | apply Stable_errk].
Qed.
Theorem Stable_ecdh : Stable parse_ecdh_params.
Proof.
  unfold parse_ecdh_params. apply Stable_bind; [apply Stable_ec_parameters|]. intros p.
  apply Stable_bind; [apply Stable_ec_point | intros; apply Stable_ret].
Qed.
Theorem Stable_signed : Stable parse_digitally_signed.
Proof. unfold parse_digitally_signed, be_u8, be_u16. stable. Qed.
Theorem Stable_signed_old : Stable parse_digitally_signed_old.
Proof. unfold parse_digitally_signed_old, be_u16. stable. Qed.
Theorem Stable_content_and_signature T (f : P T) ext : Stable f -> Stable (parse_content_and_signature f ext).
Proof.
  intros Hf. unfold parse_content_and_signature. destruct ext;
    (apply Stable_bind; [exact Hf|]; intros c; apply Stable_bind; [|intros; apply Stable_ret]).
  - apply Stable_signed.
  - apply Stable_signed_old.
Qed.

(* SCT and SCT list *)
Theorem Stable_sct : Stable parse_ct_signed_certificate_timestamp.
Proof. unfold parse_ct_signed_certificate_timestamp, be_u16. stable. Qed.
Theorem Stable_sct_list : Stable parse_ct_signed_certificate_timestamp_list.
Proof. unfold parse_ct_signed_certificate_timestamp_list, be_u16. stable. Qed.

(* DTLS *)
Theorem Stable_dtls_record : Stable parse_dtls_plaintext_record.
Proof. unfold parse_dtls_plaintext_record, parse_dtls_record_header, be_u8, be_u16, be_u24. stable. Qed.
Theorem Stable_dtls_handshake : Stable parse_dtls_message_handshake.
Proof. unfold parse_dtls_message_handshake, be_u8, be_u16, be_u24. stable. Qed.
Theorem Stable_dtls_record_header : Stable parse_dtls_record_header.
Proof. unfold parse_dtls_record_header, be_u8, be_u16, be_u64. stable. Qed.

(* the 16 single-purpose extension parsers: tag, then their own framing *)
Lemma Stable_tagged t A (p : P A) : Stable p -> Stable (tagged t p).
Proof. intros Hp. unfold tagged. apply Stable_bind; [apply Stable_tag | intros; exact Hp]. Qed.
Lemma Stable_with_len f : Stable (with_len f).
Proof. unfold with_len, be_u16. stable. Qed.

(* consequences in plain terms *)
Theorem stable_ok A (p : P A) : Stable p -> forall i x r v, run p i = Ok r v -> run p (sapp i x) = Ok (sapp r x) v.
Proof. intros Hp i x r v E. specialize (Hp i x). rewrite E in Hp. exact Hp. Qed.
Theorem stable_err A (p : P A) : Stable p -> forall i x s k, run p i = Err s k ->
  exists s', run p (sapp i x) = Err s' k /\ (s' = s \/ s' = sapp s x).
Proof. intros Hp i x s k E. specialize (Hp i x). rewrite E in Hp. exact Hp. Qed.
(* the value depends only on the bytes that decided it: two continuations of the same accepted input *)
Theorem stable_same_value A (p : P A) : Stable p -> forall i x y r v, run p i = Ok r v ->
  run p (sapp i x) = Ok (sapp r x) v /\ run p (sapp i y) = Ok (sapp r y) v.
Proof. intros Hp i x y r v E. split; apply stable_ok; assumption. Qed.

Definition tagged_parsers : list (P TlsExtension) :=
  [parse_tls_extension_sni; parse_tls_extension_max_fragment_length; parse_tls_extension_status_request;
   parse_tls_extension_elliptic_curves; parse_tls_extension_ec_point_formats; parse_tls_extension_signature_algorithms;
   parse_tls_extension_heartbeat; parse_tls_extension_encrypt_then_mac; parse_tls_extension_extended_master_secret;
   parse_tls_extension_session_ticket; parse_tls_extension_key_share; parse_tls_extension_pre_shared_key;
   parse_tls_extension_early_data; parse_tls_extension_supported_versions; parse_tls_extension_cookie;
   parse_tls_extension_psk_key_exchange_modes].
Theorem Stable_tagged_parsers : Forall Stable tagged_parsers.
Proof.
  unfold tagged_parsers.
  repeat (constructor; [first [ apply Stable_tagged, Stable_with_len
                              | apply Stable_tagged; unfold be_u16; stable ] |]).
  constructor.
Qed.
