(* Rewrite lemmas and tactics for round-trip proofs: stepping a parser over an input that
   starts with an encoded field. *)
From TlsModel Require Import Bytes Nom Values Wire BytesLemmas NomGeneric RunLemmas.
From Coq Require Import Lia ZArith ZifyBool ZifyN.
Ltac Zify.zify_post_hook ::= Z.div_mod_to_equations.

Lemma run_u8_enc v o rest : v < 256 -> run be_u8 (mkS o (u8 v ++ rest)) = Ok (mkS (o + 1) rest) v.
Proof. intros H. unfold be_u8, u8. rewrite run_beu_enc by (cbn; lia). reflexivity. Qed.
Lemma run_u16_enc v o rest : v < 65536 -> run be_u16 (mkS o (u16 v ++ rest)) = Ok (mkS (o + 2) rest) v.
Proof. intros H. unfold be_u16, u16. rewrite run_beu_enc by (cbn; lia). reflexivity. Qed.
Lemma run_u24_enc v o rest : v < 16777216 -> run be_u24 (mkS o (u24 v ++ rest)) = Ok (mkS (o + 3) rest) v.
Proof. intros H. unfold be_u24, u24. rewrite run_beu_enc by (cbn; lia). reflexivity. Qed.
Lemma run_u32_enc v o rest : v < 4294967296 -> run be_u32 (mkS o (u32 v ++ rest)) = Ok (mkS (o + 4) rest) v.
Proof. intros H. unfold be_u32, u32. rewrite run_beu_enc by (cbn; lia). reflexivity. Qed.
Lemma run_u64_enc v o rest : v < 2 ^ 64 -> run be_u64 (mkS o (u64 v ++ rest)) = Ok (mkS (o + 8) rest) v.
Proof. intros H. unfold be_u64, u64. rewrite run_beu_enc by (cbn; lia). reflexivity. Qed.

Lemma run_vec8 b o rest : lenN b < 256 ->
  run (length_data be_u8) (mkS o (vec8 b ++ rest)) = Ok (mkS (o + 1 + lenN b) rest) (mkS (o + 1) b).
Proof.
  intros H. unfold length_data, vec8. rewrite <- app_assoc, run_bind, run_u8_enc by exact H.
  rewrite run_take_app by reflexivity. reflexivity.
Qed.
Lemma run_vec16 b o rest : lenN b < 65536 ->
  run (length_data be_u16) (mkS o (vec16 b ++ rest)) = Ok (mkS (o + 2 + lenN b) rest) (mkS (o + 2) b).
Proof.
  intros H. unfold length_data, vec16. rewrite <- app_assoc, run_bind, run_u16_enc by exact H.
  rewrite run_take_app by reflexivity. reflexivity.
Qed.
Lemma run_vec24 b o rest : lenN b < 16777216 ->
  run (length_data be_u24) (mkS o (vec24 b ++ rest)) = Ok (mkS (o + 3 + lenN b) rest) (mkS (o + 3) b).
Proof.
  intros H. unfold length_data, vec24. rewrite <- app_assoc, run_bind, run_u24_enc by exact H.
  rewrite run_take_app by reflexivity. reflexivity.
Qed.
Lemma run_take_n n b o rest : lenN b = n -> run (Take n) (mkS o (b ++ rest)) = Ok (mkS (o + n) rest) (mkS o b).
Proof. intros <-. apply run_take_app. reflexivity. Qed.

Lemma lenN_vec8 b : lenN (vec8 b) = 1 + lenN b.
Proof. unfold vec8, u8. now rewrite lenN_app, lenN_be_enc. Qed.
Lemma lenN_vec16 b : lenN (vec16 b) = 2 + lenN b.
Proof. unfold vec16, u16. now rewrite lenN_app, lenN_be_enc. Qed.
Lemma lenN_vec24 b : lenN (vec24 b) = 3 + lenN b.
Proof. unfold vec24, u24. now rewrite lenN_app, lenN_be_enc. Qed.
Lemma lenN_u8 v : lenN (u8 v) = 1. Proof. unfold u8. now rewrite lenN_be_enc. Qed.
Lemma lenN_u16 v : lenN (u16 v) = 2. Proof. unfold u16. now rewrite lenN_be_enc. Qed.
Lemma lenN_u24 v : lenN (u24 v) = 3. Proof. unfold u24. now rewrite lenN_be_enc. Qed.
Lemma lenN_u32 v : lenN (u32 v) = 4. Proof. unfold u32. now rewrite lenN_be_enc. Qed.
Lemma lenN_u64 v : lenN (u64 v) = 8. Proof. unfold u64. now rewrite lenN_be_enc. Qed.

Ltac len_norm := repeat rewrite ?lenN_app, ?lenN_vec8, ?lenN_vec16, ?lenN_vec24, ?lenN_u8, ?lenN_u16, ?lenN_u24, ?lenN_u32, ?lenN_u64.
(* remainder offsets: o + (sum of field lengths) *)
Ltac solve_off := len_norm; try (f_equal; lia); try lia.
(* one parsing step over an encoded prefix *)
Ltac rt_step :=
  rewrite run_bind;
  first [ rewrite run_u8_enc by (unfold slen in *; lia)
        | rewrite run_u16_enc by (unfold slen in *; lia)
        | rewrite run_u24_enc by (unfold slen in *; lia)
        | rewrite run_u32_enc by (unfold slen in *; lia)
        | rewrite run_u64_enc by (unfold slen in *; lia)
        | rewrite run_vec8 by (unfold slen in *; lia)
        | rewrite run_vec16 by (unfold slen in *; lia)
        | rewrite run_vec24 by (unfold slen in *; lia) ].
