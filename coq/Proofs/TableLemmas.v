(* association tables compared as maps (insensitive to the order of non-overlapping arms) *)
From TlsModel Require Import Bytes DispatchTypes.
From Coq Require Import Lia Bool.

Section T.
  Context {A : Type} (eqb : A -> A -> bool).
  Hypothesis eqb_eq : forall a b, eqb a b = true -> a = b.

  Definition opt_eqb (a b : option A) : bool :=
    match a, b with Some x, Some y => eqb x y | None, None => true | _, _ => false end.
  Lemma opt_eqb_eq a b : opt_eqb a b = true -> a = b.
  Proof. destruct a, b; cbn; try discriminate; try reflexivity. intros H; apply eqb_eq in H; now subst. Qed.

  Definition same_assoc (x y : list (N * A)) : bool :=
    forallb (fun k => opt_eqb (assoc_N k x) (assoc_N k y)) (map fst x ++ map fst y).

  Lemma assoc_none k (l : list (N * A)) : ~ In k (map fst l) -> assoc_N k l = None.
  Proof.
    induction l as [|[k' v] t IH]; cbn [assoc_N map fst In]; [reflexivity|]. intros H.
    destruct (N.eqb_spec k k') as [->|]; [exfalso; apply H; left; reflexivity|]. apply IH. intros Hin; apply H; right; exact Hin.
  Qed.

  Lemma same_assoc_eq x y : same_assoc x y = true -> forall k, assoc_N k x = assoc_N k y.
  Proof.
    unfold same_assoc. rewrite forallb_forall. intros H k.
    destruct (in_dec N.eq_dec k (map fst x ++ map fst y)) as [Hin|Hn].
    - apply opt_eqb_eq. apply H. exact Hin.
    - rewrite in_app_iff in Hn. rewrite !assoc_none; [reflexivity| |]; intros Hi; apply Hn; auto.
  Qed.
End T.
