(* C13 / C14: key-exchange parameters, signatures and SCT lists decode exactly and self-delimit. *)
From TlsModel Require Import Bytes Nom Values Handshake Kx Wire KxEnc Strip BytesLemmas NomGeneric RunLemmas ManyLemmas RtTactics.
From Coq Require Import Lia ZArith ZifyBool ZifyN.
Ltac Zify.zify_post_hook ::= Z.div_mod_to_equations.

Theorem dh_roundtrip d rest o : wf_dh d ->
  exists v', run parse_dh_params (mkS o (enc_dh d ++ rest)) = Ok (mkS (o + lenN (enc_dh d)) rest) v' /\ strip_dh v' = strip_dh d.
Proof.
  intros [Hp [Hg Hy]]. unfold parse_dh_params, enc_dh, fits16 in *. repeat rewrite <- app_assoc.
  do 3 rt_step. rewrite run_ret. eexists. split; [apply f_equal2; [f_equal; solve_off | reflexivity] | reflexivity]. 
Qed.

Theorem point_roundtrip s rest o : fits8 s ->
  run parse_ec_point (mkS o (vec8 (bytes s) ++ rest)) = Ok (mkS (o + 1 + slen s) rest) (mkS (o + 1) (bytes s)).
Proof. intros H. unfold parse_ec_point, fits8 in *. rewrite run_vec8 by (unfold slen in *; lia). reflexivity. Qed.

Lemma explicit_prime_roundtrip c rest o : wf_ep c ->
  exists v', run parse_explicit_prime (mkS o (enc_explicit_prime c ++ rest)) =
               Ok (mkS (o + lenN (enc_explicit_prime c)) rest) v' /\ strip_ep v' = strip_ep c.
Proof.
  intros [H1 [H2 [H3 [H4 [H5 H6]]]]]. unfold parse_explicit_prime, parse_ec_curve, parse_ec_point, enc_explicit_prime, fits8 in *.
  repeat rewrite <- app_assoc.
  rt_step. rewrite run_bind. rt_step. rt_step. rewrite run_ret. do 3 rt_step. rewrite run_ret.
  eexists. split; [apply f_equal2; [f_equal; solve_off | reflexivity] | reflexivity].
Qed.

Lemma ecpc_1 : parse_ec_parameters_content 1 = pmap parse_explicit_prime EcExplicitPrime.
Proof. reflexivity. Qed.
Lemma ecpc_3 : parse_ec_parameters_content 3 = pmap be_u16 EcNamedGroup.
Proof. reflexivity. Qed.

Theorem ecparams_roundtrip p rest o : wf_ecparams p ->
  exists v', run parse_ec_parameters (mkS o (enc_ecparams p ++ rest)) =
               Ok (mkS (o + lenN (enc_ecparams p)) rest) v' /\ strip_ecp v' = strip_ecp p.
Proof.
  unfold wf_ecparams, parse_ec_parameters, enc_ecparams, strip_ecp. destruct p as [ct [c|g]]; cbn [ec_content ec_curve_type].
  - intros [-> Hc]. rewrite <- app_assoc. rt_step. rewrite ecpc_1.
    unfold pmap. rewrite !run_bind.
    destruct (explicit_prime_roundtrip c rest (o + 1) Hc) as [v' [E Hs]]. rewrite E, !run_ret.
    eexists. split; [apply f_equal2; [f_equal; solve_off | reflexivity] | cbn [ec_content ec_curve_type]; rewrite Hs; reflexivity].
  - intros [-> Hg]. rewrite <- app_assoc. rt_step. rewrite ecpc_3.
    unfold pmap. rewrite !run_bind, run_u16_enc by lia. rewrite !run_ret.
    eexists. split; [apply f_equal2; [f_equal; solve_off | reflexivity] | reflexivity].
Qed.

Theorem ecdh_roundtrip p rest o : wf_ecdh p ->
  exists v', run parse_ecdh_params (mkS o (enc_ecdh p ++ rest)) =
               Ok (mkS (o + lenN (enc_ecdh p)) rest) v' /\ strip_ecdh v' = strip_ecdh p.
Proof.
  intros [Hp Hq]. unfold parse_ecdh_params, enc_ecdh, fits8 in *. rewrite <- app_assoc, run_bind.
  destruct (ecparams_roundtrip (ecdh_params p) (vec8 (bytes (ecdh_public p)) ++ rest) o Hp) as [v' [E Hs]].
  rewrite E. unfold parse_ec_point. rt_step. rewrite run_ret.
  eexists. split; [apply f_equal2; [f_equal; solve_off | reflexivity] | unfold strip_ecdh; cbn [ecdh_params ecdh_public]; rewrite Hs; reflexivity].
Qed.

(* EC curve types other than explicit_prime(1) and named_curve(3) are rejected *)
Theorem curve_type_rejected t rest o : t < 256 -> t <> 1 -> t <> 3 ->
  run parse_ec_parameters (mkS o (u8 t ++ rest)) = Err (mkS (o + 1) rest) KSwitch.
Proof.
  intros Ht H1 H3. unfold parse_ec_parameters. rt_step. unfold parse_ec_parameters_content.
  destruct (N.eqb_spec t 1); [congruence|]. destruct (N.eqb_spec t 3); [congruence|]. reflexivity.
Qed.

Theorem signed_roundtrip d rest o : wf_signed d ->
  exists v', run (if match ds_alg d with Some _ => true | None => false end
                  then parse_digitally_signed else parse_digitally_signed_old) (mkS o (enc_signed d ++ rest)) =
               Ok (mkS (o + lenN (enc_signed d)) rest) v' /\ strip_ds v' = strip_ds d.
Proof.
  destruct d as [[[h s]|] data]; unfold wf_signed, enc_signed, fits16; cbn [ds_alg ds_data]; intros [Hd Ha].
  - destruct Ha as [Hh Hs]. unfold parse_digitally_signed. repeat rewrite <- app_assoc.
    do 3 rt_step. rewrite run_ret. eexists. split; [apply f_equal2; [f_equal; solve_off | reflexivity] | reflexivity].
  - unfold parse_digitally_signed_old, pmap. rt_step. rewrite run_ret. eexists. split; [apply f_equal2; [f_equal; solve_off | reflexivity] | reflexivity].
Qed.

(* parse_content_and_signature: content parser's value, then the signature in the form selected by the flag,
   for EVERY content parser *)
Theorem content_and_signature_char T (f : P T) ext i :
  run (parse_content_and_signature f ext) i =
    match run f i with
    | Ok r c =>
        match run (if ext then parse_digitally_signed else parse_digitally_signed_old) r with
        | Ok r' s => Ok r' (c, s)
        | Err a k => Err a k | Fail a k => Fail a k
        | Incomplete n => Incomplete n | Panic => Panic | OutOfFuel => OutOfFuel
        end
    | Err a k => Err a k | Fail a k => Fail a k
    | Incomplete n => Incomplete n | Panic => Panic | OutOfFuel => OutOfFuel
    end.
Proof.
  unfold parse_content_and_signature. destruct ext; rewrite run_bind; destruct (run f i); try reflexivity;
    rewrite run_bind; destruct (run _ rem); reflexivity.
Qed.
