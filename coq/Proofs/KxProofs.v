(* C13 / C14: key-exchange parameters, signatures and SCT lists decode exactly and self-delimit. *)
From TlsModel Require Import Bytes Nom Values Handshake Kx Wire KxEnc Strip BytesLemmas NomGeneric RunLemmas ManyLemmas RtTactics.
From Coq Require Import Lia ZArith ZifyBool ZifyN.
Ltac Zify.zify_post_hook ::= Z.div_mod_to_equations.

Theorem dh_roundtrip d rest o : wf_dh d ->
  exists v', run parse_dh_params (mkS o (enc_dh d ++ rest)) = Ok (mkS (o + lenN (enc_dh d)) rest) v' /\ strip_dh v' = strip_dh d.
Proof.
  intros [Hp [Hg Hy]]. unfold parse_dh_params, enc_dh, fits16 in *. repeat rewrite <- app_assoc.
  do 3 rt_step. rewrite run_ret. eexists. split; [apply f_equal2; [f_equal; solve_off | reflexivity] | reflexivity]. 
Qed.

Theorem point_roundtrip s rest o : fits8 s ->
  run parse_ec_point (mkS o (vec8 (bytes s) ++ rest)) = Ok (mkS (o + 1 + slen s) rest) (mkS (o + 1) (bytes s)).
Proof. intros H. unfold parse_ec_point, fits8 in *. rewrite run_vec8 by (unfold slen in *; lia). reflexivity. Qed.

Lemma explicit_prime_roundtrip c rest o : wf_ep c ->
  exists v', run parse_explicit_prime (mkS o (enc_explicit_prime c ++ rest)) =
               Ok (mkS (o + lenN (enc_explicit_prime c)) rest) v' /\ strip_ep v' = strip_ep c.
Proof.
  intros [H1 [H2 [H3 [H4 [H5 H6]]]]]. unfold parse_explicit_prime, parse_ec_curve, parse_ec_point, enc_explicit_prime, fits8 in *.
  repeat rewrite <- app_assoc.
  rt_step. rewrite run_bind. rt_step. rt_step. rewrite run_ret. do 3 rt_step. rewrite run_ret.
  eexists. split; [apply f_equal2; [f_equal; solve_off | reflexivity] | reflexivity].
Qed.

Lemma ecpc_1 : parse_ec_parameters_content 1 = pmap parse_explicit_prime EcExplicitPrime.
Proof. reflexivity. Qed.
Lemma ecpc_3 : parse_ec_parameters_content 3 = pmap be_u16 EcNamedGroup.
Proof. reflexivity. Qed.

Theorem ecparams_roundtrip p rest o : wf_ecparams p ->
  exists v', run parse_ec_parameters (mkS o (enc_ecparams p ++ rest)) =
               Ok (mkS (o + lenN (enc_ecparams p)) rest) v' /\ strip_ecp v' = strip_ecp p.
Proof.
  unfold wf_ecparams, parse_ec_parameters, enc_ecparams, strip_ecp. destruct p as [ct [c|g]]; cbn [ec_content ec_curve_type].
  - intros [-> Hc]. rewrite <- app_assoc. rt_step. rewrite ecpc_1.
    unfold pmap. rewrite !run_bind.
    destruct (explicit_prime_roundtrip c rest (o + 1) Hc) as [v' [E Hs]]. rewrite E, !run_ret.
    eexists. split; [apply f_equal2; [f_equal; solve_off | reflexivity] | cbn [ec_content ec_curve_type]; rewrite Hs; reflexivity].
  - intros [-> Hg]. rewrite <- app_assoc. rt_step. rewrite ecpc_3.
    unfold pmap. rewrite !run_bind, run_u16_enc by lia. rewrite !run_ret.
    eexists. split; [apply f_equal2; [f_equal; solve_off | reflexivity] | reflexivity].
Qed.

Theorem ecdh_roundtrip p rest o : wf_ecdh p ->
  exists v', run parse_ecdh_params (mkS o (enc_ecdh p ++ rest)) =
               Ok (mkS (o + lenN (enc_ecdh p)) rest) v' /\ strip_ecdh v' = strip_ecdh p.
Proof.
  intros [Hp Hq]. unfold parse_ecdh_params, enc_ecdh, fits8 in *. rewrite <- app_assoc, run_bind.
  destruct (ecparams_roundtrip (ecdh_params p) (vec8 (bytes (ecdh_public p)) ++ rest) o Hp) as [v' [E Hs]].
  rewrite E. unfold parse_ec_point. rt_step. rewrite run_ret.
  eexists. split; [apply f_equal2; [f_equal; solve_off | reflexivity] | unfold strip_ecdh; cbn [ecdh_params ecdh_public]; rewrite Hs; reflexivity].
Qed.

(* EC curve types other than explicit_prime(1) and named_curve(3) are rejected *)
Theorem curve_type_rejected t rest o : t < 256 -> t <> 1 -> t <> 3 ->
  run parse_ec_parameters (mkS o (u8 t ++ rest)) = Err (mkS (o + 1) rest) KSwitch.
Proof.
  intros Ht H1 H3. unfold parse_ec_parameters. rt_step. unfold parse_ec_parameters_content.
  destruct (N.eqb_spec t 1); [congruence|]. destruct (N.eqb_spec t 3); [congruence|]. reflexivity.
Qed.

Theorem signed_roundtrip d rest o : wf_signed d ->
  exists v', run (if match ds_alg d with Some _ => true | None => false end
                  then parse_digitally_signed else parse_digitally_signed_old) (mkS o (enc_signed d ++ rest)) =
               Ok (mkS (o + lenN (enc_signed d)) rest) v' /\ strip_ds v' = strip_ds d.
Proof.
  destruct d as [[[h s]|] data]; unfold wf_signed, enc_signed, fits16; cbn [ds_alg ds_data]; intros [Hd Ha].
  - destruct Ha as [Hh Hs]. unfold parse_digitally_signed. repeat rewrite <- app_assoc.
    do 3 rt_step. rewrite run_ret. eexists. split; [apply f_equal2; [f_equal; solve_off | reflexivity] | reflexivity].
  - unfold parse_digitally_signed_old, pmap. rt_step. rewrite run_ret. eexists. split; [apply f_equal2; [f_equal; solve_off | reflexivity] | reflexivity].
Qed.

(* parse_content_and_signature: content parser's value, then the signature in the form selected by the flag,
   for EVERY content parser *)
Theorem content_and_signature_char T (f : P T) ext i :
  run (parse_content_and_signature f ext) i =
    match run f i with
    | Ok r c =>
        match run (if ext then parse_digitally_signed else parse_digitally_signed_old) r with
        | Ok r' s => Ok r' (c, s)
        | Err a k => Err a k | Fail a k => Fail a k
        | Incomplete n => Incomplete n | Panic => Panic | OutOfFuel => OutOfFuel
        end
    | Err a k => Err a k | Fail a k => Fail a k
    | Incomplete n => Incomplete n | Panic => Panic | OutOfFuel => OutOfFuel
    end.
Proof.
  unfold parse_content_and_signature. destruct ext; rewrite run_bind; destruct (run f i); try reflexivity;
    rewrite run_bind; destruct (run _ rem); reflexivity.
Qed.

(* ---------- RFC 6962 Signed Certificate Timestamps ---------- *)
Lemma log_id_ok s rest o : slen s = 32 ->
  run parse_log_id (mkS o (bytes s ++ rest)) = Ok (mkS (o + 32) rest) (mkS o (bytes s)).
Proof.
  intros H. unfold parse_log_id. rewrite run_bind, run_take_n by (unfold slen in H; exact H).
  unfold slen; cbn [bytes]. unfold slen in H. rewrite H. reflexivity.
Qed.

Lemma ct_extensions_is : parse_ct_extensions = length_data be_u16.
Proof. reflexivity. Qed.

Lemma sct_body_roundtrip s rest o : wf_sct s ->
  exists v', run parse_ct_signed_certificate_timestamp_content (mkS o (enc_sct_body s ++ rest)) =
               Ok (mkS (o + lenN (enc_sct_body s)) rest) v' /\ strip_sct v' = strip_sct s.
Proof.
  intros [Hv [Hid [Hts [Hext [Hsig [Halg Hlen]]]]]].
  unfold parse_ct_signed_certificate_timestamp_content, enc_sct_body, fits16 in *. repeat rewrite <- app_assoc.
  rt_step. rewrite run_bind, log_id_ok by exact Hid. rt_step.
  rewrite ct_extensions_is. rt_step.
  destruct (signed_roundtrip (sct_sig s) rest (o + 1 + 32 + 8 + 2 + lenN (bytes (sct_ext s))) Hsig) as [d' [E Hd]].
  destruct (ds_alg (sct_sig s)) as [[h sg]|] eqn:Ea; [|congruence].
  rewrite run_bind. rewrite E. rewrite run_ret.
  eexists. split; [apply f_equal2; [f_equal; unfold slen in *; solve_off | reflexivity]|].
  unfold strip_sct; cbn [sct_version sct_id sct_timestamp sct_ext sct_sig]. rewrite Hd. reflexivity.
Qed.

Theorem sct_roundtrip s rest o : wf_sct s ->
  exists v', run parse_ct_signed_certificate_timestamp (mkS o (enc_sct s ++ rest)) =
               Ok (mkS (o + lenN (enc_sct s)) rest) v' /\ strip_sct v' = strip_sct s.
Proof.
  intros Hw. pose proof Hw as [_ [_ [_ [_ [_ [_ Hlen]]]]]].
  unfold parse_ct_signed_certificate_timestamp, map_parser, enc_sct.
  rewrite run_bind, run_vec16 by exact Hlen.
  destruct (sct_body_roundtrip s [] (o + 2) Hw) as [v' [E Hs]]. rewrite app_nil_r in E.
  rewrite run_on, E. eexists. split; [apply f_equal2; [f_equal; solve_off | reflexivity] | exact Hs].
Qed.

Definition sct_eqv (a b : SCT) : Prop := strip_sct a = strip_sct b.
Lemma sct_rt : roundtrips parse_ct_signed_certificate_timestamp enc_sct wf_sct sct_eqv.
Proof. intros v rest o Hw. exact (sct_roundtrip v rest o Hw). Qed.
Lemma sct_ne : nonempty_enc enc_sct wf_sct.
Proof. intros v _. unfold enc_sct. rewrite lenN_vec16. lia. Qed.
Lemma sct_stops_nil o : stops parse_ct_signed_certificate_timestamp (mkS o []).
Proof.
  unfold stops, parse_ct_signed_certificate_timestamp, map_parser, length_data. rewrite !run_bind.
  unfold be_u16. rewrite run_beu. unfold slen; cbn [bytes lenN]. destruct (N.leb_spec (N.of_nat 2) 0); [lia | exact I].
Qed.

(* the list: u16 total length, then the entries; every field of every entry, in order *)
Theorem sct_list_roundtrip l rest o :
  (forall s, In s l -> wf_sct s) -> lenN (cat enc_sct l) < 65536 ->
  exists vs', run parse_ct_signed_certificate_timestamp_list (mkS o (enc_sct_list l ++ rest)) =
                Ok (mkS (o + lenN (enc_sct_list l)) rest) vs' /\ Forall2 sct_eqv vs' l.
Proof.
  intros Hw Hl. unfold parse_ct_signed_certificate_timestamp_list, enc_sct_list, vec16, map_parser.
  repeat rewrite <- app_assoc. rt_step. rewrite run_bind, run_take_n by reflexivity.
  destruct (many0_cmpl_rt _ _ _ _ sct_rt sct_ne l (o + 2) [] Hw) as [vs' [E HF]].
  { apply sct_stops_nil. }
  unfold encs in E. rewrite app_nil_r in E. unfold cat. rewrite run_on, E.
  eexists. split; [apply f_equal2; [f_equal; solve_off | reflexivity] | exact HF].
Qed.

(* a list whose declared length exceeds the input never yields a value *)
Theorem sct_list_overlong n body o : n < 65536 -> lenN body < n ->
  run parse_ct_signed_certificate_timestamp_list (mkS o (u16 n ++ body)) = Incomplete (Size (n - lenN body)).
Proof.
  intros Hn Hb. unfold parse_ct_signed_certificate_timestamp_list, map_parser. rt_step.
  rewrite !run_bind, run_take. unfold slen; cbn [bytes]. destruct (N.leb_spec n (lenN body)); [lia|].
  rewrite mk_needed_pos by lia. reflexivity.
Qed.

(* an entry whose declared length exceeds what is left of the enclosing list yields no value:
   the list parser stops before it *)
Theorem sct_entry_overlong n body o : n < 65536 -> lenN body < n ->
  stops parse_ct_signed_certificate_timestamp (mkS o (u16 n ++ body)).
Proof.
  intros Hn Hb. unfold stops, parse_ct_signed_certificate_timestamp, map_parser, length_data.
  rewrite !run_bind, run_u16_enc by exact Hn. rewrite run_take. unfold slen; cbn [bytes].
  destruct (N.leb_spec n (lenN body)); [lia | exact I].
Qed.
