From TlsModel Require Import Bytes Nom Values Record Defrag BytesLemmas Consts.
From Coq Require Import Lia ZArith ZifyBool ZifyN.
Ltac Zify.zify_post_hook ::= Z.div_mod_to_equations.

Definition one_shot (ty ver : N) (p : list byte) : res (list TlsMessage) :=
  run (parse_tls_record_with_header (mkHdr ty ver (lenN p mod 65536))) (mkS 0 p).
Definition needs_more {A} (r : res A) : bool :=
  match r with Incomplete _ => true | _ => is_complete_err r end.
Definition hdr_of (ty ver : N) (data : list byte) := mkHdr ty ver (lenN data mod 65536).

(* ---- refusals leave the state unchanged ---- *)
Lemma nocopy_refused s hdr data : d_cur s <> None ->
  nocopy s hdr data = (s, (Caller, Fail empty_in KNonEmpty)).
Proof. unfold nocopy, defrag_in_progress. destruct (d_cur s); [reflexivity | congruence]. Qed.

Lemma foreign_type dbg s t hdr data : d_cur s = Some t -> (dbg = true -> d_buf s <> []) -> h_type hdr <> t ->
  parse_record dbg s hdr data = (s, (Caller, Err empty_in KTag)).
Proof.
  intros Hc Hb Ht. unfold parse_record. rewrite Hc.
  destruct dbg; cbn [andb].
  - destruct (N.eqb_spec (lenN (d_buf s)) 0) as [E|E].
    + apply lenN_nil_inv in E. exfalso; apply Hb; auto.
    + destruct (N.eqb_spec (h_type hdr) t); [congruence | reflexivity].
  - destruct (N.eqb_spec (h_type hdr) t); [congruence | reflexivity].
Qed.

Lemma too_large dbg s t hdr data : d_cur s = Some t -> (dbg = true -> d_buf s <> []) -> h_type hdr = t ->
  MAX_RECORD_DATA <= lenN (d_buf s) + lenN data ->
  parse_record dbg s hdr data = (s, (Caller, Err empty_in KTooLarge)).
Proof.
  intros Hc Hb Ht Hl. unfold parse_record. rewrite Hc.
  assert (Hd : (dbg && (lenN (d_buf s) =? 0)) = false).
  { destruct dbg; [|reflexivity]. cbn [andb]. apply N.eqb_neq. intros E. apply lenN_nil_inv in E. apply Hb; auto. }
  rewrite Hd. destruct (N.eqb_spec (h_type hdr) t); [|congruence]. cbn [negb].
  destruct (N.leb_spec MAX_RECORD_DATA (lenN (d_buf s) + lenN data)); [reflexivity | lia].
Qed.

(* ---- a record that parses on its own is returned from the caller's data, nothing is buffered ---- *)
Lemma single_record dbg s hdr data r v : d_cur s = None ->
  run (parse_tls_record_with_header hdr) (mkS 0 data) = Ok r v ->
  parse_record dbg s hdr data = (s, (Caller, Ok r v)).
Proof.
  intros Hc Hr. unfold parse_record, nocopy, defrag_in_progress. rewrite Hc, Hr.
  destruct ((h_type hdr =? 21) || (h_type hdr =? 20)); reflexivity.
Qed.

(* ---- buffer bound as an invariant over all operation sequences ---- *)
Definition record_within_cap (o : dop) : Prop :=
  match o with
  | OpParse _ data | OpNoCopy _ data => lenN data <= MAX_RECORD_LEN
  | OpReset => True
  end.
Definition bounded (s : defrag_state) : Prop :=
  d_cur s <> None -> lenN (d_buf s) < MAX_RECORD_DATA.

Lemma cap_lt_data : MAX_RECORD_LEN < MAX_RECORD_DATA.
Proof. reflexivity. Qed.

Lemma step_bounded dbg s o : bounded s -> record_within_cap o -> bounded (fst (step dbg s o)).
Proof.
  intros Hb Ho. destruct o as [hdr data|hdr data|]; cbn [step].
  - destruct (parse_record dbg s hdr data) as [s' r] eqn:E. cbn [fst].
    unfold parse_record in E. destruct (d_cur s) as [cur|] eqn:Ec.
    + destruct (dbg && (lenN (d_buf s) =? 0)); [injection E as <- _; exact Hb|].
      destruct (negb (h_type hdr =? cur)); [injection E as <- _; exact Hb|].
      destruct (N.leb_spec MAX_RECORD_DATA (lenN (d_buf s) + lenN data)); [injection E as <- _; exact Hb|].
      destruct (run _ _); injection E as <- _; unfold bounded; cbn [d_cur d_buf];
        try congruence; intros _; rewrite lenN_app; lia.
    + destruct ((h_type hdr =? 21) || (h_type hdr =? 20)).
      { unfold nocopy, defrag_in_progress in E. rewrite Ec in E. injection E as <- _. exact Hb. }
      cbn [record_within_cap] in Ho. pose proof cap_lt_data.
      destruct (run _ _) as [? ?|? k|? k| | |]; try (injection E as <- _; exact Hb);
        try (injection E as <- _; unfold bounded; cbn [d_cur d_buf]; intros _; lia);
        destruct k; cbn [is_complete_err] in E; injection E as <- _; try exact Hb;
        unfold bounded; cbn [d_cur d_buf]; intros _; lia.
  - destruct (nocopy s hdr data) as [s' r] eqn:E. cbn [fst]. unfold nocopy in E.
    destruct (defrag_in_progress s); injection E as <- _; exact Hb.
  - cbn [fst]. unfold bounded, d_init; cbn. congruence.
Qed.

Theorem buffer_bound dbg : forall ops s, bounded s -> Forall record_within_cap ops ->
  Forall (fun e => bounded (snd e)) (run_ops dbg s ops).
Proof.
  induction ops as [|o t IH]; intros s Hb Hf; cbn [run_ops]; [constructor|].
  inversion Hf as [|? ? Ho Ht]; subst.
  pose proof (step_bounded dbg s o Hb Ho) as Hs.
  destruct (step dbg s o) as [s' r]. cbn [fst] in Hs.
  constructor; [exact Hs|]. destruct (is_panic r); [constructor | apply IH; assumption].
Qed.

Lemma init_bounded : bounded d_init.
Proof. unfold bounded, d_init; cbn; congruence. Qed.

(* ---- an idle parser behaves like a fresh one (the stale buffer is unobservable) ---- *)
Definition same_obs (a b : defrag_state) : Prop :=
  d_cur a = d_cur b /\ (d_cur a <> None -> d_buf a = d_buf b).

Lemma step_same_obs dbg a b o : same_obs a b ->
  snd (step dbg a o) = snd (step dbg b o) /\ same_obs (fst (step dbg a o)) (fst (step dbg b o)).
Proof.
  intros [Hc Hb]. unfold same_obs.
  destruct o as [hdr data|hdr data|]; cbn [step].
  - unfold parse_record. rewrite <- Hc. destruct (d_cur a) as [cur|] eqn:Ea.
    + assert (Hbuf : d_buf a = d_buf b) by (apply Hb; congruence). rewrite <- Hbuf.
      destruct (dbg && (lenN (d_buf a) =? 0)); [cbn [fst snd]; rewrite Ea, <- Hc; auto|].
      destruct (negb (h_type hdr =? cur)); [cbn [fst snd]; rewrite Ea, <- Hc; auto|].
      destruct (MAX_RECORD_DATA <=? lenN (d_buf a) + lenN data); [cbn [fst snd]; rewrite Ea, <- Hc; auto|].
      destruct (run (parse_tls_record_with_header _) _); cbn [fst snd d_cur d_buf]; auto.
    + unfold nocopy, defrag_in_progress. rewrite <- Hc, Ea.
      destruct ((h_type hdr =? 21) || (h_type hdr =? 20)); [cbn [fst snd]; rewrite Ea, <- Hc; auto|].
      destruct (run (parse_tls_record_with_header hdr) (mkS 0 data)) as [? ?|? k|? k| | |];
        try destruct k; cbn [is_complete_err fst snd d_cur d_buf]; try rewrite Ea; try rewrite <- Hc; auto.
  - unfold nocopy, defrag_in_progress. rewrite <- Hc. destruct (d_cur a) eqn:Ea; cbn [fst snd]; rewrite Ea, <- Hc; auto.
  - cbn [fst snd]. auto.
Qed.

Definition observe (l : list (option dout * defrag_state)) : list (option dout * bool) :=
  map (fun e => (fst e, defrag_in_progress (snd e))) l.

Theorem same_obs_runs dbg : forall ops a b, same_obs a b ->
  observe (run_ops dbg a ops) = observe (run_ops dbg b ops).
Proof.
  induction ops as [|o t IH]; intros a b H; cbn [run_ops]; [reflexivity|].
  destruct (step_same_obs dbg a b o H) as [Ho Hs].
  destruct (step dbg a o) as [a' ra], (step dbg b o) as [b' rb]. cbn [fst snd] in *. subst rb.
  unfold observe; cbn [map fst snd]. f_equal.
  - f_equal. unfold defrag_in_progress. destruct Hs as [Hc _]. now rewrite Hc.
  - destruct (is_panic ra); [reflexivity | apply IH; exact Hs].
Qed.

Corollary idle_is_fresh dbg s ops : d_cur s = None ->
  observe (run_ops dbg s ops) = observe (run_ops dbg d_init ops).
Proof. intros H. apply same_obs_runs. split; [exact H | rewrite H; congruence]. Qed.

(* after reset, and after a completed message, the parser is idle *)
Lemma reset_idle dbg s : fst (step dbg s OpReset) = d_init.
Proof. reflexivity. Qed.

(* ---- the main theorem: a payload split into k fragments ---- *)
Definition frag_ops (ty ver : N) (frags : list (list byte)) : list dop :=
  map (fun f => OpParse (hdr_of ty ver f) f) frags.

(* every proper prefix of the concatenation still needs more bytes: the first message is
   completed only by the last fragment *)
Fixpoint prefixes_need_more (ty ver : N) (acc : list byte) (rest : list (list byte)) : Prop :=
  match rest with
  | [] => True
  | f :: rest' =>
      (rest' <> [] -> needs_more (one_shot ty ver (acc ++ f)) = true) /\
      prefixes_need_more ty ver (acc ++ f) rest'
  end.

Definition is_inc (o : option dout) : bool :=
  match o with Some (_, Incomplete _) => true | _ => false end.

Lemma needs_more_not_ok {A} (r : res A) : needs_more r = true ->
  match r with Ok _ _ => False | _ => True end.
Proof. destruct r; cbn; try discriminate; auto. Qed.
Lemma needs_more_map_complete {A} (r : res A) : needs_more r = true ->
  exists n, map_complete r = Incomplete n.
Proof.
  unfold map_complete. destruct r as [? ?|? k|? k|n| |]; cbn; try discriminate; intros H; eauto;
    destruct k; cbn in *; try discriminate; eauto.
Qed.

(* while defragmenting: buffer = everything received so far *)
Definition mid_ok (e : option dout * defrag_state) : Prop :=
  is_inc (fst e) = true /\ defrag_in_progress (snd e) = true.

Lemma later_fragments dbg ty ver : forall rest acc r v,
  rest <> [] ->
  (dbg = true -> acc <> []) ->
  lenN (acc ++ concat rest) < MAX_RECORD_DATA ->
  prefixes_need_more ty ver acc rest ->
  one_shot ty ver (acc ++ concat rest) = Ok r v ->
  exists mids,
    run_ops dbg (mkD acc (Some ty)) (frag_ops ty ver rest) =
      mids ++ [(Some (Buffer, Ok r v), mkD (acc ++ concat rest) None)] /\
    length mids = (length rest - 1)%nat /\ Forall mid_ok mids.
Proof.
  induction rest as [|f rest IH]; intros acc r v Hne Hdbg Hlen Hpre Hok; [congruence|].
  cbn [frag_ops map run_ops step]. unfold parse_record at 1. cbv zeta. cbn [d_cur d_buf].
  assert (Hd : (dbg && (lenN acc =? 0)) = false).
  { destruct dbg; [|reflexivity]. cbn [andb]. apply N.eqb_neq. intros E. apply lenN_nil_inv in E. apply Hdbg; auto. }
  rewrite Hd. unfold hdr_of. cbn [h_type h_version]. rewrite N.eqb_refl. cbn [negb].
  cbn [concat] in Hlen, Hok. rewrite !lenN_app in Hlen.
  destruct (N.leb_spec MAX_RECORD_DATA (lenN acc + lenN f)) as [Hbig|Hsmall]; [lia|].
  change (run (parse_tls_record_with_header (mkHdr ty ver (lenN (acc ++ f) mod 65536))) (mkS 0 (acc ++ f)))
    with (one_shot ty ver (acc ++ f)).
  destruct Hpre as [Hp1 Hp2].
  destruct rest as [|g rest'].
  - (* last fragment *)
    cbn [concat] in Hok. rewrite app_nil_r in Hok. rewrite Hok. cbn [is_panic map run_ops].
    exists []. cbn [concat app length]. rewrite app_nil_r. repeat split; constructor.
  - (* a middle fragment *)
    assert (Hnm : needs_more (one_shot ty ver (acc ++ f)) = true) by (apply Hp1; congruence).
    pose proof (needs_more_not_ok _ Hnm) as Hnok.
    destruct (needs_more_map_complete _ Hnm) as [n Hmc].
    destruct (IH (acc ++ f) r v) as [mids [Eo [Hl Hmid]]].
    + congruence.
    + intros Hd' E. apply app_eq_nil in E as [E _]. exact (Hdbg Hd' E).
    + rewrite !lenN_app. lia.
    + exact Hp2.
    + rewrite <- app_assoc. exact Hok.
    + unfold frag_ops, hdr_of in Eo.
      destruct (one_shot ty ver (acc ++ f)) as [? ?|? k|? k|nd| |] eqn:Eo1; try contradiction.
      all: rewrite Hmc; cbn [is_panic]; rewrite Eo.
      all: eexists (_ :: mids); split;
        [cbn [app]; rewrite <- app_assoc; reflexivity
        | split; [cbn [length] in *; lia | constructor; [split; reflexivity | exact Hmid]]].
Qed.

(* the whole history from an idle parser: k - 1 Incomplete answers with defragmentation in
   progress, then exactly the one-shot result (from the internal buffer), and the parser is idle *)
Theorem split dbg ty ver f1 rest s r v :
  ty <> 21 -> ty <> 20 ->
  d_cur s = None ->
  rest <> [] ->
  (dbg = true -> f1 <> []) ->
  lenN (concat (f1 :: rest)) < MAX_RECORD_DATA ->
  prefixes_need_more ty ver [] (f1 :: rest) ->
  one_shot ty ver (concat (f1 :: rest)) = Ok r v ->
  exists mids,
    run_ops dbg s (frag_ops ty ver (f1 :: rest)) =
      mids ++ [(Some (Buffer, Ok r v), mkD (concat (f1 :: rest)) None)] /\
    length mids = length rest /\ Forall mid_ok mids.
Proof.
  intros H21 H20 Hc Hne Hdbg Hlen [Hp1 Hp2] Hok.
  cbn [frag_ops map run_ops step]. unfold parse_record at 1. cbv zeta. rewrite Hc.
  unfold hdr_of. cbn [h_type h_version].
  destruct (N.eqb_spec ty 21); [congruence|]. destruct (N.eqb_spec ty 20); [congruence|]. cbn [orb].
  change (run (parse_tls_record_with_header (mkHdr ty ver (lenN f1 mod 65536))) (mkS 0 f1)) with (one_shot ty ver f1).
  cbn [app] in Hp1, Hp2.
  assert (Hnm : needs_more (one_shot ty ver f1) = true) by (apply Hp1; exact Hne).
  destruct (later_fragments dbg ty ver rest f1 r v Hne Hdbg Hlen Hp2 Hok) as [mids [Eo [Hl Hmid]]].
  unfold frag_ops, hdr_of in Eo.
  destruct (one_shot ty ver f1) as [? ?|? k|? k|nd| |] eqn:E1; cbn [needs_more] in Hnm; try discriminate.
  - rewrite Hnm. cbn [is_panic]. rewrite Eo. exists ((Some (Caller, Incomplete Unknown), mkD f1 (Some ty)) :: mids).
    split; [reflexivity|]. split; [cbn [length]; destruct rest; [congruence | cbn [length] in *; lia]|].
    constructor; [split; reflexivity | exact Hmid].
  - rewrite Hnm. cbn [is_panic]. rewrite Eo. exists ((Some (Caller, Incomplete Unknown), mkD f1 (Some ty)) :: mids).
    split; [reflexivity|]. split; [cbn [length]; destruct rest; [congruence | cbn [length] in *; lia]|].
    constructor; [split; reflexivity | exact Hmid].
  - cbn [is_panic]. rewrite Eo. exists ((Some (Caller, Incomplete Unknown), mkD f1 (Some ty)) :: mids).
    split; [reflexivity|]. split; [cbn [length]; destruct rest; [congruence | cbn [length] in *; lia]|].
    constructor; [split; reflexivity | exact Hmid].
Qed.
