(* C04: handshake messages decode to the values an RFC encoder wrote; bad ones fail. *)
From TlsModel Require Import Bytes Nom Values DispatchTypes Handshake Wire Strip BytesLemmas NomGeneric RunLemmas
  ManyLemmas RtTactics SafeProofs MultiRecordProofs.
From TlsModel Require Import Dispatch.
From Coq Require Import Lia ZArith ZifyBool ZifyN.
Ltac Zify.zify_post_hook ::= Z.div_mod_to_equations.

(* ---- the dispatch tables read from the source are the expected ones ---- *)
Scheme Equality for hs_body_id.
Definition hs_table_expected : list (N * hs_body_id) :=
  [(0, HB_hello_request); (1, HB_client_hello); (2, HB_server_hello); (4, HB_newsessionticket);
   (5, HB_end_of_early_data); (6, HB_hello_retry_request); (11, HB_certificate); (12, HB_serverkeyexchange);
   (13, HB_certificaterequest); (14, HB_serverdone); (15, HB_certificateverify); (16, HB_clientkeyexchange);
   (20, HB_finished); (22, HB_certificatestatus); (24, HB_key_update); (67, HB_next_protocol)].
Fixpoint table_eqb {A} (eqb : A -> A -> bool) (x y : list (N * A)) : bool :=
  match x, y with
  | [], [] => true
  | (k, a) :: x', (k', a') :: y' => (k =? k') && eqb a a' && table_eqb eqb x' y'
  | _, _ => false
  end.
Lemma table_eqb_eq {A} (eqb : A -> A -> bool) (Heq : forall a b, eqb a b = true -> a = b) x y :
  table_eqb eqb x y = true -> x = y.
Proof.
  revert y; induction x as [|[k a] x IH]; intros [|[k' a'] y]; cbn; try discriminate; [reflexivity|].
  intros H. apply andb_prop in H as [H H3]. apply andb_prop in H as [H1 H2].
  apply N.eqb_eq in H1. apply Heq in H2. apply IH in H3. congruence.
Qed.
(* lookups agree even if the source lists the arms in another order *)
Definition same_lookup {A} (eqb : A -> A -> bool) (x y : list (N * A)) : bool :=
  forallb (fun k => match assoc_N k x, assoc_N k y with
                    | Some a, Some b => eqb a b | None, None => true | _, _ => false end)
          (map fst x ++ map fst y).
Definition sh_form_eqb (a b : sh_form) : bool :=
  match a, b with
  | ShV12 x, ShV12 y => Bool.eqb x y
  | ShV13Draft18, ShV13Draft18 => true
  | _, _ => false
  end.
Definition sh_msg_expected : list (N * sh_form) :=
  [(32530, ShV13Draft18); (771, ShV12 true); (770, ShV12 true); (769, ShV12 true); (768, ShV12 false)].
Definition sh_expected : list (N * sh_form) :=
  [(771, ShV12 true); (770, ShV12 true); (769, ShV12 true); (768, ShV12 false)].
Lemma sh_form_eqb_eq a b : sh_form_eqb a b = true -> a = b.
Proof. destruct a as [x|], b as [y|]; cbn; try discriminate; try reflexivity. intros H; apply Bool.eqb_prop in H; now subst. Qed.

Definition hs_tables_std : bool :=
  table_eqb hs_body_id_beq hs_table hs_table_expected &&
  table_eqb sh_form_eqb sh_msg_versions sh_msg_expected && table_eqb sh_form_eqb sh_versions sh_expected.
Lemma hs_tables_are : hs_tables_std = true ->
  hs_table = hs_table_expected /\ sh_msg_versions = sh_msg_expected /\ sh_versions = sh_expected.
Proof.
  unfold hs_tables_std. intros H. apply andb_prop in H as [H H3]. apply andb_prop in H as [H1 H2].
  repeat split; eapply table_eqb_eq; eauto using internal_hs_body_id_dec_bl, sh_form_eqb_eq.
Qed.

(* ---- the message parser is confined to its 24-bit length ---- *)
Definition lift_hs (rest : slice) (r : res TlsMessageHandshake) : res TlsMessage :=
  match r with
  | Ok _ v => Ok rest (MHandshake v)
  | Err s k => Err s k | Fail s k => Fail s k
  | Incomplete n => Incomplete n | Panic => Panic | OutOfFuel => OutOfFuel
  end.

Theorem handshake_char ht body rest o :
  ht < 256 -> lenN body < 16777216 ->
  run parse_tls_message_handshake (mkS o (u8 ht ++ u24 (lenN body) ++ body ++ rest)) =
    match assoc_N ht hs_table with
    | Some b => lift_hs (mkS (o + 4 + lenN body) rest) (run (hs_body b (lenN body)) (mkS (o + 4) body))
    | None => Err (mkS (o + 4 + lenN body) rest) KSwitch
    end.
Proof.
  intros Ht Hl. unfold parse_tls_message_handshake. do 2 rt_step.
  rewrite run_bind, run_take_n by reflexivity.
  replace (o + 1 + 3) with (o + 4) by lia.
  destruct (assoc_N ht hs_table) as [b|]; [|reflexivity].
  rewrite run_bind, run_on. destruct (run (hs_body b (lenN body)) _); reflexivity.
Qed.

(* a message whose declared length exceeds what follows is never a value *)
Theorem handshake_cut_off ht hl body o : ht < 256 -> hl < 16777216 -> lenN body < hl ->
  run parse_tls_message_handshake (mkS o (u8 ht ++ u24 hl ++ body)) = Incomplete (Size (hl - lenN body)).
Proof.
  intros Ht Hl Hb. unfold parse_tls_message_handshake. do 2 rt_step.
  rewrite run_bind, run_take. unfold slen; cbn [bytes]. destruct (N.leb_spec hl (lenN body)); [lia|].
  rewrite mk_needed_pos by lia. reflexivity.
Qed.

(* generic: a body round-trip gives a message round-trip *)
Definition body_rt (v : TlsMessageHandshake) : Prop :=
  forall o, exists r v', run (match assoc_N (hs_type v) hs_table with
                              | Some b => hs_body b (lenN (enc_hs_body v))
                              | None => ErrK KSwitch end) (mkS o (enc_hs_body v)) = Ok r v' /\ strip_hs v' = strip_hs v.

Theorem message_of_body v rest o :
  lenN (enc_hs_body v) < 16777216 -> body_rt v ->
  exists m', run parse_tls_message_handshake (mkS o (enc_handshake v ++ rest)) =
               Ok (mkS (o + lenN (enc_handshake v)) rest) m' /\ msg_eqv m' (MHandshake v).
Proof.
  intros Hl Hb. unfold enc_handshake, vec24. repeat rewrite <- app_assoc.
  assert (Ht : hs_type v < 256) by (destruct v; cbn; lia).
  rewrite handshake_char by assumption.
  specialize (Hb (o + 4)). destruct (assoc_N (hs_type v) hs_table) as [b|].
  - destruct Hb as [r [v' [E Hs]]]. rewrite E. cbn [lift_hs].
    eexists. split; [apply f_equal2; [f_equal; solve_off | reflexivity]|].
    unfold msg_eqv; cbn [strip_msg]. now rewrite Hs.
  - destruct Hb as [r [v' [E _]]]. discriminate.
Qed.

(* ---- bodies ---- *)
Section Bodies.
  Hypothesis Ht : hs_tables_std = true.
  Let Htab : hs_table = hs_table_expected := proj1 (hs_tables_are Ht).
  Let Hshm : sh_msg_versions = sh_msg_expected := proj1 (proj2 (hs_tables_are Ht)).

  Ltac start := intros o; unfold body_rt; rewrite Htab; cbn [hs_type enc_hs_body];
                match goal with |- context [assoc_N ?k hs_table_expected] =>
                  let r := eval vm_compute in (assoc_N k hs_table_expected) in
                  change (assoc_N k hs_table_expected) with r end; cbn [hs_body].
  Ltac fin := eexists; eexists; split; [reflexivity | reflexivity].

  Lemma body_hello_request : body_rt HHelloRequest.
  Proof. start. unfold parse_tls_handshake_msg_hello_request. rewrite run_ret. fin. Qed.
  Lemma body_end_of_early_data : body_rt HEndOfEarlyData.
  Proof. start. rewrite run_ret. fin. Qed.

  Lemma take_all o b : run (Take (lenN b)) (mkS o b) = Ok (mkS (o + lenN b) []) (mkS o b).
  Proof. pose proof (run_take_n (lenN b) b o [] eq_refl) as H. rewrite app_nil_r in H. exact H. Qed.

  Lemma body_ske s : body_rt (HServerKeyExchange s).
  Proof. start. unfold parse_tls_handshake_msg_serverkeyexchange, pmap. rewrite run_bind, take_all, run_ret. fin. Qed.
  Lemma body_serverdone s : body_rt (HServerDone s).
  Proof. start. unfold parse_tls_handshake_msg_serverdone, pmap. rewrite run_bind, take_all, run_ret. fin. Qed.
  Lemma body_certverify s : body_rt (HCertificateVerify s).
  Proof. start. unfold parse_tls_handshake_msg_certificateverify, pmap. rewrite run_bind, take_all, run_ret. fin. Qed.
  Lemma body_finished s : body_rt (HFinished s).
  Proof. start. unfold parse_tls_handshake_msg_finished, pmap. rewrite run_bind, take_all, run_ret. fin. Qed.
  Lemma body_cke s : body_rt (HClientKeyExchange (CkeUnknown s)).
  Proof.
    start. unfold parse_tls_handshake_msg_clientkeyexchange, parse_tls_clientkeyexchange, pmap.
    rewrite !run_bind, take_all, !run_ret. fin.
  Qed.
  Lemma body_key_update v : v < 256 -> body_rt (HKeyUpdate v).
  Proof.
    intros Hv. start. unfold parse_tls_handshake_msg_key_update, pmap.
    pose proof (run_u8_enc v o [] Hv) as E. rewrite app_nil_r in E. rewrite run_bind, E, run_ret. fin.
  Qed.
  Lemma body_nst hint t : hint < 4294967296 -> body_rt (HNewSessionTicket hint t).
  Proof.
    intros Hh. start. unfold parse_tls_handshake_msg_newsessionticket.
    rewrite lenN_app, lenN_u32. destruct (N.ltb_spec (4 + lenN (bytes t)) 4); [lia|].
    rt_step. replace (4 + lenN (bytes t) - 4) with (lenN (bytes t)) by lia.
    rewrite run_bind, take_all, run_ret. fin.
  Qed.
  Lemma body_cert_status ty b : ty < 256 -> slen b < 16777216 -> body_rt (HCertificateStatus ty b).
  Proof.
    intros Hty Hb. start. unfold parse_tls_handshake_msg_certificatestatus, parse_tls_handshake_certificatestatus, pmap.
    rewrite run_bind. rt_step.
    pose proof (run_vec24 (bytes b) (o + 1) [] Hb) as E. rewrite app_nil_r in E. rewrite run_bind, E, !run_ret. fin.
  Qed.
  Lemma body_next_protocol a b : slen a < 256 -> slen b < 256 -> body_rt (HNextProtocol a b).
  Proof.
    intros Ha Hb. start. unfold parse_tls_handshake_msg_next_protocol, parse_tls_handshake_next_protocol, pmap.
    rewrite run_bind. rt_step.
    pose proof (run_vec8 (bytes b) (o + 1 + lenN (bytes a)) [] Hb) as E. rewrite app_nil_r in E. rewrite run_bind, E, !run_ret. fin.
  Qed.
End Bodies.

(* ---- lists of integers written as bytes ---- *)
Lemma u16_bytes v : u16 v = [n2b (v / 256); n2b v].
Proof. reflexivity. Qed.
Lemma u8_bytes v : u8 v = [n2b v].
Proof. reflexivity. Qed.

Lemma pairs16_cat l : Forall (fun v => v < 65536) l -> pairs16 (cat u16 l) = Some l.
Proof.
  induction l as [|v l IH]; intros H; [reflexivity|]. inversion H as [|? ? Hv Hl]; subst.
  unfold cat in *. cbn [map concat]. rewrite u16_bytes. cbn [app pairs16]. rewrite (IH Hl).
  rewrite !b2n_n2b. do 2 f_equal.
  rewrite (N.mod_small (v / 256)) by (apply N.div_lt_upper_bound; lia). lia.
Qed.
Lemma lenN_cat_u16 l : lenN (cat u16 l) = 2 * lenN l.
Proof. induction l as [|v l IH]; [reflexivity|]. unfold cat in *. cbn [map concat]. rewrite lenN_app, lenN_u16, IH. cbn [lenN]. lia. Qed.
Lemma lenN_cat_u8 l : lenN (cat u8 l) = lenN l.
Proof. induction l as [|v l IH]; [reflexivity|]. unfold cat in *. cbn [map concat]. rewrite lenN_app, lenN_u8, IH. cbn [lenN]. lia. Qed.
Lemma map_b2n_cat l : Forall (fun v => v < 256) l -> map b2n (cat u8 l) = l.
Proof.
  induction l as [|v l IH]; intros H; [reflexivity|]. inversion H as [|? ? Hv Hl]; subst.
  unfold cat in *. cbn [map concat]. rewrite u8_bytes. cbn [app map]. rewrite (IH Hl), b2n_n2b, N.mod_small by lia. reflexivity.
Qed.

Lemma run_cipher_suites l rest o : Forall (fun v => v < 65536) l ->
  run (parse_cipher_suites (lenN (cat u16 l))) (mkS o (cat u16 l ++ rest)) = Ok (mkS (o + lenN (cat u16 l)) rest) l.
Proof.
  intros Hl. unfold parse_cipher_suites. rewrite lenN_cat_u16.
  destruct l as [|v l']; [cbn [lenN]; change (2 * 0 =? 0) with true; cbv iota; rewrite run_ret; cbn [cat map concat app lenN]; f_equal; f_equal; lia|].
  set (l := v :: l') in *. assert (Hn : 2 * lenN l <> 0) by (unfold l; cbn [lenN]; lia).
  destruct (N.eqb_spec (2 * lenN l) 0); [contradiction|].
  rewrite run_bind, run_geti. cbv beta iota.
  destruct (N.eqb_spec ((2 * lenN l) mod 2) 1); [lia|]. cbn [orb].
  cbn [bytes]. rewrite has_len_spec, lenN_app, lenN_cat_u16.
  destruct (N.leb_spec (2 * lenN l) (2 * lenN l + lenN rest)); [|lia]. cbn [negb].
  rewrite run_bind, run_idx. unfold slen; cbn [bytes off]. rewrite lenN_app, lenN_cat_u16.
  destruct (N.leb_spec (2 * lenN l) (2 * lenN l + lenN rest)); [|lia].
  rewrite takeN_app_len by (now rewrite lenN_cat_u16). cbn [bytes]. rewrite (pairs16_cat l Hl), run_ret.
  unfold sdrop; cbn [bytes off]. rewrite dropN_app_len by (now rewrite lenN_cat_u16). reflexivity.
Qed.

Lemma run_compressions l rest o : Forall (fun v => v < 256) l ->
  run (parse_compressions_algs (lenN (cat u8 l))) (mkS o (cat u8 l ++ rest)) = Ok (mkS (o + lenN (cat u8 l)) rest) l.
Proof.
  intros Hl. unfold parse_compressions_algs. rewrite lenN_cat_u8.
  destruct l as [|v l']; [cbn [lenN]; change (0 =? 0) with true; cbv iota; rewrite run_ret; cbn [cat map concat app lenN]; f_equal; f_equal; lia|].
  set (l := v :: l') in *. assert (Hn : lenN l <> 0) by (unfold l; cbn [lenN]; lia).
  destruct (N.eqb_spec (lenN l) 0); [contradiction|].
  rewrite run_bind, run_geti. cbv beta iota.
  cbn [bytes]. rewrite has_len_spec, lenN_app, lenN_cat_u8.
  destruct (N.leb_spec (lenN l) (lenN l + lenN rest)); [|lia]. cbn [negb].
  rewrite run_bind, run_idx. unfold slen; cbn [bytes off]. rewrite lenN_app, lenN_cat_u8.
  destruct (N.leb_spec (lenN l) (lenN l + lenN rest)); [|lia].
  rewrite takeN_app_len by (now rewrite lenN_cat_u8). rewrite run_ret. cbn [bytes]. rewrite (map_b2n_cat l Hl).
  unfold sdrop; cbn [bytes off]. rewrite dropN_app_len by (now rewrite lenN_cat_u8). reflexivity.
Qed.

(* the optional extension block at the very end of a body: absent <> empty *)
Lemma run_opt_ext e o : (forall s, e = Some s -> slen s < 65536) ->
  exists e', run opt_ext (mkS o (enc_optext e)) = Ok (mkS (o + lenN (enc_optext e)) []) e' /\ so e' = so e.
Proof.
  intros He. unfold opt_ext. rewrite run_opt, run_cmpl. destruct e as [s|]; cbn [enc_optext].
  - pose proof (run_vec16 (bytes s) o [] (He s eq_refl)) as E. rewrite app_nil_r in E. rewrite E.
    eexists. split; [apply f_equal2; [f_equal; solve_off | reflexivity] | reflexivity].
  - unfold length_data. rewrite run_bind. unfold be_u16. rewrite run_beu. unfold slen; cbn [bytes lenN].
    destruct (N.leb_spec (N.of_nat 2) 0); [lia|]. exists None. split; [f_equal; f_equal; lia | reflexivity].
Qed.

(* session id: absent (length 0) or 1..32 bytes *)
Definition wf_sid (s : option slice) : Prop := match s with None => True | Some s => 1 <= slen s <= 32 end.
Lemma run_sid s rest o : wf_sid s ->
  exists s', run (let* sidlen := Vrfy be_u8 (fun n => n <=? 32) in cond (0 <? sidlen) (Take sidlen))
                 (mkS o (enc_sid s ++ rest)) = Ok (mkS (o + lenN (enc_sid s)) rest) s' /\ so s' = so s.
Proof.
  intros Hs. rewrite run_bind, run_vrfy. destruct s as [s|]; cbn [enc_sid wf_sid] in *.
  - unfold vec8. rewrite <- app_assoc, run_u8_enc by (unfold slen in Hs; lia).
    destruct (N.leb_spec (lenN (bytes s)) 32); [|unfold slen in Hs; lia].
    unfold cond. destruct (N.ltb_spec 0 (lenN (bytes s))); [|unfold slen in Hs; lia].
    unfold pmap. rewrite run_bind, run_take_n by reflexivity. rewrite run_ret.
    eexists. split; [apply f_equal2; [f_equal; solve_off | reflexivity] | reflexivity].
  - rewrite run_u8_enc by lia. cbn [N.leb]. change (0 <=? 32) with true. cbv iota.
    unfold cond. change (0 <? 0) with false. cbv iota. rewrite run_ret.
    exists None. split; [f_equal; f_equal; solve_off | reflexivity].
Qed.
