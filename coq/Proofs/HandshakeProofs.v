(* C04: handshake messages decode to the values an RFC encoder wrote; bad ones fail. *)
From TlsModel Require Import Bytes Nom Values DispatchTypes Handshake Wire Strip BytesLemmas NomGeneric RunLemmas
  ManyLemmas RtTactics SafeProofs MultiRecordProofs.
From TlsModel Require Import Dispatch.
From Coq Require Import Lia ZArith ZifyBool ZifyN.
Ltac Zify.zify_post_hook ::= Z.div_mod_to_equations.

(* ---- the dispatch tables read from the source are the expected ones ---- *)
Scheme Equality for hs_body_id.
Definition hs_table_expected : list (N * hs_body_id) :=
  [(0, HB_hello_request); (1, HB_client_hello); (2, HB_server_hello); (4, HB_newsessionticket);
   (5, HB_end_of_early_data); (6, HB_hello_retry_request); (11, HB_certificate); (12, HB_serverkeyexchange);
   (13, HB_certificaterequest); (14, HB_serverdone); (15, HB_certificateverify); (16, HB_clientkeyexchange);
   (20, HB_finished); (22, HB_certificatestatus); (24, HB_key_update); (67, HB_next_protocol)].
Fixpoint table_eqb {A} (eqb : A -> A -> bool) (x y : list (N * A)) : bool :=
  match x, y with
  | [], [] => true
  | (k, a) :: x', (k', a') :: y' => (k =? k') && eqb a a' && table_eqb eqb x' y'
  | _, _ => false
  end.
Lemma table_eqb_eq {A} (eqb : A -> A -> bool) (Heq : forall a b, eqb a b = true -> a = b) x y :
  table_eqb eqb x y = true -> x = y.
Proof.
  revert y; induction x as [|[k a] x IH]; intros [|[k' a'] y]; cbn; try discriminate; [reflexivity|].
  intros H. apply andb_prop in H as [H H3]. apply andb_prop in H as [H1 H2].
  apply N.eqb_eq in H1. apply Heq in H2. apply IH in H3. congruence.
Qed.
(* lookups agree even if the source lists the arms in another order *)
Definition same_lookup {A} (eqb : A -> A -> bool) (x y : list (N * A)) : bool :=
  forallb (fun k => match assoc_N k x, assoc_N k y with
                    | Some a, Some b => eqb a b | None, None => true | _, _ => false end)
          (map fst x ++ map fst y).
Definition sh_form_eqb (a b : sh_form) : bool :=
  match a, b with
  | ShV12 x, ShV12 y => Bool.eqb x y
  | ShV13Draft18, ShV13Draft18 => true
  | _, _ => false
  end.
Definition sh_msg_expected : list (N * sh_form) :=
  [(32530, ShV13Draft18); (771, ShV12 true); (770, ShV12 true); (769, ShV12 true); (768, ShV12 false)].
Definition sh_expected : list (N * sh_form) :=
  [(771, ShV12 true); (770, ShV12 true); (769, ShV12 true); (768, ShV12 false)].
Lemma sh_form_eqb_eq a b : sh_form_eqb a b = true -> a = b.
Proof. destruct a as [x|], b as [y|]; cbn; try discriminate; try reflexivity. intros H; apply Bool.eqb_prop in H; now subst. Qed.

Definition hs_tables_std : bool :=
  table_eqb hs_body_id_beq hs_table hs_table_expected &&
  table_eqb sh_form_eqb sh_msg_versions sh_msg_expected && table_eqb sh_form_eqb sh_versions sh_expected.
Lemma hs_tables_are : hs_tables_std = true ->
  hs_table = hs_table_expected /\ sh_msg_versions = sh_msg_expected /\ sh_versions = sh_expected.
Proof.
  unfold hs_tables_std. intros H. apply andb_prop in H as [H H3]. apply andb_prop in H as [H1 H2].
  repeat split; eapply table_eqb_eq; eauto using internal_hs_body_id_dec_bl, sh_form_eqb_eq.
Qed.

(* ---- the message parser is confined to its 24-bit length ---- *)
Definition lift_hs (rest : slice) (r : res TlsMessageHandshake) : res TlsMessage :=
  match r with
  | Ok _ v => Ok rest (MHandshake v)
  | Err s k => Err s k | Fail s k => Fail s k
  | Incomplete n => Incomplete n | Panic => Panic | OutOfFuel => OutOfFuel
  end.

Theorem handshake_char ht body rest o :
  ht < 256 -> lenN body < 16777216 ->
  run parse_tls_message_handshake (mkS o (u8 ht ++ u24 (lenN body) ++ body ++ rest)) =
    match assoc_N ht hs_table with
    | Some b => lift_hs (mkS (o + 4 + lenN body) rest) (run (hs_body b (lenN body)) (mkS (o + 4) body))
    | None => Err (mkS (o + 4 + lenN body) rest) KSwitch
    end.
Proof.
  intros Ht Hl. unfold parse_tls_message_handshake. do 2 rt_step.
  rewrite run_bind, run_take_n by reflexivity.
  replace (o + 1 + 3) with (o + 4) by lia.
  destruct (assoc_N ht hs_table) as [b|]; [|reflexivity].
  rewrite run_bind, run_on. destruct (run (hs_body b (lenN body)) _); reflexivity.
Qed.

(* a message whose declared length exceeds what follows is never a value *)
Theorem handshake_cut_off ht hl body o : ht < 256 -> hl < 16777216 -> lenN body < hl ->
  run parse_tls_message_handshake (mkS o (u8 ht ++ u24 hl ++ body)) = Incomplete (Size (hl - lenN body)).
Proof.
  intros Ht Hl Hb. unfold parse_tls_message_handshake. do 2 rt_step.
  rewrite run_bind, run_take. unfold slen; cbn [bytes]. destruct (N.leb_spec hl (lenN body)); [lia|].
  rewrite mk_needed_pos by lia. reflexivity.
Qed.

(* generic: a body round-trip gives a message round-trip *)
Definition body_rt (v : TlsMessageHandshake) : Prop :=
  forall o, exists r v', run (match assoc_N (hs_type v) hs_table with
                              | Some b => hs_body b (lenN (enc_hs_body v))
                              | None => ErrK KSwitch end) (mkS o (enc_hs_body v)) = Ok r v' /\ strip_hs v' = strip_hs v.

Theorem message_of_body v rest o :
  lenN (enc_hs_body v) < 16777216 -> body_rt v ->
  exists m', run parse_tls_message_handshake (mkS o (enc_handshake v ++ rest)) =
               Ok (mkS (o + lenN (enc_handshake v)) rest) m' /\ msg_eqv m' (MHandshake v).
Proof.
  intros Hl Hb. unfold enc_handshake, vec24. repeat rewrite <- app_assoc.
  assert (Ht : hs_type v < 256) by (destruct v; cbn; lia).
  rewrite handshake_char by assumption.
  specialize (Hb (o + 4)). destruct (assoc_N (hs_type v) hs_table) as [b|].
  - destruct Hb as [r [v' [E Hs]]]. rewrite E. cbn [lift_hs].
    eexists. split; [apply f_equal2; [f_equal; solve_off | reflexivity]|].
    unfold msg_eqv; cbn [strip_msg]. now rewrite Hs.
  - destruct Hb as [r [v' [E _]]]. discriminate.
Qed.

(* ---- bodies ---- *)
Section Bodies.
  Hypothesis Ht : hs_tables_std = true.
  Let Htab : hs_table = hs_table_expected := proj1 (hs_tables_are Ht).
  Let Hshm : sh_msg_versions = sh_msg_expected := proj1 (proj2 (hs_tables_are Ht)).

  Ltac start := intros o; unfold body_rt; rewrite Htab; cbn [hs_type enc_hs_body];
                match goal with |- context [assoc_N ?k hs_table_expected] =>
                  let r := eval vm_compute in (assoc_N k hs_table_expected) in
                  change (assoc_N k hs_table_expected) with r end; cbn [hs_body].
  Ltac fin := eexists; eexists; split; [reflexivity | reflexivity].

  Lemma body_hello_request : body_rt HHelloRequest.
  Proof. start. unfold parse_tls_handshake_msg_hello_request. rewrite run_ret. fin. Qed.
  Lemma body_end_of_early_data : body_rt HEndOfEarlyData.
  Proof. start. rewrite run_ret. fin. Qed.

  Lemma take_all o b : run (Take (lenN b)) (mkS o b) = Ok (mkS (o + lenN b) []) (mkS o b).
  Proof. pose proof (run_take_n (lenN b) b o [] eq_refl) as H. rewrite app_nil_r in H. exact H. Qed.

  Lemma body_ske s : body_rt (HServerKeyExchange s).
  Proof. start. unfold parse_tls_handshake_msg_serverkeyexchange, pmap. rewrite run_bind, take_all, run_ret. fin. Qed.
  Lemma body_serverdone s : body_rt (HServerDone s).
  Proof. start. unfold parse_tls_handshake_msg_serverdone, pmap. rewrite run_bind, take_all, run_ret. fin. Qed.
  Lemma body_certverify s : body_rt (HCertificateVerify s).
  Proof. start. unfold parse_tls_handshake_msg_certificateverify, pmap. rewrite run_bind, take_all, run_ret. fin. Qed.
  Lemma body_finished s : body_rt (HFinished s).
  Proof. start. unfold parse_tls_handshake_msg_finished, pmap. rewrite run_bind, take_all, run_ret. fin. Qed.
  Lemma body_cke s : body_rt (HClientKeyExchange (CkeUnknown s)).
  Proof.
    start. unfold parse_tls_handshake_msg_clientkeyexchange, parse_tls_clientkeyexchange, pmap.
    rewrite !run_bind, take_all, !run_ret. fin.
  Qed.
  Lemma body_key_update v : v < 256 -> body_rt (HKeyUpdate v).
  Proof.
    intros Hv. start. unfold parse_tls_handshake_msg_key_update, pmap.
    pose proof (run_u8_enc v o [] Hv) as E. rewrite app_nil_r in E. rewrite run_bind, E, run_ret. fin.
  Qed.
  Lemma body_nst hint t : hint < 4294967296 -> body_rt (HNewSessionTicket hint t).
  Proof.
    intros Hh. start. unfold parse_tls_handshake_msg_newsessionticket.
    rewrite lenN_app, lenN_u32. destruct (N.ltb_spec (4 + lenN (bytes t)) 4); [lia|].
    rt_step. replace (4 + lenN (bytes t) - 4) with (lenN (bytes t)) by lia.
    rewrite run_bind, take_all, run_ret. fin.
  Qed.
  Lemma body_cert_status ty b : ty < 256 -> slen b < 16777216 -> body_rt (HCertificateStatus ty b).
  Proof.
    intros Hty Hb. start. unfold parse_tls_handshake_msg_certificatestatus, parse_tls_handshake_certificatestatus, pmap.
    rewrite run_bind. rt_step.
    pose proof (run_vec24 (bytes b) (o + 1) [] Hb) as E. rewrite app_nil_r in E. rewrite run_bind, E, !run_ret. fin.
  Qed.
  Lemma body_next_protocol a b : slen a < 256 -> slen b < 256 -> body_rt (HNextProtocol a b).
  Proof.
    intros Ha Hb. start. unfold parse_tls_handshake_msg_next_protocol, parse_tls_handshake_next_protocol, pmap.
    rewrite run_bind. rt_step.
    pose proof (run_vec8 (bytes b) (o + 1 + lenN (bytes a)) [] Hb) as E. rewrite app_nil_r in E. rewrite run_bind, E, !run_ret. fin.
  Qed.
End Bodies.

(* ---- lists of integers written as bytes ---- *)
Lemma u16_bytes v : u16 v = [n2b (v / 256); n2b v].
Proof. reflexivity. Qed.
Lemma u8_bytes v : u8 v = [n2b v].
Proof. reflexivity. Qed.

Lemma pairs16_cat l : Forall (fun v => v < 65536) l -> pairs16 (cat u16 l) = Some l.
Proof.
  induction l as [|v l IH]; intros H; [reflexivity|]. inversion H as [|? ? Hv Hl]; subst.
  unfold cat in *. cbn [map concat]. rewrite u16_bytes. cbn [app pairs16]. rewrite (IH Hl).
  rewrite !b2n_n2b. do 2 f_equal.
  rewrite (N.mod_small (v / 256)) by (apply N.div_lt_upper_bound; lia). lia.
Qed.
Lemma lenN_cat_u16 l : lenN (cat u16 l) = 2 * lenN l.
Proof. induction l as [|v l IH]; [reflexivity|]. unfold cat in *. cbn [map concat]. rewrite lenN_app, lenN_u16, IH. cbn [lenN]. lia. Qed.
Lemma lenN_cat_u8 l : lenN (cat u8 l) = lenN l.
Proof. induction l as [|v l IH]; [reflexivity|]. unfold cat in *. cbn [map concat]. rewrite lenN_app, lenN_u8, IH. cbn [lenN]. lia. Qed.
Lemma map_b2n_cat l : Forall (fun v => v < 256) l -> map b2n (cat u8 l) = l.
Proof.
  induction l as [|v l IH]; intros H; [reflexivity|]. inversion H as [|? ? Hv Hl]; subst.
  unfold cat in *. cbn [map concat]. rewrite u8_bytes. cbn [app map]. rewrite (IH Hl), b2n_n2b, N.mod_small by lia. reflexivity.
Qed.

Lemma run_cipher_suites l rest o : Forall (fun v => v < 65536) l ->
  run (parse_cipher_suites (lenN (cat u16 l))) (mkS o (cat u16 l ++ rest)) = Ok (mkS (o + lenN (cat u16 l)) rest) l.
Proof.
  intros Hl. unfold parse_cipher_suites. rewrite lenN_cat_u16.
  destruct l as [|v l']; [cbn [lenN]; change (2 * 0 =? 0) with true; cbv iota; rewrite run_ret; cbn [cat map concat app lenN]; f_equal; f_equal; lia|].
  set (l := v :: l') in *. assert (Hn : 2 * lenN l <> 0) by (unfold l; cbn [lenN]; lia).
  destruct (N.eqb_spec (2 * lenN l) 0); [contradiction|].
  rewrite run_bind, run_geti. cbv beta iota.
  destruct (N.eqb_spec ((2 * lenN l) mod 2) 1); [lia|]. cbn [orb].
  cbn [bytes]. rewrite has_len_spec, lenN_app, lenN_cat_u16.
  destruct (N.leb_spec (2 * lenN l) (2 * lenN l + lenN rest)); [|lia]. cbn [negb].
  rewrite run_bind, run_idx. unfold slen; cbn [bytes off]. rewrite lenN_app, lenN_cat_u16.
  destruct (N.leb_spec (2 * lenN l) (2 * lenN l + lenN rest)); [|lia].
  rewrite takeN_app_len by (now rewrite lenN_cat_u16). cbn [bytes]. rewrite (pairs16_cat l Hl), run_ret.
  unfold sdrop; cbn [bytes off]. rewrite dropN_app_len by (now rewrite lenN_cat_u16). reflexivity.
Qed.

Lemma run_compressions l rest o : Forall (fun v => v < 256) l ->
  run (parse_compressions_algs (lenN (cat u8 l))) (mkS o (cat u8 l ++ rest)) = Ok (mkS (o + lenN (cat u8 l)) rest) l.
Proof.
  intros Hl. unfold parse_compressions_algs. rewrite lenN_cat_u8.
  destruct l as [|v l']; [cbn [lenN]; change (0 =? 0) with true; cbv iota; rewrite run_ret; cbn [cat map concat app lenN]; f_equal; f_equal; lia|].
  set (l := v :: l') in *. assert (Hn : lenN l <> 0) by (unfold l; cbn [lenN]; lia).
  destruct (N.eqb_spec (lenN l) 0); [contradiction|].
  rewrite run_bind, run_geti. cbv beta iota.
  cbn [bytes]. rewrite has_len_spec, lenN_app, lenN_cat_u8.
  destruct (N.leb_spec (lenN l) (lenN l + lenN rest)); [|lia]. cbn [negb].
  rewrite run_bind, run_idx. unfold slen; cbn [bytes off]. rewrite lenN_app, lenN_cat_u8.
  destruct (N.leb_spec (lenN l) (lenN l + lenN rest)); [|lia].
  rewrite takeN_app_len by (now rewrite lenN_cat_u8). rewrite run_ret. cbn [bytes]. rewrite (map_b2n_cat l Hl).
  unfold sdrop; cbn [bytes off]. rewrite dropN_app_len by (now rewrite lenN_cat_u8). reflexivity.
Qed.

(* the optional extension block at the very end of a body: absent <> empty *)
Lemma run_opt_ext e o : (forall s, e = Some s -> slen s < 65536) ->
  exists e', run opt_ext (mkS o (enc_optext e)) = Ok (mkS (o + lenN (enc_optext e)) []) e' /\ so e' = so e.
Proof.
  intros He. unfold opt_ext. rewrite run_opt, run_cmpl. destruct e as [s|]; cbn [enc_optext].
  - pose proof (run_vec16 (bytes s) o [] (He s eq_refl)) as E. rewrite app_nil_r in E. rewrite E.
    eexists. split; [apply f_equal2; [f_equal; solve_off | reflexivity] | reflexivity].
  - unfold length_data. rewrite run_bind. unfold be_u16. rewrite run_beu. unfold slen; cbn [bytes lenN].
    destruct (N.leb_spec (N.of_nat 2) 0); [lia|]. exists None. split; [f_equal; f_equal; lia | reflexivity].
Qed.

(* session id: absent (length 0) or 1..32 bytes *)
Definition wf_sid (s : option slice) : Prop := match s with None => True | Some s => 1 <= slen s <= 32 end.
Lemma run_sid s rest o : wf_sid s ->
  exists s', so s' = so s /\ forall B (K : option slice -> P B),
    run (let* sidlen := Vrfy be_u8 (fun n => n <=? 32) in let* sid := cond (0 <? sidlen) (Take sidlen) in K sid)
        (mkS o (enc_sid s ++ rest)) = run (K s') (mkS (o + lenN (enc_sid s)) rest).
Proof.
  intros Hs. destruct s as [s|]; cbn [enc_sid wf_sid] in *.
  - exists (Some (mkS (o + 1) (bytes s))). split; [reflexivity|]. intros B K.
    rewrite run_bind, run_vrfy. unfold vec8. rewrite <- app_assoc, run_u8_enc by (unfold slen in Hs; lia).
    destruct (N.leb_spec (lenN (bytes s)) 32); [|unfold slen in Hs; lia].
    unfold cond. destruct (N.ltb_spec 0 (lenN (bytes s))); [|unfold slen in Hs; lia].
    unfold pmap. rewrite !run_bind, run_take_n by reflexivity. rewrite run_ret.
    f_equal. f_equal. solve_off.
  - exists None. split; [reflexivity|]. intros B K.
    rewrite run_bind, run_vrfy, run_u8_enc by lia. change (0 <=? 32) with true. cbv iota.
    unfold cond. change (0 <? 0) with false. cbv iota. rewrite run_bind, run_ret.
    first [reflexivity | f_equal; f_equal; solve_off].
Qed.

(* ---- hello messages ---- *)
Definition wf_optext (e : option slice) : Prop := forall s, e = Some s -> slen s < 65536.
Definition wf_ch (c : ClientHelloC) : Prop :=
  ch_version c < 65536 /\ slen (ch_random c) = 32 /\ wf_sid (ch_sid c) /\
  Forall (fun v => v < 65536) (ch_ciphers c) /\ 2 * lenN (ch_ciphers c) < 65536 /\
  Forall (fun v => v < 256) (ch_comp c) /\ lenN (ch_comp c) < 256 /\ wf_optext (ch_ext c).

Lemma client_hello_rt c o : wf_ch c ->
  exists r v', run parse_tls_handshake_client_hello (mkS o (enc_client_hello c)) = Ok r v' /\ strip_ch v' = strip_ch c.
Proof.
  intros [Hv [Hr [Hs [Hc [Hcl [Hco [Hcol He]]]]]]].
  unfold parse_tls_handshake_client_hello, enc_client_hello, vec16, vec8. repeat rewrite <- app_assoc.
  rt_step. rewrite run_bind, run_take_n by (unfold slen in Hr; exact Hr).
  destruct (run_sid (ch_sid c) (u16 (lenN (cat u16 (ch_ciphers c))) ++ cat u16 (ch_ciphers c) ++
                                 u8 (lenN (cat u8 (ch_comp c))) ++ cat u8 (ch_comp c) ++ enc_optext (ch_ext c))
                    (o + 2 + 32) Hs) as [s' [Hss Es]].
  rewrite Es. clear Es.
  rewrite run_bind, run_u16_enc by (rewrite lenN_cat_u16; lia).
  rewrite run_bind, run_cipher_suites by exact Hc.
  rewrite run_bind, run_u8_enc by (rewrite lenN_cat_u8; lia).
  rewrite run_bind, run_compressions by exact Hco.
  rewrite run_bind.
  match goal with |- context [run opt_ext (mkS ?o' _)] => destruct (run_opt_ext (ch_ext c) o' He) as [e' [Ee Hee]] end.
  rewrite Ee, run_ret. eexists. eexists. split; [reflexivity|].
  unfold strip_ch; cbn [ch_version ch_random ch_sid ch_ciphers ch_comp ch_ext]. rewrite Hss, Hee. reflexivity.
Qed.

Definition wf_sh (c : ServerHelloC) : Prop :=
  In (sh_version c) [768; 769; 770; 771] /\ slen (sh_random c) = 32 /\ wf_sid (sh_sid c) /\
  sh_cipher c < 65536 /\ sh_comp c < 256 /\ wf_optext (sh_ext c) /\ (sh_version c = 768 -> sh_ext c = None).

Lemma server_hello_v12_rt c o has_ext : sh_version c < 65536 -> slen (sh_random c) = 32 -> wf_sid (sh_sid c) ->
  sh_cipher c < 65536 -> sh_comp c < 256 -> wf_optext (sh_ext c) -> (has_ext = false -> sh_ext c = None) ->
  exists r v', run (parse_tls_server_hello_tlsv12 has_ext) (mkS o (enc_server_hello c)) = Ok r v' /\ strip_sh v' = strip_sh c.
Proof.
  intros Hv Hr Hs Hc Hco He Hx.
  unfold parse_tls_server_hello_tlsv12, enc_server_hello. repeat rewrite <- app_assoc.
  rt_step. rewrite run_bind, run_take_n by (unfold slen in Hr; exact Hr).
  destruct (run_sid (sh_sid c) (u16 (sh_cipher c) ++ u8 (sh_comp c) ++ enc_optext (sh_ext c)) (o + 2 + 32) Hs) as [s' [Hss Es]].
  rewrite Es. clear Es.
  do 2 rt_step. rewrite run_bind. destruct has_ext.
  - match goal with |- context [run opt_ext (mkS ?o' _)] => destruct (run_opt_ext (sh_ext c) o' He) as [e' [Ee Hee]] end.
    rewrite Ee, run_ret. eexists. eexists. split; [reflexivity|].
    unfold strip_sh; cbn [sh_version sh_random sh_sid sh_cipher sh_comp sh_ext]. rewrite Hss, Hee. reflexivity.
  - rewrite (Hx eq_refl). cbn [enc_optext]. rewrite !run_ret. eexists. eexists. split; [reflexivity|].
    unfold strip_sh; cbn [sh_version sh_random sh_sid sh_cipher sh_comp sh_ext]. rewrite Hss, (Hx eq_refl). reflexivity.
Qed.

Lemma peek_version v body o : v < 65536 ->
  run (Peek be_u16) (mkS o (u16 v ++ body)) = Ok (mkS o (u16 v ++ body)) v.
Proof. intros H. rewrite run_peek, run_u16_enc by exact H. reflexivity. Qed.

Section Bodies2.
  Hypothesis Ht : hs_tables_std = true.
  Let Htab : hs_table = hs_table_expected := proj1 (hs_tables_are Ht).
  Let Hshm : sh_msg_versions = sh_msg_expected := proj1 (proj2 (hs_tables_are Ht)).
  Ltac start := intros o; unfold body_rt; rewrite Htab; cbn [hs_type enc_hs_body];
                match goal with |- context [assoc_N ?k hs_table_expected] =>
                  let r := eval vm_compute in (assoc_N k hs_table_expected) in
                  change (assoc_N k hs_table_expected) with r end; cbn [hs_body].

  Lemma body_client_hello c : wf_ch c -> body_rt (HClientHello c).
  Proof.
    intros Hw. start. unfold parse_tls_handshake_msg_client_hello, pmap. rewrite run_bind.
    destruct (client_hello_rt c o Hw) as [r [v' [E Hs]]]. rewrite E, run_ret.
    eexists. eexists. split; [reflexivity|]. cbn [strip_hs]. now rewrite Hs.
  Qed.

  Lemma body_server_hello c : wf_sh c -> body_rt (HServerHello c).
  Proof.
    intros [Hv [Hr [Hs [Hc [Hco [He Hx]]]]]]. start. unfold parse_tls_handshake_msg_server_hello.
    assert (Hv16 : sh_version c < 65536) by (cbn [In] in Hv; lia).
    unfold enc_server_hello at 1. rewrite run_bind, peek_version by exact Hv16. fold (enc_server_hello c).
    rewrite Hshm.
    assert (Hform : assoc_N (sh_version c) sh_msg_expected = Some (ShV12 (negb (sh_version c =? 768)))).
    { cbn [In] in Hv. destruct Hv as [E|[E|[E|[E|[]]]]]; rewrite <- E; reflexivity. }
    rewrite Hform. unfold parse_tls_handshake_msg_server_hello_tlsv12, pmap. rewrite run_bind.
    destruct (server_hello_v12_rt c o (negb (sh_version c =? 768)) Hv16 Hr Hs Hc Hco He) as [r [v' [E Hss]]].
    { intros Hn. apply Hx. apply Bool.negb_false_iff in Hn. now apply N.eqb_eq in Hn. }
    rewrite E, run_ret. eexists. eexists. split; [reflexivity|]. cbn [strip_hs]. now rewrite Hss.
  Qed.

  Definition wf_sh13 (c : ServerHello13C) : Prop :=
    sh13_version c = 32530 /\ slen (sh13_random c) = 32 /\ sh13_cipher c < 65536 /\ wf_optext (sh13_ext c).
  Lemma body_server_hello13 c : wf_sh13 c -> body_rt (HServerHelloV13Draft18 c).
  Proof.
    intros [Hv [Hr [Hc He]]]. start. unfold parse_tls_handshake_msg_server_hello.
    rewrite Hv. rewrite run_bind, peek_version by lia. rewrite Hshm.
    change (assoc_N 32530 sh_msg_expected) with (Some ShV13Draft18). cbv iota.
    unfold parse_tls_handshake_msg_server_hello_tlsv13draft18. repeat rewrite <- app_assoc.
    rt_step. rewrite run_bind, run_take_n by (unfold slen in Hr; exact Hr). rt_step. rewrite run_bind.
    match goal with |- context [run opt_ext (mkS ?o' _)] => destruct (run_opt_ext (sh13_ext c) o' He) as [e' [Ee Hee]] end.
    rewrite Ee, run_ret. eexists. eexists. split; [reflexivity|].
    cbn [strip_hs sh13_version sh13_random sh13_cipher sh13_ext]. rewrite Hee, Hv. reflexivity.
  Qed.

  Definition wf_hrr (c : HelloRetryC) : Prop := hrr_version c < 65536 /\ hrr_cipher c < 65536 /\ wf_optext (hrr_ext c).
  Lemma body_hrr c : wf_hrr c -> body_rt (HHelloRetryRequest c).
  Proof.
    intros [Hv [Hc He]]. start. unfold parse_tls_handshake_msg_hello_retry_request. repeat rewrite <- app_assoc.
    do 2 rt_step. rewrite run_bind.
    match goal with |- context [run opt_ext (mkS ?o' _)] => destruct (run_opt_ext (hrr_ext c) o' He) as [e' [Ee Hee]] end.
    rewrite Ee, run_ret. eexists. eexists. split; [reflexivity|].
    cbn [strip_hs hrr_version hrr_cipher hrr_ext]. rewrite Hee. reflexivity.
  Qed.
End Bodies2.

(* ---- Certificate and CertificateRequest ---- *)
Lemma many0_cmpl_total A (p : P A) : progress p -> Safe p ->
  forall i, exists r l, run (Many0 (Cmpl p)) i = Ok r l.
Proof.
  intros Hprog Hsafe i. rewrite run_many0. unfold many0_run.
  assert (H : forall fuel j, slen j <= lenN fuel -> exists r l, many0_loop (fun k => run (Cmpl p) k) fuel j = Ok r l).
  { induction fuel as [|c fuel IH]; intros j Hl; cbn [many0_loop]; rewrite run_cmpl;
      pose proof (run_no_fail _ p j) as Hnf; pose proof (Hsafe j) as Hs;
      destruct (run p j) as [r a| | |n| |] eqn:E; cbn [no_fail safe] in *; try contradiction; eauto.
    - apply Hprog in E. cbn [lenN] in Hl. lia.
    - pose proof (Hprog _ _ _ E) as Hp. destruct (N.eqb_spec (slen r) (slen j)); [lia|].
      cbn [lenN] in Hl. destruct (IH r) as [r' [l' E']]; [lia|]. rewrite E'. eauto. }
  apply H. unfold slen; lia.
Qed.

Lemma progress_length_data k : (0 < k)%nat -> progress (length_data (BeU k)).
Proof. intros Hk. unfold length_data. apply progress_bind_l, progress_beu. exact Hk. Qed.

Definition slice_eqv (a b : slice) : Prop := ss a = ss b.
Lemma vec24_rt : roundtrips (length_data be_u24) (fun s : slice => vec24 (bytes s)) (fun s => slen s < 16777216) slice_eqv.
Proof.
  intros s rest o Hs. rewrite run_vec24 by exact Hs. eexists. split; [apply f_equal2; [f_equal; solve_off | reflexivity] | reflexivity].
Qed.
Lemma vec16_rt : roundtrips (length_data be_u16) (fun s : slice => vec16 (bytes s)) (fun s => slen s < 65536) slice_eqv.
Proof.
  intros s rest o Hs. rewrite run_vec16 by exact Hs. eexists. split; [apply f_equal2; [f_equal; solve_off | reflexivity] | reflexivity].
Qed.
Lemma vec24_ne : nonempty_enc (fun s : slice => vec24 (bytes s)) (fun s => slen s < 16777216).
Proof. intros v _. cbv beta. rewrite lenN_vec24. lia. Qed.
Lemma vec16_ne : nonempty_enc (fun s : slice => vec16 (bytes s)) (fun s => slen s < 65536).
Proof. intros v _. cbv beta. rewrite lenN_vec16. lia. Qed.
Lemma u16_ne : nonempty_enc u16 (fun v => v < 65536).
Proof. intros v _. rewrite lenN_u16. lia. Qed.
Lemma u16_rt : roundtrips be_u16 u16 (fun v => v < 65536) eq.
Proof. intros v rest o Hv. rewrite run_u16_enc by exact Hv. eexists. split; [rewrite lenN_u16; reflexivity | reflexivity]. Qed.
Lemma stops_length_data_nil k o : (0 < k)%nat -> stops (length_data (BeU k)) (mkS o []).
Proof. intros Hk. unfold length_data. apply stops_beu_nil_gen. exact Hk. Qed.

Lemma Forall2_slice_eqv_map l' l : Forall2 slice_eqv l' l -> map ss l' = map ss l.
Proof. induction 1 as [|a b l' l H HF IH]; [reflexivity|]. cbn [map]. unfold slice_eqv in H. now rewrite H, IH. Qed.
Lemma Forall2_eq A (l' l : list A) : Forall2 eq l' l -> l' = l.
Proof. induction 1; congruence. Qed.

Lemma run_count_u8 l rest o : Forall (fun v => v < 256) l ->
  run (count_u8 (length l)) (mkS o (cat u8 l ++ rest)) = Ok (mkS (o + lenN l) rest) l.
Proof.
  revert o; induction l as [|v l IH]; intros o H; cbn [length count_u8].
  - rewrite run_ret. cbn [cat map concat app lenN]. f_equal. f_equal. lia.
  - inversion H as [|? ? Hv Hl]; subst. unfold cat. cbn [map concat]. rewrite <- app_assoc.
    rt_step. fold (cat u8 l). rewrite run_bind, IH by exact Hl. rewrite run_ret. cbn [lenN]. f_equal. f_equal. lia.
Qed.
Lemma run_length_count l rest o : Forall (fun v => v < 256) l -> lenN l < 256 ->
  run length_count_u8_u8 (mkS o (vec8 (cat u8 l) ++ rest)) = Ok (mkS (o + 1 + lenN l) rest) l.
Proof.
  intros H Hl. unfold length_count_u8_u8, vec8. rewrite <- app_assoc. rewrite lenN_cat_u8. rt_step.
  rewrite (lenN_length l) at 1. rewrite Nat2N.id. apply run_count_u8. exact H.
Qed.

Lemma take_all_plain o b : run (Take (lenN b)) (mkS o b) = Ok (mkS (o + lenN b) []) (mkS o b).
Proof. pose proof (run_take_n (lenN b) b o [] eq_refl) as H. rewrite app_nil_r in H. exact H. Qed.

Definition wf_certs (l : list slice) : Prop :=
  Forall (fun s => slen s < 16777216) l /\ lenN (cat (fun s => vec24 (bytes s)) l) < 16777216.
Lemma certificate_rt l o : wf_certs l ->
  exists r l', run parse_tls_certificate (mkS o (vec24 (cat (fun s => vec24 (bytes s)) l))) = Ok r l' /\ map ss l' = map ss l.
Proof.
  intros [Hs Hl]. unfold parse_tls_certificate, map_parser.
  set (body := cat (fun s => vec24 (bytes s)) l) in *. unfold vec24 at 1.
  rewrite run_bind, run_u24_enc by exact Hl. rewrite run_bind, take_all_plain, run_on. unfold parse_certs.
  destruct (many0_cmpl_rt (length_data be_u24) (fun s : slice => vec24 (bytes s)) _ slice_eqv vec24_rt
              vec24_ne l (o + 3) []) as [vs' [Ev HF]].
  - intros s Hin. rewrite Forall_forall in Hs. exact (Hs s Hin).
  - apply stops_length_data_nil. lia.
  - unfold encs in Ev. rewrite app_nil_r in Ev. unfold body, cat. rewrite Ev.
    eexists. eexists. split; [reflexivity | apply Forall2_slice_eqv_map; exact HF].
Qed.

Definition wf_ca (l : list slice) : Prop :=
  Forall (fun s => slen s < 65536) l /\ lenN (cat (fun s => vec16 (bytes s)) l) < 65536.
Lemma ca_list_rt l rest o : wf_ca l ->
  exists l', run ca_list (mkS o (vec16 (cat (fun s => vec16 (bytes s)) l) ++ rest)) =
               Ok (mkS (o + 2 + lenN (cat (fun s => vec16 (bytes s)) l)) rest) l' /\ map ss l' = map ss l.
Proof.
  intros [Hs Hl]. unfold ca_list, map_parser.
  set (body := cat (fun s => vec16 (bytes s)) l) in *. unfold vec16 at 1. rewrite <- app_assoc.
  rt_step. rewrite run_bind, run_take_n by reflexivity. rewrite run_on.
  destruct (many0_cmpl_rt (length_data be_u16) (fun s : slice => vec16 (bytes s)) _ slice_eqv vec16_rt
              vec16_ne l (o + 2) []) as [vs' [Ev HF]].
  - intros s Hin. rewrite Forall_forall in Hs. exact (Hs s Hin).
  - apply stops_length_data_nil. lia.
  - unfold encs in Ev. rewrite app_nil_r in Ev. unfold body, cat. rewrite Ev.
    eexists. split; [reflexivity | apply Forall2_slice_eqv_map; exact HF].
Qed.

Definition wf_cr (c : CertRequestC) : Prop :=
  Forall (fun v => v < 256) (cr_types c) /\ lenN (cr_types c) < 256 /\ wf_ca (cr_ca c) /\
  match cr_sigalgs c with Some l => Forall (fun v => v < 65536) l /\ 2 * lenN l < 65536 | None => True end.

Lemma cr_full_rt types sigs cas o :
  Forall (fun v => v < 256) types -> lenN types < 256 -> wf_ca cas ->
  Forall (fun v => v < 65536) sigs -> 2 * lenN sigs < 65536 ->
  exists r c', run parse_certrequest_full (mkS o (enc_cert_request (mkCR types (Some sigs) cas))) = Ok r c' /\
               cr_types c' = types /\ cr_sigalgs c' = Some sigs /\ map ss (cr_ca c') = map ss cas.
Proof.
  intros Ht Htl Hca Hs Hsl. unfold parse_certrequest_full, enc_cert_request. cbn [cr_types cr_sigalgs cr_ca].
  repeat rewrite <- app_assoc.
  rewrite run_bind, run_length_count by assumption.
  unfold vec16 at 1. rewrite <- app_assoc. rewrite run_bind, run_u16_enc by (rewrite lenN_cat_u16; lia).
  unfold map_parser. rewrite !run_bind, run_take_n by reflexivity. rewrite run_on.
  destruct (many0_cmpl_rt be_u16 u16 _ eq u16_rt u16_ne sigs (o + 1 + lenN types + 2) []) as [vs' [Ev HF]].
  - intros v Hin. rewrite Forall_forall in Hs. exact (Hs v Hin).
  - apply stops_beu_nil_plain. lia.
  - unfold encs in Ev. rewrite app_nil_r in Ev. unfold cat at 1. rewrite Ev.
    apply Forall2_eq in HF. subst vs'.
    pose proof (ca_list_rt cas [] (o + 1 + lenN types + 2 + lenN (cat u16 sigs)) Hca) as [l' [Ec Hl']].
    rewrite app_nil_r in Ec.
    eexists. eexists. split; [rewrite run_bind, Ec, run_ret; reflexivity|]. cbn [cr_types cr_sigalgs cr_ca]. auto.
Qed.

Lemma cr_nosig_rt types cas o :
  Forall (fun v => v < 256) types -> lenN types < 256 -> wf_ca cas ->
  exists r c', run parse_certrequest_nosigalg (mkS o (enc_cert_request (mkCR types None cas))) = Ok r c' /\
               cr_types c' = types /\ cr_sigalgs c' = None /\ map ss (cr_ca c') = map ss cas.
Proof.
  intros Ht Htl Hca. unfold parse_certrequest_nosigalg, enc_cert_request. cbn [cr_types cr_sigalgs cr_ca app].
  rewrite run_bind, run_length_count by assumption.
  pose proof (ca_list_rt cas [] (o + 1 + lenN types) Hca) as [l' [Ec Hl']].
  rewrite app_nil_r in Ec. rewrite run_bind, Ec, run_ret.
  eexists. eexists. split; [reflexivity|]. cbn [cr_types cr_sigalgs cr_ca]. auto.
Qed.

(* on the legacy (no signature algorithms) encoding the TLS 1.2 form runs out of input: Incomplete *)
Lemma cr_full_on_nosig types cas o :
  Forall (fun v => v < 256) types -> lenN types < 256 -> wf_ca cas ->
  exists n, run parse_certrequest_full (mkS o (enc_cert_request (mkCR types None cas))) = Incomplete n.
Proof.
  intros Ht Htl [Hs Hl]. unfold parse_certrequest_full, enc_cert_request. cbn [cr_types cr_sigalgs cr_ca app].
  rewrite run_bind, run_length_count by assumption.
  set (body := cat (fun s => vec16 (bytes s)) cas) in *. unfold vec16.
  pose proof (run_u16_enc (lenN body) (o + 1 + lenN types) body Hl) as E.
  rewrite run_bind, E. clear E.
  unfold map_parser. rewrite !run_bind, take_all_plain, run_on.
  destruct (many0_cmpl_total N (BeU 2) (progress_beu 2 ltac:(lia)) (Safe_beu 2) (mkS (o + 1 + lenN types + 2) body)) as [r [l E]].
  unfold be_u16 at 1. rewrite E.
  unfold ca_list. rewrite !run_bind. unfold be_u16. rewrite run_beu. unfold slen; cbn [bytes lenN].
  destruct (N.leb_spec (N.of_nat 2) 0); [lia|]. eauto.
Qed.

Lemma cert_request_rt c o : wf_cr c ->
  exists r c', run parse_tls_handshake_certificaterequest (mkS o (enc_cert_request c)) = Ok r c' /\
               cr_types c' = cr_types c /\ cr_sigalgs c' = cr_sigalgs c /\ map ss (cr_ca c') = map ss (cr_ca c).
Proof.
  destruct c as [types sigs cas]. unfold wf_cr; cbn [cr_types cr_sigalgs cr_ca]. intros [Ht [Htl [Hca Hsig]]].
  unfold parse_tls_handshake_certificaterequest. rewrite run_alt, run_cmpl. destruct sigs as [sigs|].
  - destruct Hsig as [Hs Hsl]. destruct (cr_full_rt types sigs cas o Ht Htl Hca Hs Hsl) as [r [c' [E H]]].
    rewrite E. eauto.
  - destruct (cr_full_on_nosig types cas o Ht Htl Hca) as [n E]. rewrite E. rewrite run_cmpl.
    destruct (cr_nosig_rt types cas o Ht Htl Hca) as [r [c' [E' H]]]. rewrite E'. eauto.
Qed.

Section Bodies3.
  Hypothesis Ht : hs_tables_std = true.
  Let Htab : hs_table = hs_table_expected := proj1 (hs_tables_are Ht).
  Ltac start := intros o; unfold body_rt; rewrite Htab; cbn [hs_type enc_hs_body];
                match goal with |- context [assoc_N ?k hs_table_expected] =>
                  let r := eval vm_compute in (assoc_N k hs_table_expected) in
                  change (assoc_N k hs_table_expected) with r end; cbn [hs_body].

  Lemma body_certificate l : wf_certs l -> body_rt (HCertificate l).
  Proof.
    intros Hw. start. unfold parse_tls_handshake_msg_certificate, pmap. rewrite run_bind.
    destruct (certificate_rt l o Hw) as [r [l' [E Hs]]]. rewrite E, run_ret.
    eexists. eexists. split; [reflexivity|]. cbn [strip_hs]. now rewrite Hs.
  Qed.
  Lemma body_cert_request c : wf_cr c -> body_rt (HCertificateRequest c).
  Proof.
    intros Hw. start. unfold parse_tls_handshake_msg_certificaterequest, pmap. rewrite run_bind.
    destruct (cert_request_rt c o Hw) as [r [c' [E [H1 [H2 H3]]]]]. rewrite E, run_ret.
    eexists. eexists. split; [reflexivity|]. cbn [strip_hs]. now rewrite H1, H2, H3.
  Qed.

  (* well-formedness of a handshake value: every length fits its length field, every integer its width,
     the fixed-size fields have their size, and the version selects the ServerHello form *)
  Definition wf_hs (h : TlsMessageHandshake) : Prop :=
    lenN (enc_hs_body h) < 16777216 /\
    match h with
    | HHelloRequest | HEndOfEarlyData => True
    | HClientHello c => wf_ch c
    | HServerHello c => wf_sh c
    | HServerHelloV13Draft18 c => wf_sh13 c
    | HNewSessionTicket hint _ => hint < 4294967296
    | HHelloRetryRequest c => wf_hrr c
    | HCertificate l => wf_certs l
    | HServerKeyExchange _ | HServerDone _ | HCertificateVerify _ | HFinished _ => True
    | HClientKeyExchange c => match c with CkeUnknown _ => True | _ => False end
    | HCertificateRequest c => wf_cr c
    | HCertificateStatus t b => t < 256 /\ slen b < 16777216
    | HNextProtocol a b => slen a < 256 /\ slen b < 256
    | HKeyUpdate v => v < 256
    end.

  Lemma all_bodies h : wf_hs h -> body_rt h.
  Proof.
    intros [_ Hw]. destruct h; cbn [wf_hs] in Hw.
    - apply body_hello_request; exact Ht.
    - apply body_client_hello; assumption.
    - apply body_server_hello; assumption.
    - apply body_server_hello13; assumption.
    - apply body_nst; assumption.
    - apply body_end_of_early_data; exact Ht.
    - apply body_hrr; assumption.
    - apply body_certificate; assumption.
    - apply body_ske; exact Ht.
    - apply body_cert_request; assumption.
    - apply body_serverdone; exact Ht.
    - apply body_certverify; exact Ht.
    - destruct c; try contradiction. apply body_cke; exact Ht.
    - apply body_finished; exact Ht.
    - destruct Hw. apply body_cert_status; assumption.
    - destruct Hw. apply body_next_protocol; assumption.
    - apply body_key_update; assumption.
  Qed.

  Theorem handshake_roundtrip v rest o : wf_hs v ->
    exists m', run parse_tls_message_handshake (mkS o (enc_handshake v ++ rest)) =
                 Ok (mkS (o + lenN (enc_handshake v)) rest) m' /\ msg_eqv m' (MHandshake v).
  Proof. intros Hw. apply message_of_body; [exact (proj1 Hw) | apply all_bodies; exact Hw]. Qed.

  (* unknown handshake types are rejected *)
  Theorem unknown_type_rejected ht body rest o : ht < 256 -> lenN body < 16777216 ->
    assoc_N ht hs_table_expected = None ->
    run parse_tls_message_handshake (mkS o (u8 ht ++ u24 (lenN body) ++ body ++ rest)) =
      Err (mkS (o + 4 + lenN body) rest) KSwitch.
  Proof. intros H1 H2 H3. rewrite handshake_char by assumption. rewrite Htab, H3. reflexivity. Qed.
End Bodies3.

(* as instances of the C03 interface *)
Definition wf_hs_msg (Ht : hs_tables_std = true) (m : TlsMessage) : Prop :=
  match m with MHandshake h => wf_hs h | _ => False end.
Lemma handshake_msgs_rt Ht : roundtrips parse_tls_message_handshake enc_msg (wf_hs_msg Ht) msg_eqv.
Proof.
  intros m rest o Hw. destruct m; cbn [wf_hs_msg] in Hw; try contradiction. cbn [enc_msg].
  exact (handshake_roundtrip Ht h rest o Hw).
Qed.
Lemma handshake_msgs_ne Ht : nonempty_enc enc_msg (wf_hs_msg Ht).
Proof.
  intros m Hw. destruct m; cbn [wf_hs_msg] in Hw; try contradiction. cbn [enc_msg]. unfold enc_handshake.
  rewrite lenN_app, lenN_u8. lia.
Qed.

(* ---- structurally invalid bodies are rejected, whatever the rest of the message is ---- *)
Theorem reject_sid_gt_32 ver random n rest o : ver < 65536 -> lenN random = 32 -> 32 < n < 256 ->
  run parse_tls_handshake_client_hello (mkS o (u16 ver ++ random ++ u8 n ++ rest)) =
    Err (mkS (o + 2 + 32) (u8 n ++ rest)) KVerify.
Proof.
  intros Hv Hr Hn. unfold parse_tls_handshake_client_hello. rt_step.
  rewrite run_bind, run_take_n by exact Hr. rewrite run_bind, run_vrfy, run_u8_enc by lia.
  destruct (N.leb_spec n 32); [lia | reflexivity].
Qed.
Theorem reject_sid_gt_32_server ver random n rest o has_ext : ver < 65536 -> lenN random = 32 -> 32 < n < 256 ->
  run (parse_tls_server_hello_tlsv12 has_ext) (mkS o (u16 ver ++ random ++ u8 n ++ rest)) =
    Err (mkS (o + 2 + 32) (u8 n ++ rest)) KVerify.
Proof.
  intros Hv Hr Hn. unfold parse_tls_server_hello_tlsv12. rt_step.
  rewrite run_bind, run_take_n by exact Hr. rewrite run_bind, run_vrfy, run_u8_enc by lia.
  destruct (N.leb_spec n 32); [lia | reflexivity].
Qed.

(* cipher-suite list: odd length, or longer than what is left of the body *)
Theorem reject_cipher_len len i : len <> 0 -> (len mod 2 = 1 \/ slen i < len) ->
  run (parse_cipher_suites len) i = Err i KLengthValue.
Proof.
  intros H0 Hbad. unfold parse_cipher_suites. destruct (N.eqb_spec len 0); [contradiction|].
  rewrite run_bind, run_geti. cbv beta iota. rewrite has_len_spec. fold (slen i).
  destruct Hbad as [Ho|Hs].
  - rewrite Ho. reflexivity.
  - destruct (len mod 2 =? 1); [reflexivity|]. cbn [orb].
    destruct (N.leb_spec len (slen i)); [lia | reflexivity].
Qed.
Theorem reject_comp_len len i : len <> 0 -> slen i < len ->
  run (parse_compressions_algs len) i = Err i KLengthValue.
Proof.
  intros H0 Hs. unfold parse_compressions_algs. destruct (N.eqb_spec len 0); [contradiction|].
  rewrite run_bind, run_geti. cbv beta iota. rewrite has_len_spec. fold (slen i).
  destruct (N.leb_spec len (slen i)); [lia | reflexivity].
Qed.
Theorem reject_ticket_lt_4 len i : len < 4 ->
  run (parse_tls_handshake_msg_newsessionticket len) i = Err i KVerify.
Proof. intros H. unfold parse_tls_handshake_msg_newsessionticket. destruct (N.ltb_spec len 4); [reflexivity | lia]. Qed.

(* ServerHello with a legacy version outside the table *)
Theorem reject_server_hello_version v body o : hs_tables_std = true -> v < 65536 ->
  assoc_N v sh_msg_expected = None ->
  run parse_tls_handshake_msg_server_hello (mkS o (u16 v ++ body)) = Err (mkS o (u16 v ++ body)) KTag.
Proof.
  intros Ht Hv Hn. unfold parse_tls_handshake_msg_server_hello. rewrite run_bind, peek_version by exact Hv.
  rewrite (proj1 (proj2 (hs_tables_are Ht))), Hn. reflexivity.
Qed.

(* a certificate list or status blob longer than the body is never a value *)
Theorem reject_cert_list_overlong n body o : n < 16777216 -> lenN body < n ->
  run parse_tls_certificate (mkS o (u24 n ++ body)) = Incomplete (Size (n - lenN body)).
Proof.
  intros Hn Hb. unfold parse_tls_certificate, map_parser. rt_step. rewrite !run_bind, run_take.
  unfold slen; cbn [bytes]. destruct (N.leb_spec n (lenN body)); [lia|]. rewrite mk_needed_pos by lia. reflexivity.
Qed.
Theorem reject_status_blob_overlong t n body o : t < 256 -> n < 16777216 -> lenN body < n ->
  run parse_tls_handshake_certificatestatus (mkS o (u8 t ++ u24 n ++ body)) = Incomplete (Size (n - lenN body)).
Proof.
  intros Ht Hn Hb. unfold parse_tls_handshake_certificatestatus, length_data. rt_step. rewrite run_bind. rt_step.
  rewrite run_take. unfold slen; cbn [bytes]. destruct (N.leb_spec n (lenN body)); [lia|]. rewrite mk_needed_pos by lia. reflexivity.
Qed.
