(* Ties that the generic tactic cannot state as a plain equality.

   `Ok((&[], v))`: the source returns Rust's static empty slice as remainder, the model the empty suffix of the input
   (`Take (slen i)`).  Both are empty; only the (meaningless) address differs, which both printers omit.  The tie is
   therefore stated up to the offset of an empty remainder. *)
From TlsModel Require Import Nom Values Handshake Record Extensions Kx Dtls ModelExtra SrcGlue Consts SrcParsers TieTactics.
From TlsModel Require Import BytesLemmas RunLemmas.
From Coq Require Import Lia ZifyN ZifyBool.
Open Scope N_scope.

(* same value, and remainders that are both empty *)
Definition ok_empty_rem {A} (x y : res A) : Prop :=
  exists r r' a, x = Ok r a /\ y = Ok r' a /\ bytes r = [] /\ bytes r' = [].

Lemma slice_eta (i : slice) : mkS (off i) (bytes i) = i.
Proof. destruct i; reflexivity. Qed.

Lemma tie_parse_tls_message_applicationdata : forall i,
  ok_empty_rem (src_parse_tls_message_applicationdata i) (run parse_tls_message_applicationdata i).
Proof.
  intros i. unfold src_parse_tls_message_applicationdata, parse_tls_message_applicationdata, g_MApplicationData, g_id.
  rewrite trun_Bind, trun_GetI. cbn [bindr]. rewrite trun_Bind, run_take.
  destruct (N.leb_spec (slen i) (slen i)); [|lia]. cbn [bindr]. rewrite trun_Ret.
  unfold slen at 2. rewrite takeN_all by (unfold slen; lia). rewrite slice_eta.
  exists sempty, (sdrop i (slen i)), (MApplicationData i). repeat split.
  unfold sdrop, slen; cbn [bytes]. apply dropN_all. lia.
Qed.

Lemma tie_parse_dtls_fragment : forall i,
  ok_empty_rem (src_parse_dtls_fragment i) (run parse_dtls_fragment i).
Proof.
  intros i. unfold src_parse_dtls_fragment, parse_dtls_fragment.
  rewrite trun_Bind, trun_GetI. cbn [bindr]. rewrite trun_Bind, run_take.
  destruct (N.leb_spec (slen i) (slen i)); [|lia]. cbn [bindr]. rewrite trun_Ret.
  unfold slen at 2. rewrite takeN_all by (unfold slen; lia). rewrite slice_eta.
  exists sempty, (sdrop i (slen i)), (DFragment i). repeat split.
  unfold sdrop, slen; cbn [bytes]. apply dropN_all. lia.
Qed.
