(* C18: obligations over the conditional-compilation table regenerated from the source (gen/Config.v) *)
From Coq Require Import String List NArith Bool.
From TlsModel Require Import Config.
Import ListNotations.
Open Scope string_scope.

Definition lib_sites : list (string * string) :=
  [("any(feature=std,test)", "externcratestd;");
   ("all(feature=serialize,not(feature=std))", "compile_error!(features`serialize`cannotbeenabledwhenusing`");
   ("all(feature=serialize,feature=std)", "modtls_serialize;");
   ("feature=serialize", "pubusetls_serialize::*;")].
Definition pair_eqb (a b : string * string) : bool := String.eqb (fst a) (fst b) && String.eqb (snd a) (snd b).
Definition site_ok (s : string * string * string * string) : bool :=
  let '(file, kind, cond, item) := s in
  String.eqb kind "cfg" &&
  (String.eqb cond "test"
   || (String.eqb cond "tls_parser_verif" && String.eqb file "tls_records_parser.rs" && String.eqb item "implTlsRecordsParser{")
   || (String.eqb file "lib.rs" && existsb (pair_eqb (cond, item)) lib_sites)).
Definition gate_site (s : string * string * string * string) : bool :=
  let '(file, kind, cond, item) := s in
  String.eqb file "lib.rs" && String.eqb kind "cfg" && String.eqb cond "all(feature=serialize,not(feature=std))" &&
  String.prefix "compile_error!(" item.
Fixpoint assoc_s {B} (k : string) (l : list (string * B)) : option B :=
  match l with [] => None | (a, b) :: t => if String.eqb a k then Some b else assoc_s k t end.
Definition list_eqb (a b : list string) : bool :=
  (Nat.eqb (length a) (length b)) && forallb (fun p => String.eqb (fst p) (snd p)) (combine a b).
Definition features_ok : bool :=
  match assoc_s "default" features, assoc_s "std" features, assoc_s "serialize" features with
  | Some d, Some s, Some z => list_eqb d ["std"] && list_eqb s ["phf/std"] && list_eqb z ["cookie-factory"]
  | _, _, _ => false
  end.
Definition config_ok : bool :=
  forallb site_ok cfg_sites && existsb gate_site cfg_sites &&
  existsb (String.eqb "forbid(unsafe_code)") crate_attrs && existsb (String.eqb "no_std") crate_attrs &&
  N.eqb unsafe_tokens 0 && features_ok.

Lemma pair_eqb_eq a b : pair_eqb a b = true -> a = b.
Proof.
  destruct a, b; unfold pair_eqb; cbn. intros H. apply andb_prop in H as [H1 H2].
  apply String.eqb_eq in H1, H2. subst. reflexivity.
Qed.

(* every conditional-compilation site is test-only, the verification hook, or one of the four crate-level
   items of lib.rs: no parser module contains code that depends on a cargo feature *)
Theorem no_feature_dependent_parser_code : config_ok = true ->
  forall file kind cond item, In (file, kind, cond, item) cfg_sites ->
    kind = "cfg" /\
    (cond = "test" \/
     (cond = "tls_parser_verif" /\ file = "tls_records_parser.rs" /\ item = "implTlsRecordsParser{") \/
     (file = "lib.rs" /\ In (cond, item) lib_sites)).
Proof.
  intros H file kind cond item Hin. unfold config_ok in H.
  repeat match goal with H : _ && _ = true |- _ => apply andb_prop in H as [H ?] end.
  rewrite forallb_forall in H. specialize (H _ Hin). cbn [site_ok] in H.
  apply andb_prop in H as [Hk Hc]. apply String.eqb_eq in Hk. split; [exact Hk|].
  apply orb_prop in Hc as [Hc|Hc]; [apply orb_prop in Hc as [Hc|Hc]|].
  - left. now apply String.eqb_eq.
  - right; left. apply andb_prop in Hc as [Hc Hc3]. apply andb_prop in Hc as [Hc1 Hc2].
    apply String.eqb_eq in Hc1, Hc2, Hc3. auto.
  - right; right. apply andb_prop in Hc as [Hc1 Hc2]. apply String.eqb_eq in Hc1. split; [exact Hc1|].
    apply existsb_exists in Hc2 as [x [Hx He]]. apply pair_eqb_eq in He. subst x. exact Hx.
Qed.

Theorem no_unsafe_code : config_ok = true ->
  unsafe_tokens = 0%N /\ In "forbid(unsafe_code)" crate_attrs /\ In "no_std" crate_attrs.
Proof.
  intros H. unfold config_ok in H.
  repeat match goal with H : _ && _ = true |- _ => apply andb_prop in H as [H ?] end.
  split; [|split].
  - now apply N.eqb_eq.
  - match goal with H : existsb (String.eqb "forbid(unsafe_code)") _ = true |- _ => apply existsb_exists in H as [x [Hx He]] end.
    apply String.eqb_eq in He. subst. exact Hx.
  - match goal with H : existsb (String.eqb "no_std") _ = true |- _ => apply existsb_exists in H as [x [Hx He]] end.
    apply String.eqb_eq in He. subst. exact Hx.
Qed.

Theorem serialize_without_std_gated : config_ok = true ->
  exists item, In ("lib.rs", "cfg", "all(feature=serialize,not(feature=std))", item) cfg_sites /\
               String.prefix "compile_error!(" item = true.
Proof.
  intros H. unfold config_ok in H.
  repeat match goal with H : _ && _ = true |- _ => apply andb_prop in H as [H ?] end.
  match goal with H : existsb gate_site _ = true |- _ => apply existsb_exists in H as [[[[f k] c] it] [Hx He]] end.
  cbn [gate_site] in He. repeat match goal with H : _ && _ = true |- _ => apply andb_prop in H as [H ?] end.
  repeat match goal with H : String.eqb _ _ = true |- _ => apply String.eqb_eq in H end. subst.
  exists it. split; assumption.
Qed.
