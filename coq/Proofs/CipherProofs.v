From Coq Require Import String NArith List Bool Lia.
From TlsModel Require Import CipherTypes CipherDump CipherTxt CipherSpec Iana2026 Ciphers FinMapLemmas.
Import ListNotations.
Open Scope N_scope.

(* the ten registry columns *)
Definition core (r : cipher_row) : cipher_row :=
  mkRow (c_id r) (c_name r) (c_kx r) (c_au r) (c_enc r) (c_mode r) (c_enc_size r) (c_mac r) (c_mac_size r) (c_prf r) 0 0 0.
Definition row_eqb (a b : cipher_row) : bool :=
  (c_id a =? c_id b) && String.eqb (c_name a) (c_name b) && TlsCipherKx_beq (c_kx a) (c_kx b) &&
  TlsCipherAu_beq (c_au a) (c_au b) && TlsCipherEnc_beq (c_enc a) (c_enc b) &&
  TlsCipherEncMode_beq (c_mode a) (c_mode b) && (c_enc_size a =? c_enc_size b) &&
  TlsCipherMac_beq (c_mac a) (c_mac b) && (c_mac_size a =? c_mac_size b) && TlsPRF_beq (c_prf a) (c_prf b) &&
  (c_impl_key_size a =? c_impl_key_size b) && (c_impl_block_size a =? c_impl_block_size b) &&
  (c_impl_mac_length a =? c_impl_mac_length b).
Lemma row_eqb_eq a b : row_eqb a b = true -> a = b.
Proof.
  destruct a, b; unfold row_eqb; cbn. intros H.
  repeat match goal with H : _ && _ = true |- _ => apply andb_prop in H as [H ?] end.
  repeat match goal with
         | H : (_ =? _) = true |- _ => apply N.eqb_eq in H
         | H : String.eqb _ _ = true |- _ => apply String.eqb_eq in H
         | H : TlsCipherKx_beq _ _ = true |- _ => apply internal_TlsCipherKx_dec_bl in H
         | H : TlsCipherAu_beq _ _ = true |- _ => apply internal_TlsCipherAu_dec_bl in H
         | H : TlsCipherEnc_beq _ _ = true |- _ => apply internal_TlsCipherEnc_dec_bl in H
         | H : TlsCipherEncMode_beq _ _ = true |- _ => apply internal_TlsCipherEncMode_dec_bl in H
         | H : TlsCipherMac_beq _ _ = true |- _ => apply internal_TlsCipherMac_dec_bl in H
         | H : TlsPRF_beq _ _ = true |- _ => apply internal_TlsPRF_dec_bl in H
         end.
  subst. reflexivity.
Qed.

Definition spec_rows : list cipher_row := match interp_all txt_rows with Some l => l | None => [] end.
Definition impl_core : list cipher_row := map core impl_rows.

(* obligations over the regenerated dump and text table *)
Definition exact_ok : bool :=
  match interp_all txt_rows with Some _ => true | None => false end &&
  subsetb row_eqb impl_core spec_rows && subsetb row_eqb spec_rows impl_core &&
  nodupN (map c_id impl_core) && nodupN (map c_id spec_rows).

Theorem exact : exact_ok = true ->
  forall id, lookup c_id id impl_core = lookup c_id id spec_rows.
Proof.
  intros H id. unfold exact_ok in H.
  repeat match goal with H : _ && _ = true |- _ => apply andb_prop in H as [H ?] end.
  apply (lookup_agree c_id row_eqb row_eqb_eq); auto using nodupN_NoDup.
Qed.

Lemma lookup_map_core id l : lookup c_id id (map core l) = option_map core (find_id id l).
Proof.
  unfold lookup, find_id. induction l as [|r t IH]; cbn; [reflexivity|].
  destruct (c_id r =? id); [reflexivity | exact IH].
Qed.

Definition iana_kept_ok : bool := subsetb row_eqb iana2026 impl_core.
Theorem iana_kept : iana_kept_ok = true -> forall r, In r iana2026 -> In r impl_core.
Proof. intros H. exact (subsetb_In row_eqb row_eqb_eq _ _ H). Qed.

(* the four lookup routes *)
Definition opt_id_is (o : option N) (id : N) : bool := match o with Some x => x =? id | None => false end.
Definition is_some {A} (o : option A) : bool := match o with Some _ => true | None => false end.
Definition route_entry_ok (rows : list cipher_row) (e : N * list (option N)) : bool :=
  (N.of_nat (length (snd e)) =? 4) && forallb (fun o => opt_id_is o (fst e)) (snd e) && is_some (find_id (fst e) rows).

Section Routes.
  Variables (rows : list cipher_row) (rts : list (N * list (option N))).
  Definition route_g (k : nat) (id : N) : option N :=
    match assoc_routes id rts with Some rs => nth k rs None | None => None end.
  Hypothesis H1 : forallb (route_entry_ok rows) rts = true.
  Hypothesis H2 : forallb (fun r => is_some (assoc_routes (c_id r) rts)) rows = true.

  Lemma assoc_routes_In id l rs : assoc_routes id l = Some rs -> In (id, rs) l.
  Proof.
    induction l as [|[k v] t IH]; cbn [assoc_routes]; [discriminate|].
    destruct (N.eqb_spec k id) as [E|]; [|intros H; right; auto].
    intros H. injection H as H. subst. left; reflexivity.
  Qed.

  Lemma routes_gen id k : (k < 4)%nat ->
    route_g k id = match find_id id rows with Some r => Some (c_id r) | None => None end.
  Proof.
    intros Hk. unfold route_g. destruct (assoc_routes id rts) as [rs|] eqn:E.
    - apply assoc_routes_In in E. rewrite forallb_forall in H1. specialize (H1 _ E).
      unfold route_entry_ok in H1. cbn [fst snd] in H1.
      apply andb_prop in H1 as [Ha Hc]. apply andb_prop in Ha as [Ha Hb].
      destruct (find_id id rows) as [r|] eqn:Er; [|discriminate].
      assert (c_id r = id) as -> by (unfold find_id in Er; apply find_some in Er as [_ Er]; now apply N.eqb_eq in Er).
      rewrite forallb_forall in Hb. apply N.eqb_eq in Ha.
      assert (Hl : (k < length rs)%nat) by lia.
      pose proof (nth_In rs None Hl) as Hin. specialize (Hb _ Hin).
      destruct (nth k rs None) as [x|]; cbn [opt_id_is] in Hb; [|discriminate]. apply N.eqb_eq in Hb. now subst.
    - destruct (find_id id rows) as [r|] eqn:Er; [|reflexivity].
      exfalso. rewrite forallb_forall in H2.
      unfold find_id in Er. apply find_some in Er as [Hin Hid]. apply N.eqb_eq in Hid.
      specialize (H2 _ Hin). cbv beta in H2. rewrite Hid, E in H2. discriminate.
  Qed.
End Routes.

Definition routes_ok : bool :=
  forallb (route_entry_ok impl_rows) impl_routes &&
  forallb (fun r => is_some (assoc_routes (c_id r) impl_routes)) impl_rows &&
  (N.of_nat (length impl_routes) + impl_all_none_count =? 65536) &&
  nodupN (map fst impl_routes) && forallb (fun e => fst e <? 65536) impl_routes &&
  (impl_len =? N.of_nat (length impl_rows)) && (N.of_nat (length impl_values_order) =? impl_len) &&
  nodupN impl_values_order &&
  forallb (fun id => is_some (find_id id impl_rows)) impl_values_order.

Theorem routes : routes_ok = true ->
  forall id k, (k < 4)%nat ->
    route k id = match from_id id with Some r => Some (c_id r) | None => None end /\
    (forall r, from_id id = Some r -> c_id r = id).
Proof.
  intros H id k Hk. unfold routes_ok in H.
  repeat match goal with H : _ && _ = true |- _ => apply andb_prop in H as [H ?] end.
  split.
  - apply (routes_gen impl_rows impl_routes); assumption.
  - intros r Hr. unfold from_id, find_id in Hr. apply find_some in Hr as [_ Hr]. now apply N.eqb_eq in Hr.
Qed.

(* names: unique, and from_name is exact for every string *)
Fixpoint nodup_str (l : list string) : bool :=
  match l with [] => true | x :: t => negb (existsb (String.eqb x) t) && nodup_str t end.
Lemma nodup_str_NoDup l : nodup_str l = true -> NoDup l.
Proof.
  induction l as [|x t IH]; cbn; [constructor|]. intros H. apply andb_prop in H as [H1 H2].
  constructor; [|auto]. intros Hin. apply negb_true_iff in H1.
  assert (existsb (String.eqb x) t = true) by (apply existsb_exists; exists x; split; [auto | apply String.eqb_refl]).
  congruence.
Qed.
Definition names_ok : bool := nodup_str (map c_name values).

Lemma find_name_iff (l : list cipher_row) s r :
  NoDup (map c_name l) ->
  (find (fun x => String.eqb (c_name x) s) l = Some r <-> In r l /\ c_name r = s).
Proof.
  intros Hnd. split.
  - intros H. apply find_some in H as [H1 H2]. apply String.eqb_eq in H2. auto.
  - intros [Hin Hs]. induction l as [|x t IH]; cbn in *; [tauto|].
    inversion Hnd as [|? ? Hx Hnd']; subst. destruct Hin as [->|Hin].
    + now rewrite String.eqb_refl.
    + destruct (String.eqb_spec (c_name x) (c_name r)) as [E|]; [|auto].
      exfalso. apply Hx. rewrite E. now apply in_map.
Qed.

Theorem names : names_ok = true ->
  NoDup (map c_name values) /\
  forall s r, from_name s = Some r <-> In r values /\ c_name r = s.
Proof.
  intros H. apply nodup_str_NoDup in H. split; [exact H|]. intros s r. now apply find_name_iff.
Qed.

(* sizes: the code's three functions satisfy the property's rules on every row, and the
   implementation computed the same numbers (dump columns) *)
Definition sizes_ok : bool :=
  forallb (fun r =>
    (enc_key_size r =? c_enc_size r / 8) && (enc_block_size r =? block_spec (c_enc r)) &&
    mac_len_ok r (mac_length r) &&
    (c_impl_key_size r =? enc_key_size r) && (c_impl_block_size r =? enc_block_size r) &&
    (c_impl_mac_length r =? mac_length r)) impl_rows.
Theorem sizes : sizes_ok = true -> forall r, In r impl_rows ->
  enc_key_size r = c_enc_size r / 8 /\ enc_block_size r = block_spec (c_enc r) /\
  mac_len_ok r (mac_length r) = true /\
  c_impl_key_size r = enc_key_size r /\ c_impl_block_size r = enc_block_size r /\ c_impl_mac_length r = mac_length r.
Proof.
  intros H r Hr. unfold sizes_ok in H. rewrite forallb_forall in H. specialize (H r Hr).
  repeat match goal with H : _ && _ = true |- _ => apply andb_prop in H as [H ?] end.
  repeat match goal with H : (_ =? _) = true |- _ => apply N.eqb_eq in H end. tauto.
Qed.

Definition name_tokens_ok : bool := forallb name_rules impl_rows.
Theorem name_tokens : name_tokens_ok = true -> forall r, In r impl_rows -> name_rules r = true.
Proof. intros H. unfold name_tokens_ok in H. now rewrite forallb_forall in H. Qed.

(* the finite obligations over the regenerated tables, discharged by the kernel's VM *)
Lemma exact_ok_true : exact_ok = true. Proof. vm_compute. reflexivity. Qed.
Lemma iana_kept_ok_true : iana_kept_ok = true. Proof. vm_compute. reflexivity. Qed.
Lemma routes_ok_true : routes_ok = true. Proof. vm_compute. reflexivity. Qed.
Lemma names_ok_true : names_ok = true. Proof. vm_compute. reflexivity. Qed.
Lemma sizes_ok_true : sizes_ok = true. Proof. vm_compute. reflexivity. Qed.
Lemma name_tokens_ok_true : name_tokens_ok = true. Proof. vm_compute. reflexivity. Qed.
