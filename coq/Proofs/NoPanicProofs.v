(* C01 (model side): the defragmenter never panics under any call sequence once the debug assertion is
   gone, and the element count of every repeated parser is bounded by the bytes it consumed. *)
From TlsModel Require Import Bytes Nom Values Handshake Record Defrag BytesLemmas NomGeneric RunLemmas SafeProofs.
From TlsModel Require Import Consts.
From Coq Require Import Lia ZArith ZifyBool ZifyN.

Definition dsafe (o : option dout) : Prop := match o with Some (_, r) => safe r | None => True end.

Lemma map_complete_safe {A} (r : res A) : safe r -> safe (map_complete r).
Proof. unfold map_complete. destruct (is_complete_err r); [intros _; exact I | auto]. Qed.

Lemma nocopy_safe s hdr data : safe (snd (snd (nocopy s hdr data))).
Proof.
  unfold nocopy. destruct (defrag_in_progress s); cbn [snd]; [exact I|].
  apply map_complete_safe, Safe_with_header.
Qed.

Lemma parse_record_safe s hdr data : safe (snd (snd (parse_record false s hdr data))).
Proof.
  unfold parse_record. destruct (d_cur s) as [cur|].
  - cbn [andb]. destruct (negb (h_type hdr =? cur)); [exact I|].
    destruct (MAX_RECORD_DATA <=? lenN (d_buf s) + lenN data); [exact I|]. cbv zeta.
    match goal with |- context [run ?p ?i] => pose proof (Safe_with_header (mkHdr (h_type hdr) (h_version hdr) (lenN (d_buf s ++ data) mod 65536)) i) as Hs;
      destruct (run p i) eqn:E end; cbn [snd]; try exact I; try (apply map_complete_safe; exact I); try exact Hs.
  - destruct ((h_type hdr =? 21) || (h_type hdr =? 20)); [apply nocopy_safe|]. cbv zeta.
    match goal with |- context [run ?p ?i] => pose proof (Safe_with_header hdr i) as Hs; destruct (run p i) eqn:E end;
      cbn [snd]; try exact I; try exact Hs;
      match goal with |- context [is_complete_err ?r] => destruct (is_complete_err r) end; cbn [snd]; exact I.
Qed.

Lemma step_safe s o : dsafe (snd (step false s o)).
Proof.
  destruct o as [hdr data|hdr data|]; cbn [step].
  - pose proof (parse_record_safe s hdr data) as H. destruct (parse_record false s hdr data) as [s' [reg r]]. exact H.
  - pose proof (nocopy_safe s hdr data) as H. destruct (nocopy s hdr data) as [s' [reg r]]. exact H.
  - exact I.
Qed.

Theorem defrag_never_panics : forall ops s, Forall (fun e => dsafe (fst e)) (run_ops false s ops).
Proof.
  induction ops as [|o ops IH]; intros s; cbn [run_ops]; [constructor|].
  pose proof (step_safe s o) as H. destruct (step false s o) as [s' r]. cbn [snd] in H.
  constructor; [exact H|]. destruct (is_panic r); [constructor | apply IH].
Qed.

(* repeated parsers: the number of elements is at most the number of bytes consumed *)
Section Count.
  Context {A : Type} (f : slice -> res A).
  Hypothesis Hsuf : forall i r a, f i = Ok r a -> suffix_of i r.
  Lemma many0_loop_count fuel : forall i r l, many0_loop f fuel i = Ok r l -> lenN l + slen r <= slen i.
  Proof.
    induction fuel as [|c fuel IH]; intros i r l; cbn [many0_loop];
      destruct (f i) as [r1 a| | | | |] eqn:E; try discriminate;
      try (intros H; injection H as <- <-; cbn [lenN]; lia).
    - destruct (slen r1 =? slen i); discriminate.
    - destruct (N.eqb_spec (slen r1) (slen i)) as [|Hne]; [discriminate|].
      destruct (many0_loop f fuel r1) as [r2 l2| | | | |] eqn:E2; try discriminate.
      intros H; injection H as <- <-. specialize (IH _ _ _ E2). apply Hsuf, suffix_len in E. cbn [lenN]. lia.
  Qed.
  Lemma many1_loop_count fuel : forall i r l, many1_loop f fuel i = Ok r l -> lenN l + slen r <= slen i.
  Proof.
    induction fuel as [|c fuel IH]; intros i r l; cbn [many1_loop];
      destruct (f i) as [r1 a| | | | |] eqn:E; try discriminate;
      try (intros H; injection H as <- <-; cbn [lenN]; lia).
    - destruct (slen r1 =? slen i); discriminate.
    - destruct (N.eqb_spec (slen r1) (slen i)) as [|Hne]; [discriminate|].
      destruct (many1_loop f fuel r1) as [r2 l2| | | | |] eqn:E2; try discriminate.
      intros H; injection H as <- <-. specialize (IH _ _ _ E2). apply Hsuf, suffix_len in E. cbn [lenN]. lia.
  Qed.
End Count.
Theorem many0_count A (p : P A) i r l : run (Many0 p) i = Ok r l -> lenN l + slen r <= slen i.
Proof. cbn [run]. unfold many0_run. apply many0_loop_count. intros j r' a. apply run_suffix. Qed.
Theorem many1_count A (p : P A) i r l : run (Many1 p) i = Ok r l -> lenN l + slen r <= slen i + 1.
Proof.
  cbn [run]. unfold many1_run. destruct (run p i) as [r1 a| | | | |] eqn:E; try discriminate.
  destruct (many1_loop _ (bytes i) r1) as [r2 l2| | | | |] eqn:E2; try discriminate.
  intros H; injection H as <- <-. apply run_suffix, suffix_len in E.
  apply many1_loop_count in E2; [|intros j r' a'; apply run_suffix]. cbn [lenN]. lia.
Qed.
