(* C01 (model side): every public parsing entry point, listed by the name of the Rust function, is Safe:
   on no input does its model reach Panic (a Rust panic site: slice index, expect, arithmetic overflow
   modelled as PanicP/Idx) or OutOfFuel (a loop that does not terminate within its input).
   tools/check compares the names listed here with the `pub fn parse*` of the current source. *)
From Coq Require Import String.
From TlsModel Require Import Bytes Nom Values DispatchTypes Handshake Record Extensions Kx Dtls
  BytesLemmas NomGeneric RunLemmas SafeProofs.
Open Scope string_scope.

Inductive pentry := PE : forall A, P A -> pentry.
Definition safe_entry (e : pentry) : Prop := match e with PE _ p => Safe p end.

Definition public_parsers : list (string * pentry) := [
  ("parse_tls_record_header", PE _ parse_tls_record_header);
  ("parse_tls_plaintext", PE _ parse_tls_plaintext);
  ("parse_tls_encrypted", PE _ parse_tls_encrypted);
  ("parse_tls_raw_record", PE _ parse_tls_raw_record);
  ("tls_parser", PE _ tls_parser);
  ("tls_parser_many", PE _ tls_parser_many);
  ("parse_tls_message_changecipherspec", PE _ parse_tls_message_changecipherspec);
  ("parse_tls_message_alert", PE _ parse_tls_message_alert);
  ("parse_tls_message_applicationdata", PE _ parse_tls_message_applicationdata);
  ("parse_tls_message_handshake", PE _ parse_tls_message_handshake);
  ("parse_tls_handshake_client_hello", PE _ parse_tls_handshake_client_hello);
  ("parse_tls_handshake_server_hello", PE _ parse_tls_handshake_server_hello);
  ("parse_tls_handshake_certificaterequest", PE _ parse_tls_handshake_certificaterequest);
  ("parse_tls_handshake_certificatestatus", PE _ parse_tls_handshake_certificatestatus);
  ("parse_tls_handshake_next_protocol", PE _ parse_tls_handshake_next_protocol);
  ("parse_tls_handshake_msg_hello_request", PE _ parse_tls_handshake_msg_hello_request);
  ("parse_tls_handshake_msg_client_hello", PE _ parse_tls_handshake_msg_client_hello);
  ("parse_tls_handshake_msg_server_hello", PE _ parse_tls_handshake_msg_server_hello);
  ("parse_tls_handshake_msg_hello_retry_request", PE _ parse_tls_handshake_msg_hello_retry_request);
  ("parse_tls_handshake_msg_certificate", PE _ parse_tls_handshake_msg_certificate);
  ("parse_tls_handshake_msg_certificaterequest", PE _ parse_tls_handshake_msg_certificaterequest);
  ("parse_tls_handshake_msg_certificatestatus", PE _ parse_tls_handshake_msg_certificatestatus);
  ("parse_tls_handshake_msg_next_protocol", PE _ parse_tls_handshake_msg_next_protocol);
  ("parse_tls_handshake_msg_key_update", PE _ parse_tls_handshake_msg_key_update);
  ("parse_tls_extension", PE _ parse_tls_extension);
  ("parse_tls_client_hello_extension", PE _ parse_tls_client_hello_extension);
  ("parse_tls_server_hello_extension", PE _ parse_tls_server_hello_extension);
  ("parse_tls_extensions", PE _ parse_tls_extensions);
  ("parse_tls_client_hello_extensions", PE _ parse_tls_client_hello_extensions);
  ("parse_tls_server_hello_extensions", PE _ parse_tls_server_hello_extensions);
  ("parse_tls_extension_unknown", PE _ parse_tls_extension_unknown);
  ("parse_tls_extension_sni_hostname", PE _ parse_tls_extension_sni_hostname);
  ("parse_tls_extension_sni_content", PE _ parse_tls_extension_sni_content);
  ("parse_tls_extension_max_fragment_length_content", PE _ parse_tls_extension_max_fragment_length_content);
  ("parse_tls_extension_elliptic_curves_content", PE _ parse_tls_extension_elliptic_curves_content);
  ("parse_tls_extension_ec_point_formats_content", PE _ parse_tls_extension_ec_point_formats_content);
  ("parse_tls_extension_signature_algorithms_content", PE _ parse_tls_extension_signature_algorithms_content);
  ("parse_tls_extension_heartbeat_content", PE _ parse_tls_extension_heartbeat_content);
  ("parse_tls_extension_alpn_content", PE _ parse_tls_extension_alpn_content);
  ("parse_tls_extension_signed_certificate_timestamp_content", PE _ parse_tls_extension_signed_certificate_timestamp_content);
  ("parse_tls_extension_psk_key_exchange_modes_content", PE _ parse_tls_extension_psk_key_exchange_modes_content);
  ("parse_tls_extension_renegotiation_info_content", PE _ parse_tls_extension_renegotiation_info_content);
  ("parse_tls_extension_encrypted_server_name", PE _ parse_tls_extension_encrypted_server_name);
  ("parse_tls_extension_sni", PE _ parse_tls_extension_sni);
  ("parse_tls_extension_max_fragment_length", PE _ parse_tls_extension_max_fragment_length);
  ("parse_tls_extension_status_request", PE _ parse_tls_extension_status_request);
  ("parse_tls_extension_elliptic_curves", PE _ parse_tls_extension_elliptic_curves);
  ("parse_tls_extension_ec_point_formats", PE _ parse_tls_extension_ec_point_formats);
  ("parse_tls_extension_signature_algorithms", PE _ parse_tls_extension_signature_algorithms);
  ("parse_tls_extension_heartbeat", PE _ parse_tls_extension_heartbeat);
  ("parse_tls_extension_encrypt_then_mac", PE _ parse_tls_extension_encrypt_then_mac);
  ("parse_tls_extension_extended_master_secret", PE _ parse_tls_extension_extended_master_secret);
  ("parse_tls_extension_session_ticket", PE _ parse_tls_extension_session_ticket);
  ("parse_tls_extension_key_share", PE _ parse_tls_extension_key_share);
  ("parse_tls_extension_pre_shared_key", PE _ parse_tls_extension_pre_shared_key);
  ("parse_tls_extension_early_data", PE _ parse_tls_extension_early_data);
  ("parse_tls_extension_supported_versions", PE _ parse_tls_extension_supported_versions);
  ("parse_tls_extension_cookie", PE _ parse_tls_extension_cookie);
  ("parse_tls_extension_psk_key_exchange_modes", PE _ parse_tls_extension_psk_key_exchange_modes);
  ("parse_named_groups", PE _ parse_named_groups);
  ("parse_dh_params", PE _ parse_dh_params);
  ("parse_ec_parameters", PE _ parse_ec_parameters);
  ("parse_ecdh_params", PE _ parse_ecdh_params);
  ("parse_digitally_signed_old", PE _ parse_digitally_signed_old);
  ("parse_digitally_signed", PE _ parse_digitally_signed);
  ("parse_ct_signed_certificate_timestamp", PE _ parse_ct_signed_certificate_timestamp);
  ("parse_ct_signed_certificate_timestamp_list", PE _ parse_ct_signed_certificate_timestamp_list);
  ("ECPoint::parse", PE _ parse_ec_point);
  ("ECCurve::parse", PE _ parse_ec_curve);
  ("ExplicitPrimeContent::parse", PE _ parse_explicit_prime);
  ("parse_dtls_record_header", PE _ parse_dtls_record_header);
  ("parse_dtls_message_handshake", PE _ parse_dtls_message_handshake);
  ("parse_dtls_message_changecipherspec", PE _ parse_dtls_message_changecipherspec);
  ("parse_dtls_message_alert", PE _ parse_dtls_message_alert);
  ("parse_dtls_plaintext_record", PE _ parse_dtls_plaintext_record);
  ("parse_dtls_plaintext_records", PE _ parse_dtls_plaintext_records)].
(* entry points with a length / selector argument: for every value of the argument *)
Definition public_parsers_arg : list (string * (N -> pentry)) := [
  ("parse_tls_message_heartbeat", fun n => PE _ (parse_tls_message_heartbeat n));
  ("parse_tls_handshake_msg_newsessionticket", fun n => PE _ (parse_tls_handshake_msg_newsessionticket n));
  ("parse_tls_handshake_msg_serverkeyexchange", fun n => PE _ (parse_tls_handshake_msg_serverkeyexchange n));
  ("parse_tls_handshake_msg_serverdone", fun n => PE _ (parse_tls_handshake_msg_serverdone n));
  ("parse_tls_handshake_msg_certificateverify", fun n => PE _ (parse_tls_handshake_msg_certificateverify n));
  ("parse_tls_handshake_msg_clientkeyexchange", fun n => PE _ (parse_tls_handshake_msg_clientkeyexchange n));
  ("parse_tls_handshake_msg_finished", fun n => PE _ (parse_tls_handshake_msg_finished n));
  ("ECParametersContent::parse", fun n => PE _ (parse_ec_parameters_content n))].

Theorem public_parsers_safe : Forall (fun e => safe_entry (snd e)) public_parsers.
Proof.
  unfold public_parsers.
  constructor; [exact Safe_header|].
  constructor; [exact Safe_plaintext|].
  constructor; [exact Safe_encrypted|].
  constructor; [exact Safe_raw|].
  constructor; [exact Safe_plaintext|].
  constructor; [exact Safe_many|].
  constructor; [exact Safe_ccs|].
  constructor; [exact Safe_alert|].
  constructor; [exact Safe_appdata|].
  constructor; [exact Safe_message_handshake|].
  constructor; [exact Safe_client_hello|].
  constructor; [exact Safe_server_hello|].
  constructor; [exact Safe_cr|].
  constructor; [exact Safe_cstatus|].
  constructor; [exact Safe_np|].
  constructor; [exact Safe_hreq|].
  constructor; [exact Safe_msg_client_hello|].
  constructor; [exact Safe_msg_server_hello|].
  constructor; [exact Safe_hrr|].
  constructor; [exact Safe_msg_certificate|].
  constructor; [exact Safe_msg_cr|].
  constructor; [exact Safe_msg_cstatus|].
  constructor; [exact Safe_msg_np|].
  constructor; [exact Safe_ku|].
  constructor; [exact Safe_ext|].
  constructor; [exact Safe_ch_ext|].
  constructor; [exact Safe_sh_ext|].
  constructor; [exact Safe_exts|].
  constructor; [exact Safe_ch_exts|].
  constructor; [exact Safe_sh_exts|].
  constructor; [exact Safe_ext_unknown|].
  constructor; [exact Safe_sni_hostname|].
  constructor; [exact Safe_sni_content|].
  constructor; [exact Safe_mfl_content|].
  constructor; [exact Safe_ec_content|].
  constructor; [exact Safe_ecpf_content|].
  constructor; [exact Safe_sigalg_content|].
  constructor; [exact Safe_hb_content|].
  constructor; [exact Safe_alpn_content|].
  constructor; [exact Safe_sct_content|].
  constructor; [exact Safe_pskm_content|].
  constructor; [exact Safe_reneg_content|].
  constructor; [exact Safe_esni|].
  constructor; [exact Safe_x_sni|].
  constructor; [exact Safe_x_mfl|].
  constructor; [exact Safe_x_status|].
  constructor; [exact Safe_x_ec|].
  constructor; [exact Safe_x_ecpf|].
  constructor; [exact Safe_x_sigalg|].
  constructor; [exact Safe_x_hb|].
  constructor; [exact Safe_x_etm|].
  constructor; [exact Safe_x_ems|].
  constructor; [exact Safe_x_ticket|].
  constructor; [exact Safe_x_ks|].
  constructor; [exact Safe_x_psk|].
  constructor; [exact Safe_x_ed|].
  constructor; [exact Safe_x_sv|].
  constructor; [exact Safe_x_cookie|].
  constructor; [exact Safe_x_pskm|].
  constructor; [exact Safe_named_groups|].
  constructor; [exact Safe_dh|].
  constructor; [exact Safe_ec_parameters|].
  constructor; [exact Safe_ecdh|].
  constructor; [exact Safe_ds_old|].
  constructor; [exact Safe_ds|].
  constructor; [exact Safe_sct|].
  constructor; [exact Safe_sct_list|].
  constructor; [exact Safe_ec_point|].
  constructor; [exact Safe_ec_curve|].
  constructor; [exact Safe_explicit_prime|].
  constructor; [exact Safe_dhdr|].
  constructor; [exact Safe_dmsg_hs|].
  constructor; [exact Safe_dccs|].
  constructor; [exact Safe_dalert|].
  constructor; [exact Safe_dplain|].
  constructor; [exact Safe_dplains|].
  constructor.
Qed.
Theorem public_parsers_arg_safe : Forall (fun e => forall n, safe_entry (snd e n)) public_parsers_arg.
Proof.
  unfold public_parsers_arg.
  constructor; [exact Safe_heartbeat|].
  constructor; [exact Safe_nst|].
  constructor; [exact Safe_ske|].
  constructor; [exact Safe_sdone|].
  constructor; [exact Safe_cverify|].
  constructor; [exact Safe_cke|].
  constructor; [exact Safe_finished|].
  constructor; [exact Safe_ecpc|].
  constructor.
Qed.
(* the remaining signatures: a record header argument, a content parser argument *)
Theorem with_header_safe : forall hdr, Safe (parse_tls_record_with_header hdr).
Proof. exact Safe_with_header. Qed.
Theorem dtls_with_header_safe : forall hdr, Safe (parse_dtls_record_with_header hdr).
Proof. exact Safe_dwith_header. Qed.
Theorem content_and_signature_safe : forall T (f : P T) ext, Safe f -> Safe (parse_content_and_signature f ext).
Proof. exact Safe_content_and_signature. Qed.
