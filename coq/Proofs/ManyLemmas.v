(* Generic round-trip lemmas for many0/many1 over complete(p): a concatenation of encodings
   followed by a tail on which p stops decodes to exactly the encoded values, in order. *)
From TlsModel Require Import Bytes Nom BytesLemmas NomGeneric RunLemmas.
From Coq Require Import Lia ZArith ZifyBool ZifyN.
Ltac Zify.zify_post_hook ::= Z.div_mod_to_equations.

Lemma run_many1 A (q : P A) i : run (Many1 q) i = many1_run (fun j => run q j) i.
Proof. reflexivity. Qed.
Lemma run_many0 A (q : P A) i : run (Many0 q) i = many0_run (fun j => run q j) i.
Proof. reflexivity. Qed.

Section RT.
  Context {A B : Type} (p : P A) (enc : B -> list byte) (wf : B -> Prop) (eqv : A -> B -> Prop).
  (* p decodes one encoded value and leaves what follows *)
  Definition roundtrips : Prop :=
    forall v rest o, wf v ->
      exists v', run p (mkS o (enc v ++ rest)) = Ok (mkS (o + lenN (enc v)) rest) v' /\ eqv v' v.
  Definition nonempty_enc : Prop := forall v, wf v -> 1 <= lenN (enc v).
  (* p does not produce a value on i: Error or Incomplete *)
  Definition stops (i : slice) : Prop :=
    match run p i with Err _ _ | Incomplete _ => True | _ => False end.

  Hypothesis Hrt : roundtrips.
  Hypothesis Hne : nonempty_enc.

  Lemma run_cmpl_ok i r a : run p i = Ok r a -> run (Cmpl p) i = Ok r a.
  Proof. intros E; cbn [run]; rewrite E; reflexivity. Qed.

  Lemma cmpl_stops i : stops i -> exists s k, run (Cmpl p) i = Err s k.
  Proof. unfold stops; cbn [run]. destruct (run p i); try tauto; eauto. Qed.

  Definition encs (vs : list B) : list byte := concat (map enc vs).

  Lemma loop1_rt : forall vs fuel o tail,
    (forall v, In v vs -> wf v) ->
    lenN (encs vs ++ tail) <= lenN fuel ->
    stops (mkS (o + lenN (encs vs)) tail) ->
    exists vs', many1_loop (fun j => run (Cmpl p) j) fuel (mkS o (encs vs ++ tail)) =
                  Ok (mkS (o + lenN (encs vs)) tail) vs' /\ Forall2 eqv vs' vs.
  Proof.
    induction vs as [|v vs IH]; intros fuel o tail Hwf Hf Hs.
    - unfold encs in *; cbn [map concat app lenN] in *. rewrite N.add_0_r in *.
      destruct (cmpl_stops _ Hs) as [s [k E]].
      exists []. split; [|constructor]. destruct fuel; cbn [many1_loop]; rewrite E; reflexivity.
    - unfold encs in *; cbn [map concat] in *. rewrite <- app_assoc in *.
      assert (Hv : wf v) by (apply Hwf; left; reflexivity).
      destruct (Hrt v (concat (map enc vs) ++ tail) o Hv) as [v' [E Hev]].
      pose proof (Hne v Hv) as Hl.
      rewrite !lenN_app in Hf.
      destruct fuel as [|c fuel]; [cbn [lenN] in Hf; lia|].
      assert (Hneq : (lenN (concat (map enc vs) ++ tail) =? lenN (enc v ++ concat (map enc vs) ++ tail)) = false)
        by (apply N.eqb_neq; rewrite !lenN_app; lia).
      cbn [many1_loop]. cbv beta. rewrite (run_cmpl_ok _ _ _ E).
      unfold slen; cbn [bytes]. rewrite Hneq.
      destruct (IH fuel (o + lenN (enc v)) tail) as [vs' [E' HF]].
      + intros x Hx. apply Hwf. right; exact Hx.
      + rewrite lenN_app. cbn [lenN] in Hf. lia.
      + rewrite lenN_app in Hs. replace (o + lenN (enc v) + lenN (concat (map enc vs)))
          with (o + (lenN (enc v) + lenN (concat (map enc vs)))) by lia. exact Hs.
      + rewrite E'. exists (v' :: vs'). split; [|constructor; assumption].
        rewrite lenN_app. do 2 f_equal. lia.
  Qed.

  Lemma loop0_rt : forall vs fuel o tail,
    (forall v, In v vs -> wf v) ->
    lenN (encs vs ++ tail) <= lenN fuel ->
    stops (mkS (o + lenN (encs vs)) tail) ->
    exists vs', many0_loop (fun j => run (Cmpl p) j) fuel (mkS o (encs vs ++ tail)) =
                  Ok (mkS (o + lenN (encs vs)) tail) vs' /\ Forall2 eqv vs' vs.
  Proof.
    induction vs as [|v vs IH]; intros fuel o tail Hwf Hf Hs.
    - unfold encs in *; cbn [map concat app lenN] in *. rewrite N.add_0_r in *.
      destruct (cmpl_stops _ Hs) as [s [k E]].
      exists []. split; [|constructor]. destruct fuel; cbn [many0_loop]; rewrite E; reflexivity.
    - unfold encs in *; cbn [map concat] in *. rewrite <- app_assoc in *.
      assert (Hv : wf v) by (apply Hwf; left; reflexivity).
      destruct (Hrt v (concat (map enc vs) ++ tail) o Hv) as [v' [E Hev]].
      pose proof (Hne v Hv) as Hl.
      rewrite !lenN_app in Hf.
      destruct fuel as [|c fuel]; [cbn [lenN] in Hf; lia|].
      assert (Hneq : (lenN (concat (map enc vs) ++ tail) =? lenN (enc v ++ concat (map enc vs) ++ tail)) = false)
        by (apply N.eqb_neq; rewrite !lenN_app; lia).
      cbn [many0_loop]. cbv beta. rewrite (run_cmpl_ok _ _ _ E).
      unfold slen; cbn [bytes]. rewrite Hneq.
      destruct (IH fuel (o + lenN (enc v)) tail) as [vs' [E' HF]].
      + intros x Hx. apply Hwf. right; exact Hx.
      + rewrite lenN_app. cbn [lenN] in Hf. lia.
      + rewrite lenN_app in Hs. replace (o + lenN (enc v) + lenN (concat (map enc vs)))
          with (o + (lenN (enc v) + lenN (concat (map enc vs)))) by lia. exact Hs.
      + rewrite E'. exists (v' :: vs'). split; [|constructor; assumption].
        rewrite lenN_app. do 2 f_equal. lia.
  Qed.

  Theorem many0_cmpl_rt vs o tail :
    (forall v, In v vs -> wf v) ->
    stops (mkS (o + lenN (encs vs)) tail) ->
    exists vs', run (Many0 (Cmpl p)) (mkS o (encs vs ++ tail)) =
                  Ok (mkS (o + lenN (encs vs)) tail) vs' /\ Forall2 eqv vs' vs.
  Proof.
    intros Hwf Hs. rewrite run_many0. unfold many0_run. cbn [bytes].
    apply loop0_rt; auto. lia.
  Qed.

  Theorem many1_cmpl_rt v vs o tail :
    (forall x, In x (v :: vs) -> wf x) ->
    stops (mkS (o + lenN (encs (v :: vs))) tail) ->
    exists vs', run (Many1 (Cmpl p)) (mkS o (encs (v :: vs) ++ tail)) =
                  Ok (mkS (o + lenN (encs (v :: vs))) tail) vs' /\ Forall2 eqv vs' (v :: vs).
  Proof.
    intros Hwf Hs. rewrite run_many1. unfold many1_run.
    unfold encs in *; cbn [map concat] in *. rewrite <- app_assoc.
    assert (Hv : wf v) by (apply Hwf; left; reflexivity).
    destruct (Hrt v (concat (map enc vs) ++ tail) o Hv) as [v' [E Hev]].
    cbv beta. rewrite (run_cmpl_ok _ _ _ E). cbn [bytes].
    destruct (loop1_rt vs (enc v ++ concat (map enc vs) ++ tail) (o + lenN (enc v)) tail) as [vs' [E' HF]].
    - intros x Hx. apply Hwf. right; exact Hx.
    - unfold encs. rewrite !lenN_app. lia.
    - unfold encs. rewrite lenN_app in Hs.
      replace (o + lenN (enc v) + lenN (concat (map enc vs))) with (o + (lenN (enc v) + lenN (concat (map enc vs)))) by lia.
      exact Hs.
    - unfold encs in E'. rewrite E'. exists (v' :: vs'). split; [|constructor; assumption].
      rewrite lenN_app. do 2 f_equal. lia.
  Qed.
End RT.

Lemma stops_beu_nil_gen A k (f : N -> P A) o : (0 < k)%nat -> stops (Bind (BeU k) f) (mkS o []).
Proof.
  intros Hk. unfold stops. rewrite run_bind, run_beu. unfold slen; cbn [bytes lenN].
  destruct (N.leb_spec (N.of_nat k) 0); [lia | exact I].
Qed.
Lemma stops_beu_nil_plain k o : (0 < k)%nat -> stops (BeU k) (mkS o []).
Proof.
  intros Hk. unfold stops. rewrite run_beu. unfold slen; cbn [bytes lenN].
  destruct (N.leb_spec (N.of_nat k) 0); [lia | exact I].
Qed.

Lemma stops_bind_l A B (p : P A) (k : A -> P B) i : stops p i -> stops (Bind p k) i.
Proof. unfold stops. rewrite run_bind. destruct (run p i); tauto. Qed.
