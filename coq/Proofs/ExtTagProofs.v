(* C05: the type tag derived from a decoded variant; the single-purpose extension parsers. *)
From Coq Require Import String.
From TlsModel Require Import Bytes Nom Values DispatchTypes Dispatch Handshake Extensions NtTypes ConstTables ExtTypeOf ExtTag
  Wire ExtEnc BytesLemmas NomGeneric RunLemmas RtTactics ExtProofs.
From Coq Require Import Lia ZArith ZifyBool ZifyN.
Open Scope N_scope.

(* every typed variant maps to its IANA type; Unknown to the type it carries; Grease to the single tag 0xfafa *)
Theorem ext_tag_typed e : typed e -> ext_type_of e = Some (iana_type e).
Proof. destruct e; cbn [typed]; intros H; try contradiction; vm_compute; reflexivity. Qed.
Theorem ext_tag_unknown t s : ext_type_of (EUnknown t s) = Some t.
Proof. vm_compute. reflexivity. Qed.
Theorem ext_tag_grease t s : ext_type_of (EGrease t s) = Some 64250.
Proof. vm_compute. reflexivity. Qed.

(* ---- tag([hi,lo]): accepts exactly its own type ---- *)
Lemma tag_cmp_neq : forall t a rest, lenN a = lenN t -> a <> t -> tag_cmp t (a ++ rest) = Some false.
Proof.
  induction t as [|x t IH]; intros a rest Hl Hne.
  - destruct a; [congruence | cbn [lenN] in Hl; lia].
  - destruct a as [|y a]; [cbn [lenN] in Hl; lia|]. cbn [tag_cmp app].
    destruct (Byte.eqb x y) eqn:E; [|reflexivity].
    apply Byte.byte_dec_bl in E. subst y. apply IH.
    + cbn [lenN] in Hl. lia.
    + intros ->. apply Hne. reflexivity.
Qed.
Lemma u16_inj a b : a < 65536 -> b < 65536 -> u16 a = u16 b -> a = b.
Proof.
  intros Ha Hb H. unfold u16 in H. apply (f_equal be_val) in H.
  rewrite !be_val_enc in H by (cbn; lia). exact H.
Qed.
Theorem tagged_rejects_other_type A (p : P A) t t' rest o : t < 65536 -> t' < 65536 -> t' <> t ->
  run (tagged t p) (mkS o (u16 t' ++ rest)) = Err (mkS o (u16 t' ++ rest)) KTag.
Proof.
  intros Ht Ht' Hne. unfold tagged. rewrite run_bind. cbn [run bytes].
  rewrite tag_cmp_neq; [reflexivity | unfold u16; rewrite !lenN_be_enc; reflexivity |].
  intros H. apply u16_inj in H; auto.
Qed.
Lemma tag_cmp_refl : forall t rest, tag_cmp t (t ++ rest) = Some true.
Proof.
  induction t as [|x t IH]; intros rest; cbn [tag_cmp app]; [reflexivity|].
  destruct (Byte.eqb x x) eqn:E; [apply IH|]. exfalso. assert (Byte.eqb x x = true) by (apply Byte.byte_dec_lb; reflexivity). congruence.
Qed.
Lemma run_tagged_own A (p : P A) t rest o : run (tagged t p) (mkS o (u16 t ++ rest)) = run p (mkS (o + 2) rest).
Proof.
  unfold tagged. rewrite run_bind. cbn [run bytes]. rewrite tag_cmp_refl.
  unfold sdrop; cbn [off bytes]. unfold u16. rewrite lenN_be_enc. rewrite dropN_app_len by (rewrite lenN_be_enc; reflexivity).
  reflexivity.
Qed.

(* ---- after its own type, a single-purpose parser is the generic dispatcher's arm ---- *)
Section Agree.
  Variables (tbl : list (N * ext_content_id)) (t : N) (c : ext_content_id).
  Hypothesis Ht : t < 65536.
  Hypothesis Hg : grease_test t = false.
  Hypothesis Hc : assoc_N t tbl = Some c.

  Lemma dispatch_own rest o :
    run (dispatch_ext tbl) (mkS o (u16 t ++ rest)) =
      run (let* ext_data := length_data be_u16 in On ext_data (ext_content c (slen ext_data mod 65536))) (mkS (o + 2) rest).
  Proof.
    unfold dispatch_ext. rewrite run_bind, run_u16_enc by exact Ht. rewrite !run_bind.
    destruct (run (length_data be_u16) (mkS (o + 2) rest)) as [r d| | | | |]; try reflexivity.
    rewrite Hg, Hc. reflexivity.
  Qed.

  (* framing [u16 len; take len] and a content parser that may use len *)
  Theorem with_len_agrees f rest o : (forall n, ext_content c n = f n) ->
    run (tagged t (with_len f)) (mkS o (u16 t ++ rest)) = run (dispatch_ext tbl) (mkS o (u16 t ++ rest)).
  Proof.
    intros Hf. rewrite run_tagged_own, dispatch_own. unfold with_len, map_parser, length_data, be_u16.
    rewrite !run_bind. rewrite run_beu.
    destruct (N.leb_spec (N.of_nat 2) (slen (mkS (o + 2) rest))) as [H2|H2]; [|reflexivity].
    set (len := be_val (takeN (bytes (mkS (o + 2) rest)) (N.of_nat 2))).
    assert (Hlen : len < 65536).
    { unfold len. pose proof (be_val_bound (takeN (bytes (mkS (o + 2) rest)) (N.of_nat 2))) as Hb.
      rewrite lenN_takeN in Hb by (unfold slen in H2; exact H2). exact Hb. }
    rewrite !run_bind, run_take.
    destruct (N.leb_spec len (slen (sdrop (mkS (o + 2) rest) (N.of_nat 2)))) as [Hl|Hl]; [|reflexivity].
    match goal with |- context [slen ?s mod 65536] => assert (Hs : slen s = len) end.
    { unfold slen at 1; cbn [bytes]. apply lenN_takeN. unfold slen in Hl. exact Hl. }
    rewrite Hs, N.mod_small by exact Hlen. rewrite Hf. reflexivity.
  Qed.
  (* framing length_data(be_u16) and a content parser that ignores the length *)
  Theorem length_data_agrees p rest o : (forall n, ext_content c n = p) ->
    run (tagged t (map_parser (length_data be_u16) p)) (mkS o (u16 t ++ rest)) = run (dispatch_ext tbl) (mkS o (u16 t ++ rest)).
  Proof.
    intros Hp. rewrite run_tagged_own, dispatch_own. unfold map_parser. rewrite !run_bind.
    destruct (run (length_data be_u16) (mkS (o + 2) rest)) as [r d| | | | |]; try reflexivity.
    rewrite Hp. reflexivity.
  Qed.
End Agree.

Section Instances.
  Hypothesis Hgen : generic_ok = true.
  Hypothesis Hgr : grease_ok = true.
  Hypothesis Htags : tags_ok = true.

  Lemma tags_values :
    tag_sni = 0 /\ tag_max_fragment_length = 1 /\ tag_status_request = 5 /\ tag_elliptic_curves = 10 /\
    tag_ec_point_formats = 11 /\ tag_signature_algorithms = 13 /\ tag_heartbeat = 15 /\ tag_encrypt_then_mac = 22 /\
    tag_extended_master_secret = 23 /\ tag_session_ticket = 35 /\ tag_key_share = 51 /\ tag_pre_shared_key = 41 /\
    tag_early_data = 42 /\ tag_supported_versions = 43 /\ tag_cookie = 44 /\ tag_psk_key_exchange_modes = 45.
  Proof.
    pose proof Htags as H. unfold tags_ok in H.
    repeat match goal with H : _ && _ = true |- _ => apply andb_prop in H as [H ?] end.
    repeat match goal with H : (_ =? _) = true |- _ => apply N.eqb_eq in H end.
    repeat split; assumption.
  Qed.

  Definition own_types : list (N * P TlsExtension) :=
    [(0, parse_tls_extension_sni); (1, parse_tls_extension_max_fragment_length); (5, parse_tls_extension_status_request);
     (10, parse_tls_extension_elliptic_curves); (11, parse_tls_extension_ec_point_formats);
     (13, parse_tls_extension_signature_algorithms); (15, parse_tls_extension_heartbeat);
     (22, parse_tls_extension_encrypt_then_mac); (23, parse_tls_extension_extended_master_secret);
     (35, parse_tls_extension_session_ticket); (51, parse_tls_extension_key_share); (41, parse_tls_extension_pre_shared_key);
     (42, parse_tls_extension_early_data); (43, parse_tls_extension_supported_versions); (44, parse_tls_extension_cookie);
     (45, parse_tls_extension_psk_key_exchange_modes)].

  (* each of the 16 accepts exactly its own IANA type *)
  Theorem single_purpose_reject_other_types :
    Forall (fun e => forall t' rest o, t' < 65536 -> t' <> fst e ->
              run (snd e) (mkS o (u16 t' ++ rest)) = Err (mkS o (u16 t' ++ rest)) KTag) own_types.
  Proof.
    destruct tags_values as [T1 [T2 [T3 [T4 [T5 [T6 [T7 [T8 [T9 [T10 [T11 [T12 [T13 [T14 [T15 T16]]]]]]]]]]]]]]].
    unfold own_types.
    repeat (constructor; [cbn [fst snd]; intros t' rest o Ht' Hne;
      match goal with |- run ?p _ = _ => unfold p end;
      rewrite ?T1, ?T2, ?T3, ?T4, ?T5, ?T6, ?T7, ?T8, ?T9, ?T10, ?T11, ?T12, ?T13, ?T14, ?T15, ?T16;
      apply tagged_rejects_other_type; [lia | exact Ht' | exact Hne] |]).
    constructor.
  Qed.

  Ltac agree_tac c :=
    first [ apply (with_len_agrees generic_table _ c) | apply (length_data_agrees generic_table _ c) ];
    [ lia
    | rewrite (grease_exact Hgr) by lia; vm_compute; reflexivity
    | rewrite (generic_lookup Hgen); reflexivity
    | intros n; reflexivity ].

  (* ... and, after it, is the generic parser (15 of them on every input; heartbeat below) *)
  Theorem single_purpose_agree_with_generic :
    Forall (fun e => fst e <> 15 -> forall rest o,
              run (snd e) (mkS o (u16 (fst e) ++ rest)) = run parse_tls_extension (mkS o (u16 (fst e) ++ rest))) own_types.
  Proof.
    destruct tags_values as [T1 [T2 [T3 [T4 [T5 [T6 [T7 [T8 [T9 [T10 [T11 [T12 [T13 [T14 [T15 T16]]]]]]]]]]]]]]].
    unfold own_types, parse_tls_extension.
    constructor; [cbn [fst snd]; intros _ rest o; unfold parse_tls_extension_sni; rewrite T1; agree_tac XC_sni|].
    constructor; [cbn [fst snd]; intros _ rest o; unfold parse_tls_extension_max_fragment_length; rewrite T2; agree_tac XC_max_fragment_length|].
    constructor; [cbn [fst snd]; intros _ rest o; unfold parse_tls_extension_status_request; rewrite T3; agree_tac XC_status_request|].
    constructor; [cbn [fst snd]; intros _ rest o; unfold parse_tls_extension_elliptic_curves; rewrite T4; agree_tac XC_elliptic_curves|].
    constructor; [cbn [fst snd]; intros _ rest o; unfold parse_tls_extension_ec_point_formats; rewrite T5; agree_tac XC_ec_point_formats|].
    constructor; [cbn [fst snd]; intros _ rest o; unfold parse_tls_extension_signature_algorithms; rewrite T6; agree_tac XC_signature_algorithms|].
    constructor; [cbn [fst snd]; intros H; exfalso; apply H; reflexivity|].
    constructor; [cbn [fst snd]; intros _ rest o; unfold parse_tls_extension_encrypt_then_mac; rewrite T8; agree_tac XC_encrypt_then_mac|].
    constructor; [cbn [fst snd]; intros _ rest o; unfold parse_tls_extension_extended_master_secret; rewrite T9; agree_tac XC_extended_master_secret|].
    constructor; [cbn [fst snd]; intros _ rest o; unfold parse_tls_extension_session_ticket; rewrite T10; agree_tac XC_session_ticket|].
    constructor; [cbn [fst snd]; intros _ rest o; unfold parse_tls_extension_key_share; rewrite T11; agree_tac XC_key_share|].
    constructor; [cbn [fst snd]; intros _ rest o; unfold parse_tls_extension_pre_shared_key; rewrite T12; agree_tac XC_pre_shared_key|].
    constructor; [cbn [fst snd]; intros _ rest o; unfold parse_tls_extension_early_data; rewrite T13; agree_tac XC_early_data|].
    constructor; [cbn [fst snd]; intros _ rest o; unfold parse_tls_extension_supported_versions; rewrite T14; agree_tac XC_supported_versions|].
    constructor; [cbn [fst snd]; intros _ rest o; unfold parse_tls_extension_cookie; rewrite T15; agree_tac XC_cookie|].
    constructor; [cbn [fst snd]; intros _ rest o; unfold parse_tls_extension_psk_key_exchange_modes; rewrite T16; agree_tac XC_psk_key_exchange_modes|].
    constructor.
  Qed.
End Instances.
