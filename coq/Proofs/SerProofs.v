(* C09: the serializer's output is the RFC encoding of the (normalised) value, hence parses back. *)
From TlsModel Require Import Bytes Nom Values DispatchTypes Handshake Record Extensions Serialize Wire Strip ExtEnc
  BytesLemmas NomGeneric RunLemmas ManyLemmas RtTactics HandshakeProofs MessageProofs ExtProofs RecordSpec RecordProofs.
From TlsModel Require Import SerConsts Dispatch.
From Coq Require Import Lia ZArith ZifyBool ZifyN.
Ltac Zify.zify_post_hook ::= Z.div_mod_to_equations.

(* constants read from the serializer's source *)
Definition ser_consts_ok : bool :=
  (ser_ccs_byte =? 1) && (ser_ty_clienthello =? 1) && (ser_ty_serverhello =? 2) && (ser_ty_serverhello13 =? 2) &&
  (ser_ty_cke_unknown =? 16) && (ser_ty_cke_dh =? 16) && (ser_ty_cke_ecdh =? 16) && (ser_ty_hellorequest =? 0) &&
  (ser_ty_finished =? 20) && (ser_tag_sni =? 0) && (ser_tag_mfl =? 1) && (ser_tag_groups =? 10).

(* what reads back: an absent extension block as an empty one; a DH / ECDH ClientKeyExchange as the opaque
   body holding the length-prefixed public value *)
Definition norm_ext (e : option slice) : option slice := match e with None => Some (mkS 0 []) | s => s end.
Definition norm_hs (h : TlsMessageHandshake) : TlsMessageHandshake :=
  match h with
  | HClientHello c => HClientHello (mkCH (ch_version c) (ch_random c) (ch_sid c) (ch_ciphers c) (ch_comp c) (norm_ext (ch_ext c)))
  | HServerHello c => HServerHello (mkSH (sh_version c) (sh_random c) (sh_sid c) (sh_cipher c) (sh_comp c) (norm_ext (sh_ext c)))
  | HServerHelloV13Draft18 c => HServerHelloV13Draft18 (mkSH13 (sh13_version c) (sh13_random c) (sh13_cipher c) (norm_ext (sh13_ext c)))
  | HClientKeyExchange (CkeDh b) => HClientKeyExchange (CkeUnknown (mkS 0 (vec16 (bytes b))))
  | HClientKeyExchange (CkeEcdh b) => HClientKeyExchange (CkeUnknown (mkS 0 (vec8 (bytes b))))
  | other => other
  end.
Definition supported_hs (h : TlsMessageHandshake) : bool :=
  match h with
  | HHelloRequest | HClientHello _ | HServerHello _ | HServerHelloV13Draft18 _ | HClientKeyExchange _ | HFinished _ => true
  | _ => false
  end.
(* within wire limits: every length fits the field that carries it *)
Definition ser_limits (h : TlsMessageHandshake) : Prop :=
  match h with
  | HClientHello c => lenN (ch_ciphers c) < 32768 /\ lenN (ch_comp c) < 256 /\
                      (forall s, ch_sid c = Some s -> slen s < 256) /\ (forall s, ch_ext c = Some s -> slen s < 65536)
  | HServerHello c => (forall s, sh_sid c = Some s -> slen s < 256) /\ (forall s, sh_ext c = Some s -> slen s < 65536)
  | HServerHelloV13Draft18 c => forall s, sh13_ext c = Some s -> slen s < 65536
  | HClientKeyExchange (CkeDh b) => slen b < 65536
  | HClientKeyExchange (CkeEcdh b) => slen b < 256
  | _ => True
  end.

Lemma concat_map_cat {A} (f : A -> list byte) l : concat (map f l) = cat f l.
Proof. reflexivity. Qed.

Section Ser.
  Hypothesis Hc : ser_consts_ok = true.
  Lemma consts : ser_ccs_byte = 1 /\ ser_ty_clienthello = 1 /\ ser_ty_serverhello = 2 /\ ser_ty_serverhello13 = 2 /\
    ser_ty_cke_unknown = 16 /\ ser_ty_cke_dh = 16 /\ ser_ty_cke_ecdh = 16 /\ ser_ty_hellorequest = 0 /\
    ser_ty_finished = 20 /\ ser_tag_sni = 0 /\ ser_tag_mfl = 1 /\ ser_tag_groups = 10.
  Proof.
    unfold ser_consts_ok in Hc. repeat (apply andb_prop in Hc as [Hc ?]).
    repeat match goal with H : (_ =? _) = true |- _ => apply N.eqb_eq in H end. tauto.
  Qed.

  Lemma sid_same s : (forall x, s = Some x -> slen x < 256) -> gen_tls_sessionid s = enc_sid s.
  Proof. destruct s as [x|]; cbn; reflexivity. Qed.
  Lemma ext_same e : maybe_extensions e = enc_optext (norm_ext e).
  Proof. destruct e as [x|]; cbn; reflexivity. Qed.

  (* every emitted length field is the length of what it prefixes: the output IS the RFC encoding *)
  Theorem ser_is_rfc_encoding h : supported_hs h = true -> ser_limits h ->
    gen_tls_messagehandshake h = SerOk (enc_handshake (norm_hs h)).
  Proof.
    destruct consts as [C0 [C1 [C2 [C3 [C4 [C5 [C6 [C7 [C8 _]]]]]]]]].
    intros Hs Hl. destruct h; cbn [supported_hs] in Hs; try (discriminate Hs); cbn [gen_tls_messagehandshake norm_hs ser_limits] in *.
    - rewrite C7. reflexivity.
    - destruct Hl as [Hn [Hco [Hsid Hext]]]. unfold gen_tls_clienthello.
      rewrite (N.mod_small (lenN (ch_ciphers c))) by lia.
      destruct (N.leb_spec 65536 (lenN (ch_ciphers c) * 2)); [lia|].
      rewrite C1. cbn [scat sbind length_be_u24]. unfold enc_handshake, vec24. cbn [hs_type enc_hs_body].
      unfold enc_client_hello, vec16, vec8. cbn [ch_version ch_random ch_sid ch_ciphers ch_comp ch_ext].
      rewrite (sid_same _ Hsid), ext_same, !concat_map_cat, lenN_cat_u16, lenN_cat_u8.
      replace (lenN (ch_ciphers c) * 2) with (2 * lenN (ch_ciphers c)) by lia. reflexivity.
    - destruct Hl as [Hsid Hext]. unfold gen_tls_serverhello. rewrite C2. cbn [scat sbind length_be_u24].
      unfold enc_handshake, vec24. cbn [hs_type enc_hs_body]. unfold enc_server_hello. cbn [sh_version sh_random sh_sid sh_cipher sh_comp sh_ext].
      rewrite (sid_same _ Hsid), ext_same. reflexivity.
    - unfold gen_tls_serverhellodraft18. rewrite C3. cbn [scat sbind length_be_u24].
      unfold enc_handshake, vec24. cbn [hs_type enc_hs_body sh13_version sh13_random sh13_cipher sh13_ext]. rewrite ext_same. reflexivity.
    - destruct c; cbn [gen_tls_clientkeyexchange]; rewrite ?C4, ?C5, ?C6; cbn [scat sbind length_be_u24 length_be_u16];
        unfold enc_handshake, vec24; cbn [hs_type enc_hs_body bytes]; reflexivity.
    - rewrite C8. cbn [scat sbind length_be_u24]. reflexivity.
  Qed.

  Theorem ser_nyi h : supported_hs h = false -> gen_tls_messagehandshake h = SerNYI.
  Proof. destruct h; cbn; congruence. Qed.
  Theorem ser_msg_nyi m : (match m with MHandshake h => supported_hs h | MChangeCipherSpec => true | _ => false end) = false ->
    gen_tls_message m = SerNYI.
  Proof. destruct m; cbn; try congruence. apply ser_nyi. Qed.

  Theorem ser_ccs : gen_tls_message MChangeCipherSpec = SerOk (enc_msg MChangeCipherSpec).
  Proof. destruct consts as [C0 _]. cbn. now rewrite C0. Qed.

  (* one unsupported element makes the whole list fail: no partial output is presented as valid *)
  Lemma sall_nyi l : In SerNYI l -> (forall x, In x l -> x <> SerPanic) -> sall l = SerNYI.
  Proof.
    induction l as [|a t IH]; cbn [In sall]; [tauto|]. intros [->|Hin] Hp; [reflexivity|].
    unfold scat. destruct a as [b| |]; cbn [sbind]; [|reflexivity | exfalso; eapply Hp; [left; reflexivity | reflexivity]].
    rewrite IH; [reflexivity | exact Hin | intros x Hx; apply Hp; right; exact Hx].
  Qed.
  Lemma sall_ok l bs : map SerOk bs = l -> sall l = SerOk (concat bs).
  Proof.
    revert l; induction bs as [|b bs IH]; intros l <-; cbn [map sall concat]; [reflexivity|].
    rewrite (IH _ eq_refl). reflexivity.
  Qed.
End Ser.

Definition norm_msg (m : TlsMessage) : TlsMessage := match m with MHandshake h => MHandshake (norm_hs h) | other => other end.
Definition supported_msg (m : TlsMessage) : bool :=
  match m with MHandshake h => supported_hs h | MChangeCipherSpec => true | _ => false end.
Definition msg_limits (m : TlsMessage) : Prop := match m with MHandshake h => ser_limits h | _ => True end.

Section Ser2.
  Hypothesis Hc : ser_consts_ok = true.
  Hypothesis Ht : hs_tables_std = true.

  Lemma ser_msg_is_enc m : supported_msg m = true -> msg_limits m -> gen_tls_message m = SerOk (enc_msg (norm_msg m)).
  Proof.
    destruct m; cbn [supported_msg msg_limits gen_tls_message norm_msg enc_msg]; intros Hs Hl; try (discriminate Hs).
    - apply ser_is_rfc_encoding; assumption.
    - apply (ser_ccs Hc).
  Qed.

  (* serialize, then parse: the whole output is consumed and the (normalised) value comes back *)
  Theorem ser_roundtrip h : supported_hs h = true -> ser_limits h -> wf_hs (norm_hs h) ->
    exists b m', gen_tls_messagehandshake h = SerOk b /\
                 run parse_tls_message_handshake (mkS 0 b) = Ok (mkS (0 + lenN b) []) m' /\
                 msg_eqv m' (MHandshake (norm_hs h)).
  Proof.
    intros Hs Hl Hw. rewrite (ser_is_rfc_encoding Hc h Hs Hl).
    destruct (handshake_roundtrip Ht (norm_hs h) [] 0 Hw) as [m' [E He]]. rewrite app_nil_r in E. eauto.
  Qed.

  (* re-serializing the value that was read back reproduces the same bytes *)
  Lemma norm_idem h : norm_hs (norm_hs h) = norm_hs h.
  Proof. destruct h as [|c|c|c| | | | | | | | |c| | | |]; cbn; try reflexivity; try (destruct (ch_ext c), c; reflexivity);
         try (destruct (sh_ext c), c; reflexivity); try (destruct (sh13_ext c), c; reflexivity); destruct c; reflexivity. Qed.
  Lemma norm_limits h : supported_hs h = true -> ser_limits h ->
    lenN (enc_hs_body (norm_hs h)) < 16777216 -> supported_hs (norm_hs h) = true /\ ser_limits (norm_hs h).
  Proof.
    destruct h as [|c|c|c| | | | | | | | |c| | | |]; cbn [supported_hs norm_hs ser_limits]; intros Hs Hl Hb; try (discriminate Hs); try tauto.
    - split; [reflexivity|]. destruct Hl as [H1 [H2 [H3 H4]]]. cbn [ch_ciphers ch_comp ch_sid ch_ext]. repeat split; auto.
      intros s E. destruct (ch_ext c); cbn [norm_ext] in E; injection E as <-; [auto | unfold slen; cbn; lia].
    - split; [reflexivity|]. destruct Hl as [H3 H4]. cbn [sh_sid sh_ext]. split; auto.
      intros s E. destruct (sh_ext c); cbn [norm_ext] in E; injection E as <-; [auto | unfold slen; cbn; lia].
    - split; [reflexivity|]. cbn [sh13_ext]. intros s E. destruct (sh13_ext c); cbn [norm_ext] in E; injection E as <-; [auto | unfold slen; cbn; lia].
    - destruct c; cbn [supported_hs ser_limits]; tauto.
  Qed.
  Theorem reserialize_same h : supported_hs h = true -> ser_limits h -> lenN (enc_hs_body (norm_hs h)) < 16777216 ->
    gen_tls_messagehandshake (norm_hs h) = gen_tls_messagehandshake h.
  Proof.
    intros Hs Hl Hb. destruct (norm_limits h Hs Hl Hb) as [Hs' Hl'].
    rewrite (ser_is_rfc_encoding Hc _ Hs' Hl'), (ser_is_rfc_encoding Hc _ Hs Hl), norm_idem. reflexivity.
  Qed.

  (* plaintext records made of supported messages: the record header carries the real payload length *)
  Theorem ser_record ty ver hlen msgs :
    (forall m, In m msgs -> supported_msg m = true /\ msg_limits m) ->
    gen_tls_plaintext (mkPlain (mkHdr ty ver hlen) msgs) = SerOk (enc_record ty ver (cat enc_msg (map norm_msg msgs))).
  Proof.
    intros Hm. unfold gen_tls_plaintext. cbn [p_hdr p_msg h_type h_version].
    rewrite (sall_ok (map gen_tls_message msgs) (map (fun m => enc_msg (norm_msg m)) msgs)).
    - cbn [scat sbind length_be_u16]. unfold enc_record, vec16, cat. rewrite map_map, <- app_assoc. reflexivity.
    - rewrite map_map. apply map_ext_in. intros m Hin. destruct (Hm m Hin) as [Hs Hl]. symmetry. apply ser_msg_is_enc; assumption.
  Qed.
  Theorem ser_record_nyi ty ver hlen msgs m : In m msgs -> supported_msg m = false ->
    (forall x, In x msgs -> gen_tls_message x <> SerPanic) ->
    gen_tls_plaintext (mkPlain (mkHdr ty ver hlen) msgs) = SerNYI.
  Proof.
    intros Hin Hu Hp. unfold gen_tls_plaintext. cbn [p_hdr p_msg h_type h_version].
    rewrite sall_nyi; [reflexivity | | ].
    - apply in_map_iff. exists m. split; [apply ser_msg_nyi; exact Hu | exact Hin].
    - intros x Hx. apply in_map_iff in Hx as [y [<- Hy]]. apply Hp; exact Hy.
  Qed.
End Ser2.

(* ---- extensions ---- *)
Definition ext_supported (e : TlsExtension) : bool :=
  match e with ESNI _ | EMaxFragmentLength _ | EEllipticCurves _ => true | _ => false end.
Theorem ser_ext_nyi e : ext_supported e = false -> gen_tls_extension e = SerNYI.
Proof. destruct e; cbn; congruence. Qed.

Lemma sall_hostnames l : sall (map gen_tls_ext_sni_hostname l) =
  SerOk (cat (fun p : N * slice => u8 (fst p) ++ vec16 (bytes (snd p))) l).
Proof.
  apply sall_ok. unfold cat. rewrite map_map. reflexivity.
Qed.

Theorem ser_ext_is_enc (Hc : ser_consts_ok = true) e : ext_supported e = true ->
  (match e with ESNI [] => False | _ => True end) ->
  gen_tls_extension e = SerOk (enc_ext e).
Proof.
  destruct (consts Hc) as [_ [_ [_ [_ [_ [_ [_ [_ [_ [T0 [T1 T10]]]]]]]]]]].
  destruct e; cbn [ext_supported]; intros Hs Hne; try (discriminate Hs); cbn [gen_tls_extension].
  - destruct l as [|p l']; [contradiction|]. rewrite T0, sall_hostnames. cbn [tagged_extension scat sbind length_be_u16].
    unfold enc_ext, vec16. cbn [iana_type enc_ext_content]. unfold vec16. reflexivity.
  - rewrite T1. cbn [tagged_extension scat sbind length_be_u16]. unfold enc_ext, vec16. cbn [iana_type enc_ext_content]. reflexivity.
  - rewrite T10. cbn [tagged_extension scat sbind length_be_u16]. unfold enc_ext, vec16. cbn [iana_type enc_ext_content].
    unfold vec16, cat. reflexivity.
Qed.
