(* C01: the partial operations of the source (regenerated inventory, gen/PartialOps.v, T11) are exactly the places
   the model represents by a panic site; a new index / unwrap / expect / length subtraction in the source that the
   model does not know about makes the obligation below fail. *)
From Coq Require Import String List NArith Bool PeanoNat.
From TlsModel Require Import PartialOps.
Import ListNotations.
Open Scope string_scope.

(* (file, fn, kind, how many, where the model has it) *)
Definition modelled_partial_ops : list (string * string * string * nat * string) :=
  [("certificate_transparency.rs", "parse_log_id", "expect", 1%nat, "Kx.parse_log_id: PanicP unless the taken slice has 32 bytes");
   ("tls_ec.rs", "parse_named_groups", "index", 4%nat, "Handshake.parse_u16_all: Idx (i[..len]), pairs16/PanicP (chunk[0], chunk[1]); i[len..] is the remainder of Idx");
   ("tls_handshake.rs", "parse_cipher_suites", "index", 4%nat, "Handshake.parse_cipher_suites: Idx, pairs16/PanicP");
   ("tls_handshake.rs", "parse_tls_versions", "index", 4%nat, "Handshake.parse_u16_all: Idx, pairs16/PanicP");
   ("tls_handshake.rs", "parse_compressions_algs", "index", 2%nat, "Handshake.parse_compressions_algs: Idx");
   ("tls_extensions.rs", "parse_tls_extension_status_request_content", "len-sub", 1%nat, "Extensions: ext_len - 1 evaluated only in the non-zero arm");
   ("tls_extensions.rs", "parse_tls_extension_supported_versions_content", "len-sub", 1%nat, "Extensions: PanicP when ext_len = 0 would be reached");
   ("tls_handshake.rs", "parse_tls_handshake_msg_newsessionticket", "len-sub", 1%nat, "Handshake: len - 4 after the len < 4 guard")].

Definition key_eqb (a : string * string * string * string) (f fn k : string) : bool :=
  let '(f', fn', k', _) := a in String.eqb f f' && String.eqb fn fn' && String.eqb k k'.
Definition count_ops (f fn k : string) : nat := length (filter (fun a => key_eqb a f fn k) partial_ops).
Definition allowed (f fn k : string) : nat :=
  fold_right (fun e acc => let '(f', fn', k', n, _) := e in
                           if String.eqb f f' && String.eqb fn fn' && String.eqb k k' then n else acc) 0%nat modelled_partial_ops.
Definition partial_ops_ok : bool :=
  forallb (fun a => let '(f, fn, k, _) := a in Nat.leb (count_ops f fn k) (allowed f fn k)) partial_ops.

Theorem partial_ops_modelled : partial_ops_ok = true ->
  forall f fn k e, In (f, fn, k, e) partial_ops -> (count_ops f fn k <= allowed f fn k)%nat /\ (0 < allowed f fn k)%nat.
Proof.
  intros H f fn k e Hin. unfold partial_ops_ok in H. rewrite forallb_forall in H. specialize (H _ Hin). cbv beta iota zeta in H.
  apply Nat.leb_le in H. split; [exact H|].
  assert (0 < count_ops f fn k)%nat; [|eapply Nat.lt_le_trans; eauto].
  unfold count_ops. assert (Hf : In (f, fn, k, e) (filter (fun a => key_eqb a f fn k) partial_ops)).
  { apply filter_In. split; [exact Hin|]. unfold key_eqb. rewrite !String.eqb_refl. reflexivity. }
  destruct (filter _ partial_ops); [destruct Hf | cbn [length]; apply Nat.lt_0_succ].
Qed.
