(* C03: a record's payload decodes to exactly its messages, in order. *)
From TlsModel Require Import Bytes Nom Values Handshake Record BytesLemmas NomGeneric RunLemmas ManyLemmas
  RecordSpec Wire Strip RecordProofs.
From TlsModel Require Import Consts Dispatch.
From Coq Require Import Lia ZArith ZifyBool ZifyN.
Ltac Zify.zify_post_hook ::= Z.div_mod_to_equations.

(* the record dispatch table read from the source is the expected one *)
Definition rec_body_eqb (a b : rec_body_id) : bool :=
  match a, b with
  | RB_many1_ccs, RB_many1_ccs | RB_many1_alert, RB_many1_alert | RB_many1_handshake, RB_many1_handshake
  | RB_many1_appdata, RB_many1_appdata | RB_heartbeat, RB_heartbeat | RB_once_appdata, RB_once_appdata
  | RB_complete_heartbeat, RB_complete_heartbeat => true
  | _, _ => false
  end.
Definition rec_table_expected : list (N * rec_body_id) :=
  [(20, RB_many1_ccs); (21, RB_many1_alert); (22, RB_many1_handshake); (23, RB_once_appdata); (24, RB_complete_heartbeat)].
Fixpoint table_eqb {A} (eqb : A -> A -> bool) (x y : list (N * A)) : bool :=
  match x, y with
  | [], [] => true
  | (k, a) :: x', (k', a') :: y' => (k =? k') && eqb a a' && table_eqb eqb x' y'
  | _, _ => false
  end.
Lemma table_eqb_eq {A} (eqb : A -> A -> bool) (Heq : forall a b, eqb a b = true -> a = b) x y :
  table_eqb eqb x y = true -> x = y.
Proof.
  revert y; induction x as [|[k a] x IH]; intros [|[k' a'] y]; cbn; try discriminate; [reflexivity|].
  intros H. apply andb_prop in H as [H H3]. apply andb_prop in H as [H1 H2].
  apply N.eqb_eq in H1. apply Heq in H2. apply IH in H3. congruence.
Qed.
Lemma rec_body_eqb_eq a b : rec_body_eqb a b = true -> a = b.
Proof. destruct a, b; cbn; congruence. Qed.
Definition rec_table_std : bool := table_eqb rec_body_eqb rec_table rec_table_expected.
Lemma rec_table_is : rec_table_std = true -> rec_table = rec_table_expected.
Proof. apply table_eqb_eq. exact rec_body_eqb_eq. Qed.


Lemma with_header_type hdr b : rec_table_std = true -> assoc_N (h_type hdr) rec_table_expected = Some b ->
  parse_tls_record_with_header hdr = rec_body b hdr.
Proof. intros H E. unfold parse_tls_record_with_header. rewrite (rec_table_is H), E. reflexivity. Qed.

(* ---- single messages ---- *)
Definition wf_ccs (m : TlsMessage) : Prop := m = MChangeCipherSpec.
Definition wf_alert (m : TlsMessage) : Prop := exists s c, m = MAlert s c /\ s < 256 /\ c < 256.

Lemma ccs_rt : roundtrips parse_tls_message_changecipherspec enc_msg wf_ccs msg_eqv.
Proof.
  intros v rest o ->. cbn [enc_msg]. unfold parse_tls_message_changecipherspec, be_u8, u8.
  rewrite run_bind, run_vrfy, run_beu_enc by (cbn; lia). rewrite N.eqb_refl.
  rewrite run_ret, lenN_be_enc. exists MChangeCipherSpec. split; reflexivity.
Qed.
Lemma ccs_ne : nonempty_enc enc_msg wf_ccs.
Proof. intros v ->. cbn. lia. Qed.

Lemma alert_rt : roundtrips parse_tls_message_alert enc_msg wf_alert msg_eqv.
Proof.
  intros v rest o [s [c [-> [Hs Hc]]]]. cbn [enc_msg]. unfold parse_tls_message_alert, be_u8, u8.
  rewrite <- app_assoc.
  rewrite run_bind, run_beu_enc by (cbn; lia).
  rewrite run_bind, run_beu_enc by (cbn; lia).
  rewrite run_ret, lenN_app, !lenN_be_enc. exists (MAlert s c). split; [|reflexivity].
  f_equal. f_equal. lia.
Qed.
Lemma alert_ne : nonempty_enc enc_msg wf_alert.
Proof. intros v [s [c [-> _]]]. cbn [enc_msg]. unfold u8. rewrite lenN_app, !lenN_be_enc. lia. Qed.

(* on an exhausted payload every message parser stops *)
Lemma stops_beu_nil A k (f : N -> P A) o : (0 < k)%nat -> stops (Bind (BeU k) f) (mkS o []).
Proof.
  intros Hk. unfold stops. rewrite run_bind, run_beu. unfold slen; cbn [bytes lenN].
  destruct (N.leb_spec (N.of_nat k) 0); [lia | exact I].
Qed.
Lemma ccs_stops_nil o : stops parse_tls_message_changecipherspec (mkS o []).
Proof.
  unfold stops, parse_tls_message_changecipherspec. rewrite run_bind, run_vrfy. unfold be_u8. rewrite run_beu.
  unfold slen; cbn [bytes lenN]. destruct (N.leb_spec (N.of_nat 1) 0); [lia | exact I].
Qed.
Lemma alert_stops_nil o : stops parse_tls_message_alert (mkS o []).
Proof. apply stops_beu_nil. lia. Qed.
Lemma handshake_stops_nil o : stops parse_tls_message_handshake (mkS o []).
Proof. apply stops_beu_nil. lia. Qed.

(* ---- record payloads ---- *)
Section Decode.
  Hypothesis Ht : rec_table_std = true.

  (* generic: content type whose table entry is many1(complete(p)) *)
  Lemma decode_many1 hdr b p wf :
    assoc_N (h_type hdr) rec_table_expected = Some b ->
    rec_body b hdr = Many1 (Cmpl p) ->
    roundtrips p enc_msg wf msg_eqv -> nonempty_enc enc_msg wf ->
    forall m ms o tail,
      (forall x, In x (m :: ms) -> wf x) ->
      stops p (mkS (o + lenN (cat enc_msg (m :: ms))) tail) ->
      exists vs', run (parse_tls_record_with_header hdr) (mkS o (cat enc_msg (m :: ms) ++ tail)) =
                    Ok (mkS (o + lenN (cat enc_msg (m :: ms))) tail) vs' /\ msgs_eqv vs' (m :: ms).
  Proof.
    intros E Eb Hrt Hne m ms o tail Hwf Hs. rewrite (with_header_type hdr b Ht E), Eb.
    exact (many1_cmpl_rt p enc_msg wf msg_eqv Hrt Hne m ms o tail Hwf Hs).
  Qed.

  Theorem decode_ccs hdr : h_type hdr = 20 -> forall m ms o tail,
    (forall x, In x (m :: ms) -> wf_ccs x) ->
    stops parse_tls_message_changecipherspec (mkS (o + lenN (cat enc_msg (m :: ms))) tail) ->
    exists vs', run (parse_tls_record_with_header hdr) (mkS o (cat enc_msg (m :: ms) ++ tail)) =
                  Ok (mkS (o + lenN (cat enc_msg (m :: ms))) tail) vs' /\ msgs_eqv vs' (m :: ms).
  Proof.
    intros H. apply (decode_many1 hdr RB_many1_ccs); [rewrite H; reflexivity | reflexivity | exact ccs_rt | exact ccs_ne].
  Qed.
  Theorem decode_alert hdr : h_type hdr = 21 -> forall m ms o tail,
    (forall x, In x (m :: ms) -> wf_alert x) ->
    stops parse_tls_message_alert (mkS (o + lenN (cat enc_msg (m :: ms))) tail) ->
    exists vs', run (parse_tls_record_with_header hdr) (mkS o (cat enc_msg (m :: ms) ++ tail)) =
                  Ok (mkS (o + lenN (cat enc_msg (m :: ms))) tail) vs' /\ msgs_eqv vs' (m :: ms).
  Proof.
    intros H. apply (decode_many1 hdr RB_many1_alert); [rewrite H; reflexivity | reflexivity | exact alert_rt | exact alert_ne].
  Qed.
  (* handshake: for any class of handshake values whose encodings round-trip (C04) *)
  Theorem decode_handshake hdr wf : h_type hdr = 22 ->
    roundtrips parse_tls_message_handshake enc_msg wf msg_eqv -> nonempty_enc enc_msg wf ->
    forall m ms o tail,
    (forall x, In x (m :: ms) -> wf x) ->
    stops parse_tls_message_handshake (mkS (o + lenN (cat enc_msg (m :: ms))) tail) ->
    exists vs', run (parse_tls_record_with_header hdr) (mkS o (cat enc_msg (m :: ms) ++ tail)) =
                  Ok (mkS (o + lenN (cat enc_msg (m :: ms))) tail) vs' /\ msgs_eqv vs' (m :: ms).
  Proof.
    intros H Hrt Hne. apply (decode_many1 hdr RB_many1_handshake); [rewrite H; reflexivity | reflexivity | exact Hrt | exact Hne].
  Qed.

  (* application data: one opaque blob of any length (also empty), the whole payload *)
  Theorem decode_appdata hdr : h_type hdr = 23 -> forall blob o,
    run (parse_tls_record_with_header hdr) (mkS o blob) =
      Ok (mkS (o + lenN blob) []) [MApplicationData (mkS o blob)].
  Proof.
    intros H blob o. rewrite (with_header_type hdr RB_once_appdata Ht) by (rewrite H; reflexivity).
    cbn [rec_body]. unfold pmap. rewrite run_bind, run_appdata, run_ret.
    unfold sdrop, slen; cbn [bytes off]. rewrite dropN_all by lia. reflexivity.
  Qed.

  (* heartbeat: type, u16 payload length, payload; the padding is left as remainder *)
  Theorem decode_heartbeat hdr : h_type hdr = 24 -> 3 <= h_len hdr -> forall t payload padding o,
    t < 256 -> lenN payload < 65536 ->
    run (parse_tls_record_with_header hdr) (mkS o (u8 t ++ u16 (lenN payload) ++ payload ++ padding)) =
      Ok (mkS (o + 3 + lenN payload) padding) [MHeartbeat t (lenN payload) (mkS (o + 3) payload)].
  Proof.
    intros H Hl t payload padding o Ht8 Hp. rewrite (with_header_type hdr RB_complete_heartbeat Ht) by (rewrite H; reflexivity).
    cbn [rec_body run]. unfold parse_tls_message_heartbeat, be_u8, be_u16, u8, u16.
    rewrite run_bind, run_beu_enc by (cbn; lia).
    rewrite run_bind, run_beu_enc by (cbn; lia).
    destruct (N.ltb_spec (h_len hdr) 3); [lia|].
    rewrite run_bind, run_take_app by reflexivity. rewrite run_ret.
    change (N.of_nat 1) with 1. change (N.of_nat 2) with 2.
    replace (o + 1 + 2) with (o + 3) by lia. reflexivity.
  Qed.

  (* rejections *)
  Theorem reject_unknown_type hdr i :
    ~ In (h_type hdr) [20; 21; 22; 23; 24] -> run (parse_tls_record_with_header hdr) i = Err i KSwitch.
  Proof.
    intros H. unfold parse_tls_record_with_header. rewrite (rec_table_is Ht). unfold rec_table_expected. cbn [assoc_N].
    repeat match goal with |- context [?a =? ?b] => let E := fresh "E" in destruct (N.eqb_spec a b) as [E|E]; [exfalso; apply H; rewrite E; cbn; tauto|] end.
    reflexivity.
  Qed.

  Lemma many1_first_stops A (p : P A) i : stops p i -> exists s k, run (Many1 (Cmpl p)) i = Err s k.
  Proof.
    intros Hs. rewrite run_many1. unfold many1_run. cbv beta.
    destruct (cmpl_stops p i Hs) as [s [k E]]. rewrite E. eauto.
  Qed.

  (* a payload whose first message is malformed or cut short (or an empty payload) never yields a value *)
  Theorem reject_first_bad hdr i : In (h_type hdr) [20; 21; 22] ->
    (h_type hdr = 20 -> stops parse_tls_message_changecipherspec i) ->
    (h_type hdr = 21 -> stops parse_tls_message_alert i) ->
    (h_type hdr = 22 -> stops parse_tls_message_handshake i) ->
    exists s k, run (parse_tls_record_with_header hdr) i = Err s k.
  Proof.
    intros Hin H20 H21 H22. cbn [In] in Hin. destruct Hin as [E|[E|[E|[]]]]; symmetry in E.
    - rewrite (with_header_type hdr RB_many1_ccs Ht) by (rewrite E; reflexivity). apply many1_first_stops; auto.
    - rewrite (with_header_type hdr RB_many1_alert Ht) by (rewrite E; reflexivity). apply many1_first_stops; auto.
    - rewrite (with_header_type hdr RB_many1_handshake Ht) by (rewrite E; reflexivity). apply many1_first_stops; auto.
  Qed.
  Corollary reject_empty hdr o : In (h_type hdr) [20; 21; 22] ->
    exists s k, run (parse_tls_record_with_header hdr) (mkS o []) = Err s k.
  Proof.
    intros H. apply reject_first_bad; auto; intros _;
      [apply ccs_stops_nil | apply alert_stops_nil | apply handshake_stops_nil].
  Qed.
End Decode.

(* one-step parsing agrees with two-step parsing (raw record, then parse_tls_record_with_header) *)
Theorem one_step_two_step i :
  run parse_tls_plaintext i =
    match run parse_tls_raw_record i with
    | Ok rest raw => lift_plain (r_hdr raw) rest (run (parse_tls_record_with_header (r_hdr raw)) (r_data raw))
    | Err s k => Err s k | Fail s k => Fail s k
    | Incomplete n => Incomplete n | Panic => Panic | OutOfFuel => OutOfFuel
    end.
Proof.
  rewrite plaintext_char, raw_spec. unfold framing_spec_raw. destruct (framing_spec i); reflexivity.
Qed.
