From TlsModel Require Import Bytes Nom Values Handshake Record BytesLemmas NomGeneric RunLemmas RecordSpec Wire.
From TlsModel Require Import Consts Dispatch.
From Coq Require Import Lia ZArith ZifyBool ZifyN.
Ltac Zify.zify_post_hook ::= Z.div_mod_to_equations.

Lemma cap_value : MAX_RECORD_LEN = RECORD_CAP.
Proof. reflexivity. Qed.

(* the header parser on any input *)
Lemma run_header i :
  run parse_tls_record_header i =
    if slen i <? 5 then Incomplete (Size (hdr_need (slen i)))
    else Ok (sdrop i 5) (mkHdr (be_val (takeN (bytes i) 1)) (be_val (takeN (dropN (bytes i) 1) 2))
                               (be_val (takeN (dropN (bytes i) 3) 2))).
Proof.
  unfold parse_tls_record_header, be_u8, be_u16.
  rewrite run_bind, run_beu. change (N.of_nat 1) with 1.
  destruct (N.leb_spec 1 (slen i)) as [H1|H1].
  2:{ destruct (N.ltb_spec (slen i) 5); [|lia]. assert (slen i = 0) as -> by lia. reflexivity. }
  rewrite run_bind, run_beu. change (N.of_nat 2) with 2. rewrite slen_sdrop.
  destruct (N.leb_spec 2 (slen i - 1)) as [H2|H2].
  2:{ destruct (N.ltb_spec (slen i) 5); [|lia].
      assert (slen i = 1 \/ slen i = 2) as [-> | ->] by lia; reflexivity. }
  rewrite run_bind, run_beu. change (N.of_nat 2) with 2. rewrite sdrop_sdrop, slen_sdrop.
  destruct (N.leb_spec 2 (slen i - (1 + 2))) as [H3|H3].
  2:{ destruct (N.ltb_spec (slen i) 5); [|lia].
      assert (slen i = 3 \/ slen i = 4) as [-> | ->] by lia; reflexivity. }
  destruct (N.ltb_spec (slen i) 5); [lia|].
  rewrite run_ret, sdrop_sdrop, !bytes_sdrop. reflexivity.
Qed.

Theorem raw_spec i : run parse_tls_raw_record i = framing_spec_raw i.
Proof.
  unfold parse_tls_raw_record, framing_spec_raw, framing_spec. rewrite run_bind, run_header.
  fold (slen i). destruct (N.ltb_spec (slen i) 5) as [H5|H5]; [reflexivity|].
  cbn [h_len]. rewrite cap_value.
  set (len := be_val (takeN (dropN (bytes i) 3) 2)).
  destruct (N.ltb_spec RECORD_CAP len) as [Hc|Hc]; [reflexivity|].
  rewrite run_bind, run_take, slen_sdrop.
  destruct (N.leb_spec len (slen i - 5)) as [Hl|Hl]; destruct (N.ltb_spec (slen i) (5 + len)); try lia.
  - rewrite run_ret, sdrop_sdrop, bytes_sdrop, off_sdrop. reflexivity.
  - rewrite mk_needed_pos by lia. do 2 f_equal. lia.
Qed.

Theorem enc_spec i : run parse_tls_encrypted i = framing_spec_enc i.
Proof.
  unfold parse_tls_encrypted, framing_spec_enc, framing_spec. rewrite run_bind, run_header.
  fold (slen i). destruct (N.ltb_spec (slen i) 5) as [H5|H5]; [reflexivity|].
  cbn [h_len]. rewrite cap_value.
  set (len := be_val (takeN (dropN (bytes i) 3) 2)).
  destruct (N.ltb_spec RECORD_CAP len) as [Hc|Hc]; [reflexivity|].
  rewrite run_bind, run_take, slen_sdrop.
  destruct (N.leb_spec len (slen i - 5)) as [Hl|Hl]; destruct (N.ltb_spec (slen i) (5 + len)); try lia.
  - rewrite run_ret, sdrop_sdrop, bytes_sdrop, off_sdrop. reflexivity.
  - rewrite mk_needed_pos by lia. do 2 f_equal. lia.
Qed.

(* one-step parsing = framing, then the content parser confined to the payload *)
Definition lift_plain (hdr : TlsRecordHeader) (rest : slice) (r : res (list TlsMessage)) : res TlsPlaintext :=
  match r with
  | Ok _ msgs => Ok rest (mkPlain hdr msgs)
  | Err s k => Err s k | Fail s k => Fail s k
  | Incomplete n => Incomplete n | Panic => Panic | OutOfFuel => OutOfFuel
  end.

Theorem plaintext_char i :
  run parse_tls_plaintext i =
    match framing_spec i with
    | FrIncomplete m => Incomplete (Size m)
    | FrTooLarge s => Err s KTooLarge
    | FrOk h p r => lift_plain h r (run (parse_tls_record_with_header h) p)
    end.
Proof.
  unfold parse_tls_plaintext, framing_spec. rewrite run_bind, run_header.
  fold (slen i). destruct (N.ltb_spec (slen i) 5) as [H5|H5]; [reflexivity|].
  cbn [h_len]. rewrite cap_value.
  set (len := be_val (takeN (dropN (bytes i) 3) 2)).
  destruct (N.ltb_spec RECORD_CAP len) as [Hc|Hc]; [reflexivity|].
  unfold map_parser. rewrite !run_bind, run_take, slen_sdrop.
  destruct (N.leb_spec len (slen i - 5)) as [Hl|Hl]; destruct (N.ltb_spec (slen i) (5 + len)); try lia.
  - cbn [run]. rewrite sdrop_sdrop, bytes_sdrop, off_sdrop.
    destruct (run _ _); reflexivity.
  - rewrite mk_needed_pos by lia. do 2 f_equal. lia.
Qed.

(* decoding a well-formed encoding *)
Lemma framing_of_encoding ty ver payload rest o :
  ty < 256 -> ver < 65536 -> lenN payload <= RECORD_CAP ->
  framing_spec (mkS o (enc_record ty ver payload ++ rest)) =
    FrOk (mkHdr ty ver (lenN payload)) (mkS (o + 5) payload) (mkS (o + 5 + lenN payload) rest).
Proof.
  intros Ht Hv Hl. unfold framing_spec, enc_record, vec16, u8, u16. cbn [bytes off].
  assert (Hl16 : lenN payload < 65536) by (unfold RECORD_CAP in Hl; lia).
  repeat rewrite <- app_assoc.
  set (L := lenN payload).
  set (b3 := be_enc 2 L ++ payload ++ rest).
  set (b1 := be_enc 2 ver ++ b3).
  set (b := be_enc 1 ty ++ b1).
  assert (Hn : lenN b = 5 + L + lenN rest).
  { unfold b, b1, b3. rewrite !lenN_app, !lenN_be_enc. fold L. lia. }
  assert (E1 : dropN b 1 = b1). { unfold b. apply dropN_app_len. now rewrite lenN_be_enc. }
  assert (E3 : dropN b 3 = b3).
  { replace 3 with (1 + 2) by lia. rewrite <- dropN_dropN, E1. unfold b1.
    apply dropN_app_len; now rewrite lenN_be_enc. }
  assert (E5 : dropN b 5 = payload ++ rest).
  { replace 5 with (3 + 2) by lia. rewrite <- dropN_dropN, E3. unfold b3.
    apply dropN_app_len; now rewrite lenN_be_enc. }
  rewrite Hn. destruct (N.ltb_spec (5 + L + lenN rest) 5); [lia|].
  rewrite E1, E3, E5.
  assert (T1 : be_val (takeN b 1) = ty).
  { unfold b. rewrite takeN_app_len by (now rewrite lenN_be_enc). apply be_val_enc. cbn; lia. }
  assert (T2 : be_val (takeN b1 2) = ver).
  { unfold b1. rewrite takeN_app_len by (now rewrite lenN_be_enc). apply be_val_enc. cbn; lia. }
  assert (T3 : be_val (takeN b3 2) = L).
  { unfold b3. rewrite takeN_app_len by (now rewrite lenN_be_enc). apply be_val_enc. cbn; lia. }
  rewrite T1, T2, T3.
  destruct (N.ltb_spec RECORD_CAP L); [lia|].
  destruct (N.ltb_spec (5 + L + lenN rest) (5 + L)); [lia|].
  rewrite (takeN_app_len payload rest L) by reflexivity. unfold sdrop; cbn [bytes off].
  rewrite <- dropN_dropN, E5, (dropN_app_len payload rest L) by reflexivity.
  rewrite N.add_assoc. reflexivity.
Qed.

(* ---- a complete record never answers Incomplete ---- *)
Definition never_inc {A} (p : P A) : Prop := forall i n, run p i <> Incomplete n.

Lemma never_inc_cmpl A (p : P A) : never_inc (Cmpl p).
Proof. intros i n; cbn [run]. destruct (run p i); discriminate. Qed.

Lemma many1_loop_never_inc A (f : slice -> res A) :
  (forall i n, f i <> Incomplete n) ->
  forall fuel i n, many1_loop f fuel i <> Incomplete n.
Proof.
  intros Hf fuel; induction fuel as [|c fuel IH]; intros i n; cbn [many1_loop];
    specialize (Hf i); destruct (f i) as [r a| | | | |] eqn:E; try discriminate.
  - destruct (slen r =? slen i); discriminate.
  - exfalso; eapply Hf; reflexivity.
  - destruct (slen r =? slen i); [discriminate|]. specialize (IH r n).
    destruct (many1_loop f fuel r); try discriminate. exact IH.
  - exfalso; eapply Hf; reflexivity.
Qed.

Lemma never_inc_many1_cmpl A (p : P A) : never_inc (Many1 (Cmpl p)).
Proof.
  intros i n. cbn [run]. unfold many1_run.
  pose proof (never_inc_cmpl A p) as Hc. unfold never_inc in Hc. cbn [run] in Hc.
  destruct (match run p i with Incomplete _ => Err i KComplete | r => r end) as [r a| | | | |] eqn:E;
    try discriminate.
  - pose proof (many1_loop_never_inc A (fun j => run (Cmpl p) j) (fun j m => Hc j m) (bytes i) r n) as Hl.
    cbn [run] in Hl. destruct (many1_loop _ (bytes i) r); try discriminate. exact Hl.
  - exfalso. eapply (Hc i). exact E.
Qed.

Lemma run_appdata i :
  run parse_tls_message_applicationdata i = Ok (sdrop i (slen i)) (MApplicationData (mkS (off i) (bytes i))).
Proof.
  unfold parse_tls_message_applicationdata. rewrite run_bind. change (run GetI i) with (Ok i i). cbv beta iota.
  rewrite run_bind, run_take. destruct (N.leb_spec (slen i) (slen i)); [|lia].
  rewrite run_ret. unfold slen. rewrite takeN_all by lia. reflexivity.
Qed.

Definition rec_body_no_inc (b : rec_body_id) : bool :=
  match b with RB_heartbeat => false | _ => true end.

Lemma rec_body_no_inc_sound b hdr : rec_body_no_inc b = true -> never_inc (rec_body b hdr).
Proof.
  destruct b; cbn [rec_body_no_inc rec_body]; intros H; try discriminate;
    try apply never_inc_many1_cmpl; try apply never_inc_cmpl.
  intros i n. unfold pmap. rewrite run_bind, run_appdata. discriminate.
Qed.

Lemma assoc_forall {A} (f : A -> bool) (l : list (N * A)) k v :
  forallb (fun p => f (snd p)) l = true -> assoc_N k l = Some v -> f v = true.
Proof.
  induction l as [|[k' v'] t IH]; cbn [forallb assoc_N snd]; [discriminate|].
  intros H. apply andb_prop in H as [H1 H2]. destruct (k =? k'); [intros E; injection E as <-; exact H1 | auto].
Qed.

(* the obligation over the regenerated dispatch table *)
Definition rec_table_no_inc : bool := forallb (fun p => rec_body_no_inc (snd p)) rec_table.

Theorem inner_never_incomplete :
  rec_table_no_inc = true ->
  forall hdr d n, run (parse_tls_record_with_header hdr) d <> Incomplete n.
Proof.
  intros Ht hdr d n. unfold parse_tls_record_with_header.
  destruct (assoc_N (h_type hdr) rec_table) as [b|] eqn:E.
  - apply rec_body_no_inc_sound. eapply assoc_forall; eauto.
  - discriminate.
Qed.

(* hence: Incomplete iff the input is a strict prefix of header+payload, with exact Needed *)
Theorem plaintext_incomplete_iff :
  rec_table_no_inc = true ->
  forall i n, run parse_tls_plaintext i = Incomplete n <->
              exists m, framing_spec i = FrIncomplete m /\ n = Size m.
Proof.
  intros Ht i n. rewrite plaintext_char. destruct (framing_spec i) as [m|s|h p r] eqn:E.
  - split; [intros H; injection H as <-; eauto | intros [m' [H ->]]; injection H as ->; reflexivity].
  - split; [discriminate | intros [m' [H _]]; discriminate].
  - split; [|intros [m' [H _]]; discriminate].
    pose proof (inner_never_incomplete Ht h p) as Hn.
    destruct (run (parse_tls_record_with_header h) p) as [| | |nd| |] eqn:ER; cbn [lift_plain]; try discriminate.
    intros _. exfalso. eapply Hn. reflexivity.
Qed.

(* framing of any input that starts with three in-range header fields *)
Lemma framing_fields ty ver len body o :
  ty < 256 -> ver < 65536 -> len < 65536 ->
  framing_spec (mkS o (u8 ty ++ u16 ver ++ u16 len ++ body)) =
    if RECORD_CAP <? len then FrTooLarge (mkS (o + 5) body)
    else if lenN body <? len then FrIncomplete (len - lenN body)
    else FrOk (mkHdr ty ver len) (mkS (o + 5) (takeN body len)) (mkS (o + 5 + len) (dropN body len)).
Proof.
  intros Ht Hv Hl. unfold framing_spec, u8, u16. cbn [bytes off].
  set (b3 := be_enc 2 len ++ body).
  set (b1 := be_enc 2 ver ++ b3).
  set (b := be_enc 1 ty ++ b1).
  assert (Hn : lenN b = 5 + lenN body).
  { unfold b, b1, b3. rewrite !lenN_app, !lenN_be_enc. lia. }
  assert (E1 : dropN b 1 = b1). { unfold b. apply dropN_app_len. now rewrite lenN_be_enc. }
  assert (E3 : dropN b 3 = b3).
  { replace 3 with (1 + 2) by lia. rewrite <- dropN_dropN, E1. unfold b1.
    apply dropN_app_len; now rewrite lenN_be_enc. }
  assert (E5 : dropN b 5 = body).
  { replace 5 with (3 + 2) by lia. rewrite <- dropN_dropN, E3. unfold b3.
    apply dropN_app_len; now rewrite lenN_be_enc. }
  rewrite Hn. destruct (N.ltb_spec (5 + lenN body) 5); [lia|].
  rewrite E1, E3, E5.
  assert (T1 : be_val (takeN b 1) = ty).
  { unfold b. rewrite takeN_app_len by (now rewrite lenN_be_enc). apply be_val_enc. cbn; lia. }
  assert (T2 : be_val (takeN b1 2) = ver).
  { unfold b1. rewrite takeN_app_len by (now rewrite lenN_be_enc). apply be_val_enc. cbn; lia. }
  assert (T3 : be_val (takeN b3 2) = len).
  { unfold b3. rewrite takeN_app_len by (now rewrite lenN_be_enc). apply be_val_enc. cbn; lia. }
  rewrite T1, T2, T3.
  destruct (N.ltb_spec RECORD_CAP len).
  { unfold sdrop; cbn [bytes off]. rewrite E5. reflexivity. }
  destruct (N.ltb_spec (5 + lenN body) (5 + len)), (N.ltb_spec (lenN body) len); try lia.
  - f_equal. lia.
  - unfold sdrop; cbn [bytes off]. rewrite <- dropN_dropN, E5, N.add_assoc. reflexivity.
Qed.
