(* Generic theorems about the combinator language, proved once by induction
   over parser terms: every parser's remainder is a suffix of its input;
   loops never run out of fuel; safety and locality are compositional. *)
From TlsModel Require Import Bytes Nom BytesLemmas.
From Coq Require Import Lia ZArith ZifyBool ZifyN.
Ltac Zify.zify_post_hook ::= Z.div_mod_to_equations.

(* ---------- remainder is a suffix ---------- *)
Definition suffix_of (i r : slice) : Prop := exists n, n <= slen i /\ r = sdrop i n.

Lemma suffix_refl i : suffix_of i i.
Proof.
  exists 0. split; [lia|]. destruct i as [o b]; unfold sdrop; cbn.
  rewrite dropN_0. f_equal; lia.
Qed.

Lemma suffix_trans i r r' : suffix_of i r -> suffix_of r r' -> suffix_of i r'.
Proof.
  intros [n [Hn ->]] [m [Hm ->]]. exists (n + m). unfold sdrop, slen in *; cbn in *.
  rewrite lenN_dropN in Hm. split; [lia|]. rewrite dropN_dropN. f_equal; lia.
Qed.

Lemma suffix_len i r : suffix_of i r -> slen r <= slen i.
Proof. intros [n [Hn ->]]. unfold slen, sdrop; cbn. rewrite lenN_dropN. lia. Qed.

Lemma suffix_same_len i r : suffix_of i r -> slen r = slen i -> r = i.
Proof.
  intros [n [Hn ->]] H. unfold slen, sdrop in *; cbn in *. rewrite lenN_dropN in H.
  assert (n = 0) by lia. subst. destruct i; cbn. rewrite dropN_0. f_equal; lia.
Qed.

Lemma suffix_sdrop i n : n <= slen i -> suffix_of i (sdrop i n).
Proof. intros H; exists n; auto. Qed.

Lemma tag_cmp_true t l : tag_cmp t l = Some true -> lenN t <= lenN l /\ takeN l (lenN t) = t.
Proof.
  revert l; induction t as [|a t IH]; intros l H; cbn [tag_cmp lenN] in *.
  - split; [lia | apply takeN_0].
  - destruct l as [|b l]; [discriminate|]. destruct (Byte.eqb a b) eqn:E; [|discriminate].
    apply Byte.byte_dec_bl in E. subst b.
    destruct (IH _ H) as [H1 H2]. cbn [lenN takeN]. split; [lia|].
    destruct (N.eqb_spec (N.succ (lenN t)) 0); [lia|]. rewrite N.pred_succ, H2. reflexivity.
Qed.

Lemma tag_cmp_none t l : tag_cmp t l = None -> lenN l < lenN t.
Proof.
  revert l; induction t as [|a t IH]; intros l H; cbn [tag_cmp lenN] in *; [discriminate|].
  destruct l as [|b l]; cbn [lenN]; [lia|]. destruct (Byte.eqb a b); [|discriminate].
  specialize (IH _ H). lia.
Qed.

Section LoopSuffix.
  Context {A : Type} (f : slice -> res A).
  Hypothesis Hf : forall i r a, f i = Ok r a -> suffix_of i r.

  Lemma many0_loop_suffix fuel : forall i r l, many0_loop f fuel i = Ok r l -> suffix_of i r.
  Proof.
    induction fuel as [|c fuel IH]; intros i r l; cbn [many0_loop];
      destruct (f i) as [r1 a| | | | |] eqn:E; try discriminate;
      try (intros H; injection H as <- <-; apply suffix_refl).
    - destruct (slen r1 =? slen i); discriminate.
    - destruct (slen r1 =? slen i); [discriminate|].
      destruct (many0_loop f fuel r1) as [r2 l2| | | | |] eqn:E2; try discriminate.
      intros H; injection H as <- <-. eapply suffix_trans; [eapply Hf; eauto | eapply IH; eauto].
  Qed.

  Lemma many1_loop_suffix fuel : forall i r l, many1_loop f fuel i = Ok r l -> suffix_of i r.
  Proof.
    induction fuel as [|c fuel IH]; intros i r l; cbn [many1_loop];
      destruct (f i) as [r1 a| | | | |] eqn:E; try discriminate;
      try (intros H; injection H as <- <-; apply suffix_refl).
    - destruct (slen r1 =? slen i); discriminate.
    - destruct (slen r1 =? slen i); [discriminate|].
      destruct (many1_loop f fuel r1) as [r2 l2| | | | |] eqn:E2; try discriminate.
      intros H; injection H as <- <-. eapply suffix_trans; [eapply Hf; eauto | eapply IH; eauto].
  Qed.
End LoopSuffix.

Theorem run_suffix : forall A (p : P A) i r a, run p i = Ok r a -> suffix_of i r.
Proof.
  induction p as [A a|A B p IHp k IHk|A k|n|k|t|A p IHp|A p IHp|A s p IHp|A p IHp|A p IHp
                 |A p IHp q IHq|A p IHp f|A p IHp| |n|A]; intros i r v; cbn [run].
  - intros H; injection H as <- <-; apply suffix_refl.
  - destruct (run p i) as [r1 a1| | | | |] eqn:E; try discriminate.
    intros H. eapply suffix_trans; [eapply IHp; eauto | eapply IHk; eauto].
  - discriminate.
  - rewrite split_at_spec. destruct (N.leb_spec n (lenN (bytes i))) as [Hle|Hgt]; [|discriminate].
    intros H; injection H as <- <-. apply (suffix_sdrop i n). exact Hle.
  - rewrite split_at_spec. destruct (N.leb_spec (N.of_nat k) (lenN (bytes i))) as [Hle|Hgt]; [|discriminate].
    intros H; injection H as <- <-. apply (suffix_sdrop i (N.of_nat k)). exact Hle.
  - destruct (tag_cmp t (bytes i)) as [[|]|] eqn:E; try discriminate.
    intros H; injection H as <- <-. apply suffix_sdrop. apply tag_cmp_true in E. unfold slen; lia.
  - destruct (run p i) as [r1 a1| | | | |] eqn:E; try discriminate. intros H; eapply IHp; rewrite E; exact H.
  - destruct (run p i) as [r1 a1| | | | |] eqn:E; try discriminate.
    + intros H; injection H as <- <-. eapply IHp; eauto.
    + intros H; injection H as <- <-. apply suffix_refl.
  - destruct (run p s) as [r1 a1| | | | |] eqn:E; try discriminate.
    intros H; injection H as <- <-. apply suffix_refl.
  - unfold many0_run. apply many0_loop_suffix. exact IHp.
  - unfold many1_run. destruct (run p i) as [r1 a1| | | | |] eqn:E; try discriminate.
    destruct (many1_loop _ _ r1) as [r2 l2| | | | |] eqn:E2; try discriminate.
    intros H; injection H as <- <-. eapply suffix_trans; [eapply IHp; eauto|].
    eapply many1_loop_suffix; [exact IHp | exact E2].
  - destruct (run p i) as [r1 a1| | | | |] eqn:E; try discriminate.
    + intros H; eapply IHp; rewrite E; exact H.
    + apply IHq.
  - destruct (run p i) as [r1 a1| | | | |] eqn:E; try discriminate.
    destruct (f a1); [|discriminate]. intros H; injection H as <- <-. eapply IHp; eauto.
  - destruct (run p i) as [r1 a1| | | | |] eqn:E; try discriminate.
    intros H; injection H as <- <-. apply suffix_refl.
  - intros H; injection H as <- <-. apply suffix_refl.
  - rewrite split_at_spec. destruct (N.leb_spec n (lenN (bytes i))) as [Hle|Hgt]; [|discriminate].
    intros H; injection H as <- <-. apply (suffix_sdrop i n). exact Hle.
  - discriminate.
Qed.

(* ---------- safety: no Panic, no OutOfFuel ---------- *)
Definition safe {A} (r : res A) : Prop :=
  match r with Panic | OutOfFuel => False | _ => True end.
Definition Safe {A} (p : P A) : Prop := forall i, safe (run p i).

Section LoopSafe.
  Context {A : Type} (f : slice -> res A).
  Hypothesis Hsuf : forall i r a, f i = Ok r a -> suffix_of i r.
  Hypothesis Hsafe : forall i, safe (f i).

  Lemma many0_loop_safe fuel : forall i, slen i <= lenN fuel -> safe (many0_loop f fuel i).
  Proof.
    induction fuel as [|c fuel IH]; intros i Hl; cbn [many0_loop lenN] in *;
      pose proof (Hsafe i) as Hs; destruct (f i) as [r1 a| | | | |] eqn:E; cbn [safe] in *; auto.
    - pose proof (suffix_len _ _ (Hsuf _ _ _ E)).
      destruct (N.eqb_spec (slen r1) (slen i)); cbn [safe]; [auto | lia].
    - pose proof (suffix_len _ _ (Hsuf _ _ _ E)).
      destruct (N.eqb_spec (slen r1) (slen i)); cbn [safe]; [auto|].
      assert (Hr : slen r1 <= lenN fuel) by lia. specialize (IH r1 Hr).
      destruct (many0_loop f fuel r1); cbn [safe] in *; auto.
  Qed.

  Lemma many1_loop_safe fuel : forall i, slen i <= lenN fuel -> safe (many1_loop f fuel i).
  Proof.
    induction fuel as [|c fuel IH]; intros i Hl; cbn [many1_loop lenN] in *;
      pose proof (Hsafe i) as Hs; destruct (f i) as [r1 a| | | | |] eqn:E; cbn [safe] in *; auto.
    - pose proof (suffix_len _ _ (Hsuf _ _ _ E)).
      destruct (N.eqb_spec (slen r1) (slen i)); cbn [safe]; [auto | lia].
    - pose proof (suffix_len _ _ (Hsuf _ _ _ E)).
      destruct (N.eqb_spec (slen r1) (slen i)); cbn [safe]; [auto|].
      assert (Hr : slen r1 <= lenN fuel) by lia. specialize (IH r1 Hr).
      destruct (many1_loop f fuel r1); cbn [safe] in *; auto.
  Qed.
End LoopSafe.

Lemma Safe_ret A (a : A) : Safe (Ret a).
Proof. intros i; exact I. Qed.
Lemma Safe_errk A k : Safe (@ErrK A k).
Proof. intros i; exact I. Qed.
Lemma Safe_bind A B (p : P A) (k : A -> P B) :
  Safe p -> (forall a, Safe (k a)) -> Safe (Bind p k).
Proof.
  intros Hp Hk i; cbn [run]. specialize (Hp i).
  destruct (run p i); cbn [safe] in *; auto. apply Hk.
Qed.
Lemma Safe_take n : Safe (Take n).
Proof. intros i; cbn [run]. destruct (split_at (bytes i) n) as [[? ?]|]; exact I. Qed.
Lemma Safe_beu k : Safe (BeU k).
Proof. intros i; cbn [run]. destruct (split_at (bytes i) _) as [[? ?]|]; exact I. Qed.
Lemma Safe_tag t : Safe (TagB t).
Proof. intros i; cbn [run]. destruct (tag_cmp t (bytes i)) as [[|]|]; exact I. Qed.
Lemma Safe_cmpl A (p : P A) : Safe p -> Safe (Cmpl p).
Proof. intros Hp i; cbn [run]. specialize (Hp i). destruct (run p i); cbn [safe] in *; auto. Qed.
Lemma Safe_opt A (p : P A) : Safe p -> Safe (Opt p).
Proof. intros Hp i; cbn [run]. specialize (Hp i). destruct (run p i); cbn [safe] in *; auto. Qed.
Lemma Safe_on A s (p : P A) : Safe p -> Safe (On s p).
Proof. intros Hp i; cbn [run]. specialize (Hp s). destruct (run p s); cbn [safe] in *; auto. Qed.
Lemma Safe_many0 A (p : P A) : Safe p -> Safe (Many0 p).
Proof.
  intros Hp i; cbn [run]. unfold many0_run. apply many0_loop_safe.
  - intros; eapply run_suffix; eauto.
  - exact Hp.
  - unfold slen; lia.
Qed.
Lemma Safe_many1 A (p : P A) : Safe p -> Safe (Many1 p).
Proof.
  intros Hp i; cbn [run]. unfold many1_run. pose proof (Hp i) as Hi.
  destruct (run p i) as [r1 a| | | | |] eqn:E; cbn [safe] in *; auto.
  assert (Hs : safe (many1_loop (fun j => run p j) (bytes i) r1)).
  { apply many1_loop_safe.
    - intros; eapply run_suffix; eauto.
    - exact Hp.
    - apply run_suffix in E. apply suffix_len in E. unfold slen in *; lia. }
  destruct (many1_loop _ _ r1); cbn [safe] in *; auto.
Qed.
Lemma Safe_alt A (p q : P A) : Safe p -> Safe q -> Safe (Alt p q).
Proof.
  intros Hp Hq i; cbn [run]. specialize (Hp i). destruct (run p i); cbn [safe] in *; auto.
Qed.
Lemma Safe_vrfy A (p : P A) f : Safe p -> Safe (Vrfy p f).
Proof.
  intros Hp i; cbn [run]. specialize (Hp i). destruct (run p i); cbn [safe] in *; auto.
  destruct (f a); exact I.
Qed.
Lemma Safe_peek A (p : P A) : Safe p -> Safe (Peek p).
Proof. intros Hp i; cbn [run]. specialize (Hp i). destruct (run p i); cbn [safe] in *; auto. Qed.
Lemma Safe_geti : Safe GetI.
Proof. intros i; exact I. Qed.

Lemma Safe_count_u8 n : Safe (count_u8 n).
Proof.
  induction n as [|n IH]; cbn [count_u8]; [apply Safe_ret|].
  apply Safe_bind; [apply Safe_beu|]. intros x. apply Safe_bind; [exact IH|]. intros; apply Safe_ret.
Qed.

(* ---------- locality: appending bytes does not change a decided outcome ---------- *)
(* [ext x r r']: r' is r with x appended to the remainder (Ok) or, for
   errors, the same kind at a position that is the same or extended by x. *)
Definition ext_rel {A} (x : list byte) (r r' : res A) : Prop :=
  match r with
  | Ok rem a => r' = Ok (sapp rem x) a
  | Err s k => exists s', r' = Err s' k /\ (s' = s \/ s' = sapp s x)
  | Fail s k => exists s', r' = Fail s' k /\ (s' = s \/ s' = sapp s x)
  | Incomplete _ => True
  | Panic => r' = Panic
  | OutOfFuel => True
  end.
Definition Stable {A} (p : P A) : Prop := forall i x, ext_rel x (run p i) (run p (sapp i x)).

Lemma Stable_ret A (a : A) : Stable (Ret a).
Proof. intros i x; cbn. reflexivity. Qed.
Lemma Stable_errk A k : Stable (@ErrK A k).
Proof. intros i x; cbn. eauto. Qed.
Lemma Stable_bind A B (p : P A) (k : A -> P B) :
  Stable p -> (forall a, Stable (k a)) -> Stable (Bind p k).
Proof.
  intros Hp Hk i x. specialize (Hp i x). cbn [run].
  destruct (run p i) as [r1 a| | | | |] eqn:E; cbn [ext_rel] in *.
  - rewrite Hp. apply Hk.
  - destruct Hp as [s' [-> Hs]]. eauto.
  - destruct Hp as [s' [-> Hs]]. eauto.
  - exact I.
  - rewrite Hp. reflexivity.
  - exact I.
Qed.
Lemma Stable_take n : Stable (Take n).
Proof.
  intros i x; cbn [run sapp bytes off]. rewrite !split_at_spec, lenN_app.
  destruct (N.leb_spec n (lenN (bytes i))); cbn [ext_rel]; [|exact I].
  destruct (N.leb_spec n (lenN (bytes i) + lenN x)); [|lia].
  rewrite takeN_app_le, dropN_app_le by lia. reflexivity.
Qed.
Lemma Stable_beu k : Stable (BeU k).
Proof.
  intros i x; cbn [run sapp bytes off]. rewrite !split_at_spec, lenN_app.
  destruct (N.leb_spec (N.of_nat k) (lenN (bytes i))); cbn [ext_rel]; [|exact I].
  destruct (N.leb_spec (N.of_nat k) (lenN (bytes i) + lenN x)); [|lia].
  rewrite takeN_app_le, dropN_app_le by lia. reflexivity.
Qed.
Lemma tag_cmp_app t l x b : tag_cmp t l = Some b -> tag_cmp t (l ++ x) = Some b.
Proof.
  revert l; induction t as [|a t IH]; intros l; cbn [tag_cmp]; [auto|].
  destruct l as [|c l]; [discriminate|]. cbn [app]. destruct (Byte.eqb a c); auto.
Qed.
Lemma Stable_tag t : Stable (TagB t).
Proof.
  intros i x; cbn [run]. destruct (tag_cmp t (bytes i)) as [[|]|] eqn:E; cbn [ext_rel]; [| |exact I].
  - cbn [sapp bytes]. rewrite (tag_cmp_app _ _ x _ E). apply tag_cmp_true in E.
    unfold sdrop, sapp; cbn. rewrite dropN_app_le by lia. reflexivity.
  - cbn [sapp bytes]. rewrite (tag_cmp_app _ _ x _ E). eauto.
Qed.
Lemma Stable_opt A (p : P A) : Stable p -> Stable (Opt p).
Proof.
  intros Hp i x. specialize (Hp i x). cbn [run].
  destruct (run p i) as [r1 a| | | | |] eqn:E; cbn [ext_rel] in *.
  - rewrite Hp. reflexivity.
  - destruct Hp as [s' [-> _]]. reflexivity.
  - destruct Hp as [s' [-> Hs]]. eauto.
  - exact I.
  - rewrite Hp; reflexivity.
  - exact I.
Qed.
Lemma Stable_on A s (p : P A) : Stable (On s p).
Proof.
  intros i x. cbn [run]. destruct (run p s); cbn [ext_rel]; eauto.
Qed.
Lemma Stable_alt A (p q : P A) : Stable p -> Stable q -> Stable (Alt p q).
Proof.
  intros Hp Hq i x. specialize (Hp i x). cbn [run].
  destruct (run p i) as [r1 a| | | | |] eqn:E; cbn [ext_rel] in *.
  - rewrite Hp. reflexivity.
  - destruct Hp as [s' [-> _]]. apply Hq.
  - destruct Hp as [s' [-> Hs]]. eauto.
  - exact I.
  - rewrite Hp; reflexivity.
  - exact I.
Qed.
Lemma Stable_vrfy A (p : P A) f : Stable p -> Stable (Vrfy p f).
Proof.
  intros Hp i x. specialize (Hp i x). cbn [run].
  destruct (run p i) as [r1 a| | | | |] eqn:E; cbn [ext_rel] in *.
  - rewrite Hp. destruct (f a); cbn [ext_rel]; eauto.
  - destruct Hp as [s' [-> Hs]]. eauto.
  - destruct Hp as [s' [-> Hs]]. eauto.
  - exact I.
  - rewrite Hp; reflexivity.
  - exact I.
Qed.
Lemma Stable_peek A (p : P A) : Stable p -> Stable (Peek p).
Proof.
  intros Hp i x. specialize (Hp i x). cbn [run].
  destruct (run p i) as [r1 a| | | | |] eqn:E; cbn [ext_rel] in *.
  - rewrite Hp. reflexivity.
  - destruct Hp as [s' [-> Hs]]. eauto.
  - destruct Hp as [s' [-> Hs]]. eauto.
  - exact I.
  - rewrite Hp; reflexivity.
  - exact I.
Qed.
Lemma Stable_count_u8 n : Stable (count_u8 n).
Proof.
  induction n as [|n IH]; cbn [count_u8]; [apply Stable_ret|].
  apply Stable_bind; [apply Stable_beu|]. intros a. apply Stable_bind; [exact IH|]. intros; apply Stable_ret.
Qed.

Create HintDb safe discriminated.
#[export] Hint Resolve Safe_ret Safe_errk Safe_take Safe_beu Safe_tag Safe_cmpl Safe_opt Safe_on
  Safe_many0 Safe_many1 Safe_alt Safe_vrfy Safe_peek Safe_geti Safe_count_u8 : safe.
Create HintDb stable discriminated.
#[export] Hint Resolve Stable_ret Stable_errk Stable_take Stable_beu Stable_tag Stable_opt Stable_on
  Stable_alt Stable_vrfy Stable_peek Stable_count_u8 : stable.
