(* Characterising rewrite lemmas for [run] on the primitive combinators. *)
From TlsModel Require Import Bytes Nom BytesLemmas NomGeneric.
From Coq Require Import Lia ZArith ZifyBool ZifyN.
Ltac Zify.zify_post_hook ::= Z.div_mod_to_equations.

Lemma sdrop_sdrop s n m : sdrop (sdrop s n) m = sdrop s (n + m).
Proof. unfold sdrop; cbn. rewrite dropN_dropN. f_equal; lia. Qed.
Lemma sdrop_0 s : sdrop s 0 = s.
Proof. destruct s; unfold sdrop; cbn. rewrite dropN_0. f_equal; lia. Qed.
Lemma slen_sdrop s n : slen (sdrop s n) = slen s - n.
Proof. unfold slen, sdrop; cbn. apply lenN_dropN. Qed.
Lemma bytes_sdrop s n : bytes (sdrop s n) = dropN (bytes s) n.
Proof. reflexivity. Qed.
Lemma off_sdrop s n : off (sdrop s n) = off s + n.
Proof. reflexivity. Qed.

Lemma run_ret A (a : A) i : run (Ret a) i = Ok i a.
Proof. reflexivity. Qed.
Lemma run_errk A k i : run (@ErrK A k) i = Err i k.
Proof. reflexivity. Qed.
Lemma run_bind A B (p : P A) (k : A -> P B) i :
  run (Bind p k) i = match run p i with
                     | Ok r a => run (k a) r
                     | Err s e => Err s e | Fail s e => Fail s e
                     | Incomplete n => Incomplete n | Panic => Panic | OutOfFuel => OutOfFuel
                     end.
Proof. reflexivity. Qed.

Lemma run_beu k i :
  run (BeU k) i = if N.of_nat k <=? slen i
                  then Ok (sdrop i (N.of_nat k)) (be_val (takeN (bytes i) (N.of_nat k)))
                  else Incomplete (mk_needed (N.of_nat k - slen i)).
Proof. cbn [run]. rewrite split_at_spec. unfold slen. destruct (N.of_nat k <=? lenN (bytes i)); reflexivity. Qed.

Lemma run_take n i :
  run (Take n) i = if n <=? slen i
                   then Ok (sdrop i n) (mkS (off i) (takeN (bytes i) n))
                   else Incomplete (mk_needed (n - slen i)).
Proof. cbn [run]. rewrite split_at_spec. unfold slen. destruct (n <=? lenN (bytes i)); reflexivity. Qed.

Lemma run_idx n i :
  run (Idx n) i = if n <=? slen i
                  then Ok (sdrop i n) (mkS (off i) (takeN (bytes i) n))
                  else Panic.
Proof. cbn [run]. rewrite split_at_spec. unfold slen. destruct (n <=? lenN (bytes i)); reflexivity. Qed.

Lemma mk_needed_pos n : 0 < n -> mk_needed n = Size n.
Proof. intros H. unfold mk_needed. destruct (N.eqb_spec n 0); [lia | reflexivity]. Qed.

(* reading from an input that starts with an encoded integer *)
Lemma run_beu_enc k v o rest :
  v < 256 ^ N.of_nat k ->
  run (BeU k) (mkS o (be_enc k v ++ rest)) = Ok (mkS (o + N.of_nat k) rest) v.
Proof.
  intros Hv. rewrite run_beu. unfold slen, sdrop; cbn [bytes off].
  rewrite lenN_app, lenN_be_enc.
  destruct (N.leb_spec (N.of_nat k) (N.of_nat k + lenN rest)); [|lia].
  rewrite takeN_app_len, dropN_app_len by (now rewrite lenN_be_enc).
  rewrite be_val_enc by exact Hv. reflexivity.
Qed.

Lemma run_take_app o (p rest : list byte) n :
  n = lenN p -> run (Take n) (mkS o (p ++ rest)) = Ok (mkS (o + n) rest) (mkS o p).
Proof.
  intros ->. rewrite run_take. unfold slen, sdrop; cbn [bytes off]. rewrite lenN_app.
  destruct (N.leb_spec (lenN p) (lenN p + lenN rest)); [|lia].
  rewrite takeN_app_exact, dropN_app_exact. reflexivity.
Qed.

Lemma run_on A s (p : P A) i :
  run (On s p) i = match run p s with
                   | Ok _ a => Ok i a
                   | Err s k => Err s k | Fail s k => Fail s k
                   | Incomplete n => Incomplete n | Panic => Panic | OutOfFuel => OutOfFuel
                   end.
Proof. reflexivity. Qed.
Lemma run_geti i : run GetI i = Ok i i.
Proof. reflexivity. Qed.
Lemma run_cmpl A (p : P A) i : run (Cmpl p) i = match run p i with Incomplete _ => Err i KComplete | r => r end.
Proof. reflexivity. Qed.
Lemma run_opt A (p : P A) i :
  run (Opt p) i = match run p i with
                  | Ok r a => Ok r (Some a)
                  | Err _ _ => Ok i None
                  | Fail s k => Fail s k
                  | Incomplete n => Incomplete n | Panic => Panic | OutOfFuel => OutOfFuel
                  end.
Proof. reflexivity. Qed.
Lemma run_peek A (p : P A) i : run (Peek p) i = match run p i with Ok _ a => Ok i a | r => r end.
Proof. reflexivity. Qed.
Lemma run_alt A (p q : P A) i : run (Alt p q) i = match run p i with Err _ _ => run q i | r => r end.
Proof. reflexivity. Qed.

Lemma run_vrfy A (p : P A) f i :
  run (Vrfy p f) i = match run p i with Ok r a => if f a then Ok r a else Err i KVerify | r => r end.
Proof. reflexivity. Qed.
