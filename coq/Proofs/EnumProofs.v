(* C11: enumerated code points that do not select the structure are accepted and preserved.
   Each statement quantifies over the whole integer domain of the field (its wire width is the
   only bound) inside an arbitrary well-formed enclosing structure. *)
From TlsModel Require Import Bytes Nom Values DispatchTypes Dispatch Handshake Record Extensions Kx Wire Strip ExtEnc KxEnc RecordSpec
  BytesLemmas RunLemmas ManyLemmas RtTactics RecordProofs MessageProofs HandshakeProofs ExtProofs KxProofs TableLemmas.
From Coq Require Import Lia ZArith ZifyBool ZifyN.

(* record content type and version (raw / encrypted records): every u8 x u16 *)
Theorem any_record_type_version ty ver payload rest o : ty < 256 -> ver < 65536 -> lenN payload <= RECORD_CAP ->
  run parse_tls_raw_record (mkS o (enc_record ty ver payload ++ rest)) =
    Ok (mkS (o + 5 + lenN payload) rest) (mkRaw (mkHdr ty ver (lenN payload)) (mkS (o + 5) payload)) /\
  run parse_tls_encrypted (mkS o (enc_record ty ver payload ++ rest)) =
    Ok (mkS (o + 5 + lenN payload) rest) (mkEnc (mkHdr ty ver (lenN payload)) (mkS (o + 5) payload)).
Proof.
  intros Ht Hv Hl. rewrite raw_spec, enc_spec. unfold framing_spec_raw, framing_spec_enc.
  rewrite framing_of_encoding by assumption. split; reflexivity.
Qed.

(* alert level and description: every u8 x u8 *)
Theorem any_alert s c rest o : s < 256 -> c < 256 ->
  run parse_tls_message_alert (mkS o (u8 s ++ u8 c ++ rest)) = Ok (mkS (o + 2) rest) (MAlert s c).
Proof.
  intros Hs Hc. unfold parse_tls_message_alert. do 2 rt_step. rewrite run_ret. f_equal. f_equal. lia.
Qed.

Section Hs.
  Hypothesis Ht : hs_tables_std = true.

  (* ClientHello: message version, every cipher-suite id, every compression id *)
  Theorem any_client_hello_codes v random sid ciphers comp ext rest o :
    v < 65536 -> Forall (fun x => x < 65536) ciphers -> Forall (fun x => x < 256) comp ->
    (* the rest is structure, not code points *)
    slen random = 32 -> wf_sid sid -> 2 * lenN ciphers < 65536 -> lenN comp < 256 -> wf_optext ext ->
    let c := mkCH v random sid ciphers comp ext in
    lenN (enc_hs_body (HClientHello c)) < 16777216 ->
    exists m', run parse_tls_message_handshake (mkS o (enc_handshake (HClientHello c) ++ rest)) =
                 Ok (mkS (o + lenN (enc_handshake (HClientHello c))) rest) m' /\ msg_eqv m' (MHandshake (HClientHello c)).
  Proof.
    intros Hv Hc Hm Hr Hs Hcl Hml He c Hl. apply (handshake_roundtrip Ht). split; [exact Hl|].
    cbn [wf_hs]. unfold wf_ch, c; cbn. tauto.
  Qed.

  (* ServerHello (the version selects the structure; cipher and compression do not) *)
  Theorem any_server_hello_codes v random sid cipher comp ext rest o :
    cipher < 65536 -> comp < 256 ->
    In v [768; 769; 770; 771] -> slen random = 32 -> wf_sid sid -> wf_optext ext -> (v = 768 -> ext = None) ->
    let c := mkSH v random sid cipher comp ext in
    lenN (enc_hs_body (HServerHello c)) < 16777216 ->
    exists m', run parse_tls_message_handshake (mkS o (enc_handshake (HServerHello c) ++ rest)) =
                 Ok (mkS (o + lenN (enc_handshake (HServerHello c))) rest) m' /\ msg_eqv m' (MHandshake (HServerHello c)).
  Proof.
    intros Hc Hm Hv Hr Hs He H3 c Hl. apply (handshake_roundtrip Ht). split; [exact Hl|].
    cbn [wf_hs]. unfold wf_sh, c; cbn [sh_version sh_random sh_sid sh_cipher sh_comp sh_ext]. tauto.
  Qed.

  (* CertificateRequest: certificate types and signature algorithms *)
  Theorem any_cert_request_codes types sigs ca rest o :
    Forall (fun x => x < 256) types -> Forall (fun x => x < 65536) sigs ->
    lenN types < 256 -> 2 * lenN sigs < 65536 -> wf_ca ca ->
    let c := mkCR types (Some sigs) ca in
    lenN (enc_hs_body (HCertificateRequest c)) < 16777216 ->
    exists m', run parse_tls_message_handshake (mkS o (enc_handshake (HCertificateRequest c) ++ rest)) =
                 Ok (mkS (o + lenN (enc_handshake (HCertificateRequest c))) rest) m' /\
               msg_eqv m' (MHandshake (HCertificateRequest c)).
  Proof.
    intros Hty Hsg Htl Hsl Hca c Hl. apply (handshake_roundtrip Ht). split; [exact Hl|].
    cbn [wf_hs]. unfold wf_cr, c; cbn [cr_types cr_sigalgs cr_ca]. tauto.
  Qed.

  (* CertificateStatus type and KeyUpdate value *)
  Theorem any_cert_status_type t blob rest o : t < 256 -> slen blob + 4 < 16777216 ->
    exists m', run parse_tls_message_handshake (mkS o (enc_handshake (HCertificateStatus t blob) ++ rest)) =
                 Ok (mkS (o + lenN (enc_handshake (HCertificateStatus t blob))) rest) m' /\
               msg_eqv m' (MHandshake (HCertificateStatus t blob)).
  Proof.
    intros Htt Hb. apply (handshake_roundtrip Ht). split.
    - cbn [enc_hs_body]. rewrite lenN_app, lenN_u8, lenN_vec24. unfold slen in Hb. lia.
    - cbn [wf_hs]. split; [exact Htt | lia].
  Qed.
  Theorem any_key_update v rest o : v < 256 ->
    exists m', run parse_tls_message_handshake (mkS o (enc_handshake (HKeyUpdate v) ++ rest)) =
                 Ok (mkS (o + lenN (enc_handshake (HKeyUpdate v))) rest) m' /\ msg_eqv m' (MHandshake (HKeyUpdate v)).
  Proof.
    intros Hv. apply (handshake_roundtrip Ht). split; [cbn [enc_hs_body]; rewrite lenN_u8; lia | exact Hv].
  Qed.
End Hs.

Section Ext.
  Hypothesis Hg : generic_ok = true.
  Hypothesis Hgr : grease_ok = true.
  Let rt := ext_roundtrip Hg Hgr.

  (* named groups and signature schemes: every list of u16 *)
  Theorem any_named_groups l rest o : all16 l -> 2 * lenN l + 2 < 65536 ->
    exists e', run parse_tls_extension (mkS o (enc_ext (EEllipticCurves l) ++ rest)) =
                 Ok (mkS (o + lenN (enc_ext (EEllipticCurves l))) rest) e' /\ ext_eqv e' (EEllipticCurves l).
  Proof.
    intros Ha Hl. apply rt; [|exact I]. split; [|exact Ha]. cbn [enc_ext_content]. rewrite lenN_vec16, lenN_cat_u16. lia.
  Qed.
  Theorem any_signature_algorithms l rest o : all16 l -> 2 * lenN l + 2 < 65536 ->
    exists e', run parse_tls_extension (mkS o (enc_ext (ESignatureAlgorithms l) ++ rest)) =
                 Ok (mkS (o + lenN (enc_ext (ESignatureAlgorithms l))) rest) e' /\ ext_eqv e' (ESignatureAlgorithms l).
  Proof.
    intros Ha Hl. apply rt; [|exact I]. split; [|exact Ha]. cbn [enc_ext_content]. rewrite lenN_vec16, lenN_cat_u16. lia.
  Qed.
  (* SNI name type (every entry of the list), status-request type, PSK modes, EC point formats *)
  Theorem any_sni_name_types l rest o : Forall (fun p => fst p < 256 /\ slen (snd p) < 65536) l ->
    lenN (enc_ext_content (ESNI l)) < 65536 ->
    exists e', run parse_tls_extension (mkS o (enc_ext (ESNI l) ++ rest)) =
                 Ok (mkS (o + lenN (enc_ext (ESNI l))) rest) e' /\ ext_eqv e' (ESNI l).
  Proof. intros Ha Hl. apply rt; [|exact I]. split; assumption. Qed.
  Theorem any_status_request_type t s rest o : t < 256 -> slen s + 1 < 65536 ->
    exists e', run parse_tls_extension (mkS o (enc_ext (EStatusRequest (Some (t, s))) ++ rest)) =
                 Ok (mkS (o + lenN (enc_ext (EStatusRequest (Some (t, s))))) rest) e' /\
               ext_eqv e' (EStatusRequest (Some (t, s))).
  Proof.
    intros Htt Hl. apply rt; [|exact I]. split; [|exact Htt]. cbn [enc_ext_content]. rewrite lenN_app, lenN_u8. unfold slen in Hl. lia.
  Qed.
  Theorem any_psk_modes l rest o : lenN l < 256 ->
    exists e', run parse_tls_extension (mkS o (enc_ext (EPskExchangeModes l) ++ rest)) =
                 Ok (mkS (o + lenN (enc_ext (EPskExchangeModes l))) rest) e' /\ ext_eqv e' (EPskExchangeModes l).
  Proof.
    intros Hl. apply rt; [|exact I]. split; [|exact Hl]. cbn [enc_ext_content]. rewrite lenN_vec8. lia.
  Qed.
  Theorem any_ec_point_formats s rest o : slen s < 256 ->
    exists e', run parse_tls_extension (mkS o (enc_ext (EEcPointFormats s) ++ rest)) =
                 Ok (mkS (o + lenN (enc_ext (EEcPointFormats s))) rest) e' /\ ext_eqv e' (EEcPointFormats s).
  Proof.
    intros Hl. apply rt; [|exact I]. split; [|exact Hl]. cbn [enc_ext_content]. rewrite lenN_vec8. unfold slen in Hl. lia.
  Qed.
End Ext.

(* named group of a named_curve ECParameters; hash / signature bytes; SCT version *)
Theorem any_ec_named_group g rest o : g < 65536 ->
  exists v', run parse_ec_parameters (mkS o (enc_ecparams (mkECP 3 (EcNamedGroup g)) ++ rest)) =
               Ok (mkS (o + lenN (enc_ecparams (mkECP 3 (EcNamedGroup g)))) rest) v' /\
             strip_ecp v' = strip_ecp (mkECP 3 (EcNamedGroup g)).
Proof. intros Hg. apply ecparams_roundtrip. unfold wf_ecparams; cbn. auto. Qed.
Theorem any_signed_algs h s data rest o : h < 256 -> s < 256 -> slen data < 65536 ->
  exists v', run parse_digitally_signed (mkS o (enc_signed (mkDS (Some (h, s)) data) ++ rest)) =
               Ok (mkS (o + lenN (enc_signed (mkDS (Some (h, s)) data))) rest) v' /\
             strip_ds v' = strip_ds (mkDS (Some (h, s)) data).
Proof.
  intros Hh Hs Hd. apply (signed_roundtrip (mkDS (Some (h, s)) data)). unfold wf_signed, fits16; cbn. tauto.
Qed.
Theorem any_sct_version v id ts ext h s sig rest o :
  v < 256 -> h < 256 -> s < 256 ->
  slen id = 32 -> ts < 2 ^ 64 -> slen ext < 65536 -> slen sig < 65536 ->
  let sct := mkSCT v id ts ext (mkDS (Some (h, s)) sig) in
  lenN (enc_sct_body sct) < 65536 ->
  exists v', run parse_ct_signed_certificate_timestamp (mkS o (enc_sct sct ++ rest)) =
               Ok (mkS (o + lenN (enc_sct sct)) rest) v' /\ strip_sct v' = strip_sct sct.
Proof.
  intros Hv Hh Hs Hid Hts He Hsg sct Hl. apply sct_roundtrip.
  unfold wf_sct, wf_signed, fits16, sct; cbn [sct_version sct_id sct_timestamp sct_ext sct_sig ds_alg ds_data].
  repeat split; auto. discriminate.
Qed.
