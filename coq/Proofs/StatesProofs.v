From TlsModel Require Import StatesTypes States Flows StateTable.
From Coq Require Import Lia.

Definition all_akinds : list akind :=
  flat_map (fun k => [AHs k true; AHs k false]) all_hs_kinds ++ [ACcs; AAlert true; AAlert false; AAppData; AHeartbeat].

Definition opt_state_beq (a b : option TlsState) : bool :=
  match a, b with
  | Some x, Some y => TlsState_beq x y
  | None, None => true
  | _, _ => false
  end.
Lemma opt_state_beq_eq a b : opt_state_beq a b = true -> a = b.
Proof.
  destruct a as [x|], b as [y|]; cbn; try discriminate; try reflexivity.
  intros H. f_equal. apply internal_TlsState_dec_bl. exact H.
Qed.

Lemma all_states_complete s : In s all_states.
Proof. destruct s; cbn; tauto. Qed.
Lemma all_akinds_complete a : In a all_akinds.
Proof. destruct a as [k b| |b| |]; [destruct k, b|idtac|destruct b|idtac|idtac]; cbn; tauto. Qed.

(* the finite obligation over the regenerated tables: every cell agrees with the spec *)
Definition cells_ok : bool :=
  forallb (fun st => forallb (fun a => forallb (fun d =>
     opt_state_beq (transition_a st a d) (spec_a st a d)) [true; false]) all_akinds) all_states.

Lemma cells_a : cells_ok = true -> forall st a d, transition_a st a d = spec_a st a d.
Proof.
  intros H st a d. unfold cells_ok in H. rewrite forallb_forall in H.
  specialize (H st (all_states_complete st)). rewrite forallb_forall in H.
  specialize (H a (all_akinds_complete a)). rewrite forallb_forall in H.
  apply opt_state_beq_eq. apply H. destruct d; cbn; tauto.
Qed.

Theorem cells : cells_ok = true -> alert_keep_severity = WARNING ->
  forall st m d, tls_state_transition st m d = spec_transition st m d.
Proof.
  intros H W st m d. unfold tls_state_transition, spec_transition. rewrite W. apply cells_a. exact H.
Qed.

(* hence for every finite message sequence *)
Definition fold_t (f : TlsState -> mkind -> bool -> option TlsState) (st : TlsState) (l : list (mkind * bool)) : TlsState :=
  fold_left (fun s md => match f s (fst md) (snd md) with Some s' => s' | None => SInvalid end) l st.
Theorem sequences : cells_ok = true -> alert_keep_severity = WARNING ->
  forall l st, fold_t tls_state_transition st l = fold_t spec_transition st l.
Proof.
  intros H W l. induction l as [|[m d] t IH]; intros st; cbn [fold_t fold_left fst snd]; [reflexivity|].
  rewrite (cells H W). apply IH.
Qed.

(* every documented flow is accepted end to end, in every allowed direction of each step *)
Fixpoint run_path (st : TlsState) (p : list step) : bool :=
  match p with
  | [] => true
  | (m, w, to) :: t =>
      forallb (fun d => opt_state_beq (transition_a st (inst m) d) (Some to)) (dirs w) && run_path to t
  end.
Definition flows_ok : bool := forallb (fun f => run_path (fst f) (snd f)) flows.

(* corollaries in the property's words, from the spec side *)
Lemma spec_invalid m d : spec_transition SInvalid m d = Some SInvalid.
Proof. reflexivity. Qed.
Lemma spec_encrypted m d : spec_transition SSessionEncrypted m d = Some SSessionEncrypted.
Proof. reflexivity. Qed.
Lemma spec_finished m d : spec_transition SFinished m d = Some SInvalid.
Proof. reflexivity. Qed.
Definition live (st : TlsState) : Prop := st <> SInvalid /\ st <> SSessionEncrypted /\ st <> SFinished.
Lemma spec_alert st sev code d : live st ->
  spec_transition st (MkAlert sev code) d = Some (if sev =? WARNING then st else SFinished).
Proof. intros [H1 [H2 H3]]. destruct st; try reflexivity; congruence. Qed.
Lemma spec_hello_request st sid d : live st -> st <> SNone ->
  spec_transition st (MkHs KHelloRequest sid) d = Some st.
Proof. intros [H1 [H2 H3]] H4. destruct st, d; try reflexivity; congruence. Qed.
Lemma spec_hello_request_none sid d : spec_transition SNone (MkHs KHelloRequest sid) d = None.
Proof. destruct d; reflexivity. Qed.
(* a handshake message is accepted only from the peer the flows name as its sender *)
Definition senders_ok : bool :=
  forallb (fun st => forallb (fun k => forallb (fun sid => forallb (fun d =>
    match spec_a st (AHs k sid) d with
    | Some to =>
        TlsState_beq st SInvalid || TlsState_beq st SSessionEncrypted || TlsState_beq st SFinished ||
        hs_kind_beq k KHelloRequest ||
        existsb (fun e => let '(from, m, w, to') := e in
                          TlsState_beq from st && stepmsg_m m (AHs k sid) && who_m w d && TlsState_beq to' to) edges
    | None => true
    end) [true; false]) [true; false]) all_hs_kinds) all_states.
