(* C16: the multi-record parsers equal repeated single-record parsing. *)
From TlsModel Require Import Bytes Nom Values Handshake Record Dtls BytesLemmas NomGeneric RunLemmas ManyLemmas SafeProofs.
From Coq Require Import Lia ZArith ZifyBool ZifyN.
Ltac Zify.zify_post_hook ::= Z.div_mod_to_equations.

(* no term of the combinator language produces nom's Failure *)
Definition no_fail {A} (r : res A) : Prop := match r with Fail _ _ => False | _ => True end.
Section LoopNoFail.
  Context {A : Type} (f : slice -> res A).
  Hypothesis Hf : forall i, no_fail (f i).
  Lemma many0_loop_no_fail fuel : forall i, no_fail (many0_loop f fuel i).
  Proof.
    induction fuel as [|c fuel IH]; intros i; cbn [many0_loop]; specialize (Hf i); destruct (f i); cbn [no_fail] in *; auto.
    - destruct (slen rem =? slen i); exact I.
    - destruct (slen rem =? slen i); [exact I|]. specialize (IH rem). destruct (many0_loop f fuel rem); cbn [no_fail] in *; auto.
  Qed.
  Lemma many1_loop_no_fail fuel : forall i, no_fail (many1_loop f fuel i).
  Proof.
    induction fuel as [|c fuel IH]; intros i; cbn [many1_loop]; specialize (Hf i); destruct (f i); cbn [no_fail] in *; auto.
    - destruct (slen rem =? slen i); exact I.
    - destruct (slen rem =? slen i); [exact I|]. specialize (IH rem). destruct (many1_loop f fuel rem); cbn [no_fail] in *; auto.
  Qed.
End LoopNoFail.

Theorem run_no_fail : forall A (p : P A) i, no_fail (run p i).
Proof.
  induction p as [A a|A B p IHp k IHk|A k|n|k|t|A p IHp|A p IHp|A s p IHp|A p IHp|A p IHp
                 |A p IHp q IHq|A p IHp f|A p IHp| |n|A]; intros i; cbn [run]; try exact I.
  - specialize (IHp i). destruct (run p i); cbn [no_fail] in *; auto.
  - destruct (split_at (bytes i) n) as [[? ?]|]; exact I.
  - destruct (split_at (bytes i) (N.of_nat k)) as [[? ?]|]; exact I.
  - destruct (tag_cmp t (bytes i)) as [[|]|]; exact I.
  - specialize (IHp i). destruct (run p i); cbn [no_fail] in *; auto.
  - specialize (IHp i). destruct (run p i); cbn [no_fail] in *; auto.
  - specialize (IHp s). destruct (run p s); cbn [no_fail] in *; auto.
  - unfold many0_run. apply many0_loop_no_fail. exact IHp.
  - unfold many1_run. pose proof (IHp i) as Hi. destruct (run p i) eqn:E; cbn [no_fail] in *; auto.
    pose proof (many1_loop_no_fail (fun j => run p j) IHp (bytes i) rem) as H2.
    destruct (many1_loop _ _ rem); cbn [no_fail] in *; auto.
  - specialize (IHp i). destruct (run p i); cbn [no_fail] in *; auto.
  - specialize (IHp i). destruct (run p i); cbn [no_fail] in *; auto. destruct (f a); exact I.
  - specialize (IHp i). destruct (run p i); cbn [no_fail] in *; auto.
  - destruct (split_at (bytes i) n) as [[? ?]|]; exact I.
Qed.

(* a parser that always consumes at least one byte when it succeeds *)
Definition progress {A} (p : P A) : Prop := forall i r v, run p i = Ok r v -> slen r < slen i.
Lemma progress_beu k : (0 < k)%nat -> progress (BeU k).
Proof.
  intros Hk i r v. rewrite run_beu. destruct (N.leb_spec (N.of_nat k) (slen i)) as [Hle|Hgt]; [|discriminate].
  intros Hr; injection Hr as <- _. rewrite slen_sdrop. lia.
Qed.
Lemma progress_bind_l A B (p : P A) (k : A -> P B) : progress p -> progress (Bind p k).
Proof.
  intros Hp i r v. rewrite run_bind. destruct (run p i) as [r1 a| | | | |] eqn:E; try discriminate.
  intros H. apply Hp in E. apply run_suffix, suffix_len in H. lia.
Qed.
Lemma progress_plaintext : progress parse_tls_plaintext.
Proof.
  unfold parse_tls_plaintext, parse_tls_record_header, be_u8.
  apply progress_bind_l, progress_bind_l, progress_beu. lia.
Qed.
Lemma progress_dtls_plaintext : progress parse_dtls_plaintext_record.
Proof.
  unfold parse_dtls_plaintext_record, parse_dtls_record_header, be_u8.
  apply progress_bind_l, progress_bind_l, progress_beu. lia.
Qed.

(* specification: apply the single-record parser repeatedly from the start of the buffer for as long
   as it succeeds (fuel = the bytes themselves) *)
Section Iter.
  Context {A : Type} (f : slice -> res A).
  Fixpoint iterate (fuel : list byte) (i : slice) : list A * slice :=
    match f i with
    | Ok r a =>
        if slen r =? slen i then ([], i) else
        match fuel with
        | [] => ([], i)
        | _ :: fuel' => let (l, rem) := iterate fuel' r in (a :: l, rem)
        end
    | _ => ([], i)
    end.
End Iter.

Section ManyIsIterate.
  Context {A : Type} (p : P A).
  Hypothesis Hprog : progress p.
  Hypothesis Hsafe : Safe p.

  Lemma iterate_fuel : forall fuel1 fuel2 i, slen i <= lenN fuel1 -> slen i <= lenN fuel2 ->
    iterate (fun j => run p j) fuel1 i = iterate (fun j => run p j) fuel2 i.
  Proof.
    induction fuel1 as [|c1 fuel1 IH]; intros [|c2 fuel2] i H1 H2; cbn [iterate lenN] in *;
      destruct (run p i) as [r a| | | | |] eqn:E; try reflexivity;
      pose proof (Hprog _ _ _ E) as Hp; try lia.
    destruct (N.eqb_spec (slen r) (slen i)); [lia|]. rewrite (IH fuel2 r) by lia. reflexivity.
  Qed.

  Lemma loop_is_iterate fuel : forall i, slen i <= lenN fuel ->
    many1_loop (fun j => run (Cmpl p) j) fuel i =
      (let (l, rem) := iterate (fun j => run p j) fuel i in Ok rem l).
  Proof.
    induction fuel as [|c fuel IH]; intros i Hl; cbn [many1_loop iterate run];
      pose proof (run_no_fail _ p i) as Hnf; pose proof (Hsafe i) as Hs;
      destruct (run p i) as [r a| | |n| |] eqn:E; cbn [no_fail safe] in *; try contradiction; try reflexivity.
    - apply Hprog in E. cbn [lenN] in Hl. lia.
    - pose proof (Hprog _ _ _ E) as Hp. destruct (N.eqb_spec (slen r) (slen i)); [lia|].
      cbn [lenN] in Hl. rewrite IH by lia. destruct (iterate _ fuel r). reflexivity.
  Qed.

  Theorem many1_is_iterate i :
    run (Many1 (Cmpl p)) i =
      match iterate (fun j => run p j) (bytes i) i with
      | ([], _) => match run p i with
                   | Incomplete _ => Err i KComplete
                   | Err s k => Err s k
                   | _ => Err i KComplete  (* unreachable: the first record succeeded with progress *)
                   end
      | (recs, rem) => Ok rem recs
      end.
  Proof.
    rewrite run_many1. unfold many1_run. cbv beta. cbn [run].
    pose proof (run_no_fail _ p i) as Hnf. pose proof (Hsafe i) as Hs.
    destruct (bytes i) as [|c fuel] eqn:Eb.
    - (* empty input: p cannot succeed with progress *)
      cbn [iterate]. destruct (run p i) as [r a| | |n| |] eqn:E; cbn [no_fail safe] in *; try contradiction; try reflexivity.
      apply Hprog in E. unfold slen in E. rewrite Eb in E. cbn [lenN] in E. lia.
    - cbn [iterate]. destruct (run p i) as [r a| | |n| |] eqn:E; cbn [no_fail safe] in *; try contradiction; try reflexivity.
      pose proof (Hprog _ _ _ E) as Hp. destruct (N.eqb_spec (slen r) (slen i)); [lia|].
      assert (Hr : slen r <= lenN fuel) by (unfold slen in Hp; rewrite Eb in Hp; cbn [lenN] in Hp; unfold slen; lia).
      pose proof (loop_is_iterate fuel r Hr) as Hl.
      (* the loop was started with fuel c :: fuel; one more cell does not change its result *)
      assert (Hl' : many1_loop (fun j => run (Cmpl p) j) (c :: fuel) r =
                    (let (l, rem) := iterate (fun j => run p j) (c :: fuel) r in Ok rem l)).
      { apply loop_is_iterate. cbn [lenN]. lia. }
      cbn [run] in Hl'. rewrite Hl'. clear Hl'.
      assert (Hfuel : iterate (fun j => run p j) (c :: fuel) r = iterate (fun j => run p j) fuel r)
        by (apply iterate_fuel; cbn [lenN]; lia).
      rewrite Hfuel. destruct (iterate _ fuel r). reflexivity.
  Qed.

  (* failure iff the very first record does not parse *)
  Corollary many1_fails_iff i :
    (exists r v, run (Many1 (Cmpl p)) i = Ok r v) <-> (exists r v, run p i = Ok r v).
  Proof.
    rewrite many1_is_iterate. destruct (bytes i) as [|c fuel] eqn:Eb; cbn [iterate];
      pose proof (run_no_fail _ p i) as Hnf; pose proof (Hsafe i) as Hs;
      destruct (run p i) as [r a| | |n| |] eqn:E; cbn [no_fail safe] in *; try contradiction;
      try (split; intros [? [? H]]; discriminate).
    - apply Hprog in E. unfold slen in E. rewrite Eb in E. cbn [lenN] in E. lia.
    - pose proof (Hprog _ _ _ E) as Hp. destruct (N.eqb_spec (slen r) (slen i)); [lia|].
      destruct (iterate _ fuel r). split; intros _; eauto.
  Qed.
End ManyIsIterate.

Theorem tls_many_is_iterate i :
  run tls_parser_many i =
    match iterate (fun j => run parse_tls_plaintext j) (bytes i) i with
    | ([], _) => match run parse_tls_plaintext i with
                 | Incomplete _ => Err i KComplete | Err s k => Err s k | _ => Err i KComplete end
    | (recs, rem) => Ok rem recs
    end.
Proof. apply many1_is_iterate; [exact progress_plaintext | exact Safe_plaintext]. Qed.

Theorem dtls_many_is_iterate i :
  run parse_dtls_plaintext_records i =
    match iterate (fun j => run parse_dtls_plaintext_record j) (bytes i) i with
    | ([], _) => match run parse_dtls_plaintext_record i with
                 | Incomplete _ => Err i KComplete | Err s k => Err s k | _ => Err i KComplete end
    | (recs, rem) => Ok rem recs
    end.
Proof. apply many1_is_iterate; [exact progress_dtls_plaintext | exact Safe_dplain]. Qed.

Theorem tls_parser_alias i : run tls_parser i = run parse_tls_plaintext i.
Proof. reflexivity. Qed.
