From Coq Require Import String Ascii NArith List Bool Lia.
From TlsModel Require Import NtTypes NewtypeEnum ConstTables KeyBits IanaConsts NtSpec.
Import ListNotations.
Open Scope N_scope.

(* ---------- tables as finite maps ---------- *)
Definition kv_eqb (a b : string * N) : bool := String.eqb (fst a) (fst b) && (snd a =? snd b).
Lemma kv_eqb_eq a b : kv_eqb a b = true -> a = b.
Proof.
  destruct a as [k v], b as [k' v']; unfold kv_eqb; cbn. intros H. apply andb_prop in H as [H1 H2].
  apply String.eqb_eq in H1. apply N.eqb_eq in H2. congruence.
Qed.
Lemma kv_eqb_refl a : kv_eqb a a = true.
Proof. destruct a; unfold kv_eqb; cbn. now rewrite String.eqb_refl, N.eqb_refl. Qed.
Definition subset_b (a b : list (string * N)) : bool := forallb (fun x => existsb (kv_eqb x) b) a.
Definition same_map (a b : list (string * N)) : bool := subset_b a b && subset_b b a.
Lemma subset_b_In a b : subset_b a b = true -> forall x, In x a -> In x b.
Proof.
  unfold subset_b. rewrite forallb_forall. intros H x Hx. specialize (H x Hx).
  apply existsb_exists in H as [y [Hy E]]. apply kv_eqb_eq in E. now subst.
Qed.
Lemma same_map_iff a b : same_map a b = true -> forall x, In x a <-> In x b.
Proof. unfold same_map. intros H. apply andb_prop in H as [H1 H2]. split; eapply subset_b_In; eauto. Qed.

Fixpoint nodupb (l : list N) : bool :=
  match l with [] => true | x :: t => negb (existsb (N.eqb x) t) && nodupb t end.
Lemma nodupb_NoDup l : nodupb l = true -> NoDup l.
Proof.
  induction l as [|x t IH]; cbn; [constructor|]. intros H. apply andb_prop in H as [H1 H2].
  constructor; [|auto]. intros Hin. apply negb_true_iff in H1.
  assert (existsb (N.eqb x) t = true) by (apply existsb_exists; exists x; split; [auto | apply N.eqb_refl]).
  congruence.
Qed.

Lemma first_name_In n l k : first_name n l = Some k -> In (k, n) l.
Proof.
  induction l as [|[k' v] t IH]; cbn; [discriminate|].
  destruct (N.eqb_spec v n) as [->|]; [intros H; injection H as ->; auto | auto].
Qed.
Lemma In_first_name n l k : NoDup (map snd l) -> In (k, n) l -> first_name n l = Some k.
Proof.
  induction l as [|[k' v] t IH]; cbn; [tauto|]. intros Hnd [H|H].
  - injection H as -> ->. now rewrite N.eqb_refl.
  - inversion Hnd as [|? ? Hx Hnd']; subst. destruct (N.eqb_spec v n) as [->|]; [|auto].
    exfalso. apply Hx. apply (in_map snd) in H. exact H.
Qed.
Lemma first_name_lookup n l : first_name n l = lookup_name n l.
Proof. induction l as [|[k v] t IH]; cbn; [reflexivity|]. now rewrite IH. Qed.

Lemma lookup_agree a b n :
  same_map a b = true -> NoDup (map snd a) -> NoDup (map snd b) -> first_name n a = lookup_name n b.
Proof.
  intros Hs Ha Hb. rewrite <- (first_name_lookup n b). pose proof (same_map_iff a b Hs) as Hi.
  destruct (first_name n a) as [k|] eqn:E.
  - symmetry. apply In_first_name; [exact Hb|]. apply Hi. now apply first_name_In.
  - destruct (first_name n b) as [k|] eqn:E'; [|reflexivity].
    apply first_name_In, Hi in E'. apply (In_first_name n a k Ha) in E'. congruence.
Qed.

(* the obligation over the regenerated tables *)
Definition table_ok (t : nt_type) : bool :=
  let i := iana_of (nt_name t) iana_all in
  same_map (nt_consts t) i && nodupb (map snd (nt_consts t)) && nodupb (map snd i)
  && existsb (fun e => String.eqb (fst e) (nt_name t)) iana_all.
Definition tables_ok : bool :=
  forallb table_ok nt_all && (N.of_nat (length nt_all) =? N.of_nat (length iana_all)).

Theorem values : tables_ok = true ->
  forall t, In t nt_all -> forall k v, In (k, v) (nt_consts t) <-> In (k, v) (iana_of (nt_name t) iana_all).
Proof.
  intros H t Ht k v. apply andb_prop in H as [H _]. rewrite forallb_forall in H. specialize (H t Ht).
  unfold table_ok in H. apply andb_prop in H as [H _]. apply andb_prop in H as [H _]. apply andb_prop in H as [H _].
  now apply same_map_iff.
Qed.

Theorem display_spec : tables_ok = true ->
  forall t, In t nt_all -> forall n,
    display t n = match lookup_name n (iana_of (nt_name t) iana_all) with
                  | Some k => k
                  | None => fallback t n
                  end.
Proof.
  intros H t Ht n. apply andb_prop in H as [H _]. rewrite forallb_forall in H. specialize (H t Ht).
  unfold table_ok in H. apply andb_prop in H as [H _]. apply andb_prop in H as [H H3]. apply andb_prop in H as [H H2].
  unfold display. rewrite (lookup_agree (nt_consts t) (iana_of (nt_name t) iana_all) n); auto using nodupb_NoDup.
Qed.

Lemma append_assoc (a b c : string) : ((a ++ b) ++ c = a ++ (b ++ c))%string.
Proof. induction a as [|x a IH]; cbn; [reflexivity | now rewrite IH]. Qed.
Theorem fallback_contains_value t n : exists a b, fallback t n = (a ++ sdec n ++ b)%string.
Proof.
  exists (nt_name t ++ "(")%string, (" / 0x" ++ shex n ++ ")")%string.
  unfold fallback. now rewrite append_assoc.
Qed.

(* ---------- SignatureScheme helpers ---------- *)
Theorem sigscheme s : s < 65536 ->
  sig_hash_alg s = s / 256 /\ sig_sign_alg s = s mod 256 /\
  (sig_is_reserved s = true <-> 65024 <= s <= 65279).
Proof.
  intros Hs. unfold sig_hash_alg, sig_sign_alg, sig_is_reserved.
  change 255 with (N.ones 8). rewrite !N.land_ones, N.shiftr_div_pow2.
  change (2 ^ 8) with 256. split; [|split; [|split]].
  - rewrite N.mod_mod by lia. apply N.mod_small. apply N.div_lt_upper_bound; lia.
  - rewrite N.mod_mod by lia. reflexivity.
  - intros Hr. apply andb_prop in Hr as [H1 H2]. apply N.leb_le in H1. apply N.ltb_lt in H2. lia.
  - intros Hr. apply andb_true_intro. split; [apply N.leb_le | apply N.ltb_lt]; lia.
Qed.

(* ---------- key_bits ---------- *)
Definition opt_N_eqb (a b : option N) : bool :=
  match a, b with Some x, Some y => x =? y | None, None => true | _, _ => false end.
Lemma opt_N_eqb_eq a b : opt_N_eqb a b = true -> a = b.
Proof. destruct a, b; cbn; try discriminate; try reflexivity. intros H; apply N.eqb_eq in H; now subst. Qed.

Definition arms_in_registry : bool :=
  forallb (fun a => existsb (fun kv => snd kv =? snd (fst a)) iana_NamedGroup) key_bits_arms.
Definition named_rows_ok : bool :=
  forallb (fun kv => match curve_bits (fst kv) with
                     | Some b => opt_N_eqb (key_bits (snd kv)) (Some b)
                     | None => true
                     end) iana_NamedGroup.

Lemma key_bits_in_some g arms b : key_bits_in g arms = Some b -> exists nm, In (nm, g, b) arms.
Proof.
  induction arms as [|[[nm v] bits] t IH]; cbn; [discriminate|].
  destruct (N.eqb_spec g v) as [->|]; [intros H; injection H as ->; eauto|].
  intros H. destruct (IH H) as [nm' Hin]. eauto.
Qed.
Lemma lookup_name_none n l : lookup_name n l = None -> forall k, ~ In (k, n) l.
Proof.
  induction l as [|[k' v] t IH]; cbn; [tauto|]. destruct (N.eqb_spec v n) as [->|Hne]; [discriminate|].
  intros H k [E|Hin]; [injection E as _ E'; congruence | eapply IH; eauto].
Qed.

Lemma key_bits_unreg_gen (reg : list (string * N)) (arms : list (string * N * N)) :
  forallb (fun a => existsb (fun kv => snd kv =? snd (fst a)) reg) arms = true ->
  forall g, lookup_name g reg = None -> key_bits_in g arms = None.
Proof.
  intros H g Hn. destruct (key_bits_in g arms) as [b|] eqn:E; [|reflexivity]. exfalso.
  apply key_bits_in_some in E as [nm Hin]. rewrite forallb_forall in H.
  specialize (H _ Hin). apply existsb_exists in H as [[k v] [Hk Hv]].
  cbn [fst snd] in Hv. apply N.eqb_eq in Hv. subst v. eapply lookup_name_none; eauto.
Qed.
Theorem key_bits_unregistered : arms_in_registry = true ->
  forall g, lookup_name g iana_NamedGroup = None -> key_bits g = None.
Proof. intros H. exact (key_bits_unreg_gen iana_NamedGroup key_bits_arms H). Qed.

Lemma key_bits_named_gen (reg : list (string * N)) (kb : N -> option N) :
  forallb (fun kv => match curve_bits (fst kv) with
                     | Some b => opt_N_eqb (kb (snd kv)) (Some b)
                     | None => true
                     end) reg = true ->
  forall nm g b, In (nm, g) reg -> curve_bits nm = Some b -> kb g = Some b.
Proof.
  intros H nm g b Hin Hb. rewrite forallb_forall in H.
  specialize (H _ Hin). cbn [fst snd] in H. rewrite Hb in H. now apply opt_N_eqb_eq.
Qed.
Theorem key_bits_named : named_rows_ok = true ->
  forall nm g b, In (nm, g) iana_NamedGroup -> curve_bits nm = Some b -> key_bits g = Some b.
Proof. intros H. exact (key_bits_named_gen iana_NamedGroup key_bits H). Qed.
