(* C06, provenance: every slice reachable from a value returned by a parser is a sub-slice of the
   caller's input that ends before the remainder starts (offsets are absolute, so "sub-slice" means
   the same bytes at the same address).  Compositional over the combinator language. *)
From TlsModel Require Import Bytes Nom Values BytesLemmas NomGeneric.
From Coq Require Import Lia ZArith ZifyBool ZifyN.

(* s is a sub-slice of c: same bytes at the corresponding absolute offset *)
Definition within (c s : slice) : Prop :=
  exists pre post, bytes c = pre ++ bytes s ++ post /\ off s = off c + lenN pre.
(* ... of the input i, ending at or before the start of the remainder r *)
Definition before (i r s : slice) : Prop := within i s /\ off s + slen s <= off r.

Lemma within_refl c : within c c.
Proof. exists [], []. cbn [app lenN]. rewrite app_nil_r. split; [reflexivity | lia]. Qed.
Lemma within_trans a b c : within a b -> within b c -> within a c.
Proof.
  intros [p1 [q1 [H1 O1]]] [p2 [q2 [H2 O2]]]. exists (p1 ++ p2), (q2 ++ q1). split.
  - rewrite H1, H2. repeat rewrite <- app_assoc. reflexivity.
  - rewrite lenN_app. lia.
Qed.
Lemma suffix_within i r : suffix_of i r -> within i r.
Proof.
  intros [n [Hn ->]]. exists (takeN (bytes i) n), []. unfold sdrop; cbn [bytes off].
  rewrite app_nil_r, takeN_dropN, lenN_takeN by (unfold slen in Hn; exact Hn). split; reflexivity.
Qed.
Lemma suffix_off i r : suffix_of i r -> off i <= off r /\ off r + slen r = off i + slen i.
Proof.
  intros [n [Hn ->]]. unfold sdrop, slen in *; cbn [bytes off]. rewrite lenN_dropN. lia.
Qed.
Lemma within_off c s : within c s -> off c <= off s /\ off s + slen s <= off c + slen c.
Proof.
  intros [p [q [H O]]]. unfold slen. rewrite H, !lenN_app. lia.
Qed.
Lemma before_mono1 i r1 r2 s : suffix_of r1 r2 -> before i r1 s -> before i r2 s.
Proof. intros H2 [Hw Ho]. split; [exact Hw|]. apply suffix_off in H2. lia. Qed.
Lemma before_mono2 i r1 r2 s : suffix_of i r1 -> before r1 r2 s -> before i r2 s.
Proof. intros H1 [Hw Ho]. split; [|exact Ho]. eapply within_trans; [apply suffix_within; exact H1 | exact Hw]. Qed.

(* the slices reachable from a value *)
Class HasSlices (A : Type) := slices : A -> list slice.
#[export] Instance HS_N : HasSlices N := fun _ => [].
#[export] Instance HS_bool : HasSlices bool := fun _ => [].
#[export] Instance HS_unit : HasSlices unit := fun _ => [].
#[export] Instance HS_byte : HasSlices byte := fun _ => [].
#[export] Instance HS_slice : HasSlices slice := fun s => [s].
#[export] Instance HS_option A `{HasSlices A} : HasSlices (option A) :=
  fun o => match o with Some a => slices a | None => [] end.
#[export] Instance HS_prod A B `{HasSlices A} `{HasSlices B} : HasSlices (A * B) :=
  fun p => slices (fst p) ++ slices (snd p).
#[export] Instance HS_list A `{HasSlices A} : HasSlices (list A) := fun l => flat_map slices l.

Class NoSlices A `{HasSlices A} := no_slices : forall v : A, slices v = [].
#[export] Instance NS_N : NoSlices N. Proof. intros v; reflexivity. Qed.
#[export] Instance NS_bool : NoSlices bool. Proof. intros v; reflexivity. Qed.
#[export] Instance NS_unit : NoSlices unit. Proof. intros v; reflexivity. Qed.
#[export] Instance NS_byte : NoSlices byte. Proof. intros v; reflexivity. Qed.
#[export] Instance NS_option A `{NoSlices A} : NoSlices (option A).
Proof. intros [a|]; [exact (no_slices a) | reflexivity]. Qed.
#[export] Instance NS_prod A B `{NoSlices A} `{NoSlices B} : NoSlices (A * B).
Proof. intros [a b]. unfold slices, HS_prod; cbn [fst snd]. rewrite (no_slices a), (no_slices b). reflexivity. Qed.
#[export] Instance NS_list A `{NoSlices A} : NoSlices (list A).
Proof.
  intros l. unfold slices, HS_list. induction l as [|a t IH]; cbn [flat_map]; [reflexivity|].
  rewrite IH, (no_slices a). reflexivity.
Qed.

Definition allowed (ctx : list slice) (s : slice) : Prop := exists c, In c ctx /\ within c s.
Lemma allowed_in ctx s : In s ctx -> allowed ctx s.
Proof. intros H; exists s; split; [exact H | apply within_refl]. Qed.
Lemma allowed_app_r a ctx s : allowed ctx s -> allowed (a ++ ctx) s.
Proof. intros [c [Hc Hw]]. exists c. split; [apply in_or_app; right; exact Hc | exact Hw]. Qed.

(* provenance relative to a context of slices already known to be fine *)
Definition ProvC {A} `{HasSlices A} (ctx : list slice) (p : P A) : Prop :=
  forall i r v, run p i = Ok r v -> forall s, In s (slices v) -> allowed ctx s \/ before i r s.

Section Lemmas.
  Context {A : Type} `{HA : HasSlices A}.

  Lemma ProvC_noslices ctx (p : P A) `{!NoSlices A} : ProvC ctx p.
  Proof. intros i r v _ s Hs. rewrite (no_slices v) in Hs. destruct Hs. Qed.
  Lemma ProvC_ret ctx (a : A) : (forall s, In s (slices a) -> In s ctx) -> ProvC ctx (Ret a).
  Proof. intros H i r v E s Hs. cbn [run] in E. injection E as <- <-. left. apply allowed_in, H, Hs. Qed.
  Lemma ProvC_errk ctx k : ProvC ctx (@ErrK A k).
  Proof. intros i r v E. discriminate E. Qed.
  Lemma ProvC_panic ctx : ProvC ctx (@PanicP A).
  Proof. intros i r v E. discriminate E. Qed.

  Lemma ProvC_bind B `{HB : HasSlices B} ctx (p : P B) (k : B -> P A) :
    ProvC ctx p -> (forall b, ProvC (slices b ++ ctx) (k b)) -> ProvC ctx (Bind p k).
  Proof.
    intros Hp Hk i r v E s Hs. cbn [run] in E.
    destruct (run p i) as [r1 b| | | | |] eqn:E1; try discriminate E.
    pose proof (run_suffix _ _ _ _ _ E1) as S1. pose proof (run_suffix _ _ _ _ _ E) as S2.
    destruct (Hk b r1 r v E s Hs) as [[c [Hc Hw]]|Hb].
    - apply in_app_or in Hc as [Hc|Hc].
      + destruct (Hp i r1 b E1 c Hc) as [[c' [Hc' Hw']]|[Hw' Ho]].
        * left. exists c'. split; [exact Hc' | eapply within_trans; eauto].
        * right. split; [eapply within_trans; eauto|].
          apply within_off in Hw. apply suffix_off in S2. lia.
      + left. exists c. split; assumption.
    - right. eapply before_mono2; eauto.
  Qed.
  (* when the first result is only inspected (GetI, Idx, Peek: lengths and decoded integers) *)
  Lemma ProvC_bind_any B ctx (p : P B) (k : B -> P A) :
    (forall b, ProvC ctx (k b)) -> ProvC ctx (Bind p k).
  Proof.
    intros Hk i r v E s Hs. cbn [run] in E.
    destruct (run p i) as [r1 b| | | | |] eqn:E1; try discriminate E.
    pose proof (run_suffix _ _ _ _ _ E1) as S1.
    destruct (Hk b r1 r v E s Hs) as [Ha|Hb]; [left; exact Ha | right; eapply before_mono2; eauto].
  Qed.
  Lemma ProvC_cmpl ctx (p : P A) : ProvC ctx p -> ProvC ctx (Cmpl p).
  Proof. intros Hp i r v E. cbn [run] in E. destruct (run p i) eqn:E1; try discriminate E. injection E as <- <-. eapply Hp; eauto. Qed.
  Lemma ProvC_alt ctx (p q : P A) : ProvC ctx p -> ProvC ctx q -> ProvC ctx (Alt p q).
  Proof.
    intros Hp Hq i r v E. cbn [run] in E. destruct (run p i) eqn:E1; try discriminate E.
    - injection E as <- <-. eapply Hp; eauto.
    - eapply Hq; eauto.
  Qed.
  Lemma ProvC_vrfy ctx (p : P A) f : ProvC ctx p -> ProvC ctx (Vrfy p f).
  Proof.
    intros Hp i r v E. cbn [run] in E. destruct (run p i) eqn:E1; try discriminate E.
    destruct (f a); [|discriminate E]. injection E as <- <-. eapply Hp; eauto.
  Qed.
  Lemma ProvC_on ctx s0 (p : P A) : In s0 ctx -> ProvC ctx p -> ProvC ctx (On s0 p).
  Proof.
    intros Hin Hp i r v E s Hs. cbn [run] in E. destruct (run p s0) as [r1 a| | | | |] eqn:E1; try discriminate E.
    injection E as <- <-. destruct (Hp s0 r1 a E1 s Hs) as [Ha|[Hw _]]; [left; exact Ha|].
    left. exists s0. split; assumption.
  Qed.
  Lemma ProvC_weaken ctx ctx' (p : P A) : (forall s, In s ctx -> In s ctx') -> ProvC ctx p -> ProvC ctx' p.
  Proof.
    intros Hsub Hp i r v E s Hs. destruct (Hp i r v E s Hs) as [[c [Hc Hw]]|Hb]; [left|right; exact Hb].
    exists c. split; [apply Hsub, Hc | exact Hw].
  Qed.
End Lemmas.

Lemma ProvC_take ctx n : ProvC ctx (Take n).
Proof.
  intros i r v E s Hs. cbn [run] in E. rewrite split_at_spec in E.
  destruct (N.leb_spec n (lenN (bytes i))) as [Hl|Hl]; [|discriminate E]. injection E as <- <-.
  destruct Hs as [<-|[]]. right. split.
  - exists [], (dropN (bytes i) n). cbn [bytes off app lenN]. rewrite takeN_dropN. split; [reflexivity | lia].
  - unfold slen; cbn [bytes off]. rewrite lenN_takeN by exact Hl. lia.
Qed.

Lemma ProvC_opt A `{HasSlices A} ctx (p : P A) : ProvC ctx p -> ProvC ctx (Opt p).
Proof.
  intros Hp i r v E s Hs. cbn [run] in E. destruct (run p i) as [r1 a| | | | |] eqn:E1; try discriminate E.
  - injection E as <- <-. eapply Hp; eauto.
  - injection E as <- <-. destruct Hs.
Qed.

Section LoopProv.
  Context {A : Type} `{HA : HasSlices A} (ctx : list slice) (f : slice -> res A).
  Hypothesis Hsuf : forall i r a, f i = Ok r a -> suffix_of i r.
  Hypothesis Hf : forall i r a, f i = Ok r a -> forall s, In s (slices a) -> allowed ctx s \/ before i r s.

  Lemma many0_loop_prov fuel : forall i r l, many0_loop f fuel i = Ok r l ->
    forall s, In s (slices l) -> allowed ctx s \/ before i r s.
  Proof.
    induction fuel as [|c fuel IH]; intros i r l; cbn [many0_loop];
      destruct (f i) as [r1 a| | | | |] eqn:E; try discriminate;
      try (intros H; injection H as <- <-; intros s []).
    - destruct (slen r1 =? slen i); discriminate.
    - destruct (slen r1 =? slen i); [discriminate|].
      destruct (many0_loop f fuel r1) as [r2 l2| | | | |] eqn:E2; try discriminate.
      intros H; injection H as <- <-. intros s Hs. unfold slices, HS_list in Hs. cbn [flat_map] in Hs.
      pose proof (many0_loop_suffix f Hsuf fuel _ _ _ E2) as S2.
      apply in_app_or in Hs as [Hs|Hs].
      + destruct (Hf _ _ _ E s Hs) as [Ha|Hb]; [left; exact Ha | right; eapply before_mono1; eauto].
      + destruct (IH _ _ _ E2 s Hs) as [Ha|Hb]; [left; exact Ha | right; eapply before_mono2; eauto].
  Qed.
  Lemma many1_loop_prov fuel : forall i r l, many1_loop f fuel i = Ok r l ->
    forall s, In s (slices l) -> allowed ctx s \/ before i r s.
  Proof.
    induction fuel as [|c fuel IH]; intros i r l; cbn [many1_loop];
      destruct (f i) as [r1 a| | | | |] eqn:E; try discriminate;
      try (intros H; injection H as <- <-; intros s []).
    - destruct (slen r1 =? slen i); discriminate.
    - destruct (slen r1 =? slen i); [discriminate|].
      destruct (many1_loop f fuel r1) as [r2 l2| | | | |] eqn:E2; try discriminate.
      intros H; injection H as <- <-. intros s Hs. unfold slices, HS_list in Hs. cbn [flat_map] in Hs.
      pose proof (many1_loop_suffix f Hsuf fuel _ _ _ E2) as S2.
      apply in_app_or in Hs as [Hs|Hs].
      + destruct (Hf _ _ _ E s Hs) as [Ha|Hb]; [left; exact Ha | right; eapply before_mono1; eauto].
      + destruct (IH _ _ _ E2 s Hs) as [Ha|Hb]; [left; exact Ha | right; eapply before_mono2; eauto].
  Qed.
End LoopProv.

Lemma ProvC_many0 A `{HasSlices A} ctx (p : P A) : ProvC ctx p -> ProvC ctx (Many0 p).
Proof.
  intros Hp i r l E. cbn [run] in E. unfold many0_run in E.
  eapply (many0_loop_prov ctx (fun j => run p j)); eauto using run_suffix.
Qed.
Lemma ProvC_many1 A `{HasSlices A} ctx (p : P A) : ProvC ctx p -> ProvC ctx (Many1 p).
Proof.
  intros Hp i r l E s Hs. cbn [run] in E. unfold many1_run in E.
  destruct (run p i) as [r1 a| | | | |] eqn:E1; try discriminate E.
  destruct (many1_loop _ (bytes i) r1) as [r2 l2| | | | |] eqn:E2; try discriminate E.
  injection E as <- <-. unfold slices, HS_list in Hs. cbn [flat_map] in Hs.
  pose proof (run_suffix _ _ _ _ _ E1) as S1.
  pose proof (many1_loop_suffix (fun j => run p j) (fun j r a => run_suffix _ p j r a) _ _ _ _ E2) as S2.
  apply in_app_or in Hs as [Hs|Hs].
  - destruct (Hp _ _ _ E1 s Hs) as [Ha|Hb]; [left; exact Ha | right; eapply before_mono1; eauto].
  - destruct (many1_loop_prov ctx (fun j => run p j) (fun j r a => run_suffix _ p j r a) Hp _ _ _ _ E2 s Hs) as [Ha|Hb];
      [left; exact Ha | right; eapply before_mono2; eauto].
Qed.

(* top level: with an empty context, every slice lies in the consumed part of the input *)
Definition Prov {A} `{HasSlices A} (p : P A) : Prop :=
  forall i r v, run p i = Ok r v -> forall s, In s (slices v) -> before i r s.
Lemma ProvC_nil A `{HasSlices A} (p : P A) : ProvC [] p -> Prov p.
Proof.
  intros Hp i r v E s Hs. destruct (Hp i r v E s Hs) as [[c [[] _]]|Hb]. exact Hb.
Qed.
Lemma Prov_ProvC A `{HasSlices A} (p : P A) ctx : Prov p -> ProvC ctx p.
Proof. intros Hp i r v E s Hs. right. eapply Hp; eauto. Qed.
