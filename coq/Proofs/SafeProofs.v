(* C01 (model side): no parser term of the crate can reach Panic (a Rust panic site) or OutOfFuel
   (a loop without progress), on any input.  Compositional, with three manual cases for the
   hand-written list decoders that index slices. *)
From TlsModel Require Import Bytes Nom Values DispatchTypes Handshake Record Extensions Kx Dtls
  BytesLemmas NomGeneric RunLemmas.
From TlsModel Require Import Consts Dispatch.
From Coq Require Import Lia ZArith ZifyBool ZifyN.
Ltac Zify.zify_post_hook ::= Z.div_mod_to_equations.

Lemma pairs16_even_aux : forall l,
  (lenN l mod 2 = 0 -> pairs16 l <> None) /\ (forall a, lenN (a :: l) mod 2 = 0 -> pairs16 (a :: l) <> None).
Proof.
  induction l as [|b t [IH1 IH2]].
  - split; [intros _; cbn; discriminate|]. intros a H. cbn [lenN] in H. exfalso. revert H. cbn. discriminate.
  - split; [intros H; apply IH2; exact H|].
    intros a H. cbn [pairs16]. cbn [lenN] in H.
    assert (Ht : lenN t mod 2 = 0) by lia. specialize (IH1 Ht).
    destruct (pairs16 t); [discriminate | congruence].
Qed.
Lemma pairs16_even l : lenN l mod 2 = 0 -> pairs16 l <> None.
Proof. apply pairs16_even_aux. Qed.

Lemma Safe_pairs A s (k : list N -> P A) :
  lenN (bytes s) mod 2 = 0 -> (forall l, Safe (k l)) ->
  Safe (match pairs16 (bytes s) with Some l => k l | None => PanicP end).
Proof. intros H Hk. pose proof (pairs16_even _ H). destruct (pairs16 (bytes s)); [apply Hk | congruence]. Qed.

Lemma Safe_parse_cipher_suites len : Safe (parse_cipher_suites len).
Proof.
  unfold parse_cipher_suites. destruct (len =? 0); [apply Safe_ret|].
  intros i. rewrite run_bind. cbn [run]. fold (@run (list N)).
  destruct (N.eqb_spec (len mod 2) 1) as [Ho|Ho]; cbn [orb]; [exact I|].
  rewrite has_len_spec. destruct (N.leb_spec len (lenN (bytes i))) as [Hl|Hl]; cbn [negb]; [|exact I].
  rewrite run_bind, run_idx. fold (slen i). destruct (N.leb_spec len (slen i)); [|unfold slen in *; lia].
  cbn [bytes]. pose proof (pairs16_even (takeN (bytes i) len)) as Hp.
  rewrite lenN_takeN in Hp by exact Hl.
  destruct (pairs16 (takeN (bytes i) len)); [exact I|]. exfalso. apply Hp; [|reflexivity].
  assert (len mod 2 < 2) by (apply N.mod_lt; lia). lia.
Qed.

Lemma Safe_parse_compressions_algs len : Safe (parse_compressions_algs len).
Proof.
  unfold parse_compressions_algs. destruct (len =? 0); [apply Safe_ret|].
  intros i. rewrite run_bind. cbn [run]. fold (@run (list N)).
  rewrite has_len_spec. destruct (N.leb_spec len (lenN (bytes i))) as [Hl|Hl]; cbn [negb]; [|exact I].
  rewrite run_bind, run_idx. fold (slen i). destruct (N.leb_spec len (slen i)); [|unfold slen in *; lia].
  exact I.
Qed.

Lemma Safe_parse_u16_all : Safe parse_u16_all.
Proof.
  unfold parse_u16_all. intros i. rewrite run_bind. cbn [run]. fold (@run (list N)).
  destruct (slen i =? 0); [exact I|].
  destruct (N.eqb_spec (slen i mod 2) 1) as [Ho|Ho]; cbn [orb]; [exact I|].
  destruct (N.ltb_spec (slen i) (slen i)); [lia|].
  rewrite run_bind, run_idx. destruct (N.leb_spec (slen i) (slen i)); [|lia].
  cbn [bytes]. pose proof (pairs16_even (takeN (bytes i) (slen i))) as Hp.
  rewrite lenN_takeN in Hp by (unfold slen; lia).
  destruct (pairs16 (takeN (bytes i) (slen i))); [exact I|]. exfalso. apply Hp; [|reflexivity].
  assert (slen i mod 2 < 2) by (apply N.mod_lt; lia). lia.
Qed.

#[export] Hint Resolve Safe_parse_cipher_suites Safe_parse_compressions_algs Safe_parse_u16_all : safe.

(* parse_log_id: take(32) then the conversion to [u8;32] cannot fail *)
Lemma Safe_parse_log_id : Safe parse_log_id.
Proof.
  unfold parse_log_id. intros i. rewrite run_bind, run_take.
  destruct (N.leb_spec 32 (slen i)) as [Hl|Hl]; [|exact I].
  unfold slen at 1; cbn [bytes]. rewrite lenN_takeN by (unfold slen in Hl; exact Hl). exact I.
Qed.
#[export] Hint Resolve Safe_parse_log_id : safe.

Ltac safe_unfold :=
  unfold pmap, length_data, map_parser, cond, be_u8, be_u16, be_u24, be_u32, be_u64, opt_ext,
         length_count_u8_u8, tagged, with_len, empty_only.
Ltac safe_step :=
  match goal with
  | |- Safe (Bind _ _) => apply Safe_bind; [|intros ?]
  | |- Safe (if ?b then _ else _) => destruct b
  | |- Safe (match ?x with _ => _ end) => destruct x
  | |- Safe (let '(_, _) := ?x in _) => destruct x
  | |- Safe _ => solve [eauto with safe]
  | |- Safe _ => progress safe_unfold
  end.
Ltac solve_safe := safe_unfold; repeat safe_step.

(* ---- src/tls_handshake.rs ---- *)
Lemma Safe_client_hello : Safe parse_tls_handshake_client_hello.
Proof. unfold parse_tls_handshake_client_hello. solve_safe. Qed.
#[export] Hint Resolve Safe_client_hello : safe.
Lemma Safe_msg_client_hello : Safe parse_tls_handshake_msg_client_hello.
Proof. unfold parse_tls_handshake_msg_client_hello. solve_safe. Qed.
Lemma Safe_certs : Safe parse_certs.
Proof. unfold parse_certs. solve_safe. Qed.
#[export] Hint Resolve Safe_msg_client_hello Safe_certs : safe.
Lemma Safe_sh12 b : Safe (parse_tls_server_hello_tlsv12 b).
Proof. unfold parse_tls_server_hello_tlsv12. solve_safe. Qed.
#[export] Hint Resolve Safe_sh12 : safe.
Lemma Safe_msg_sh12 b : Safe (parse_tls_handshake_msg_server_hello_tlsv12 b).
Proof. unfold parse_tls_handshake_msg_server_hello_tlsv12. solve_safe. Qed.
Lemma Safe_msg_sh13 : Safe parse_tls_handshake_msg_server_hello_tlsv13draft18.
Proof. unfold parse_tls_handshake_msg_server_hello_tlsv13draft18. solve_safe. Qed.
#[export] Hint Resolve Safe_msg_sh12 Safe_msg_sh13 : safe.
Lemma Safe_server_hello : Safe parse_tls_handshake_server_hello.
Proof. unfold parse_tls_handshake_server_hello. solve_safe. Qed.
Lemma Safe_msg_server_hello : Safe parse_tls_handshake_msg_server_hello.
Proof. unfold parse_tls_handshake_msg_server_hello. solve_safe. Qed.
#[export] Hint Resolve Safe_server_hello Safe_msg_server_hello : safe.
Lemma Safe_nst len : Safe (parse_tls_handshake_msg_newsessionticket len).
Proof. unfold parse_tls_handshake_msg_newsessionticket. solve_safe. Qed.
Lemma Safe_hrr : Safe parse_tls_handshake_msg_hello_retry_request.
Proof. unfold parse_tls_handshake_msg_hello_retry_request. solve_safe. Qed.
Lemma Safe_certificate : Safe parse_tls_certificate.
Proof. unfold parse_tls_certificate. solve_safe. Qed.
#[export] Hint Resolve Safe_nst Safe_hrr Safe_certificate : safe.
Lemma Safe_msg_certificate : Safe parse_tls_handshake_msg_certificate.
Proof. unfold parse_tls_handshake_msg_certificate. solve_safe. Qed.
Lemma Safe_ske len : Safe (parse_tls_handshake_msg_serverkeyexchange len).
Proof. unfold parse_tls_handshake_msg_serverkeyexchange. solve_safe. Qed.
Lemma Safe_sdone len : Safe (parse_tls_handshake_msg_serverdone len).
Proof. unfold parse_tls_handshake_msg_serverdone. solve_safe. Qed.
Lemma Safe_cverify len : Safe (parse_tls_handshake_msg_certificateverify len).
Proof. unfold parse_tls_handshake_msg_certificateverify. solve_safe. Qed.
Lemma Safe_cke0 len : Safe (parse_tls_clientkeyexchange len).
Proof. unfold parse_tls_clientkeyexchange. solve_safe. Qed.
#[export] Hint Resolve Safe_msg_certificate Safe_ske Safe_sdone Safe_cverify Safe_cke0 : safe.
Lemma Safe_cke len : Safe (parse_tls_handshake_msg_clientkeyexchange len).
Proof. unfold parse_tls_handshake_msg_clientkeyexchange. solve_safe. Qed.
Lemma Safe_ca_list : Safe ca_list.
Proof. unfold ca_list. solve_safe. Qed.
#[export] Hint Resolve Safe_cke Safe_ca_list : safe.
Lemma Safe_cr_nosig : Safe parse_certrequest_nosigalg.
Proof. unfold parse_certrequest_nosigalg. solve_safe. Qed.
Lemma Safe_cr_full : Safe parse_certrequest_full.
Proof. unfold parse_certrequest_full. solve_safe. Qed.
#[export] Hint Resolve Safe_cr_nosig Safe_cr_full : safe.
Lemma Safe_cr : Safe parse_tls_handshake_certificaterequest.
Proof. unfold parse_tls_handshake_certificaterequest. solve_safe. Qed.
#[export] Hint Resolve Safe_cr : safe.
Lemma Safe_msg_cr : Safe parse_tls_handshake_msg_certificaterequest.
Proof. unfold parse_tls_handshake_msg_certificaterequest. solve_safe. Qed.
Lemma Safe_finished len : Safe (parse_tls_handshake_msg_finished len).
Proof. unfold parse_tls_handshake_msg_finished. solve_safe. Qed.
Lemma Safe_cstatus : Safe parse_tls_handshake_certificatestatus.
Proof. unfold parse_tls_handshake_certificatestatus. solve_safe. Qed.
#[export] Hint Resolve Safe_msg_cr Safe_finished Safe_cstatus : safe.
Lemma Safe_msg_cstatus : Safe parse_tls_handshake_msg_certificatestatus.
Proof. unfold parse_tls_handshake_msg_certificatestatus. solve_safe. Qed.
Lemma Safe_np : Safe parse_tls_handshake_next_protocol.
Proof. unfold parse_tls_handshake_next_protocol. solve_safe. Qed.
#[export] Hint Resolve Safe_msg_cstatus Safe_np : safe.
Lemma Safe_msg_np : Safe parse_tls_handshake_msg_next_protocol.
Proof. unfold parse_tls_handshake_msg_next_protocol. solve_safe. Qed.
Lemma Safe_ku : Safe parse_tls_handshake_msg_key_update.
Proof. unfold parse_tls_handshake_msg_key_update. solve_safe. Qed.
Lemma Safe_hreq : Safe parse_tls_handshake_msg_hello_request.
Proof. unfold parse_tls_handshake_msg_hello_request. solve_safe. Qed.
#[export] Hint Resolve Safe_msg_np Safe_ku Safe_hreq : safe.
Lemma Safe_hs_body b hl : Safe (hs_body b hl).
Proof. destruct b; cbn [hs_body]; eauto with safe. Qed.
#[export] Hint Resolve Safe_hs_body : safe.
Lemma Safe_message_handshake : Safe parse_tls_message_handshake.
Proof. unfold parse_tls_message_handshake. solve_safe. Qed.
#[export] Hint Resolve Safe_message_handshake : safe.

(* ---- src/tls_message.rs, src/tls_record.rs ---- *)
Lemma Safe_ccs : Safe parse_tls_message_changecipherspec.
Proof. unfold parse_tls_message_changecipherspec. solve_safe. Qed.
Lemma Safe_alert : Safe parse_tls_message_alert.
Proof. unfold parse_tls_message_alert. solve_safe. Qed.
Lemma Safe_appdata : Safe parse_tls_message_applicationdata.
Proof. unfold parse_tls_message_applicationdata. solve_safe. Qed.
Lemma Safe_heartbeat l : Safe (parse_tls_message_heartbeat l).
Proof. unfold parse_tls_message_heartbeat. solve_safe. Qed.
Lemma Safe_header : Safe parse_tls_record_header.
Proof. unfold parse_tls_record_header. solve_safe. Qed.
#[export] Hint Resolve Safe_ccs Safe_alert Safe_appdata Safe_heartbeat Safe_header : safe.
Lemma Safe_rec_body b hdr : Safe (rec_body b hdr).
Proof. destruct b; cbn [rec_body]; solve_safe. Qed.
#[export] Hint Resolve Safe_rec_body : safe.
Lemma Safe_with_header hdr : Safe (parse_tls_record_with_header hdr).
Proof. unfold parse_tls_record_with_header. solve_safe. Qed.
#[export] Hint Resolve Safe_with_header : safe.
Lemma Safe_plaintext : Safe parse_tls_plaintext.
Proof. unfold parse_tls_plaintext. solve_safe. Qed.
Lemma Safe_encrypted : Safe parse_tls_encrypted.
Proof. unfold parse_tls_encrypted. solve_safe. Qed.
Lemma Safe_raw : Safe parse_tls_raw_record.
Proof. unfold parse_tls_raw_record. solve_safe. Qed.
#[export] Hint Resolve Safe_plaintext Safe_encrypted Safe_raw : safe.
Lemma Safe_many : Safe tls_parser_many.
Proof. unfold tls_parser_many. solve_safe. Qed.
#[export] Hint Resolve Safe_many : safe.
