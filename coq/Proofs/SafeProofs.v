(* C01 (model side): no parser term of the crate can reach Panic (a Rust panic site) or OutOfFuel
   (a loop without progress), on any input.  Compositional, with three manual cases for the
   hand-written list decoders that index slices. *)
From TlsModel Require Import Bytes Nom Values DispatchTypes Handshake Record Extensions Kx Dtls
  BytesLemmas NomGeneric RunLemmas.
From TlsModel Require Import Consts Dispatch.
From Coq Require Import Lia ZArith ZifyBool ZifyN.
Ltac Zify.zify_post_hook ::= Z.div_mod_to_equations.

Lemma pairs16_even_aux : forall l,
  (lenN l mod 2 = 0 -> pairs16 l <> None) /\ (forall a, lenN (a :: l) mod 2 = 0 -> pairs16 (a :: l) <> None).
Proof.
  induction l as [|b t [IH1 IH2]].
  - split; [intros _; cbn; discriminate|]. intros a H. cbn [lenN] in H. exfalso. revert H. cbn. discriminate.
  - split; [intros H; apply IH2; exact H|].
    intros a H. cbn [pairs16]. cbn [lenN] in H.
    assert (Ht : lenN t mod 2 = 0) by lia. specialize (IH1 Ht).
    destruct (pairs16 t); [discriminate | congruence].
Qed.
Lemma pairs16_even l : lenN l mod 2 = 0 -> pairs16 l <> None.
Proof. apply pairs16_even_aux. Qed.

Lemma Safe_pairs A s (k : list N -> P A) :
  lenN (bytes s) mod 2 = 0 -> (forall l, Safe (k l)) ->
  Safe (match pairs16 (bytes s) with Some l => k l | None => PanicP end).
Proof. intros H Hk. pose proof (pairs16_even _ H). destruct (pairs16 (bytes s)); [apply Hk | congruence]. Qed.

Lemma Safe_parse_cipher_suites len : Safe (parse_cipher_suites len).
Proof.
  unfold parse_cipher_suites. destruct (len =? 0); [apply Safe_ret|].
  intros i. rewrite run_bind. cbn [run]. fold (@run (list N)).
  destruct (N.eqb_spec (len mod 2) 1) as [Ho|Ho]; cbn [orb]; [exact I|].
  rewrite has_len_spec. destruct (N.leb_spec len (lenN (bytes i))) as [Hl|Hl]; cbn [negb]; [|exact I].
  rewrite run_bind, run_idx. fold (slen i). destruct (N.leb_spec len (slen i)); [|unfold slen in *; lia].
  cbn [bytes]. pose proof (pairs16_even (takeN (bytes i) len)) as Hp.
  rewrite lenN_takeN in Hp by exact Hl.
  destruct (pairs16 (takeN (bytes i) len)); [exact I|]. exfalso. apply Hp; [|reflexivity].
  assert (len mod 2 < 2) by (apply N.mod_lt; lia). lia.
Qed.

Lemma Safe_parse_compressions_algs len : Safe (parse_compressions_algs len).
Proof.
  unfold parse_compressions_algs. destruct (len =? 0); [apply Safe_ret|].
  intros i. rewrite run_bind. cbn [run]. fold (@run (list N)).
  rewrite has_len_spec. destruct (N.leb_spec len (lenN (bytes i))) as [Hl|Hl]; cbn [negb]; [|exact I].
  rewrite run_bind, run_idx. fold (slen i). destruct (N.leb_spec len (slen i)); [|unfold slen in *; lia].
  exact I.
Qed.

Lemma Safe_parse_u16_all : Safe parse_u16_all.
Proof.
  unfold parse_u16_all. intros i. rewrite run_bind. cbn [run]. fold (@run (list N)).
  destruct (slen i =? 0); [exact I|].
  destruct (N.eqb_spec (slen i mod 2) 1) as [Ho|Ho]; cbn [orb]; [exact I|].
  destruct (N.ltb_spec (slen i) (slen i)); [lia|].
  rewrite run_bind, run_idx. destruct (N.leb_spec (slen i) (slen i)); [|lia].
  cbn [bytes]. pose proof (pairs16_even (takeN (bytes i) (slen i))) as Hp.
  rewrite lenN_takeN in Hp by (unfold slen; lia).
  destruct (pairs16 (takeN (bytes i) (slen i))); [exact I|]. exfalso. apply Hp; [|reflexivity].
  assert (slen i mod 2 < 2) by (apply N.mod_lt; lia). lia.
Qed.

#[export] Hint Resolve Safe_parse_cipher_suites Safe_parse_compressions_algs Safe_parse_u16_all : safe.

(* parse_log_id: take(32) then the conversion to [u8;32] cannot fail *)
Lemma Safe_parse_log_id : Safe parse_log_id.
Proof.
  unfold parse_log_id. intros i. rewrite run_bind, run_take.
  destruct (N.leb_spec 32 (slen i)) as [Hl|Hl]; [|exact I].
  unfold slen at 1; cbn [bytes]. rewrite lenN_takeN by (unfold slen in Hl; exact Hl). exact I.
Qed.
#[export] Hint Resolve Safe_parse_log_id : safe.

Ltac safe_unfold :=
  unfold pmap, length_data, map_parser, cond, be_u8, be_u16, be_u24, be_u32, be_u64, opt_ext,
         length_count_u8_u8, tagged, with_len, empty_only.
Ltac safe_step :=
  match goal with
  | |- Safe (Bind _ _) => apply Safe_bind; [|intros ?]
  | |- Safe (Opt _) => apply Safe_opt
  | |- Safe (Cmpl _) => apply Safe_cmpl
  | |- Safe (On _ _) => apply Safe_on
  | |- Safe (Many0 _) => apply Safe_many0
  | |- Safe (Many1 _) => apply Safe_many1
  | |- Safe (Alt _ _) => apply Safe_alt
  | |- Safe (Vrfy _ _) => apply Safe_vrfy
  | |- Safe (Peek _) => apply Safe_peek
  | |- Safe (if ?b then _ else _) => destruct b
  | |- Safe (match ?x with _ => _ end) => destruct x
  | |- Safe (let '(_, _) := ?x in _) => destruct x
  | |- Safe _ => solve [eauto with safe]
  | |- Safe _ => progress safe_unfold
  end.
Ltac solve_safe := safe_unfold; repeat safe_step.

(* ---- src/tls_handshake.rs ---- *)
Lemma Safe_client_hello : Safe parse_tls_handshake_client_hello.
Proof. unfold parse_tls_handshake_client_hello. solve_safe. Qed.
#[export] Hint Resolve Safe_client_hello : safe.
Lemma Safe_msg_client_hello : Safe parse_tls_handshake_msg_client_hello.
Proof. unfold parse_tls_handshake_msg_client_hello. solve_safe. Qed.
Lemma Safe_certs : Safe parse_certs.
Proof. unfold parse_certs. solve_safe. Qed.
#[export] Hint Resolve Safe_msg_client_hello Safe_certs : safe.
Lemma Safe_sh12 b : Safe (parse_tls_server_hello_tlsv12 b).
Proof. unfold parse_tls_server_hello_tlsv12. solve_safe. Qed.
#[export] Hint Resolve Safe_sh12 : safe.
Lemma Safe_msg_sh12 b : Safe (parse_tls_handshake_msg_server_hello_tlsv12 b).
Proof. unfold parse_tls_handshake_msg_server_hello_tlsv12. solve_safe. Qed.
Lemma Safe_msg_sh13 : Safe parse_tls_handshake_msg_server_hello_tlsv13draft18.
Proof. unfold parse_tls_handshake_msg_server_hello_tlsv13draft18. solve_safe. Qed.
#[export] Hint Resolve Safe_msg_sh12 Safe_msg_sh13 : safe.
Lemma Safe_server_hello : Safe parse_tls_handshake_server_hello.
Proof. unfold parse_tls_handshake_server_hello. solve_safe. Qed.
Lemma Safe_msg_server_hello : Safe parse_tls_handshake_msg_server_hello.
Proof. unfold parse_tls_handshake_msg_server_hello. solve_safe. Qed.
#[export] Hint Resolve Safe_server_hello Safe_msg_server_hello : safe.
Lemma Safe_nst len : Safe (parse_tls_handshake_msg_newsessionticket len).
Proof. unfold parse_tls_handshake_msg_newsessionticket. solve_safe. Qed.
Lemma Safe_hrr : Safe parse_tls_handshake_msg_hello_retry_request.
Proof. unfold parse_tls_handshake_msg_hello_retry_request. solve_safe. Qed.
Lemma Safe_certificate : Safe parse_tls_certificate.
Proof. unfold parse_tls_certificate. solve_safe. Qed.
#[export] Hint Resolve Safe_nst Safe_hrr Safe_certificate : safe.
Lemma Safe_msg_certificate : Safe parse_tls_handshake_msg_certificate.
Proof. unfold parse_tls_handshake_msg_certificate. solve_safe. Qed.
Lemma Safe_ske len : Safe (parse_tls_handshake_msg_serverkeyexchange len).
Proof. unfold parse_tls_handshake_msg_serverkeyexchange. solve_safe. Qed.
Lemma Safe_sdone len : Safe (parse_tls_handshake_msg_serverdone len).
Proof. unfold parse_tls_handshake_msg_serverdone. solve_safe. Qed.
Lemma Safe_cverify len : Safe (parse_tls_handshake_msg_certificateverify len).
Proof. unfold parse_tls_handshake_msg_certificateverify. solve_safe. Qed.
Lemma Safe_cke0 len : Safe (parse_tls_clientkeyexchange len).
Proof. unfold parse_tls_clientkeyexchange. solve_safe. Qed.
#[export] Hint Resolve Safe_msg_certificate Safe_ske Safe_sdone Safe_cverify Safe_cke0 : safe.
Lemma Safe_cke len : Safe (parse_tls_handshake_msg_clientkeyexchange len).
Proof. unfold parse_tls_handshake_msg_clientkeyexchange. solve_safe. Qed.
Lemma Safe_ca_list : Safe ca_list.
Proof. unfold ca_list. solve_safe. Qed.
#[export] Hint Resolve Safe_cke Safe_ca_list : safe.
Lemma Safe_cr_nosig : Safe parse_certrequest_nosigalg.
Proof. unfold parse_certrequest_nosigalg. solve_safe. Qed.
Lemma Safe_cr_full : Safe parse_certrequest_full.
Proof. unfold parse_certrequest_full. solve_safe. Qed.
#[export] Hint Resolve Safe_cr_nosig Safe_cr_full : safe.
Lemma Safe_cr : Safe parse_tls_handshake_certificaterequest.
Proof. unfold parse_tls_handshake_certificaterequest. solve_safe. Qed.
#[export] Hint Resolve Safe_cr : safe.
Lemma Safe_msg_cr : Safe parse_tls_handshake_msg_certificaterequest.
Proof. unfold parse_tls_handshake_msg_certificaterequest. solve_safe. Qed.
Lemma Safe_finished len : Safe (parse_tls_handshake_msg_finished len).
Proof. unfold parse_tls_handshake_msg_finished. solve_safe. Qed.
Lemma Safe_cstatus : Safe parse_tls_handshake_certificatestatus.
Proof. unfold parse_tls_handshake_certificatestatus. solve_safe. Qed.
#[export] Hint Resolve Safe_msg_cr Safe_finished Safe_cstatus : safe.
Lemma Safe_msg_cstatus : Safe parse_tls_handshake_msg_certificatestatus.
Proof. unfold parse_tls_handshake_msg_certificatestatus. solve_safe. Qed.
Lemma Safe_np : Safe parse_tls_handshake_next_protocol.
Proof. unfold parse_tls_handshake_next_protocol. solve_safe. Qed.
#[export] Hint Resolve Safe_msg_cstatus Safe_np : safe.
Lemma Safe_msg_np : Safe parse_tls_handshake_msg_next_protocol.
Proof. unfold parse_tls_handshake_msg_next_protocol. solve_safe. Qed.
Lemma Safe_ku : Safe parse_tls_handshake_msg_key_update.
Proof. unfold parse_tls_handshake_msg_key_update. solve_safe. Qed.
Lemma Safe_hreq : Safe parse_tls_handshake_msg_hello_request.
Proof. unfold parse_tls_handshake_msg_hello_request. solve_safe. Qed.
#[export] Hint Resolve Safe_msg_np Safe_ku Safe_hreq : safe.
Lemma Safe_hs_body b hl : Safe (hs_body b hl).
Proof. destruct b; cbn [hs_body]; eauto with safe. Qed.
#[export] Hint Resolve Safe_hs_body : safe.
Lemma Safe_message_handshake : Safe parse_tls_message_handshake.
Proof. unfold parse_tls_message_handshake. solve_safe. Qed.
#[export] Hint Resolve Safe_message_handshake : safe.

(* ---- src/tls_message.rs, src/tls_record.rs ---- *)
Lemma Safe_ccs : Safe parse_tls_message_changecipherspec.
Proof. unfold parse_tls_message_changecipherspec. solve_safe. Qed.
Lemma Safe_alert : Safe parse_tls_message_alert.
Proof. unfold parse_tls_message_alert. solve_safe. Qed.
Lemma Safe_appdata : Safe parse_tls_message_applicationdata.
Proof. unfold parse_tls_message_applicationdata. solve_safe. Qed.
Lemma Safe_heartbeat l : Safe (parse_tls_message_heartbeat l).
Proof. unfold parse_tls_message_heartbeat. solve_safe. Qed.
Lemma Safe_header : Safe parse_tls_record_header.
Proof. unfold parse_tls_record_header. solve_safe. Qed.
#[export] Hint Resolve Safe_ccs Safe_alert Safe_appdata Safe_heartbeat Safe_header : safe.
Lemma Safe_rec_body b hdr : Safe (rec_body b hdr).
Proof. destruct b; cbn [rec_body]; solve_safe. Qed.
#[export] Hint Resolve Safe_rec_body : safe.
Lemma Safe_with_header hdr : Safe (parse_tls_record_with_header hdr).
Proof. unfold parse_tls_record_with_header. solve_safe. Qed.
#[export] Hint Resolve Safe_with_header : safe.
Lemma Safe_plaintext : Safe parse_tls_plaintext.
Proof. unfold parse_tls_plaintext. solve_safe. Qed.
Lemma Safe_encrypted : Safe parse_tls_encrypted.
Proof. unfold parse_tls_encrypted. solve_safe. Qed.
Lemma Safe_raw : Safe parse_tls_raw_record.
Proof. unfold parse_tls_raw_record. solve_safe. Qed.
#[export] Hint Resolve Safe_plaintext Safe_encrypted Safe_raw : safe.
Lemma Safe_many : Safe tls_parser_many.
Proof. unfold tls_parser_many. solve_safe. Qed.
#[export] Hint Resolve Safe_many : safe.

(* ---- src/tls_extensions.rs ---- *)
Ltac safe_def d := unfold d; solve_safe.
Lemma Safe_sni_hostname : Safe parse_tls_extension_sni_hostname. Proof. safe_def parse_tls_extension_sni_hostname. Qed.
#[export] Hint Resolve Safe_sni_hostname : safe.
Lemma Safe_sni_content : Safe parse_tls_extension_sni_content. Proof. safe_def parse_tls_extension_sni_content. Qed.
Lemma Safe_mfl_content : Safe parse_tls_extension_max_fragment_length_content. Proof. safe_def parse_tls_extension_max_fragment_length_content. Qed.
Lemma Safe_status_content l : Safe (parse_tls_extension_status_request_content l). Proof. safe_def parse_tls_extension_status_request_content. Qed.
Lemma Safe_named_groups : Safe parse_named_groups. Proof. unfold parse_named_groups. eauto with safe. Qed.
#[export] Hint Resolve Safe_named_groups : safe.
Lemma Safe_tls_versions : Safe parse_tls_versions. Proof. unfold parse_tls_versions. eauto with safe. Qed.
#[export] Hint Resolve Safe_tls_versions : safe.
Lemma Safe_ec_content : Safe parse_tls_extension_elliptic_curves_content. Proof. safe_def parse_tls_extension_elliptic_curves_content. Qed.
Lemma Safe_ecpf_content : Safe parse_tls_extension_ec_point_formats_content. Proof. safe_def parse_tls_extension_ec_point_formats_content. Qed.
Lemma Safe_sigalg_content : Safe parse_tls_extension_signature_algorithms_content. Proof. safe_def parse_tls_extension_signature_algorithms_content. Qed.
Lemma Safe_hb_content : Safe parse_tls_extension_heartbeat_content. Proof. safe_def parse_tls_extension_heartbeat_content. Qed.
Lemma Safe_protocol_name : Safe parse_protocol_name. Proof. safe_def parse_protocol_name. Qed.
#[export] Hint Resolve Safe_protocol_name : safe.
Lemma Safe_alpn_content : Safe parse_tls_extension_alpn_content. Proof. safe_def parse_tls_extension_alpn_content. Qed.
Lemma Safe_padding_content l : Safe (parse_tls_extension_padding_content l). Proof. safe_def parse_tls_extension_padding_content. Qed.
Lemma Safe_sct_content : Safe parse_tls_extension_signed_certificate_timestamp_content. Proof. safe_def parse_tls_extension_signed_certificate_timestamp_content. Qed.
Lemma Safe_empty_only l v : Safe (empty_only l v). Proof. safe_def empty_only. Qed.
#[export] Hint Resolve Safe_empty_only : safe.
Lemma Safe_rsl : Safe parse_tls_extension_record_size_limit. Proof. safe_def parse_tls_extension_record_size_limit. Qed.
Lemma Safe_ticket_content l : Safe (parse_tls_extension_session_ticket_content l). Proof. safe_def parse_tls_extension_session_ticket_content. Qed.
Lemma Safe_kso_content l : Safe (parse_tls_extension_key_share_old_content l). Proof. safe_def parse_tls_extension_key_share_old_content. Qed.
Lemma Safe_ks_content l : Safe (parse_tls_extension_key_share_content l). Proof. safe_def parse_tls_extension_key_share_content. Qed.
Lemma Safe_psk_content l : Safe (parse_tls_extension_pre_shared_key_content l). Proof. safe_def parse_tls_extension_pre_shared_key_content. Qed.
Lemma Safe_ed_content l : Safe (parse_tls_extension_early_data_content l). Proof. safe_def parse_tls_extension_early_data_content. Qed.
Lemma Safe_sv_content l : Safe (parse_tls_extension_supported_versions_content l). Proof. safe_def parse_tls_extension_supported_versions_content. Qed.
Lemma Safe_cookie_content l : Safe (parse_tls_extension_cookie_content l). Proof. safe_def parse_tls_extension_cookie_content. Qed.
Lemma Safe_pskm_content : Safe parse_tls_extension_psk_key_exchange_modes_content. Proof. safe_def parse_tls_extension_psk_key_exchange_modes_content. Qed.
Lemma Safe_reneg_content : Safe parse_tls_extension_renegotiation_info_content. Proof. safe_def parse_tls_extension_renegotiation_info_content. Qed.
Lemma Safe_esni : Safe parse_tls_extension_encrypted_server_name. Proof. safe_def parse_tls_extension_encrypted_server_name. Qed.
Lemma Safe_oid_filter : Safe parse_tls_oid_filter. Proof. safe_def parse_tls_oid_filter. Qed.
#[export] Hint Resolve Safe_oid_filter : safe.
Lemma Safe_oid_filters : Safe parse_tls_extension_oid_filters. Proof. safe_def parse_tls_extension_oid_filters. Qed.
Lemma Safe_ext_unknown : Safe parse_tls_extension_unknown. Proof. safe_def parse_tls_extension_unknown. Qed.
#[export] Hint Resolve Safe_sni_content Safe_mfl_content Safe_status_content Safe_ec_content Safe_ecpf_content
  Safe_sigalg_content Safe_hb_content Safe_alpn_content Safe_padding_content Safe_sct_content Safe_rsl
  Safe_ticket_content Safe_kso_content Safe_ks_content Safe_psk_content Safe_ed_content Safe_sv_content
  Safe_cookie_content Safe_pskm_content Safe_reneg_content Safe_esni Safe_oid_filters Safe_ext_unknown : safe.
Lemma Safe_ext_content c l : Safe (ext_content c l).
Proof.
  destruct c; cbn [ext_content]; unfold parse_tls_extension_encrypt_then_mac_content,
    parse_tls_extension_extended_master_secret_content, parse_tls_extension_post_handshake_auth_content,
    parse_tls_extension_npn_content; eauto with safe.
Qed.
#[export] Hint Resolve Safe_ext_content : safe.
Lemma Safe_dispatch_ext tbl : Safe (dispatch_ext tbl). Proof. safe_def dispatch_ext. Qed.
#[export] Hint Resolve Safe_dispatch_ext : safe.
Lemma Safe_ext : Safe parse_tls_extension. Proof. unfold parse_tls_extension. eauto with safe. Qed.
Lemma Safe_ch_ext : Safe parse_tls_client_hello_extension. Proof. unfold parse_tls_client_hello_extension. eauto with safe. Qed.
Lemma Safe_sh_ext : Safe parse_tls_server_hello_extension. Proof. unfold parse_tls_server_hello_extension. eauto with safe. Qed.
#[export] Hint Resolve Safe_ext Safe_ch_ext Safe_sh_ext : safe.
Lemma Safe_exts : Safe parse_tls_extensions. Proof. unfold parse_tls_extensions. apply Safe_many0, Safe_cmpl, Safe_ext. Qed.
Lemma Safe_ch_exts : Safe parse_tls_client_hello_extensions. Proof. unfold parse_tls_client_hello_extensions. apply Safe_many0, Safe_cmpl, Safe_ch_ext. Qed.
Lemma Safe_sh_exts : Safe parse_tls_server_hello_extensions. Proof. unfold parse_tls_server_hello_extensions. apply Safe_many0, Safe_cmpl, Safe_sh_ext. Qed.
Lemma Safe_x_sni : Safe parse_tls_extension_sni. Proof. safe_def parse_tls_extension_sni. Qed.
Lemma Safe_x_mfl : Safe parse_tls_extension_max_fragment_length. Proof. safe_def parse_tls_extension_max_fragment_length. Qed.
Lemma Safe_x_status : Safe parse_tls_extension_status_request. Proof. safe_def parse_tls_extension_status_request. Qed.
Lemma Safe_x_ec : Safe parse_tls_extension_elliptic_curves. Proof. safe_def parse_tls_extension_elliptic_curves. Qed.
Lemma Safe_x_ecpf : Safe parse_tls_extension_ec_point_formats. Proof. safe_def parse_tls_extension_ec_point_formats. Qed.
Lemma Safe_x_sigalg : Safe parse_tls_extension_signature_algorithms. Proof. safe_def parse_tls_extension_signature_algorithms. Qed.
Lemma Safe_x_hb : Safe parse_tls_extension_heartbeat. Proof. safe_def parse_tls_extension_heartbeat. Qed.
Lemma Safe_x_etm : Safe parse_tls_extension_encrypt_then_mac.
Proof. unfold parse_tls_extension_encrypt_then_mac, parse_tls_extension_encrypt_then_mac_content. solve_safe. Qed.
Lemma Safe_x_ems : Safe parse_tls_extension_extended_master_secret.
Proof. unfold parse_tls_extension_extended_master_secret, parse_tls_extension_extended_master_secret_content. solve_safe. Qed.
Lemma Safe_x_ticket : Safe parse_tls_extension_session_ticket. Proof. safe_def parse_tls_extension_session_ticket. Qed.
Lemma Safe_x_ks : Safe parse_tls_extension_key_share. Proof. safe_def parse_tls_extension_key_share. Qed.
Lemma Safe_x_psk : Safe parse_tls_extension_pre_shared_key. Proof. safe_def parse_tls_extension_pre_shared_key. Qed.
Lemma Safe_x_ed : Safe parse_tls_extension_early_data. Proof. safe_def parse_tls_extension_early_data. Qed.
Lemma Safe_x_sv : Safe parse_tls_extension_supported_versions. Proof. safe_def parse_tls_extension_supported_versions. Qed.
Lemma Safe_x_cookie : Safe parse_tls_extension_cookie. Proof. safe_def parse_tls_extension_cookie. Qed.
Lemma Safe_x_pskm : Safe parse_tls_extension_psk_key_exchange_modes. Proof. safe_def parse_tls_extension_psk_key_exchange_modes. Qed.

(* ---- key exchange, signatures, CT ---- *)
Lemma Safe_dh : Safe parse_dh_params. Proof. safe_def parse_dh_params. Qed.
Lemma Safe_ec_point : Safe parse_ec_point. Proof. safe_def parse_ec_point. Qed.
Lemma Safe_ec_curve : Safe parse_ec_curve. Proof. safe_def parse_ec_curve. Qed.
#[export] Hint Resolve Safe_dh Safe_ec_point Safe_ec_curve : safe.
Lemma Safe_explicit_prime : Safe parse_explicit_prime. Proof. safe_def parse_explicit_prime. Qed.
#[export] Hint Resolve Safe_explicit_prime : safe.
Lemma Safe_ecpc t : Safe (parse_ec_parameters_content t). Proof. safe_def parse_ec_parameters_content. Qed.
#[export] Hint Resolve Safe_ecpc : safe.
Lemma Safe_ec_parameters : Safe parse_ec_parameters. Proof. safe_def parse_ec_parameters. Qed.
#[export] Hint Resolve Safe_ec_parameters : safe.
Lemma Safe_ecdh : Safe parse_ecdh_params. Proof. safe_def parse_ecdh_params. Qed.
Lemma Safe_ds_old : Safe parse_digitally_signed_old. Proof. safe_def parse_digitally_signed_old. Qed.
Lemma Safe_ds : Safe parse_digitally_signed. Proof. safe_def parse_digitally_signed. Qed.
#[export] Hint Resolve Safe_ecdh Safe_ds_old Safe_ds : safe.
(* for every content parser that is itself safe *)
Lemma Safe_content_and_signature T (f : P T) ext : Safe f -> Safe (parse_content_and_signature f ext).
Proof. intros Hf. unfold parse_content_and_signature. solve_safe. Qed.
Lemma Safe_ct_ext : Safe parse_ct_extensions. Proof. safe_def parse_ct_extensions. Qed.
#[export] Hint Resolve Safe_ct_ext : safe.
Lemma Safe_sct_c : Safe parse_ct_signed_certificate_timestamp_content. Proof. safe_def parse_ct_signed_certificate_timestamp_content. Qed.
#[export] Hint Resolve Safe_sct_c : safe.
Lemma Safe_sct : Safe parse_ct_signed_certificate_timestamp. Proof. safe_def parse_ct_signed_certificate_timestamp. Qed.
#[export] Hint Resolve Safe_sct : safe.
Lemma Safe_sct_list : Safe parse_ct_signed_certificate_timestamp_list. Proof. safe_def parse_ct_signed_certificate_timestamp_list. Qed.

(* ---- src/dtls.rs ---- *)
Lemma Safe_dhdr : Safe parse_dtls_record_header. Proof. safe_def parse_dtls_record_header. Qed.
Lemma Safe_dfrag : Safe parse_dtls_fragment. Proof. safe_def parse_dtls_fragment. Qed.
Lemma Safe_dch : Safe parse_dtls_client_hello. Proof. safe_def parse_dtls_client_hello. Qed.
Lemma Safe_dhvr : Safe parse_dtls_hello_verify_request. Proof. safe_def parse_dtls_hello_verify_request. Qed.
#[export] Hint Resolve Safe_dhdr Safe_dfrag Safe_dch Safe_dhvr : safe.
Lemma Safe_dtls_hs_body b l : Safe (dtls_hs_body b l). Proof. destruct b; cbn [dtls_hs_body]; solve_safe. Qed.
#[export] Hint Resolve Safe_dtls_hs_body : safe.
Lemma Safe_dmsg_hs : Safe parse_dtls_message_handshake. Proof. safe_def parse_dtls_message_handshake. Qed.
Lemma Safe_dccs : Safe parse_dtls_message_changecipherspec. Proof. safe_def parse_dtls_message_changecipherspec. Qed.
Lemma Safe_dalert : Safe parse_dtls_message_alert. Proof. safe_def parse_dtls_message_alert. Qed.
#[export] Hint Resolve Safe_dmsg_hs Safe_dccs Safe_dalert : safe.
Lemma Safe_drec_body b : Safe (dtls_rec_body b). Proof. destruct b; cbn [dtls_rec_body]; solve_safe. Qed.
#[export] Hint Resolve Safe_drec_body : safe.
Lemma Safe_dwith_header h : Safe (parse_dtls_record_with_header h). Proof. safe_def parse_dtls_record_with_header. Qed.
#[export] Hint Resolve Safe_dwith_header : safe.
Lemma Safe_dplain : Safe parse_dtls_plaintext_record. Proof. safe_def parse_dtls_plaintext_record. Qed.
#[export] Hint Resolve Safe_dplain : safe.
Lemma Safe_dplains : Safe parse_dtls_plaintext_records. Proof. safe_def parse_dtls_plaintext_records. Qed.
