(* Lists of rows as finite maps keyed by an N: equal sets with unique keys give equal lookups. *)
From Coq Require Import NArith List Bool.
Import ListNotations.
Open Scope N_scope.

Fixpoint nodupN (l : list N) : bool :=
  match l with [] => true | x :: t => negb (existsb (N.eqb x) t) && nodupN t end.
Lemma nodupN_NoDup l : nodupN l = true -> NoDup l.
Proof.
  induction l as [|x t IH]; cbn; [constructor|]. intros H. apply andb_prop in H as [H1 H2].
  constructor; [|auto]. intros Hin. apply negb_true_iff in H1.
  assert (existsb (N.eqb x) t = true) by (apply existsb_exists; exists x; split; [auto | apply N.eqb_refl]).
  congruence.
Qed.

Section FM.
  Context {R : Type} (key : R -> N) (reqb : R -> R -> bool).
  Hypothesis reqb_eq : forall a b, reqb a b = true -> a = b.

  Definition lookup (k : N) (l : list R) : option R := find (fun r => key r =? k) l.
  Definition subsetb (a b : list R) : bool := forallb (fun x => existsb (reqb x) b) a.

  Lemma subsetb_In a b : subsetb a b = true -> forall x, In x a -> In x b.
  Proof.
    unfold subsetb. rewrite forallb_forall. intros H x Hx. specialize (H x Hx).
    apply existsb_exists in H as [y [Hy E]]. apply reqb_eq in E. now subst.
  Qed.

  Lemma lookup_In k l r : lookup k l = Some r -> In r l /\ key r = k.
  Proof. unfold lookup. intros H. apply find_some in H as [H1 H2]. apply N.eqb_eq in H2. auto. Qed.

  Lemma In_lookup k l r : NoDup (map key l) -> In r l -> key r = k -> lookup k l = Some r.
  Proof.
    unfold lookup. induction l as [|x t IH]; cbn; [tauto|]. intros Hnd [H|H] Hk.
    - subst x. rewrite <- Hk, N.eqb_refl. reflexivity.
    - inversion Hnd as [|? ? Hx Hnd']; subst. destruct (N.eqb_spec (key x) (key r)) as [E|]; [|auto].
      exfalso. apply Hx. rewrite E. now apply in_map.
  Qed.

  Lemma lookup_none k l : lookup k l = None -> forall r, In r l -> key r <> k.
  Proof.
    unfold lookup. intros H r Hin Hk. pose proof (find_none _ _ H r Hin) as Hn. cbn in Hn.
    rewrite Hk, N.eqb_refl in Hn. discriminate.
  Qed.

  Lemma lookup_agree a b :
    subsetb a b = true -> subsetb b a = true -> NoDup (map key a) -> NoDup (map key b) ->
    forall k, lookup k a = lookup k b.
  Proof.
    intros Hab Hba Ha Hb k. destruct (lookup k a) as [r|] eqn:E.
    - apply lookup_In in E as [Hin Hk]. symmetry. apply In_lookup; auto. eapply subsetb_In; eauto.
    - destruct (lookup k b) as [r|] eqn:E'; [|reflexivity].
      apply lookup_In in E' as [Hin Hk]. exfalso. eapply lookup_none; eauto. eapply subsetb_In; eauto.
  Qed.
End FM.
