(* Lemmas and tactics for gen/SrcTie.v: `src_f args i = run (f args) i`.
   The source side is a term of the result monad over `run` of atomic / nested combinator terms; the model side is
   `run` of the hand-written term.  [tie] rewrites `run` on the structural constructors (Bind Ret ErrK On Peek Vrfy
   Cmpl Opt Alt GetI) into the result monad, keeps `run` of the primitives (Take BeU TagB Idx Many0 Many1) opaque,
   case-splits on their results and on the conditions, and closes the leaves by reflexivity / arithmetic.  Repeated
   parsers with syntactically different but extensionally equal arguments go through [peq] congruence lemmas. *)
From TlsModel Require Import Nom Values Handshake Record Extensions Kx Dtls ModelExtra SrcGlue Consts Dispatch DispatchTypes.
From Coq Require Import Lia ZifyN ZifyBool.
Open Scope N_scope.

Section RunEq.
  Context {A B : Type}.
  Lemma trun_Bind (p : P A) (k : A -> P B) i : run (Bind p k) i = bindr (run p i) (fun r a => run (k a) r).
  Proof. reflexivity. Qed.
  Lemma trun_Ret (a : A) i : run (Ret a) i = Ok i a.
  Proof. reflexivity. Qed.
  Lemma trun_ErrK k i : run (@ErrK A k) i = Err i k.
  Proof. reflexivity. Qed.
  Lemma trun_PanicP i : run (@PanicP A) i = Panic.
  Proof. reflexivity. Qed.
  Lemma trun_On s (p : P A) i : run (On s p) i = bindr (run p s) (fun _ a => Ok i a).
  Proof. reflexivity. Qed.
  Lemma trun_Peek (p : P A) i : run (Peek p) i = bindr (run p i) (fun _ a => Ok i a).
  Proof. cbn [run]. destruct (run p i); reflexivity. Qed.
  Lemma trun_Vrfy (p : P A) f i : run (Vrfy p f) i = bindr (run p i) (fun r a => if f a then Ok r a else Err i KVerify).
  Proof. cbn [run]. destruct (run p i); reflexivity. Qed.
  Lemma trun_Cmpl (p : P A) i :
    run (Cmpl p) i = match run p i with Incomplete _ => Err i KComplete | r => r end.
  Proof. reflexivity. Qed.
  Lemma trun_Opt (p : P A) i :
    run (Opt p) i = match run p i with
                    | Ok r a => Ok r (Some a) | Err _ _ => Ok i None | Fail s k => Fail s k
                    | Incomplete n => Incomplete n | Panic => Panic | OutOfFuel => OutOfFuel end.
  Proof. reflexivity. Qed.
  Lemma trun_Alt (p q : P A) i : run (Alt p q) i = match run p i with Err _ _ => run q i | r => r end.
  Proof. reflexivity. Qed.
End RunEq.
Lemma trun_GetI i : run GetI i = Ok i i.
Proof. reflexivity. Qed.
Lemma trun_if {A} (b : bool) (p q : P A) i : run (if b then p else q) i = if b then run p i else run q i.
Proof. destruct b; reflexivity. Qed.
Lemma trun_match_opt {A B} (o : option B) (f : B -> P A) (q : P A) i :
  run (match o with Some x => f x | None => q end) i = match o with Some x => run (f x) i | None => run q i end.
Proof. destruct o; reflexivity. Qed.

(* extensional equality of parser terms, and its congruences *)
Definition peq {A} (p q : P A) : Prop := forall j, run p j = run q j.
Lemma peq_refl {A} (p : P A) : peq p p.
Proof. intro; reflexivity. Qed.

Section Loops.
  Context {A : Type} (f g : slice -> res A) (H : forall j, f j = g j).
  Lemma many0_loop_ext fuel : forall i, many0_loop f fuel i = many0_loop g fuel i.
  Proof.
    induction fuel as [|b fuel IH]; intro i; cbn [many0_loop]; rewrite H; destruct (g i); try reflexivity;
      destruct (slen rem =? slen i); try reflexivity. rewrite IH; reflexivity.
  Qed.
  Lemma many1_loop_ext fuel : forall i, many1_loop f fuel i = many1_loop g fuel i.
  Proof.
    induction fuel as [|b fuel IH]; intro i; cbn [many1_loop]; rewrite H; destruct (g i); try reflexivity;
      destruct (slen rem =? slen i); try reflexivity. rewrite IH; reflexivity.
  Qed.
End Loops.
Lemma peq_Many0 {A} (p q : P A) : peq p q -> peq (Many0 p) (Many0 q).
Proof. intros H j. cbn [run]. unfold many0_run. apply many0_loop_ext. exact H. Qed.
Lemma peq_Many1 {A} (p q : P A) : peq p q -> peq (Many1 p) (Many1 q).
Proof.
  intros H j. cbn [run]. unfold many1_run. rewrite (H j). destruct (run q j); try reflexivity.
  rewrite (many1_loop_ext _ _ H). reflexivity.
Qed.
Lemma peq_Cmpl {A} (p q : P A) : peq p q -> peq (Cmpl p) (Cmpl q).
Proof. intros H j. cbn [run]. rewrite (H j). reflexivity. Qed.
Lemma peq_Opt {A} (p q : P A) : peq p q -> peq (Opt p) (Opt q).
Proof. intros H j. cbn [run]. rewrite (H j). reflexivity. Qed.
Lemma peq_Alt {A} (p p' q q' : P A) : peq p p' -> peq q q' -> peq (Alt p q) (Alt p' q').
Proof. intros H1 H2 j. cbn [run]. rewrite (H1 j), (H2 j). reflexivity. Qed.
Lemma peq_On {A} s (p q : P A) : peq p q -> peq (On s p) (On s q).
Proof. intros H j. cbn [run]. rewrite (H s). reflexivity. Qed.
Lemma peq_Vrfy {A} (p q : P A) f : peq p q -> peq (Vrfy p f) (Vrfy q f).
Proof. intros H j. cbn [run]. rewrite (H j). reflexivity. Qed.
Lemma peq_Bind {A B} (p q : P A) (k l : A -> P B) : peq p q -> (forall a, peq (k a) (l a)) -> peq (Bind p k) (Bind q l).
Proof. intros H1 H2 j. cbn [run]. rewrite (H1 j). destruct (run q j); try reflexivity. apply H2. Qed.
Lemma peq_run {A} (p q : P A) j : peq p q -> run p j = run q j.
Proof. intros H; apply H. Qed.

Ltac tie_unfold :=
  cbv beta delta [pmap length_data map_parser cond g_id g_pair g_triple g_MAlert g_MApplicationData g_MHeartbeat
                  g_HNewSessionTicket g_HCertificateStatus g_HNextProtocol g_DMAlert g_DHelloVerifyRequest g_mkEP
                  opt_ext tagged with_len empty_only parse_alert_pair parse_sig_hash_pair ca_list parse_dtls_handshake_msg_server_hello_tlsv12
                  parse_dtls_handshake_msg_serverdone parse_dtls_handshake_msg_clientkeyexchange parse_dtls_handshake_msg_certificate].

Ltac tie_norm :=
  repeat (rewrite ?trun_Bind, ?trun_Ret, ?trun_ErrK, ?trun_PanicP, ?trun_On, ?trun_Peek, ?trun_Vrfy, ?trun_Cmpl, ?trun_Opt,
                  ?trun_Alt, ?trun_GetI, ?trun_if, ?trun_match_opt; cbn [bindr fst snd]).

Ltac is_atomic p :=
  lazymatch p with
  | Bind _ _ => fail | Ret _ => fail | ErrK _ => fail | On _ _ => fail | Peek _ => fail | Vrfy _ _ => fail
  | Cmpl _ => fail | Opt _ => fail | Alt _ _ => fail | GetI => fail | PanicP => fail
  | (if _ then _ else _) => fail
  | (match _ with _ => _ end) => fail
  | _ => idtac
  end.

(* make the argument of a repeated parser on the left equal to the one on the right *)
Ltac tie_many tie_rec :=
  match goal with
  | |- context [run (Many0 ?p) ?j] =>
      match goal with
      | |- context [run (Many0 ?q) j] =>
          lazymatch p with q => fail | _ => idtac end;
          rewrite (peq_run (Many0 p) (Many0 q) j) by (apply peq_Many0; intro; tie_rec)
      end
  | |- context [run (Many1 ?p) ?j] =>
      match goal with
      | |- context [run (Many1 ?q) j] =>
          lazymatch p with q => fail | _ => idtac end;
          rewrite (peq_run (Many1 p) (Many1 q) j) by (apply peq_Many1; intro; tie_rec)
      end
  end.

Ltac tie_if :=
  match goal with
  | |- context [if ?b then _ else _] =>
      lazymatch b with
      | context [if _ then _ else _] => fail
      | context [match _ with _ => _ end] => fail
      | _ => destruct b eqn:?
      end
  end.

Ltac tie_split :=
  match goal with
  | |- context [bindr (run ?p ?j) _] => is_atomic p; destruct (run p j) eqn:?
  | |- context [match run ?p ?j with _ => _ end] => is_atomic p; destruct (run p j) eqn:?
  | |- context [match ?o with Some _ => _ | None => _ end] =>
      lazymatch o with
      | context [match _ with _ => _ end] => fail
      | context [if _ then _ else _] => fail
      | _ => destruct o eqn:?
      end
  end.

Ltac tie_close := first [ reflexivity | congruence | exfalso; lia ].

(* the dispatch tables (gen/Dispatch.v) and the selectors that interpret them *)
Ltac tie_tables :=
  cbv [assoc_N hs_table sh_versions sh_msg_versions rec_table dtls_rec_table dtls_hs_table generic_table client_table server_table
       dispatch_ext grease_test grease_mask grease_val grease_same_bytes].
Ltac tie_simpl :=
  cbn [rec_body hs_body dtls_hs_body dtls_rec_body ext_content fst snd bindr]; tie_unfold; tie_norm.

Ltac tie :=
  tie_tables; tie_simpl;
  first [ reflexivity
        | repeat (first [ tie_if | progress (tie_many tie) | tie_split ]; tie_simpl; try tie_close);
          tie_close ].

(* the hand-indexed list decoders: `&i[..len]`, `.chunks(2)`, `chunk[1]` against the model's Idx / pairs16 *)
From TlsModel Require Import BytesLemmas RunLemmas.
From Coq Require Import ZArith.
Ltac tie_lists :=
  tie_tables; tie_simpl; rewrite ?has_len_spec; unfold pairs16_panics, pairs16_val, stake, parse_u16_all, slen in *; cbn [bytes off] in *;
  repeat (first [ tie_if | tie_split ]; tie_simpl; rewrite ?run_idx in *; unfold slen in *; cbn [bytes off] in *;
          try first [ reflexivity | congruence | exfalso; (let hook := fresh in idtac); lia ]);
  tie_close.
Ltac tie_parse_cipher_suites := tie_lists.
Ltac tie_parse_compressions_algs := tie_lists.
Ltac tie_parse_named_groups := unfold parse_u16_all; tie_lists.
Ltac tie_parse_tls_versions := unfold parse_u16_all; tie_lists.

(* element n of a list all of whose elements satisfy P (used to pick one public parser out of Proofs/PublicSafe.v
   by position: the proof term is the position, not a chain of disjunctions) *)
Lemma forall_nth_error {A} (Q : A -> Prop) (l : list A) : Forall Q l -> forall n x, nth_error l n = Some x -> Q x.
Proof.
  intros H n x E. apply nth_error_In in E. revert x E. apply Forall_forall. exact H.
Qed.

(* ---- T13: serializer ties (`src_gen_x args = gen_x args` over the `ser` monad) ---- *)
From TlsModel Require Import Serialize SerExtra SerConsts.
Lemma be_enc_mod_pow k v : be_enc k (v mod 256 ^ N.of_nat k) = be_enc k v.
Proof.
  revert v; induction k as [|k IH]; intro v; [reflexivity|].
  cbn [be_enc]. rewrite Nnat.Nat2N.inj_succ, N.pow_succ_r by lia.
  assert (H256 : 256 ^ N.of_nat k <> 0) by (apply N.pow_nonzero; lia).
  rewrite N.mod_mul_r by lia.
  set (X := (v / 256) mod 256 ^ N.of_nat k).
  replace (v mod 256 + 256 * X) with (X * 256 + v mod 256) by lia.
  f_equal.
  - rewrite N.div_add_l by lia. rewrite (N.div_small (v mod 256) 256) by (apply N.mod_lt; lia).
    rewrite N.add_0_r. unfold X. apply IH.
  - unfold n2b. rewrite N.add_comm, N.mod_add by lia. rewrite N.mod_mod by lia. reflexivity.
Qed.
Lemma u8_mod v : u8 (v mod 256) = u8 v.
Proof. exact (be_enc_mod_pow 1 v). Qed.
Lemma u16_mod v : u16 (v mod 65536) = u16 v.
Proof. exact (be_enc_mod_pow 2 v). Qed.
Lemma u24_mod v : u24 (v mod 16777216) = u24 v.
Proof. exact (be_enc_mod_pow 3 v). Qed.
Lemma sall_map_ok {A} (f : A -> list byte) l : sall (map (fun x => SerOk (f x)) l) = SerOk (concat (map f l)).
Proof. induction l as [|a l IH]; [reflexivity|]. cbn [map sall concat]. rewrite IH. reflexivity. Qed.

Ltac ser_norm :=
  cbn [sall scat sbind map concat fst snd]; rewrite ?sall_map_ok; cbn [sall scat sbind];
  rewrite ?u8_mod, ?u16_mod, ?u24_mod; try rewrite <- !app_assoc; cbn [app]; rewrite ?app_nil_r.
Ltac ser_atomic s :=
  lazymatch s with
  | sbind _ _ => fail | scat _ _ => fail | SerOk _ => fail | SerNYI => fail | SerPanic => fail
  | (if _ then _ else _) => fail | (match _ with _ => _ end) => fail
  | _ => idtac
  end.
Ltac ser_tie :=
  cbv [gen_tls_ext_sni gen_tls_ext_max_fragment_length gen_tls_named_group gen_tls_ext_elliptic_curves gen_tls_sessionid_ser
       maybe_extensions_ser gen_tls_clientkeyexchange_unknown gen_tls_clientkeyexchange_dh gen_tls_clientkeyexchange_ecdh
       gen_tls_hellorequest gen_tls_finished gen_tls_changecipherspec tagged_extension length_be_u16 length_be_u24
       gen_tls_sessionid maybe_extensions gen_tls_ext_sni_hostname g_id
       ser_ccs_byte ser_ty_clienthello ser_ty_serverhello ser_ty_serverhello13 ser_ty_cke_unknown ser_ty_cke_dh ser_ty_cke_ecdh
       ser_ty_hellorequest ser_ty_finished ser_tag_sni ser_tag_mfl ser_tag_groups];
  repeat match goal with
         | |- context [match ?x with _ => _ end] => is_var x; destruct x
         end;
  ser_norm;
  try reflexivity;
  repeat (match goal with
          | |- context [if ?b then _ else _] => destruct b eqn:?
          | |- context [sbind ?s _] => ser_atomic s; destruct s
          | |- context [scat ?s _] => ser_atomic s; destruct s
          | |- context [scat _ ?s] => ser_atomic s; destruct s
          end; ser_norm; try reflexivity; try congruence).
