From TlsModel Require Import Bytes.
From Coq Require Import Lia ZArith ZifyBool ZifyN.
Ltac Zify.zify_post_hook ::= Z.div_mod_to_equations.
Arguments N.add : simpl never. Arguments N.sub : simpl never.
Arguments N.mul : simpl never. Arguments N.eqb : simpl never.
Arguments N.ltb : simpl never. Arguments N.leb : simpl never.
Arguments N.div : simpl never. Arguments N.modulo : simpl never.
Arguments N.pred : simpl never. Arguments N.succ : simpl never.

Section L.
Context {A : Type}.
Implicit Types l : list A.

Lemma lenN_app l1 l2 : lenN (l1 ++ l2) = lenN l1 + lenN l2.
Proof. induction l1 as [|x t IH]; cbn [lenN app]; lia. Qed.

Lemma lenN_nil_inv l : lenN l = 0 -> l = [].
Proof. destruct l; cbn [lenN]; [reflexivity | lia]. Qed.

Lemma lenN_length l : lenN l = N.of_nat (length l).
Proof. induction l as [|x t IH]; cbn [lenN length]; lia. Qed.

Lemma takeN_0 l : takeN l 0 = [].
Proof. destruct l; reflexivity. Qed.
Lemma dropN_0 l : dropN l 0 = l.
Proof. destruct l; reflexivity. Qed.

Lemma takeN_dropN l n : takeN l n ++ dropN l n = l.
Proof.
  revert n; induction l as [|x t IH]; intros n; cbn [takeN dropN]; [reflexivity|].
  destruct (N.eqb_spec n 0); cbn [app]; [reflexivity | now rewrite IH].
Qed.

Lemma lenN_takeN l n : n <= lenN l -> lenN (takeN l n) = n.
Proof.
  revert n; induction l as [|x t IH]; intros n H; cbn [takeN lenN] in *; [lia|].
  destruct (N.eqb_spec n 0); cbn [lenN]; [lia|]. rewrite IH; lia.
Qed.

Lemma lenN_takeN_le l n : lenN (takeN l n) <= lenN l.
Proof.
  revert n; induction l as [|x t IH]; intros n; cbn [takeN lenN]; [lia|].
  destruct (N.eqb_spec n 0); cbn [lenN]; [lia|]. specialize (IH (N.pred n)); lia.
Qed.

Lemma lenN_dropN l n : lenN (dropN l n) = lenN l - n.
Proof.
  revert n; induction l as [|x t IH]; intros n; cbn [dropN lenN]; [lia|].
  destruct (N.eqb_spec n 0); cbn [lenN]; [lia|]. rewrite IH; lia.
Qed.

Lemma takeN_all l n : lenN l <= n -> takeN l n = l.
Proof.
  revert n; induction l as [|x t IH]; intros n H; cbn [takeN lenN] in *; [reflexivity|].
  destruct (N.eqb_spec n 0); [lia|]. rewrite IH; [reflexivity | lia].
Qed.

Lemma dropN_all l n : lenN l <= n -> dropN l n = [].
Proof.
  revert n; induction l as [|x t IH]; intros n H; cbn [dropN lenN] in *; [reflexivity|].
  destruct (N.eqb_spec n 0); [lia|]. rewrite IH; [reflexivity | lia].
Qed.

Lemma takeN_app_exact l1 l2 : takeN (l1 ++ l2) (lenN l1) = l1.
Proof.
  induction l1 as [|x t IH]; cbn [app lenN].
  - apply takeN_0.
  - cbn [takeN]. destruct (N.eqb_spec (N.succ (lenN t)) 0); [lia|].
    rewrite N.pred_succ, IH; reflexivity.
Qed.

Lemma dropN_app_exact l1 l2 : dropN (l1 ++ l2) (lenN l1) = l2.
Proof.
  induction l1 as [|x t IH]; cbn [app lenN].
  - apply dropN_0.
  - cbn [dropN]. destruct (N.eqb_spec (N.succ (lenN t)) 0); [lia|].
    rewrite N.pred_succ, IH; reflexivity.
Qed.

Lemma takeN_app_len l1 l2 n : n = lenN l1 -> takeN (l1 ++ l2) n = l1.
Proof. intros ->. apply takeN_app_exact. Qed.
Lemma dropN_app_len l1 l2 n : n = lenN l1 -> dropN (l1 ++ l2) n = l2.
Proof. intros ->. apply dropN_app_exact. Qed.

Lemma takeN_app_le l1 l2 n : n <= lenN l1 -> takeN (l1 ++ l2) n = takeN l1 n.
Proof.
  revert n; induction l1 as [|x t IH]; intros n H; cbn [app lenN takeN] in *.
  - assert (n = 0) by lia; subst; apply takeN_0.
  - destruct (N.eqb_spec n 0); [reflexivity|]. rewrite IH; [reflexivity | lia].
Qed.

Lemma dropN_app_le l1 l2 n : n <= lenN l1 -> dropN (l1 ++ l2) n = dropN l1 n ++ l2.
Proof.
  revert n; induction l1 as [|x t IH]; intros n H; cbn [app lenN dropN] in *.
  - assert (n = 0) by lia; subst; now rewrite dropN_0.
  - destruct (N.eqb_spec n 0); [reflexivity|]. rewrite IH; [reflexivity | lia].
Qed.

Lemma dropN_dropN l n m : dropN (dropN l n) m = dropN l (n + m).
Proof.
  revert n m; induction l as [|x t IH]; intros n m; cbn [dropN]; [reflexivity|].
  destruct (N.eqb_spec n 0) as [->|Hn].
  - rewrite N.add_0_l. reflexivity.
  - destruct (N.eqb_spec (n + m) 0); [lia|]. rewrite IH. f_equal; lia.
Qed.

Lemma split_at_spec l n :
  split_at l n = if n <=? lenN l then inl (takeN l n, dropN l n) else inr (n - lenN l).
Proof.
  revert n; induction l as [|x t IH]; intros n; cbn [split_at takeN dropN lenN].
  - destruct (N.eqb_spec n 0) as [->|Hn]; cbn.
    + reflexivity.
    + destruct (N.leb_spec n 0); [lia|]. f_equal; lia.
  - destruct (N.eqb_spec n 0) as [->|Hn].
    + destruct (N.leb_spec 0 (N.succ (lenN t))); [reflexivity | lia].
    + rewrite IH. destruct (N.leb_spec (N.pred n) (lenN t)), (N.leb_spec n (N.succ (lenN t)));
        try lia; [reflexivity | f_equal; lia].
Qed.

Lemma has_len_spec l n : has_len l n = (n <=? lenN l).
Proof.
  revert n; induction l as [|x t IH]; intros n; cbn [has_len lenN].
  - destruct (N.eqb_spec n 0), (N.leb_spec n 0); try lia; reflexivity.
  - destruct (N.eqb_spec n 0) as [->|Hn].
    { destruct (N.leb_spec 0 (N.succ (lenN t))); [reflexivity | lia]. }
    rewrite IH. destruct (N.leb_spec (N.pred n) (lenN t)), (N.leb_spec n (N.succ (lenN t))); try lia; reflexivity.
Qed.
End L.

(* ---- bytes and big-endian integers ---- *)
Lemma b2n_lt b : b2n b < 256.
Proof. unfold b2n. pose proof (Byte.to_N_bounded b). lia. Qed.

Lemma b2n_n2b n : b2n (n2b n) = n mod 256.
Proof.
  unfold b2n, n2b.
  destruct (Byte.of_N (n mod 256)) as [b|] eqn:E.
  - apply Byte.to_of_N in E. exact E.
  - apply Byte.of_N_None_iff in E. lia.
Qed.

Lemma n2b_b2n b : n2b (b2n b) = b.
Proof.
  unfold n2b, b2n. rewrite N.mod_small by (pose proof (Byte.to_N_bounded b); lia).
  now rewrite Byte.of_to_N.
Qed.

Lemma lenN_be_enc k v : lenN (be_enc k v) = N.of_nat k.
Proof.
  revert v; induction k as [|k IH]; intros v; cbn [be_enc lenN]; [reflexivity|].
  rewrite lenN_app, IH. cbn [lenN]. lia.
Qed.

Lemma be_fold_app acc l1 l2 : be_fold acc (l1 ++ l2) = be_fold (be_fold acc l1) l2.
Proof. revert acc; induction l1 as [|b t IH]; intros acc; cbn [be_fold app]; [reflexivity | apply IH]. Qed.

Lemma be_fold_enc k : forall acc v, be_fold acc (be_enc k v) = acc * 256 ^ N.of_nat k + v mod 256 ^ N.of_nat k.
Proof.
  induction k as [|k IH]; intros acc v.
  - cbn [be_enc be_fold]. change (N.of_nat 0) with 0. rewrite N.pow_0_r, N.mod_1_r. lia.
  - cbn [be_enc]. rewrite be_fold_app, IH. cbn [be_fold]. rewrite b2n_n2b.
    rewrite Nat2N.inj_succ, N.pow_succ_r'.
    set (q := 256 ^ N.of_nat k). assert (q <> 0) by (apply N.pow_nonzero; lia).
    rewrite (N.mod_mul_r v 256 q) by lia. nia.
Qed.

Lemma be_val_enc k v : v < 256 ^ N.of_nat k -> be_val (be_enc k v) = v.
Proof. intros H. unfold be_val. rewrite be_fold_enc, N.mod_small by exact H. lia. Qed.

Lemma be_fold_bound l : forall acc, be_fold acc l < (acc + 1) * 256 ^ lenN l.
Proof.
  induction l as [|b t IH]; intros acc; cbn [be_fold lenN].
  - rewrite N.pow_0_r. lia.
  - specialize (IH (acc * 256 + b2n b)). rewrite N.pow_succ_r'. pose proof (b2n_lt b).
    set (q := 256 ^ lenN t) in *. nia.
Qed.

Lemma be_val_bound l : be_val l < 256 ^ lenN l.
Proof. unfold be_val. pose proof (be_fold_bound l 0). lia. Qed.

(* slices *)
Lemma slen_sapp s x : slen (sapp s x) = slen s + lenN x.
Proof. unfold slen, sapp; cbn. apply lenN_app. Qed.
