(* A deep embedding of the nom 7.1.3 streaming combinators the crate uses,
   with an executable interpreter.  Parsers of the crate are terms of [P];
   generic theorems (safety, termination, locality) are proved once, by
   induction over [P] (Proofs/NomGeneric.v).  Definitions only. *)
From TlsModel Require Export Bytes.

Inductive needed := Unknown | Size (n : N).
(* nom::Needed::new *)
Definition mk_needed (n : N) : needed := if n =? 0 then Unknown else Size n.

(* exactly the nom ErrorKinds the crate can produce *)
Inductive ekind :=
| KTag | KVerify | KSwitch | KTooLarge | KLengthValue | KComplete
| KMany0 | KMany1 | KCount | KAlt | KNonEmpty.

Inductive res (A : Type) : Type :=
| Ok (rem : slice) (a : A)
| Err (at_ : slice) (k : ekind)        (* nom::Err::Error *)
| Fail (at_ : slice) (k : ekind)       (* nom::Err::Failure *)
| Incomplete (nd : needed)
| Panic                                (* the Rust code would panic here *)
| OutOfFuel.                           (* model loop ran out of fuel (proved unreachable) *)
Arguments Ok {A}. Arguments Err {A}. Arguments Fail {A}.
Arguments Incomplete {A}. Arguments Panic {A}. Arguments OutOfFuel {A}.

Inductive P : Type -> Type :=
| Ret {A} (a : A) : P A
| Bind {A B} (p : P A) (k : A -> P B) : P B            (* `?` sequencing *)
| ErrK {A} (k : ekind) : P A                           (* Err(Err::Error(make_error(i,k))) *)
| Take (n : N) : P slice                               (* bytes::streaming::take *)
| BeU (k : nat) : P N                                  (* number::streaming::be_u{8k} *)
| TagB (t : list byte) : P unit                        (* bytes::streaming::tag *)
| Cmpl {A} (p : P A) : P A                             (* combinator::complete *)
| Opt {A} (p : P A) : P (option A)                     (* combinator::opt *)
| On {A} (s : slice) (p : P A) : P A                   (* run p on s, drop its remainder *)
| Many0 {A} (p : P A) : P (list A)
| Many1 {A} (p : P A) : P (list A)
| Alt {A} (p q : P A) : P A                            (* branch::alt((p,q)) *)
| Vrfy {A} (p : P A) (f : A -> bool) : P A             (* combinator::verify *)
| Peek {A} (p : P A) : P A                             (* let (_, v) = p(i)?  (input kept) *)
| GetI : P slice                                       (* the current input `i` itself *)
| Idx (n : N) : P slice                                (* (&i[..n], &i[n..]) : panics if short *)
| PanicP {A} : P A.

Fixpoint tag_cmp (t l : list byte) : option bool :=
  match t, l with
  | [], _ => Some true
  | _ :: _, [] => None
  | a :: t', b :: l' => if Byte.eqb a b then tag_cmp t' l' else Some false
  end.

Section Loops.
  Context {A : Type} (f : slice -> res A).
  (* fuel is the input byte list itself: one cell per iteration *)
  Fixpoint many0_loop (fuel : list byte) (i : slice) : res (list A) :=
    match f i with
    | Err _ _ => Ok i []
    | Ok r a =>
        if slen r =? slen i then Err i KMany0 else
        match fuel with
        | [] => OutOfFuel
        | _ :: fuel' =>
            match many0_loop fuel' r with
            | Ok r' l => Ok r' (a :: l)
            | e => e
            end
        end
    | Fail s k => Fail s k
    | Incomplete n => Incomplete n
    | Panic => Panic
    | OutOfFuel => OutOfFuel
    end.
  Fixpoint many1_loop (fuel : list byte) (i : slice) : res (list A) :=
    match f i with
    | Err _ _ => Ok i []
    | Ok r a =>
        if slen r =? slen i then Err i KMany1 else
        match fuel with
        | [] => OutOfFuel
        | _ :: fuel' =>
            match many1_loop fuel' r with
            | Ok r' l => Ok r' (a :: l)
            | e => e
            end
        end
    | Fail s k => Fail s k
    | Incomplete n => Incomplete n
    | Panic => Panic
    | OutOfFuel => OutOfFuel
    end.
  Definition many0_run (i : slice) : res (list A) := many0_loop (bytes i) i.
  (* first call: an Error is returned as is (append(Many1,e) = e); no progress check *)
  Definition many1_run (i : slice) : res (list A) :=
    match f i with
    | Ok r a =>
        match many1_loop (bytes i) r with
        | Ok r' l => Ok r' (a :: l)
        | e => e
        end
    | Err s k => Err s k
    | Fail s k => Fail s k
    | Incomplete n => Incomplete n
    | Panic => Panic
    | OutOfFuel => OutOfFuel
    end.
End Loops.

Definition cast {A B} (r : res A) : res B :=
  match r with
  | Ok _ _ => Panic (* never used on Ok *)
  | Err s k => Err s k | Fail s k => Fail s k
  | Incomplete n => Incomplete n | Panic => Panic | OutOfFuel => OutOfFuel
  end.

Fixpoint run {A} (p : P A) (i : slice) {struct p} : res A :=
  match p in P T return res T with
  | Ret a => Ok i a
  | Bind p k =>
      match run p i with
      | Ok r a => run (k a) r
      | Err s k => Err s k | Fail s k => Fail s k
      | Incomplete n => Incomplete n | Panic => Panic | OutOfFuel => OutOfFuel
      end
  | ErrK k => Err i k
  | Take n =>
      match split_at (bytes i) n with
      | inl (p, r) => Ok (mkS (off i + n) r) (mkS (off i) p)
      | inr m => Incomplete (mk_needed m)
      end
  | BeU k =>
      match split_at (bytes i) (N.of_nat k) with
      | inl (p, r) => Ok (mkS (off i + N.of_nat k) r) (be_val p)
      | inr m => Incomplete (mk_needed m)
      end
  | TagB t =>
      match tag_cmp t (bytes i) with
      | Some true => Ok (sdrop i (lenN t)) tt
      | Some false => Err i KTag
      | None => Incomplete (mk_needed (lenN t - slen i))
      end
  | Cmpl p =>
      match run p i with
      | Incomplete _ => Err i KComplete
      | r => r
      end
  | Opt p =>
      match run p i with
      | Ok r a => Ok r (Some a)
      | Err _ _ => Ok i None
      | Fail s k => Fail s k
      | Incomplete n => Incomplete n | Panic => Panic | OutOfFuel => OutOfFuel
      end
  | On s p =>
      match run p s with
      | Ok _ a => Ok i a
      | Err s k => Err s k | Fail s k => Fail s k
      | Incomplete n => Incomplete n | Panic => Panic | OutOfFuel => OutOfFuel
      end
  | Many0 p => many0_run (fun j => run p j) i
  | Many1 p => many1_run (fun j => run p j) i
  | Alt p q =>
      match run p i with
      | Err _ _ => run q i
      | r => r
      end
  | Vrfy p f =>
      match run p i with
      | Ok r a => if f a then Ok r a else Err i KVerify
      | r => r
      end
  | Peek p =>
      match run p i with
      | Ok _ a => Ok i a
      | r => r
      end
  | GetI => Ok i i
  | Idx n =>
      match split_at (bytes i) n with
      | inl (p, r) => Ok (mkS (off i + n) r) (mkS (off i) p)
      | inr _ => Panic
      end
  | PanicP => Panic
  end.

(* derived combinators *)
Definition pmap {A B} (p : P A) (f : A -> B) : P B := Bind p (fun a => Ret (f a)).
Definition length_data (f : P N) : P slice := Bind f Take.
Definition map_parser {A} (f : P slice) (g : P A) : P A := Bind f (fun s => On s g).
Definition cond {A} (b : bool) (p : P A) : P (option A) :=
  if b then pmap p Some else Ret None.
Definition be_u8 := BeU 1.
Definition be_u16 := BeU 2.
Definition be_u24 := BeU 3.
Definition be_u32 := BeU 4.
Definition be_u64 := BeU 8.
(* length_count(be_u8, be_u8): be_u8 never returns Error, so the Count
   error branch is unreachable; each element read can only be Incomplete(1) *)
Fixpoint count_u8 (n : nat) : P (list N) :=
  match n with
  | O => Ret []
  | S n' => Bind be_u8 (fun x => Bind (count_u8 n') (fun l => Ret (x :: l)))
  end.
Definition length_count_u8_u8 : P (list N) :=
  Bind be_u8 (fun c => count_u8 (N.to_nat c)).

Declare Scope parser_scope.
Delimit Scope parser_scope with parser.
Notation "'let*' x ':=' p 'in' q" := (Bind p (fun x => q))
  (at level 200, x pattern, p at level 100, q at level 200, right associativity) : parser_scope.
Open Scope parser_scope.
