(* Value types, mirroring the crate's Rust types constructor for constructor.
   Integers are N; every borrowed &[u8] is a [slice] (offset + bytes); owned
   Vec<u8> are plain [list N]/[list byte]. *)
From TlsModel Require Export Bytes.

Record TlsRecordHeader := mkHdr { h_type : N; h_version : N; h_len : N }.

Record ClientHelloC := mkCH {
  ch_version : N; ch_random : slice; ch_sid : option slice;
  ch_ciphers : list N; ch_comp : list N; ch_ext : option slice }.
Record ServerHelloC := mkSH {
  sh_version : N; sh_random : slice; sh_sid : option slice;
  sh_cipher : N; sh_comp : N; sh_ext : option slice }.
Record ServerHello13C := mkSH13 {
  sh13_version : N; sh13_random : slice; sh13_cipher : N; sh13_ext : option slice }.
Record HelloRetryC := mkHRR { hrr_version : N; hrr_cipher : N; hrr_ext : option slice }.
Record CertRequestC := mkCR {
  cr_types : list N; cr_sigalgs : option (list N); cr_ca : list slice }.
Inductive ClientKeyExchangeC := CkeDh (s : slice) | CkeEcdh (s : slice) | CkeUnknown (s : slice).

Inductive TlsMessageHandshake :=
| HHelloRequest
| HClientHello (c : ClientHelloC)
| HServerHello (c : ServerHelloC)
| HServerHelloV13Draft18 (c : ServerHello13C)
| HNewSessionTicket (hint : N) (ticket : slice)
| HEndOfEarlyData
| HHelloRetryRequest (c : HelloRetryC)
| HCertificate (chain : list slice)
| HServerKeyExchange (params : slice)
| HCertificateRequest (c : CertRequestC)
| HServerDone (s : slice)
| HCertificateVerify (s : slice)
| HClientKeyExchange (c : ClientKeyExchangeC)
| HFinished (s : slice)
| HCertificateStatus (status_type : N) (blob : slice)
| HNextProtocol (selected padding : slice)
| HKeyUpdate (v : N).

Inductive TlsMessage :=
| MHandshake (h : TlsMessageHandshake)
| MChangeCipherSpec
| MAlert (severity code : N)
| MApplicationData (blob : slice)
| MHeartbeat (hb_type payload_len : N) (payload : slice).

Record TlsPlaintext := mkPlain { p_hdr : TlsRecordHeader; p_msg : list TlsMessage }.
Record TlsEncrypted := mkEnc { e_hdr : TlsRecordHeader; e_blob : slice }.
Record TlsRawRecord := mkRaw { r_hdr : TlsRecordHeader; r_data : slice }.

(* extensions *)
Inductive TlsExtension :=
| ESNI (l : list (N * slice))
| EMaxFragmentLength (v : N)
| EStatusRequest (v : option (N * slice))
| EEllipticCurves (l : list N)
| EEcPointFormats (s : slice)
| ESignatureAlgorithms (l : list N)
| ERecordSizeLimit (v : N)
| ESessionTicket (s : slice)
| EKeyShareOld (s : slice)
| EKeyShare (s : slice)
| EPreSharedKey (s : slice)
| EEarlyData (v : option N)
| ESupportedVersions (l : list N)
| ECookie (s : slice)
| EPskExchangeModes (l : list byte)      (* owned Vec<u8> *)
| EHeartbeat (v : N)
| EALPN (l : list slice)
| ESignedCertificateTimestamp (v : option slice)
| EPadding (s : slice)
| EEncryptThenMac
| EExtendedMasterSecret
| EOidFilters (l : list (slice * slice))
| EPostHandshakeAuth
| ENextProtocolNegotiation
| ERenegotiationInfo (s : slice)
| EEncryptedServerName (ciphersuite group : N) (key_share record_digest encrypted_sni : slice)
| EGrease (t : N) (s : slice)
| EUnknown (t : N) (s : slice).

(* key exchange, signatures, CT *)
Record ServerDHParams := mkDH { dh_p : slice; dh_g : slice; dh_ys : slice }.
Record ExplicitPrimeC := mkEP {
  ep_prime_p : slice; ep_a : slice; ep_b : slice; ep_base : slice;
  ep_order : slice; ep_cofactor : slice }.
Inductive ECParametersContent := EcExplicitPrime (c : ExplicitPrimeC) | EcNamedGroup (g : N).
Record ECParameters := mkECP { ec_curve_type : N; ec_content : ECParametersContent }.
Record ServerECDHParams := mkECDH { ecdh_params : ECParameters; ecdh_public : slice }.
Record DigitallySigned := mkDS { ds_alg : option (N * N); ds_data : slice }.
Record SCT := mkSCT {
  sct_version : N; sct_id : slice; sct_timestamp : N; sct_ext : slice; sct_sig : DigitallySigned }.

(* DTLS *)
Record DTLSRecordHeader := mkDHdr {
  d_type : N; d_version : N; d_epoch : N; d_seq : N; d_len : N }.
Record DTLSClientHelloC := mkDCH {
  dch_version : N; dch_random : slice; dch_sid : option slice; dch_cookie : slice;
  dch_ciphers : list N; dch_comp : list N; dch_ext : option slice }.
Inductive DTLSBody :=
| DHelloRequest
| DClientHello (c : DTLSClientHelloC)
| DHelloVerifyRequest (server_version : N) (cookie : slice)
| DServerHello (c : ServerHelloC)
| DNewSessionTicket (hint : N) (ticket : slice)
| DHelloRetryRequest (c : HelloRetryC)
| DCertificate (chain : list slice)
| DServerKeyExchange (params : slice)
| DCertificateRequest (c : CertRequestC)
| DServerDone (s : slice)
| DCertificateVerify (s : slice)
| DClientKeyExchange (c : ClientKeyExchangeC)
| DFinished (s : slice)
| DCertificateStatus (status_type : N) (blob : slice)
| DNextProtocol (selected padding : slice)
| DFragment (s : slice).
Record DTLSMessageHandshake := mkDHS {
  dhs_type : N; dhs_length : N; dhs_seq : N; dhs_frag_off : N; dhs_frag_len : N;
  dhs_body : DTLSBody }.
Inductive DTLSMessage :=
| DMHandshake (h : DTLSMessageHandshake)
| DMChangeCipherSpec
| DMAlert (severity code : N)
| DMApplicationData (blob : slice)
| DMHeartbeat (hb_type payload_len : N) (payload : slice).
Record DTLSPlaintext := mkDPlain { dp_hdr : DTLSRecordHeader; dp_msgs : list DTLSMessage }.
