(* line protocol for the hello accessors:
     @hello tls <hex body>        parse_tls_handshake_client_hello, then every accessor
     @hello dtls <hex message>    parse_dtls_message_handshake (ClientHello), then every accessor
     @hello sh <hex body>         parse_tls_handshake_server_hello: get_version, get_cipher
     @hello new <ver> <random> <sid> <c1.c2..> <m1.m2..> <ext>    TlsClientHelloContents::new, then every accessor
     @hello shnew <ver> <random> <sid> <cipher> <comp> <ext>      TlsServerHelloContents::new *)
From Coq Require Import String.
From TlsModel Require Import Show Entries Handshake Dtls Accessors SerEntry.
Open Scope list_scope.

Definition show_optid (o : option N) : sx := sopt SN o.
Definition show_ch (version : N) (random : slice) (sid : option slice) (ciphers comp : list N) (ext : option slice) : list byte :=
  render (C "hello" [SN version; SS random; SN (rand_time random); SS (rand_bytes random); sopt SS sid;
                     slist SN ciphers; slist SN comp; sopt SS ext;
                     slist show_optid (cipher_suites ciphers)]).
Definition show_sh (c : ServerHelloC) : list byte :=
  render (C "shello" [SN (sh_version c); SS (sh_random c); sopt SS (sh_sid c); SN (sh_cipher c); SN (sh_comp c); sopt SS (sh_ext c);
                      show_optid (get_cipher (sh_cipher c))]).

Definition run_hello_line (toks : list (list byte)) : list byte :=
  let kind := f toks 0 in
  if beq_bytes kind (str "tls") then
    match run parse_tls_handshake_client_hello (mkS 0 (tok_hex (f toks 1))) with
    | Ok _ c => show_ch (ch_version c) (ch_random c) (ch_sid c) (ch_ciphers c) (ch_comp c) (ch_ext c)
    | _ => str "(noparse)"
    end
  else if beq_bytes kind (str "dtls") then
    match run parse_dtls_message_handshake (mkS 0 (tok_hex (f toks 1))) with
    | Ok _ (DMHandshake h) =>
        match dhs_body h with
        | DClientHello c => show_ch (dch_version c) (dch_random c) (dch_sid c) (dch_ciphers c) (dch_comp c) (dch_ext c)
        | _ => str "(noparse)"
        end
    | _ => str "(noparse)"
    end
  else if beq_bytes kind (str "sh") then
    match run parse_tls_handshake_server_hello (mkS 0 (tok_hex (f toks 1))) with
    | Ok _ c => show_sh c
    | _ => str "(noparse)"
    end
  else if beq_bytes kind (str "new") then
    show_ch (parse_dec (f toks 1)) (mkS 0 (tok_hex (f toks 2))) (tok_optslice (f toks 3)) (tok_nums (f toks 4)) (tok_nums (f toks 5)) (tok_optslice (f toks 6))
  else
    show_sh (mkSH (parse_dec (f toks 1)) (mkS 0 (tok_hex (f toks 2))) (tok_optslice (f toks 3)) (parse_dec (f toks 4)) (parse_dec (f toks 5)) (tok_optslice (f toks 6))).

(* spec side (property text): rand_time = big-endian u32 of the first four random bytes (0 if there are fewer),
   rand_bytes = what follows them, cipher ids mapped through the text registry *)
From TlsModel Require Import CipherTxt CipherSpec Ciphers CipherTypes.
Definition spec_rand_time (random : slice) : N := if 4 <=? slen random then be_val (takeN (bytes random) 4) else 0.
Definition spec_rand_bytes (random : slice) : slice := if 4 <=? slen random then mkS (off random + 4) (dropN (bytes random) 4) else mkS 0 [].
Definition spec_suite (id : N) : option N :=
  match interp_all txt_rows with Some rows => option_map c_id (find_id id rows) | None => None end.
Definition spec_ch (version : N) (random : slice) (sid : option slice) (ciphers comp : list N) (ext : option slice) : list byte :=
  str "~ " ++
  render (C "hello" [SN version; SS random; SN (spec_rand_time random); SS (spec_rand_bytes random); sopt SS sid;
                     slist SN ciphers; slist SN comp; sopt SS ext; slist show_optid (map spec_suite ciphers)]).
Definition spec_sh (c : ServerHelloC) : list byte :=
  str "~ " ++
  render (C "shello" [SN (sh_version c); SS (sh_random c); sopt SS (sh_sid c); SN (sh_cipher c); SN (sh_comp c); sopt SS (sh_ext c);
                      show_optid (spec_suite (sh_cipher c))]).
Definition spec_hello_line (toks : list (list byte)) : list byte :=
  let kind := f toks 0 in
  if beq_bytes kind (str "tls") then
    match run parse_tls_handshake_client_hello (mkS 0 (tok_hex (f toks 1))) with
    | Ok _ c => spec_ch (ch_version c) (ch_random c) (ch_sid c) (ch_ciphers c) (ch_comp c) (ch_ext c)
    | _ => str "any"
    end
  else if beq_bytes kind (str "dtls") then
    match run parse_dtls_message_handshake (mkS 0 (tok_hex (f toks 1))) with
    | Ok _ (DMHandshake h) =>
        match dhs_body h with
        | DClientHello c => spec_ch (dch_version c) (dch_random c) (dch_sid c) (dch_ciphers c) (dch_comp c) (dch_ext c)
        | _ => str "any"
        end
    | _ => str "any"
    end
  else if beq_bytes kind (str "sh") then
    match run parse_tls_handshake_server_hello (mkS 0 (tok_hex (f toks 1))) with
    | Ok _ c => spec_sh c
    | _ => str "any"
    end
  else if beq_bytes kind (str "new") then
    spec_ch (parse_dec (f toks 1)) (mkS 0 (tok_hex (f toks 2))) (tok_optslice (f toks 3)) (tok_nums (f toks 4)) (tok_nums (f toks 5)) (tok_optslice (f toks 6))
  else
    spec_sh (mkSH (parse_dec (f toks 1)) (mkS 0 (tok_hex (f toks 2))) (tok_optslice (f toks 3)) (parse_dec (f toks 4)) (parse_dec (f toks 5)) (tok_optslice (f toks 6))).
