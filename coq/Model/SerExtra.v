(* Model terms for the helper functions of src/tls_serialize.rs that Model/Serialize.v inlines, under the Rust names
   (so that the source translation T13 can refer to them and tie them separately). *)
From TlsModel Require Export Bytes Values Serialize.
From TlsModel Require Import SerConsts.

Definition gen_tls_ext_sni (l : list (N * slice)) : ser :=
  tagged_extension ser_tag_sni (length_be_u16 (sall (map gen_tls_ext_sni_hostname l))).
Definition gen_tls_ext_max_fragment_length (v : N) : ser := tagged_extension ser_tag_mfl (SerOk (u8 v)).
Definition gen_tls_named_group (g : N) : ser := SerOk (u16 g).
Definition gen_tls_ext_elliptic_curves (l : list N) : ser :=
  tagged_extension ser_tag_groups (length_be_u16 (SerOk (concat (map u16 l)))).
Definition gen_tls_sessionid_ser (s : option slice) : ser := SerOk (gen_tls_sessionid s).
Definition maybe_extensions_ser (e : option slice) : ser := SerOk (maybe_extensions e).
Definition gen_tls_clientkeyexchange_unknown (b : slice) : ser := scat (SerOk (u8 ser_ty_cke_unknown)) (length_be_u24 (SerOk (bytes b))).
Definition gen_tls_clientkeyexchange_dh (b : slice) : ser := scat (SerOk (u8 ser_ty_cke_dh)) (length_be_u24 (length_be_u16 (SerOk (bytes b)))).
Definition gen_tls_clientkeyexchange_ecdh (b : slice) : ser := scat (SerOk (u8 ser_ty_cke_ecdh)) (length_be_u24 (SerOk (u8 (slen b) ++ bytes b))).
Definition gen_tls_hellorequest : ser := SerOk (u8 ser_ty_hellorequest ++ u24 0).
Definition gen_tls_finished (s : slice) : ser := scat (SerOk (u8 ser_ty_finished)) (length_be_u24 (SerOk (bytes s))).
Definition gen_tls_changecipherspec : ser := SerOk (u8 ser_ccs_byte).
