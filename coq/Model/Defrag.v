(* src/tls_records_parser.rs: TlsRecordsParser as init / step. *)
From TlsModel Require Export Nom Values Record.
From TlsModel Require Import Consts.

Record defrag_state := mkD { d_buf : list byte; d_cur : option N }.
Definition d_init : defrag_state := mkD [] None.                 (* Default::default() *)
Definition defrag_in_progress (s : defrag_state) : bool :=
  match d_cur s with Some _ => true | None => false end.

Inductive dop :=
| OpParse (hdr : TlsRecordHeader) (data : list byte)       (* parse_record(TlsRawRecord{hdr,data}) *)
| OpNoCopy (hdr : TlsRecordHeader) (data : list byte)      (* parse_record_nocopy *)
| OpReset.

(* where the slices of a result live *)
Inductive region := Caller | Buffer.
Definition dout := (region * res (list TlsMessage))%type.

Definition empty_in : slice := mkS 0 [].                        (* the static &[] of Error::new(&[], ..) *)
Definition is_complete_err {A} (r : res A) : bool :=
  match r with Err _ KComplete | Fail _ KComplete => true | _ => false end.
(* Err(Error(e)) | Err(Failure(e)) if e.code == Complete => Incomplete(Unknown); other => other *)
Definition map_complete {A} (r : res A) : res A :=
  if is_complete_err r then Incomplete Unknown else r.

Definition nocopy (s : defrag_state) (hdr : TlsRecordHeader) (data : list byte) : defrag_state * dout :=
  if defrag_in_progress s then (s, (Caller, Fail empty_in KNonEmpty))
  else (s, (Caller, map_complete (run (parse_tls_record_with_header hdr) (mkS 0 data)))).

(* debug_assert!(!self.record_defrag_buffer.is_empty()) is compiled in (debug assertions on) iff [dbg] *)
Definition parse_record (dbg : bool) (s : defrag_state) (hdr : TlsRecordHeader) (data : list byte)
  : defrag_state * dout :=
  match d_cur s with
  | None =>
      if (h_type hdr =? 21) || (h_type hdr =? 20) then nocopy s hdr data else
      let r := run (parse_tls_record_with_header hdr) (mkS 0 data) in
      let fragmented := (mkD data (Some (h_type hdr)), (Caller, Incomplete Unknown)) in
      match r with
      | Ok _ _ => (s, (Caller, r))
      | Incomplete _ => fragmented
      | _ => if is_complete_err r then fragmented else (s, (Caller, r))
      end
  | Some cur =>
      if dbg && (lenN (d_buf s) =? 0) then (s, (Caller, Panic)) else
      if negb (h_type hdr =? cur) then (s, (Caller, Err empty_in KTag)) else
      if MAX_RECORD_DATA <=? lenN (d_buf s) + lenN data then (s, (Caller, Err empty_in KTooLarge)) else
      let buf := d_buf s ++ data in
      let header := mkHdr (h_type hdr) (h_version hdr) (lenN buf mod 65536) in
      let r := run (parse_tls_record_with_header header) (mkS 0 buf) in
      match r with
      | Ok _ _ => (mkD buf None, (Buffer, r))
      | _ => (mkD buf (Some cur), (Buffer, map_complete r))
      end
  end.

Definition step (dbg : bool) (s : defrag_state) (o : dop) : defrag_state * option dout :=
  match o with
  | OpParse hdr data => let (s', r) := parse_record dbg s hdr data in (s', Some r)
  | OpNoCopy hdr data => let (s', r) := nocopy s hdr data in (s', Some r)
  | OpReset => (d_init, None)
  end.

Definition is_panic (r : option dout) : bool :=
  match r with Some (_, Panic) => true | _ => false end.
(* a history ends at the first panic *)
Fixpoint run_ops (dbg : bool) (s : defrag_state) (ops : list dop) : list (option dout * defrag_state) :=
  match ops with
  | [] => []
  | o :: t => let (s', r) := step dbg s o in
              (r, s') :: (if is_panic r then [] else run_ops dbg s' t)
  end.
