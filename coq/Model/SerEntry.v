(* line protocol for the serializer:
     @ser msg <desc> | @ser rec <type> <ver> <desc>;<desc>... | @ser ext <desc> | @ser exts <desc>;...
   message descriptions (fields separated by ','; hex fields use '-' for empty and 'N' for None):
     ch,<ver>,<random>,<sid>,<c1.c2...|->,<m1.m2...|->,<ext>   sh,<ver>,<random>,<sid>,<cipher>,<comp>,<ext>
     sh13,<ver>,<random>,<cipher>,<ext>   cke,<u|d|e>,<hex>   fin,<hex>   hr   ccs   alert   app   cert
   extension descriptions:  sni,<t>:<hex>.<t>:<hex>...   mfl,<n>   groups,<g1.g2...>   other
   output: (ser <hex> | (parse result of those bytes) | reser <same|diff|->)  or  (nyi) / (panic) *)
From Coq Require Import String.
From TlsModel Require Import Show Entries Serialize Handshake Record Extensions.
Open Scope list_scope.

Definition tok_hex (t : list byte) : list byte := if beq_bytes t [x2d] then [] else unhex t.
Definition tok_optslice (t : list byte) : option slice := if beq_bytes t [x4e] then None else Some (mkS 0 (tok_hex t)).
Definition tok_nums (t : list byte) : list N := if beq_bytes t [x2d] then [] else map parse_dec (split_on x2e t).
Definition f (l : list (list byte)) (k : nat) : list byte := nth k l [].

Definition read_msg (d : list byte) : TlsMessage :=
  let a := split_on x2c d in
  let k := f a 0 in
  if beq_bytes k (str "ch") then
    MHandshake (HClientHello (mkCH (parse_dec (f a 1)) (mkS 0 (tok_hex (f a 2))) (tok_optslice (f a 3)) (tok_nums (f a 4)) (tok_nums (f a 5)) (tok_optslice (f a 6))))
  else if beq_bytes k (str "sh") then
    MHandshake (HServerHello (mkSH (parse_dec (f a 1)) (mkS 0 (tok_hex (f a 2))) (tok_optslice (f a 3)) (parse_dec (f a 4)) (parse_dec (f a 5)) (tok_optslice (f a 6))))
  else if beq_bytes k (str "sh13") then
    MHandshake (HServerHelloV13Draft18 (mkSH13 (parse_dec (f a 1)) (mkS 0 (tok_hex (f a 2))) (parse_dec (f a 3)) (tok_optslice (f a 4))))
  else if beq_bytes k (str "cke") then
    let b := mkS 0 (tok_hex (f a 2)) in
    MHandshake (HClientKeyExchange (if beq_bytes (f a 1) (str "d") then CkeDh b else if beq_bytes (f a 1) (str "e") then CkeEcdh b else CkeUnknown b))
  else if beq_bytes k (str "fin") then MHandshake (HFinished (mkS 0 (tok_hex (f a 1))))
  else if beq_bytes k (str "hr") then MHandshake HHelloRequest
  else if beq_bytes k (str "ccs") then MChangeCipherSpec
  else if beq_bytes k (str "alert") then MAlert 1 0
  else if beq_bytes k (str "app") then MApplicationData (mkS 0 [x01])
  else MHandshake (HCertificate []).

Definition read_ext (d : list byte) : TlsExtension :=
  let a := split_on x2c d in
  let k := f a 0 in
  if beq_bytes k (str "sni") then
    ESNI (if beq_bytes (f a 1) [x2d] then [] else
          map (fun e => let p := split_on x3a e in (parse_dec (f p 0), mkS 0 (tok_hex (f p 1)))) (split_on x2e (f a 1)))
  else if beq_bytes k (str "mfl") then EMaxFragmentLength (parse_dec (f a 1))
  else if beq_bytes k (str "groups") then EEllipticCurves (tok_nums (f a 1))
  else EHeartbeat 1.

Definition show_ser (s : ser) (reparse : list byte -> list byte) (reser : list byte -> ser) : list byte :=
  match s with
  | SerOk b =>
      str "(ser " ++ (match b with [] => [x2d] | _ => hex b end) ++ str " | " ++ reparse b ++ str " | reser " ++
      (match reser b with SerOk b' => if beq_bytes b b' then str "same" else str "diff" | SerNYI => str "nyi" | SerPanic => str "panic" end) ++ str ")"
  | SerNYI => str "(nyi)"
  | SerPanic => str "(panic)"
  end.

Definition run_ser_line (toks : list (list byte)) : list byte :=
  let kind := f toks 0 in
  if beq_bytes kind (str "msg") then
    let m := read_msg (f toks 1) in
    match m with
    | MChangeCipherSpec =>
        show_ser (gen_tls_message m)
          (fun b => show_res sx_msg (run parse_tls_message_changecipherspec (mkS 0 b)))
          (fun b => match run parse_tls_message_changecipherspec (mkS 0 b) with Ok _ v => gen_tls_message v | _ => SerNYI end)
    | _ =>
        show_ser (gen_tls_message m)
          (fun b => show_res sx_msg (run parse_tls_message_handshake (mkS 0 b)))
          (fun b => match run parse_tls_message_handshake (mkS 0 b) with Ok _ v => gen_tls_message v | _ => SerNYI end)
    end
  else if beq_bytes kind (str "rec") then
    let msgs := map read_msg (split_on x3b (f toks 3)) in
    let p := mkPlain (mkHdr (parse_dec (f toks 1)) (parse_dec (f toks 2)) 0) msgs in
    show_ser (gen_tls_plaintext p)
      (fun b => show_res sx_plain (run parse_tls_plaintext (mkS 0 b)))
      (fun b => match run parse_tls_plaintext (mkS 0 b) with Ok _ v => gen_tls_plaintext v | _ => SerNYI end)
  else if beq_bytes kind (str "ext") then
    show_ser (gen_tls_extension (read_ext (f toks 1)))
      (fun b => show_res sx_ext (run parse_tls_extension (mkS 0 b)))
      (fun b => match run parse_tls_extension (mkS 0 b) with Ok _ v => gen_tls_extension v | _ => SerNYI end)
  else
    let es := if beq_bytes (f toks 1) [x2d] then [] else map read_ext (split_on x3b (f toks 1)) in
    show_ser (gen_tls_extensions es)
      (fun b => show_res (slist sx_ext) (run (let* blk := length_data be_u16 in On blk parse_tls_extensions) (mkS 0 b)))
      (fun b => match run (let* blk := length_data be_u16 in On blk parse_tls_extensions) (mkS 0 b) with
                | Ok _ v => gen_tls_extensions v | _ => SerNYI end).

(* spec side: the RFC encoding of the normalised value, and that it reads back as that value *)
From TlsModel Require Import Wire ExtEnc.
Definition norm_ext_s (e : option slice) : option slice := match e with None => Some (mkS 0 []) | s => s end.
Definition norm_hs_s (h : TlsMessageHandshake) : TlsMessageHandshake :=
  match h with
  | HClientHello c => HClientHello (mkCH (ch_version c) (ch_random c) (ch_sid c) (ch_ciphers c) (ch_comp c) (norm_ext_s (ch_ext c)))
  | HServerHello c => HServerHello (mkSH (sh_version c) (sh_random c) (sh_sid c) (sh_cipher c) (sh_comp c)
                                         (if sh_version c =? 768 then None else norm_ext_s (sh_ext c)))
  | HServerHelloV13Draft18 c => HServerHelloV13Draft18 (mkSH13 (sh13_version c) (sh13_random c) (sh13_cipher c) (norm_ext_s (sh13_ext c)))
  | HClientKeyExchange (CkeDh b) => HClientKeyExchange (CkeUnknown (mkS 0 (vec16 (bytes b))))
  | HClientKeyExchange (CkeEcdh b) => HClientKeyExchange (CkeUnknown (mkS 0 (vec8 (bytes b))))
  | other => other
  end.
Definition norm_msg_s (m : TlsMessage) : TlsMessage := match m with MHandshake h => MHandshake (norm_hs_s h) | o => o end.
Definition sup_msg (m : TlsMessage) : bool :=
  match m with
  | MHandshake (HHelloRequest | HClientHello _ | HServerHello _ | HServerHelloV13Draft18 _ | HClientKeyExchange _ | HFinished _) => true
  | MChangeCipherSpec => true
  | _ => false
  end.
(* wire encoding of what the serializer must emit: SSLv3 ServerHello still carries the (empty) block *)
Definition enc_msg_ser (m : TlsMessage) : list byte :=
  match m with
  | MHandshake (HServerHello c) =>
      enc_handshake (HServerHello (mkSH (sh_version c) (sh_random c) (sh_sid c) (sh_cipher c) (sh_comp c) (norm_ext_s (sh_ext c))))
  | _ => enc_msg (norm_msg_s m)
  end.
Definition spec_out (b : list byte) (parsed : list byte) : list byte :=
  str "~ (ser " ++ (match b with [] => [x2d] | _ => hex b end) ++ str " | " ++ parsed ++ str " | reser same)".

Definition spec_ser_line (toks : list (list byte)) : list byte :=
  let kind := f toks 0 in
  if beq_bytes kind (str "msg") then
    let m := read_msg (f toks 1) in
    if sup_msg m then spec_out (enc_msg_ser m) (show_res sx_msg (Ok (mkS 0 []) (norm_msg_s m))) else str "= (nyi)"
  else if beq_bytes kind (str "rec") then
    let msgs := map read_msg (split_on x3b (f toks 3)) in
    if forallb sup_msg msgs then
      let payload := concat (map enc_msg_ser msgs) in
      let ty := parse_dec (f toks 1) in let ver := parse_dec (f toks 2) in
      (* the record only reads back when its content type matches its messages; otherwise only the bytes are fixed *)
      let consistent := match msgs with
                        | [] => false
                        | _ => (forallb (fun m => match m with MHandshake _ => true | _ => false end) msgs && (ty =? 22)) ||
                               (forallb (fun m => match m with MChangeCipherSpec => true | _ => false end) msgs && (ty =? 20))
                        end in
      if consistent then
        spec_out (enc_record ty ver payload) (show_res sx_plain (Ok (mkS 0 []) (mkPlain (mkHdr ty ver (lenN payload)) (map norm_msg_s msgs))))
      else str "any"
    else str "= (nyi)"
  else if beq_bytes kind (str "ext") then
    let e := read_ext (f toks 1) in
    match e with
    | ESNI [] => spec_out (u16 0 ++ u16 2 ++ u16 0) (show_res sx_ext (Ok (mkS 0 []) e))
    | ESNI _ | EMaxFragmentLength _ | EEllipticCurves _ => spec_out (enc_ext e) (show_res sx_ext (Ok (mkS 0 []) e))
    | _ => str "= (nyi)"
    end
  else
    let es := if beq_bytes (f toks 1) [x2d] then [] else map read_ext (split_on x3b (f toks 1)) in
    if forallb (fun e => match e with ESNI _ | EMaxFragmentLength _ | EEllipticCurves _ => true | _ => false end) es then
      let enc1 e := match e with ESNI [] => u16 0 ++ u16 2 ++ u16 0 | _ => enc_ext e end in
      spec_out (vec16 (concat (map enc1 es))) (show_res (slist sx_ext) (Ok (mkS 0 []) es))
    else str "= (nyi)".
