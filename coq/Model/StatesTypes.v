(* Vocabulary of the regenerated state tables (gen/StateTable.v). *)
From Coq Require Export NArith List Bool.
Export ListNotations.
Open Scope N_scope.

Inductive TlsState :=
| SNone | SClientHello | SAskResumeSession | SResumeSession | SServerHello | SCertificate | SCertificateSt
| SServerKeyExchange | SServerHelloDone | SClientKeyExchange | SClientChangeCipherSpec
| SCRCertRequest | SCRHelloDone | SCRCert | SCRClientKeyExchange | SCRCertVerify
| SNoCertSKE | SNoCertHelloDone | SNoCertCKE | SPskHelloDone | SPskCKE
| SSessionEncrypted | SAlert | SFinished | SInvalid.

Inductive hs_kind :=
| KHelloRequest | KClientHello | KServerHello | KServerHelloV13Draft18 | KNewSessionTicket | KEndOfEarlyData
| KHelloRetryRequest | KCertificate | KServerKeyExchange | KCertificateRequest | KServerDone
| KCertificateVerify | KClientKeyExchange | KFinished | KCertificateStatus | KNextProtocol | KKeyUpdate.

Inductive spat := SP_any | SP_bind | SP_is (s : TlsState).
Inductive hpat := HP_any | HP_is (k : hs_kind).
Inductive dpat := DP_any | DP_is (b : bool).
Inductive mpat := MP_any | MP_handshake | MP_ccs | MP_alert | MP_appdata | MP_heartbeat.
(* right-hand sides (closed set; anything else is untranslatable) *)
Inductive hrhs := R_ok (s : TlsState) | R_same | R_invalid | R_sid_split (some none : TlsState).
Inductive orhs := O_ok (s : TlsState) | O_same | O_invalid | O_delegate | O_alert_split (other : TlsState).

Definition all_states : list TlsState :=
  [SNone; SClientHello; SAskResumeSession; SResumeSession; SServerHello; SCertificate; SCertificateSt;
   SServerKeyExchange; SServerHelloDone; SClientKeyExchange; SClientChangeCipherSpec;
   SCRCertRequest; SCRHelloDone; SCRCert; SCRClientKeyExchange; SCRCertVerify;
   SNoCertSKE; SNoCertHelloDone; SNoCertCKE; SPskHelloDone; SPskCKE;
   SSessionEncrypted; SAlert; SFinished; SInvalid].
Definition all_hs_kinds : list hs_kind :=
  [KHelloRequest; KClientHello; KServerHello; KServerHelloV13Draft18; KNewSessionTicket; KEndOfEarlyData;
   KHelloRetryRequest; KCertificate; KServerKeyExchange; KCertificateRequest; KServerDone;
   KCertificateVerify; KClientKeyExchange; KFinished; KCertificateStatus; KNextProtocol; KKeyUpdate].

Scheme Equality for TlsState.
Scheme Equality for hs_kind.
