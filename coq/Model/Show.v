(* Canonical text form of results and values, used by the correspondence
   check (the Rust harness prints the same grammar).  Definitions only. *)
From Coq Require Import String Decimal DecimalN.
From TlsModel Require Export Bytes Nom Values.

Definition str (s : string) : list byte := list_byte_of_string s.

Inductive sx :=
| SN (n : N)                       (* decimal integer *)
| SS (s : slice)                   (* borrowed slice: #off:hex, #_: when empty *)
| SB (l : list byte)               (* owned bytes: hex *)
| SA (a : list byte)               (* bare atom *)
| SC (name : list byte) (args : list sx)   (* (Name a b c) *)
| SL (l : list sx).                (* [a b c] *)

Fixpoint uint_bytes (u : Decimal.uint) : list byte :=
  match u with
  | Nil => []
  | D0 u => x30 :: uint_bytes u | D1 u => x31 :: uint_bytes u
  | D2 u => x32 :: uint_bytes u | D3 u => x33 :: uint_bytes u
  | D4 u => x34 :: uint_bytes u | D5 u => x35 :: uint_bytes u
  | D6 u => x36 :: uint_bytes u | D7 u => x37 :: uint_bytes u
  | D8 u => x38 :: uint_bytes u | D9 u => x39 :: uint_bytes u
  end.
Definition dec (n : N) : list byte := uint_bytes (N.to_uint n).

Definition hexdigit (n : N) : byte :=
  if n <? 10 then n2b (48 + n) else n2b (87 + n).
Fixpoint hex (l : list byte) : list byte :=
  match l with
  | [] => []
  | b :: t => hexdigit (b2n b / 16) :: hexdigit (b2n b mod 16) :: hex t
  end.

(* pfx = [] for slices of the caller's input, "b" for slices of the defragmenter's buffer *)
Definition show_pos_p (pfx : list byte) (s : slice) : list byte :=
  match bytes s with [] => [x5f] | _ => pfx ++ dec (off s) end.
Definition show_pos := show_pos_p [].

Fixpoint render_p (pfx : list byte) (x : sx) : list byte :=
  match x with
  | SN n => dec n
  | SS s => x23 :: show_pos_p pfx s ++ x3a :: hex (bytes s)
  | SB l => x78 :: hex l
  | SA a => a
  | SC name args =>
      x28 :: name ++
      (fix go (l : list sx) : list byte :=
         match l with [] => [x29] | a :: t => x20 :: render_p pfx a ++ go t end) args
  | SL l =>
      x5b ::
      (fix go (first : bool) (l : list sx) : list byte :=
         match l with
         | [] => [x5d]
         | a :: t => (if first then [] else [x20]) ++ render_p pfx a ++ go false t
         end) true l
  end.
Definition render := render_p [].

Definition C (name : string) (args : list sx) : sx := SC (str name) args.
Definition sopt {A} (f : A -> sx) (o : option A) : sx :=
  match o with None => SA (str "None") | Some a => C "Some" [f a] end.
Definition slist {A} (f : A -> sx) (l : list A) : sx := SL (map f l).

Definition ekind_name (k : ekind) : list byte :=
  str match k with
      | KTag => "Tag" | KVerify => "Verify" | KSwitch => "Switch" | KTooLarge => "TooLarge"
      | KLengthValue => "LengthValue" | KComplete => "Complete" | KMany0 => "Many0"
      | KMany1 => "Many1" | KCount => "Count" | KAlt => "Alt" | KNonEmpty => "NonEmpty"
      end.

Definition show_at_p (pfx : list byte) (s : slice) : list byte :=
  x40 :: show_pos_p pfx s ++ x2b :: dec (slen s).
Definition show_at := show_at_p [].

Definition show_res_p (pfx : list byte) {A} (f : A -> sx) (r : res A) : list byte :=
  match r with
  | Ok rem a => str "(ok " ++ show_at_p pfx rem ++ x20 :: render_p pfx (f a) ++ [x29]
  | Err s k => str "(err " ++ ekind_name k ++ x20 :: show_at_p pfx s ++ [x29]
  | Fail s k => str "(fail " ++ ekind_name k ++ x20 :: show_at_p pfx s ++ [x29]
  | Incomplete Unknown => str "(inc ?)"
  | Incomplete (Size n) => str "(inc " ++ dec n ++ [x29]
  | Panic => str "(panic)"
  | OutOfFuel => str "(fuel)"
  end.
Definition show_res {A} := @show_res_p [] A.

(* ---- values ---- *)
Definition sx_hdr (h : TlsRecordHeader) : sx := C "Hdr" [SN (h_type h); SN (h_version h); SN (h_len h)].
Definition sx_cke (c : ClientKeyExchangeC) : sx :=
  match c with
  | CkeDh s => C "Dh" [SS s] | CkeEcdh s => C "Ecdh" [SS s] | CkeUnknown s => C "Unknown" [SS s]
  end.
Definition sx_ch (c : ClientHelloC) : sx :=
  C "ClientHello" [SN (ch_version c); SS (ch_random c); sopt SS (ch_sid c);
                   slist SN (ch_ciphers c); slist SN (ch_comp c); sopt SS (ch_ext c)].
Definition sx_sh (c : ServerHelloC) : sx :=
  C "ServerHello" [SN (sh_version c); SS (sh_random c); sopt SS (sh_sid c);
                   SN (sh_cipher c); SN (sh_comp c); sopt SS (sh_ext c)].
Definition sx_hrr (c : HelloRetryC) : sx :=
  C "HelloRetryRequest" [SN (hrr_version c); SN (hrr_cipher c); sopt SS (hrr_ext c)].
Definition sx_cr (c : CertRequestC) : sx :=
  C "CertificateRequest" [slist SN (cr_types c); sopt (slist SN) (cr_sigalgs c); slist SS (cr_ca c)].
Definition sx_hs (h : TlsMessageHandshake) : sx :=
  match h with
  | HHelloRequest => C "HelloRequest" []
  | HClientHello c => sx_ch c
  | HServerHello c => sx_sh c
  | HServerHelloV13Draft18 c =>
      C "ServerHelloV13Draft18" [SN (sh13_version c); SS (sh13_random c); SN (sh13_cipher c); sopt SS (sh13_ext c)]
  | HNewSessionTicket h t => C "NewSessionTicket" [SN h; SS t]
  | HEndOfEarlyData => C "EndOfEarlyData" []
  | HHelloRetryRequest c => sx_hrr c
  | HCertificate l => C "Certificate" [slist SS l]
  | HServerKeyExchange s => C "ServerKeyExchange" [SS s]
  | HCertificateRequest c => sx_cr c
  | HServerDone s => C "ServerDone" [SS s]
  | HCertificateVerify s => C "CertificateVerify" [SS s]
  | HClientKeyExchange c => C "ClientKeyExchange" [sx_cke c]
  | HFinished s => C "Finished" [SS s]
  | HCertificateStatus t b => C "CertificateStatus" [SN t; SS b]
  | HNextProtocol a b => C "NextProtocol" [SS a; SS b]
  | HKeyUpdate v => C "KeyUpdate" [SN v]
  end.
Definition sx_msg (m : TlsMessage) : sx :=
  match m with
  | MHandshake h => C "Handshake" [sx_hs h]
  | MChangeCipherSpec => C "ChangeCipherSpec" []
  | MAlert s c => C "Alert" [SN s; SN c]
  | MApplicationData b => C "ApplicationData" [SS b]
  | MHeartbeat t l p => C "Heartbeat" [SN t; SN l; SS p]
  end.
Definition sx_plain (p : TlsPlaintext) : sx := C "Plaintext" [sx_hdr (p_hdr p); slist sx_msg (p_msg p)].
Definition sx_enc (p : TlsEncrypted) : sx := C "Encrypted" [sx_hdr (e_hdr p); SS (e_blob p)].
Definition sx_raw (p : TlsRawRecord) : sx := C "Raw" [sx_hdr (r_hdr p); SS (r_data p)].

Definition sx_ext (e : TlsExtension) : sx :=
  match e with
  | ESNI l => C "SNI" [slist (fun p => C "" [SN (fst p); SS (snd p)]) l]
  | EMaxFragmentLength v => C "MaxFragmentLength" [SN v]
  | EStatusRequest v => C "StatusRequest" [sopt (fun p => C "" [SN (fst p); SS (snd p)]) v]
  | EEllipticCurves l => C "EllipticCurves" [slist SN l]
  | EEcPointFormats s => C "EcPointFormats" [SS s]
  | ESignatureAlgorithms l => C "SignatureAlgorithms" [slist SN l]
  | ERecordSizeLimit v => C "RecordSizeLimit" [SN v]
  | ESessionTicket s => C "SessionTicket" [SS s]
  | EKeyShareOld s => C "KeyShareOld" [SS s]
  | EKeyShare s => C "KeyShare" [SS s]
  | EPreSharedKey s => C "PreSharedKey" [SS s]
  | EEarlyData v => C "EarlyData" [sopt SN v]
  | ESupportedVersions l => C "SupportedVersions" [slist SN l]
  | ECookie s => C "Cookie" [SS s]
  | EPskExchangeModes l => C "PskExchangeModes" [SB l]
  | EHeartbeat v => C "Heartbeat" [SN v]
  | EALPN l => C "ALPN" [slist SS l]
  | ESignedCertificateTimestamp v => C "SignedCertificateTimestamp" [sopt SS v]
  | EPadding s => C "Padding" [SS s]
  | EEncryptThenMac => C "EncryptThenMac" []
  | EExtendedMasterSecret => C "ExtendedMasterSecret" []
  | EOidFilters l => C "OidFilters" [slist (fun p => C "" [SS (fst p); SS (snd p)]) l]
  | EPostHandshakeAuth => C "PostHandshakeAuth" []
  | ENextProtocolNegotiation => C "NextProtocolNegotiation" []
  | ERenegotiationInfo s => C "RenegotiationInfo" [SS s]
  | EEncryptedServerName c g k r e => C "EncryptedServerName" [SN c; SN g; SS k; SS r; SS e]
  | EGrease t s => C "Grease" [SN t; SS s]
  | EUnknown t s => C "Unknown" [SN t; SS s]
  end.

Definition sx_dh (d : ServerDHParams) : sx := C "DH" [SS (dh_p d); SS (dh_g d); SS (dh_ys d)].
Definition sx_ecc (c : ECParametersContent) : sx :=
  match c with
  | EcExplicitPrime c => C "ExplicitPrime" [SS (ep_prime_p c); SS (ep_a c); SS (ep_b c); SS (ep_base c);
                                            SS (ep_order c); SS (ep_cofactor c)]
  | EcNamedGroup g => C "NamedGroup" [SN g]
  end.
Definition sx_ecp (p : ECParameters) : sx := C "ECParameters" [SN (ec_curve_type p); sx_ecc (ec_content p)].
Definition sx_ecdh (p : ServerECDHParams) : sx := C "ECDH" [sx_ecp (ecdh_params p); SS (ecdh_public p)].
Definition sx_ds (d : DigitallySigned) : sx :=
  C "Signed" [sopt (fun p => C "" [SN (fst p); SN (snd p)]) (ds_alg d); SS (ds_data d)].
Definition sx_sct (s : SCT) : sx :=
  C "SCT" [SN (sct_version s); SS (sct_id s); SN (sct_timestamp s); SS (sct_ext s); sx_ds (sct_sig s)].

Definition sx_dhdr (h : DTLSRecordHeader) : sx :=
  C "DHdr" [SN (d_type h); SN (d_version h); SN (d_epoch h); SN (d_seq h); SN (d_len h)].
Definition sx_dbody (b : DTLSBody) : sx :=
  match b with
  | DHelloRequest => C "HelloRequest" []
  | DClientHello c =>
      C "ClientHello" [SN (dch_version c); SS (dch_random c); sopt SS (dch_sid c); SS (dch_cookie c);
                       slist SN (dch_ciphers c); slist SN (dch_comp c); sopt SS (dch_ext c)]
  | DHelloVerifyRequest v c => C "HelloVerifyRequest" [SN v; SS c]
  | DServerHello c => sx_sh c
  | DNewSessionTicket h t => C "NewSessionTicket" [SN h; SS t]
  | DHelloRetryRequest c => sx_hrr c
  | DCertificate l => C "Certificate" [slist SS l]
  | DServerKeyExchange s => C "ServerKeyExchange" [SS s]
  | DCertificateRequest c => sx_cr c
  | DServerDone s => C "ServerDone" [SS s]
  | DCertificateVerify s => C "CertificateVerify" [SS s]
  | DClientKeyExchange c => C "ClientKeyExchange" [sx_cke c]
  | DFinished s => C "Finished" [SS s]
  | DCertificateStatus t b => C "CertificateStatus" [SN t; SS b]
  | DNextProtocol a b => C "NextProtocol" [SS a; SS b]
  | DFragment s => C "Fragment" [SS s]
  end.
Definition sx_dmsg (m : DTLSMessage) : sx :=
  match m with
  | DMHandshake h =>
      C "Handshake" [SN (dhs_type h); SN (dhs_length h); SN (dhs_seq h); SN (dhs_frag_off h);
                     SN (dhs_frag_len h); sx_dbody (dhs_body h);
                     (* DTLSMessage::is_fragment() *)
                     SA (str (match dhs_body h with DFragment _ => "is_fragment" | _ => "not_fragment" end))]
  | DMChangeCipherSpec => C "ChangeCipherSpec" []
  | DMAlert s c => C "Alert" [SN s; SN c]
  | DMApplicationData b => C "ApplicationData" [SS b]
  | DMHeartbeat t l p => C "Heartbeat" [SN t; SN l; SS p]
  end.
Definition sx_dplain (p : DTLSPlaintext) : sx := C "DPlaintext" [sx_dhdr (dp_hdr p); slist sx_dmsg (dp_msgs p)].
