(* Entry points of the model, addressed by the names of the Rust functions,
   and the line protocol of the correspondence check:
     <entry> <decimal arg>* <hex input | ->
   [run_line] maps one such line to the canonical output text. *)
From Coq Require Import String.
From TlsModel Require Export Nom Values Show Handshake Record.

Fixpoint beq_bytes (a b : list byte) : bool :=
  match a, b with
  | [], [] => true
  | x :: a', y :: b' => Byte.eqb x y && beq_bytes a' b'
  | _, _ => false
  end.

Fixpoint split_on (sep : byte) (l : list byte) : list (list byte) :=
  match l with
  | [] => [[]]
  | c :: t =>
      match split_on sep t with
      | cur :: rest => if Byte.eqb c sep then [] :: cur :: rest else (c :: cur) :: rest
      | [] => [[c]]
      end
  end.

Definition digit_val (c : byte) : N :=
  let n := b2n c in
  if (48 <=? n) && (n <=? 57) then n - 48
  else if (97 <=? n) && (n <=? 102) then n - 87
  else if (65 <=? n) && (n <=? 70) then n - 55 else 0.
Definition parse_dec (l : list byte) : N := fold_left (fun acc c => acc * 10 + digit_val c) l 0.
Fixpoint unhex (l : list byte) : list byte :=
  match l with
  | a :: b :: t => n2b (digit_val a * 16 + digit_val b) :: unhex t
  | _ => []
  end.

Definition arg (args : list N) (k : nat) : N := nth k args 0.
Definition entry_fn := list N -> list byte -> list byte.
Definition E {A} (p : P A) (f : A -> sx) : entry_fn :=
  fun _ b => show_res f (run p (mkS 0 b)).
Definition E1 {A} (p : N -> P A) (f : A -> sx) : entry_fn :=
  fun a b => show_res f (run (p (arg a 0)) (mkS 0 b)).

Definition sx_pair_ns (p : N * slice) : sx := C "" [SN (fst p); SS (snd p)].
Definition sx_pair_ss (p : slice * slice) : sx := C "" [SS (fst p); SS (snd p)].

Definition entries_tls : list (string * entry_fn) := [
  ("parse_tls_record_header", E parse_tls_record_header sx_hdr);
  ("parse_tls_record_with_header",
     fun a b => show_res (slist sx_msg)
                  (run (parse_tls_record_with_header (mkHdr (arg a 0) (arg a 1) (arg a 2))) (mkS 0 b)));
  ("parse_tls_plaintext", E parse_tls_plaintext sx_plain);
  ("parse_tls_encrypted", E parse_tls_encrypted sx_enc);
  ("parse_tls_raw_record", E parse_tls_raw_record sx_raw);
  ("tls_parser", E tls_parser sx_plain);
  ("tls_parser_many", E tls_parser_many (slist sx_plain));
  ("parse_tls_message_changecipherspec", E parse_tls_message_changecipherspec sx_msg);
  ("parse_tls_message_alert", E parse_tls_message_alert sx_msg);
  ("parse_tls_message_applicationdata", E parse_tls_message_applicationdata sx_msg);
  ("parse_tls_message_heartbeat", E1 parse_tls_message_heartbeat (slist sx_msg));
  ("parse_tls_message_handshake", E parse_tls_message_handshake sx_msg);
  ("parse_tls_handshake_client_hello", E parse_tls_handshake_client_hello sx_ch);
  ("parse_tls_handshake_server_hello", E parse_tls_handshake_server_hello sx_sh);
  ("parse_tls_handshake_certificaterequest", E parse_tls_handshake_certificaterequest sx_cr);
  ("parse_tls_handshake_certificatestatus", E parse_tls_handshake_certificatestatus
                                              (fun p => C "CertificateStatus" [SN (fst p); SS (snd p)]));
  ("parse_tls_handshake_next_protocol", E parse_tls_handshake_next_protocol
                                              (fun p => C "NextProtocol" [SS (fst p); SS (snd p)]));
  ("parse_tls_handshake_msg_hello_request", E parse_tls_handshake_msg_hello_request sx_hs);
  ("parse_tls_handshake_msg_client_hello", E parse_tls_handshake_msg_client_hello sx_hs);
  ("parse_tls_handshake_msg_server_hello", E parse_tls_handshake_msg_server_hello sx_hs);
  ("parse_tls_handshake_msg_newsessionticket", E1 parse_tls_handshake_msg_newsessionticket sx_hs);
  ("parse_tls_handshake_msg_hello_retry_request", E parse_tls_handshake_msg_hello_retry_request sx_hs);
  ("parse_tls_handshake_msg_certificate", E parse_tls_handshake_msg_certificate sx_hs);
  ("parse_tls_handshake_msg_serverkeyexchange", E1 parse_tls_handshake_msg_serverkeyexchange sx_hs);
  ("parse_tls_handshake_msg_serverdone", E1 parse_tls_handshake_msg_serverdone sx_hs);
  ("parse_tls_handshake_msg_certificateverify", E1 parse_tls_handshake_msg_certificateverify sx_hs);
  ("parse_tls_handshake_msg_clientkeyexchange", E1 parse_tls_handshake_msg_clientkeyexchange sx_hs);
  ("parse_tls_handshake_msg_certificaterequest", E parse_tls_handshake_msg_certificaterequest sx_hs);
  ("parse_tls_handshake_msg_finished", E1 parse_tls_handshake_msg_finished sx_hs);
  ("parse_tls_handshake_msg_certificatestatus", E parse_tls_handshake_msg_certificatestatus sx_hs);
  ("parse_tls_handshake_msg_next_protocol", E parse_tls_handshake_msg_next_protocol sx_hs);
  ("parse_tls_handshake_msg_key_update", E parse_tls_handshake_msg_key_update sx_hs)
]%string.

From TlsModel Require Export Extensions Kx Dtls.
Definition E3d {A} (p : DTLSRecordHeader -> P A) (f : A -> sx) : entry_fn :=
  fun a b => show_res f (run (p (mkDHdr (arg a 0) (arg a 1) (arg a 2) (arg a 3) (arg a 4))) (mkS 0 b)).
Definition Eb {A} (p : bool -> P A) (f : A -> sx) : entry_fn :=
  fun a b => show_res f (run (p (negb (arg a 0 =? 0))) (mkS 0 b)).

Definition entries_ext : list (string * entry_fn) := [
  ("parse_tls_extension", E parse_tls_extension sx_ext);
  ("parse_tls_client_hello_extension", E parse_tls_client_hello_extension sx_ext);
  ("parse_tls_server_hello_extension", E parse_tls_server_hello_extension sx_ext);
  ("parse_tls_extensions", E parse_tls_extensions (slist sx_ext));
  ("parse_tls_client_hello_extensions", E parse_tls_client_hello_extensions (slist sx_ext));
  ("parse_tls_server_hello_extensions", E parse_tls_server_hello_extensions (slist sx_ext));
  ("parse_tls_extension_unknown", E parse_tls_extension_unknown sx_ext);
  ("parse_tls_extension_sni_hostname", E parse_tls_extension_sni_hostname sx_pair_ns);
  ("parse_tls_extension_sni_content", E parse_tls_extension_sni_content sx_ext);
  ("parse_tls_extension_max_fragment_length_content", E parse_tls_extension_max_fragment_length_content sx_ext);
  ("parse_tls_extension_elliptic_curves_content", E parse_tls_extension_elliptic_curves_content sx_ext);
  ("parse_tls_extension_ec_point_formats_content", E parse_tls_extension_ec_point_formats_content sx_ext);
  ("parse_tls_extension_signature_algorithms_content", E parse_tls_extension_signature_algorithms_content sx_ext);
  ("parse_tls_extension_heartbeat_content", E parse_tls_extension_heartbeat_content sx_ext);
  ("parse_tls_extension_alpn_content", E parse_tls_extension_alpn_content sx_ext);
  ("parse_tls_extension_signed_certificate_timestamp_content", E parse_tls_extension_signed_certificate_timestamp_content sx_ext);
  ("parse_tls_extension_psk_key_exchange_modes_content", E parse_tls_extension_psk_key_exchange_modes_content sx_ext);
  ("parse_tls_extension_renegotiation_info_content", E parse_tls_extension_renegotiation_info_content sx_ext);
  ("parse_tls_extension_encrypted_server_name", E parse_tls_extension_encrypted_server_name sx_ext);
  ("parse_tls_extension_sni", E parse_tls_extension_sni sx_ext);
  ("parse_tls_extension_max_fragment_length", E parse_tls_extension_max_fragment_length sx_ext);
  ("parse_tls_extension_status_request", E parse_tls_extension_status_request sx_ext);
  ("parse_tls_extension_elliptic_curves", E parse_tls_extension_elliptic_curves sx_ext);
  ("parse_tls_extension_ec_point_formats", E parse_tls_extension_ec_point_formats sx_ext);
  ("parse_tls_extension_signature_algorithms", E parse_tls_extension_signature_algorithms sx_ext);
  ("parse_tls_extension_heartbeat", E parse_tls_extension_heartbeat sx_ext);
  ("parse_tls_extension_encrypt_then_mac", E parse_tls_extension_encrypt_then_mac sx_ext);
  ("parse_tls_extension_extended_master_secret", E parse_tls_extension_extended_master_secret sx_ext);
  ("parse_tls_extension_session_ticket", E parse_tls_extension_session_ticket sx_ext);
  ("parse_tls_extension_key_share", E parse_tls_extension_key_share sx_ext);
  ("parse_tls_extension_pre_shared_key", E parse_tls_extension_pre_shared_key sx_ext);
  ("parse_tls_extension_early_data", E parse_tls_extension_early_data sx_ext);
  ("parse_tls_extension_supported_versions", E parse_tls_extension_supported_versions sx_ext);
  ("parse_tls_extension_cookie", E parse_tls_extension_cookie sx_ext);
  ("parse_tls_extension_psk_key_exchange_modes", E parse_tls_extension_psk_key_exchange_modes sx_ext);
  ("parse_named_groups", E parse_named_groups (slist SN))
]%string.

Definition entries_kx : list (string * entry_fn) := [
  ("parse_dh_params", E parse_dh_params sx_dh);
  ("parse_ec_parameters", E parse_ec_parameters sx_ecp);
  ("parse_ecdh_params", E parse_ecdh_params sx_ecdh);
  ("parse_digitally_signed_old", E parse_digitally_signed_old sx_ds);
  ("parse_digitally_signed", E parse_digitally_signed sx_ds);
  ("parse_content_and_signature_dh", Eb (parse_content_and_signature parse_dh_params)
      (fun p => C "" [sx_dh (fst p); sx_ds (snd p)]));
  ("parse_content_and_signature_ecdh", Eb (parse_content_and_signature parse_ecdh_params)
      (fun p => C "" [sx_ecdh (fst p); sx_ds (snd p)]));
  ("parse_ct_signed_certificate_timestamp", E parse_ct_signed_certificate_timestamp sx_sct);
  ("parse_ct_signed_certificate_timestamp_list", E parse_ct_signed_certificate_timestamp_list (slist sx_sct));
  ("ECPoint::parse", E parse_ec_point SS);
  ("ECCurve::parse", E parse_ec_curve sx_pair_ss);
  ("ExplicitPrimeContent::parse", E parse_explicit_prime (fun c => sx_ecc (EcExplicitPrime c)));
  ("ECParametersContent::parse", E1 parse_ec_parameters_content sx_ecc)
]%string.

Definition entries_dtls : list (string * entry_fn) := [
  ("parse_dtls_record_header", E parse_dtls_record_header sx_dhdr);
  ("parse_dtls_message_handshake", E parse_dtls_message_handshake sx_dmsg);
  ("parse_dtls_message_changecipherspec", E parse_dtls_message_changecipherspec sx_dmsg);
  ("parse_dtls_message_alert", E parse_dtls_message_alert sx_dmsg);
  ("parse_dtls_record_with_header", E3d parse_dtls_record_with_header (slist sx_dmsg));
  ("parse_dtls_plaintext_record", E parse_dtls_plaintext_record sx_dplain);
  ("parse_dtls_plaintext_records", E parse_dtls_plaintext_records (slist sx_dplain))
]%string.
