(* Entry points of the model, addressed by the names of the Rust functions,
   and the line protocol of the correspondence check:
     <entry> <decimal arg>* <hex input | ->
   [run_line] maps one such line to the canonical output text. *)
From Coq Require Import String.
From TlsModel Require Export Nom Values Show Handshake Record.

Fixpoint beq_bytes (a b : list byte) : bool :=
  match a, b with
  | [], [] => true
  | x :: a', y :: b' => Byte.eqb x y && beq_bytes a' b'
  | _, _ => false
  end.

Fixpoint split_on (sep : byte) (l : list byte) : list (list byte) :=
  match l with
  | [] => [[]]
  | c :: t =>
      match split_on sep t with
      | cur :: rest => if Byte.eqb c sep then [] :: cur :: rest else (c :: cur) :: rest
      | [] => [[c]]
      end
  end.

Definition digit_val (c : byte) : N :=
  let n := b2n c in
  if (48 <=? n) && (n <=? 57) then n - 48
  else if (97 <=? n) && (n <=? 102) then n - 87
  else if (65 <=? n) && (n <=? 70) then n - 55 else 0.
Definition parse_dec (l : list byte) : N := fold_left (fun acc c => acc * 10 + digit_val c) l 0.
Fixpoint unhex (l : list byte) : list byte :=
  match l with
  | a :: b :: t => n2b (digit_val a * 16 + digit_val b) :: unhex t
  | _ => []
  end.

Definition arg (args : list N) (k : nat) : N := nth k args 0.
Definition entry_fn := list N -> list byte -> list byte.
Definition E {A} (p : P A) (f : A -> sx) : entry_fn :=
  fun _ b => show_res f (run p (mkS 0 b)).
Definition E1 {A} (p : N -> P A) (f : A -> sx) : entry_fn :=
  fun a b => show_res f (run (p (arg a 0)) (mkS 0 b)).

Definition sx_pair_ns (p : N * slice) : sx := C "" [SN (fst p); SS (snd p)].
Definition sx_pair_ss (p : slice * slice) : sx := C "" [SS (fst p); SS (snd p)].

Definition entries_tls : list (string * entry_fn) := [
  ("parse_tls_record_header", E parse_tls_record_header sx_hdr);
  ("parse_tls_record_with_header",
     fun a b => show_res (slist sx_msg)
                  (run (parse_tls_record_with_header (mkHdr (arg a 0) (arg a 1) (arg a 2))) (mkS 0 b)));
  ("parse_tls_plaintext", E parse_tls_plaintext sx_plain);
  ("parse_tls_encrypted", E parse_tls_encrypted sx_enc);
  ("parse_tls_raw_record", E parse_tls_raw_record sx_raw);
  ("tls_parser", E tls_parser sx_plain);
  ("tls_parser_many", E tls_parser_many (slist sx_plain));
  ("parse_tls_message_changecipherspec", E parse_tls_message_changecipherspec sx_msg);
  ("parse_tls_message_alert", E parse_tls_message_alert sx_msg);
  ("parse_tls_message_applicationdata", E parse_tls_message_applicationdata sx_msg);
  ("parse_tls_message_heartbeat", E1 parse_tls_message_heartbeat (slist sx_msg));
  ("parse_tls_message_handshake", E parse_tls_message_handshake sx_msg);
  ("parse_tls_handshake_client_hello", E parse_tls_handshake_client_hello sx_ch);
  ("parse_tls_handshake_server_hello", E parse_tls_handshake_server_hello sx_sh);
  ("parse_tls_handshake_certificaterequest", E parse_tls_handshake_certificaterequest sx_cr);
  ("parse_tls_handshake_certificatestatus", E parse_tls_handshake_certificatestatus
                                              (fun p => C "CertificateStatus" [SN (fst p); SS (snd p)]));
  ("parse_tls_handshake_next_protocol", E parse_tls_handshake_next_protocol
                                              (fun p => C "NextProtocol" [SS (fst p); SS (snd p)]));
  ("parse_tls_handshake_msg_hello_request", E parse_tls_handshake_msg_hello_request sx_hs);
  ("parse_tls_handshake_msg_client_hello", E parse_tls_handshake_msg_client_hello sx_hs);
  ("parse_tls_handshake_msg_server_hello", E parse_tls_handshake_msg_server_hello sx_hs);
  ("parse_tls_handshake_msg_newsessionticket", E1 parse_tls_handshake_msg_newsessionticket sx_hs);
  ("parse_tls_handshake_msg_hello_retry_request", E parse_tls_handshake_msg_hello_retry_request sx_hs);
  ("parse_tls_handshake_msg_certificate", E parse_tls_handshake_msg_certificate sx_hs);
  ("parse_tls_handshake_msg_serverkeyexchange", E1 parse_tls_handshake_msg_serverkeyexchange sx_hs);
  ("parse_tls_handshake_msg_serverdone", E1 parse_tls_handshake_msg_serverdone sx_hs);
  ("parse_tls_handshake_msg_certificateverify", E1 parse_tls_handshake_msg_certificateverify sx_hs);
  ("parse_tls_handshake_msg_clientkeyexchange", E1 parse_tls_handshake_msg_clientkeyexchange sx_hs);
  ("parse_tls_handshake_msg_certificaterequest", E parse_tls_handshake_msg_certificaterequest sx_hs);
  ("parse_tls_handshake_msg_finished", E1 parse_tls_handshake_msg_finished sx_hs);
  ("parse_tls_handshake_msg_certificatestatus", E parse_tls_handshake_msg_certificatestatus sx_hs);
  ("parse_tls_handshake_msg_next_protocol", E parse_tls_handshake_msg_next_protocol sx_hs);
  ("parse_tls_handshake_msg_key_update", E parse_tls_handshake_msg_key_update sx_hs)
]%string.
