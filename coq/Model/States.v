(* src/tls_states.rs: the two `match` tables, interpreted with Rust's
   first-matching-arm semantics over the regenerated arm lists. *)
From TlsModel Require Export StatesTypes.
From TlsModel Require Import StateTable.

(* what of a message the tables can observe: its kind, for ClientHello whether
   session_id is Some, for alerts the severity (T2 certifies that no arm binds
   any other payload) *)
Inductive mkind :=
| MkHs (k : hs_kind) (has_sid : bool)
| MkCcs
| MkAlert (severity code : N)
| MkAppData
| MkHeartbeat.

(* finite abstraction: alerts only through `severity == <constant of the table>` *)
Inductive akind := AHs (k : hs_kind) (has_sid : bool) | ACcs | AAlert (keeps : bool) | AAppData | AHeartbeat.
Definition abs_kind (keep_sev : N) (m : mkind) : akind :=
  match m with
  | MkHs k s => AHs k s
  | MkCcs => ACcs
  | MkAlert sev _ => AAlert (sev =? keep_sev)
  | MkAppData => AAppData
  | MkHeartbeat => AHeartbeat
  end.

Definition spat_m (p : spat) (s : TlsState) : bool :=
  match p with SP_any | SP_bind => true | SP_is s' => TlsState_beq s s' end.
Definition dpat_m (p : dpat) (d : bool) : bool :=
  match p with DP_any => true | DP_is b => Bool.eqb b d end.
Definition hpat_m (p : hpat) (k : hs_kind) : bool :=
  match p with HP_any => true | HP_is k' => hs_kind_beq k k' end.
Definition mpat_m (p : mpat) (a : akind) : bool :=
  match p, a with
  | MP_any, _ => true
  | MP_handshake, AHs _ _ => true
  | MP_ccs, ACcs => true
  | MP_alert, AAlert _ => true
  | MP_appdata, AAppData => true
  | MP_heartbeat, AHeartbeat => true
  | _, _ => false
  end.

(* None = Err(StateChangeError::InvalidTransition); a `match` without a matching arm
   cannot occur in Rust (exhaustiveness), modelled as None too *)
Fixpoint hs_first (arms : list (spat * hpat * dpat * hrhs)) (st : TlsState) (k : hs_kind) (sid d : bool)
  : option TlsState :=
  match arms with
  | [] => None
  | (sp, hp, dp, r) :: t =>
      if spat_m sp st && hpat_m hp k && dpat_m dp d then
        match r with
        | R_ok s => Some s
        | R_same => Some st
        | R_invalid => None
        | R_sid_split a b => Some (if sid then a else b)
        end
      else hs_first t st k sid d
  end.
Definition tls_state_transition_handshake := hs_first hs_arms.

Fixpoint outer_first (arms : list (spat * mpat * dpat * orhs)) (st : TlsState) (a : akind) (d : bool)
  : option TlsState :=
  match arms with
  | [] => None
  | (sp, mp, dp, r) :: t =>
      if spat_m sp st && mpat_m mp a && dpat_m dp d then
        match r with
        | O_ok s => Some s
        | O_same => Some st
        | O_invalid => None
        | O_delegate =>
            match a with AHs k sid => tls_state_transition_handshake st k sid d | _ => None end
        | O_alert_split other =>
            match a with AAlert keeps => Some (if keeps then st else other) | _ => None end
        end
      else outer_first t st a d
  end.
Definition transition_a := outer_first outer_arms.
Definition tls_state_transition (st : TlsState) (m : mkind) (to_server : bool) : option TlsState :=
  transition_a st (abs_kind alert_keep_severity m) to_server.

Definition run_states (st : TlsState) (l : list (mkind * bool)) : list (option TlsState) * TlsState :=
  fold_left (fun '(outs, s) '(m, d) =>
               match tls_state_transition s m d with
               | Some s' => (outs ++ [Some s'], s')
               | None => (outs ++ [None], SInvalid)   (* the documented use: Err => state := Invalid *)
               end) l ([], st).
