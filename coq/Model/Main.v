(* The line protocol: one case line in, one canonical result line out. *)
From Coq Require Import String.
From TlsModel Require Export Entries.
From TlsModel Require Import Consts SpecEntries StatesEntry States Flows NtEntry DefragEntry SerEntry HelloEntry ExtTag.

Definition all_entries : list (string * entry_fn) := entries_tls ++ entries_ext ++ entries_kx ++ entries_dtls ++ spec_entries_tls.

Fixpoint find_entry (name : list byte) (l : list (string * entry_fn)) : option entry_fn :=
  match l with
  | [] => None
  | (n, f) :: t => if beq_bytes name (str n) then Some f else find_entry name t
  end.

Fixpoint split_last {A} (l : list A) : list A * option A :=
  match l with
  | [] => ([], None)
  | [x] => ([], Some x)
  | x :: t => let (a, b) := split_last t in (x :: a, b)
  end.

Definition run_line (line : list byte) : list byte :=
  match split_on x20 line with
  | name :: rest =>
      if beq_bytes name (str "@hello") then run_hello_line rest else
      if beq_bytes name (str "spec.@hello") then spec_hello_line rest else
      if beq_bytes name (str "@ser") then run_ser_line rest else
      if beq_bytes name (str "spec.@ser") then spec_ser_line rest else
      if beq_bytes name (str "defrag") then run_defrag_line DEFRAG_DEBUG_ASSERT rest else
      if beq_bytes name (str "states") then run_states_line tls_state_transition rest else
      if beq_bytes name (str "spec.states") then (str "= " ++ run_states_line spec_transition rest)%list else
      if beq_bytes name (str "@nt") then run_nt_line rest else
      if beq_bytes name (str "spec.@nt") then spec_nt_line rest else
      if beq_bytes name (str "@conv") then str "(conv ok)" else
      if beq_bytes name (str "spec.@conv") then str "= (conv ok)" else
      if beq_bytes name (str "@sig") then run_sig_line rest else
      if beq_bytes name (str "spec.@sig") then spec_sig_line rest else
      if beq_bytes name (str "@from_name") then run_from_name_line rest else
      if beq_bytes name (str "spec.@from_name") then spec_from_name_line rest else
      if beq_bytes name (str "@cipher") then run_cipher_line rest else
      if beq_bytes name (str "spec.@cipher") then spec_cipher_line rest else
      if beq_bytes name (str "@exttype") then run_exttype_line rest else
      if beq_bytes name (str "spec.@exttype") then spec_exttype_line rest else
      if beq_bytes name (str "@keybits") then run_keybits_line rest else
      if beq_bytes name (str "spec.@keybits") then spec_keybits_line rest else
      match find_entry name all_entries with
      | Some f =>
          let (args, inp) := split_last rest in
          let b := match inp with
                   | Some h => if beq_bytes h [x2d] then [] else unhex h
                   | None => []
                   end in
          f (map parse_dec args) b
      | None => str "(noentry)"
      end
  | [] => str "(empty)"
  end.

Definition entry_names : list (list byte) := map (fun e => str (fst e)) all_entries.
