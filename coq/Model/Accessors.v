(* ClientHello trait (TLS and DTLS), constructors and getters of src/tls_handshake.rs / src/dtls.rs. *)
From TlsModel Require Export Bytes Values.
From TlsModel Require Import AccessorForms Ciphers CipherTypes.

(* `self.random().try_into()` to [u8;4] succeeds only when the slice has exactly 4 bytes;
   `.get(..4)` first takes the leading four when there are at least four *)
Definition rand_time (random : slice) : N :=
  match rand_time_src with
  | RtWholeSlice => if slen random =? 4 then be_val (bytes random) else 0
  | RtFirstFour => if 4 <=? slen random then be_val (takeN (bytes random) 4) else 0
  end.
(* self.random().get(4..).unwrap_or(&[]) *)
Definition rand_bytes (random : slice) : slice :=
  if 4 <=? slen random then sdrop random 4 else mkS 0 [].
(* ids mapped to registry entries, in order *)
Definition cipher_suites (ids : list N) : list (option N) := map (fun id => option_map c_id (from_id id)) ids.
Definition get_cipher (id : N) : option N := option_map c_id (from_id id).
