(* line protocol:  defrag <op>...   op = P,<type>,<version>,<len>,<hex|-> | N,... | R
   output: "(defrag" then per op " [<result> <in_progress 0/1> <buffer length>]", ")" *)
From Coq Require Import String.
From TlsModel Require Import Show Entries Defrag.
Open Scope list_scope.

Definition parse_dop (t : list byte) : dop :=
  match split_on x2c t with
  | k :: ty :: ver :: len :: data :: _ =>
      let hdr := mkHdr (parse_dec ty) (parse_dec ver) (parse_dec len) in
      let d := if beq_bytes data [x2d] then [] else unhex data in
      if beq_bytes k [x4e] then OpNoCopy hdr d else OpParse hdr d
  | _ => OpReset
  end.

Definition show_dout (o : option dout) : list byte :=
  match o with
  | None => str "(reset)"
  | Some (Caller, r) => show_res (slist sx_msg) r
  | Some (Buffer, r) => show_res_p [x62] (slist sx_msg) r
  end.

Definition run_defrag_line (dbg : bool) (toks : list (list byte)) : list byte :=
  let outs := run_ops dbg d_init (map parse_dop toks) in
  str "(defrag" ++
  concat (map (fun e => let '(o, s) := e in
                        str " [" ++ show_dout o ++ x20 :: (if defrag_in_progress s then [x31] else [x30]) ++
                        x20 :: dec (lenN (d_buf s)) ++ str "]") outs) ++ str ")".
