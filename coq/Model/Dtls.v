(* src/dtls.rs *)
From TlsModel Require Export Nom Values DispatchTypes Handshake Record.
From TlsModel Require Import Dispatch Consts.

Definition parse_dtls_record_header : P DTLSRecordHeader :=
  let* content_type := be_u8 in
  let* version := be_u16 in
  let* int0 := be_u64 in
  let epoch := N.shiftr int0 48 mod 65536 in           (* (int0 >> 48) as u16 *)
  let sequence_number := N.land int0 281474976710655 in (* int0 & 0xffff_ffff_ffff *)
  let* length := be_u16 in
  Ret (mkDHdr content_type version epoch sequence_number length).

(* Ok((&[], Fragment(i))) *)
Definition parse_dtls_fragment : P DTLSBody :=
  let* i := GetI in let* s := Take (slen i) in Ret (DFragment s).

Definition parse_dtls_client_hello : P DTLSBody :=
  let* version := be_u16 in
  let* random := Take 32 in
  let* sidlen := Vrfy be_u8 (fun n => n <=? 32) in
  let* sid := cond (0 <? sidlen) (Take sidlen) in
  let* cookie := length_data be_u8 in
  let* ciphers_len := be_u16 in
  let* ciphers := parse_cipher_suites ciphers_len in
  let* comp_len := be_u8 in
  let* comp := parse_compressions_algs comp_len in
  let* ext := opt_ext in
  Ret (DClientHello (mkDCH version random sid cookie ciphers comp ext)).

Definition parse_dtls_hello_verify_request : P DTLSBody :=
  let* server_version := be_u16 in
  let* cookie := length_data be_u8 in
  Ret (DHelloVerifyRequest server_version cookie).

Definition dtls_hs_body (b : dtls_hs_body_id) (length : N) : P DTLSBody :=
  match b with
  | DHB_client_hello => parse_dtls_client_hello
  | DHB_hello_verify_request => parse_dtls_hello_verify_request
  | DHB_server_hello => pmap (parse_tls_server_hello_tlsv12 true) DServerHello
  | DHB_serverdone => pmap (Take length) DServerDone
  | DHB_clientkeyexchange => pmap (parse_tls_clientkeyexchange length) DClientKeyExchange
  | DHB_certificate => pmap parse_tls_certificate DCertificate
  end.

Definition parse_dtls_message_handshake : P DTLSMessage :=
  let* msg_type := be_u8 in
  let* length := be_u24 in
  let* message_seq := be_u16 in
  let* fragment_offset := be_u24 in
  let* fragment_length := be_u24 in
  let* raw_msg := Take fragment_length in
  let is_fragment := (0 <? fragment_offset) || (fragment_length <? length) in
  let* body :=
    (if is_fragment then On raw_msg parse_dtls_fragment else
     match assoc_N msg_type dtls_hs_table with
     | Some b => On raw_msg (dtls_hs_body b length)
     | None => ErrK KSwitch
     end) in
  Ret (DMHandshake (mkDHS msg_type length message_seq fragment_offset fragment_length body)).

Definition parse_dtls_message_changecipherspec : P DTLSMessage :=
  let* _ := Vrfy be_u8 (fun t => t =? 1) in Ret DMChangeCipherSpec.
Definition parse_dtls_message_alert : P DTLSMessage :=
  let* severity := be_u8 in let* code := be_u8 in Ret (DMAlert severity code).

Definition dtls_rec_body (b : dtls_rec_body_id) : P (list DTLSMessage) :=
  match b with
  | DRB_many1_ccs => Many1 (Cmpl parse_dtls_message_changecipherspec)
  | DRB_many1_alert => Many1 (Cmpl parse_dtls_message_alert)
  | DRB_many1_handshake => Many1 (Cmpl parse_dtls_message_handshake)
  end.
Definition parse_dtls_record_with_header (hdr : DTLSRecordHeader) : P (list DTLSMessage) :=
  match assoc_N (d_type hdr) dtls_rec_table with
  | Some b => dtls_rec_body b
  | None => ErrK KSwitch
  end.

Definition parse_dtls_plaintext_record : P DTLSPlaintext :=
  let* header := parse_dtls_record_header in
  if MAX_RECORD_LEN <? d_len header then ErrK KTooLarge else
  let* messages := map_parser (Take (d_len header)) (parse_dtls_record_with_header header) in
  Ret (mkDPlain header messages).
Definition parse_dtls_plaintext_records : P (list DTLSPlaintext) :=
  Many1 (Cmpl parse_dtls_plaintext_record).
