(* Model terms for helper functions of the source that the hand-written model inlines into a table
   (Model/Dtls.v dtls_hs_body, Model/Kx.v): under the same names as the Rust functions, so that the source
   translation (T12) can refer to them and tie them separately. *)
From TlsModel Require Export Nom Values Handshake Record Extensions Kx Dtls.

Definition parse_dtls_handshake_msg_server_hello_tlsv12 : P DTLSBody := pmap (parse_tls_server_hello_tlsv12 true) DServerHello.
Definition parse_dtls_handshake_msg_serverdone (len : N) : P DTLSBody := pmap (Take len) DServerDone.
Definition parse_dtls_handshake_msg_clientkeyexchange (len : N) : P DTLSBody := pmap (parse_tls_clientkeyexchange len) DClientKeyExchange.
Definition parse_dtls_handshake_msg_certificate : P DTLSBody := pmap parse_tls_certificate DCertificate.
