(* src/tls_message.rs and src/tls_record.rs *)
From TlsModel Require Export Nom Values Handshake.
From TlsModel Require Import Dispatch Consts.

Definition parse_tls_message_changecipherspec : P TlsMessage :=
  let* _ := Vrfy be_u8 (fun t => t =? 1) in Ret MChangeCipherSpec.

Definition parse_tls_message_alert : P TlsMessage :=
  let* severity := be_u8 in
  let* code := be_u8 in
  Ret (MAlert severity code).

(* Ok((&[], ApplicationData{blob: i})): the whole input, remainder empty *)
Definition parse_tls_message_applicationdata : P TlsMessage :=
  let* i := GetI in
  let* blob := Take (slen i) in
  Ret (MApplicationData blob).

Definition parse_tls_message_heartbeat (tls_plaintext_len : N) : P (list TlsMessage) :=
  let* heartbeat_type := be_u8 in
  let* payload_len := be_u16 in
  if tls_plaintext_len <? 3 then ErrK KVerify else
  let* payload := Take payload_len in
  Ret [MHeartbeat heartbeat_type payload_len payload].

Definition parse_tls_record_header : P TlsRecordHeader :=
  let* record_type := be_u8 in
  let* version := be_u16 in
  let* len := be_u16 in
  Ret (mkHdr record_type version len).

Definition rec_body (b : rec_body_id) (hdr : TlsRecordHeader) : P (list TlsMessage) :=
  match b with
  | RB_many1_ccs => Many1 (Cmpl parse_tls_message_changecipherspec)
  | RB_many1_alert => Many1 (Cmpl parse_tls_message_alert)
  | RB_many1_handshake => Many1 (Cmpl parse_tls_message_handshake)
  | RB_many1_appdata => Many1 (Cmpl parse_tls_message_applicationdata)
  | RB_heartbeat => parse_tls_message_heartbeat (h_len hdr)
  | RB_once_appdata => pmap parse_tls_message_applicationdata (fun m => [m])
  | RB_complete_heartbeat => Cmpl (parse_tls_message_heartbeat (h_len hdr))
  end.

Definition parse_tls_record_with_header (hdr : TlsRecordHeader) : P (list TlsMessage) :=
  match assoc_N (h_type hdr) rec_table with
  | Some b => rec_body b hdr
  | None => ErrK KSwitch
  end.

Definition parse_tls_plaintext : P TlsPlaintext :=
  let* hdr := parse_tls_record_header in
  if MAX_RECORD_LEN <? h_len hdr then ErrK KTooLarge else
  let* msg := map_parser (Take (h_len hdr)) (parse_tls_record_with_header hdr) in
  Ret (mkPlain hdr msg).

Definition parse_tls_encrypted : P TlsEncrypted :=
  let* hdr := parse_tls_record_header in
  if MAX_RECORD_LEN <? h_len hdr then ErrK KTooLarge else
  let* blob := Take (h_len hdr) in
  Ret (mkEnc hdr blob).

Definition parse_tls_raw_record : P TlsRawRecord :=
  let* hdr := parse_tls_record_header in
  if MAX_RECORD_LEN <? h_len hdr then ErrK KTooLarge else
  let* data := Take (h_len hdr) in
  Ret (mkRaw hdr data).

Definition tls_parser : P TlsPlaintext := parse_tls_plaintext.
Definition tls_parser_many : P (list TlsPlaintext) := Many1 (Cmpl parse_tls_plaintext).
