(* src/tls_dh.rs, src/tls_ec.rs, src/tls_sign_hash.rs, src/certificate_transparency.rs *)
From TlsModel Require Export Nom Values Handshake.

Definition parse_dh_params : P ServerDHParams :=
  let* p := length_data be_u16 in
  let* g := length_data be_u16 in
  let* ys := length_data be_u16 in
  Ret (mkDH p g ys).

Definition parse_ec_point : P slice := length_data be_u8.
Definition parse_ec_curve : P (slice * slice) :=
  let* a := length_data be_u8 in let* b := length_data be_u8 in Ret (a, b).
Definition parse_explicit_prime : P ExplicitPrimeC :=
  let* prime_p := length_data be_u8 in
  let* ab := parse_ec_curve in
  let* base := parse_ec_point in
  let* order := length_data be_u8 in
  let* cofactor := length_data be_u8 in
  Ret (mkEP prime_p (fst ab) (snd ab) base order cofactor).

(* nom-derive Selector: ExplicitPrime = 1, NamedGroup = 3, otherwise Error(Switch) *)
Definition parse_ec_parameters_content (curve_type : N) : P ECParametersContent :=
  if curve_type =? 1 then pmap parse_explicit_prime EcExplicitPrime
  else if curve_type =? 3 then pmap be_u16 EcNamedGroup
  else ErrK KSwitch.

Definition parse_ec_parameters : P ECParameters :=
  let* curve_type := be_u8 in
  let* content := parse_ec_parameters_content curve_type in
  Ret (mkECP curve_type content).

Definition parse_ecdh_params : P ServerECDHParams :=
  let* params := parse_ec_parameters in
  let* public := parse_ec_point in
  Ret (mkECDH params public).

Definition parse_digitally_signed_old : P DigitallySigned :=
  pmap (length_data be_u16) (fun d => mkDS None d).
Definition parse_digitally_signed : P DigitallySigned :=
  let* hash := be_u8 in
  let* sign := be_u8 in
  let* data := length_data be_u16 in
  Ret (mkDS (Some (hash, sign)) data).
Definition parse_content_and_signature {T} (fun_ : P T) (ext : bool) : P (T * DigitallySigned) :=
  if ext then (let* c := fun_ in let* s := parse_digitally_signed in Ret (c, s))
  else (let* c := fun_ in let* s := parse_digitally_signed_old in Ret (c, s)).

(* take(32) then try_into().expect(..): the conversion of a 32-byte slice cannot fail *)
Definition parse_log_id : P slice :=
  let* key_id := Take 32 in
  if slen key_id =? 32 then Ret key_id else PanicP.
Definition parse_ct_extensions : P slice :=
  let* ext_len := be_u16 in Take ext_len.
Definition parse_ct_signed_certificate_timestamp_content : P SCT :=
  let* version := be_u8 in
  let* id := parse_log_id in
  let* timestamp := be_u64 in
  let* extensions := parse_ct_extensions in
  let* signature := parse_digitally_signed in
  Ret (mkSCT version id timestamp extensions signature).
Definition parse_ct_signed_certificate_timestamp : P SCT :=
  map_parser (length_data be_u16) parse_ct_signed_certificate_timestamp_content.
Definition parse_ct_signed_certificate_timestamp_list : P (list SCT) :=
  let* sct_len := be_u16 in
  map_parser (Take sct_len) (Many0 (Cmpl parse_ct_signed_certificate_timestamp)).
