(* src/tls_serialize.rs (feature `serialize`): cookie-factory writers as byte concatenation.
   `len as u16` / `len as u8` / be_u24(len as u32) truncate: be_enc keeps the low k bytes.
   `m.ciphers.len() as u16 * 2` overflows (panics with overflow checks) from 32768 ciphers. *)
From TlsModel Require Export Bytes Values.
From TlsModel Require Import SerConsts.

Inductive ser := SerOk (b : list byte) | SerNYI | SerPanic.
Definition sbind (a : ser) (k : list byte -> ser) : ser := match a with SerOk b => k b | e => e end.
Definition scat (a b : ser) : ser := sbind a (fun x => sbind b (fun y => SerOk (x ++ y))).
Fixpoint sall (l : list ser) : ser := match l with [] => SerOk [] | a :: t => scat a (sall t) end.

Definition length_be_u16 (f : ser) : ser := sbind f (fun b => SerOk (u16 (lenN b) ++ b)).
Definition length_be_u24 (f : ser) : ser := sbind f (fun b => SerOk (u24 (lenN b) ++ b)).
Definition tagged_extension (tag : N) (f : ser) : ser := scat (SerOk (u16 tag)) (length_be_u16 f).

Definition gen_tls_ext_sni_hostname (p : N * slice) : ser :=
  SerOk (u8 (fst p) ++ u16 (slen (snd p)) ++ bytes (snd p)).
Definition gen_tls_extension (e : TlsExtension) : ser :=
  match e with
  | ESNI l => tagged_extension ser_tag_sni (length_be_u16 (sall (map gen_tls_ext_sni_hostname l)))
  | EMaxFragmentLength v => tagged_extension ser_tag_mfl (SerOk (u8 v))
  | EEllipticCurves l => tagged_extension ser_tag_groups (length_be_u16 (SerOk (concat (map u16 l))))
  | _ => SerNYI
  end.
Definition gen_tls_extensions (l : list TlsExtension) : ser := length_be_u16 (sall (map gen_tls_extension l)).

Definition gen_tls_sessionid (s : option slice) : list byte :=
  match s with None => u8 0 | Some o => u8 (slen o) ++ bytes o end.
Definition maybe_extensions (e : option slice) : list byte :=
  match e with Some o => u16 (slen o) ++ bytes o | None => u16 0 end.

Definition gen_tls_clienthello (c : ClientHelloC) : ser :=
  if 65536 <=? (lenN (ch_ciphers c) mod 65536) * 2 then SerPanic else
  scat (SerOk (u8 ser_ty_clienthello))
       (length_be_u24 (SerOk (u16 (ch_version c) ++ bytes (ch_random c) ++ gen_tls_sessionid (ch_sid c) ++
                              u16 ((lenN (ch_ciphers c) mod 65536) * 2) ++ concat (map u16 (ch_ciphers c)) ++
                              u8 (lenN (ch_comp c)) ++ concat (map u8 (ch_comp c)) ++ maybe_extensions (ch_ext c)))).
Definition gen_tls_serverhello (c : ServerHelloC) : ser :=
  scat (SerOk (u8 ser_ty_serverhello))
       (length_be_u24 (SerOk (u16 (sh_version c) ++ bytes (sh_random c) ++ gen_tls_sessionid (sh_sid c) ++
                              u16 (sh_cipher c) ++ u8 (sh_comp c) ++ maybe_extensions (sh_ext c)))).
Definition gen_tls_serverhellodraft18 (c : ServerHello13C) : ser :=
  scat (SerOk (u8 ser_ty_serverhello13))
       (length_be_u24 (SerOk (u16 (sh13_version c) ++ bytes (sh13_random c) ++ u16 (sh13_cipher c) ++ maybe_extensions (sh13_ext c)))).
Definition gen_tls_clientkeyexchange (c : ClientKeyExchangeC) : ser :=
  match c with
  | CkeUnknown b => scat (SerOk (u8 ser_ty_cke_unknown)) (length_be_u24 (SerOk (bytes b)))
  | CkeDh b => scat (SerOk (u8 ser_ty_cke_dh)) (length_be_u24 (length_be_u16 (SerOk (bytes b))))
  | CkeEcdh b => scat (SerOk (u8 ser_ty_cke_ecdh)) (length_be_u24 (SerOk (u8 (slen b) ++ bytes b)))
  end.
Definition gen_tls_messagehandshake (h : TlsMessageHandshake) : ser :=
  match h with
  | HHelloRequest => SerOk (u8 ser_ty_hellorequest ++ u24 0)
  | HClientHello c => gen_tls_clienthello c
  | HServerHello c => gen_tls_serverhello c
  | HServerHelloV13Draft18 c => gen_tls_serverhellodraft18 c
  | HClientKeyExchange c => gen_tls_clientkeyexchange c
  | HFinished s => scat (SerOk (u8 ser_ty_finished)) (length_be_u24 (SerOk (bytes s)))
  | _ => SerNYI
  end.
Definition gen_tls_message (m : TlsMessage) : ser :=
  match m with
  | MHandshake h => gen_tls_messagehandshake h
  | MChangeCipherSpec => SerOk (u8 ser_ccs_byte)
  | _ => SerNYI
  end.
Definition gen_tls_plaintext (p : TlsPlaintext) : ser :=
  scat (SerOk (u8 (h_type (p_hdr p)) ++ u16 (h_version (p_hdr p)))) (length_be_u16 (sall (map gen_tls_message (p_msg p)))).
