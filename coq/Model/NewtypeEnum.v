(* rusticata-macros newtype_enum!: associated constants, Display = first arm whose
   value matches, else "Name(n / 0xhex)"; `impl debug` makes Debug = Display; the
   other types print the derived tuple-struct Debug "Name(n)".
   Also: SignatureScheme helpers and NamedGroup::key_bits (arms from gen/KeyBits.v). *)
From Coq Require Import String Ascii.
From TlsModel Require Export NtTypes Bytes Show.
From TlsModel Require Import ConstTables KeyBits.
Open Scope string_scope.
Open Scope N_scope.

Definition sdec (n : N) : string := string_of_list_byte (dec n).
(* lower-case hex without leading zeros ("{:x}") *)
Fixpoint hex_digits (fuel : nat) (n : N) (acc : list byte) : list byte :=
  match fuel with
  | O => acc
  | S f => let acc' := hexdigit (n mod 16) :: acc in
           if n / 16 =? 0 then acc' else hex_digits f (n / 16) acc'
  end.
Definition shex (n : N) : string := string_of_list_byte (hex_digits 20 n []).

Fixpoint first_name (n : N) (l : list (string * N)) : option string :=
  match l with
  | [] => None
  | (k, v) :: t => if v =? n then Some k else first_name n t
  end.
Definition fallback (t : nt_type) (n : N) : string :=
  nt_name t ++ "(" ++ sdec n ++ " / 0x" ++ shex n ++ ")".
Definition display (t : nt_type) (n : N) : string :=
  match first_name n (nt_consts t) with Some k => k | None => fallback t n end.
(* None: the type has no such impl *)
Definition display_impl (t : nt_type) (n : N) : option string :=
  match nt_mode_of t with NtNone => None | _ => Some (display t n) end.
Definition debug_impl (t : nt_type) (n : N) : option string :=
  match nt_mode_of t with
  | NtDebug => Some (display t n)
  | _ => if nt_derives_debug t then Some (nt_name t ++ "(" ++ sdec n ++ ")") else None
  end.

(* SignatureScheme helpers, as written in the source *)
Definition sig_is_reserved (s : N) : bool := (65024 <=? s) && (s <? 65280).      (* >= 0xfe00 && < 0xff00 *)
Definition sig_hash_alg (s : N) : N := N.land (N.shiftr s 8) 255 mod 256.        (* ((s >> 8) & 0xff) as u8 *)
Definition sig_sign_alg (s : N) : N := N.land s 255 mod 256.                     (* (s & 0xff) as u8 *)

(* match self { NamedGroup::K => Some(bits), ..., _ => None }: constant patterns compare values *)
Fixpoint key_bits_in (g : N) (arms : list (string * N * N)) : option N :=
  match arms with
  | [] => None
  | (_, v, bits) :: t => if g =? v then Some bits else key_bits_in g t
  end.
Definition key_bits (g : N) : option N := key_bits_in g key_bits_arms.

Fixpoint find_nt (name : string) (l : list nt_type) : option nt_type :=
  match l with
  | [] => None
  | t :: r => if String.eqb (nt_name t) name then Some t else find_nt name r
  end.
