(* src/tls_extensions.rs.  The three dispatchers interpret the tables of
   gen/Dispatch.v (regenerated from the source's `match ext_type` blocks). *)
From TlsModel Require Export Nom Values DispatchTypes Handshake.
From TlsModel Require Import Dispatch.

Definition parse_tls_extension_sni_hostname : P (N * slice) :=
  let* t := be_u8 in
  let* v := length_data be_u16 in
  Ret (t, v).

Definition parse_tls_extension_sni_content : P TlsExtension :=
  let* i := GetI in
  if slen i =? 0 then Ret (ESNI []) else
  let* list_len := be_u16 in
  let* v := map_parser (Take list_len) (Many0 (Cmpl parse_tls_extension_sni_hostname)) in
  Ret (ESNI v).

Definition parse_tls_extension_max_fragment_length_content : P TlsExtension :=
  pmap be_u8 EMaxFragmentLength.

(* `ext_len - 1` on u16: only evaluated in the non-zero arm *)
Definition parse_tls_extension_status_request_content (ext_len : N) : P TlsExtension :=
  if ext_len =? 0 then Ret (EStatusRequest None) else
  let* status_type := be_u8 in
  let* request := Take (ext_len - 1) in
  Ret (EStatusRequest (Some (status_type, request))).

Definition parse_named_groups := parse_u16_all.

Definition parse_tls_extension_elliptic_curves_content : P TlsExtension :=
  map_parser (length_data be_u16) (pmap parse_named_groups EEllipticCurves).

Definition parse_tls_extension_ec_point_formats_content : P TlsExtension :=
  pmap (length_data be_u8) EEcPointFormats.

Definition parse_tls_extension_signature_algorithms_content : P TlsExtension :=
  let* l := map_parser (length_data be_u16) (Many0 (Cmpl be_u16)) in
  Ret (ESignatureAlgorithms l).

Definition parse_tls_extension_heartbeat_content : P TlsExtension :=
  pmap be_u8 EHeartbeat.

Definition parse_protocol_name : P slice := length_data be_u8.
Definition parse_tls_extension_alpn_content : P TlsExtension :=
  let* v := map_parser (length_data be_u16) (Many0 (Cmpl parse_protocol_name)) in
  Ret (EALPN v).

Definition parse_tls_extension_padding_content (ext_len : N) : P TlsExtension :=
  pmap (Take ext_len) EPadding.

Definition parse_tls_extension_signed_certificate_timestamp_content : P TlsExtension :=
  pmap (Opt (Cmpl (length_data be_u16))) ESignedCertificateTimestamp.

Definition empty_only (ext_len : N) (v : TlsExtension) : P TlsExtension :=
  if negb (ext_len =? 0) then ErrK KVerify else Ret v.
Definition parse_tls_extension_encrypt_then_mac_content (ext_len : N) := empty_only ext_len EEncryptThenMac.
Definition parse_tls_extension_extended_master_secret_content (ext_len : N) := empty_only ext_len EExtendedMasterSecret.
Definition parse_tls_extension_post_handshake_auth_content (ext_len : N) := empty_only ext_len EPostHandshakeAuth.
Definition parse_tls_extension_npn_content (ext_len : N) := empty_only ext_len ENextProtocolNegotiation.

Definition parse_tls_extension_record_size_limit : P TlsExtension := pmap be_u16 ERecordSizeLimit.
Definition parse_tls_extension_session_ticket_content (ext_len : N) : P TlsExtension :=
  pmap (Take ext_len) ESessionTicket.
Definition parse_tls_extension_key_share_old_content (ext_len : N) : P TlsExtension :=
  pmap (Take ext_len) EKeyShareOld.
Definition parse_tls_extension_key_share_content (ext_len : N) : P TlsExtension :=
  pmap (Take ext_len) EKeyShare.
Definition parse_tls_extension_pre_shared_key_content (ext_len : N) : P TlsExtension :=
  pmap (Take ext_len) EPreSharedKey.
Definition parse_tls_extension_early_data_content (ext_len : N) : P TlsExtension :=
  pmap (cond (0 <? ext_len) be_u32) EEarlyData.

(* `ext_len - 1` is reached only after be_u8 succeeded and ext_len <> 0 was tested;
   with ext_len = 0 the u16 subtraction would overflow: modelled as PanicP *)
Definition parse_tls_extension_supported_versions_content (ext_len : N) : P TlsExtension :=
  if ext_len =? 2 then pmap be_u16 (fun x => ESupportedVersions [x]) else
  let* _ := be_u8 in
  if ext_len =? 0 then ErrK KVerify else
  let* l := map_parser (Take (ext_len - 1)) parse_tls_versions in
  Ret (ESupportedVersions l).

Definition parse_tls_extension_cookie_content (ext_len : N) : P TlsExtension :=
  pmap (Take ext_len) ECookie.

Definition parse_tls_extension_psk_key_exchange_modes_content : P TlsExtension :=
  let* v := length_data be_u8 in Ret (EPskExchangeModes (bytes v)).

Definition parse_tls_extension_renegotiation_info_content : P TlsExtension :=
  pmap (length_data be_u8) ERenegotiationInfo.

Definition parse_tls_extension_encrypted_server_name : P TlsExtension :=
  let* ciphersuite := be_u16 in
  let* group := be_u16 in
  let* key_share := length_data be_u16 in
  let* record_digest := length_data be_u16 in
  let* encrypted_sni := length_data be_u16 in
  Ret (EEncryptedServerName ciphersuite group key_share record_digest encrypted_sni).

Definition parse_tls_oid_filter : P (slice * slice) :=
  let* oid := length_data be_u8 in
  let* val := length_data be_u16 in
  Ret (oid, val).
Definition parse_tls_extension_oid_filters : P TlsExtension :=
  let* v := map_parser (length_data be_u16) (Many0 (Cmpl parse_tls_oid_filter)) in
  Ret (EOidFilters v).

Definition parse_tls_extension_unknown : P TlsExtension :=
  let* ext_type := be_u16 in
  let* ext_data := length_data be_u16 in
  Ret (EUnknown ext_type ext_data).

Definition ext_content (c : ext_content_id) (ext_len : N) : P TlsExtension :=
  match c with
  | XC_sni => parse_tls_extension_sni_content
  | XC_max_fragment_length => parse_tls_extension_max_fragment_length_content
  | XC_status_request => parse_tls_extension_status_request_content ext_len
  | XC_elliptic_curves => parse_tls_extension_elliptic_curves_content
  | XC_ec_point_formats => parse_tls_extension_ec_point_formats_content
  | XC_signature_algorithms => parse_tls_extension_signature_algorithms_content
  | XC_heartbeat => parse_tls_extension_heartbeat_content
  | XC_alpn => parse_tls_extension_alpn_content
  | XC_signed_certificate_timestamp => parse_tls_extension_signed_certificate_timestamp_content
  | XC_padding => parse_tls_extension_padding_content ext_len
  | XC_encrypt_then_mac => parse_tls_extension_encrypt_then_mac_content ext_len
  | XC_extended_master_secret => parse_tls_extension_extended_master_secret_content ext_len
  | XC_record_size_limit => parse_tls_extension_record_size_limit
  | XC_session_ticket => parse_tls_extension_session_ticket_content ext_len
  | XC_key_share_old => parse_tls_extension_key_share_old_content ext_len
  | XC_pre_shared_key => parse_tls_extension_pre_shared_key_content ext_len
  | XC_early_data => parse_tls_extension_early_data_content ext_len
  | XC_supported_versions => parse_tls_extension_supported_versions_content ext_len
  | XC_cookie => parse_tls_extension_cookie_content ext_len
  | XC_psk_key_exchange_modes => parse_tls_extension_psk_key_exchange_modes_content
  | XC_oid_filters => parse_tls_extension_oid_filters
  | XC_post_handshake_auth => parse_tls_extension_post_handshake_auth_content ext_len
  | XC_key_share => parse_tls_extension_key_share_content ext_len
  | XC_npn => parse_tls_extension_npn_content ext_len
  | XC_renegotiation_info => parse_tls_extension_renegotiation_info_content
  | XC_encrypted_server_name => parse_tls_extension_encrypted_server_name
  end.

(* ext_type & MASK == VAL [&& ext_type >> 8 == ext_type & 0xff] *)
Definition grease_test (t : N) : bool :=
  (N.land t grease_mask =? grease_val) &&
  (if grease_same_bytes then N.shiftr t 8 =? N.land t 255 else true).

(* the common shape of the three dispatchers; `ext_data.len() as u16` *)
Definition dispatch_ext (tbl : list (N * ext_content_id)) : P TlsExtension :=
  let* ext_type := be_u16 in
  let* ext_data := length_data be_u16 in
  if grease_test ext_type then Ret (EGrease ext_type ext_data) else
  let ext_len := slen ext_data mod 65536 in
  match assoc_N ext_type tbl with
  | Some c => On ext_data (ext_content c ext_len)
  | None => Ret (EUnknown ext_type ext_data)
  end.

Definition parse_tls_extension := dispatch_ext generic_table.
Definition parse_tls_client_hello_extension := dispatch_ext client_table.
Definition parse_tls_server_hello_extension := dispatch_ext server_table.
Definition parse_tls_extensions := Many0 (Cmpl parse_tls_extension).
Definition parse_tls_client_hello_extensions := Many0 (Cmpl parse_tls_client_hello_extension).
Definition parse_tls_server_hello_extensions := Many0 (Cmpl parse_tls_server_hello_extension).

(* the 16 single-purpose parsers: tag([hi,lo]) from gen/Dispatch.v, then their own framing *)
Definition tagged (t : N) {A} (p : P A) : P A := let* _ := TagB (u16 t) in p.
Definition with_len (f : N -> P TlsExtension) : P TlsExtension :=
  let* ext_len := be_u16 in map_parser (Take ext_len) (f ext_len).

Definition parse_tls_extension_sni := tagged tag_sni (map_parser (length_data be_u16) parse_tls_extension_sni_content).
Definition parse_tls_extension_max_fragment_length :=
  tagged tag_max_fragment_length (map_parser (length_data be_u16) parse_tls_extension_max_fragment_length_content).
Definition parse_tls_extension_status_request := tagged tag_status_request (with_len parse_tls_extension_status_request_content).
Definition parse_tls_extension_elliptic_curves :=
  tagged tag_elliptic_curves (map_parser (length_data be_u16) parse_tls_extension_elliptic_curves_content).
Definition parse_tls_extension_ec_point_formats :=
  tagged tag_ec_point_formats (map_parser (length_data be_u16) parse_tls_extension_ec_point_formats_content).
Definition parse_tls_extension_signature_algorithms :=
  tagged tag_signature_algorithms (map_parser (length_data be_u16) parse_tls_extension_signature_algorithms_content).
Definition parse_tls_extension_heartbeat :=
  tagged tag_heartbeat (let* ext_len := Vrfy be_u16 (fun n => n =? 1) in
                        map_parser (Take ext_len) parse_tls_extension_heartbeat_content).
Definition parse_tls_extension_encrypt_then_mac := tagged tag_encrypt_then_mac (with_len parse_tls_extension_encrypt_then_mac_content).
Definition parse_tls_extension_extended_master_secret :=
  tagged tag_extended_master_secret (with_len parse_tls_extension_extended_master_secret_content).
Definition parse_tls_extension_session_ticket := tagged tag_session_ticket (with_len parse_tls_extension_session_ticket_content).
Definition parse_tls_extension_key_share := tagged tag_key_share (with_len parse_tls_extension_key_share_content).
Definition parse_tls_extension_pre_shared_key := tagged tag_pre_shared_key (with_len parse_tls_extension_pre_shared_key_content).
Definition parse_tls_extension_early_data := tagged tag_early_data (with_len parse_tls_extension_early_data_content).
Definition parse_tls_extension_supported_versions :=
  tagged tag_supported_versions (with_len parse_tls_extension_supported_versions_content).
Definition parse_tls_extension_cookie := tagged tag_cookie (with_len parse_tls_extension_cookie_content).
Definition parse_tls_extension_psk_key_exchange_modes :=
  tagged tag_psk_key_exchange_modes (with_len (fun _ => parse_tls_extension_psk_key_exchange_modes_content)).
