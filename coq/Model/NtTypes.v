(* Shape of the regenerated newtype_enum! tables (gen/ConstTables.v). *)
From Coq Require Export String NArith List.
Inductive nt_mode := NtNone | NtDisplay | NtDebug.   (* `impl T`, `impl display T`, `impl debug T` *)
Record nt_type := mkNt {
  nt_name : string; nt_mode_of : nt_mode; nt_width : N; nt_derives_debug : bool;
  nt_consts : list (string * N) }.
