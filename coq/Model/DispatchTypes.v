(* Closed vocabularies used by the regenerated dispatch tables (gen/Dispatch.v):
   each constructor names one hand-modelled content parser. *)
From TlsModel Require Export Bytes.

Fixpoint assoc_N {A} (k : N) (l : list (N * A)) : option A :=
  match l with
  | [] => None
  | (k', v) :: t => if k =? k' then Some v else assoc_N k t
  end.

(* bodies of parse_tls_message_handshake's match; the argument form
   (raw_msg) / (raw_msg, hl as usize) is fixed per body and checked by the translator *)
Inductive hs_body_id :=
| HB_hello_request | HB_client_hello | HB_server_hello | HB_newsessionticket
| HB_end_of_early_data | HB_hello_retry_request | HB_certificate | HB_serverkeyexchange
| HB_certificaterequest | HB_serverdone | HB_certificateverify | HB_clientkeyexchange
| HB_finished | HB_certificatestatus | HB_key_update | HB_next_protocol.

Inductive sh_form := ShV12 (has_ext : bool) | ShV13Draft18.

(* record content dispatch of parse_tls_record_with_header *)
Inductive rec_body_id :=
| RB_many1_ccs | RB_many1_alert | RB_many1_handshake | RB_many1_appdata | RB_heartbeat
| RB_once_appdata (* after repair: the blob parsed once *)
| RB_complete_heartbeat.

(* DTLS *)
Inductive dtls_rec_body_id := DRB_many1_ccs | DRB_many1_alert | DRB_many1_handshake.
Inductive dtls_hs_body_id :=
| DHB_client_hello | DHB_hello_verify_request | DHB_server_hello | DHB_serverdone
| DHB_clientkeyexchange | DHB_certificate.

(* extension content parsers; the Boolean says whether ext_len is passed *)
Inductive ext_content_id :=
| XC_sni | XC_max_fragment_length | XC_status_request | XC_elliptic_curves
| XC_ec_point_formats | XC_signature_algorithms | XC_heartbeat | XC_alpn
| XC_signed_certificate_timestamp | XC_padding | XC_encrypt_then_mac
| XC_extended_master_secret | XC_record_size_limit | XC_session_ticket
| XC_key_share_old | XC_pre_shared_key | XC_early_data | XC_supported_versions
| XC_cookie | XC_psk_key_exchange_modes | XC_oid_filters | XC_post_handshake_auth
| XC_key_share | XC_npn | XC_renegotiation_info | XC_encrypted_server_name.
