(* line protocol for the registry newtypes:
     @nt <Type> <n>      -> (nt D"<display>" G"<debug>")   with - for a missing impl
     @conv <Type> <n>    -> (conv ok)                      conversions are the identity
     @sig <s>            -> (sig <hash> <sign> <reserved>)
     @keybits <g>        -> (Some b) | None
   and the spec-side expectations spec.@nt / spec.@sig / spec.@keybits *)
From Coq Require Import String.
From TlsModel Require Import Show Entries NtTypes NewtypeEnum ConstTables IanaConsts NtSpec.
Open Scope list_scope.

Definition qs (o : option string) : list byte :=
  match o with Some s => x22 :: list_byte_of_string s ++ [x22] | None => [x2d] end.
Definition show_bool (b : bool) : list byte := str (if b then "true" else "false").
Definition show_optN (o : option N) : list byte :=
  match o with Some b => str "(Some " ++ dec b ++ str ")" | None => str "None" end.

Definition run_nt_line (toks : list (list byte)) : list byte :=
  match toks with
  | ty :: n :: _ =>
      match find_nt (string_of_list_byte ty) nt_all with
      | Some t => str "(nt D" ++ qs (display_impl t (parse_dec n)) ++ str " G" ++ qs (debug_impl t (parse_dec n)) ++ str ")"
      | None => str "(noentry)"
      end
  | _ => str "(noentry)"
  end.
(* spec: text derived from the frozen IANA table; which impls exist is taken from the model *)
Definition spec_nt_line (toks : list (list byte)) : list byte :=
  match toks with
  | ty :: n :: _ =>
      match find_nt (string_of_list_byte ty) nt_all with
      | Some t =>
          let v := parse_dec n in
          let txt := match lookup_name v (iana_of (nt_name t) iana_all) with Some k => k | None => fallback t v end in
          let d := match nt_mode_of t with NtNone => None | _ => Some txt end in
          let g := match nt_mode_of t with
                   | NtDebug => Some txt
                   | _ => if nt_derives_debug t then Some (nt_name t ++ "(" ++ sdec v ++ ")")%string else None
                   end in
          str "= (nt D" ++ qs d ++ str " G" ++ qs g ++ str ")"
      | None => str "any"
      end
  | _ => str "any"
  end.
Definition run_sig_line (toks : list (list byte)) : list byte :=
  let s := parse_dec (nth 0 toks []) in
  str "(sig " ++ dec (sig_hash_alg s) ++ x20 :: dec (sig_sign_alg s) ++ x20 :: show_bool (sig_is_reserved s) ++ str ")".
Definition spec_sig_line (toks : list (list byte)) : list byte :=
  let s := parse_dec (nth 0 toks []) in
  str "= (sig " ++ dec (s / 256) ++ x20 :: dec (s mod 256) ++ x20 :: show_bool ((65024 <=? s) && (s <=? 65279)) ++ str ")".
Definition run_keybits_line (toks : list (list byte)) : list byte :=
  show_optN (key_bits (parse_dec (nth 0 toks []))).
Definition spec_keybits_line (toks : list (list byte)) : list byte :=
  let g := parse_dec (nth 0 toks []) in
  match lookup_name g iana_NamedGroup with
  | Some nm => match curve_bits nm with Some b => str "= " ++ show_optN (Some b) | None => str "any" end
  | None => str "= None"
  end.

(* cipher registry by name:  @from_name <hex of the string>  ->  (Some <id>) | None *)
From TlsModel Require Import Ciphers CipherTxt CipherSpec.
Definition run_from_name_line (toks : list (list byte)) : list byte :=
  let s := string_of_list_byte (unhex (nth 0 toks [])) in
  show_optN (option_map c_id (from_name s)).
Definition spec_from_name_line (toks : list (list byte)) : list byte :=
  let s := string_of_list_byte (unhex (nth 0 toks [])) in
  match interp_all txt_rows with
  | Some rows => str "= " ++ show_optN (option_map c_id (find (fun r => String.eqb (c_name r) s) rows))
  | None => str "any"
  end.

(* one registry row by id:  @cipher <id>  ->  None | (Some id "name" Kx Au Enc Mode bits Mac macbits Prf keybytes block maclen) *)
From TlsModel Require Import Iana2026.
Definition kx_name k := match k with KxNull => "Null" | KxPsk => "Psk" | KxKrb5 => "Krb5" | KxSrp => "Srp" | KxRsa => "Rsa"
  | KxDh => "Dh" | KxDhe => "Dhe" | KxEcdh => "Ecdh" | KxEcdhe => "Ecdhe" | KxAecdh => "Aecdh" | KxEccpwd => "Eccpwd" | KxTls13 => "Tls13" end%string.
Definition au_name k := match k with AuNull => "Null" | AuPsk => "Psk" | AuKrb5 => "Krb5" | AuSrp => "Srp" | AuSrp_Dss => "Srp_Dss"
  | AuSrp_Rsa => "Srp_Rsa" | AuDss => "Dss" | AuRsa => "Rsa" | AuDhe => "Dhe" | AuEcdsa => "Ecdsa" | AuEccpwd => "Eccpwd" | AuTls13 => "Tls13" end%string.
Definition enc_name k := match k with EncNull => "Null" | EncDes => "Des" | EncTripleDes => "TripleDes" | EncRc2 => "Rc2" | EncRc4 => "Rc4"
  | EncAria => "Aria" | EncIdea => "Idea" | EncSeed => "Seed" | EncAes => "Aes" | EncCamellia => "Camellia"
  | EncChacha20_Poly1305 => "Chacha20_Poly1305" | EncSm4 => "Sm4" | EncAegis => "Aegis" end%string.
Definition mode_name k := match k with ModeNull => "Null" | ModeCbc => "Cbc" | ModeCcm => "Ccm" | ModeGcm => "Gcm" end%string.
Definition mac_name k := match k with MacNull => "Null" | MacHmacMd5 => "HmacMd5" | MacHmacSha1 => "HmacSha1" | MacHmacSha256 => "HmacSha256"
  | MacHmacSha384 => "HmacSha384" | MacHmacSha512 => "HmacSha512" | MacAead => "Aead" end%string.
Definition prf_name k := match k with PrfDefault => "Default" | PrfNull => "Null" | PrfMd5AndSha1 => "Md5AndSha1" | PrfSha1 => "Sha1"
  | PrfSha256 => "Sha256" | PrfSha384 => "Sha384" | PrfSha512 => "Sha512" | PrfSm3 => "Sm3" end%string.
Definition show_row (r : cipher_row) (k b m : N) : list byte :=
  str "(Some " ++ dec (c_id r) ++ x20 :: qs (Some (c_name r)) ++ x20 :: str (kx_name (c_kx r)) ++ x20 :: str (au_name (c_au r)) ++
  x20 :: str (enc_name (c_enc r)) ++ x20 :: str (mode_name (c_mode r)) ++ x20 :: dec (c_enc_size r) ++ x20 :: str (mac_name (c_mac r)) ++
  x20 :: dec (c_mac_size r) ++ x20 :: str (prf_name (c_prf r)) ++ x20 :: dec k ++ x20 :: dec b ++ x20 :: dec m ++ str ")".
Definition run_cipher_line (toks : list (list byte)) : list byte :=
  match from_id (parse_dec (nth 0 toks [])) with
  | Some r => show_row r (enc_key_size r) (enc_block_size r) (mac_length r)
  | None => str "None"
  end.
(* spec: today's IANA assignment if there is one, else the text table; sizes by the property's rules *)
Definition spec_sizes (r : cipher_row) : list byte :=
  let m := match c_mac r with MacNull | MacAead => 0 | _ => c_mac_size r / 8 end in
  show_row r (c_enc_size r / 8) (block_spec (c_enc r)) m.
Definition spec_cipher_line (toks : list (list byte)) : list byte :=
  let id := parse_dec (nth 0 toks []) in
  match find_id id iana2026 with
  | Some r => str "= " ++ spec_sizes r
  | None =>
      match interp_all txt_rows with
      | Some rows => match find_id id rows with Some r => str "= " ++ spec_sizes r | None => str "= None" end
      | None => str "any"
      end
  end.
