(* line protocol for the registry newtypes:
     @nt <Type> <n>      -> (nt D"<display>" G"<debug>")   with - for a missing impl
     @conv <Type> <n>    -> (conv ok)                      conversions are the identity
     @sig <s>            -> (sig <hash> <sign> <reserved>)
     @keybits <g>        -> (Some b) | None
   and the spec-side expectations spec.@nt / spec.@sig / spec.@keybits *)
From Coq Require Import String.
From TlsModel Require Import Show Entries NtTypes NewtypeEnum ConstTables IanaConsts NtSpec.
Open Scope list_scope.

Definition qs (o : option string) : list byte :=
  match o with Some s => x22 :: list_byte_of_string s ++ [x22] | None => [x2d] end.
Definition show_bool (b : bool) : list byte := str (if b then "true" else "false").
Definition show_optN (o : option N) : list byte :=
  match o with Some b => str "(Some " ++ dec b ++ str ")" | None => str "None" end.

Definition run_nt_line (toks : list (list byte)) : list byte :=
  match toks with
  | ty :: n :: _ =>
      match find_nt (string_of_list_byte ty) nt_all with
      | Some t => str "(nt D" ++ qs (display_impl t (parse_dec n)) ++ str " G" ++ qs (debug_impl t (parse_dec n)) ++ str ")"
      | None => str "(noentry)"
      end
  | _ => str "(noentry)"
  end.
(* spec: text derived from the frozen IANA table; which impls exist is taken from the model *)
Definition spec_nt_line (toks : list (list byte)) : list byte :=
  match toks with
  | ty :: n :: _ =>
      match find_nt (string_of_list_byte ty) nt_all with
      | Some t =>
          let v := parse_dec n in
          let txt := match lookup_name v (iana_of (nt_name t) iana_all) with Some k => k | None => fallback t v end in
          let d := match nt_mode_of t with NtNone => None | _ => Some txt end in
          let g := match nt_mode_of t with
                   | NtDebug => Some txt
                   | _ => if nt_derives_debug t then Some (nt_name t ++ "(" ++ sdec v ++ ")")%string else None
                   end in
          str "= (nt D" ++ qs d ++ str " G" ++ qs g ++ str ")"
      | None => str "any"
      end
  | _ => str "any"
  end.
Definition run_sig_line (toks : list (list byte)) : list byte :=
  let s := parse_dec (nth 0 toks []) in
  str "(sig " ++ dec (sig_hash_alg s) ++ x20 :: dec (sig_sign_alg s) ++ x20 :: show_bool (sig_is_reserved s) ++ str ")".
Definition spec_sig_line (toks : list (list byte)) : list byte :=
  let s := parse_dec (nth 0 toks []) in
  str "= (sig " ++ dec (s / 256) ++ x20 :: dec (s mod 256) ++ x20 :: show_bool ((65024 <=? s) && (s <=? 65279)) ++ str ")".
Definition run_keybits_line (toks : list (list byte)) : list byte :=
  show_optN (key_bits (parse_dec (nth 0 toks []))).
Definition spec_keybits_line (toks : list (list byte)) : list byte :=
  let g := parse_dec (nth 0 toks []) in
  match lookup_name g iana_NamedGroup with
  | Some nm => match curve_bits nm with Some b => str "= " ++ show_optN (Some b) | None => str "any" end
  | None => str "= None"
  end.
