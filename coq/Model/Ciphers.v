(* src/tls_ciphers.rs over the dumped registry (gen/CipherDump.v = the complete extension of
   the compiled phf map): lookups by id and by name, the four lookup routes, derived sizes. *)
From Coq Require Import String NArith List Bool.
From TlsModel Require Export CipherTypes.
From TlsModel Require Import CipherDump.
Import ListNotations.
Open Scope N_scope.

Definition find_id (id : N) (rows : list cipher_row) : option cipher_row := find (fun r => c_id r =? id) rows.
Definition from_id (id : N) : option cipher_row := find_id id impl_rows.
(* CIPHERS.values() in the map's iteration order *)
Definition values : list cipher_row :=
  flat_map (fun id => match from_id id with Some r => [r] | None => [] end) impl_values_order.
Definition from_name (s : string) : option cipher_row := find (fun r => String.eqb (c_name r) s) values.

(* route k (0 from_id, 1 TryFrom<u16>, 2 TryFrom<TlsCipherSuiteID>, 3 get_ciphersuite): id of the returned suite *)
Fixpoint assoc_routes (id : N) (l : list (N * list (option N))) : option (list (option N)) :=
  match l with
  | [] => None
  | (k, v) :: t => if k =? id then Some v else assoc_routes id t
  end.
Definition route (k : nat) (id : N) : option N :=
  match assoc_routes id impl_routes with Some rs => nth k rs None | None => None end.

Definition enc_key_size (r : cipher_row) : N := c_enc_size r / 8.
Definition enc_block_size (r : cipher_row) : N :=
  match c_enc r with
  | EncNull => 0
  | EncDes | EncIdea | EncRc2 | EncTripleDes => 8
  | EncAes | EncAria | EncCamellia | EncSeed | EncSm4 => 16
  | EncChacha20_Poly1305 | EncRc4 | EncAegis => 0
  end.
Definition mac_length (r : cipher_row) : N :=
  match c_mac r with
  | MacNull => 0 | MacAead => 0 | MacHmacMd5 => 16 | MacHmacSha1 => 20
  | MacHmacSha256 => 32 | MacHmacSha384 => 48 | MacHmacSha512 => 64
  end.
