(* Bytes, N-indexed list operations, slices carrying absolute offsets.
   Model file: definitions only (proofs live in Proofs/). *)
From Coq Require Export List NArith Bool.
From Coq.Strings Require Export Byte.
Export ListNotations.
Open Scope N_scope.

Definition b2n (b : byte) : N := Byte.to_N b.
Definition n2b (n : N) : byte :=
  match Byte.of_N (n mod 256) with Some b => b | None => x00 end.

Section ListN.
  Context {A : Type}.
  Fixpoint lenN (l : list A) : N :=
    match l with [] => 0 | _ :: t => N.succ (lenN t) end.
  Fixpoint takeN (l : list A) (n : N) : list A :=
    match l with
    | [] => []
    | x :: t => if n =? 0 then [] else x :: takeN t (N.pred n)
    end.
  Fixpoint dropN (l : list A) (n : N) : list A :=
    match l with
    | [] => []
    | x :: t => if n =? 0 then l else dropN t (N.pred n)
    end.
  (* walks min(n,|l|) cells: (prefix, rest) or the number of missing cells *)
  Fixpoint split_at (l : list A) (n : N) : (list A * list A) + N :=
    if n =? 0 then inl ([], l) else
    match l with
    | [] => inr n
    | x :: t =>
        match split_at t (N.pred n) with
        | inl (p, r) => inl (x :: p, r)
        | inr m => inr m
        end
    end.
  (* true iff |l| >= n, walking min(n,|l|) cells *)
  Fixpoint has_len (l : list A) (n : N) : bool :=
    if n =? 0 then true else
    match l with [] => false | _ :: t => has_len t (N.pred n) end.
End ListN.

(* big-endian fold *)
Fixpoint be_fold (acc : N) (l : list byte) : N :=
  match l with [] => acc | b :: t => be_fold (acc * 256 + b2n b) t end.
Definition be_val (l : list byte) : N := be_fold 0 l.

(* big-endian encoding on k bytes (value taken mod 256^k) *)
Fixpoint be_enc (k : nat) (v : N) : list byte :=
  match k with
  | O => []
  | S k' => be_enc k' (v / 256) ++ [n2b v]
  end.
Definition u8 (v : N) := be_enc 1 v.
Definition u16 (v : N) := be_enc 2 v.
Definition u24 (v : N) := be_enc 3 v.
Definition u32 (v : N) := be_enc 4 v.
Definition u48 (v : N) := be_enc 6 v.
Definition u64 (v : N) := be_enc 8 v.

(* A byte slice of the caller's buffer: absolute offset + content.
   Inputs/remainders and returned &[u8] values are both slices. *)
Record slice := mkS { off : N; bytes : list byte }.
Notation input := slice (only parsing).
Definition slen (s : slice) : N := lenN (bytes s).
Definition sapp (s : slice) (x : list byte) : slice := mkS (off s) (bytes s ++ x).
Definition sdrop (s : slice) (n : N) : slice := mkS (off s + n) (dropN (bytes s) n).
Definition stake (s : slice) (n : N) : slice := mkS (off s) (takeN (bytes s) n).
Definition send (s : slice) : slice := mkS (off s + slen s) [].

(* pairs of bytes as big-endian u16 (the three manual list decoders);
   a trailing odd byte would make Rust's chunk[1] panic: returned as None *)
Fixpoint pairs16 (l : list byte) : option (list N) :=
  match l with
  | [] => Some []
  | [_] => None
  | a :: b :: t =>
      match pairs16 t with
      | Some r => Some ((b2n a * 256 + b2n b) :: r)
      | None => None
      end
  end.
