(* src/tls_handshake.rs, parser by parser, under the same names.
   The handshake-type dispatch keys come from gen/Dispatch.v (regenerated
   from the source on every run). *)
From TlsModel Require Export Nom Values.
From TlsModel Require Export DispatchTypes.
From TlsModel Require Import Dispatch.

(* &i[..len] split by hand, after the guards: Idx panics if short, and
   pairs16 = None stands for chunk[1] on a 1-byte chunk *)
Definition parse_cipher_suites (len : N) : P (list N) :=
  if len =? 0 then Ret [] else
  let* i := GetI in
  if (len mod 2 =? 1) || negb (has_len (bytes i) len) then ErrK KLengthValue else
  let* s := Idx len in
  match pairs16 (bytes s) with Some l => Ret l | None => PanicP end.

Definition parse_compressions_algs (len : N) : P (list N) :=
  if len =? 0 then Ret [] else
  let* i := GetI in
  if negb (has_len (bytes i) len) then ErrK KLengthValue else
  let* s := Idx len in Ret (map b2n (bytes s)).

(* parse_tls_versions and parse_named_groups: len = i.len() *)
Definition parse_u16_all : P (list N) :=
  let* i := GetI in
  let len := slen i in
  if len =? 0 then Ret [] else
  if (len mod 2 =? 1) || (slen i <? len) then ErrK KLengthValue else
  let* s := Idx len in
  match pairs16 (bytes s) with Some l => Ret l | None => PanicP end.
Definition parse_tls_versions := parse_u16_all.

Definition opt_ext : P (option slice) := Opt (Cmpl (length_data be_u16)).

Definition parse_tls_handshake_client_hello : P ClientHelloC :=
  let* version := be_u16 in
  let* random := Take 32 in
  let* sidlen := Vrfy be_u8 (fun n => n <=? 32) in
  let* sid := cond (0 <? sidlen) (Take sidlen) in
  let* ciphers_len := be_u16 in
  let* ciphers := parse_cipher_suites ciphers_len in
  let* comp_len := be_u8 in
  let* comp := parse_compressions_algs comp_len in
  let* ext := opt_ext in
  Ret (mkCH version random sid ciphers comp ext).

Definition parse_tls_handshake_msg_client_hello : P TlsMessageHandshake :=
  pmap parse_tls_handshake_client_hello HClientHello.

Definition parse_certs : P (list slice) := Many0 (Cmpl (length_data be_u24)).

Definition parse_tls_server_hello_tlsv12 (has_ext : bool) : P ServerHelloC :=
  let* version := be_u16 in
  let* random := Take 32 in
  let* sidlen := Vrfy be_u8 (fun n => n <=? 32) in
  let* sid := cond (0 <? sidlen) (Take sidlen) in
  let* cipher := be_u16 in
  let* comp := be_u8 in
  let* ext := (if has_ext then opt_ext else Ret None) in
  Ret (mkSH version random sid cipher comp ext).

Definition parse_tls_handshake_msg_server_hello_tlsv12 (has_ext : bool) : P TlsMessageHandshake :=
  pmap (parse_tls_server_hello_tlsv12 has_ext) HServerHello.

Definition parse_tls_handshake_msg_server_hello_tlsv13draft18 : P TlsMessageHandshake :=
  let* version := be_u16 in
  let* random := Take 32 in
  let* cipher := be_u16 in
  let* ext := opt_ext in
  Ret (HServerHelloV13Draft18 (mkSH13 version random cipher ext)).

(* the version tables of the two ServerHello dispatchers (gen/Dispatch.v):
   sh_versions / sh_msg_versions : list (N * sh_form) *)
Definition parse_tls_handshake_server_hello : P ServerHelloC :=
  let* version := Peek be_u16 in
  match assoc_N version sh_versions with
  | Some (ShV12 has_ext) => parse_tls_server_hello_tlsv12 has_ext
  | _ => ErrK KTag
  end.

Definition parse_tls_handshake_msg_server_hello : P TlsMessageHandshake :=
  let* version := Peek be_u16 in
  match assoc_N version sh_msg_versions with
  | Some ShV13Draft18 => parse_tls_handshake_msg_server_hello_tlsv13draft18
  | Some (ShV12 has_ext) => parse_tls_handshake_msg_server_hello_tlsv12 has_ext
  | None => ErrK KTag
  end.

(* `len - 4` on usize after the `len < 4` guard *)
Definition parse_tls_handshake_msg_newsessionticket (len : N) : P TlsMessageHandshake :=
  if len <? 4 then ErrK KVerify else
  let* hint := be_u32 in
  let* ticket := Take (len - 4) in
  Ret (HNewSessionTicket hint ticket).

Definition parse_tls_handshake_msg_hello_retry_request : P TlsMessageHandshake :=
  let* version := be_u16 in
  let* cipher := be_u16 in
  let* ext := opt_ext in
  Ret (HHelloRetryRequest (mkHRR version cipher ext)).

Definition parse_tls_certificate : P (list slice) :=
  let* cert_len := be_u24 in
  map_parser (Take cert_len) parse_certs.

Definition parse_tls_handshake_msg_certificate : P TlsMessageHandshake :=
  pmap parse_tls_certificate HCertificate.
Definition parse_tls_handshake_msg_serverkeyexchange (len : N) : P TlsMessageHandshake :=
  pmap (Take len) HServerKeyExchange.
Definition parse_tls_handshake_msg_serverdone (len : N) : P TlsMessageHandshake :=
  pmap (Take len) HServerDone.
Definition parse_tls_handshake_msg_certificateverify (len : N) : P TlsMessageHandshake :=
  pmap (Take len) HCertificateVerify.
Definition parse_tls_clientkeyexchange (len : N) : P ClientKeyExchangeC :=
  pmap (Take len) CkeUnknown.
Definition parse_tls_handshake_msg_clientkeyexchange (len : N) : P TlsMessageHandshake :=
  pmap (parse_tls_clientkeyexchange len) HClientKeyExchange.

Definition ca_list : P (list slice) :=
  let* ca_len := be_u16 in
  map_parser (Take ca_len) (Many0 (Cmpl (length_data be_u16))).

Definition parse_certrequest_nosigalg : P CertRequestC :=
  let* cert_types := length_count_u8_u8 in
  let* unparsed_ca := ca_list in
  Ret (mkCR cert_types None unparsed_ca).

Definition parse_certrequest_full : P CertRequestC :=
  let* cert_types := length_count_u8_u8 in
  let* sig_hash_algs_len := be_u16 in
  let* sig_hash_algs := map_parser (Take sig_hash_algs_len) (Many0 (Cmpl be_u16)) in
  let* unparsed_ca := ca_list in
  Ret (mkCR cert_types (Some sig_hash_algs) unparsed_ca).

Definition parse_tls_handshake_certificaterequest : P CertRequestC :=
  Alt (Cmpl parse_certrequest_full) (Cmpl parse_certrequest_nosigalg).
Definition parse_tls_handshake_msg_certificaterequest : P TlsMessageHandshake :=
  pmap parse_tls_handshake_certificaterequest HCertificateRequest.

Definition parse_tls_handshake_msg_finished (len : N) : P TlsMessageHandshake :=
  pmap (Take len) HFinished.

Definition parse_tls_handshake_certificatestatus : P (N * slice) :=
  let* status_type := be_u8 in
  let* blob := length_data be_u24 in
  Ret (status_type, blob).
Definition parse_tls_handshake_msg_certificatestatus : P TlsMessageHandshake :=
  pmap parse_tls_handshake_certificatestatus (fun p => HCertificateStatus (fst p) (snd p)).

Definition parse_tls_handshake_next_protocol : P (slice * slice) :=
  let* selected := length_data be_u8 in
  let* padding := length_data be_u8 in
  Ret (selected, padding).
Definition parse_tls_handshake_msg_next_protocol : P TlsMessageHandshake :=
  pmap parse_tls_handshake_next_protocol (fun p => HNextProtocol (fst p) (snd p)).

Definition parse_tls_handshake_msg_key_update : P TlsMessageHandshake :=
  pmap be_u8 HKeyUpdate.

Definition parse_tls_handshake_msg_hello_request : P TlsMessageHandshake := Ret HHelloRequest.

(* body parser selected by the handshake dispatch table (gen/Dispatch.v) *)
Definition hs_body (b : hs_body_id) (hl : N) : P TlsMessageHandshake :=
  match b with
  | HB_hello_request => parse_tls_handshake_msg_hello_request
  | HB_client_hello => parse_tls_handshake_msg_client_hello
  | HB_server_hello => parse_tls_handshake_msg_server_hello
  | HB_newsessionticket => parse_tls_handshake_msg_newsessionticket hl
  | HB_end_of_early_data => Ret HEndOfEarlyData
  | HB_hello_retry_request => parse_tls_handshake_msg_hello_retry_request
  | HB_certificate => parse_tls_handshake_msg_certificate
  | HB_serverkeyexchange => parse_tls_handshake_msg_serverkeyexchange hl
  | HB_certificaterequest => parse_tls_handshake_msg_certificaterequest
  | HB_serverdone => parse_tls_handshake_msg_serverdone hl
  | HB_certificateverify => parse_tls_handshake_msg_certificateverify hl
  | HB_clientkeyexchange => parse_tls_handshake_msg_clientkeyexchange hl
  | HB_finished => parse_tls_handshake_msg_finished hl
  | HB_certificatestatus => parse_tls_handshake_msg_certificatestatus
  | HB_key_update => parse_tls_handshake_msg_key_update
  | HB_next_protocol => parse_tls_handshake_msg_next_protocol
  end.

Definition parse_tls_message_handshake : P TlsMessage :=
  let* ht := be_u8 in
  let* hl := be_u24 in
  let* raw_msg := Take hl in
  match assoc_N ht hs_table with
  | Some b => let* msg := On raw_msg (hs_body b hl) in Ret (MHandshake msg)
  | None => ErrK KSwitch
  end.
