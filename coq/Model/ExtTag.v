(* impl From<&TlsExtension> for TlsExtensionType, interpreted from the regenerated arm list
   (gen/ExtTypeOf.v, T7) and the regenerated constants of TlsExtensionType (gen/ConstTables.v, T1).
   Line protocol:  @exttype <hex>  ->  (tag N) for the extension parse_tls_extension decodes, else (none) *)
From Coq Require Import String.
From TlsModel Require Import Bytes Nom Values NtTypes ConstTables ExtTypeOf Extensions Show Entries.
Open Scope string_scope.

Definition variant_name (e : TlsExtension) : string :=
  match e with
  | ESNI _ => "SNI" | EMaxFragmentLength _ => "MaxFragmentLength" | EStatusRequest _ => "StatusRequest"
  | EEllipticCurves _ => "EllipticCurves" | EEcPointFormats _ => "EcPointFormats"
  | ESignatureAlgorithms _ => "SignatureAlgorithms" | ERecordSizeLimit _ => "RecordSizeLimit"
  | ESessionTicket _ => "SessionTicket" | EKeyShareOld _ => "KeyShareOld" | EKeyShare _ => "KeyShare"
  | EPreSharedKey _ => "PreSharedKey" | EEarlyData _ => "EarlyData" | ESupportedVersions _ => "SupportedVersions"
  | ECookie _ => "Cookie" | EPskExchangeModes _ => "PskExchangeModes" | EHeartbeat _ => "Heartbeat"
  | EALPN _ => "ALPN" | ESignedCertificateTimestamp _ => "SignedCertificateTimestamp" | EPadding _ => "Padding"
  | EEncryptThenMac => "EncryptThenMac" | EExtendedMasterSecret => "ExtendedMasterSecret"
  | EOidFilters _ => "OidFilters" | EPostHandshakeAuth => "PostHandshakeAuth"
  | ENextProtocolNegotiation => "NextProtocolNegotiation" | ERenegotiationInfo _ => "RenegotiationInfo"
  | EEncryptedServerName _ _ _ _ _ => "EncryptedServerName" | EGrease _ _ => "Grease" | EUnknown _ _ => "Unknown"
  end.
Fixpoint assoc_str {B} (k : string) (l : list (string * B)) : option B :=
  match l with [] => None | (a, b) :: t => if String.eqb a k then Some b else assoc_str k t end.
Definition bound_type (e : TlsExtension) : option N :=
  match e with EUnknown t _ => Some t | EGrease t _ => Some t | _ => None end.
Definition ext_type_of (e : TlsExtension) : option N :=
  match assoc_str (variant_name e) ext_type_arms with
  | Some (Some k) => assoc_str k (nt_consts nt_TlsExtensionType)
  | Some None => bound_type e
  | None => None
  end.

Open Scope list_scope.
Definition run_exttype_line (toks : list (list byte)) : list byte :=
  let b := match toks with h :: _ => if beq_bytes h [x2d] then [] else unhex h | [] => [] end in
  match run parse_tls_extension (mkS 0 b) with
  | Ok _ e => match ext_type_of e with Some t => str "(tag " ++ dec t ++ str ")" | None => str "(tag ?)" end
  | _ => str "(none)"
  end.
(* spec: the tag is the wire type, except that every GREASE value maps to the single Grease tag 0xfafa *)
Definition spec_exttype_line (toks : list (list byte)) : list byte :=
  let b := match toks with h :: _ => if beq_bytes h [x2d] then [] else unhex h | [] => [] end in
  match b with
  | hi :: lo :: _ =>
      let t := b2n hi * 256 + b2n lo in
      let g := (N.eqb (b2n hi) (b2n lo)) && (N.eqb (b2n lo mod 16) 10) in
      str "tag-or-none " ++ dec (if g then 64250 else t)
  | _ => str "= (none)"
  end.
