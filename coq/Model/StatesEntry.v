(* line protocol for the state machine:
     states <start-state-index> <msg>...    msg = 0,k,sid,variant,dir | 1,dir | 2,sev,code,dir | 3,variant,dir | 4,variant,dir
   output: "(states" followed by one state name or Err per message; after an Err the caller
   sets the state to Invalid (documented use) *)
From Coq Require Import String.
From TlsModel Require Import Show Entries States.

Definition state_name (s : TlsState) : string :=
  match s with
  | SNone => "None" | SClientHello => "ClientHello" | SAskResumeSession => "AskResumeSession"
  | SResumeSession => "ResumeSession" | SServerHello => "ServerHello" | SCertificate => "Certificate"
  | SCertificateSt => "CertificateSt" | SServerKeyExchange => "ServerKeyExchange"
  | SServerHelloDone => "ServerHelloDone" | SClientKeyExchange => "ClientKeyExchange"
  | SClientChangeCipherSpec => "ClientChangeCipherSpec" | SCRCertRequest => "CRCertRequest"
  | SCRHelloDone => "CRHelloDone" | SCRCert => "CRCert" | SCRClientKeyExchange => "CRClientKeyExchange"
  | SCRCertVerify => "CRCertVerify" | SNoCertSKE => "NoCertSKE" | SNoCertHelloDone => "NoCertHelloDone"
  | SNoCertCKE => "NoCertCKE" | SPskHelloDone => "PskHelloDone" | SPskCKE => "PskCKE"
  | SSessionEncrypted => "SessionEncrypted" | SAlert => "Alert" | SFinished => "Finished" | SInvalid => "Invalid"
  end.

Definition parse_msg_tok (t : list byte) : mkind * bool :=
  let a := map parse_dec (split_on x2c t) in
  let g k := nth k a 0 in
  let b k := negb (g k =? 0) in
  match g 0%nat with
  | 0 => (MkHs (nth (N.to_nat (g 1%nat)) all_hs_kinds KHelloRequest) (b 2%nat), b 4%nat)
  | 1 => (MkCcs, b 1%nat)
  | 2 => (MkAlert (g 1%nat) (g 2%nat), b 3%nat)
  | 3 => (MkAppData, b 2%nat)
  | _ => (MkHeartbeat, b 2%nat)
  end.

Definition run_states_line (f : TlsState -> mkind -> bool -> option TlsState) (toks : list (list byte)) : list byte :=
  match toks with
  | [] => str "(states)"
  | s0 :: msgs =>
      let st0 := nth (N.to_nat (parse_dec s0)) all_states SNone in
      let step (acc : list byte * TlsState) (t : list byte) :=
        let (out, st) := acc in
        let (m, d) := parse_msg_tok t in
        match f st m d with
        | Some s' => (out ++ x20 :: str (state_name s'), s')
        | None => (out ++ str " Err", SInvalid)
        end in
      (fst (fold_left step msgs (str "(states", st0)) ++ str ")")%list
  end.
