(* Glue between the Rust value constructors as the source writes them and the model's value types (Model/Values.v),
   used only by the source translation gen/SrcParsers.v (T12).  Where the model flattens a Rust struct into the
   arguments of a constructor, the struct literal becomes a tuple and the enclosing variant un-tuples it; all of these
   reduce by computation, so they add no meaning of their own. *)
From TlsModel Require Export Nom Values.

Definition g_id {A} (a : A) : A := a.
Definition g_pair {A B} (a : A) (b : B) : A * B := (a, b).
Definition g_triple {A B C} (a : A) (b : B) (c : C) : A * B * C := (a, b, c).

Definition g_MAlert (p : N * N) : TlsMessage := MAlert (fst p) (snd p).
Definition g_MApplicationData (b : slice) : TlsMessage := MApplicationData b.
Definition g_MHeartbeat (t : N * N * slice) : TlsMessage := MHeartbeat (fst (fst t)) (snd (fst t)) (snd t).
Definition g_HNewSessionTicket (p : N * slice) : TlsMessageHandshake := HNewSessionTicket (fst p) (snd p).
Definition g_HCertificateStatus (p : N * slice) : TlsMessageHandshake := HCertificateStatus (fst p) (snd p).
Definition g_HNextProtocol (p : slice * slice) : TlsMessageHandshake := HNextProtocol (fst p) (snd p).
Definition g_DMAlert (p : N * N) : DTLSMessage := DMAlert (fst p) (snd p).
Definition g_DHelloVerifyRequest (p : N * slice) : DTLSBody := DHelloVerifyRequest (fst p) (snd p).
Definition g_mkEP (prime_p : slice) (curve : slice * slice) (base order cofactor : slice) : ExplicitPrimeC :=
  mkEP prime_p (fst curve) (snd curve) base order cofactor.

(* `.chunks(2).map(|chunk| T((chunk[0] as u16) << 8 | chunk[1] as u16)).collect()`: chunk[1] panics on a trailing
   one-byte chunk (Model/Bytes.v pairs16 returns None there) *)
Definition pairs16_panics (l : list byte) : bool := match pairs16 l with None => true | Some _ => false end.
Definition pairs16_val (l : list byte) : list N := match pairs16 l with Some v => v | None => [] end.

(* &[] : the static empty slice (printed without an address by both sides) *)
Definition sempty : slice := mkS 0 [].

(* the result monad of the translated statements: `let (i, x) = e?;` *)
Definition bindr {A B} (r : res A) (k : slice -> A -> res B) : res B :=
  match r with
  | Ok rem a => k rem a
  | Err s e => Err s e | Fail s e => Fail s e
  | Incomplete n => Incomplete n | Panic => Panic | OutOfFuel => OutOfFuel
  end.

(* derived `parse` of two-field structs that the model keeps as pairs *)
Definition parse_alert_pair : P (N * N) := Bind be_u8 (fun s => Bind be_u8 (fun c => Ret (s, c))).
Definition parse_sig_hash_pair : P (N * N) := Bind be_u8 (fun h => Bind be_u8 (fun s => Ret (h, s))).
