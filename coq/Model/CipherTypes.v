(* src/tls_ciphers.rs: parameter enums and the registry row, mirroring the Rust types. *)
From Coq Require Export String NArith List.
Open Scope N_scope.
Inductive TlsCipherKx := KxNull | KxPsk | KxKrb5 | KxSrp | KxRsa | KxDh | KxDhe | KxEcdh | KxEcdhe | KxAecdh | KxEccpwd | KxTls13.
Inductive TlsCipherAu := AuNull | AuPsk | AuKrb5 | AuSrp | AuSrp_Dss | AuSrp_Rsa | AuDss | AuRsa | AuDhe | AuEcdsa | AuEccpwd | AuTls13.
Inductive TlsCipherEnc := EncNull | EncDes | EncTripleDes | EncRc2 | EncRc4 | EncAria | EncIdea | EncSeed | EncAes
                        | EncCamellia | EncChacha20_Poly1305 | EncSm4 | EncAegis.
Inductive TlsCipherEncMode := ModeNull | ModeCbc | ModeCcm | ModeGcm.
Inductive TlsCipherMac := MacNull | MacHmacMd5 | MacHmacSha1 | MacHmacSha256 | MacHmacSha384 | MacHmacSha512 | MacAead.
Inductive TlsPRF := PrfDefault | PrfNull | PrfMd5AndSha1 | PrfSha1 | PrfSha256 | PrfSha384 | PrfSha512 | PrfSm3.
Record cipher_row := mkRow {
  c_id : N; c_name : string; c_kx : TlsCipherKx; c_au : TlsCipherAu; c_enc : TlsCipherEnc;
  c_mode : TlsCipherEncMode; c_enc_size : N; c_mac : TlsCipherMac; c_mac_size : N; c_prf : TlsPRF;
  (* as computed by the implementation (dump only; 0 in spec rows) *)
  c_impl_key_size : N; c_impl_block_size : N; c_impl_mac_length : N }.
Scheme Equality for TlsCipherKx. Scheme Equality for TlsCipherAu. Scheme Equality for TlsCipherEnc.
Scheme Equality for TlsCipherEncMode. Scheme Equality for TlsCipherMac. Scheme Equality for TlsPRF.
