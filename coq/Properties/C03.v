(* C03 — a record's payload decodes to exactly its messages, in order. *)
From TlsModel Require Import Bytes Nom Values Handshake Record ManyLemmas Wire Strip RecordSpec RecordProofs MessageProofs HandshakeProofs.

(* the record content dispatch read from the source on this run is the expected one
   (20 CCS, 21 alert, 22 handshake: many1(complete(..)); 23: the blob once; 24: complete(heartbeat)) *)
Theorem C03_dispatch : rec_table_std = true.
Proof. exact (eq_refl true). Qed.

(* one or more ChangeCipherSpec bytes / alerts / handshake messages, followed by any tail on which the
   message parser stops (in particular the end of the payload): exactly those messages, in wire order,
   modulo slice offsets; the undecoded tail is the remainder (two-step parsing) *)
Theorem C03_decode_ccs : forall hdr, h_type hdr = 20 -> forall m ms o tail,
  (forall x, In x (m :: ms) -> wf_ccs x) ->
  stops parse_tls_message_changecipherspec (mkS (o + lenN (cat enc_msg (m :: ms))) tail) ->
  exists vs', run (parse_tls_record_with_header hdr) (mkS o (cat enc_msg (m :: ms) ++ tail)) =
                Ok (mkS (o + lenN (cat enc_msg (m :: ms))) tail) vs' /\ msgs_eqv vs' (m :: ms).
Proof. exact (decode_ccs C03_dispatch). Qed.
Theorem C03_decode_alert : forall hdr, h_type hdr = 21 -> forall m ms o tail,
  (forall x, In x (m :: ms) -> wf_alert x) ->
  stops parse_tls_message_alert (mkS (o + lenN (cat enc_msg (m :: ms))) tail) ->
  exists vs', run (parse_tls_record_with_header hdr) (mkS o (cat enc_msg (m :: ms) ++ tail)) =
                Ok (mkS (o + lenN (cat enc_msg (m :: ms))) tail) vs' /\ msgs_eqv vs' (m :: ms).
Proof. exact (decode_alert C03_dispatch). Qed.
(* handshake records: for every class of handshake values that round-trips (C04 supplies it) *)
Theorem C03_decode_handshake : forall hdr wf, h_type hdr = 22 ->
  roundtrips parse_tls_message_handshake enc_msg wf msg_eqv -> nonempty_enc enc_msg wf ->
  forall m ms o tail,
  (forall x, In x (m :: ms) -> wf x) ->
  stops parse_tls_message_handshake (mkS (o + lenN (cat enc_msg (m :: ms))) tail) ->
  exists vs', run (parse_tls_record_with_header hdr) (mkS o (cat enc_msg (m :: ms) ++ tail)) =
                Ok (mkS (o + lenN (cat enc_msg (m :: ms))) tail) vs' /\ msgs_eqv vs' (m :: ms).
Proof. exact (decode_handshake C03_dispatch). Qed.
(* instantiated with C04's round-trip: every list of well-formed handshake values of the 17 variants *)
Theorem C03_decode_handshake_all : forall (Ht : hs_tables_std = true) hdr, h_type hdr = 22 ->
  forall m ms o tail,
  (forall x, In x (m :: ms) -> wf_hs_msg Ht x) ->
  stops parse_tls_message_handshake (mkS (o + lenN (cat enc_msg (m :: ms))) tail) ->
  exists vs', run (parse_tls_record_with_header hdr) (mkS o (cat enc_msg (m :: ms) ++ tail)) =
                Ok (mkS (o + lenN (cat enc_msg (m :: ms))) tail) vs' /\ msgs_eqv vs' (m :: ms).
Proof.
  intros Ht hdr H. exact (C03_decode_handshake hdr (wf_hs_msg Ht) H (handshake_msgs_rt Ht) (handshake_msgs_ne Ht)).
Qed.
Theorem C03_decode_appdata : forall hdr, h_type hdr = 23 -> forall blob o,
  run (parse_tls_record_with_header hdr) (mkS o blob) =
    Ok (mkS (o + lenN blob) []) [MApplicationData (mkS o blob)].
Proof. exact (decode_appdata C03_dispatch). Qed.
Theorem C03_decode_heartbeat : forall hdr, h_type hdr = 24 -> 3 <= h_len hdr -> forall t payload padding o,
  t < 256 -> lenN payload < 65536 ->
  run (parse_tls_record_with_header hdr) (mkS o (u8 t ++ u16 (lenN payload) ++ payload ++ padding)) =
    Ok (mkS (o + 3 + lenN payload) padding) [MHeartbeat t (lenN payload) (mkS (o + 3) payload)].
Proof. exact (decode_heartbeat C03_dispatch). Qed.

Theorem C03_one_step_two_step : forall i,
  run parse_tls_plaintext i =
    match run parse_tls_raw_record i with
    | Ok rest raw => lift_plain (r_hdr raw) rest (run (parse_tls_record_with_header (r_hdr raw)) (r_data raw))
    | Err s k => Err s k | Fail s k => Fail s k
    | Incomplete n => Incomplete n | Panic => Panic | OutOfFuel => OutOfFuel
    end.
Proof. exact one_step_two_step. Qed.

Theorem C03_reject_unknown_type : forall hdr i,
  ~ In (h_type hdr) [20; 21; 22; 23; 24] -> run (parse_tls_record_with_header hdr) i = Err i KSwitch.
Proof. exact (reject_unknown_type C03_dispatch). Qed.
Theorem C03_reject_first_bad : forall hdr i, In (h_type hdr) [20; 21; 22] ->
  (h_type hdr = 20 -> stops parse_tls_message_changecipherspec i) ->
  (h_type hdr = 21 -> stops parse_tls_message_alert i) ->
  (h_type hdr = 22 -> stops parse_tls_message_handshake i) ->
  exists s k, run (parse_tls_record_with_header hdr) i = Err s k.
Proof. exact (reject_first_bad C03_dispatch). Qed.
Theorem C03_reject_empty : forall hdr o, In (h_type hdr) [20; 21; 22] ->
  exists s k, run (parse_tls_record_with_header hdr) (mkS o []) = Err s k.
Proof. exact (reject_empty C03_dispatch). Qed.

Print Assumptions C03_dispatch.
Print Assumptions C03_decode_ccs.
Print Assumptions C03_decode_alert.
Print Assumptions C03_decode_handshake.
Print Assumptions C03_decode_handshake_all.
Print Assumptions C03_decode_appdata.
Print Assumptions C03_decode_heartbeat.
Print Assumptions C03_one_step_two_step.
Print Assumptions C03_reject_unknown_type.
Print Assumptions C03_reject_first_bad.
Print Assumptions C03_reject_empty.
