(* C02 — TLS record framing: exact header decode, length cap, streaming contract.
   Only statements; every proof is [exact <lemma>]. *)
From TlsModel Require Import Bytes Nom Values Record RecordSpec Wire RecordProofs Consts.

(* the cap read from the source on this run *)
Theorem C02_cap : MAX_RECORD_LEN = 2 ^ 14 + 256.
Proof. exact cap_value. Qed.

(* complete characterisation, for every input (every byte string at every offset) *)
Theorem C02_raw_spec : forall i, run parse_tls_raw_record i = framing_spec_raw i.
Proof. exact raw_spec. Qed.
Theorem C02_encrypted_spec : forall i, run parse_tls_encrypted i = framing_spec_enc i.
Proof. exact enc_spec. Qed.
Theorem C02_plaintext_char : forall i,
  run parse_tls_plaintext i =
    match framing_spec i with
    | FrIncomplete m => Incomplete (Size m)
    | FrTooLarge s => Err s KTooLarge
    | FrOk h p r => lift_plain h r (run (parse_tls_record_with_header h) p)
    end.
Proof. exact plaintext_char. Qed.

(* what the framing is for every header (256 x 65536 x 65536 field values) and every body:
   TooLarge above the cap whatever follows; Incomplete with the exact missing count iff the
   body is a strict prefix; otherwise exactly [len] payload bytes and the rest untouched *)
Theorem C02_framing_fields : forall ty ver len body o,
  ty < 256 -> ver < 65536 -> len < 65536 ->
  framing_spec (mkS o (u8 ty ++ u16 ver ++ u16 len ++ body)) =
    if RECORD_CAP <? len then FrTooLarge (mkS (o + 5) body)
    else if lenN body <? len then FrIncomplete (len - lenN body)
    else FrOk (mkHdr ty ver len) (mkS (o + 5) (takeN body len)) (mkS (o + 5 + len) (dropN body len)).
Proof. exact framing_fields. Qed.

Theorem C02_roundtrip : forall ty ver payload rest o,
  ty < 256 -> ver < 65536 -> lenN payload <= RECORD_CAP ->
  framing_spec (mkS o (enc_record ty ver payload ++ rest)) =
    FrOk (mkHdr ty ver (lenN payload)) (mkS (o + 5) payload) (mkS (o + 5 + lenN payload) rest).
Proof. exact framing_of_encoding. Qed.

(* obligation over the regenerated record dispatch table: no content parser may
   answer Incomplete on a complete payload (checked by computation on gen/Dispatch.v) *)
Theorem C02_inner_never_incomplete :
  forall hdr d n, run (parse_tls_record_with_header hdr) d <> Incomplete n.
Proof. exact (inner_never_incomplete (eq_refl true)). Qed.

Theorem C02_plaintext_incomplete_iff : forall i n,
  run parse_tls_plaintext i = Incomplete n <-> exists m, framing_spec i = FrIncomplete m /\ n = Size m.
Proof. exact (plaintext_incomplete_iff (eq_refl true)). Qed.

(* non-vacuity *)
Example C02_ex_ok :
  framing_spec (mkS 0 [x16; x03; x03; x00; x02; xaa; xbb; xcc]) =
    FrOk (mkHdr 22 771 2) (mkS 5 [xaa; xbb]) (mkS 7 [xcc]).
Proof. reflexivity. Qed.
Example C02_ex_inc : framing_spec (mkS 0 [x16; x03; x03; x00; x02; xaa]) = FrIncomplete 1.
Proof. reflexivity. Qed.

Print Assumptions C02_cap.
Print Assumptions C02_raw_spec.
Print Assumptions C02_encrypted_spec.
Print Assumptions C02_plaintext_char.
Print Assumptions C02_framing_fields.
Print Assumptions C02_roundtrip.
Print Assumptions C02_inner_never_incomplete.
Print Assumptions C02_plaintext_incomplete_iff.
