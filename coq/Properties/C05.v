(* C05 — extensions decode by IANA type; GREASE and unknown types are preserved. *)
From TlsModel Require Import Bytes Nom Values DispatchTypes Extensions Wire Strip ExtEnc ManyLemmas ExtProofs ExtTag ExtTagProofs.
From TlsModel Require Import Dispatch.

(* obligations over the tables regenerated from the three `match ext_type` blocks, the GREASE test and
   the 16 tag([hi,lo]) lines *)
Theorem C05_table_iana : generic_ok = true.
Proof. vm_compute. reflexivity. Qed.
Theorem C05_client_table_agrees : sub_table_ok client_table = true.
Proof. vm_compute. reflexivity. Qed.
Theorem C05_server_table_agrees : sub_table_ok server_table = true.
Proof. vm_compute. reflexivity. Qed.
Theorem C05_grease_exact : grease_ok = true.
Proof. vm_compute. reflexivity. Qed.
Theorem C05_tags_iana : tags_ok = true.
Proof. vm_compute. reflexivity. Qed.

(* each of the 26 typed variants, every well-formed content, any trailing bytes *)
Theorem C05_known_roundtrip : forall e rest o, wf_ext e -> typed e ->
  exists e', run parse_tls_extension (mkS o (enc_ext e ++ rest)) = Ok (mkS (o + lenN (enc_ext e)) rest) e' /\ ext_eqv e' e.
Proof. exact (ext_roundtrip C05_table_iana C05_grease_exact). Qed.
(* ... and through any dispatcher that lists the type with the IANA content parser *)
Theorem C05_known_roundtrip_any_dispatcher : forall tbl e rest o,
  (forall t c, assoc_N t generic_expected = Some c -> In t (map fst tbl) -> assoc_N t tbl = Some c) ->
  In (iana_type e) (map fst tbl) -> wf_ext e -> typed e ->
  exists e', run (dispatch_ext tbl) (mkS o (enc_ext e ++ rest)) = Ok (mkS (o + lenN (enc_ext e)) rest) e' /\ ext_eqv e' e.
Proof. exact (ext_roundtrip_gen C05_grease_exact). Qed.

Theorem C05_grease : forall tbl t data rest o, t < 65536 -> is_grease_simple t = true -> lenN data < 65536 ->
  run (dispatch_ext tbl) (mkS o (u16 t ++ vec16 data ++ rest)) =
    Ok (mkS (o + 4 + lenN data) rest) (EGrease t (mkS (o + 4) data)).
Proof. exact (grease_preserved C05_grease_exact). Qed.
Theorem C05_unknown : forall tbl t data rest o, t < 65536 -> is_grease_simple t = false -> lenN data < 65536 ->
  assoc_N t tbl = None ->
  run (dispatch_ext tbl) (mkS o (u16 t ++ vec16 data ++ rest)) =
    Ok (mkS (o + 4 + lenN data) rest) (EUnknown t (mkS (o + 4) data)).
Proof. exact (unknown_preserved C05_grease_exact). Qed.

Theorem C05_list : forall es o, (forall e, In e es -> wf_any e) ->
  exists es', run parse_tls_extensions (mkS o (cat enc_ext es)) = Ok (mkS (o + lenN (cat enc_ext es)) []) es' /\
              Forall2 ext_eqv es' es.
Proof. exact (ext_list_roundtrip C05_table_iana C05_grease_exact). Qed.

Theorem C05_dispatchers_agree : forall t1 t2 i,
  (forall t, assoc_N t t1 = assoc_N t t2) -> run (dispatch_ext t1) i = run (dispatch_ext t2) i.
Proof. exact dispatchers_agree. Qed.

Theorem C05_empty_only : forall c len i,
  In c [XC_encrypt_then_mac; XC_extended_master_secret; XC_post_handshake_auth; XC_npn] -> len <> 0 ->
  run (ext_content c len) i = Err i KVerify.
Proof. exact empty_only_rejects. Qed.
Theorem C05_overlong : forall tbl t len content o, t < 65536 -> len < 65536 -> lenN content < len ->
  run (dispatch_ext tbl) (mkS o (u16 t ++ u16 len ++ content)) = Incomplete (Size (len - lenN content)).
Proof. exact dispatch_overlong. Qed.

(* the extension-type tag derived from a decoded variant (impl From<&TlsExtension>, arms regenerated: T7) equals the
   wire type; every GREASE value maps to the single Grease tag 0xfafa *)
Theorem C05_type_tag_typed : forall e, typed e -> ext_type_of e = Some (iana_type e).
Proof. exact ext_tag_typed. Qed.
Theorem C05_type_tag_unknown : forall t s, ext_type_of (EUnknown t s) = Some t.
Proof. exact ext_tag_unknown. Qed.
Theorem C05_type_tag_grease : forall t s, ext_type_of (EGrease t s) = Some 64250.
Proof. exact ext_tag_grease. Qed.

(* each single-purpose extension parser accepts exactly its own IANA type ... *)
Theorem C05_single_purpose_reject_other_types :
  Forall (fun e => forall t' rest o, t' < 65536 -> t' <> fst e ->
            run (snd e) (mkS o (u16 t' ++ rest)) = Err (mkS o (u16 t' ++ rest)) KTag) own_types.
Proof. exact (single_purpose_reject_other_types C05_table_iana C05_grease_exact C05_tags_iana). Qed.
(* ... and then is the generic parser, on every continuation (heartbeat additionally insists on length 1) *)
Theorem C05_single_purpose_agree_with_generic :
  Forall (fun e => fst e <> 15 -> forall rest o,
            run (snd e) (mkS o (u16 (fst e) ++ rest)) = run parse_tls_extension (mkS o (u16 (fst e) ++ rest))) own_types.
Proof. exact (single_purpose_agree_with_generic C05_table_iana C05_grease_exact C05_tags_iana). Qed.

Print Assumptions C05_table_iana.
Print Assumptions C05_client_table_agrees.
Print Assumptions C05_server_table_agrees.
Print Assumptions C05_grease_exact.
Print Assumptions C05_tags_iana.
Print Assumptions C05_known_roundtrip.
Print Assumptions C05_known_roundtrip_any_dispatcher.
Print Assumptions C05_grease.
Print Assumptions C05_unknown.
Print Assumptions C05_list.
Print Assumptions C05_dispatchers_agree.
Print Assumptions C05_empty_only.
Print Assumptions C05_overlong.
Print Assumptions C05_type_tag_typed.
Print Assumptions C05_type_tag_unknown.
Print Assumptions C05_type_tag_grease.
Print Assumptions C05_single_purpose_reject_other_types.
Print Assumptions C05_single_purpose_agree_with_generic.
