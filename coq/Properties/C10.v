(* C10 — DTLS records and handshake fragments decode per RFC 6347. *)
From TlsModel Require Import Bytes Nom Values DispatchTypes Dtls Wire Strip DtlsEnc RecordSpec DtlsProofs MultiRecordProofs.

Theorem C10_tables : dtls_tables_std = true.
Proof. vm_compute. reflexivity. Qed.

(* 13-byte header: type, version, 16-bit epoch, 48-bit sequence number, 16-bit length, all verbatim *)
Theorem C10_header : forall h rest o, wf_dhdr h ->
  run parse_dtls_record_header (mkS o (enc_dtls_hdr h ++ rest)) = Ok (mkS (o + 13) rest) h.
Proof. exact dtls_header_roundtrip. Qed.

(* framing: the same 2^14+256 cap, TooLarge whatever follows, Incomplete with the exact missing count iff the
   body is a strict prefix, otherwise exactly [length] bytes are handed to the content parser and the rest is
   the remainder *)
Theorem C10_record_char : forall h body o, wf_dhdr h ->
  run parse_dtls_plaintext_record (mkS o (enc_dtls_hdr h ++ body)) =
    if RECORD_CAP <? d_len h then Err (mkS (o + 13) body) KTooLarge
    else if lenN body <? d_len h then Incomplete (Size (d_len h - lenN body))
    else lift_dplain h (mkS (o + 13 + d_len h) (dropN body (d_len h)))
           (run (parse_dtls_record_with_header h) (mkS (o + 13) (takeN body (d_len h)))).
Proof. exact dtls_record_char. Qed.
Theorem C10_header_incomplete : forall i, slen i < 13 -> exists n, run parse_dtls_plaintext_record i = Incomplete n.
Proof. exact dtls_header_incomplete. Qed.

(* the 12-byte handshake header on every input that carries the declared fragment *)
Theorem C10_handshake_char : forall ty len mseq foff frag rest o,
  ty < 256 -> len < 16777216 -> mseq < 65536 -> foff < 16777216 -> lenN frag < 16777216 ->
  run parse_dtls_message_handshake (mkS o (enc_dtls_hs ty len mseq foff frag ++ rest)) =
    if (0 <? foff) || (lenN frag <? len)
    then Ok (mkS (o + 12 + lenN frag) rest) (DMHandshake (mkDHS ty len mseq foff (lenN frag) (DFragment (mkS (o + 12) frag))))
    else match assoc_N ty Dispatch.dtls_hs_table with
         | Some b => lift_dbody (mkS (o + 12 + lenN frag) rest) ty len mseq foff (lenN frag)
                       (run (dtls_hs_body b len) (mkS (o + 12) frag))
         | None => Err (mkS (o + 12 + lenN frag) rest) KSwitch
         end.
Proof. exact dtls_handshake_char. Qed.

Theorem C10_fragment : forall ty len mseq foff frag rest o,
  ty < 256 -> len < 16777216 -> mseq < 65536 -> foff < 16777216 -> lenN frag < 16777216 ->
  0 < foff \/ lenN frag < len ->
  run parse_dtls_message_handshake (mkS o (enc_dtls_hs ty len mseq foff frag ++ rest)) =
    Ok (mkS (o + 12 + lenN frag) rest) (DMHandshake (mkDHS ty len mseq foff (lenN frag) (DFragment (mkS (o + 12) frag)))).
Proof. exact dtls_fragment. Qed.

(* ClientHello (cookie 0..255 bytes), HelloVerifyRequest, ServerHello, Certificate, ServerHelloDone, ClientKeyExchange *)
Theorem C10_message_roundtrip : forall b mseq rest o, wf_dbody b -> mseq < 65536 -> lenN (enc_dtls_body b) < 16777216 ->
  exists b', run parse_dtls_message_handshake
               (mkS o (enc_dtls_hs (dbody_type b) (lenN (enc_dtls_body b)) mseq 0 (enc_dtls_body b) ++ rest)) =
             Ok (mkS (o + 12 + lenN (enc_dtls_body b)) rest)
                (DMHandshake (mkDHS (dbody_type b) (lenN (enc_dtls_body b)) mseq 0 (lenN (enc_dtls_body b)) b')) /\
             strip_dbody b' = strip_dbody b.
Proof. exact (dtls_message_roundtrip C10_tables). Qed.

(* several records in one datagram: C16_dtls_many *)
Theorem C10_datagram : forall i,
  run parse_dtls_plaintext_records i =
    match iterate (fun j => run parse_dtls_plaintext_record j) (bytes i) i with
    | ([], _) => match run parse_dtls_plaintext_record i with
                 | Incomplete _ => Err i KComplete | Err s k => Err s k | _ => Err i KComplete end
    | (recs, rem) => Ok rem recs
    end.
Proof. exact dtls_many_is_iterate. Qed.

Print Assumptions C10_tables.
Print Assumptions C10_header.
Print Assumptions C10_record_char.
Print Assumptions C10_header_incomplete.
Print Assumptions C10_handshake_char.
Print Assumptions C10_fragment.
Print Assumptions C10_message_roundtrip.
Print Assumptions C10_datagram.
