(* C13 — key-exchange parameters and signatures decode exactly and self-delimit. *)
From TlsModel Require Import Bytes Nom Values Kx Wire KxEnc KxProofs.

Theorem C13_dh_roundtrip : forall d rest o, wf_dh d ->
  exists v', run parse_dh_params (mkS o (enc_dh d ++ rest)) = Ok (mkS (o + lenN (enc_dh d)) rest) v' /\ strip_dh v' = strip_dh d.
Proof. exact dh_roundtrip. Qed.
Theorem C13_point_roundtrip : forall s rest o, fits8 s ->
  run parse_ec_point (mkS o (vec8 (bytes s) ++ rest)) = Ok (mkS (o + 1 + slen s) rest) (mkS (o + 1) (bytes s)).
Proof. exact point_roundtrip. Qed.
Theorem C13_ecparams_roundtrip : forall p rest o, wf_ecparams p ->
  exists v', run parse_ec_parameters (mkS o (enc_ecparams p ++ rest)) =
               Ok (mkS (o + lenN (enc_ecparams p)) rest) v' /\ strip_ecp v' = strip_ecp p.
Proof. exact ecparams_roundtrip. Qed.
Theorem C13_ecdh_roundtrip : forall p rest o, wf_ecdh p ->
  exists v', run parse_ecdh_params (mkS o (enc_ecdh p ++ rest)) =
               Ok (mkS (o + lenN (enc_ecdh p)) rest) v' /\ strip_ecdh v' = strip_ecdh p.
Proof. exact ecdh_roundtrip. Qed.
Theorem C13_curve_type_rejected : forall t rest o, t < 256 -> t <> 1 -> t <> 3 ->
  run parse_ec_parameters (mkS o (u8 t ++ rest)) = Err (mkS (o + 1) rest) KSwitch.
Proof. exact curve_type_rejected. Qed.
Theorem C13_signed_roundtrip : forall d rest o, wf_signed d ->
  exists v', run (if match ds_alg d with Some _ => true | None => false end
                  then parse_digitally_signed else parse_digitally_signed_old) (mkS o (enc_signed d ++ rest)) =
               Ok (mkS (o + lenN (enc_signed d)) rest) v' /\ strip_ds v' = strip_ds d.
Proof. exact signed_roundtrip. Qed.
(* for every content parser and both values of the flag *)
Theorem C13_content_and_signature : forall T (f : P T) ext i,
  run (parse_content_and_signature f ext) i =
    match run f i with
    | Ok r c =>
        match run (if ext then parse_digitally_signed else parse_digitally_signed_old) r with
        | Ok r' s => Ok r' (c, s)
        | Err a k => Err a k | Fail a k => Fail a k
        | Incomplete n => Incomplete n | Panic => Panic | OutOfFuel => OutOfFuel
        end
    | Err a k => Err a k | Fail a k => Fail a k
    | Incomplete n => Incomplete n | Panic => Panic | OutOfFuel => OutOfFuel
    end.
Proof. exact content_and_signature_char. Qed.

Print Assumptions C13_dh_roundtrip.
Print Assumptions C13_point_roundtrip.
Print Assumptions C13_ecparams_roundtrip.
Print Assumptions C13_ecdh_roundtrip.
Print Assumptions C13_curve_type_rejected.
Print Assumptions C13_signed_roundtrip.
Print Assumptions C13_content_and_signature.
