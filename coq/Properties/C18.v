(* C18 — feature matrix.  What a theorem can carry here: the conditional-compilation table of the source
   (regenerated on every run) contains no feature-dependent code outside the four crate-level items of lib.rs,
   so the parsers are the same program text in every configuration and the (configuration-free) model is the
   model of each of them; unsafe code is forbidden and absent; serialize-without-std is gated by compile_error.
   That the three configurations build, that the gate fires, and Send/Sync of every public type are decided by
   rustc itself during the check (see DESIGN.md); the behavioural clause is tied by running the same cases
   through the model and through the implementation built in each configuration. *)
From Coq Require Import String List NArith.
From TlsModel Require Import Config ConfigProofs.
Import ListNotations.
Open Scope string_scope.

Theorem C18_config_obligation : config_ok = true.
Proof. vm_compute. reflexivity. Qed.

Theorem C18_no_feature_dependent_parser_code :
  forall file kind cond item, In (file, kind, cond, item) cfg_sites ->
    kind = "cfg" /\
    (cond = "test" \/
     (cond = "tls_parser_verif" /\ file = "tls_records_parser.rs" /\ item = "implTlsRecordsParser{") \/
     (file = "lib.rs" /\ In (cond, item) lib_sites)).
Proof. exact (no_feature_dependent_parser_code C18_config_obligation). Qed.

Theorem C18_no_unsafe_code : unsafe_tokens = 0%N /\ In "forbid(unsafe_code)" crate_attrs /\ In "no_std" crate_attrs.
Proof. exact (no_unsafe_code C18_config_obligation). Qed.

Theorem C18_serialize_without_std_gated :
  exists item, In ("lib.rs", "cfg", "all(feature=serialize,not(feature=std))", item) cfg_sites /\
               String.prefix "compile_error!(" item = true.
Proof. exact (serialize_without_std_gated C18_config_obligation). Qed.

Print Assumptions C18_config_obligation.
Print Assumptions C18_no_feature_dependent_parser_code.
Print Assumptions C18_no_unsafe_code.
Print Assumptions C18_serialize_without_std_gated.
