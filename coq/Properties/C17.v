(* C17 — registry constants, names and integer conversions. *)
From Coq Require Import String NArith List.
From TlsModel Require Import NtTypes NewtypeEnum ConstTables KeyBits IanaConsts NtSpec NtProofs.
Open Scope N_scope.

(* every named constant has its IANA value, and nothing else is defined (18 registry types;
   obligation over the tables regenerated from the newtype_enum! blocks) *)
Theorem C17_values : forall t, In t nt_all -> forall k v,
  In (k, v) (nt_consts t) <-> In (k, v) (iana_of (nt_name t) iana_all).
Proof. exact (values (eq_refl true)). Qed.

(* Display text for every integer (not only the field's domain): the constant's name if
   one is assigned, the numeric fallback otherwise; the fallback contains the value *)
Theorem C17_display : forall t, In t nt_all -> forall n,
  display t n = match lookup_name n (iana_of (nt_name t) iana_all) with
                | Some k => k
                | None => fallback t n
                end.
Proof. exact (display_spec (eq_refl true)). Qed.
Theorem C17_fallback_contains_value : forall t n, exists a b, fallback t n = (a ++ sdec n ++ b)%string.
Proof. exact fallback_contains_value. Qed.

Theorem C17_sigscheme : forall s, s < 65536 ->
  sig_hash_alg s = s / 256 /\ sig_sign_alg s = s mod 256 /\
  (sig_is_reserved s = true <-> 65024 <= s <= 65279).
Proof. exact sigscheme. Qed.

(* key_bits: the field size for every curve whose (SEC / Brainpool) name states one;
   None for every unregistered group (all integers) *)
Theorem C17_key_bits_named : forall nm g b,
  In (nm, g) iana_NamedGroup -> curve_bits nm = Some b -> key_bits g = Some b.
Proof. exact (key_bits_named (eq_refl true)). Qed.
Theorem C17_key_bits_unregistered : forall g,
  lookup_name g iana_NamedGroup = None -> key_bits g = None.
Proof. exact (key_bits_unregistered (eq_refl true)). Qed.

(* non-vacuity *)
Example C17_ex1 : curve_bits "BrainpoolP512r1tls13" = Some 512. Proof. reflexivity. Qed.
Example C17_ex2 : curve_bits "EcdhX25519" = None. Proof. reflexivity. Qed.
Example C17_ex3 : display nt_TlsAlertSeverity 129 = "TlsAlertSeverity(129 / 0x81)"%string. Proof. reflexivity. Qed.
Example C17_ex4 : In nt_NamedGroup nt_all. Proof. cbn; tauto. Qed.

Print Assumptions C17_values.
Print Assumptions C17_display.
Print Assumptions C17_fallback_contains_value.
Print Assumptions C17_sigscheme.
Print Assumptions C17_key_bits_named.
Print Assumptions C17_key_bits_unregistered.
